import O1722.Spec.Wire
import O1722.Model.Utils
import O1722.Lemmas.Bits
import O1722.Lemmas.Byteorder
import O1722.Lemmas.Mem
import O1722.Lemmas.Get
