/-
  Main.lean — line-protocol driver: evaluates the Spec (wire layouts, reference reader /
  writer, canonical headers, reference encoders) and the hand Models on the same operation
  lines the C harness feeds to the real library, and prints canonical results to diff.

  Imports only Spec + Model (core Lean), so it links as a native executable.
-/
import O1722.Spec.Wire
import O1722.Spec.Formats
import O1722.Model.Utils
import O1722.Driver.Ops

open O1722

partial def loop (h : IO.FS.Stream) (out : IO.FS.Stream) (st : Driver.State) : IO Unit := do
  let line ← h.getLine
  if line.isEmpty then
    out.flush
    return ()
  let (st', res) := Driver.step st line
  if !res.isEmpty then out.putStrLn res
  loop h out st'

def main (args : List String) : IO UInt32 := do
  let out ← IO.getStdout
  match args with
  | ["spec"] =>
    out.putStrLn Driver.specJson
    return 0
  | ["views"] =>
    out.putStrLn Driver.viewsJson
    return 0
  | _ =>
    loop (← IO.getStdin) out Driver.State.empty
    return 0
