/-
  Refine/Props.lean — properties of the C TEXT of Utils.c (as serialised into Gen/Cir.lean and
  run by the C semantics of CSem/Eval.lean), obtained by composing the refinement theorems
  (`Avtp_GetField_refines`, `Avtp_SetField_refines`) with the theorems about the Model.
  Every statement is about `callFn (mkEnv e rom glob) 27 "Avtp_…" args ⟨m, []⟩`, i.e. about running
  the function /repo currently contains, for every memory, PDU address, valid descriptor table,
  field identifier, value and host byte order; `= some …` includes: terminates within the fuel,
  no signed overflow, no out-of-range shift, no NULL dereference.
  CODE-DEPENDENT (rebuilt against the regenerated Gen/Cir.lean on every run).
-/
import O1722.Refine.UtilsSet
import O1722.Props.Fields
import O1722.Props.Alignment

open O1722 O1722.C
namespace O1722.Refine

section
variable (e : Endian) (rom : Nat → Byte) (glob : String → Nat) (tbl : List Desc) (tb : Nat)
  (hrom : RomTable rom tb tbl) (hvalid : ∀ d ∈ tbl, d.Valid)
  (numFields : Nat) (hnf : numFields < 256) (hn : numFields ≤ tbl.length)
include hrom hvalid hnf hn

/-- **C01 on the C text.** The generic reader returns exactly the field's wire bits, MSB first,
    leaves memory unchanged, and every access it makes is a byte-wise (alignment 1) read of a
    quadlet the field occupies (C03, C15, C16-reader). -/
theorem C01_code (field : Nat) (hfield : field < numFields) (p : Nat) (hp0 : p ≠ 0)
    (hpb : p + 1024 ≤ 18446744073709551616) (m : Mem) :
    ∃ log, callFn (mkEnv e rom glob) 27 "Avtp_GetField" [tb, numFields, p, field] ⟨m, []⟩
        = some (specGet m p (tbl[field]'(by omega)).start (tbl[field]'(by omega)).bits, ⟨m, log⟩)
      ∧ ∀ a ∈ log, FieldAccess (tbl[field]'(by omega)) p a ∧ a.write = false ∧ a.align = 1 := by
  have hfl : field < tbl.length := by omega
  have hrow : tbl[field]? = some tbl[field] := List.getElem?_eq_getElem hfl
  have hd : (tbl[field]).Valid := hvalid _ (List.getElem_mem hfl)
  have h := Avtp_GetField_refines e rom glob tbl tb hrom hvalid numFields field hnf (by omega) hn (some p)
    (by intro q hq; cases hq; exact ⟨hp0, hpb⟩) m
  refine ⟨(getFieldLog e tbl numFields m (some p) field).2, ?_, ?_⟩
  · rw [show (some p).getD 0 = p from rfl] at h
    rw [h]
    have := getField_spec e tbl numFields m p field _ hfield hrow hd
    unfold getField at this
    rw [this]
  · intro a ha
    obtain ⟨h1, h2⟩ := getFieldLog_accesses e tbl numFields m p field _ hrow hd a ha
    exact ⟨h1, h2, h1.2.1⟩

/-- **C02 on the C text.** The generic writer performs exactly the reference write of the value
    into the field's bit range (hence changes nothing else), and every access it makes is a
    byte-wise access of a quadlet the field occupies. -/
theorem C02_code (field value : Nat) (hfield : field < numFields) (hv : value < 18446744073709551616)
    (p : Nat) (hp0 : p ≠ 0) (hpb : p + 1024 ≤ 18446744073709551616) (m : Mem) :
    ∃ log, callFn (mkEnv e rom glob) 27 "Avtp_SetField" [tb, numFields, p, field, value] ⟨m, []⟩
        = some (0, ⟨specSet m p (tbl[field]'(by omega)).start (tbl[field]'(by omega)).bits value, log⟩)
      ∧ ∀ a ∈ log, FieldAccess (tbl[field]'(by omega)) p a := by
  have hfl : field < tbl.length := by omega
  have hrow : tbl[field]? = some tbl[field] := List.getElem?_eq_getElem hfl
  have hd : (tbl[field]).Valid := hvalid _ (List.getElem_mem hfl)
  have h := Avtp_SetField_refines e rom glob tbl tb hrom hvalid numFields field value hnf (by omega) hv hn (some p)
    (by intro q hq; cases hq; exact ⟨hp0, hpb⟩) m
  refine ⟨(setFieldLog e tbl numFields m (some p) field value).2, ?_, ?_⟩
  · rw [show (some p).getD 0 = p from rfl] at h
    rw [h]
    have := setField_spec e tbl numFields m p field value _ hfield hrow hd
    unfold setField at this
    rw [this, Nat.mod_eq_of_lt hv]
  · intro a ha
    exact setFieldLog_accesses e tbl numFields m p field value _ hrow hd a ha

/-- **C11 on the C text.** A NULL PDU or an identifier outside the enumeration: the reader
    returns 0, the writer returns, and neither touches memory at all (empty access log). -/
theorem C11_code (field value : Nat) (hfield32 : field < 4294967296) (hv : value < 18446744073709551616)
    (pdu : Option Nat) (hpdu : ∀ p, pdu = some p → p ≠ 0 ∧ p + 1024 ≤ 18446744073709551616)
    (hrej : pdu = none ∨ numFields ≤ field) (m : Mem) :
    callFn (mkEnv e rom glob) 27 "Avtp_GetField" [tb, numFields, pdu.getD 0, field] ⟨m, []⟩ = some (0, ⟨m, []⟩)
    ∧ callFn (mkEnv e rom glob) 27 "Avtp_SetField" [tb, numFields, pdu.getD 0, field, value] ⟨m, []⟩
        = some (0, ⟨m, []⟩) := by
  constructor
  · rw [Avtp_GetField_refines e rom glob tbl tb hrom hvalid numFields field hnf hfield32 hn pdu hpdu m,
      getFieldLog_rejected e tbl numFields m pdu field hrej]
  · rw [Avtp_SetField_refines e rom glob tbl tb hrom hvalid numFields field value hnf hfield32 hv hn pdu hpdu m,
      setFieldLog_rejected e tbl numFields m pdu field value hrej]

/-- **C14 on the C text.** Built for a little-endian or a big-endian host (the two preprocessed
    forms of Byteorder.h, the two byte orders of the 32-bit object), the reader returns the same
    value and the writer leaves the same bytes. -/
theorem C14_code (field value : Nat) (hfield : field < numFields) (hv : value < 18446744073709551616)
    (p : Nat) (hp0 : p ≠ 0) (hpb : p + 1024 ≤ 18446744073709551616) (m : Mem) :
    (callFn (mkEnv .little rom glob) 27 "Avtp_GetField" [tb, numFields, p, field] ⟨m, []⟩).map (·.1)
      = (callFn (mkEnv .big rom glob) 27 "Avtp_GetField" [tb, numFields, p, field] ⟨m, []⟩).map (·.1)
    ∧ (callFn (mkEnv .little rom glob) 27 "Avtp_SetField" [tb, numFields, p, field, value] ⟨m, []⟩).map (·.2.mem)
      = (callFn (mkEnv .big rom glob) 27 "Avtp_SetField" [tb, numFields, p, field, value] ⟨m, []⟩).map (·.2.mem) := by
  obtain ⟨l1, h1, _⟩ := C01_code .little rom glob tbl tb hrom hvalid numFields hnf hn field hfield p hp0 hpb m
  obtain ⟨l2, h2, _⟩ := C01_code .big rom glob tbl tb hrom hvalid numFields hnf hn field hfield p hp0 hpb m
  obtain ⟨l3, h3, _⟩ := C02_code .little rom glob tbl tb hrom hvalid numFields hnf hn field value hfield hv p hp0 hpb m
  obtain ⟨l4, h4, _⟩ := C02_code .big rom glob tbl tb hrom hvalid numFields hnf hn field value hfield hv p hp0 hpb m
  rw [h1, h2, h3, h4]; simp
end

end O1722.Refine

/-! ### non-vacuity: the hypotheses are met -/
namespace O1722.Refine

/-- Read-only data holding `tbl` at address `tb` (three octets per row). -/
def romOf (tb : Nat) (tbl : List Desc) : Nat → Byte := fun a =>
  if tb ≤ a then
    match tbl[(a - tb) / 3]? with
    | some d => Fin.ofNat 256 (if (a - tb) % 3 = 0 then d.quadlet else if (a - tb) % 3 = 1 then d.offset else d.bits)
    | none => 0
  else 0

theorem romOf_table (tb : Nat) (tbl : List Desc) (h0 : tb ≠ 0) (hb : tb + 3 * tbl.length < 18446744073709551616)
    (hsmall : ∀ d ∈ tbl, d.quadlet < 256 ∧ d.offset < 256 ∧ d.bits < 256) : RomTable (romOf tb tbl) tb tbl := by
  refine ⟨?_, hb, h0⟩
  intro i hi
  obtain ⟨h1, h2, h3⟩ := hsmall _ (List.getElem_mem hi)
  have e0 : (tb + 3 * i - tb) / 3 = i ∧ (tb + 3 * i - tb) % 3 = 0 := by omega
  have e1 : (tb + 3 * i + 1 - tb) / 3 = i ∧ (tb + 3 * i + 1 - tb) % 3 = 1 := by omega
  have e2 : (tb + 3 * i + 2 - tb) / 3 = i ∧ (tb + 3 * i + 2 - tb) % 3 = 2 := by omega
  refine ⟨?_, ?_, ?_⟩
  · simp only [romOf, if_pos (show tb ≤ tb + 3 * i by omega), e0.1, e0.2, List.getElem?_eq_getElem hi]
    simp [Fin.ofNat, Nat.mod_eq_of_lt h1]
  · simp only [romOf, if_pos (show tb ≤ tb + 3 * i + 1 by omega), e1.1, e1.2, List.getElem?_eq_getElem hi]
    simp [Fin.ofNat, Nat.mod_eq_of_lt h2]
  · simp only [romOf, if_pos (show tb ≤ tb + 3 * i + 2 by omega), e2.1, e2.2, List.getElem?_eq_getElem hi]
    simp [Fin.ofNat, Nat.mod_eq_of_lt h3]

/-- A concrete table (the 48-bit GPC message id at offset 16, a 64-bit timestamp, a 1-bit flag)
    satisfies every hypothesis of `C01_code` / `C02_code`. -/
example : RomTable (romOf 4096 [⟨0, 16, 48⟩, ⟨1, 0, 64⟩, ⟨0, 31, 1⟩]) 4096 [⟨0, 16, 48⟩, ⟨1, 0, 64⟩, ⟨0, 31, 1⟩]
    ∧ (∀ d ∈ [(⟨0, 16, 48⟩ : Desc), ⟨1, 0, 64⟩, ⟨0, 31, 1⟩], d.Valid) :=
  ⟨romOf_table _ _ (by decide) (by decide) (by decide), by decide⟩

end O1722.Refine
