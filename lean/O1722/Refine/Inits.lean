/-
  Refine/Inits.lean — the current-API initialisers (`X_Init(pdu)`: NULL guard, `memset`, one to three
  constant field writes through the generic or a dedicated setter) as C TEXT: `expectedInitBody g i`
  rebuilds the body an initialiser record of Gen/Data.lean stands for; when the C function of
  Gen/Cir.lean has that body and every setter it calls is, in the program, the function its record
  describes, running the initialiser under the C semantics leaves the memory `Init.run` gives — the
  object C04_format speaks about.  Generic; instantiated per format in the regenerated Gen/InstInit.lean.
-/
import O1722.Refine.Accessors
import O1722.Refine.VssPad
open O1722 O1722.C
namespace O1722.Refine

def stepStmt (g : GenFormat) : InitStep → Option Stmt
  | .memset0 _ len => some (.fill (.var 0) (.cast .i32 .u8 (.lit 0)) (.lit len))
  | .setField fn _ fv value => some (.call none fn [.var 0, .cast .i32 .u32 (.lit fv), .cast .i32 .u64 (.lit value)])
  | .setConst fn value =>
    (g.findSetter fn).bind fun x => (tyOfBits x.valueBits).map fun ty => .call none fn [.var 0, .cast .i32 ty (.lit value)]
  | _ => none

def seqOf : List Stmt → Option Stmt
  | [] => none
  | [s] => some s
  | s :: rest => (seqOf rest).map (.seq s)

def stepStmts (g : GenFormat) : List InitStep → Option (List Stmt)
  | [] => some []
  | st :: rest => (stepStmt g st).bind fun s => (stepStmts g rest).map (s :: ·)

/-- The body a current-API initialiser record stands for. -/
def expectedInitBody (g : GenFormat) (i : Init) : Option Stmt :=
  if i.legacy then none else
    ((stepStmts g i.steps).bind seqOf).map fun body => .ite (.bin .ne .u64 (.var 0) (.lit 0)) body .skip

/-- What must hold of the setter a step calls: in the program built for host `e`, the function of
    that name has the body its (generic / dedicated) setter record says, and the constants fit. -/
def StepOK (e : Endian) (g : GenFormat) : InitStep → Prop
  | .memset0 _ len => len < 18446744073709551616
  | .setField fn _ fv value =>
    ∃ x F, g.findSetter fn = some x ∧ x.field = none ∧ findFn (Gen.Cir.prog e) fn = some F ∧
      some F.body = expectedSetterBody x ∧ x.table = g.tableName ∧ x.numFields < 256 ∧ x.numFields ≤ g.table.length ∧
      x.valueBits = 64 ∧ fv < 2147483648 ∧ value < 2147483648
  | .setConst fn value =>
    ∃ x F, g.findSetter fn = some x ∧ x.field.isSome = true ∧ findFn (Gen.Cir.prog e) fn = some F ∧
      some F.body = expectedSetterBody x ∧ x.table = g.tableName ∧ x.numFields < 256 ∧ x.numFields ≤ g.table.length ∧
      fieldOK x.field = true ∧ x.valueBits ≤ 64 ∧ value < 2 ^ x.valueBits ∧ value < 2147483648
  | _ => False

theorem callFn_mem_of_exec {env : Env} {g : Nat} {fn : String} {F : Fn} {vs : List Nat} {s : St} {m' : Mem}
    (hF : findFn env.prog fn = some F)
    (h : (exec env g F.body (mkFrame vs) s).map (fun r => r.2.2.mem) = some m') :
    ∃ v log, callFn env g fn vs s = some (v, ⟨m', log⟩) := by
  unfold callFn
  rw [hF]
  cases hb : exec env g F.body (mkFrame vs) s with
  | none => rw [hb] at h; simp at h
  | some r =>
    rw [hb] at h
    obtain ⟨c, L1, ⟨mem1, log1⟩⟩ := r
    simp at h
    subst h
    cases c with
    | next => exact ⟨0, log1, by simp [hb]⟩
    | ret w => exact ⟨w, log1, by simp [hb]⟩

section
variable (e : Endian) (rom : Nat → Byte) (glob : String → Nat) (g : GenFormat) (tb : Nat)
  (hrom : RomTable rom tb g.table) (hvalid : ∀ d ∈ g.table, d.Valid) (hglob : glob g.tableName = tb)
include hrom hvalid hglob

/-- One step of an initialiser, at any sufficient fuel, continuing any access log, on a non-NULL PDU. -/
theorem step_exec (st : InitStep) (hok : StepOK e g st) (s : Stmt) (hs : stepStmt g st = some s)
    (p : Nat) (hp0 : p ≠ 0) (hpb : p + 1024 ≤ 18446744073709551616) (f : Nat) (hf : 33 ≤ f)
    (m : Mem) (l0 : List Access) :
    ∃ m' l1, st.run g e p 0 m = some m' ∧
      exec (mkEnv e rom glob) f s (mkFrame [p]) ⟨m, l0⟩ = some (.next, mkFrame [p], ⟨m', l1⟩) := by
  have hpdu : ∀ q, some p = some q → q ≠ 0 ∧ q + 1024 ≤ 18446744073709551616 := by
    intro q hq; cases hq; exact ⟨hp0, hpb⟩
  obtain ⟨f', rfl⟩ : ∃ f', f = f' + 33 := ⟨f - 33, by omega⟩
  cases st with
  | memset0 ty len =>
    simp only [stepStmt, Option.some.injEq] at hs
    subst hs
    simp only [StepOK] at hok
    refine ⟨zeroFill m p len, l0 ++ [⟨p, len, 1, true⟩], rfl, ?_⟩
    simp (disch := omega) [exec, evalE, csem, Ty.bits, Nat.mod_eq_of_lt, hp0, write_replicate_zero]
  | setField fn fld fv value =>
    simp only [stepStmt, Option.some.injEq] at hs
    subst hs
    obtain ⟨x, F, hx, hxf, hF, hbody, ht, hN, hNl, hvb, hfv, hval⟩ := hok
    have hfo : fieldOK x.field = true := by rw [hxf]; rfl
    have hex := setter_body_code e rom glob g tb hrom hvalid hglob x F hbody ht hN hNl hfo (some p) hpdu fv value
      (by omega) (by rw [hvb]; omega) (by omega) m l0
    rw [hxf] at hex
    simp only at hex
    obtain ⟨v, log, hcall⟩ := callFn_mem_of_exec (env := mkEnv e rom glob) (fn := fn) (by rw [mkEnv_prog]; exact hF) hex
    refine ⟨x.run g.table e m (some p) fv value, log, ?_, ?_⟩
    · simp only [InitStep.run, hx, hxf, Option.isNone_none, if_true]
    · have hargs : evalArgs (mkEnv e rom glob) (mkFrame [p]) [.var 0, .cast .i32 .u32 (.lit fv), .cast .i32 .u64 (.lit value)]
          = some [(some p).getD 0, fv, value] := by
        simp (disch := omega) [evalArgs, evalE, csem, Ty.bits, Nat.mod_eq_of_lt]
      have := exec_call_of_callFn (dst := none) (L := mkFrame [p]) hargs (callFn_le _ (by omega : 31 ≤ f' + 32) hcall)
      simpa [setDst] using this
  | setConst fn value =>
    obtain ⟨x, F, hx, hxf, hF, hbody, ht, hN, hNl, hfo, hvb, hval, hval31⟩ := hok
    simp only [stepStmt, hx, Option.bind] at hs
    cases hty : tyOfBits x.valueBits with
    | none => rw [hty] at hs; simp at hs
    | some ty =>
      rw [hty] at hs
      simp only [Option.map, Option.some.injEq] at hs
      subst hs
      obtain ⟨hbits, hsg⟩ := tyOfBits_bits hty
      have hex := setter_body_code e rom glob g tb hrom hvalid hglob x F hbody ht hN hNl hfo (some p) hpdu 0 value
        (by decide) hval hvb m l0
      obtain ⟨fk, hfk⟩ := Option.isSome_iff_exists.mp hxf
      rw [hfk] at hex
      simp only at hex
      obtain ⟨v, log, hcall⟩ := callFn_mem_of_exec (env := mkEnv e rom glob) (fn := fn) (by rw [mkEnv_prog]; exact hF) hex
      refine ⟨x.run g.table e m (some p) 0 value, log, ?_, ?_⟩
      · simp only [InitStep.run, hx, hxf, if_true]
      · have hconv : conv .i32 ty value = value := by
          rw [conv_i32_small ty value hval31, hbits]; exact Nat.mod_eq_of_lt hval
        have hargs : evalArgs (mkEnv e rom glob) (mkFrame [p]) [.var 0, .cast .i32 ty (.lit value)]
            = some [(some p).getD 0, value] := by
          simp [evalArgs, evalE, hconv]
        have := exec_call_of_callFn (dst := none) (L := mkFrame [p]) hargs (callFn_le _ (by omega : 31 ≤ f' + 32) hcall)
        simpa [setDst] using this
  | setParam _ _ => cases hok
  | callInit _ => cases hok
  | checkedSet _ _ _ _ => cases hok

theorem steps_exec : ∀ (steps : List InitStep) (_hok : ∀ st ∈ steps, StepOK e g st) (stmts : List Stmt)
    (_hs : stepStmts g steps = some stmts) (body : Stmt) (_hb : seqOf stmts = some body)
    (p : Nat) (_hp0 : p ≠ 0) (_hpb : p + 1024 ≤ 18446744073709551616) (f : Nat) (_hf : 33 + stmts.length ≤ f)
    (m : Mem) (l0 : List Access),
    ∃ m' l1, runSteps g e p 0 steps m = some m' ∧
      exec (mkEnv e rom glob) f body (mkFrame [p]) ⟨m, l0⟩ = some (.next, mkFrame [p], ⟨m', l1⟩) := by
  intro steps
  induction steps with
  | nil =>
    intro _ stmts hs body hb
    simp only [stepStmts, Option.some.injEq] at hs
    subst hs
    simp [seqOf] at hb
  | cons st rest ih =>
    intro hok stmts hs body hb p hp0 hpb f hf m l0
    simp only [stepStmts] at hs
    cases hst : stepStmt g st with
    | none => rw [hst] at hs; simp at hs
    | some s =>
      rw [hst] at hs
      simp only [Option.bind] at hs
      cases hrs : stepStmts g rest with
      | none => rw [hrs] at hs; simp at hs
      | some srest =>
        rw [hrs] at hs
        simp only [Option.map, Option.some.injEq] at hs
        subst hs
        have hok1 : StepOK e g st := hok st (List.mem_cons_self ..)
        have hokr : ∀ st' ∈ rest, StepOK e g st' := fun st' h' => hok st' (List.mem_cons_of_mem _ h')
        cases srest with
        | nil =>
          simp only [seqOf, Option.some.injEq] at hb
          subst hb
          have hrest : rest = [] := by
            cases rest with
            | nil => rfl
            | cons a b =>
              simp only [stepStmts] at hrs
              cases h1 : stepStmt g a with
              | none => rw [h1] at hrs; simp at hrs
              | some _ =>
                rw [h1] at hrs
                cases h2 : stepStmts g b with
                | none => rw [h2] at hrs; simp at hrs
                | some _ => rw [h2] at hrs; simp at hrs
          subst hrest
          obtain ⟨m', l1, h1, h2⟩ := step_exec e rom glob g tb hrom hvalid hglob st hok1 s hst p hp0 hpb f
            (by simp at hf; omega) m l0
          exact ⟨m', l1, by simp [runSteps, h1], h2⟩
        | cons s2 srest2 =>
          simp only [seqOf] at hb
          cases hb2 : seqOf (s2 :: srest2) with
          | none => rw [hb2] at hb; simp at hb
          | some body2 =>
            rw [hb2] at hb
            simp only [Option.map, Option.some.injEq] at hb
            subst hb
            obtain ⟨f', rfl⟩ : ∃ f', f = f' + 1 := ⟨f - 1, by simp at hf; omega⟩
            obtain ⟨m1, l1, h1, h2⟩ := step_exec e rom glob g tb hrom hvalid hglob st hok1 s hst p hp0 hpb f'
              (by simp at hf; omega) m l0
            obtain ⟨m2, l2, h3, h4⟩ := ih hokr (s2 :: srest2) hrs body2 hb2 p hp0 hpb f' (by simp at hf ⊢; omega) m1 l1
            refine ⟨m2, l2, ?_, ?_⟩
            · simp [runSteps, h1, h3]
            · rw [seq_next h2]; exact h4

theorem flatten_of_ok (steps : List InitStep) (hok : ∀ st ∈ steps, StepOK e g st) : g.flatten steps = some steps := by
  induction steps with
  | nil => rfl
  | cons st rest ih =>
    have hr := ih (fun st' h' => hok st' (List.mem_cons_of_mem _ h'))
    have h1 : StepOK e g st := hok st (List.mem_cons_self ..)
    cases st with
    | callInit _ => cases h1
    | memset0 _ _ => simp [GenFormat.flatten, hr]
    | setField _ _ _ _ => simp [GenFormat.flatten, hr]
    | setConst _ _ => simp [GenFormat.flatten, hr]
    | setParam _ _ => cases h1
    | checkedSet _ _ _ _ => cases h1

/-- **Initialisers, as C text.**  Running the body of a function that is what the initialiser record
    says leaves the memory `Init.run` describes: unchanged for a NULL PDU, the steps' result otherwise. -/
theorem init_code (i : Init) (F : Fn) (hbody : some F.body = expectedInitBody g i)
    (hok : ∀ st ∈ i.steps, StepOK e g st) (hlen : i.steps.length ≤ 6)
    (pdu : Option Nat) (hpdu : ∀ p, pdu = some p → p ≠ 0 ∧ p + 1024 ≤ 18446744073709551616) (m : Mem) :
    (exec (mkEnv e rom glob) 41 F.body (mkFrame [pdu.getD 0]) ⟨m, []⟩).map (fun r => r.2.2.mem)
      = (i.run g e m pdu 0).map (·.1) := by
  unfold expectedInitBody at hbody
  split at hbody
  · cases hbody
  · rename_i hleg
    cases hss : stepStmts g i.steps with
    | none => rw [hss] at hbody; simp at hbody
    | some stmts =>
      rw [hss] at hbody
      simp only [Option.bind] at hbody
      cases hsq : seqOf stmts with
      | none => rw [hsq] at hbody; simp at hbody
      | some body =>
        rw [hsq] at hbody
        simp only [Option.map, Option.some.injEq] at hbody
        rw [hbody]
        have hlen' : stmts.length = i.steps.length := by
          clear hbody hsq hok hlen
          revert stmts
          generalize i.steps = steps
          induction steps with
          | nil => intro stmts h; simp [stepStmts] at h; subst h; rfl
          | cons a b ih =>
            intro stmts h
            simp only [stepStmts] at h
            cases h1 : stepStmt g a with
            | none => rw [h1] at h; simp at h
            | some _ =>
              rw [h1] at h
              cases h2 : stepStmts g b with
              | none => rw [h2] at h; simp at h
              | some sb => rw [h2] at h; simp at h; subst h; simp [ih sb h2]
        cases pdu with
        | none =>
          simp [exec, evalE, Init.run, evalBin, b2n]
        | some p =>
          obtain ⟨hp0, hpb⟩ := hpdu p rfl
          obtain ⟨m', l1, h1, h2⟩ := steps_exec e rom glob g tb hrom hvalid hglob i.steps hok stmts hss body hsq p hp0 hpb 40
            (by omega) m []
          have hc : evalE (mkEnv e rom glob) (mkFrame [(some p).getD 0]) (.bin .ne .u64 (.var 0) (.lit 0)) = some 1 := by
            simp [evalE, evalBin, b2n, hp0]
          rw [ite_true (f := 40) hc (by decide)]
          rw [show (some p).getD 0 = p from rfl, h2]
          simp [Init.run, flatten_of_ok e rom glob g tb hrom hvalid hglob i.steps hok, h1]
end

/-! ### a decidable form of the hypotheses, for the regenerated per-format obligations -/

/-- Program look-ups the instance supplies (each proved by evaluation of `findFn`). -/
def lookupsOK (e : Endian) : List (String × Fn) → Prop
  | [] => True
  | (n, F) :: r => findFn (Gen.Cir.prog e) n = some F ∧ lookupsOK e r

theorem lookupsOK_lookup (e : Endian) : ∀ (lk : List (String × Fn)) (_h : lookupsOK e lk) (n : String) (F : Fn)
    (_hl : lk.lookup n = some F), findFn (Gen.Cir.prog e) n = some F := by
  intro lk
  induction lk with
  | nil => intro _ n F hl; simp [List.lookup] at hl
  | cons a r ih =>
    obtain ⟨n', F'⟩ := a
    intro h n F hl
    simp only [lookupsOK] at h
    simp only [List.lookup] at hl
    split at hl
    · rename_i heq
      have : n = n' := by simpa using heq
      subst this
      cases hl
      exact h.1
    · exact ih h.2 n F hl

def stepCheck (g : GenFormat) (lk : List (String × Fn)) : InitStep → Bool
  | .memset0 _ len => decide (len < 18446744073709551616)
  | .setField fn _ fv value =>
    match g.findSetter fn, lk.lookup fn with
    | some x, some F =>
      x.field.isNone && (some F.body == expectedSetterBody x) && (x.table == g.tableName) && decide (x.numFields < 256) &&
        decide (x.numFields ≤ g.table.length) && (x.valueBits == 64) && decide (fv < 2147483648) && decide (value < 2147483648)
    | _, _ => false
  | .setConst fn value =>
    match g.findSetter fn, lk.lookup fn with
    | some x, some F =>
      x.field.isSome && (some F.body == expectedSetterBody x) && (x.table == g.tableName) && decide (x.numFields < 256) &&
        decide (x.numFields ≤ g.table.length) && fieldOK x.field && decide (x.valueBits ≤ 64) && decide (value < 2 ^ x.valueBits) &&
        decide (value < 2147483648)
    | _, _ => false
  | _ => false

theorem stepOK_of_check (e : Endian) (g : GenFormat) (lk : List (String × Fn)) (hlk : lookupsOK e lk) (st : InitStep)
    (h : stepCheck g lk st = true) : StepOK e g st := by
  cases st with
  | memset0 _ len => simpa [stepCheck, StepOK] using h
  | setField fn fld fv value =>
    simp only [stepCheck] at h
    split at h
    · rename_i x F hx hF
      simp only [Bool.and_eq_true, beq_iff_eq, decide_eq_true_eq, Option.isNone_iff_eq_none] at h
      obtain ⟨⟨⟨⟨⟨⟨⟨h1, h2⟩, h3⟩, h4⟩, h5⟩, h6⟩, h7⟩, h8⟩ := h
      exact ⟨x, F, hx, h1, lookupsOK_lookup e lk hlk fn F hF, h2, h3, h4, h5, h6, h7, h8⟩
    · cases h
  | setConst fn value =>
    simp only [stepCheck] at h
    split at h
    · rename_i x F hx hF
      simp only [Bool.and_eq_true, beq_iff_eq, decide_eq_true_eq] at h
      obtain ⟨⟨⟨⟨⟨⟨⟨⟨h1, h2⟩, h3⟩, h4⟩, h5⟩, h6⟩, h7⟩, h8⟩, h9⟩ := h
      exact ⟨x, F, hx, h1, lookupsOK_lookup e lk hlk fn F hF, h2, h3, h4, h5, h6, h7, h8, h9⟩
    · cases h
  | setParam _ _ => cases h
  | callInit _ => cases h
  | checkedSet _ _ _ _ => cases h

/-- Every current-API initialiser of the format has, in the C text, the body its record stands for,
    and every setter it calls checks out. -/
def initsCheck (g : GenFormat) (fns : List Fn) (lk : List (String × Fn)) : Bool :=
  g.inits.all fun i => i.legacy ||
    (i.steps.all (stepCheck g lk) && decide (i.steps.length ≤ 6) &&
      match fns.find? (fun F => F.name == i.fn) with
      | some F => some F.body == expectedInitBody g i
      | none => false)

/-- **C04's initialiser records are the C text.** -/
theorem inits_code (e : Endian) (rom : Nat → Byte) (glob : String → Nat) (g : GenFormat) (tb : Nat)
    (hrom : RomTable rom tb g.table) (hvalid : ∀ d ∈ g.table, d.Valid) (hglob : glob g.tableName = tb)
    (fns : List Fn) (lk : List (String × Fn)) (hlk : lookupsOK e lk) (h : initsCheck g fns lk = true)
    (i : Init) (hi : i ∈ g.inits) (hleg : i.legacy = false) :
    ∃ F ∈ fns, F.name = i.fn ∧ ∀ (pdu : Option Nat) (_hpdu : ∀ p, pdu = some p → p ≠ 0 ∧ p + 1024 ≤ 18446744073709551616) (m : Mem),
      (exec (mkEnv e rom glob) 41 F.body (mkFrame [pdu.getD 0]) ⟨m, []⟩).map (fun r => r.2.2.mem)
        = (i.run g e m pdu 0).map (·.1) := by
  simp only [initsCheck, List.all_eq_true] at h
  have hi' := h i hi
  simp only [hleg, Bool.false_or, Bool.and_eq_true, List.all_eq_true, decide_eq_true_eq] at hi'
  obtain ⟨⟨hsteps, hlen⟩, hm⟩ := hi'
  split at hm
  · rename_i F hfind
    have hmem : F ∈ fns := List.mem_of_find?_eq_some hfind
    have hname : F.name = i.fn := by
      have := List.find?_some hfind; simpa using this
    refine ⟨F, hmem, hname, ?_⟩
    intro pdu hpdu m
    exact init_code e rom glob g tb hrom hvalid hglob i F (by simpa using hm)
      (fun st hst => stepOK_of_check e g lk hlk st (hsteps st hst)) hlen pdu hpdu m
  · cases hm

/-- What `initsCheck` says about one current-API initialiser record (used by the legacy initialisers). -/
theorem stepsOK_of_initsCheck (e : Endian) (g : GenFormat) (fns : List Fn) (lk : List (String × Fn))
    (hlk : lookupsOK e lk) (h : initsCheck g fns lk = true) (i0 : Init) (hi : i0 ∈ g.inits) (hleg : i0.legacy = false) :
    (∀ st ∈ i0.steps, StepOK e g st) ∧ i0.steps.length ≤ 6 ∧
      ∃ F ∈ fns, F.name = i0.fn ∧ some F.body = expectedInitBody g i0 := by
  simp only [initsCheck, List.all_eq_true] at h
  have hi' := h i0 hi
  simp only [hleg, Bool.false_or, Bool.and_eq_true, List.all_eq_true, decide_eq_true_eq] at hi'
  obtain ⟨⟨hsteps, hlen⟩, hm⟩ := hi'
  refine ⟨fun st hst => stepOK_of_check e g lk hlk st (hsteps st hst), hlen, ?_⟩
  split at hm
  · rename_i F hfind
    exact ⟨F, List.mem_of_find?_eq_some hfind, by have := List.find?_some hfind; simpa using this, by simpa using hm⟩
  · cases hm

end O1722.Refine
