/-
  Refine/Accessors.lean — every per-format generic and dedicated getter / setter of the library, as
  C TEXT: a decidable check `checkAccessors g fns` compares each accessor record of Gen/Data.lean
  (what tools/translate.py recognised: table, field count, enumerator value, parameter / return
  width) with the body of the function of that name in Gen/Cir.lean (what tools/cir.py serialised,
  independently, from the same clang AST), and a soundness theorem says that when it holds, RUNNING
  that body under the C semantics returns `Getter.run` / leaves `Setter.run` — the objects C01_format
  and C02_format speak about.  Generic theorems only; the per-format instances are regenerated.
-/
import O1722.Refine.Forward
import O1722.Model.Format
open O1722 O1722.C
namespace O1722.Refine

def tyOfBits : Nat → Option Ty
  | 8 => some .u8 | 16 => some .u16 | 32 => some .u32 | 64 => some .u64 | _ => none

/-- The body a recognised getter must have. -/
def expectedGetterBody (x : Getter) : Option Stmt :=
  match x.field with
  | none =>
    if x.retBits = 64 ∧ x.fieldCastBits = 32 then
      some (.seq (.call (some 2) "Avtp_GetField" [.glob x.table, .cast .i32 .u8 (.lit x.numFields), .var 0, .var 1])
                 (.ret (some (.var 2))))
    else none
  | some (_, k) =>
    if x.retBits = 64 then
      some (.seq (.call (some 1) "Avtp_GetField" [.glob x.table, .cast .i32 .u8 (.lit x.numFields), .var 0, .cast .i32 .u32 (.lit k)])
                 (.ret (some (.var 1))))
    else (tyOfBits x.retBits).map fun ty =>
      .seq (.call (some 1) "Avtp_GetField" [.glob x.table, .cast .i32 .u8 (.lit x.numFields), .var 0, .cast .i32 .u32 (.lit k)])
           (.ret (some (.cast .u64 ty (.var 1))))

/-- The body a recognised setter must have. -/
def expectedSetterBody (x : Setter) : Option Stmt :=
  match x.field with
  | none =>
    if x.valueBits = 64 ∧ x.fieldCastBits = 32 then
      some (.call none "Avtp_SetField" [.glob x.table, .cast .i32 .u8 (.lit x.numFields), .var 0, .var 1, .var 2])
    else none
  | some (_, k) =>
    if x.valueBits = 64 then
      some (.call none "Avtp_SetField" [.glob x.table, .cast .i32 .u8 (.lit x.numFields), .var 0, .cast .i32 .u32 (.lit k), .var 1])
    else (tyOfBits x.valueBits).map fun ty =>
      .call none "Avtp_SetField" [.glob x.table, .cast .i32 .u8 (.lit x.numFields), .var 0, .cast .i32 .u32 (.lit k), .cast ty .u64 (.var 1)]

def fieldOK (f : Option (String × Nat)) : Bool :=
  match f with | none => true | some (_, k) => decide (k < 2147483648)

def checkGetterCode (g : GenFormat) (fns : List Fn) (x : Getter) : Bool :=
  x.table == g.tableName && decide (x.numFields < 256) && decide (x.numFields ≤ g.table.length) && fieldOK x.field &&
    match fns.find? (fun F => F.name == x.fn) with
    | some F => some F.body == expectedGetterBody x
    | none => false

def checkSetterCode (g : GenFormat) (fns : List Fn) (x : Setter) : Bool :=
  x.table == g.tableName && decide (x.numFields < 256) && decide (x.numFields ≤ g.table.length) && fieldOK x.field &&
    !x.valueSigned &&
    match fns.find? (fun F => F.name == x.fn) with
    | some F => some F.body == expectedSetterBody x
    | none => false

/-- Every recognised getter and setter of the format has, in the C text, the body its record says. -/
def checkAccessors (g : GenFormat) (fns : List Fn) : Bool :=
  g.getters.all (checkGetterCode g fns) && g.setters.all (checkSetterCode g fns)

theorem getLoop_lt (e : Endian) (d : Desc) (m : Mem) (p : Nat) :
    ∀ k qo pb res log, res < 2 ^ 64 → (getLoop e d m p k qo pb res log).1 < 2 ^ 64 := by
  intro k
  induction k with
  | zero => intro qo pb res log h; exact h
  | succ k ih =>
    intro qo pb res log h
    simp only [getLoop]
    split
    · exact ih _ _ _ _ (Nat.or_lt_two_pow h (Nat.mod_lt _ (by decide)))
    · exact h

/-- The reader's result is a `uint64_t` value. -/
theorem getField_lt (e : Endian) (tbl : List Desc) (n : Nat) (m : Mem) (pdu : Option Nat) (i : Nat) :
    getField e tbl n m pdu i < 2 ^ 64 := by
  unfold getField getFieldLog
  cases pdu with
  | none => exact Nat.two_pow_pos 64
  | some p =>
    simp only
    split
    · split
      · exact getLoop_lt _ _ _ _ _ _ _ _ _ (Nat.two_pow_pos 64)
      · exact Nat.two_pow_pos 64
    · exact Nat.two_pow_pos 64

theorem tyOfBits_bits {n : Nat} {ty : Ty} (h : tyOfBits n = some ty) : ty.bits = n ∧ ty.signed = false := by
  unfold tyOfBits at h
  split at h <;> simp at h <;> subst h <;> exact ⟨rfl, rfl⟩

section
variable (e : Endian) (rom : Nat → Byte) (glob : String → Nat) (g : GenFormat) (tb : Nat)
  (hrom : RomTable rom tb g.table) (hvalid : ∀ d ∈ g.table, d.Valid) (hglob : glob g.tableName = tb)
include hrom hvalid hglob

/-- Core of `getter_code`: a function whose body is what a getter record says behaves as the record. -/
theorem getter_body_code (x : Getter) (F : Fn) (hbody : some F.body = expectedGetterBody x)
    (ht : x.table = g.tableName) (hN : x.numFields < 256) (hNl : x.numFields ≤ g.table.length)
    (hfo : fieldOK x.field = true)
    (pdu : Option Nat) (hpdu : ∀ p, pdu = some p → p ≠ 0 ∧ p + 1024 ≤ 18446744073709551616)
    (arg : Nat) (harg : arg < 4294967296) (m : Mem) (l0 : List Access) :
    (exec (mkEnv e rom glob) 31 F.body (mkFrame [pdu.getD 0, arg]) ⟨m, l0⟩).map (fun r => (r.1, r.2.2.mem))
      = some (.ret (x.run g.table e m pdu arg), m) := by
  have hgl : glob x.table = tb := by rw [ht]; exact hglob
  unfold expectedGetterBody at hbody
  cases hf : x.field with
  | none =>
    rw [hf] at hbody
    simp only at hbody
    split at hbody
    · rename_i hc
      obtain ⟨hr64, hc32⟩ := hc
      have hb : F.body = _ := (Option.some.inj hbody)
      rw [hb]
      have hargs : evalArgs (mkEnv e rom glob) (mkFrame [pdu.getD 0, arg])
          [.glob x.table, .cast .i32 .u8 (.lit x.numFields), .var 0, .var 1] = some [tb, x.numFields, pdu.getD 0, arg] := by
        simp (disch := omega) [evalArgs, evalE, hgl, conv_i32_u8, Nat.mod_eq_of_lt]
      rw [seq_next (call_GetField e rom glob g.table tb hrom hvalid 29 (by decide) _ _ (some 2) x.numFields arg pdu hargs hN harg hNl hpdu m l0)]
      simp only [exec, evalE, setDst, upd_same, Option.map]
      congr 2
      unfold Getter.run fieldArg
      rw [hf, hc32, hr64, getFieldLogFrom_val]
      simp only
      have hlt : getField e g.table x.numFields m pdu (arg % 2 ^ 32) < 2 ^ 64 := getField_lt _ _ _ _ _ _
      rw [Nat.mod_eq_of_lt harg, Nat.mod_eq_of_lt (by rw [Nat.mod_eq_of_lt harg] at hlt; exact hlt)]
    · cases hbody
  | some fk =>
    obtain ⟨en, k⟩ := fk
    rw [hf] at hbody hfo
    simp only [fieldOK, decide_eq_true_eq] at hfo
    simp only at hbody
    have hargs : evalArgs (mkEnv e rom glob) (mkFrame [pdu.getD 0, arg])
        [.glob x.table, .cast .i32 .u8 (.lit x.numFields), .var 0, .cast .i32 .u32 (.lit k)] = some [tb, x.numFields, pdu.getD 0, k] := by
      simp (disch := omega) [evalArgs, evalE, hgl, conv_i32_u8, conv_i32_u32, Nat.mod_eq_of_lt]
    have hcall := call_GetField e rom glob g.table tb hrom hvalid 29 (by decide) (mkFrame [pdu.getD 0, arg]) _ (some 1) x.numFields k pdu hargs hN (by omega) hNl hpdu m l0
    have hlt : getField e g.table x.numFields m pdu k < 2 ^ 64 := getField_lt _ _ _ _ _ _
    split at hbody
    · rename_i hr64
      have hb : F.body = _ := (Option.some.inj hbody)
      rw [hb, seq_next hcall]
      simp only [exec, evalE, setDst, upd_same, Option.map]
      congr 2
      unfold Getter.run fieldArg
      rw [hf, hr64, getFieldLogFrom_val]
      simp only
      rw [Nat.mod_eq_of_lt hlt]
    · cases hty : tyOfBits x.retBits with
      | none => rw [hty] at hbody; cases hbody
      | some ty =>
        rw [hty] at hbody
        obtain ⟨hbits, hsg⟩ := tyOfBits_bits hty
        have hb : F.body = _ := (Option.some.inj hbody)
        rw [hb, seq_next hcall]
        simp only [exec, evalE, setDst, upd_same, Option.map, conv_u64]
        congr 2
        unfold Getter.run fieldArg
        rw [hf, getFieldLogFrom_val, hbits]

/-- **Getters, as C text.**  Running the body of the function the check matched returns what the
    accessor record's meaning (`Getter.run`) returns and leaves memory unchanged. -/
theorem getter_code (fns : List Fn) (x : Getter) (h : checkGetterCode g fns x = true)
    (pdu : Option Nat) (hpdu : ∀ p, pdu = some p → p ≠ 0 ∧ p + 1024 ≤ 18446744073709551616)
    (arg : Nat) (harg : arg < 4294967296) (m : Mem) :
    ∃ F ∈ fns, F.name = x.fn ∧
      (exec (mkEnv e rom glob) 31 F.body (mkFrame [pdu.getD 0, arg]) ⟨m, []⟩).map (fun r => (r.1, r.2.2.mem))
        = some (.ret (x.run g.table e m pdu arg), m) := by
  simp only [checkGetterCode, Bool.and_eq_true, beq_iff_eq, decide_eq_true_eq] at h
  obtain ⟨⟨⟨⟨ht, hN⟩, hNl⟩, hfo⟩, hm⟩ := h
  split at hm
  · rename_i F hfind
    have hmem : F ∈ fns := List.mem_of_find?_eq_some hfind
    have hname : F.name = x.fn := by
      have := List.find?_some hfind; simpa using this
    refine ⟨F, hmem, hname, ?_⟩
    have hbody : some F.body = expectedGetterBody x := by simpa using hm
    have hgl : glob x.table = tb := by rw [ht]; exact hglob
    unfold expectedGetterBody at hbody
    cases hf : x.field with
    | none =>
      rw [hf] at hbody
      simp only at hbody
      split at hbody
      · rename_i hc
        obtain ⟨hr64, hc32⟩ := hc
        have hb : F.body = _ := (Option.some.inj hbody)
        rw [hb]
        have hargs : evalArgs (mkEnv e rom glob) (mkFrame [pdu.getD 0, arg])
            [.glob x.table, .cast .i32 .u8 (.lit x.numFields), .var 0, .var 1] = some [tb, x.numFields, pdu.getD 0, arg] := by
          simp (disch := omega) [evalArgs, evalE, hgl, conv_i32_u8, Nat.mod_eq_of_lt]
        rw [seq_next (call_GetField e rom glob g.table tb hrom hvalid 29 (by decide) _ _ (some 2) x.numFields arg pdu hargs hN harg hNl hpdu m [])]
        simp only [exec, evalE, setDst, upd_same, Option.map]
        congr 2
        unfold Getter.run fieldArg
        rw [hf, hc32, hr64, getFieldLogFrom_val]
        simp only
        have hlt : getField e g.table x.numFields m pdu (arg % 2 ^ 32) < 2 ^ 64 := getField_lt _ _ _ _ _ _
        rw [Nat.mod_eq_of_lt harg, Nat.mod_eq_of_lt (by rw [Nat.mod_eq_of_lt harg] at hlt; exact hlt)]
      · cases hbody
    | some fk =>
      obtain ⟨en, k⟩ := fk
      rw [hf] at hbody hfo
      simp only [fieldOK, decide_eq_true_eq] at hfo
      simp only at hbody
      have hargs : evalArgs (mkEnv e rom glob) (mkFrame [pdu.getD 0, arg])
          [.glob x.table, .cast .i32 .u8 (.lit x.numFields), .var 0, .cast .i32 .u32 (.lit k)] = some [tb, x.numFields, pdu.getD 0, k] := by
        simp (disch := omega) [evalArgs, evalE, hgl, conv_i32_u8, conv_i32_u32, Nat.mod_eq_of_lt]
      have hcall := call_GetField e rom glob g.table tb hrom hvalid 29 (by decide) (mkFrame [pdu.getD 0, arg]) _ (some 1) x.numFields k pdu hargs hN (by omega) hNl hpdu m []
      have hlt : getField e g.table x.numFields m pdu k < 2 ^ 64 := getField_lt _ _ _ _ _ _
      split at hbody
      · rename_i hr64
        have hb : F.body = _ := (Option.some.inj hbody)
        rw [hb, seq_next hcall]
        simp only [exec, evalE, setDst, upd_same, Option.map]
        congr 2
        unfold Getter.run fieldArg
        rw [hf, hr64, getFieldLogFrom_val]
        simp only
        rw [Nat.mod_eq_of_lt hlt]
      · cases hty : tyOfBits x.retBits with
        | none => rw [hty] at hbody; cases hbody
        | some ty =>
          rw [hty] at hbody
          obtain ⟨hbits, hsg⟩ := tyOfBits_bits hty
          have hb : F.body = _ := (Option.some.inj hbody)
          rw [hb, seq_next hcall]
          simp only [exec, evalE, setDst, upd_same, Option.map, conv_u64]
          congr 2
          unfold Getter.run fieldArg
          rw [hf, getFieldLogFrom_val, hbits]
  · cases hm

/-- Core of `setter_code`: a function whose body is what a setter record says behaves as the record. -/
theorem setter_body_code (x : Setter) (F : Fn) (hbody : some F.body = expectedSetterBody x)
    (ht : x.table = g.tableName) (hN : x.numFields < 256) (hNl : x.numFields ≤ g.table.length)
    (hfo : fieldOK x.field = true)
    (pdu : Option Nat) (hpdu : ∀ p, pdu = some p → p ≠ 0 ∧ p + 1024 ≤ 18446744073709551616)
    (arg v : Nat) (harg : arg < 4294967296) (hv : v < 2 ^ x.valueBits) (hvb : x.valueBits ≤ 64) (m : Mem)
    (l0 : List Access) :
    (exec (mkEnv e rom glob) 31 F.body
        (mkFrame (match x.field with | none => [pdu.getD 0, arg, v] | some _ => [pdu.getD 0, v])) ⟨m, l0⟩).map
      (fun r => r.2.2.mem) = some (x.run g.table e m pdu arg v) := by
  have hv64 : v < 18446744073709551616 :=
    Nat.lt_of_lt_of_le hv (by
      calc 2 ^ x.valueBits ≤ 2 ^ 64 := Nat.pow_le_pow_right (by decide) hvb
        _ = 18446744073709551616 := by decide)
  have hgl : glob x.table = tb := by rw [ht]; exact hglob
  unfold expectedSetterBody at hbody
  cases hf : x.field with
  | none =>
    rw [hf] at hbody
    simp only at hbody ⊢
    split at hbody
    · rename_i hc
      obtain ⟨hv64b, hc32⟩ := hc
      have hb : F.body = _ := (Option.some.inj hbody)
      rw [hb]
      have hargs : evalArgs (mkEnv e rom glob) (mkFrame [pdu.getD 0, arg, v])
          [.glob x.table, .cast .i32 .u8 (.lit x.numFields), .var 0, .var 1, .var 2] = some [tb, x.numFields, pdu.getD 0, arg, v] := by
        simp (disch := omega) [evalArgs, evalE, hgl, conv_i32_u8, Nat.mod_eq_of_lt]
      rw [call_SetField e rom glob g.table tb hrom hvalid 30 (by decide) _ _ none x.numFields arg v pdu hargs hN harg hv64 hNl hpdu m l0]
      simp only [Option.map, setFieldLogFrom_mem]
      congr 1
      unfold Setter.run fieldArg
      rw [hf, hc32]
      simp only
      rw [Nat.mod_eq_of_lt harg, Nat.mod_eq_of_lt hv]
    · cases hbody
  | some fk =>
    obtain ⟨en, k⟩ := fk
    rw [hf] at hbody hfo
    simp only [fieldOK, decide_eq_true_eq] at hfo
    simp only at hbody ⊢
    split at hbody
    · rename_i h64
      have hb : F.body = _ := (Option.some.inj hbody)
      rw [hb]
      have hargs : evalArgs (mkEnv e rom glob) (mkFrame [pdu.getD 0, v])
          [.glob x.table, .cast .i32 .u8 (.lit x.numFields), .var 0, .cast .i32 .u32 (.lit k), .var 1] = some [tb, x.numFields, pdu.getD 0, k, v] := by
        simp (disch := omega) [evalArgs, evalE, hgl, conv_i32_u8, conv_i32_u32, Nat.mod_eq_of_lt]
      rw [call_SetField e rom glob g.table tb hrom hvalid 30 (by decide) _ _ none x.numFields k v pdu hargs hN (by omega) hv64 hNl hpdu m l0]
      simp only [Option.map, setFieldLogFrom_mem]
      congr 1
      unfold Setter.run fieldArg
      rw [hf]
      simp only
      rw [Nat.mod_eq_of_lt hv]
    · cases hty : tyOfBits x.valueBits with
      | none => rw [hty] at hbody; cases hbody
      | some ty =>
        rw [hty] at hbody
        obtain ⟨hbits, hsg⟩ := tyOfBits_bits hty
        have hb : F.body = _ := (Option.some.inj hbody)
        rw [hb]
        have hargs : evalArgs (mkEnv e rom glob) (mkFrame [pdu.getD 0, v])
            [.glob x.table, .cast .i32 .u8 (.lit x.numFields), .var 0, .cast .i32 .u32 (.lit k), .cast ty .u64 (.var 1)]
            = some [tb, x.numFields, pdu.getD 0, k, v] := by
          simp (disch := omega) [evalArgs, evalE, hgl, conv_i32_u8, conv_i32_u32, Nat.mod_eq_of_lt, conv_of_unsigned _ _ _ hsg, Ty.bits]
        rw [call_SetField e rom glob g.table tb hrom hvalid 30 (by decide) _ _ none x.numFields k v pdu hargs hN (by omega) hv64 hNl hpdu m l0]
        simp only [Option.map, setFieldLogFrom_mem]
        congr 1
        unfold Setter.run fieldArg
        rw [hf]
        simp only
        rw [Nat.mod_eq_of_lt hv]

/-- **Setters, as C text.**  Running the body of the function the check matched leaves the memory
    the accessor record's meaning (`Setter.run`) describes.  The frame is `[pdu, field, value]` for
    the generic writer and `[pdu, value]` for a dedicated setter. -/
theorem setter_code (fns : List Fn) (x : Setter) (h : checkSetterCode g fns x = true)
    (pdu : Option Nat) (hpdu : ∀ p, pdu = some p → p ≠ 0 ∧ p + 1024 ≤ 18446744073709551616)
    (arg v : Nat) (harg : arg < 4294967296) (hv : v < 2 ^ x.valueBits) (hvb : x.valueBits ≤ 64) (m : Mem)
    (l0 : List Access := []) :
    ∃ F ∈ fns, F.name = x.fn ∧
      (exec (mkEnv e rom glob) 31 F.body
          (mkFrame (match x.field with | none => [pdu.getD 0, arg, v] | some _ => [pdu.getD 0, v])) ⟨m, l0⟩).map
        (fun r => r.2.2.mem) = some (x.run g.table e m pdu arg v) := by
  simp only [checkSetterCode, Bool.and_eq_true, beq_iff_eq, decide_eq_true_eq, Bool.not_eq_true'] at h
  obtain ⟨⟨⟨⟨⟨ht, hN⟩, hNl⟩, hfo⟩, _⟩, hm⟩ := h
  have hv64 : v < 18446744073709551616 :=
    Nat.lt_of_lt_of_le hv (by
      calc 2 ^ x.valueBits ≤ 2 ^ 64 := Nat.pow_le_pow_right (by decide) hvb
        _ = 18446744073709551616 := by decide)
  split at hm
  · rename_i F hfind
    have hmem : F ∈ fns := List.mem_of_find?_eq_some hfind
    have hname : F.name = x.fn := by
      have := List.find?_some hfind; simpa using this
    refine ⟨F, hmem, hname, ?_⟩
    have hbody : some F.body = expectedSetterBody x := by simpa using hm
    have hgl : glob x.table = tb := by rw [ht]; exact hglob
    unfold expectedSetterBody at hbody
    cases hf : x.field with
    | none =>
      rw [hf] at hbody
      simp only at hbody ⊢
      split at hbody
      · rename_i hc
        obtain ⟨hv64b, hc32⟩ := hc
        have hb : F.body = _ := (Option.some.inj hbody)
        rw [hb]
        have hargs : evalArgs (mkEnv e rom glob) (mkFrame [pdu.getD 0, arg, v])
            [.glob x.table, .cast .i32 .u8 (.lit x.numFields), .var 0, .var 1, .var 2] = some [tb, x.numFields, pdu.getD 0, arg, v] := by
          simp (disch := omega) [evalArgs, evalE, hgl, conv_i32_u8, Nat.mod_eq_of_lt]
        rw [call_SetField e rom glob g.table tb hrom hvalid 30 (by decide) _ _ none x.numFields arg v pdu hargs hN harg hv64 hNl hpdu m l0]
        simp only [Option.map, setFieldLogFrom_mem]
        congr 1
        unfold Setter.run fieldArg
        rw [hf, hc32]
        simp only
        rw [Nat.mod_eq_of_lt harg, Nat.mod_eq_of_lt hv]
      · cases hbody
    | some fk =>
      obtain ⟨en, k⟩ := fk
      rw [hf] at hbody hfo
      simp only [fieldOK, decide_eq_true_eq] at hfo
      simp only at hbody ⊢
      split at hbody
      · rename_i h64
        have hb : F.body = _ := (Option.some.inj hbody)
        rw [hb]
        have hargs : evalArgs (mkEnv e rom glob) (mkFrame [pdu.getD 0, v])
            [.glob x.table, .cast .i32 .u8 (.lit x.numFields), .var 0, .cast .i32 .u32 (.lit k), .var 1] = some [tb, x.numFields, pdu.getD 0, k, v] := by
          simp (disch := omega) [evalArgs, evalE, hgl, conv_i32_u8, conv_i32_u32, Nat.mod_eq_of_lt]
        rw [call_SetField e rom glob g.table tb hrom hvalid 30 (by decide) _ _ none x.numFields k v pdu hargs hN (by omega) hv64 hNl hpdu m l0]
        simp only [Option.map, setFieldLogFrom_mem]
        congr 1
        unfold Setter.run fieldArg
        rw [hf]
        simp only
        rw [Nat.mod_eq_of_lt hv]
      · cases hty : tyOfBits x.valueBits with
        | none => rw [hty] at hbody; cases hbody
        | some ty =>
          rw [hty] at hbody
          obtain ⟨hbits, hsg⟩ := tyOfBits_bits hty
          have hb : F.body = _ := (Option.some.inj hbody)
          rw [hb]
          have hargs : evalArgs (mkEnv e rom glob) (mkFrame [pdu.getD 0, v])
              [.glob x.table, .cast .i32 .u8 (.lit x.numFields), .var 0, .cast .i32 .u32 (.lit k), .cast ty .u64 (.var 1)]
              = some [tb, x.numFields, pdu.getD 0, k, v] := by
            simp (disch := omega) [evalArgs, evalE, hgl, conv_i32_u8, conv_i32_u32, Nat.mod_eq_of_lt, conv_of_unsigned _ _ _ hsg, Ty.bits]
          rw [call_SetField e rom glob g.table tb hrom hvalid 30 (by decide) _ _ none x.numFields k v pdu hargs hN (by omega) hv64 hNl hpdu m l0]
          simp only [Option.map, setFieldLogFrom_mem]
          congr 1
          unfold Setter.run fieldArg
          rw [hf]
          simp only
          rw [Nat.mod_eq_of_lt hv]
  · cases hm
end

end O1722.Refine
