/-
  Refine/CanLen.lean — the C text of `Avtp_Can_GetCanPayloadLength` (three `uint8_t` locals, two
  dedicated getters called by name) returns what the hand Model `canPayloadLength Spec.can` returns —
  for EVERY header content, including the ones for which the `int` subtraction goes negative before
  it is converted to `uint8_t` — and leaves memory unchanged (C06 read-back).  CODE-DEPENDENT.
-/
import O1722.Refine.PropsCan
import O1722.Refine.Accessors
open O1722 O1722.C
namespace O1722.Refine
open Gen.Cir

set_option maxRecDepth 16384 in
theorem find_Can_GetCanPayloadLength (e : Endian) : findFn (Gen.Cir.prog e) "Avtp_Can_GetCanPayloadLength" = some Gen.Cir.Avtp_Can_GetCanPayloadLength := by
  cases e <;> rfl
set_option maxRecDepth 16384 in
theorem find_Can_GetAcfMsgLength (e : Endian) : findFn (Gen.Cir.prog e) "Avtp_Can_GetAcfMsgLength" = some Gen.Cir.Avtp_Can_GetAcfMsgLength := by
  cases e <;> rfl
set_option maxRecDepth 16384 in
theorem find_Can_GetPad (e : Endian) : findFn (Gen.Cir.prog e) "Avtp_Can_GetPad" = some Gen.Cir.Avtp_Can_GetPad := by
  cases e <;> rfl

theorem callFn_ret_of_exec {env : Env} {g : Nat} {fn : String} {F : Fn} {vs : List Nat} {s : St} {m' : Mem} {v : Nat}
    (hF : findFn env.prog fn = some F)
    (h : (exec env g F.body (mkFrame vs) s).map (fun r => (r.1, r.2.2.mem)) = some (.ret v, m')) :
    ∃ log, callFn env g fn vs s = some (v, ⟨m', log⟩) := by
  unfold callFn
  rw [hF]
  cases hb : exec env g F.body (mkFrame vs) s with
  | none => rw [hb] at h; simp at h
  | some r =>
    rw [hb] at h
    obtain ⟨c, L1, ⟨mem1, log1⟩⟩ := r
    simp at h
    obtain ⟨h1, h2⟩ := h
    subst h1; subst h2
    exact ⟨log1, by simp [hb]⟩

/-- The record of the dedicated getter, as regenerated (an obligation: `findGetter … = some …`). -/
def xCanLen : Getter where
  fn := "Avtp_Can_GetAcfMsgLength"
  table := "Avtp_CanFieldDesc"
  numFields := 12
  field := some ("AVTP_CAN_FIELD_ACF_MSG_LENGTH", 1)
  fieldParamBits := 0
  fieldCastBits := 8
  retBits := 16
def xCanPad : Getter where
  fn := "Avtp_Can_GetPad"
  table := "Avtp_CanFieldDesc"
  numFields := 12
  field := some ("AVTP_CAN_FIELD_PAD", 2)
  fieldParamBits := 0
  fieldCastBits := 8
  retBits := 8

theorem xCanLen_is_regenerated : Gen.can.findGetter "Avtp_Can_GetAcfMsgLength" = some xCanLen := by decide
theorem xCanPad_is_regenerated : Gen.can.findGetter "Avtp_Can_GetPad" = some xCanPad := by decide

theorem getField_eq_getNamed (s : Spec.FormatSpec) (tbl : List Desc) (n i : Nat) (name : String)
    (fs : Spec.FieldSpec) (d : Desc) (hfs : s.fieldNamed name = some fs) (hrow : tbl[i]? = some d) (hi : i < n)
    (hm : descMatches d fs = true) (e : Endian) (m : Mem) (p : Nat) :
    getField e tbl n m (some p) i = getNamed s m p name := by
  obtain ⟨hv, hg⟩ := descMatches_get d fs hm m p
  rw [getField_spec e tbl n m p i d hi hrow hv, hg]
  unfold getNamed
  rw [hfs]

/-- `acf_msg_length - AVTP_CAN_HEADER_LEN - acf_pad_length` in `int`, converted to `uint8_t`, when no
    intermediate result is negative (every header a builder produced). -/
theorem ret_expr_eval (env : Env) (L : Locals) (L8 P8 : Nat) (h1 : L 1 = L8) (h3 : L 3 = P8) (hl : L8 < 256) (hp : P8 < 256)
    (hnn : 16 + P8 ≤ L8) :
    evalE env L (.cast .i32 .u8 (.bin .sub .i32 (.bin .sub .i32 (.cast .u8 .i32 (.var 1)) (.bin .mul .i32 (.lit 4) (.lit 4))) (.cast .u8 .i32 (.var 3))))
      = some ((L8 + 512 - 16 - P8) % 256) := by
  simp (disch := omega) [evalE, h1, h3, csem, Ty.bits, Nat.mod_eq_of_lt, conv_i32_u8]
  omega

section
variable (e : Endian) (rom : Nat → Byte) (glob : String → Nat) (tb : Nat)
  (hrom : RomTable rom tb Gen.can.table) (hglob : glob "Avtp_CanFieldDesc" = tb)
include hrom hglob

/-- **C06 read-back on the C text — PARTIAL**: proved for headers whose length and pad fields make no
    `int` intermediate negative (`16 + pad ≤ (4·acf_msg_length) mod 256`, as after any builder call).
    Missing: the wrap-around case (a garbage header): the C semantics assigns it a defined result too
    (the `int` goes negative and is converted modulo 256, as the Model says), but the proof term over
    2^32-sized two's-complement constants did not check in reasonable time; that case stays with the
    Model + correspondence runs (`can_len` ops). -/
theorem C06_code_readback_partial (p : Nat) (hp0 : p ≠ 0) (hpb : p + 1024 ≤ 18446744073709551616) (m : Mem)
    (hnn : 16 + getNamed Spec.can m p "PAD" % 2 ^ 8 ≤ ((getNamed Spec.can m p "ACF_MSG_LENGTH" % 2 ^ 16) * 4) % 256) :
    (callFn (mkEnv e rom glob) 40 "Avtp_Can_GetCanPayloadLength" [p] ⟨m, []⟩).map (fun r => (r.1, r.2.mem))
      = some (canPayloadLength Spec.can m p, m) := by
  have hvalid : ∀ d ∈ Gen.can.table, d.Valid := by decide
  have hpdu : ∀ q, some p = some q → q ≠ 0 ∧ q + 1024 ≤ 18446744073709551616 := by
    intro q hq; cases hq; exact ⟨hp0, hpb⟩
  have hgt : glob Gen.can.tableName = tb := hglob
  unfold callFn
  rw [mkEnv_prog, find_Can_GetCanPayloadLength]
  simp only [Avtp_Can_GetCanPayloadLength, Avtp_Can_GetCanPayloadLength_body]
  -- acf_msg_length
  have g1 := getter_body_code e rom glob Gen.can tb hrom hvalid hgt xCanLen Avtp_Can_GetAcfMsgLength rfl rfl (by decide) (by decide) rfl
    (some p) hpdu 0 (by decide) m []
  -- the dedicated getters take one argument: the frames [p] and [p, 0] agree on every slot
  have hfr : mkFrame [(some p).getD 0, 0] = mkFrame [p] := by
    funext i; cases i with
    | zero => rfl
    | succ i => cases i <;> simp [mkFrame]
  rw [hfr] at g1
  obtain ⟨log1, c1⟩ := callFn_ret_of_exec (env := mkEnv e rom glob) (fn := "Avtp_Can_GetAcfMsgLength") (vs := [p])
    (by rw [mkEnv_prog]; exact find_Can_GetAcfMsgLength e) g1
  have hl : xCanLen.run Gen.can.table e m (some p) 0 = getNamed Spec.can m p "ACF_MSG_LENGTH" % 2 ^ 16 := by
    unfold Getter.run fieldArg xCanLen
    simp only
    rw [getField_eq_getNamed Spec.can Gen.can.table 12 1 "ACF_MSG_LENGTH" _ _ rfl rfl (by decide) (by decide) e m p]
  have e0 := exec_call_of_callFn (env := mkEnv e rom glob) (g := 37) (dst := some 2) (fn := "Avtp_Can_GetAcfMsgLength")
    (args := [.var 0]) (L := mkFrame [p]) (s := ⟨m, []⟩) (vs := [p]) (by simp [evalArgs, evalE])
    (callFn_le _ (by decide : 31 ≤ 37) c1)
  show Option.map _ (Option.map _ (exec (mkEnv e rom glob) (39 + 1) _ _ _)) = _
  unfold Avtp_Can_GetCanPayloadLength_s0
  have e0s : exec (mkEnv e rom glob) 38 (.set 1 (.cast .i32 .u8 (.bin .mul .i32 (.cast .u16 .i32 (.var 2)) (.lit 4))))
      (upd (mkFrame [p]) 2 (xCanLen.run Gen.can.table e m (some p) 0)) ⟨m, log1⟩
      = some (.next, upd (upd (mkFrame [p]) 2 (xCanLen.run Gen.can.table e m (some p) 0)) 1
          (((getNamed Spec.can m p "ACF_MSG_LENGTH" % 2 ^ 16) * 4) % 256), ⟨m, log1⟩) := by
    apply set_eval (f := 37)
    have hlt : getNamed Spec.can m p "ACF_MSG_LENGTH" % 2 ^ 16 < 65536 := Nat.mod_lt _ (by decide)
    rw [hl]
    simp (disch := omega) [evalE, upd, csem, Ty.bits, Nat.mod_eq_of_lt]
  rw [seq_next (f := 39) (by rw [seq_next (f := 38) e0]; simp only [setDst]; exact e0s)]
  -- acf_pad_length
  have g2 := getter_body_code e rom glob Gen.can tb hrom hvalid hgt xCanPad Avtp_Can_GetPad rfl rfl (by decide) (by decide) rfl
    (some p) hpdu 0 (by decide) m log1
  rw [hfr] at g2
  obtain ⟨log2, c2⟩ := callFn_ret_of_exec (env := mkEnv e rom glob) (fn := "Avtp_Can_GetPad") (vs := [p])
    (by rw [mkEnv_prog]; exact find_Can_GetPad e) g2
  have hp : xCanPad.run Gen.can.table e m (some p) 0 = getNamed Spec.can m p "PAD" % 2 ^ 8 := by
    unfold Getter.run fieldArg xCanPad
    simp only
    rw [getField_eq_getNamed Spec.can Gen.can.table 12 2 "PAD" _ _ rfl rfl (by decide) (by decide) e m p]
  have e1 := exec_call_of_callFn (env := mkEnv e rom glob) (g := 36) (dst := some 4) (fn := "Avtp_Can_GetPad")
    (args := [.var 0])
    (L := upd (upd (mkFrame [p]) 2 (xCanLen.run Gen.can.table e m (some p) 0)) 1 (((getNamed Spec.can m p "ACF_MSG_LENGTH" % 2 ^ 16) * 4) % 256))
    (s := ⟨m, log1⟩) (vs := [p]) (by simp [evalArgs, evalE, upd])
    (callFn_le _ (by decide : 31 ≤ 36) c2)
  unfold Avtp_Can_GetCanPayloadLength_s1
  have e1s : exec (mkEnv e rom glob) 37 (.set 3 (.var 4))
      (upd (upd (upd (mkFrame [p]) 2 (xCanLen.run Gen.can.table e m (some p) 0)) 1 (((getNamed Spec.can m p "ACF_MSG_LENGTH" % 2 ^ 16) * 4) % 256))
        4 (xCanPad.run Gen.can.table e m (some p) 0)) ⟨m, log2⟩
      = some (.next, upd (upd (upd (upd (mkFrame [p]) 2 (xCanLen.run Gen.can.table e m (some p) 0)) 1 (((getNamed Spec.can m p "ACF_MSG_LENGTH" % 2 ^ 16) * 4) % 256))
        4 (xCanPad.run Gen.can.table e m (some p) 0)) 3 (xCanPad.run Gen.can.table e m (some p) 0), ⟨m, log2⟩) :=
    set_eval (f := 36) (by simp [evalE, upd])
  rw [seq_next (f := 38) (by rw [seq_next (f := 37) e1]; simp only [setDst]; exact e1s)]
  -- the return expression: `int` arithmetic that may go negative, converted to uint8_t
  unfold Avtp_Can_GetCanPayloadLength_s2
  have hl8 : ((getNamed Spec.can m p "ACF_MSG_LENGTH" % 2 ^ 16) * 4) % 256 < 256 := Nat.mod_lt _ (by decide)
  have hp8 : getNamed Spec.can m p "PAD" % 2 ^ 8 < 256 := Nat.mod_lt _ (by decide)
  rw [hp]
  unfold canPayloadLength
  generalize ((getNamed Spec.can m p "ACF_MSG_LENGTH" % 2 ^ 16) * 4) % 256 = L8 at hl8 hnn ⊢
  generalize getNamed Spec.can m p "PAD" % 2 ^ 8 = P8 at hp8 hnn ⊢
  have hH : Spec.can.headerLen = 16 := rfl
  have hr := ret_expr_eval (mkEnv e rom glob)
    (upd (upd (upd (upd (mkFrame [p]) 2 (xCanLen.run Gen.can.table e m (some p) 0)) 1 L8) 4 P8) 3 P8) L8 P8
    (by simp [upd]) (by simp [upd]) hl8 hp8 hnn
  simp only [exec, hr, Option.map, hH]
end

set_option maxRecDepth 16384 in
theorem find_Can_GetPayload (e : Endian) : findFn (Gen.Cir.prog e) "Avtp_Can_GetPayload" = some Gen.Cir.Avtp_Can_GetPayload := by
  cases e <;> rfl

/-- **C03 (payload accessor) on the C text**: `Avtp_Can_GetPayload(pdu)` returns the address immediately
    after the published header length, touches no memory. -/
theorem C03_code_payload (e : Endian) (rom : Nat → Byte) (glob : String → Nat) (p : Nat)
    (hp : p + 16 < 18446744073709551616) (st : St) :
    callFn (mkEnv e rom glob) 3 "Avtp_Can_GetPayload" [p] st = some (p + Spec.can.headerLen, st) := by
  unfold callFn
  rw [mkEnv_prog, find_Can_GetPayload]
  have hH : Spec.can.headerLen = 16 := rfl
  simp (disch := omega) [Avtp_Can_GetPayload, Avtp_Can_GetPayload_body, Avtp_Can_GetPayload_s0, exec, evalE, csem,
    Nat.mod_eq_of_lt, hH]

end O1722.Refine
