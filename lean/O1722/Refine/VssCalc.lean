/-
  Refine/VssCalc.lean — the C text of `Avtp_Vss_CalcVssPathLength` (a dedicated getter called by name,
  the file-local helper `Vss_ReadBe16` = `memcpy` into a `uint16_t` + `Avtp_BeToCpu16`, a two-way branch
  on the address mode) returns what the hand Model `vssCalcPathLength` returns — the on-wire size of the
  VSS path that C08 speaks about — for every header content, memory, PDU address and host byte order, and
  leaves memory unchanged.  CODE-DEPENDENT.
-/
import O1722.Refine.CanLen
import O1722.Model.Vss
open O1722 O1722.C
namespace O1722.Refine
open Gen.Cir

set_option maxRecDepth 16384 in
theorem find_Vss_Calc (e : Endian) : findFn (Gen.Cir.prog e) "Avtp_Vss_CalcVssPathLength" = some Gen.Cir.Avtp_Vss_CalcVssPathLength := by
  cases e <;> rfl
set_option maxRecDepth 16384 in
theorem find_Vss_GetAddrMode (e : Endian) : findFn (Gen.Cir.prog e) "Avtp_Vss_GetAddrMode" = some Gen.Cir.Avtp_Vss_GetAddrMode := by
  cases e <;> rfl
set_option maxRecDepth 16384 in
theorem find_Vss_ReadBe16 (e : Endian) : findFn (Gen.Cir.prog e) "Vss_ReadBe16" = some Gen.Cir.Vss_ReadBe16 := by
  cases e <;> rfl
theorem find_BeToCpu16 (e : Endian) : findFn (Gen.Cir.prog e) "Avtp_BeToCpu16" =
    some (match e with | .little => Gen.Cir.Little.Avtp_BeToCpu16 | .big => Gen.Cir.Big.Avtp_BeToCpu16) := by
  cases e <;> rfl
theorem find_Bswap16 (e : Endian) : findFn (Gen.Cir.prog e) "Avtp_Bswap16" =
    some (match e with | .little => Gen.Cir.Little.Avtp_Bswap16 | .big => Gen.Cir.Big.Avtp_Bswap16) := by
  cases e <;> rfl

theorem load2_lt (e : Endian) (m : Mem) (a : Nat) : load e 2 m a < 65536 := by
  cases e
  · simp only [load, leN]
    have h1 := (m a).isLt; have h2 := (m (a + 1)).isLt; omega
  · simp only [load, beN]
    have h1 := (m a).isLt; have h2 := (m (a + 1)).isLt; omega

theorem call_BeToCpu16 (e : Endian) (rom glob) (f dst : Nat) (a : Expr) (L : Locals) (s : St) (x : Nat)
    (ha : evalE (mkEnv e rom glob) L a = some x) (hx : x < 65536) :
    exec (mkEnv e rom glob) (f + 4) (.call (some dst) "Avtp_BeToCpu16" [a]) L s
      = some (.next, upd L dst (beCpu16 e x), s) := by
  cases e
  · simp (disch := omega) [exec, evalArgs, ha, find_BeToCpu16, find_Bswap16, setDst, evalE,
      Gen.Cir.Little.Avtp_BeToCpu16, Gen.Cir.Little.Avtp_Bswap16, Gen.Cir.Little.Avtp_BeToCpu16_body, Gen.Cir.Little.Avtp_Bswap16_body,
      Gen.Cir.Little.Avtp_BeToCpu16_s0, Gen.Cir.Little.Avtp_Bswap16_s0,
      band_any, bor_any, shr_u32, shl_u32, bswap16, beCpu16, conv_u16, conv_u32, Ty.bits, Nat.mod_eq_of_lt]
  · simp [exec, evalArgs, ha, find_BeToCpu16, setDst, evalE,
      Gen.Cir.Big.Avtp_BeToCpu16, Gen.Cir.Big.Avtp_BeToCpu16_body, Gen.Cir.Big.Avtp_BeToCpu16_s0, beCpu16]

/-- `Vss_ReadBe16(p)` called from another function: the Model's `rdBe e 2`. -/
theorem call_ReadBe16 (e : Endian) (rom glob) (g dst : Nat) (hg : 7 ≤ g) (a : Expr) (L : Locals) (m : Mem) (l0 : List Access)
    (p : Nat) (ha : evalE (mkEnv e rom glob) L a = some p) (hp0 : p ≠ 0) :
    ∃ l1, exec (mkEnv e rom glob) (g + 1) (.call (some dst) "Vss_ReadBe16" [a]) L ⟨m, l0⟩
      = some (.next, upd L dst (rdBe e 2 m p), ⟨m, l1⟩) := by
  have hb : exec (mkEnv e rom glob) 7 Vss_ReadBe16.body (mkFrame [p]) ⟨m, l0⟩
      = some (.ret (rdBe e 2 m p), upd (upd (mkFrame [p]) 1 (load e 2 m p)) 2 (beCpu16 e (load e 2 m p)),
              ⟨m, l0 ++ [⟨p, 2, 1, false⟩]⟩) := by
    simp only [Vss_ReadBe16, Vss_ReadBe16_body]
    have e0 : exec (mkEnv e rom glob) 6 Vss_ReadBe16_s0 (mkFrame [p]) ⟨m, l0⟩
        = some (.next, upd (mkFrame [p]) 1 (load e 2 m p), ⟨m, l0 ++ [⟨p, 2, 1, false⟩]⟩) := by
      simp [Vss_ReadBe16_s0, exec, evalE, hp0]
    rw [seq_next (f := 6) e0]
    unfold Vss_ReadBe16_s1
    rw [seq_next (f := 5) (call_BeToCpu16 e rom glob 1 2 (.var 1) _ _ (load e 2 m p) (by simp [evalE, upd]) (load2_lt e m p))]
    simp [exec, evalE, upd, rdBe]
  have hc : callFn (mkEnv e rom glob) 7 "Vss_ReadBe16" [p] ⟨m, l0⟩ = some (rdBe e 2 m p, ⟨m, l0 ++ [⟨p, 2, 1, false⟩]⟩) := by
    unfold callFn
    rw [mkEnv_prog, find_Vss_ReadBe16]
    simp only [hb, Option.map]
  obtain ⟨g', rfl⟩ : ∃ g', g = g' + 7 := ⟨g - 7, by omega⟩
  exact ⟨_, exec_call_of_callFn (by simp [evalArgs, ha]) (callFn_le _ (by omega) hc)⟩

def xVssMode : Getter where
  fn := "Avtp_Vss_GetAddrMode"
  table := "Avtp_VssFieldDesc"
  numFields := 8
  field := some ("AVTP_VSS_FIELD_ADDR_MODE", 4)
  fieldParamBits := 0
  fieldCastBits := 8
  retBits := 32

theorem xVssMode_is_regenerated : Gen.vss.findGetter "Avtp_Vss_GetAddrMode" = some xVssMode := by decide

section
variable (e : Endian) (rom : Nat → Byte) (glob : String → Nat) (tb : Nat)
  (hrom : RomTable rom tb Gen.vss.table) (hglob : glob "Avtp_VssFieldDesc" = tb)
include hrom hglob

/-- **C08 (reported on-wire path size) on the C text.** -/
theorem C08_code_calc (p : Nat) (hp0 : p ≠ 0) (hpb : p + 1024 ≤ 18446744073709551616) (m : Mem) :
    (callFn (mkEnv e rom glob) 40 "Avtp_Vss_CalcVssPathLength" [p] ⟨m, []⟩).map (fun r => (r.1, r.2.mem))
      = some (vssCalcPathLength e m p, m) := by
  have hvalid : ∀ d ∈ Gen.vss.table, d.Valid := by decide
  have hpdu : ∀ q, some p = some q → q ≠ 0 ∧ q + 1024 ≤ 18446744073709551616 := by
    intro q hq; cases hq; exact ⟨hp0, hpb⟩
  have hgt : glob Gen.vss.tableName = tb := hglob
  unfold callFn
  rw [mkEnv_prog, find_Vss_Calc]
  simp only [Avtp_Vss_CalcVssPathLength, Avtp_Vss_CalcVssPathLength_body]
  -- vss_path_ptr
  have e0 : exec (mkEnv e rom glob) 39 Avtp_Vss_CalcVssPathLength_s0 (mkFrame [p]) ⟨m, []⟩
      = some (.next, upd (mkFrame [p]) 1 (p + 12), ⟨m, []⟩) := by
    apply set_eval (f := 38)
    simp (disch := omega) [evalE, csem, Ty.bits, Nat.mod_eq_of_lt]
  show Option.map _ (Option.map _ (exec (mkEnv e rom glob) (39 + 1) _ _ _)) = _
  rw [seq_next e0]
  -- addr_mode
  have g1 := getter_body_code e rom glob Gen.vss tb hrom hvalid hgt xVssMode Avtp_Vss_GetAddrMode rfl rfl (by decide) (by decide) rfl
    (some p) hpdu 0 (by decide) m []
  have hfr : mkFrame [(some p).getD 0, 0] = mkFrame [p] := by
    funext i; cases i with
    | zero => rfl
    | succ i => cases i <;> simp [mkFrame]
  rw [hfr] at g1
  obtain ⟨log1, c1⟩ := callFn_ret_of_exec (env := mkEnv e rom glob) (fn := "Avtp_Vss_GetAddrMode") (vs := [p])
    (by rw [mkEnv_prog]; exact find_Vss_GetAddrMode e) g1
  have hmode : xVssMode.run Gen.vss.table e m (some p) 0 = vssAddrMode m p := by
    unfold Getter.run fieldArg xVssMode vssAddrMode
    simp only
    rw [getField_eq_getNamed Spec.vss Gen.vss.table 8 4 "ADDR_MODE" _ _ rfl rfl (by decide) (by decide) e m p]
    have hlt : getNamed Spec.vss m p "ADDR_MODE" < 4 := by
      unfold getNamed
      simp only [show Spec.vss.fieldNamed "ADDR_MODE" = some _ from rfl]
      exact Nat.lt_of_lt_of_le (specGet_lt _ _ _ _) (by decide)
    exact Nat.mod_eq_of_lt (by omega)
  have e1 := exec_call_of_callFn (env := mkEnv e rom glob) (g := 36) (dst := some 3) (fn := "Avtp_Vss_GetAddrMode")
    (args := [.var 0]) (L := upd (mkFrame [p]) 1 (p + 12)) (s := ⟨m, []⟩) (vs := [p]) (by simp [evalArgs, evalE, upd])
    (callFn_le _ (by decide : 31 ≤ 36) c1)
  rw [hmode] at e1
  have e1s : exec (mkEnv e rom glob) 37 (.set 2 (.var 3)) (upd (upd (mkFrame [p]) 1 (p + 12)) 3 (vssAddrMode m p)) ⟨m, log1⟩
      = some (.next, upd (upd (upd (mkFrame [p]) 1 (p + 12)) 3 (vssAddrMode m p)) 2 (vssAddrMode m p), ⟨m, log1⟩) :=
    set_eval (f := 36) (by simp [evalE, upd])
  unfold Avtp_Vss_CalcVssPathLength_s1
  rw [seq_next (f := 38) (by rw [seq_next (f := 37) e1]; simp only [setDst]; exact e1s)]
  -- path_length = 0
  have e2 : ∀ (L : Locals) (st : St), exec (mkEnv e rom glob) 37 Avtp_Vss_CalcVssPathLength_s2 L st = some (.next, upd L 4 0, st) := by
    intro L st
    apply set_eval (f := 36); simp (disch := omega) [evalE, csem, Ty.bits]
  rw [seq_next (e2 _ _)]
  -- the branch on the address mode, then return
  unfold Avtp_Vss_CalcVssPathLength_s4 vssCalcPathLength
  generalize hmd : vssAddrMode m p = mode
  have hc1 : evalE (mkEnv e rom glob) (upd (upd (upd (upd (mkFrame [p]) 1 (p + 12)) 3 mode) 2 mode) 4 0)
      (.bin .eq .u32 (.var 2) (.cast .i32 .u32 (.lit 1))) = some (b2n (decide (mode = 1))) := by
    simp (disch := omega) [evalE, upd, csem, Ty.bits, Nat.mod_eq_of_lt]
  have hc0 : evalE (mkEnv e rom glob) (upd (upd (upd (upd (mkFrame [p]) 1 (p + 12)) 3 mode) 2 mode) 4 0)
      (.bin .eq .u32 (.var 2) (.cast .i32 .u32 (.lit 0))) = some (b2n (decide (mode = 0))) := by
    simp (disch := omega) [evalE, upd, csem, Ty.bits, Nat.mod_eq_of_lt]
  by_cases h1 : mode = 1
  · have es3 : exec (mkEnv e rom glob) 36 Avtp_Vss_CalcVssPathLength_s3
        (upd (upd (upd (upd (mkFrame [p]) 1 (p + 12)) 3 mode) 2 mode) 4 0) ⟨m, log1⟩
        = some (.next, upd (upd (upd (upd (upd (mkFrame [p]) 1 (p + 12)) 3 mode) 2 mode) 4 0) 4 4, ⟨m, log1⟩) := by
      unfold Avtp_Vss_CalcVssPathLength_s3
      rw [ite_true (f := 35) hc1 (by simp [h1, b2n])]
      exact set_eval (f := 34) (by simp (disch := omega) [evalE, csem, Ty.bits])
    rw [seq_next (f := 36) es3]
    simp [exec, evalE, upd, h1]
  · by_cases h0 : mode = 0
    · obtain ⟨l2, hrd⟩ := call_ReadBe16 e rom glob 32 5 (by decide) (.var 1)
        (upd (upd (upd (upd (mkFrame [p]) 1 (p + 12)) 3 mode) 2 mode) 4 0) m log1 (p + 12) (by simp [evalE, upd]) (by omega)
      have hlt : rdBe e 2 m (p + 12) < 65536 := by
        show beCpu16 e (load e 2 m (p + 12)) < 65536
        have := load2_lt e m (p + 12)
        cases e
        · simp only [beCpu16, bswap16]; exact Nat.mod_lt _ (by decide)
        · simpa [beCpu16] using this
      have es : exec (mkEnv e rom glob) 33 (.set 4 (.cast .i32 .u32 (.bin .add .i32 (.cast .u16 .i32 (.var 5)) (.lit 2))))
          (upd (upd (upd (upd (upd (mkFrame [p]) 1 (p + 12)) 3 mode) 2 mode) 4 0) 5 (rdBe e 2 m (p + 12))) ⟨m, l2⟩
          = some (.next, upd (upd (upd (upd (upd (upd (mkFrame [p]) 1 (p + 12)) 3 mode) 2 mode) 4 0) 5 (rdBe e 2 m (p + 12))) 4
              (rdBe e 2 m (p + 12) + 2), ⟨m, l2⟩) :=
        set_eval (f := 32) (by simp (disch := omega) [evalE, upd, csem, Ty.bits, Nat.mod_eq_of_lt])
      have es3 : exec (mkEnv e rom glob) 36 Avtp_Vss_CalcVssPathLength_s3
          (upd (upd (upd (upd (mkFrame [p]) 1 (p + 12)) 3 mode) 2 mode) 4 0) ⟨m, log1⟩
          = some (.next, upd (upd (upd (upd (upd (upd (mkFrame [p]) 1 (p + 12)) 3 mode) 2 mode) 4 0) 5 (rdBe e 2 m (p + 12))) 4
              (rdBe e 2 m (p + 12) + 2), ⟨m, l2⟩) := by
        unfold Avtp_Vss_CalcVssPathLength_s3
        rw [ite_false (f := 35) (by rw [hc1]; simp [h1, b2n]), ite_true (f := 34) hc0 (by simp [h0, b2n]), seq_next (f := 33) hrd]
        exact es
      rw [seq_next (f := 36) es3]
      simp [exec, evalE, upd, h1, h0, Spec.vssFixedHeader]
    · have es3 : exec (mkEnv e rom glob) 36 Avtp_Vss_CalcVssPathLength_s3
          (upd (upd (upd (upd (mkFrame [p]) 1 (p + 12)) 3 mode) 2 mode) 4 0) ⟨m, log1⟩
          = some (.next, upd (upd (upd (upd (mkFrame [p]) 1 (p + 12)) 3 mode) 2 mode) 4 0, ⟨m, log1⟩) := by
        unfold Avtp_Vss_CalcVssPathLength_s3
        rw [ite_false (f := 35) (by rw [hc1]; simp [h1, b2n]), ite_false (f := 34) (by rw [hc0]; simp [h0, b2n])]
        simp [exec]
      rw [seq_next (f := 36) es3]
      simp [exec, evalE, upd, h1, h0]
end

end O1722.Refine
