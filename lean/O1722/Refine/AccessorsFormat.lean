/-
  Refine/AccessorsFormat.lean — C01 / C02 for the C TEXT of every dedicated and generic accessor of a
  format: `checkC01/02 spec gen` (the accessor records of Gen/Data.lean meet the Spec) and
  `checkAccessors gen fns` (the records are what the C text of Gen/Cir.lean says) together give:
  running the body of the C function named like the Spec's accessor returns the field's wire bits /
  performs the reference write.  Generic; instantiated per format in the regenerated Gen/InstAcc.lean.
-/
import O1722.Refine.Accessors
import O1722.Props.Fields
open O1722 O1722.C O1722.Spec
namespace O1722.Refine

section
variable (e : Endian) (rom : Nat → Byte) (glob : String → Nat) (s : FormatSpec) (g : GenFormat) (fns : List Fn)
  (tb : Nat) (hrom : RomTable rom tb g.table) (hvalid : ∀ d ∈ g.table, d.Valid) (hglob : glob g.tableName = tb)
  (hacc : checkAccessors g fns = true)
include hrom hvalid hglob hacc

/-- **C01, dedicated getters, on the C text.** -/
theorem C01_code_dedicated (h01 : checkC01 s g = true) (x : Getter) (hx : x ∈ g.getters) (hd : x.field.isSome = true)
    (p : Nat) (hp0 : p ≠ 0) (hpb : p + 1024 ≤ 18446744073709551616) (m : Mem) :
    ∃ fs ∈ s.fields, s.getterName fs = x.fn ∧ ∃ F ∈ fns, F.name = x.fn ∧
      (exec (mkEnv e rom glob) 31 F.body (mkFrame [p, 0]) ⟨m, []⟩).map (fun r => (r.1, r.2.2.mem))
        = some (.ret (specGet m p fs.first fs.width), m) := by
  obtain ⟨fs, hfs, hname, hrun⟩ := (C01_format s g h01).2 x hx hd
  simp only [checkAccessors, Bool.and_eq_true, List.all_eq_true] at hacc
  obtain ⟨F, hF, hFn, hex⟩ := getter_code e rom glob g tb hrom hvalid hglob fns x (hacc.1 x hx) (some p)
    (by intro q hq; cases hq; exact ⟨hp0, hpb⟩) 0 (by decide) m
  refine ⟨fs, hfs, hname, F, hF, hFn, ?_⟩
  rw [show (some p).getD 0 = p from rfl] at hex
  rw [hex, hrun]

/-- **C01, generic by-identifier readers, on the C text.** -/
theorem C01_code_generic (h01 : checkC01 s g = true) (fs : FieldSpec) (hfs : fs ∈ s.fields)
    (x : Getter) (hx : x ∈ g.genericGetters)
    (p : Nat) (hp0 : p ≠ 0) (hpb : p + 1024 ≤ 18446744073709551616) (m : Mem) :
    ∃ i, g.enumValue fs.enumName = some i ∧ (i < 4294967296 → ∃ F ∈ fns, F.name = x.fn ∧
      (exec (mkEnv e rom glob) 31 F.body (mkFrame [p, i]) ⟨m, []⟩).map (fun r => (r.1, r.2.2.mem))
        = some (.ret (specGet m p fs.first fs.width), m)) := by
  obtain ⟨i, hi, hrun⟩ := (C01_format s g h01).1 fs hfs
  refine ⟨i, hi, ?_⟩
  intro hi32
  simp only [checkAccessors, Bool.and_eq_true, List.all_eq_true] at hacc
  have hxg : x ∈ g.getters := (List.mem_filter.mp hx).1
  obtain ⟨F, hF, hFn, hex⟩ := getter_code e rom glob g tb hrom hvalid hglob fns x (hacc.1 x hxg) (some p)
    (by intro q hq; cases hq; exact ⟨hp0, hpb⟩) i hi32 m
  refine ⟨F, hF, hFn, ?_⟩
  rw [show (some p).getD 0 = p from rfl] at hex
  rw [hex, hrun x hx e m p]

/-- **C02, dedicated setters, on the C text**: every value of the parameter type is stored modulo
    the field width in exactly the field's bit range. -/
theorem C02_code_dedicated (h02 : checkC02 s g = true) (x : Setter) (hx : x ∈ g.setters) (hd : x.field.isSome = true)
    (hvb : x.valueBits ≤ 64)
    (p v : Nat) (hp0 : p ≠ 0) (hpb : p + 1024 ≤ 18446744073709551616) (hv : v < 2 ^ x.valueBits) (m : Mem) :
    ∃ fs ∈ s.fields, s.setterName fs = x.fn ∧ ∃ F ∈ fns, F.name = x.fn ∧
      (exec (mkEnv e rom glob) 31 F.body (mkFrame [p, v]) ⟨m, []⟩).map (fun r => r.2.2.mem)
        = some (specSet m p fs.first fs.width (v % 2 ^ fs.width)) := by
  obtain ⟨fs, hfs, _, hname, _, hrun⟩ := (C02_format s g h02).2 x hx hd
  simp only [checkAccessors, Bool.and_eq_true, List.all_eq_true] at hacc
  obtain ⟨F, hF, hFn, hex⟩ := setter_code e rom glob g tb hrom hvalid hglob fns x (hacc.2 x hx) (some p)
    (by intro q hq; cases hq; exact ⟨hp0, hpb⟩) 0 v (by decide) hv hvb m
  refine ⟨fs, hfs, hname, F, hF, hFn, ?_⟩
  cases hf : x.field with
  | none => rw [hf] at hd; cases hd
  | some fk =>
    rw [hf] at hex
    simp only at hex
    rw [show (some p).getD 0 = p from rfl] at hex
    rw [hex, hrun e m p 0 v hv]
end

end O1722.Refine
