/-
  Refine/Forward.lean — the "forwarder" shapes in which the per-format generic accessors are
  written (`X_SetField(pdu, field, value) { Avtp_SetField(T, N, (uint8_t*)pdu, field, value); }`,
  `X_GetField(pdu, field) { return Avtp_GetField(T, N, (uint8_t*)pdu, field); }`): a call of such a
  function is the Model writer / reader on the table `T` with `N` fields.
-/
import O1722.Refine.Calls
open O1722 O1722.C
namespace O1722.Refine

section
variable (e : Endian) (rom : Nat → Byte) (glob : String → Nat) (tbl : List Desc) (tb : Nat)
  (hrom : RomTable rom tb tbl) (hvalid : ∀ d ∈ tbl, d.Valid)
include hrom hvalid

/-- A function whose body is `Avtp_SetField(T, N, pdu, field, value)` on its three parameters. -/
theorem call_fwdSet (name T : String) (N : Nat) (F : Fn)
    (hF : findFn (Gen.Cir.prog e) name = some F)
    (hbody : F.body = .call none "Avtp_SetField" [.glob T, .cast .i32 .u8 (.lit N), .var 0, .var 1, .var 2])
    (hglob : glob T = tb) (hN : N < 256) (hNl : N ≤ tbl.length)
    (g : Nat) (hg : 28 ≤ g) (L : Locals) (args : List Expr) (dst : Option Nat)
    (field value : Nat) (pdu : Option Nat)
    (hargs : evalArgs (mkEnv e rom glob) L args = some [pdu.getD 0, field, value])
    (hfield : field < 4294967296) (hv : value < 18446744073709551616)
    (hpdu : ∀ p, pdu = some p → p ≠ 0 ∧ p + 1024 ≤ 18446744073709551616) (m : Mem) (l0 : List Access) :
    exec (mkEnv e rom glob) (g + 1) (.call dst name args) L ⟨m, l0⟩
      = some (.next, setDst L dst 0, ⟨(setFieldLogFrom l0 e tbl N m pdu field value).1,
                                       (setFieldLogFrom l0 e tbl N m pdu field value).2⟩) := by
  apply exec_call_of_callFn hargs
  unfold callFn
  rw [mkEnv_prog, hF]
  simp only [hbody]
  obtain ⟨g', rfl⟩ : ∃ g', g = g' + 1 := ⟨g - 1, by omega⟩
  have hargs' : evalArgs (mkEnv e rom glob) (mkFrame [pdu.getD 0, field, value])
      [.glob T, .cast .i32 .u8 (.lit N), .var 0, .var 1, .var 2] = some [tb, N, pdu.getD 0, field, value] := by
    simp (disch := omega) [evalArgs, evalE, hglob, conv_i32_u8, Nat.mod_eq_of_lt]
  rw [call_SetField e rom glob tbl tb hrom hvalid g' (by omega) _ _ none N field value pdu hargs' hN hfield hv hNl hpdu m l0]
  rfl

/-- A function whose body is `return Avtp_GetField(T, N, pdu, field)` on its two parameters
    (the result of the call lives in slot `t`). -/
theorem call_fwdGet (name T : String) (N t : Nat) (F : Fn)
    (hF : findFn (Gen.Cir.prog e) name = some F)
    (hbody : F.body = .seq (.call (some t) "Avtp_GetField" [.glob T, .cast .i32 .u8 (.lit N), .var 0, .var 1])
                            (.ret (some (.var t))))
    (hglob : glob T = tb) (hN : N < 256) (hNl : N ≤ tbl.length)
    (g : Nat) (hg : 29 ≤ g) (L : Locals) (args : List Expr) (dst : Option Nat)
    (field : Nat) (pdu : Option Nat)
    (hargs : evalArgs (mkEnv e rom glob) L args = some [pdu.getD 0, field])
    (hfield : field < 4294967296)
    (hpdu : ∀ p, pdu = some p → p ≠ 0 ∧ p + 1024 ≤ 18446744073709551616) (m : Mem) (l0 : List Access) :
    exec (mkEnv e rom glob) (g + 1) (.call dst name args) L ⟨m, l0⟩
      = some (.next, setDst L dst (getFieldLogFrom l0 e tbl N m pdu field).1,
              ⟨m, (getFieldLogFrom l0 e tbl N m pdu field).2⟩) := by
  apply exec_call_of_callFn hargs
  unfold callFn
  rw [mkEnv_prog, hF]
  simp only [hbody]
  obtain ⟨g', rfl⟩ : ∃ g', g = g' + 2 := ⟨g - 2, by omega⟩
  have hargs' : evalArgs (mkEnv e rom glob) (mkFrame [pdu.getD 0, field])
      [.glob T, .cast .i32 .u8 (.lit N), .var 0, .var 1] = some [tb, N, pdu.getD 0, field] := by
    simp (disch := omega) [evalArgs, evalE, hglob, conv_i32_u8, Nat.mod_eq_of_lt]
  rw [seq_next (call_GetField e rom glob tbl tb hrom hvalid g' (by omega) _ _ (some t) N field pdu hargs' hN hfield hNl hpdu m l0)]
  simp [exec, evalE, setDst]
end

end O1722.Refine
