/-
  Refine/Legacy.lean — the deprecated by-identifier wrappers (`avtp_*_pdu_get/set`) as C TEXT:
  `expectedLegacySetBody` / `expectedLegacyGetBody` rebuild the body a wrapper record of Gen/Data.lean
  stands for (argument checks, the forwarded call, the typed store through the out-parameter); when the C
  function of Gen/Cir.lean has that body and the current-API function it CALLS is, in the program, the
  generic accessor its record describes, running the wrapper gives the memory and return value
  `LegacyAcc.runSet` / `runGet` give — the objects C11_format / C12's `legacy*_eq_current` speak about.
  Generic; instantiated per format in the regenerated Gen/InstLegacy.lean.
-/
import O1722.Refine.Inits
import O1722.Props.Api
open O1722 O1722.C
namespace O1722.Refine

def legacyGuardSet (b : Nat) : Expr :=
  .bin .lor .i32 (.bin .eq .u64 (.var 0) (.lit 0)) (.bin .ge .u32 (.var 1) (.cast .i32 .u32 (.lit b)))

def legacyGuardGet (b : Nat) : Expr :=
  .bin .lor .i32 (.bin .lor .i32 (.bin .eq .u64 (.var 0) (.lit 0)) (.bin .eq .u64 (.var 2) (.lit 0)))
    (.bin .ge .u32 (.var 1) (.cast .i32 .u32 (.lit b)))

def errRet : Stmt := .ret (some (.un .neg .i32 (.lit 22)))

/-- The body a legacy setter record stands for. -/
def expectedLegacySetBody (l : LegacyAcc) : Option Stmt :=
  match l.bound with
  | some b =>
    if l.isGet = false ∧ l.guardPdu = true ∧ l.fieldBits = 32 ∧ l.err = -22 ∧ l.ok = 0 then
      if l.valBits = 64 then
        some (.ite (legacyGuardSet b) errRet (.seq (.call none l.fwd [.var 0, .var 1, .var 2]) (.ret (some (.lit 0)))))
      else if l.valBits = 32 then
        some (.ite (legacyGuardSet b) errRet (.seq (.call none l.fwd [.var 0, .var 1, .cast .u32 .u64 (.var 2)]) (.ret (some (.lit 0)))))
      else none
    else none
  | none => none

/-- The body a legacy getter record stands for. -/
def expectedLegacyGetBody (l : LegacyAcc) : Option Stmt :=
  match l.bound with
  | some b =>
    if l.isGet = true ∧ l.guardPdu = true ∧ l.guardVal = true ∧ l.fieldBits = 32 ∧ l.err = -22 ∧ l.ok = 0 then
      if l.valBits = 64 then
        some (.ite (legacyGuardGet b) errRet
          (.seq (.seq (.call (some 3) l.fwd [.var 0, .var 1]) (.storeVal (.var 2) 8 (.var 3))) (.ret (some (.lit 0)))))
      else if l.valBits = 32 then
        some (.ite (legacyGuardGet b) errRet
          (.seq (.seq (.call (some 4) l.fwd [.var 0, .var 1]) (.set 3 (.var 4)))
                (.seq (.storeVal (.var 2) 4 (.cast .u64 .u32 (.var 3))) (.ret (some (.lit 0))))))
      else none
    else none
  | none => none

theorem callFn_ret_of_exec2 {env : Env} {g : Nat} {fn : String} {F : Fn} {vs : List Nat} {s : St} {m' : Mem} {v : Nat}
    (hF : findFn env.prog fn = some F)
    (h : (exec env g F.body (mkFrame vs) s).map (fun r => (r.1, r.2.2.mem)) = some (.ret v, m')) :
    ∃ log, callFn env g fn vs s = some (v, ⟨m', log⟩) := by
  unfold callFn
  rw [hF]
  cases hb : exec env g F.body (mkFrame vs) s with
  | none => rw [hb] at h; simp at h
  | some r =>
    rw [hb] at h
    obtain ⟨c, L1, ⟨mem1, log1⟩⟩ := r
    simp at h
    obtain ⟨h1, h2⟩ := h
    subst h1; subst h2
    exact ⟨log1, by simp [hb]⟩

theorem neg22 : evalUn .neg .i32 22 = some (Ty.ofInt .i32 (-22)) := by
  simp only [evalUn, arith, Ty.signed, if_true]
  rw [toInt_i32_small 22 (by decide), fits_i32 _ (by decide) (by decide)]
  rfl

section
variable (e : Endian) (rom : Nat → Byte) (glob : String → Nat) (g : GenFormat) (tb : Nat)
  (hrom : RomTable rom tb g.table) (hvalid : ∀ d ∈ g.table, d.Valid) (hglob : glob g.tableName = tb)
include hrom hvalid hglob

/-- The shape shared by all legacy setters, with the value argument expression left open. -/
theorem legacySet_exec (l : LegacyAcc) (b : Nat) (hb31 : b < 2147483648) (valE : Expr)
    (x : Setter) (Fs : Fn) (hxf : x.field = none)
    (hFs : findFn (Gen.Cir.prog e) l.fwd = some Fs) (hsb : some Fs.body = expectedSetterBody x)
    (ht : x.table = g.tableName) (hN : x.numFields < 256) (hNl : x.numFields ≤ g.table.length) (hvb : x.valueBits = 64)
    (pdu : Option Nat) (hpdu : ∀ p, pdu = some p → p ≠ 0 ∧ p + 1024 ≤ 18446744073709551616)
    (field value : Nat) (hf : field < 4294967296) (hv : value < 18446744073709551616)
    (hvalE : evalE (mkEnv e rom glob) (mkFrame [pdu.getD 0, field, value]) valE = some value) (m : Mem) :
    (exec (mkEnv e rom glob) 40
        (.ite (legacyGuardSet b) errRet (.seq (.call none l.fwd [.var 0, .var 1, valE]) (.ret (some (.lit 0)))))
        (mkFrame [pdu.getD 0, field, value]) ⟨m, []⟩).map (fun r => (r.1, r.2.2.mem))
      = some (if (pdu.isNone || decide (b ≤ field)) then (.ret (Ty.ofInt .i32 (-22)), m)
              else (.ret 0, x.run g.table e m pdu field value)) := by
  have hguard : evalE (mkEnv e rom glob) (mkFrame [pdu.getD 0, field, value]) (legacyGuardSet b)
      = some (b2n (pdu.isNone || decide (b ≤ field))) := by
    cases pdu with
    | none => simp [legacyGuardSet, evalE, evalBin, b2n]
    | some p =>
      have hp0 := (hpdu p rfl).1
      by_cases hbf : b ≤ field
      · simp (disch := omega) [legacyGuardSet, evalE, evalBin, b2n, hp0, hbf, toInt_u32, conv_i32_u32]
      · simp (disch := omega) [legacyGuardSet, evalE, evalBin, b2n, hp0, hbf, toInt_u32, conv_i32_u32]
  by_cases hr : (pdu.isNone || decide (b ≤ field)) = true
  · rw [ite_true (f := 39) hguard (by simp [hr, b2n]), if_pos hr]
    simp [errRet, exec, evalE, neg22]
  · rw [ite_false (f := 39) (by rw [hguard]; simp [hr, b2n]), if_neg hr]
    simp only [Bool.or_eq_true, not_or, Bool.not_eq_true, decide_eq_false_iff_not] at hr
    obtain ⟨p, rfl⟩ : ∃ p, pdu = some p := by
      cases pdu with
      | none => simp at hr
      | some p => exact ⟨p, rfl⟩
    have hfo : fieldOK x.field = true := by rw [hxf]; rfl
    have hex := setter_body_code e rom glob g tb hrom hvalid hglob x Fs hsb ht hN hNl hfo (some p) hpdu field value
      hf (by rw [hvb]; exact hv) (by omega) m []
    rw [hxf] at hex
    simp only at hex
    obtain ⟨v, log, hcall⟩ := callFn_mem_of_exec (env := mkEnv e rom glob) (fn := l.fwd) (by rw [mkEnv_prog]; exact hFs) hex
    have hargs : evalArgs (mkEnv e rom glob) (mkFrame [(some p).getD 0, field, value]) [.var 0, .var 1, valE]
        = some [(some p).getD 0, field, value] := by
      have hvalE' : evalE (mkEnv e rom glob) (mkFrame [p, field, value]) valE = some value := hvalE
      simp [evalArgs, evalE, hvalE']
    have hc := exec_call_of_callFn (dst := none) (L := mkFrame [(some p).getD 0, field, value]) hargs
      (callFn_le _ (by decide : 31 ≤ 37) hcall)
    rw [seq_next (f := 38) hc]
    simp [exec, evalE, setDst]

/-- **Legacy setters, as C text.** -/
theorem legacySet_code (l : LegacyAcc) (F : Fn) (hbody : some F.body = expectedLegacySetBody l)
    (x : Setter) (Fs : Fn) (hx : g.findSetter l.fwd = some x) (hxf : x.field = none)
    (hFs : findFn (Gen.Cir.prog e) l.fwd = some Fs) (hsb : some Fs.body = expectedSetterBody x)
    (ht : x.table = g.tableName) (hN : x.numFields < 256) (hNl : x.numFields ≤ g.table.length) (hvb : x.valueBits = 64)
    (pdu : Option Nat) (hpdu : ∀ p, pdu = some p → p ≠ 0 ∧ p + 1024 ≤ 18446744073709551616)
    (field value : Nat) (hf : field < 4294967296) (hv : value < 2 ^ l.valBits) (m : Mem)
    (hbound : ∀ b, l.bound = some b → b < 2147483648) :
    (exec (mkEnv e rom glob) 40 F.body (mkFrame [pdu.getD 0, field, value]) ⟨m, []⟩).map (fun r => (r.1, r.2.2.mem))
      = (l.runSet g e m pdu field value).map (fun r => (.ret (Ty.ofInt .i32 r.2), r.1)) := by
  unfold expectedLegacySetBody at hbody
  cases hb : l.bound with
  | none => rw [hb] at hbody; cases hbody
  | some b =>
    rw [hb] at hbody
    simp only at hbody
    have hb31 := hbound b hb
    split at hbody
    · rename_i hc
      obtain ⟨hget, hgp, hfb, herr, hok⟩ := hc
      have hrej : l.rejects pdu (some 0) field = (pdu.isNone || decide (b ≤ field)) := by
        simp [LegacyAcc.rejects, hgp, hget, hb]
      have hrun : (l.runSet g e m pdu field value).map (fun r => (Ctl.ret (Ty.ofInt .i32 r.2), r.1))
          = some (if (pdu.isNone || decide (b ≤ field)) then (.ret (Ty.ofInt .i32 (-22)), m)
                  else (.ret 0, x.run g.table e m pdu field value)) := by
        unfold LegacyAcc.runSet
        rw [hrej, hx]
        split
        · simp [herr]
        · simp [hok, Nat.mod_eq_of_lt hv, Ty.ofInt]
      rw [hrun]
      split at hbody
      · rename_i h64
        rw [Option.some.inj hbody]
        exact legacySet_exec e rom glob g tb hrom hvalid hglob l b hb31 (.var 2) x Fs hxf hFs hsb ht hN hNl hvb pdu hpdu field value hf
          (by rw [h64] at hv; exact hv) (by simp [evalE]) m
      · split at hbody
        · rename_i h32
          rw [Option.some.inj hbody]
          have hv32 : value < 4294967296 := by rw [h32] at hv; exact hv
          exact legacySet_exec e rom glob g tb hrom hvalid hglob l b hb31 (.cast .u32 .u64 (.var 2)) x Fs hxf hFs hsb ht hN hNl hvb pdu hpdu field value hf
            (by omega) (by simp (disch := omega) [evalE, conv_u32, Ty.bits, Nat.mod_eq_of_lt]) m
        · cases hbody
    · cases hbody

/-- **Legacy getters, as C text.**  `val` is the out-parameter (NULL = `none`). -/
theorem legacyGet_code (l : LegacyAcc) (F : Fn) (hbody : some F.body = expectedLegacyGetBody l)
    (x : Getter) (Fs : Fn) (hx : g.findGetter l.fwd = some x) (hxf : x.field = none)
    (hFs : findFn (Gen.Cir.prog e) l.fwd = some Fs) (hsb : some Fs.body = expectedGetterBody x)
    (ht : x.table = g.tableName) (hN : x.numFields < 256) (hNl : x.numFields ≤ g.table.length)
    (pdu val : Option Nat) (hpdu : ∀ p, pdu = some p → p ≠ 0 ∧ p + 1024 ≤ 18446744073709551616)
    (hval : ∀ v, val = some v → v ≠ 0)
    (field : Nat) (hf : field < 4294967296) (m : Mem)
    (hbound : ∀ b, l.bound = some b → b < 2147483648) :
    (exec (mkEnv e rom glob) 40 F.body (mkFrame [pdu.getD 0, field, val.getD 0]) ⟨m, []⟩).map (fun r => (r.1, r.2.2.mem))
      = (l.runGet g e m pdu val field).map (fun r => (.ret (Ty.ofInt .i32 r.2), r.1)) := by
  unfold expectedLegacyGetBody at hbody
  cases hb : l.bound with
  | none => rw [hb] at hbody; cases hbody
  | some b =>
    rw [hb] at hbody
    simp only at hbody
    have hb31 := hbound b hb
    split at hbody
    · rename_i hc
      obtain ⟨hget, hgp, hgv, hfb, herr, hok⟩ := hc
      have hrej : l.rejects pdu val field = (pdu.isNone || val.isNone || decide (b ≤ field)) := by
        simp [LegacyAcc.rejects, hgp, hget, hgv, hb]
      have hguard : evalE (mkEnv e rom glob) (mkFrame [pdu.getD 0, field, val.getD 0]) (legacyGuardGet b)
          = some (b2n (pdu.isNone || val.isNone || decide (b ≤ field))) := by
        cases pdu with
        | none => simp [legacyGuardGet, evalE, evalBin, b2n]
        | some p =>
          have hp0 := (hpdu p rfl).1
          cases val with
          | none => simp [legacyGuardGet, evalE, evalBin, b2n, hp0]
          | some v =>
            have hv0 := hval v rfl
            by_cases hbf : b ≤ field
            · simp (disch := omega) [legacyGuardGet, evalE, evalBin, b2n, hp0, hv0, hbf, toInt_u32, conv_i32_u32]
            · simp (disch := omega) [legacyGuardGet, evalE, evalBin, b2n, hp0, hv0, hbf, toInt_u32, conv_i32_u32]
      unfold LegacyAcc.runGet
      rw [hrej]
      by_cases hr : (pdu.isNone || val.isNone || decide (b ≤ field)) = true
      · rw [if_pos hr]
        have : ∀ body, (exec (mkEnv e rom glob) 40 (.ite (legacyGuardGet b) errRet body)
            (mkFrame [pdu.getD 0, field, val.getD 0]) ⟨m, []⟩).map (fun r => (r.1, r.2.2.mem))
            = some (.ret (Ty.ofInt .i32 (-22)), m) := by
          intro body
          rw [ite_true (f := 39) hguard (by simp [hr, b2n])]
          simp [errRet, exec, evalE, neg22]
        split at hbody
        · rw [Option.some.inj hbody, this]; simp [herr]
        · split at hbody
          · rw [Option.some.inj hbody, this]; simp [herr]
          · cases hbody
      · rw [if_neg hr]
        simp only [Bool.or_eq_true, not_or, Bool.not_eq_true, decide_eq_false_iff_not] at hr
        obtain ⟨⟨hpn, hvn⟩, hbf⟩ := hr
        obtain ⟨p, rfl⟩ : ∃ p, pdu = some p := by
          cases pdu with
          | none => simp at hpn
          | some p => exact ⟨p, rfl⟩
        obtain ⟨v, rfl⟩ : ∃ v, val = some v := by
          cases val with
          | none => simp at hvn
          | some v => exact ⟨v, rfl⟩
        have hv0 := hval v rfl
        have hfo : fieldOK x.field = true := by rw [hxf]; rfl
        have hex := getter_body_code e rom glob g tb hrom hvalid hglob x Fs hsb ht hN hNl hfo (some p) hpdu field hf m []
        obtain ⟨log, hcall⟩ := callFn_ret_of_exec2 (env := mkEnv e rom glob) (fn := l.fwd) (vs := [(some p).getD 0, field])
          (by rw [mkEnv_prog]; exact hFs) hex
        have hargs : evalArgs (mkEnv e rom glob) (mkFrame [(some p).getD 0, field, (some v).getD 0]) [.var 0, .var 1]
            = some [(some p).getD 0, field] := by
          simp [evalArgs, evalE]
        rw [hx]
        simp only
        have hnotguard : evalE (mkEnv e rom glob) (mkFrame [(some p).getD 0, field, (some v).getD 0]) (legacyGuardGet b) = some 0 := by
          rw [hguard]; simp [hbf, b2n]
        have hfr : mkFrame [(some p).getD 0, field, (some v).getD 0] = mkFrame [p, field, v] := rfl
        split at hbody
        · rename_i h64
          rw [Option.some.inj hbody, ite_false (f := 39) hnotguard]
          have hc := exec_call_of_callFn (dst := some 3) (L := mkFrame [(some p).getD 0, field, (some v).getD 0]) hargs
            (callFn_le _ (by decide : 31 ≤ 36) hcall)
          have est : exec (mkEnv e rom glob) 37 (.storeVal (.var 2) 8 (.var 3))
              (upd (mkFrame [p, field, v]) 3 (x.run g.table e m (some p) field)) ⟨m, log⟩
              = some (.next, upd (mkFrame [p, field, v]) 3 (x.run g.table e m (some p) field),
                  ⟨store e 8 m v (x.run g.table e m (some p) field), log ++ [⟨v, 8, 8, true⟩]⟩) := by
            simp [exec, evalE, upd, hv0]
          have inner : exec (mkEnv e rom glob) 38 (.seq (.call (some 3) l.fwd [.var 0, .var 1]) (.storeVal (.var 2) 8 (.var 3)))
              (mkFrame [(some p).getD 0, field, (some v).getD 0]) ⟨m, []⟩
              = some (.next, upd (mkFrame [p, field, v]) 3 (x.run g.table e m (some p) field),
                  ⟨store e 8 m v (x.run g.table e m (some p) field), log ++ [⟨v, 8, 8, true⟩]⟩) := by
            rw [seq_next (f := 37) hc]; simp only [setDst, hfr]; exact est
          rw [seq_next (f := 38) inner]
          have hlt : x.run g.table e m (some p) field < 2 ^ 64 := by
            unfold Getter.run
            exact Nat.lt_of_lt_of_le (Nat.mod_lt _ (Nat.two_pow_pos _)) (Nat.pow_le_pow_right (by decide) (by
              have := hsb; unfold expectedGetterBody at this; rw [hxf] at this; simp only at this
              split at this
              · rename_i hc2; omega
              · cases this))
          simp [exec, evalE, hok, h64, Nat.mod_eq_of_lt hlt, Ty.ofInt]
        · split at hbody
          · rename_i h32
            rw [Option.some.inj hbody, ite_false (f := 39) hnotguard]
            have hc := exec_call_of_callFn (dst := some 4) (L := mkFrame [(some p).getD 0, field, (some v).getD 0]) hargs
              (callFn_le _ (by decide : 31 ≤ 36) hcall)
            have eset : exec (mkEnv e rom glob) 37 (.set 3 (.var 4)) (upd (mkFrame [p, field, v]) 4 (x.run g.table e m (some p) field)) ⟨m, log⟩
                = some (.next, upd (upd (mkFrame [p, field, v]) 4 (x.run g.table e m (some p) field)) 3 (x.run g.table e m (some p) field), ⟨m, log⟩) :=
              set_eval (f := 36) (by simp [evalE, upd])
            have first : exec (mkEnv e rom glob) 38 (.seq (.call (some 4) l.fwd [.var 0, .var 1]) (.set 3 (.var 4)))
                (mkFrame [(some p).getD 0, field, (some v).getD 0]) ⟨m, []⟩
                = some (.next, upd (upd (mkFrame [p, field, v]) 4 (x.run g.table e m (some p) field)) 3 (x.run g.table e m (some p) field), ⟨m, log⟩) := by
              rw [seq_next (f := 37) hc]; simp only [setDst, hfr]; exact eset
            rw [seq_next (f := 38) first]
            have est : exec (mkEnv e rom glob) 37 (.storeVal (.var 2) 4 (.cast .u64 .u32 (.var 3)))
                (upd (upd (mkFrame [p, field, v]) 4 (x.run g.table e m (some p) field)) 3 (x.run g.table e m (some p) field)) ⟨m, log⟩
                = some (.next, upd (upd (mkFrame [p, field, v]) 4 (x.run g.table e m (some p) field)) 3 (x.run g.table e m (some p) field),
                    ⟨store e 4 m v (x.run g.table e m (some p) field % 2 ^ 32), log ++ [⟨v, 4, 4, true⟩]⟩) := by
              simp [exec, evalE, upd, hv0, conv_u64, Ty.bits]
            rw [seq_next (f := 37) est]
            simp [exec, evalE, hok, h32, Ty.ofInt]
          · cases hbody
    · cases hbody
end

end O1722.Refine

namespace O1722.Refine
open O1722 O1722.C

/-- The body of a legacy initialiser that only guards against NULL and calls the current one
    (`avtp_crf_pdu_init`, `avtp_rvf_pdu_init`). -/
def expectedLegacyInitBody (i : Init) : Option Stmt :=
  match i.steps with
  | [.callInit fn] =>
    if i.legacy = true ∧ i.err = -22 ∧ i.ok = 0 then
      some (.ite (.bin .eq .u64 (.var 0) (.lit 0)) errRet (.seq (.call none fn [.var 0]) (.ret (some (.lit 0)))))
    else none
  | _ => none

section
variable (e : Endian) (rom : Nat → Byte) (glob : String → Nat) (g : GenFormat) (tb : Nat)
  (hrom : RomTable rom tb g.table) (hvalid : ∀ d ∈ g.table, d.Valid) (hglob : glob g.tableName = tb)
include hrom hvalid hglob

omit hrom hvalid hglob in
theorem step_run_some (p : Nat) (st : InitStep) (hok : StepOK e g st) (m : Mem) : ∃ m', st.run g e p 0 m = some m' := by
  cases st with
  | memset0 _ len => exact ⟨_, rfl⟩
  | setField fn fld fv value =>
    obtain ⟨x, F, hx, hxf, _⟩ := hok
    exact ⟨x.run g.table e m (some p) fv value, by simp [InitStep.run, hx, hxf]⟩
  | setConst fn value =>
    obtain ⟨x, F, hx, hxf, _⟩ := hok
    exact ⟨x.run g.table e m (some p) 0 value, by simp [InitStep.run, hx, hxf]⟩
  | setParam _ _ => cases hok
  | callInit _ => cases hok
  | checkedSet _ _ _ _ => cases hok

omit hrom hvalid hglob in
theorem runSteps_some (p : Nat) : ∀ (steps : List InitStep) (_hok : ∀ st ∈ steps, StepOK e g st) (m : Mem),
    ∃ m', runSteps g e p 0 steps m = some m' := by
  intro steps
  induction steps with
  | nil => intro _ m; exact ⟨m, rfl⟩
  | cons st rest ih =>
    intro hok m
    obtain ⟨m1, h1⟩ := step_run_some e g p st (hok st (List.mem_cons_self ..)) m
    obtain ⟨m2, h2⟩ := ih (fun st' h' => hok st' (List.mem_cons_of_mem _ h')) m1
    exact ⟨m2, by simp [runSteps, h1, h2]⟩

/-- **Legacy initialisers of the "guard + forward" shape, as C text**: `-EINVAL` and no effect on a
    NULL PDU; otherwise exactly what the current initialiser does (whose C text is `init_code`'s
    subject) and 0. -/
theorem legacyInit_code (i : Init) (F : Fn) (hbody : some F.body = expectedLegacyInitBody i)
    (fn : String) (hsteps : i.steps = [.callInit fn])
    (i0 : Init) (F0 : Fn) (hi0 : g.inits.find? (fun j => j.fn == fn && !j.legacy) = some i0)
    (hF0 : findFn (Gen.Cir.prog e) fn = some F0) (hb0 : some F0.body = expectedInitBody g i0)
    (hok0 : ∀ st ∈ i0.steps, StepOK e g st) (hlen0 : i0.steps.length ≤ 6)
    (pdu : Option Nat) (hpdu : ∀ p, pdu = some p → p ≠ 0 ∧ p + 1024 ≤ 18446744073709551616) (m : Mem) :
    (exec (mkEnv e rom glob) 45 F.body (mkFrame [pdu.getD 0]) ⟨m, []⟩).map (fun r => (r.1, r.2.2.mem))
      = (i.run g e m pdu 0).map (fun r => (.ret (Ty.ofInt .i32 r.2), r.1)) := by
  unfold expectedLegacyInitBody at hbody
  rw [hsteps] at hbody
  simp only at hbody
  split at hbody
  · rename_i hc
    obtain ⟨hleg, herr, hok⟩ := hc
    rw [Option.some.inj hbody]
    have hnc : ∀ st ∈ i0.steps, (match st with | InitStep.callInit _ => false | _ => true) = true := by
      intro st hst
      have := hok0 st hst
      cases st <;> simp_all [StepOK]
    cases pdu with
    | none =>
      have hc : evalE (mkEnv e rom glob) (mkFrame [(none : Option Nat).getD 0]) (.bin .eq .u64 (.var 0) (.lit 0)) = some 1 := by
        simp [evalE, evalBin, b2n]
      rw [ite_true (f := 44) hc (by decide)]
      simp [errRet, exec, evalE, neg22, Init.run, hleg, herr]
    | some p =>
      obtain ⟨hp0, hpb⟩ := hpdu p rfl
      have hc : evalE (mkEnv e rom glob) (mkFrame [(some p).getD 0]) (.bin .eq .u64 (.var 0) (.lit 0)) = some 0 := by
        simp [evalE, evalBin, b2n, hp0]
      rw [ite_false (f := 44) hc]
      have h0 := init_code e rom glob g tb hrom hvalid hglob i0 F0 hb0 hok0 hlen0 (some p) (by intro q hq; cases hq; exact ⟨hp0, hpb⟩) m
      have hleg0 : i0.legacy = false := by
        have := List.find?_some hi0
        simp only [Bool.and_eq_true, beq_iff_eq, Bool.not_eq_true'] at this
        exact this.2
      have hrun0 : (i0.run g e m (some p) 0).map (·.1) = (runSteps g e p 0 i0.steps m) := by
        simp [Init.run, flatten_of_ok e rom glob g tb hrom hvalid hglob i0.steps hok0, hleg0, Option.map_map, Function.comp_def]
      rw [hrun0] at h0
      have hflat : g.flatten [InitStep.callInit fn] = some i0.steps := by
        simp only [GenFormat.flatten, hi0]
        split
        · simp
        · rename_i hne
          exfalso; apply hne
          rw [List.all_eq_true]
          intro st hst
          have := hok0 st hst
          cases st <;> simp_all [StepOK]
      obtain ⟨m', hrs⟩ := runSteps_some e g p i0.steps hok0 m
      rw [hrs] at h0
      obtain ⟨v, log, hcall⟩ := callFn_mem_of_exec (env := mkEnv e rom glob) (fn := fn) (vs := [(some p).getD 0])
        (by rw [mkEnv_prog]; exact hF0) h0
      have hcx := exec_call_of_callFn (dst := none) (L := mkFrame [(some p).getD 0]) (args := [.var 0])
        (by simp [evalArgs, evalE]) (callFn_le _ (by decide : 41 ≤ 42) hcall)
      rw [seq_next (f := 43) hcx]
      simp [exec, evalE, setDst, Init.run, hsteps, hflat, hrs, hleg, hok, Ty.ofInt]
  · cases hbody
end

end O1722.Refine
