/-
  Refine/Views.lean — C17 on the C TEXT: two dedicated getters of two formats (two "views" of the same
  octets) whose Spec fields occupy the same wire bits return the same value when their C bodies are run
  on the same memory at the same PDU address — e.g. `Avtp_CommonHeader_GetSubtype` and
  `Avtp_Tscf_GetSubtype`, `Avtp_AcfCommon_GetAcfMsgLength` and `Avtp_Vss_GetAcfMsgLength`.  Generic: it
  composes `C01_code_dedicated` for the two formats (each needs `checkC01` and the regenerated
  `acc_<format>` obligation).
-/
import O1722.Refine.AccessorsFormat
open O1722 O1722.C O1722.Spec
namespace O1722.Refine

theorem C17_code_views (e : Endian) (glob : String → Nat)
    (rom : Nat → Byte)
    (s1 s2 : FormatSpec) (g1 g2 : GenFormat) (fns1 fns2 : List Fn) (tb1 tb2 : Nat)
    (hrom1 : RomTable rom tb1 g1.table) (hrom2 : RomTable rom tb2 g2.table)
    (hv1 : ∀ d ∈ g1.table, d.Valid) (hv2 : ∀ d ∈ g2.table, d.Valid)
    (hg1 : glob g1.tableName = tb1) (hg2 : glob g2.tableName = tb2)
    (ha1 : checkAccessors g1 fns1 = true) (ha2 : checkAccessors g2 fns2 = true)
    (h1 : checkC01 s1 g1 = true) (h2 : checkC01 s2 g2 = true)
    (x1 : Getter) (hx1 : x1 ∈ g1.getters) (hd1 : x1.field.isSome = true)
    (x2 : Getter) (hx2 : x2 ∈ g2.getters) (hd2 : x2.field.isSome = true)
    -- the two accessors' Spec fields are the same wire bits (a decidable fact about the two Specs)
    (hsame : ∀ fs1 ∈ s1.fields, ∀ fs2 ∈ s2.fields, s1.getterName fs1 = x1.fn → s2.getterName fs2 = x2.fn →
      fs1.first = fs2.first ∧ fs1.width = fs2.width)
    (p : Nat) (hp0 : p ≠ 0) (hpb : p + 1024 ≤ 18446744073709551616) (m : Mem) :
    ∃ F1 ∈ fns1, ∃ F2 ∈ fns2, F1.name = x1.fn ∧ F2.name = x2.fn ∧
      (exec (mkEnv e rom glob) 31 F1.body (mkFrame [p, 0]) ⟨m, []⟩).map (fun r => (r.1, r.2.2.mem))
        = (exec (mkEnv e rom glob) 31 F2.body (mkFrame [p, 0]) ⟨m, []⟩).map (fun r => (r.1, r.2.2.mem)) := by
  obtain ⟨fs1, hfs1, hn1, F1, hF1, hFn1, hex1⟩ :=
    C01_code_dedicated e rom glob s1 g1 fns1 tb1 hrom1 hv1 hg1 ha1 h1 x1 hx1 hd1 p hp0 hpb m
  obtain ⟨fs2, hfs2, hn2, F2, hF2, hFn2, hex2⟩ :=
    C01_code_dedicated e rom glob s2 g2 fns2 tb2 hrom2 hv2 hg2 ha2 h2 x2 hx2 hd2 p hp0 hpb m
  obtain ⟨hf, hw⟩ := hsame fs1 hfs1 fs2 hfs2 hn1 hn2
  exact ⟨F1, hF1, F2, hF2, hFn1, hFn2, by rw [hex1, hex2, hf, hw]⟩

end O1722.Refine
