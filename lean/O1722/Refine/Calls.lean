/-
  Refine/Calls.lean — calling the two Utils.c functions from other C functions: a `call`
  statement whose callee is `Avtp_GetField` / `Avtp_SetField` behaves as the Model function,
  at any sufficient fuel and continuing any access log; and the "forwarder" shape in which
  every per-format accessor of the library is written.
-/
import O1722.Refine.UtilsSet
import O1722.CSem.Mono
open O1722 O1722.C
namespace O1722.Refine
open Gen.Cir

/-- A `call` statement in terms of `callFn`. -/
theorem exec_call_of_callFn {env : Env} {g : Nat} {dst : Option Nat} {fn : String} {args : List Expr}
    {L : Locals} {s s1 : St} {vs : List Nat} {v : Nat}
    (hargs : evalArgs env L args = some vs) (h : callFn env g fn vs s = some (v, s1)) :
    exec env (g + 1) (.call dst fn args) L s = some (.next, setDst L dst v, s1) := by
  unfold callFn at h
  rw [exec]
  simp only [hargs, Option.bind]
  cases hF : findFn env.prog fn with
  | none => simp [hF] at h
  | some F =>
    simp only [hF] at h ⊢
    cases hb : exec env g F.body (mkFrame vs) s with
    | none => simp [hb] at h
    | some rb =>
      rw [hb] at h
      obtain ⟨c, L1, s2⟩ := rb
      cases c with
      | next => simp at h ⊢; obtain ⟨h1, h2⟩ := h; subst h1; subst h2; exact ⟨rfl, rfl⟩
      | ret w => simp at h ⊢; obtain ⟨h1, h2⟩ := h; subst h1; subst h2; exact ⟨rfl, rfl⟩

section
variable (e : Endian) (rom : Nat → Byte) (glob : String → Nat) (tbl : List Desc) (tb : Nat)
  (hrom : RomTable rom tb tbl) (hvalid : ∀ d ∈ tbl, d.Valid)
include hrom hvalid

/-- `Avtp_SetField(…)` called from another function. -/
theorem call_SetField (g : Nat) (hg : 27 ≤ g) (L : Locals) (args : List Expr) (dst : Option Nat)
    (numFields field value : Nat) (pdu : Option Nat)
    (hargs : evalArgs (mkEnv e rom glob) L args = some [tb, numFields, pdu.getD 0, field, value])
    (hnf : numFields < 256) (hfield : field < 4294967296) (hv : value < 18446744073709551616)
    (hn : numFields ≤ tbl.length)
    (hpdu : ∀ p, pdu = some p → p ≠ 0 ∧ p + 1024 ≤ 18446744073709551616) (m : Mem) (l0 : List Access) :
    exec (mkEnv e rom glob) (g + 1) (.call dst "Avtp_SetField" args) L ⟨m, l0⟩
      = some (.next, setDst L dst 0, ⟨(setFieldLogFrom l0 e tbl numFields m pdu field value).1,
                                       (setFieldLogFrom l0 e tbl numFields m pdu field value).2⟩) :=
  exec_call_of_callFn hargs
    (callFn_le _ hg (Avtp_SetField_refines_from l0 e rom glob tbl tb hrom hvalid numFields field value hnf hfield hv hn pdu hpdu m))

/-- `Avtp_GetField(…)` called from another function. -/
theorem call_GetField (g : Nat) (hg : 27 ≤ g) (L : Locals) (args : List Expr) (dst : Option Nat)
    (numFields field : Nat) (pdu : Option Nat)
    (hargs : evalArgs (mkEnv e rom glob) L args = some [tb, numFields, pdu.getD 0, field])
    (hnf : numFields < 256) (hfield : field < 4294967296) (hn : numFields ≤ tbl.length)
    (hpdu : ∀ p, pdu = some p → p ≠ 0 ∧ p + 1024 ≤ 18446744073709551616) (m : Mem) (l0 : List Access) :
    exec (mkEnv e rom glob) (g + 1) (.call dst "Avtp_GetField" args) L ⟨m, l0⟩
      = some (.next, setDst L dst (getFieldLogFrom l0 e tbl numFields m pdu field).1,
              ⟨m, (getFieldLogFrom l0 e tbl numFields m pdu field).2⟩) :=
  exec_call_of_callFn hargs
    (callFn_le _ hg (Avtp_GetField_refines_from l0 e rom glob tbl tb hrom hvalid numFields field hnf hfield hn pdu hpdu m))
end

/-! ### the memory a writer leaves does not depend on the access log it continues -/

theorem setLoop_mem_log (e : Endian) (d : Desc) (pdu v : Nat) :
    ∀ k qo pb m l1 l2, (setLoop e d pdu v k qo pb m l1).1 = (setLoop e d pdu v k qo pb m l2).1 := by
  intro k
  induction k with
  | zero => intros; rfl
  | succ k ih =>
    intro qo pb m l1 l2
    simp only [setLoop]
    split
    · exact ih _ _ _ _ _
    · rfl

theorem setFieldLogFrom_mem (l0 : List Access) (e : Endian) (tbl : List Desc) (n : Nat) (m : Mem) (pdu : Option Nat)
    (i v : Nat) : (setFieldLogFrom l0 e tbl n m pdu i v).1 = setField e tbl n m pdu i v := by
  unfold setFieldLogFrom setField setFieldLog
  cases pdu with
  | none => rfl
  | some p =>
    simp only
    by_cases h : i < n
    · simp only [h, if_true]
      cases tbl[i]? with
      | none => rfl
      | some d => exact setLoop_mem_log _ _ _ _ _ _ _ _ _ _
    · simp only [h, if_false]

theorem getLoop_val_log (e : Endian) (d : Desc) (m : Mem) (pdu : Nat) :
    ∀ k qo pb res l1 l2, (getLoop e d m pdu k qo pb res l1).1 = (getLoop e d m pdu k qo pb res l2).1 := by
  intro k
  induction k with
  | zero => intros; rfl
  | succ k ih =>
    intro qo pb res l1 l2
    simp only [getLoop]
    split
    · exact ih _ _ _ _ _
    · rfl

theorem getFieldLogFrom_val (l0 : List Access) (e : Endian) (tbl : List Desc) (n : Nat) (m : Mem) (pdu : Option Nat)
    (i : Nat) : (getFieldLogFrom l0 e tbl n m pdu i).1 = getField e tbl n m pdu i := by
  unfold getFieldLogFrom getField getFieldLog
  cases pdu with
  | none => rfl
  | some p =>
    simp only
    by_cases h : i < n
    · simp only [h, if_true]
      cases tbl[i]? with
      | none => rfl
      | some d => exact getLoop_val_log _ _ _ _ _ _ _ _ _ _
    · simp only [h, if_false]

end O1722.Refine
