/-
  Refine/Utils.lean — the C text of `Avtp_GetField` (as serialised from /repo's current
  sources into Gen/Cir.lean, evaluated by the C semantics of CSem/Eval.lean) computes exactly
  what the hand Model `getFieldLog` computes — result, final memory and access log — for every
  valid descriptor table, field identifier, PDU address, memory and host byte order, without
  running into any undefined behaviour and within the stated fuel (termination).
  This file is CODE-DEPENDENT: it is rebuilt against the regenerated Gen/Cir.lean on every run;
  when the C text changes shape the proof fails and the check falls back to the search for a
  failing input.
-/
import O1722.CSem.Lemmas
import O1722.Lemmas.Log
import O1722.Gen.Cir
open O1722 O1722.C
namespace O1722.Refine
open Gen.Cir

def mkEnv (e : Endian) (rom : Nat → Byte) (glob : String → Nat) : Env :=
  { prog := Gen.Cir.prog e, glob := glob, rom := rom, ext := fun _ _ => none, endian := e }
@[simp] theorem mkEnv_prog (e rom glob) : (mkEnv e rom glob).prog = Gen.Cir.prog e := rfl
@[simp] theorem mkEnv_glob (e rom glob) : (mkEnv e rom glob).glob = glob := rfl
@[simp] theorem mkEnv_rom (e rom glob) : (mkEnv e rom glob).rom = rom := rfl
@[simp] theorem mkEnv_endian (e rom glob) : (mkEnv e rom glob).endian = e := rfl
@[simp] theorem mkEnv_ext (e rom glob) (n a) : (mkEnv e rom glob).ext n a = none := rfl

/-! generic stepping lemmas -/
theorem seq_next {env : Env} {f : Nat} {a b : Stmt} {L L1 : Locals} {s s1 : St}
    (h : exec env f a L s = some (.next, L1, s1)) :
    exec env (f + 1) (.seq a b) L s = exec env f b L1 s1 := by
  simp [exec, h]

theorem set_eval {env : Env} {f i : Nat} {e : Expr} {L : Locals} {s : St} {v : Nat}
    (h : evalE env L e = some v) : exec env (f + 1) (.set i e) L s = some (.next, upd L i v, s) := by
  simp [exec, h]

@[simp] theorem upd_same (L : Locals) (i v : Nat) : upd L i v i = v := by simp [upd]
theorem upd_ne (L : Locals) (i j v : Nat) (h : j ≠ i) : upd L i v j = L j := by simp [upd, h]

@[simp] theorem b2n_ne_zero (b : Bool) : (b2n b ≠ 0) = (b = true) := by cases b <;> simp [b2n]
@[simp] theorem b2n_eq_zero (b : Bool) : (b2n b = 0) = (b = false) := by cases b <;> simp [b2n]

section
variable (e : Endian) (rom : Nat → Byte) (glob : String → Nat) (d : Desc) (fd : Nat)
  (hq : (rom fd).val = d.quadlet) (ho : (rom (fd + 1)).val = d.offset) (hb : (rom (fd + 2)).val = d.bits)
  (hfd : fd + 2 < 18446744073709551616)
include hq ho hb hfd

theorem w0_s0 (f : Nat) (L : Locals) (st : St) (qo : Nat) (h5 : L 5 = fd) (h6 : L 6 = qo) (hqo : qo < 256) :
    exec (mkEnv e rom glob) (f + 1) Avtp_GetField_w0_s0 L st
      = some (.next, upd L 8 ((d.quadlet + qo) % 256), st) := by
  have hdq : d.quadlet < 256 := by rw [← hq]; exact (rom fd).isLt
  apply set_eval
  simp (disch := omega) [evalE, h5, h6, hq, csem, Ty.bits, Nat.mod_eq_of_lt]

theorem w0_s1 (hd : d.Valid) (f : Nat) (L : Locals) (st : St) (pb : Nat) (h5 : L 5 = fd) (h7 : L 7 = pb)
    (hlt : pb < d.bits) :
    exec (mkEnv e rom glob) (f + 3) Avtp_GetField_w0_s1 L st
      = some (.next, upd (upd L 9 (quadletBits d pb)) 10 (quadletShift d pb (quadletBits d pb)), st) := by
  obtain ⟨hdo, hdb, _⟩ := hd
  by_cases hp : pb = 0
  · subst hp
    by_cases hc : d.bits ≤ 32 - d.offset
    · have hm : min (32 - d.offset) d.bits = d.bits := by omega
      simp (disch := omega) [Avtp_GetField_w0_s1, exec, evalE, h5, h7, hq, ho, hb, csem, Ty.bits, Nat.mod_eq_of_lt, quadletBits, quadletShift, hc, hm, upd_ne]
    · have hm : min (32 - d.offset) d.bits = 32 - d.offset := by omega
      simp (disch := omega) [Avtp_GetField_w0_s1, exec, evalE, h5, h7, hq, ho, hb, csem, Ty.bits, Nat.mod_eq_of_lt, quadletBits, quadletShift, hc, hm, upd_ne]
      trace_state
  · have hpb : pb < 256 := by omega
    by_cases hc : d.bits - pb ≤ 32
    · have hm : min 32 (d.bits - pb) = d.bits - pb := by omega
      simp (disch := omega) [Avtp_GetField_w0_s1, exec, evalE, h5, h7, hq, ho, hb, csem, Ty.bits, Nat.mod_eq_of_lt, quadletBits, quadletShift, hc, hm, upd_ne, hp]
      trace_state
    · have hm : min 32 (d.bits - pb) = 32 := by omega
      simp (disch := omega) [Avtp_GetField_w0_s1, exec, evalE, h5, h7, hq, ho, hb, csem, Ty.bits, Nat.mod_eq_of_lt, quadletBits, quadletShift, hc, hm, upd_ne, hp]

omit hq ho hb hfd in
theorem w0_s2 (f : Nat) (L : Locals) (st : St) (qb qs : Nat) (h9 : L 9 = qb) (h10 : L 10 = qs)
    (hqq : qs + qb ≤ 32) :
    exec (mkEnv e rom glob) (f + 1) Avtp_GetField_w0_s2 L st
      = some (.next, upd L 11 (quadletMask qb qs), st) := by
  have h1 : 1 <<< qb < 18446744073709551616 := by
    rw [Nat.shiftLeft_eq, Nat.one_mul]
    calc 2 ^ qb ≤ 2 ^ 32 := Nat.pow_le_pow_right (by decide) (by omega)
      _ < _ := by decide
  have h2 : 1 ≤ 1 <<< qb := by rw [Nat.shiftLeft_eq, Nat.one_mul]; exact Nat.two_pow_pos qb
  apply set_eval
  simp (disch := omega) [evalE, h9, h10, csem, Ty.bits, Nat.mod_eq_of_lt, quadletMask]

omit hq ho hb hfd in
theorem w0_s3 (f : Nat) (L : Locals) (st : St) (pdu qid : Nat) (h2 : L 2 = pdu) (h8 : L 8 = qid)
    (hqid : qid < 256) (hpdu : pdu + 1024 ≤ 18446744073709551616) :
    exec (mkEnv e rom glob) (f + 1) Avtp_GetField_w0_s3 L st
      = some (.next, upd L 12 (pdu + qid * 4), st) := by
  apply set_eval
  simp (disch := omega) [evalE, h2, h8, csem, Ty.bits, Nat.mod_eq_of_lt]

omit hq ho hb hfd in
theorem w0_s4 (f : Nat) (L : Locals) (m : Mem) (log : List Access) (addr : Nat) (h12 : L 12 = addr) (ha : addr ≠ 0) :
    exec (mkEnv e rom glob) (f + 1) Avtp_GetField_w0_s4 L ⟨m, log⟩
      = some (.next, upd L 13 (load e 4 m addr), ⟨m, log ++ [⟨addr, 4, 1, false⟩]⟩) := by
  simp [Avtp_GetField_w0_s4, exec, evalE, h12, ha]
end

theorem find_BeToCpu32 (e : Endian) : findFn (Gen.Cir.prog e) "Avtp_BeToCpu32" =
    some (match e with | .little => Gen.Cir.Little.Avtp_BeToCpu32 | .big => Gen.Cir.Big.Avtp_BeToCpu32) := by
  cases e <;> rfl
theorem find_Bswap32 (e : Endian) : findFn (Gen.Cir.prog e) "Avtp_Bswap32" =
    some (match e with | .little => Gen.Cir.Little.Avtp_Bswap32 | .big => Gen.Cir.Big.Avtp_Bswap32) := by
  cases e <;> rfl

theorem call_BeToCpu32 (e : Endian) (rom glob) (f dst : Nat) (a : Expr) (L : Locals) (s : St) (x : Nat)
    (ha : evalE (mkEnv e rom glob) L a = some x) :
    exec (mkEnv e rom glob) (f + 4) (.call (some dst) "Avtp_BeToCpu32" [a]) L s
      = some (.next, upd L dst (beCpu32 e x), s) := by
  cases e
  · simp [exec, evalArgs, ha, find_BeToCpu32, find_Bswap32, mkFrame, setDst, evalE,
      Gen.Cir.Little.Avtp_BeToCpu32, Gen.Cir.Little.Avtp_Bswap32, Gen.Cir.Little.Avtp_BeToCpu32_body, Gen.Cir.Little.Avtp_Bswap32_body,
      Gen.Cir.Little.Avtp_BeToCpu32_s0, Gen.Cir.Little.Avtp_Bswap32_s0,
      band_any, bor_any, shr_u32, shl_u32, bswap32, beCpu32]
  · simp [exec, evalArgs, ha, find_BeToCpu32, mkFrame, setDst, evalE,
      Gen.Cir.Big.Avtp_BeToCpu32, Gen.Cir.Big.Avtp_BeToCpu32_body, Gen.Cir.Big.Avtp_BeToCpu32_s0, beCpu32]

section
variable (e : Endian) (rom : Nat → Byte) (glob : String → Nat)

theorem w0_s5 (f : Nat) (L : Locals) (st : St) (raw : Nat) (h13 : L 13 = raw) :
    exec (mkEnv e rom glob) (f + 5) Avtp_GetField_w0_s5 L st
      = some (.next, upd (upd L 15 (beCpu32 e raw)) 14 (beCpu32 e raw), st) := by
  unfold Avtp_GetField_w0_s5
  rw [seq_next (call_BeToCpu32 e rom glob f 15 (.var 13) L st raw (by simp [evalE, h13]))]
  apply set_eval
  simp [evalE]

theorem w0_s6 (f : Nat) (L : Locals) (st : St) (host mask qs : Nat) (h14 : L 14 = host) (h11 : L 11 = mask)
    (h10 : L 10 = qs) (hqs : qs < 32) :
    exec (mkEnv e rom glob) (f + 1) Avtp_GetField_w0_s6 L st
      = some (.next, upd L 16 ((host &&& mask) >>> qs), st) := by
  apply set_eval
  simp (disch := omega) [evalE, h14, h11, h10, csem, Ty.bits, Nat.mod_eq_of_lt]

theorem w0_s8 (f : Nat) (L : Locals) (st : St) (qo : Nat) (h6 : L 6 = qo) (hqo : qo < 256) :
    exec (mkEnv e rom glob) (f + 1) Avtp_GetField_w0_s8 L st
      = some (.next, upd L 6 ((qo + 1) % 256), st) := by
  apply set_eval
  simp (disch := omega) [evalE, h6, csem, Ty.bits, Nat.mod_eq_of_lt]

theorem w0_s9 (f : Nat) (L : Locals) (st : St) (pb qb : Nat) (h7 : L 7 = pb) (h9 : L 9 = qb)
    (hpb : pb < 256) (hqb : qb < 256) :
    exec (mkEnv e rom glob) (f + 1) Avtp_GetField_w0_s9 L st
      = some (.next, upd L 7 ((pb + qb) % 256), st) := by
  apply set_eval
  simp (disch := omega) [evalE, h7, h9, csem, Ty.bits, Nat.mod_eq_of_lt]

variable (d : Desc) (fd : Nat) (hb : (rom (fd + 2)).val = d.bits) (hfd : fd + 2 < 18446744073709551616)
include hb hfd
theorem w0_s7 (f : Nat) (L : Locals) (st : St) (res part pb qb : Nat) (h4 : L 4 = res) (h16 : L 16 = part)
    (h5 : L 5 = fd) (h7 : L 7 = pb) (h9 : L 9 = qb) (hpart : part < 4294967296)
    (hle : pb + qb ≤ d.bits) (hdb : d.bits ≤ 64) (hqb : 0 < qb) :
    exec (mkEnv e rom glob) (f + 1) Avtp_GetField_w0_s7 L st
      = some (.next, upd L 4 (res ||| ((part <<< (d.bits - pb - qb)) % 2 ^ 64)), st) := by
  apply set_eval
  simp (disch := omega) [evalE, h4, h16, h5, h7, h9, hb, csem, Ty.bits, Nat.mod_eq_of_lt]
end

theorem quadletMask_lt (qb qs : Nat) : quadletMask qb qs < 4294967296 := by
  unfold quadletMask; exact Nat.mod_lt _ (by decide)

section
variable (e : Endian) (rom : Nat → Byte) (glob : String → Nat) (d : Desc) (fd : Nat)
  (hq : (rom fd).val = d.quadlet) (ho : (rom (fd + 1)).val = d.offset) (hb : (rom (fd + 2)).val = d.bits)
  (hfd : fd + 2 < 18446744073709551616) (hd : d.Valid)
include hq ho hb hfd hd

theorem getBody (pdu : Nat) (hpdu : pdu + 1024 ≤ 18446744073709551616) (hp0 : pdu ≠ 0)
    (m : Mem) (log : List Access) (L : Locals) (qo pb res : Nat)
    (h2 : L 2 = pdu) (h4 : L 4 = res) (h5 : L 5 = fd) (h6 : L 6 = qo) (h7 : L 7 = pb)
    (hinv : PosInv d qo pb) (hlt : pb < d.bits) (hqo : qo < 256) (f : Nat) :
    let qid := (d.quadlet + qo) % 256
    let qbits := quadletBits d pb
    let qshift := quadletShift d pb qbits
    let mask := quadletMask qbits qshift
    let addr := pdu + qid * 4
    let host := beCpu32 e (load e 4 m addr)
    let part := (host &&& mask) >>> qshift
    ∃ L', exec (mkEnv e rom glob) (f + 16) Avtp_GetField_w0_body L ⟨m, log⟩
        = some (.next, L', ⟨m, log ++ [⟨addr, 4, 1, false⟩]⟩)
      ∧ L' 0 = L 0 ∧ L' 1 = L 1 ∧ L' 2 = pdu ∧ L' 3 = L 3 ∧ L' 5 = fd
      ∧ L' 4 = (res ||| ((part <<< (d.bits - pb - qbits)) % 2 ^ 64))
      ∧ L' 6 = (qo + 1) % 256 ∧ L' 7 = (pb + qbits) % 256 := by
  intro qid qbits qshift mask addr host part
  obtain ⟨g1, g2, g3, g4, g5, g6, g7, g8⟩ := chunk_geom d hd qo pb hlt hinv.2
  have hdb : d.bits ≤ 64 := hd.2.1
  have hpart : part < 4294967296 := by
    have h1 : host &&& mask ≤ mask := Nat.and_le_right
    have h2 : part ≤ host &&& mask := by show (host &&& mask) >>> qshift ≤ _; rw [Nat.shiftRight_eq_div_pow]; exact Nat.div_le_self _ _
    have h3 := quadletMask_lt qbits qshift
    exact Nat.lt_of_le_of_lt (Nat.le_trans h2 h1) h3
  have e0 := w0_s0 e rom glob d fd hq ho hb hfd (f + 14) L ⟨m, log⟩ qo h5 h6 hqo
  have e1 := w0_s1 e rom glob d fd hq ho hb hfd hd (f + 11) (upd L 8 qid) ⟨m, log⟩ pb (by simp [upd, h5]) (by simp [upd, h7]) hlt
  have e2 := w0_s2 e rom glob (f + 12) (upd (upd (upd L 8 qid) 9 qbits) 10 qshift) ⟨m, log⟩ qbits qshift (by simp [upd]) (by simp [upd]) g3
  have e3 := w0_s3 e rom glob (f + 11) (upd (upd (upd (upd L 8 qid) 9 qbits) 10 qshift) 11 mask) ⟨m, log⟩ pdu qid
    (by simp [upd, h2]) (by simp [upd]) (Nat.mod_lt _ (by decide)) hpdu
  have hqid : qid < 256 := Nat.mod_lt _ (by decide)
  have e4 := w0_s4 e rom glob (f + 10) (upd (upd (upd (upd (upd L 8 qid) 9 qbits) 10 qshift) 11 mask) 12 addr) m log addr
    (by simp [upd]) (by show pdu + qid * 4 ≠ 0; omega)
  unfold Avtp_GetField_w0_body
  rw [seq_next e0, seq_next e1, seq_next e2, seq_next e3, seq_next e4]
  have e5 := w0_s5 e rom glob (f + 5) (upd (upd (upd (upd (upd (upd L 8 qid) 9 qbits) 10 qshift) 11 mask) 12 addr) 13 (load e 4 m addr))
    ⟨m, log ++ [⟨addr, 4, 1, false⟩]⟩ (load e 4 m addr) (by simp [upd])
  rw [seq_next e5]
  have hqs : quadletShift d pb (quadletBits d pb) < 32 := by omega
  have e6 := w0_s6 e rom glob (f + 8) (upd (upd (upd (upd (upd (upd (upd (upd L 8 qid) 9 qbits) 10 qshift) 11 mask) 12 addr) 13 (load e 4 m addr)) 15 host) 14 host)
    ⟨m, log ++ [⟨addr, 4, 1, false⟩]⟩ host mask qshift (by simp [upd]) (by simp [upd]) (by simp [upd]) hqs
  rw [seq_next e6]
  have e7 := w0_s7 e rom glob d fd hb hfd (f + 7) (upd (upd (upd (upd (upd (upd (upd (upd (upd L 8 qid) 9 qbits) 10 qshift) 11 mask) 12 addr) 13 (load e 4 m addr)) 15 host) 14 host) 16 part)
    ⟨m, log ++ [⟨addr, 4, 1, false⟩]⟩ res part pb qbits (by simp [upd, h4]) (by simp [upd]) (by simp [upd, h5]) (by simp [upd, h7]) (by simp [upd]) hpart g2 hdb g1
  rw [seq_next e7]
  have e8 := w0_s8 e rom glob (f + 6) (upd (upd (upd (upd (upd (upd (upd (upd (upd (upd L 8 qid) 9 qbits) 10 qshift) 11 mask) 12 addr) 13 (load e 4 m addr)) 15 host) 14 host) 16 part) 4 (res ||| ((part <<< (d.bits - pb - qbits)) % 2 ^ 64)))
    ⟨m, log ++ [⟨addr, 4, 1, false⟩]⟩ qo (by simp [upd, h6]) hqo
  rw [seq_next e8]
  have e9 := w0_s9 e rom glob (f + 6) (upd (upd (upd (upd (upd (upd (upd (upd (upd (upd (upd L 8 qid) 9 qbits) 10 qshift) 11 mask) 12 addr) 13 (load e 4 m addr)) 15 host) 14 host) 16 part) 4 (res ||| ((part <<< (d.bits - pb - qbits)) % 2 ^ 64))) 6 ((qo + 1) % 256))
    ⟨m, log ++ [⟨addr, 4, 1, false⟩]⟩ pb qbits (by simp [upd, h7]) (by simp [upd]) (by omega) (show quadletBits d pb < 256 by omega)
  refine ⟨_, e9, ?_⟩
  simp [upd, h2, h5]

omit hq ho hd in
theorem w0_cond_eval (L : Locals) (pb : Nat) (h5 : L 5 = fd) (h7 : L 7 = pb) (hpb : pb < 256) :
    evalE (mkEnv e rom glob) L Avtp_GetField_w0_cond = some (b2n (decide (pb < d.bits))) := by
  have hdb : d.bits < 256 := by rw [← hb]; exact (rom (fd + 2)).isLt
  simp (disch := omega) [Avtp_GetField_w0_cond, evalE, h5, h7, hb, csem, Ty.bits, Nat.mod_eq_of_lt]

theorem getLoop_refines (pdu : Nat) (hpdu : pdu + 1024 ≤ 18446744073709551616) (hp0 : pdu ≠ 0) (m : Mem) :
    ∀ (k : Nat) (L : Locals) (log : List Access) (qo pb res : Nat),
      L 2 = pdu → L 4 = res → L 5 = fd → L 6 = qo → L 7 = pb → PosInv d qo pb → qo < 256 →
      (d.bits - pb) + (if pb = 0 then d.offset else 0) ≤ 32 * k →
      ∃ L', exec (mkEnv e rom glob) (k + 17) (.while Avtp_GetField_w0_cond Avtp_GetField_w0_body) L ⟨m, log⟩
          = some (.next, L', ⟨m, (getLoop e d m pdu k qo pb res log).2⟩)
        ∧ L' 4 = (getLoop e d m pdu k qo pb res log).1 := by
  have hdb : d.bits ≤ 64 := hd.2.1
  intro k
  induction k with
  | zero =>
    intro L log qo pb res h2 h4 h5 h6 h7 hinv hqo hk
    have hge : ¬ pb < d.bits := by omega
    have hc := w0_cond_eval e rom glob d fd hb hfd L pb h5 h7 (by have := hinv.1; omega)
    refine ⟨L, ?_, ?_⟩
    · simp [exec, hc, hge, getLoop]
    · simp [getLoop, h4]
  | succ k ih =>
    intro L log qo pb res h2 h4 h5 h6 h7 hinv hqo hk
    have hc := w0_cond_eval e rom glob d fd hb hfd L pb h5 h7 (by have := hinv.1; omega)
    by_cases hlt : pb < d.bits
    · obtain ⟨L1, hb1, k0, k1, k2, k3, k5, k4, k6, k7⟩ :=
        getBody e rom glob d fd hq ho hb hfd hd pdu hpdu hp0 m log L qo pb res h2 h4 h5 h6 h7 hinv hlt hqo (k + 1)
      obtain ⟨inv', hqq, _⟩ := posInv_step d hd qo pb hinv hlt
      obtain ⟨g1, g2, g3, g4, g5, g6, g7, g8⟩ := chunk_geom d hd qo pb hlt hinv.2
      have hk' : (d.bits - (pb + quadletBits d pb) % 256) + (if (pb + quadletBits d pb) % 256 = 0 then d.offset else 0) ≤ 32 * k := by
        rw [g5]
        by_cases hdone : pb + quadletBits d pb = d.bits
        · rw [if_pos hdone] at g8
          have : ¬ d.bits = 0 := by omega
          rw [hdone]; simp [this]
        · rw [if_neg hdone] at g8; omega
      obtain ⟨L', hex, hres⟩ := ih L1 _ _ _ _ k2 k4 k5 k6 k7 inv' (Nat.mod_lt _ (by decide)) hk'
      refine ⟨L', ?_, ?_⟩
      · have : exec (mkEnv e rom glob) (k + 1 + 17) (.while Avtp_GetField_w0_cond Avtp_GetField_w0_body) L ⟨m, log⟩
            = exec (mkEnv e rom glob) (k + 17) (.while Avtp_GetField_w0_cond Avtp_GetField_w0_body) L1
                ⟨m, log ++ [⟨pdu + (d.quadlet + qo) % 256 * 4, 4, 1, false⟩]⟩ := by
          show exec (mkEnv e rom glob) (k + 17 + 1) _ L ⟨m, log⟩ = _
          have hb1' : exec (mkEnv e rom glob) (k + 17) Avtp_GetField_w0_body L ⟨m, log⟩ = _ := hb1
          simp [exec, hc, hlt, hb1']
        rw [this, hex]
        simp [getLoop, hlt]
      · rw [hres]; simp [getLoop, hlt]
    · have hge : ¬ pb < d.bits := hlt
      refine ⟨L, ?_, ?_⟩
      · show exec (mkEnv e rom glob) (k + 17 + 1) _ L ⟨m, log⟩ = _
        simp [exec, hc, hge, getLoop]
      · simp [getLoop, hge, h4]
end

/-- The constant descriptor table `tbl` is laid out at address `tb` of the read-only data. -/
structure RomTable (rom : Nat → Byte) (tb : Nat) (tbl : List Desc) : Prop where
  rows : ∀ i (h : i < tbl.length), (rom (tb + 3 * i)).val = tbl[i].quadlet
    ∧ (rom (tb + 3 * i + 1)).val = tbl[i].offset ∧ (rom (tb + 3 * i + 2)).val = tbl[i].bits
  bound : tb + 3 * tbl.length < 18446744073709551616
  nonnull : tb ≠ 0

@[simp] theorem mkFrame_cons_zero (a : Nat) (l : List Nat) : mkFrame (a :: l) 0 = a := rfl
@[simp] theorem mkFrame_cons_succ (a : Nat) (l : List Nat) (n : Nat) : mkFrame (a :: l) (n + 1) = mkFrame l n := by
  simp [mkFrame]
@[simp] theorem mkFrame_nil (n : Nat) : mkFrame [] n = 0 := by simp [mkFrame]

theorem find_GetField (e : Endian) : findFn (Gen.Cir.prog e) "Avtp_GetField" = some Gen.Cir.Avtp_GetField := by
  cases e <;> rfl

theorem ite_true {env : Env} {f : Nat} {c : Expr} {a b : Stmt} {L : Locals} {s : St} {x : Nat}
    (h : evalE env L c = some x) (hx : x ≠ 0) : exec env (f + 1) (.ite c a b) L s = exec env f a L s := by
  simp [exec, h, hx]
theorem ite_false {env : Env} {f : Nat} {c : Expr} {a b : Stmt} {L : Locals} {s : St}
    (h : evalE env L c = some 0) : exec env (f + 1) (.ite c a b) L s = exec env f b L s := by
  simp [exec, h]

/-- `getFieldLog` continuing an access log `l0` (the Model's function starts from the empty log). -/
def getFieldLogFrom (l0 : List Access) (e : Endian) (tbl : List Desc) (numFields : Nat) (m : Mem)
    (pdu : Option Nat) (field : Nat) : Nat × List Access :=
  match pdu with
  | none => (0, l0)
  | some p =>
    if field < numFields then
      match tbl[field]? with
      | some d => getLoop e d m p loopFuel 0 0 0 l0
      | none => (0, l0)
    else (0, l0)

theorem getFieldLogFrom_nil : getFieldLogFrom [] = getFieldLog := by
  funext e tbl n m pdu field; unfold getFieldLogFrom getFieldLog; rfl

theorem Avtp_GetField_refines_from (l0 : List Access) (e : Endian) (rom : Nat → Byte) (glob : String → Nat) (tbl : List Desc) (tb : Nat)
    (hrom : RomTable rom tb tbl) (hvalid : ∀ d ∈ tbl, d.Valid)
    (numFields field : Nat) (hnf : numFields < 256) (hfield : field < 4294967296) (hn : numFields ≤ tbl.length)
    (pdu : Option Nat) (hpdu : ∀ p, pdu = some p → p ≠ 0 ∧ p + 1024 ≤ 18446744073709551616) (m : Mem) :
    callFn (mkEnv e rom glob) 27 "Avtp_GetField" [tb, numFields, pdu.getD 0, field] ⟨m, l0⟩
      = some ((getFieldLogFrom l0 e tbl numFields m pdu field).1, ⟨m, (getFieldLogFrom l0 e tbl numFields m pdu field).2⟩) := by
  have htb := hrom.nonnull
  unfold callFn
  rw [mkEnv_prog, find_GetField]
  simp only [Avtp_GetField, Avtp_GetField_body]
  have e0 : exec (mkEnv e rom glob) 26 Avtp_GetField_s0 (mkFrame [tb, numFields, pdu.getD 0, field]) ⟨m, l0⟩
      = some (.next, upd (mkFrame [tb, numFields, pdu.getD 0, field]) 4 0, ⟨m, l0⟩) := by
    apply set_eval (f := 25); simp (disch := omega) [evalE, csem, Ty.bits]
  show Option.map _ (exec (mkEnv e rom glob) (26 + 1) _ _ _) = _
  rw [seq_next e0]
  show Option.map _ (exec (mkEnv e rom glob) (25 + 1) _ _ _) = _
  have hret : ∀ (L : Locals) (st : St), exec (mkEnv e rom glob) 25 Avtp_GetField_s2 L st = some (.ret (L 4), L, st) := by
    intro L st; simp [Avtp_GetField_s2, exec, evalE]
  by_cases hgo : (pdu.getD 0 ≠ 0 ∧ field < numFields)
  · obtain ⟨hp, hf⟩ := hgo
    obtain ⟨p, rfl⟩ : ∃ p, pdu = some p := by
      cases pdu with
      | none => simp at hp
      | some p => exact ⟨p, rfl⟩
    obtain ⟨hp0, hpb⟩ := hpdu p rfl
    have hfl : field < tbl.length := by omega
    obtain ⟨r1, r2, r3⟩ := hrom.rows field hfl
    have hbound := hrom.bound
    have hd : (tbl[field]).Valid := hvalid _ (List.getElem_mem hfl)
    have hc : evalE (mkEnv e rom glob) (upd (mkFrame [tb, numFields, (some p).getD 0, field]) 4 0)
        (.bin .land .i32 (.bin .land .i32 (.bin .ne .u64 (.var 0) (.lit 0)) (.bin .ne .u64 (.var 2) (.lit 0))) (.bin .lt .u32 (.var 3) (.cast .u8 .u32 (.var 1))))
        = some 1 := by
      simp (disch := omega) [evalE, upd, csem, Ty.bits, Nat.mod_eq_of_lt, htb, hp0, hf, b2n]
    unfold Avtp_GetField_s1
    have e5 : exec (mkEnv e rom glob) 23 (.set 5 (.bin .add .u64 (.var 0) (.bin .mul .u64 (.cast .u32 .u64 (.var 3)) (.lit 3))))
        (upd (mkFrame [tb, numFields, (some p).getD 0, field]) 4 0) ⟨m, l0⟩
        = some (.next, upd (upd (mkFrame [tb, numFields, (some p).getD 0, field]) 4 0) 5 (tb + 3 * field), ⟨m, l0⟩) := by
      apply set_eval (f := 22)
      simp (disch := omega) [evalE, upd, csem, Ty.bits, Nat.mod_eq_of_lt]
      omega
    have e6 : exec (mkEnv e rom glob) 22 (.set 6 (.cast .i32 .u8 (.lit 0)))
        (upd (upd (mkFrame [tb, numFields, (some p).getD 0, field]) 4 0) 5 (tb + 3 * field)) ⟨m, l0⟩
        = some (.next, upd (upd (upd (mkFrame [tb, numFields, (some p).getD 0, field]) 4 0) 5 (tb + 3 * field)) 6 0, ⟨m, l0⟩) := by
      apply set_eval (f := 21); simp (disch := omega) [evalE, csem, Ty.bits]
    have e7 : exec (mkEnv e rom glob) 21 (.set 7 (.cast .i32 .u8 (.lit 0)))
        (upd (upd (upd (mkFrame [tb, numFields, (some p).getD 0, field]) 4 0) 5 (tb + 3 * field)) 6 0) ⟨m, l0⟩
        = some (.next, upd (upd (upd (upd (mkFrame [tb, numFields, (some p).getD 0, field]) 4 0) 5 (tb + 3 * field)) 6 0) 7 0, ⟨m, l0⟩) := by
      apply set_eval (f := 20); simp (disch := omega) [evalE, csem, Ty.bits]
    obtain ⟨L', hloop, hres⟩ := getLoop_refines e rom glob tbl[field] (tb + 3 * field) r1 r2 r3 (by omega) hd p hpb hp0 m 4
      (upd (upd (upd (upd (mkFrame [tb, numFields, (some p).getD 0, field]) 4 0) 5 (tb + 3 * field)) 6 0) 7 0) l0 0 0 0
      (by simp [upd]) (by simp [upd]) (by simp [upd]) (by simp [upd]) (by simp [upd])
      (posInv_init _) (by decide) (by have := hd.1; have := hd.2.1; simp; omega)
    have hs1 : exec (mkEnv e rom glob) 25 (.ite (.bin .land .i32 (.bin .land .i32 (.bin .ne .u64 (.var 0) (.lit 0)) (.bin .ne .u64 (.var 2) (.lit 0))) (.bin .lt .u32 (.var 3) (.cast .u8 .u32 (.var 1)))) (.seq (.set 5 (.bin .add .u64 (.var 0) (.bin .mul .u64 (.cast .u32 .u64 (.var 3)) (.lit 3)))) (.seq (.set 6 (.cast .i32 .u8 (.lit 0))) (.seq (.set 7 (.cast .i32 .u8 (.lit 0))) (.while Avtp_GetField_w0_cond Avtp_GetField_w0_body)))) .skip)
        (upd (mkFrame [tb, numFields, (some p).getD 0, field]) 4 0) ⟨m, l0⟩
        = some (.next, L', ⟨m, (getLoop e tbl[field] m p 4 0 0 0 l0).2⟩) := by
      rw [ite_true (f := 24) hc (by decide), seq_next (f := 23) e5, seq_next (f := 22) e6, seq_next (f := 21) e7]
      exact hloop
    rw [seq_next hs1, hret]
    simp [getFieldLogFrom, hf, hfl, loopFuel, hres]
  · have hc : evalE (mkEnv e rom glob) (upd (mkFrame [tb, numFields, pdu.getD 0, field]) 4 0)
        (.bin .land .i32 (.bin .land .i32 (.bin .ne .u64 (.var 0) (.lit 0)) (.bin .ne .u64 (.var 2) (.lit 0))) (.bin .lt .u32 (.var 3) (.cast .u8 .u32 (.var 1))))
        = some 0 := by
      by_cases hp : pdu.getD 0 = 0
      · simp (disch := omega) [evalE, upd, csem, Ty.bits, Nat.mod_eq_of_lt, htb, hp, b2n]
      · have hf : ¬ field < numFields := fun h => hgo ⟨hp, h⟩
        simp (disch := omega) [evalE, upd, csem, Ty.bits, Nat.mod_eq_of_lt, htb, hp, hf, b2n]
    have hs1 : exec (mkEnv e rom glob) 25 Avtp_GetField_s1 (upd (mkFrame [tb, numFields, pdu.getD 0, field]) 4 0) ⟨m, l0⟩
        = some (.next, upd (mkFrame [tb, numFields, pdu.getD 0, field]) 4 0, ⟨m, l0⟩) := by
      unfold Avtp_GetField_s1
      rw [ite_false (f := 24) hc]; simp [exec]
    rw [seq_next hs1, hret]
    cases pdu with
    | none => simp [getFieldLogFrom, upd]
    | some p =>
      have hp : p ≠ 0 := (hpdu p rfl).1
      have hf : ¬ field < numFields := fun h => hgo ⟨by simpa using hp, h⟩
      simp [getFieldLogFrom, hf, upd]

/-- `Avtp_GetField(tbl, numFields, pdu, field)` as written in /repo = the Model `getFieldLog`. -/
theorem Avtp_GetField_refines (e : Endian) (rom : Nat → Byte) (glob : String → Nat) (tbl : List Desc) (tb : Nat)
    (hrom : RomTable rom tb tbl) (hvalid : ∀ d ∈ tbl, d.Valid)
    (numFields field : Nat) (hnf : numFields < 256) (hfield : field < 4294967296) (hn : numFields ≤ tbl.length)
    (pdu : Option Nat) (hpdu : ∀ p, pdu = some p → p ≠ 0 ∧ p + 1024 ≤ 18446744073709551616) (m : Mem) :
    callFn (mkEnv e rom glob) 27 "Avtp_GetField" [tb, numFields, pdu.getD 0, field] ⟨m, []⟩
      = some ((getFieldLog e tbl numFields m pdu field).1, ⟨m, (getFieldLog e tbl numFields m pdu field).2⟩) := by
  have := Avtp_GetField_refines_from [] e rom glob tbl tb hrom hvalid numFields field hnf hfield hn pdu hpdu m
  rw [getFieldLogFrom_nil] at this; exact this

end O1722.Refine
