/-
  Refine/UtilsSet.lean — the C text of `Avtp_SetField` (Gen/Cir.lean, C semantics of CSem/Eval.lean)
  computes exactly what the hand Model `setFieldLog` computes — final memory and access log —
  for every valid descriptor table, field identifier, value, PDU address, memory and host byte
  order, without undefined behaviour and within the stated fuel.  CODE-DEPENDENT (see Refine/Utils.lean).
-/
import O1722.Refine.Utils
open O1722 O1722.C
namespace O1722.Refine
open Gen.Cir

theorem while_step {env : Env} {f : Nat} {c : Expr} {b : Stmt} {L L1 : Locals} {s s1 : St} {x : Nat}
    (hc : evalE env L c = some x) (hx : x ≠ 0) (hb : exec env f b L s = some (.next, L1, s1)) :
    exec env (f + 1) (.while c b) L s = exec env f (.while c b) L1 s1 := by
  simp [exec, hc, hx, hb]

theorem while_done {env : Env} {f : Nat} {c : Expr} {b : Stmt} {L : Locals} {s : St}
    (hc : evalE env L c = some 0) : exec env (f + 1) (.while c b) L s = some (.next, L, s) := by
  simp [exec, hc]

theorem find_CpuToBe32 (e : Endian) : findFn (Gen.Cir.prog e) "Avtp_CpuToBe32" =
    some (match e with | .little => Gen.Cir.Little.Avtp_CpuToBe32 | .big => Gen.Cir.Big.Avtp_CpuToBe32) := by
  cases e <;> rfl

theorem call_CpuToBe32 (e : Endian) (rom glob) (f dst : Nat) (a : Expr) (L : Locals) (s : St) (x : Nat)
    (ha : evalE (mkEnv e rom glob) L a = some x) :
    exec (mkEnv e rom glob) (f + 4) (.call (some dst) "Avtp_CpuToBe32" [a]) L s
      = some (.next, upd L dst (beCpu32 e x), s) := by
  cases e
  · simp [exec, evalArgs, ha, find_CpuToBe32, find_Bswap32, mkFrame, setDst, evalE,
      Gen.Cir.Little.Avtp_CpuToBe32, Gen.Cir.Little.Avtp_Bswap32, Gen.Cir.Little.Avtp_CpuToBe32_body, Gen.Cir.Little.Avtp_Bswap32_body,
      Gen.Cir.Little.Avtp_CpuToBe32_s0, Gen.Cir.Little.Avtp_Bswap32_s0,
      band_any, bor_any, shr_u32, shl_u32, bswap32, beCpu32]
  · simp [exec, evalArgs, ha, find_CpuToBe32, mkFrame, setDst, evalE,
      Gen.Cir.Big.Avtp_CpuToBe32, Gen.Cir.Big.Avtp_CpuToBe32_body, Gen.Cir.Big.Avtp_CpuToBe32_s0, beCpu32]

section
variable (e : Endian) (rom : Nat → Byte) (glob : String → Nat)

theorem sw_s3 (f : Nat) (L : Locals) (st : St) (qb qs : Nat) (h9 : L 9 = qb) (h10 : L 10 = qs)
    (hqq : qs + qb ≤ 32) :
    exec (mkEnv e rom glob) (f + 1) Avtp_SetField_w0_s3 L st
      = some (.next, upd L 12 (quadletMask qb qs), st) := by
  have h1 : 1 <<< qb < 18446744073709551616 := by
    rw [Nat.shiftLeft_eq, Nat.one_mul]
    calc 2 ^ qb ≤ 2 ^ 32 := Nat.pow_le_pow_right (by decide) (by omega)
      _ < _ := by decide
  have h2 : 1 ≤ 1 <<< qb := by rw [Nat.shiftLeft_eq, Nat.one_mul]; exact Nat.two_pow_pos qb
  apply set_eval
  simp (disch := omega) [evalE, h9, h10, csem, Ty.bits, Nat.mod_eq_of_lt, quadletMask]

theorem sw_s4 (f : Nat) (L : Locals) (st : St) (pdu qid : Nat) (h2 : L 2 = pdu) (h8 : L 8 = qid)
    (hqid : qid < 256) (hpdu : pdu + 1024 ≤ 18446744073709551616) :
    exec (mkEnv e rom glob) (f + 1) Avtp_SetField_w0_s4 L st
      = some (.next, upd L 13 (pdu + qid * 4), st) := by
  apply set_eval
  simp (disch := omega) [evalE, h2, h8, csem, Ty.bits, Nat.mod_eq_of_lt]

theorem sw_s5 (f : Nat) (L : Locals) (m : Mem) (log : List Access) (addr : Nat) (h13 : L 13 = addr) (ha : addr ≠ 0) :
    exec (mkEnv e rom glob) (f + 1) Avtp_SetField_w0_s5 L ⟨m, log⟩
      = some (.next, upd L 14 (load e 4 m addr), ⟨m, log ++ [⟨addr, 4, 1, false⟩]⟩) := by
  simp [Avtp_SetField_w0_s5, exec, evalE, h13, ha]

theorem sw_s6 (f : Nat) (L : Locals) (st : St) (raw : Nat) (h14 : L 14 = raw) :
    exec (mkEnv e rom glob) (f + 5) Avtp_SetField_w0_s6 L st
      = some (.next, upd (upd L 16 (beCpu32 e raw)) 15 (beCpu32 e raw), st) := by
  unfold Avtp_SetField_w0_s6
  rw [seq_next (call_BeToCpu32 e rom glob f 16 (.var 14) L st raw (by simp [evalE, h14]))]
  apply set_eval
  simp [evalE]

theorem sw_s7 (f : Nat) (L : Locals) (st : St) (host mask part qs : Nat) (h15 : L 15 = host) (h12 : L 12 = mask)
    (h11 : L 11 = part) (h10 : L 10 = qs) (hqs : qs < 32) :
    exec (mkEnv e rom glob) (f + 1) Avtp_SetField_w0_s7 L st
      = some (.next, upd L 15 ((host &&& (mask ^^^ (2 ^ 32 - 1))) ||| (((part <<< qs) % 2 ^ 32) &&& mask)), st) := by
  apply set_eval
  simp (disch := omega) [evalE, h15, h12, h11, h10, csem, Ty.bits, Nat.mod_eq_of_lt]

theorem sw_s8 (f : Nat) (L : Locals) (st : St) (x : Nat) (h15 : L 15 = x) :
    exec (mkEnv e rom glob) (f + 5) Avtp_SetField_w0_s8 L st
      = some (.next, upd (upd L 17 (beCpu32 e x)) 14 (beCpu32 e x), st) := by
  unfold Avtp_SetField_w0_s8
  rw [seq_next (call_CpuToBe32 e rom glob f 17 (.var 15) L st x (by simp [evalE, h15]))]
  apply set_eval
  simp [evalE]

theorem sw_s9 (f : Nat) (L : Locals) (m : Mem) (log : List Access) (addr v : Nat) (h13 : L 13 = addr) (h14 : L 14 = v)
    (ha : addr ≠ 0) :
    exec (mkEnv e rom glob) (f + 1) Avtp_SetField_w0_s9 L ⟨m, log⟩
      = some (.next, L, ⟨store e 4 m addr v, log ++ [⟨addr, 4, 1, true⟩]⟩) := by
  simp [Avtp_SetField_w0_s9, exec, evalE, h13, h14, ha]

theorem sw_s10 (f : Nat) (L : Locals) (st : St) (qo : Nat) (h6 : L 6 = qo) (hqo : qo < 256) :
    exec (mkEnv e rom glob) (f + 1) Avtp_SetField_w0_s10 L st
      = some (.next, upd L 6 ((qo + 1) % 256), st) := by
  apply set_eval
  simp (disch := omega) [evalE, h6, csem, Ty.bits, Nat.mod_eq_of_lt]

theorem sw_s11 (f : Nat) (L : Locals) (st : St) (pb qb : Nat) (h7 : L 7 = pb) (h9 : L 9 = qb)
    (hpb : pb < 256) (hqb : qb < 256) :
    exec (mkEnv e rom glob) (f + 1) Avtp_SetField_w0_s11 L st
      = some (.next, upd L 7 ((pb + qb) % 256), st) := by
  apply set_eval
  simp (disch := omega) [evalE, h7, h9, csem, Ty.bits, Nat.mod_eq_of_lt]

variable (d : Desc) (fd : Nat) (hb : (rom (fd + 2)).val = d.bits) (hfd : fd + 2 < 18446744073709551616)
include hb hfd
theorem sw_s2 (f : Nat) (L : Locals) (st : St) (value pb qb : Nat) (h4 : L 4 = value)
    (h5 : L 5 = fd) (h7 : L 7 = pb) (h9 : L 9 = qb) (hv : value < 18446744073709551616)
    (hle : pb + qb ≤ d.bits) (hdb : d.bits ≤ 64) (hqb : 0 < qb) :
    exec (mkEnv e rom glob) (f + 1) Avtp_SetField_w0_s2 L st
      = some (.next, upd L 11 ((value >>> (d.bits - pb - qb)) % 2 ^ 32), st) := by
  apply set_eval
  simp (disch := omega) [evalE, h4, h5, h7, h9, hb, csem, Ty.bits, Nat.mod_eq_of_lt]
end

section
variable (e : Endian) (rom : Nat → Byte) (glob : String → Nat) (d : Desc) (fd : Nat)
  (hq : (rom fd).val = d.quadlet) (ho : (rom (fd + 1)).val = d.offset) (hb : (rom (fd + 2)).val = d.bits)
  (hfd : fd + 2 < 18446744073709551616) (hd : d.Valid)
include hq ho hb hfd hd

theorem setBody (pdu : Nat) (hpdu : pdu + 1024 ≤ 18446744073709551616) (hp0 : pdu ≠ 0)
    (m : Mem) (log : List Access) (L : Locals) (qo pb value : Nat) (hv : value < 18446744073709551616)
    (h2 : L 2 = pdu) (h4 : L 4 = value) (h5 : L 5 = fd) (h6 : L 6 = qo) (h7 : L 7 = pb)
    (hinv : PosInv d qo pb) (hlt : pb < d.bits) (hqo : qo < 256) (f : Nat) :
    let qid := (d.quadlet + qo) % 256
    let qbits := quadletBits d pb
    let qshift := quadletShift d pb qbits
    let part := (value >>> (d.bits - pb - qbits)) % 2 ^ 32
    let mask := quadletMask qbits qshift
    let addr := pdu + qid * 4
    let host := beCpu32 e (load e 4 m addr)
    let host' := (host &&& (mask ^^^ (2 ^ 32 - 1))) ||| (((part <<< qshift) % 2 ^ 32) &&& mask)
    ∃ L', exec (mkEnv e rom glob) (f + 18) Avtp_SetField_w0_body L ⟨m, log⟩
        = some (.next, L', ⟨store e 4 m addr (beCpu32 e host'),
                            log ++ [⟨addr, 4, 1, false⟩, ⟨addr, 4, 1, true⟩]⟩)
      ∧ L' 2 = pdu ∧ L' 4 = value ∧ L' 5 = fd
      ∧ L' 6 = (qo + 1) % 256 ∧ L' 7 = (pb + qbits) % 256 := by
  intro qid qbits qshift part mask addr host host'
  obtain ⟨g1, g2, g3, g4, g5, g6, g7, g8⟩ := chunk_geom d hd qo pb hlt hinv.2
  have hdb : d.bits ≤ 64 := hd.2.1
  have hqid : qid < 256 := Nat.mod_lt _ (by decide)
  have hqs : quadletShift d pb (quadletBits d pb) < 32 := by omega
  have ha0 : pdu + qid * 4 ≠ 0 := by omega
  have e0 := w0_s0 e rom glob d fd hq ho hb hfd (f + 16) L ⟨m, log⟩ qo h5 h6 hqo
  have e1 := w0_s1 e rom glob d fd hq ho hb hfd hd (f + 13) (upd L 8 qid) ⟨m, log⟩ pb (by simp [upd, h5]) (by simp [upd, h7]) hlt
  have e2 := sw_s2 e rom glob d fd hb hfd (f + 14) (upd (upd (upd L 8 qid) 9 qbits) 10 qshift) ⟨m, log⟩ value pb qbits
    (by simp [upd, h4]) (by simp [upd, h5]) (by simp [upd, h7]) (by simp [upd]) hv g2 hdb g1
  have e3 := sw_s3 e rom glob (f + 13) (upd (upd (upd (upd L 8 qid) 9 qbits) 10 qshift) 11 part) ⟨m, log⟩ qbits qshift
    (by simp [upd]) (by simp [upd]) g3
  have e4 := sw_s4 e rom glob (f + 12) (upd (upd (upd (upd (upd L 8 qid) 9 qbits) 10 qshift) 11 part) 12 mask) ⟨m, log⟩ pdu qid
    (by simp [upd, h2]) (by simp [upd]) hqid hpdu
  have e5 := sw_s5 e rom glob (f + 11) (upd (upd (upd (upd (upd (upd L 8 qid) 9 qbits) 10 qshift) 11 part) 12 mask) 13 addr) m log addr
    (by simp [upd]) ha0
  have e6 := sw_s6 e rom glob (f + 6) (upd (upd (upd (upd (upd (upd (upd L 8 qid) 9 qbits) 10 qshift) 11 part) 12 mask) 13 addr) 14 (load e 4 m addr))
    ⟨m, log ++ [⟨addr, 4, 1, false⟩]⟩ (load e 4 m addr) (by simp [upd])
  have e7 := sw_s7 e rom glob (f + 9) (upd (upd (upd (upd (upd (upd (upd (upd (upd L 8 qid) 9 qbits) 10 qshift) 11 part) 12 mask) 13 addr) 14 (load e 4 m addr)) 16 host) 15 host)
    ⟨m, log ++ [⟨addr, 4, 1, false⟩]⟩ host mask part qshift (by simp [upd]) (by simp [upd]) (by simp [upd]) (by simp [upd]) hqs
  have e8 := sw_s8 e rom glob (f + 4) (upd (upd (upd (upd (upd (upd (upd (upd (upd (upd L 8 qid) 9 qbits) 10 qshift) 11 part) 12 mask) 13 addr) 14 (load e 4 m addr)) 16 host) 15 host) 15 host')
    ⟨m, log ++ [⟨addr, 4, 1, false⟩]⟩ host' (by simp [upd])
  have e9 := sw_s9 e rom glob (f + 7) (upd (upd (upd (upd (upd (upd (upd (upd (upd (upd (upd (upd L 8 qid) 9 qbits) 10 qshift) 11 part) 12 mask) 13 addr) 14 (load e 4 m addr)) 16 host) 15 host) 15 host') 17 (beCpu32 e host')) 14 (beCpu32 e host'))
    m (log ++ [⟨addr, 4, 1, false⟩]) addr (beCpu32 e host') (by simp [upd]) (by simp [upd]) ha0
  rw [List.append_assoc] at e9
  simp only [List.cons_append, List.nil_append] at e9
  have e10 := sw_s10 e rom glob (f + 6) (upd (upd (upd (upd (upd (upd (upd (upd (upd (upd (upd (upd L 8 qid) 9 qbits) 10 qshift) 11 part) 12 mask) 13 addr) 14 (load e 4 m addr)) 16 host) 15 host) 15 host') 17 (beCpu32 e host')) 14 (beCpu32 e host'))
    ⟨store e 4 m addr (beCpu32 e host'), log ++ [⟨addr, 4, 1, false⟩, ⟨addr, 4, 1, true⟩]⟩ qo (by simp [upd, h6]) hqo
  have e11 := sw_s11 e rom glob (f + 6) (upd (upd (upd (upd (upd (upd (upd (upd (upd (upd (upd (upd (upd L 8 qid) 9 qbits) 10 qshift) 11 part) 12 mask) 13 addr) 14 (load e 4 m addr)) 16 host) 15 host) 15 host') 17 (beCpu32 e host')) 14 (beCpu32 e host')) 6 ((qo + 1) % 256))
    ⟨store e 4 m addr (beCpu32 e host'), log ++ [⟨addr, 4, 1, false⟩, ⟨addr, 4, 1, true⟩]⟩ pb qbits (by simp [upd, h7]) (by simp [upd]) (by omega) (show quadletBits d pb < 256 by omega)
  unfold Avtp_SetField_w0_body
  rw [show Avtp_SetField_w0_s0 = Avtp_GetField_w0_s0 from rfl, show Avtp_SetField_w0_s1 = Avtp_GetField_w0_s1 from rfl]
  rw [seq_next e0, seq_next e1, seq_next e2, seq_next e3, seq_next e4, seq_next e5, seq_next e6, seq_next e7,
    seq_next e8, seq_next e9, seq_next e10]
  refine ⟨_, e11, ?_⟩
  simp [upd, h2, h4, h5]

omit hq ho hd in
theorem sw_cond_eval (L : Locals) (pb : Nat) (h5 : L 5 = fd) (h7 : L 7 = pb) (hpb : pb < 256) :
    evalE (mkEnv e rom glob) L Avtp_SetField_w0_cond = some (b2n (decide (pb < d.bits))) :=
  w0_cond_eval e rom glob d fd hb hfd L pb h5 h7 hpb

theorem setLoop_refines (pdu : Nat) (hpdu : pdu + 1024 ≤ 18446744073709551616) (hp0 : pdu ≠ 0)
    (value : Nat) (hv : value < 18446744073709551616) :
    ∀ (k : Nat) (L : Locals) (m : Mem) (log : List Access) (qo pb : Nat),
      L 2 = pdu → L 4 = value → L 5 = fd → L 6 = qo → L 7 = pb → PosInv d qo pb → qo < 256 →
      (d.bits - pb) + (if pb = 0 then d.offset else 0) ≤ 32 * k →
      ∃ L', exec (mkEnv e rom glob) (k + 19) (.while Avtp_SetField_w0_cond Avtp_SetField_w0_body) L ⟨m, log⟩
          = some (.next, L', ⟨(setLoop e d pdu value k qo pb m log).1, (setLoop e d pdu value k qo pb m log).2⟩) := by
  have hdb : d.bits ≤ 64 := hd.2.1
  intro k
  induction k with
  | zero =>
    intro L m log qo pb h2 h4 h5 h6 h7 hinv hqo hk
    have hge : ¬ pb < d.bits := by omega
    have hc := sw_cond_eval e rom glob d fd hb hfd L pb h5 h7 (by have := hinv.1; omega)
    refine ⟨L, ?_⟩
    rw [while_done (f := 18) (by simp [hc, hge])]
    simp [setLoop]
  | succ k ih =>
    intro L m log qo pb h2 h4 h5 h6 h7 hinv hqo hk
    have hc := sw_cond_eval e rom glob d fd hb hfd L pb h5 h7 (by have := hinv.1; omega)
    by_cases hlt : pb < d.bits
    · obtain ⟨L1, hb1, k2, k4, k5, k6, k7⟩ :=
        setBody e rom glob d fd hq ho hb hfd hd pdu hpdu hp0 m log L qo pb value hv h2 h4 h5 h6 h7 hinv hlt hqo (k + 1)
      obtain ⟨inv', hqq, _⟩ := posInv_step d hd qo pb hinv hlt
      obtain ⟨g1, g2, g3, g4, g5, g6, g7, g8⟩ := chunk_geom d hd qo pb hlt hinv.2
      have hk' : (d.bits - (pb + quadletBits d pb) % 256) + (if (pb + quadletBits d pb) % 256 = 0 then d.offset else 0) ≤ 32 * k := by
        rw [g5]
        by_cases hdone : pb + quadletBits d pb = d.bits
        · rw [if_pos hdone] at g8
          have : ¬ d.bits = 0 := by omega
          rw [hdone]; simp [this]
        · rw [if_neg hdone] at g8; omega
      obtain ⟨L', hex⟩ := ih L1 _ _ _ _ k2 k4 k5 k6 k7 inv' (Nat.mod_lt _ (by decide)) hk'
      refine ⟨L', ?_⟩
      show exec (mkEnv e rom glob) (k + 19 + 1) _ L ⟨m, log⟩ = _
      have hb1' : exec (mkEnv e rom glob) (k + 19) Avtp_SetField_w0_body L ⟨m, log⟩ = _ := hb1
      rw [while_step hc (by simp [hlt]) hb1', hex]
      simp [setLoop, hlt]
    · have hge : ¬ pb < d.bits := hlt
      refine ⟨L, ?_⟩
      show exec (mkEnv e rom glob) (k + 19 + 1) _ L ⟨m, log⟩ = _
      rw [while_done (by simp [hc, hge])]
      simp [setLoop, hge]
end

theorem find_SetField (e : Endian) : findFn (Gen.Cir.prog e) "Avtp_SetField" = some Gen.Cir.Avtp_SetField := by
  cases e <;> rfl

/-- `setFieldLog` continuing an access log `l0`. -/
def setFieldLogFrom (l0 : List Access) (e : Endian) (tbl : List Desc) (numFields : Nat) (m : Mem)
    (pdu : Option Nat) (field value : Nat) : Mem × List Access :=
  match pdu with
  | none => (m, l0)
  | some p =>
    if field < numFields then
      match tbl[field]? with
      | some d => setLoop e d p (value % 2 ^ 64) loopFuel 0 0 m l0
      | none => (m, l0)
    else (m, l0)

theorem setFieldLogFrom_nil : setFieldLogFrom [] = setFieldLog := by
  funext e tbl n m pdu field value; unfold setFieldLogFrom setFieldLog; rfl

theorem Avtp_SetField_refines_from (l0 : List Access) (e : Endian) (rom : Nat → Byte) (glob : String → Nat) (tbl : List Desc) (tb : Nat)
    (hrom : RomTable rom tb tbl) (hvalid : ∀ d ∈ tbl, d.Valid)
    (numFields field value : Nat) (hnf : numFields < 256) (hfield : field < 4294967296)
    (hv : value < 18446744073709551616) (hn : numFields ≤ tbl.length)
    (pdu : Option Nat) (hpdu : ∀ p, pdu = some p → p ≠ 0 ∧ p + 1024 ≤ 18446744073709551616) (m : Mem) :
    callFn (mkEnv e rom glob) 27 "Avtp_SetField" [tb, numFields, pdu.getD 0, field, value] ⟨m, l0⟩
      = some (0, ⟨(setFieldLogFrom l0 e tbl numFields m pdu field value).1, (setFieldLogFrom l0 e tbl numFields m pdu field value).2⟩) := by
  have htb := hrom.nonnull
  unfold callFn
  rw [mkEnv_prog, find_SetField]
  simp only [Avtp_SetField, Avtp_SetField_body]
  by_cases hgo : (pdu.getD 0 ≠ 0 ∧ field < numFields)
  · obtain ⟨hp, hf⟩ := hgo
    obtain ⟨p, rfl⟩ : ∃ p, pdu = some p := by
      cases pdu with
      | none => simp at hp
      | some p => exact ⟨p, rfl⟩
    obtain ⟨hp0, hpb⟩ := hpdu p rfl
    have hfl : field < tbl.length := by omega
    obtain ⟨r1, r2, r3⟩ := hrom.rows field hfl
    have hbound := hrom.bound
    have hd : (tbl[field]).Valid := hvalid _ (List.getElem_mem hfl)
    have hc : evalE (mkEnv e rom glob) (mkFrame [tb, numFields, (some p).getD 0, field, value])
        (.bin .land .i32 (.bin .land .i32 (.bin .ne .u64 (.var 0) (.lit 0)) (.bin .ne .u64 (.var 2) (.lit 0))) (.bin .lt .u32 (.var 3) (.cast .u8 .u32 (.var 1))))
        = some 1 := by
      simp (disch := omega) [evalE, upd, csem, Ty.bits, Nat.mod_eq_of_lt, htb, hp0, hf, b2n]
    have e5 : exec (mkEnv e rom glob) 25 (.set 5 (.bin .add .u64 (.var 0) (.bin .mul .u64 (.cast .u32 .u64 (.var 3)) (.lit 3))))
        (mkFrame [tb, numFields, (some p).getD 0, field, value]) ⟨m, l0⟩
        = some (.next, upd (mkFrame [tb, numFields, (some p).getD 0, field, value]) 5 (tb + 3 * field), ⟨m, l0⟩) := by
      apply set_eval (f := 24)
      simp (disch := omega) [evalE, upd, csem, Ty.bits, Nat.mod_eq_of_lt]
      omega
    have e6 : exec (mkEnv e rom glob) 24 (.set 6 (.cast .i32 .u8 (.lit 0)))
        (upd (mkFrame [tb, numFields, (some p).getD 0, field, value]) 5 (tb + 3 * field)) ⟨m, l0⟩
        = some (.next, upd (upd (mkFrame [tb, numFields, (some p).getD 0, field, value]) 5 (tb + 3 * field)) 6 0, ⟨m, l0⟩) := by
      apply set_eval (f := 23); simp (disch := omega) [evalE, csem, Ty.bits]
    have e7 : exec (mkEnv e rom glob) 23 (.set 7 (.cast .i32 .u8 (.lit 0)))
        (upd (upd (mkFrame [tb, numFields, (some p).getD 0, field, value]) 5 (tb + 3 * field)) 6 0) ⟨m, l0⟩
        = some (.next, upd (upd (upd (mkFrame [tb, numFields, (some p).getD 0, field, value]) 5 (tb + 3 * field)) 6 0) 7 0, ⟨m, l0⟩) := by
      apply set_eval (f := 22); simp (disch := omega) [evalE, csem, Ty.bits]
    obtain ⟨L', hloop⟩ := setLoop_refines e rom glob tbl[field] (tb + 3 * field) r1 r2 r3 (by omega) hd p hpb hp0 value hv 4
      (upd (upd (upd (mkFrame [tb, numFields, (some p).getD 0, field, value]) 5 (tb + 3 * field)) 6 0) 7 0) m l0 0 0
      (by simp [upd]) (by simp [upd]) (by simp [upd]) (by simp [upd]) (by simp [upd])
      (posInv_init _) (by decide) (by have := hd.1; have := hd.2.1; simp; omega)
    unfold Avtp_SetField_s0
    rw [ite_true (f := 26) hc (by decide), seq_next (f := 25) e5, seq_next (f := 24) e6, seq_next (f := 23) e7]
    have hloop' : exec (mkEnv e rom glob) 23 (.while Avtp_SetField_w0_cond Avtp_SetField_w0_body) _ ⟨m, l0⟩ = _ := hloop
    rw [hloop']
    simp [setFieldLogFrom, hf, hfl, loopFuel, Nat.mod_eq_of_lt hv]
  · have hc : evalE (mkEnv e rom glob) (mkFrame [tb, numFields, pdu.getD 0, field, value])
        (.bin .land .i32 (.bin .land .i32 (.bin .ne .u64 (.var 0) (.lit 0)) (.bin .ne .u64 (.var 2) (.lit 0))) (.bin .lt .u32 (.var 3) (.cast .u8 .u32 (.var 1))))
        = some 0 := by
      by_cases hp : pdu.getD 0 = 0
      · simp (disch := omega) [evalE, upd, csem, Ty.bits, Nat.mod_eq_of_lt, htb, hp, b2n]
      · have hf : ¬ field < numFields := fun h => hgo ⟨hp, h⟩
        simp (disch := omega) [evalE, upd, csem, Ty.bits, Nat.mod_eq_of_lt, htb, hp, hf, b2n]
    unfold Avtp_SetField_s0
    rw [ite_false (f := 26) hc]
    cases pdu with
    | none => simp [exec, setFieldLogFrom]
    | some p =>
      have hp : p ≠ 0 := (hpdu p rfl).1
      have hf : ¬ field < numFields := fun h => hgo ⟨by simpa using hp, h⟩
      simp [exec, setFieldLogFrom, hf]

/-- `Avtp_SetField(tbl, numFields, pdu, field, value)` as written in /repo = the Model `setFieldLog`. -/
theorem Avtp_SetField_refines (e : Endian) (rom : Nat → Byte) (glob : String → Nat) (tbl : List Desc) (tb : Nat)
    (hrom : RomTable rom tb tbl) (hvalid : ∀ d ∈ tbl, d.Valid)
    (numFields field value : Nat) (hnf : numFields < 256) (hfield : field < 4294967296)
    (hv : value < 18446744073709551616) (hn : numFields ≤ tbl.length)
    (pdu : Option Nat) (hpdu : ∀ p, pdu = some p → p ≠ 0 ∧ p + 1024 ≤ 18446744073709551616) (m : Mem) :
    callFn (mkEnv e rom glob) 27 "Avtp_SetField" [tb, numFields, pdu.getD 0, field, value] ⟨m, []⟩
      = some (0, ⟨(setFieldLog e tbl numFields m pdu field value).1, (setFieldLog e tbl numFields m pdu field value).2⟩) := by
  have := Avtp_SetField_refines_from [] e rom glob tbl tb hrom hvalid numFields field value hnf hfield hv hn pdu hpdu m
  rw [setFieldLogFrom_nil] at this; exact this

end O1722.Refine
