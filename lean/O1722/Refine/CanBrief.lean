/-
  Refine/CanBrief.lean — the C text of the abbreviated ACF-CAN builder `Avtp_CanBrief_SetPayload`
  (with `Avtp_CanBrief_Finalize`, `Avtp_CanBrief_SetField`, `Avtp_SetField`) leaves the memory and
  returns the length the hand Model `canCreate Spec.canBrief` describes (C06).  CODE-DEPENDENT.
-/
import O1722.Refine.Can
open O1722 O1722.C
namespace O1722.Refine
open Gen.Cir

set_option maxRecDepth 16384 in
theorem find_CanBrief_Finalize (e : Endian) : findFn (Gen.Cir.prog e) "Avtp_CanBrief_Finalize" = some Gen.Cir.Avtp_CanBrief_Finalize := by
  cases e <;> rfl
set_option maxRecDepth 16384 in
theorem find_CanBrief_SetField (e : Endian) : findFn (Gen.Cir.prog e) "Avtp_CanBrief_SetField" = some Gen.Cir.Avtp_CanBrief_SetField := by
  cases e <;> rfl
set_option maxRecDepth 16384 in
theorem find_CanBrief_SetPayload (e : Endian) : findFn (Gen.Cir.prog e) "Avtp_CanBrief_SetPayload" = some Gen.Cir.Avtp_CanBrief_SetPayload := by
  cases e <;> rfl

section
variable (e : Endian) (rom : Nat → Byte) (glob : String → Nat) (tbl : List Desc) (tb : Nat)
  (hrom : RomTable rom tb tbl) (hvalid : ∀ d ∈ tbl, d.Valid)
  (hglob : glob "Avtp_CanBriefFieldDesc" = tb) (hNl : 11 ≤ tbl.length)
  (hlen : ∀ m p v, setField e tbl 11 m (some p) 1 v = setNamed Spec.canBrief m p "ACF_MSG_LENGTH" v)
  (hpad : ∀ m p v, setField e tbl 11 m (some p) 2 v = setNamed Spec.canBrief m p "PAD" v)
include hrom hvalid hglob hNl hlen hpad

theorem Avtp_CanBrief_Finalize_mem (p len : Nat) (hp0 : p ≠ 0) (hpb : p + 70000 ≤ 18446744073709551616)
    (hl : len < 65536) (m : Mem) (l0 : List Access) :
    (callFn (mkEnv e rom glob) 40 "Avtp_CanBrief_Finalize" [p, len] ⟨m, l0⟩).map (fun r => (r.1, r.2.mem))
      = some ((canFinalize Spec.canBrief m p len).2, (canFinalize Spec.canBrief m p len).1) := by
  have hpdu : ∀ q, some p = some q → q ≠ 0 ∧ q + 1024 ≤ 18446744073709551616 := by
    intro q hq; cases hq; exact ⟨hp0, by omega⟩
  have hH : Spec.canBrief.headerLen = 8 := rfl
  unfold callFn
  rw [mkEnv_prog, find_CanBrief_Finalize]
  simp only [Avtp_CanBrief_Finalize, Avtp_CanBrief_Finalize_body]
  have hr : len % 4 < 4 := Nat.mod_lt _ (by decide)
  have e0 : exec (mkEnv e rom glob) 39 Avtp_CanBrief_Finalize_s0 (mkFrame [p, len]) ⟨m, l0⟩
      = some (.next, upd (mkFrame [p, len]) 3 (8 + len), ⟨m, l0⟩) := by
    apply set_eval (f := 38)
    simp (disch := omega) [evalE, csem, Ty.bits, Nat.mod_eq_of_lt]
  have e1 : exec (mkEnv e rom glob) 38 Avtp_CanBrief_Finalize_s1 (upd (mkFrame [p, len]) 3 (8 + len)) ⟨m, l0⟩
      = some (.next, upd (upd (mkFrame [p, len]) 3 (8 + len)) 2 (4 - len % 4), ⟨m, l0⟩) := by
    apply set_eval (f := 37)
    simp (disch := omega) [evalE, upd, csem, Ty.bits, Nat.mod_eq_of_lt]
  show Option.map _ (Option.map _ (exec (mkEnv e rom glob) (39 + 1) _ _ _)) = _
  rw [seq_next e0, seq_next e1]
  by_cases hz : len % 4 = 0
  · -- no padding
    have e2 : exec (mkEnv e rom glob) 37 Avtp_CanBrief_Finalize_s2 (upd (upd (mkFrame [p, len]) 3 (8 + len)) 2 (4 - len % 4)) ⟨m, l0⟩
        = some (.next, upd (upd (mkFrame [p, len]) 3 (8 + len)) 2 (4 - len % 4), ⟨m, l0⟩) := by
      unfold Avtp_CanBrief_Finalize_s2
      have hc : evalE (mkEnv e rom glob) (upd (upd (mkFrame [p, len]) 3 (8 + len)) 2 (4 - len % 4))
          (.bin .rem .i32 (.cast .u16 .i32 (.var 1)) (.lit 4)) = some 0 := by
        simp (disch := omega) [evalE, upd, csem, Ty.bits, Nat.mod_eq_of_lt, hz]
      rw [ite_false (f := 36) hc]; simp [exec]
    rw [seq_next e2]
    have hs3 := call_fwdSet e rom glob tbl tb hrom hvalid "Avtp_CanBrief_SetField" "Avtp_CanBriefFieldDesc" 11 Avtp_CanBrief_SetField
      (find_CanBrief_SetField e) rfl hglob (by decide) hNl 35 (by decide) (upd (upd (mkFrame [p, len]) 3 (8 + len)) 2 (4 - len % 4))
      [.var 0, .cast .i32 .u32 (.lit 1), .bin .div .u64 (.cast .u32 .u64 (.var 3)) (.cast .i32 .u64 (.lit 4))]
      none 1 ((8 + len) / 4) (some p)
      (by simp (disch := omega) [evalArgs, evalE, upd, csem, Ty.bits, Nat.mod_eq_of_lt])
      (by decide) (by omega) hpdu
    unfold Avtp_CanBrief_Finalize_s3
    rw [seq_next (hs3 _ _)]
    simp only [setDst]
    have hs4 := call_fwdSet e rom glob tbl tb hrom hvalid "Avtp_CanBrief_SetField" "Avtp_CanBriefFieldDesc" 11 Avtp_CanBrief_SetField
      (find_CanBrief_SetField e) rfl hglob (by decide) hNl 34 (by decide) (upd (upd (mkFrame [p, len]) 3 (8 + len)) 2 (4 - len % 4))
      [.var 0, .cast .i32 .u32 (.lit 2), .cast .u8 .u64 (.var 2)]
      none 2 (4 - len % 4) (some p)
      (by simp (disch := omega) [evalArgs, evalE, upd, csem, Ty.bits, Nat.mod_eq_of_lt])
      (by decide) (by omega) hpdu
    unfold Avtp_CanBrief_Finalize_s4
    rw [seq_next (hs4 _ _)]
    simp (disch := omega) [Avtp_CanBrief_Finalize_s5, exec, evalE, upd, setDst, csem, Ty.bits, Nat.mod_eq_of_lt,
      setFieldLogFrom_mem, hlen, hpad]
    unfold canFinalize
    simp (disch := omega) [hH, hz, Nat.mod_eq_of_lt]
  · -- padding
    have hpl : p + 8 + len ≠ 0 := by omega
    have e2 : exec (mkEnv e rom glob) 37 Avtp_CanBrief_Finalize_s2 (upd (upd (mkFrame [p, len]) 3 (8 + len)) 2 (4 - len % 4)) ⟨m, l0⟩
        = some (.next, upd (upd (upd (mkFrame [p, len]) 3 (8 + len)) 2 (4 - len % 4)) 3 (8 + len + (4 - len % 4)),
            ⟨zeroFill m (p + 8 + len) (4 - len % 4), l0 ++ [⟨p + 8 + len, 4 - len % 4, 1, true⟩]⟩) := by
      unfold Avtp_CanBrief_Finalize_s2
      have hc : evalE (mkEnv e rom glob) (upd (upd (mkFrame [p, len]) 3 (8 + len)) 2 (4 - len % 4))
          (.bin .rem .i32 (.cast .u16 .i32 (.var 1)) (.lit 4)) = some (len % 4) := by
        simp (disch := omega) [evalE, upd, csem, Ty.bits, Nat.mod_eq_of_lt]
      rw [ite_true (f := 36) hc hz]
      simp (disch := omega) [exec, evalE, upd, csem, Ty.bits, Nat.mod_eq_of_lt, hz, hpl]
      exact write_replicate_zero _ _ _
    rw [seq_next e2]
    have hs3 := call_fwdSet e rom glob tbl tb hrom hvalid "Avtp_CanBrief_SetField" "Avtp_CanBriefFieldDesc" 11 Avtp_CanBrief_SetField
      (find_CanBrief_SetField e) rfl hglob (by decide) hNl 35 (by decide)
      (upd (upd (upd (mkFrame [p, len]) 3 (8 + len)) 2 (4 - len % 4)) 3 (8 + len + (4 - len % 4)))
      [.var 0, .cast .i32 .u32 (.lit 1), .bin .div .u64 (.cast .u32 .u64 (.var 3)) (.cast .i32 .u64 (.lit 4))]
      none 1 ((8 + len + (4 - len % 4)) / 4) (some p)
      (by simp (disch := omega) [evalArgs, evalE, upd, csem, Ty.bits, Nat.mod_eq_of_lt])
      (by decide) (by omega) hpdu
    unfold Avtp_CanBrief_Finalize_s3
    rw [seq_next (hs3 _ _)]
    simp only [setDst]
    have hs4 := call_fwdSet e rom glob tbl tb hrom hvalid "Avtp_CanBrief_SetField" "Avtp_CanBriefFieldDesc" 11 Avtp_CanBrief_SetField
      (find_CanBrief_SetField e) rfl hglob (by decide) hNl 34 (by decide)
      (upd (upd (upd (mkFrame [p, len]) 3 (8 + len)) 2 (4 - len % 4)) 3 (8 + len + (4 - len % 4)))
      [.var 0, .cast .i32 .u32 (.lit 2), .cast .u8 .u64 (.var 2)]
      none 2 (4 - len % 4) (some p)
      (by simp (disch := omega) [evalArgs, evalE, upd, csem, Ty.bits, Nat.mod_eq_of_lt])
      (by decide) (by omega) hpdu
    unfold Avtp_CanBrief_Finalize_s4
    rw [seq_next (hs4 _ _)]
    simp (disch := omega) [Avtp_CanBrief_Finalize_s5, exec, evalE, upd, setDst, csem, Ty.bits, Nat.mod_eq_of_lt,
      setFieldLogFrom_mem, hlen, hpad]
    unfold canFinalize
    simp (disch := omega) [hH, hz, Nat.mod_eq_of_lt]
end


section
variable (e : Endian) (rom : Nat → Byte) (glob : String → Nat) (tbl : List Desc) (tb : Nat)
  (hrom : RomTable rom tb tbl) (hvalid : ∀ d ∈ tbl, d.Valid)
  (hglob : glob "Avtp_CanBriefFieldDesc" = tb) (hNl : 11 ≤ tbl.length)
  (hlen : ∀ m p v, setField e tbl 11 m (some p) 1 v = setNamed Spec.canBrief m p "ACF_MSG_LENGTH" v)
  (hpad : ∀ m p v, setField e tbl 11 m (some p) 2 v = setNamed Spec.canBrief m p "PAD" v)
  (heff : ∀ m p v, setField e tbl 11 m (some p) 5 v = setNamed Spec.canBrief m p "EFF" v)
  (hfdf : ∀ m p v, setField e tbl 11 m (some p) 7 v = setNamed Spec.canBrief m p "FDF" v)
  (hid : ∀ m p v, setField e tbl 11 m (some p) 10 v = setNamed Spec.canBrief m p "CAN_IDENTIFIER" v)
include hrom hvalid hglob hNl hlen hpad heff hfdf hid

/-- `Avtp_CanBrief_SetPayload(pdu, frame_id, payload, payload_length, can_variant)` as written in
    /repo leaves the memory and returns the length of the Model builder. -/
theorem Avtp_CanBrief_SetPayload_refines (p frameId src n variant : Nat) (hp0 : p ≠ 0)
    (hpb : p + 70000 ≤ 18446744073709551616) (hf : frameId < 4294967296) (hvar : variant < 4294967296)
    (hn : n < 65536) (hsrc : n = 0 ∨ src ≠ 0) (hdis : n = 0 ∨ p + 8 + n ≤ src ∨ src + n ≤ p + 8) (m : Mem) :
    (callFn (mkEnv e rom glob) 60 "Avtp_CanBrief_SetPayload" [p, frameId, src, n, variant] ⟨m, []⟩).map
        (fun r => (r.1, r.2.mem))
      = some ((canCreate Spec.canBrief m p frameId (m.read src n) variant).2,
              (canCreate Spec.canBrief m p frameId (m.read src n) variant).1) := by
  have hpdu : ∀ q, some p = some q → q ≠ 0 ∧ q + 1024 ≤ 18446744073709551616 := by
    intro q hq; cases hq; exact ⟨hp0, by omega⟩
  have hH : Spec.canBrief.headerLen = 8 := rfl
  unfold callFn
  rw [mkEnv_prog, find_CanBrief_SetPayload]
  simp only [Avtp_CanBrief_SetPayload, Avtp_CanBrief_SetPayload_body]
  -- payload
  have h8 : p + 8 ≠ 0 := by omega
  have hd : disjointRanges (p + 8) src n = true := by
    simp only [disjointRanges, decide_eq_true_eq]; omega
  have c0 : exec (mkEnv e rom glob) 59 Avtp_CanBrief_SetPayload_s0 (mkFrame [p, frameId, src, n, variant]) ⟨m, []⟩
      = some (.next, mkFrame [p, frameId, src, n, variant],
          ⟨m.write (p + 8) (m.read src n), [] ++ [⟨src, n, 1, false⟩, ⟨p + 8, n, 1, true⟩]⟩) := by
    unfold Avtp_CanBrief_SetPayload_s0
    rcases hsrc with h0 | hs
    · subst h0
      simp (disch := omega) [exec, evalE, csem, Ty.bits, Nat.mod_eq_of_lt, hd]
    · simp (disch := omega) [exec, evalE, csem, Ty.bits, Nat.mod_eq_of_lt, hd, hs, h8]
  show Option.map _ (Option.map _ (exec (mkEnv e rom glob) (59 + 1) _ _ _)) = _
  rw [seq_next c0]
  -- eff
  have e1 : ∀ st : St, exec (mkEnv e rom glob) 58 Avtp_CanBrief_SetPayload_s1 (mkFrame [p, frameId, src, n, variant]) st
      = some (.next, upd (mkFrame [p, frameId, src, n, variant]) 5 (if frameId > 0x7ff then 1 else 0), st) := by
    intro st
    apply set_eval (f := 57)
    by_cases hgt : frameId > 2047
    · simp (disch := omega) [evalE, csem, Ty.bits, Nat.mod_eq_of_lt, hgt]
    · simp (disch := omega) [evalE, csem, Ty.bits, Nat.mod_eq_of_lt, hgt]
  rw [seq_next (e1 _)]
  have heffv : (if frameId > 0x7ff then 1 else 0 : Nat) < 2 := by split <;> omega
  have hs2 := call_fwdSet e rom glob tbl tb hrom hvalid "Avtp_CanBrief_SetField" "Avtp_CanBriefFieldDesc" 11 Avtp_CanBrief_SetField
    (find_CanBrief_SetField e) rfl hglob (by decide) hNl 56 (by decide)
    (upd (mkFrame [p, frameId, src, n, variant]) 5 (if frameId > 0x7ff then 1 else 0))
    [.var 0, .cast .i32 .u32 (.lit 5), .cast .i32 .u64 (.var 5)]
    none 5 (if frameId > 0x7ff then 1 else 0) (some p)
    (by by_cases hgt : 2047 < frameId <;> simp (disch := omega) [evalArgs, evalE, upd, csem, Ty.bits, Nat.mod_eq_of_lt, hgt])
    (by decide) (by omega) hpdu
  unfold Avtp_CanBrief_SetPayload_s2
  rw [seq_next (hs2 _ _)]
  simp only [setDst]
  have hs3 := call_fwdSet e rom glob tbl tb hrom hvalid "Avtp_CanBrief_SetField" "Avtp_CanBriefFieldDesc" 11 Avtp_CanBrief_SetField
    (find_CanBrief_SetField e) rfl hglob (by decide) hNl 55 (by decide)
    (upd (mkFrame [p, frameId, src, n, variant]) 5 (if frameId > 0x7ff then 1 else 0))
    [.var 0, .cast .i32 .u32 (.lit 10), .cast .u32 .u64 (.var 1)]
    none 10 frameId (some p)
    (by simp (disch := omega) [evalArgs, evalE, upd, csem, Ty.bits, Nat.mod_eq_of_lt])
    (by decide) (by omega) hpdu
  unfold Avtp_CanBrief_SetPayload_s3
  rw [seq_next (hs3 _ _)]
  simp only [setDst]
  have hs4 := call_fwdSet e rom glob tbl tb hrom hvalid "Avtp_CanBrief_SetField" "Avtp_CanBriefFieldDesc" 11 Avtp_CanBrief_SetField
    (find_CanBrief_SetField e) rfl hglob (by decide) hNl 54 (by decide)
    (upd (mkFrame [p, frameId, src, n, variant]) 5 (if frameId > 0x7ff then 1 else 0))
    [.var 0, .cast .i32 .u32 (.lit 7), .cast .u8 .u64 (.cast .u32 .u8 (.var 4))]
    none 7 (variant % 256) (some p)
    (by simp (disch := omega) [evalArgs, evalE, upd, csem, Ty.bits, Nat.mod_eq_of_lt])
    (by decide) (by omega) hpdu
  unfold Avtp_CanBrief_SetPayload_s4
  rw [seq_next (hs4 _ _)]
  simp only [setDst]
  -- finalize, returning its result
  obtain ⟨logF, hF⟩ := exists_log_of_map
    (Avtp_CanBrief_Finalize_mem e rom glob tbl tb hrom hvalid hglob hNl hlen hpad p n hp0 hpb hn _ _)
  have c5 := exec_call_of_callFn (env := mkEnv e rom glob) (g := 53) (dst := some 6) (fn := "Avtp_CanBrief_Finalize")
    (args := [.var 0, .var 3]) (L := upd (mkFrame [p, frameId, src, n, variant]) 5 (if frameId > 0x7ff then 1 else 0))
    (vs := [p, n]) (by simp [evalArgs, evalE, upd]) (callFn_le _ (by decide : 40 ≤ 53) hF)
  unfold Avtp_CanBrief_SetPayload_s5
  rw [seq_next c5]
  simp only [exec, evalE, Option.map, setDst, upd_same, setFieldLogFrom_mem, heff, hid, hfdf]
  congr 2 <;> (unfold canCreate canSetPayload; simp [hH, read_length])
end

end O1722.Refine
