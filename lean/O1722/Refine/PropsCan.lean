/-
  Refine/PropsCan.lean — C06 for the C TEXT of `Avtp_Can_CreateAcfMessage` with the table /repo
  currently contains (`Gen.can.table`, regenerated): composing the refinement with `C06_builder`.
  CODE-DEPENDENT.
-/
import O1722.Refine.Can
import O1722.Refine.Props
import O1722.Refine.CanBrief
import O1722.Refine.PropsVss
import O1722.Props.Can
open O1722 O1722.C
namespace O1722.Refine

section
variable (e : Endian) (rom : Nat → Byte) (glob : String → Nat) (tb : Nat)
  (hrom : RomTable rom tb Gen.can.table) (hglob : glob "Avtp_CanFieldDesc" = tb)
include hrom hglob

/-- **C06 on the C text (full ACF-CAN builder).**  For every identifier, variant, payload of any
    length < 2^16 read from `src` (not overlapping the destination, as `memcpy` demands), PDU
    address and prior memory: the payload is copied verbatim behind the 16-octet header, the pad
    bytes are zero, nothing before the PDU or behind the padded message changes, and every header
    field reads as the Model's operation list says (length in quadlets, pad, identifier, EFF, FDF;
    all others as before). -/
theorem C06_code (p frameId src n variant : Nat) (hp0 : p ≠ 0) (hpb : p + 70000 ≤ 18446744073709551616)
    (hf : frameId < 4294967296) (hvar : variant < 4294967296) (hn : n < 65536)
    (hsrc : n = 0 ∨ src ≠ 0) (hdis : n = 0 ∨ p + 16 + n ≤ src ∨ src + n ≤ p + 16) (m : Mem) :
    ∃ r, (callFn (mkEnv e rom glob) 60 "Avtp_Can_CreateAcfMessage" [p, frameId, src, n, variant] ⟨m, []⟩).map
          (fun x => (x.1, x.2.mem)) = some (0, r)
      ∧ (∀ k, k < n → r (p + 16 + k) = m (src + k))
      ∧ (∀ k, k < padOf n → r (p + 16 + n + k) = 0)
      ∧ (∀ a, (a < p ∨ p + 16 + n + padOf n ≤ a) → r a = m a)
      ∧ (∀ j fs, Spec.can.fields[j]? = some fs →
          specGet r p fs.first fs.width = expected Spec.can p m j fs (canOps Spec.can canIdxFull frameId variant n)) := by
  have hvalid : ∀ d ∈ Gen.can.table, d.Valid := by decide
  have hk : ∀ (i : Nat) (name : String) (fs : Spec.FieldSpec) (d : Desc), Spec.can.fieldNamed name = some fs →
      Gen.can.table[i]? = some d → i < 12 → descMatches d fs = true →
      ∀ m p v, setField e Gen.can.table 12 m (some p) i v = setNamed Spec.can m p name v :=
    fun i name fs d h1 h2 h3 h4 m p v => setField_eq_setNamed Spec.can Gen.can.table 12 i name fs d h1 h2 h3 h4 e m p v
  have h := Avtp_Can_CreateAcfMessage_refines e rom glob Gen.can.table tb hrom hvalid hglob (by decide)
    (hk 1 "ACF_MSG_LENGTH" _ _ rfl rfl (by decide) (by decide))
    (hk 2 "PAD" _ _ rfl rfl (by decide) (by decide))
    (hk 5 "EFF" _ _ rfl rfl (by decide) (by decide))
    (hk 7 "FDF" _ _ rfl rfl (by decide) (by decide))
    (hk 11 "CAN_IDENTIFIER" _ _ rfl rfl (by decide) (by decide))
    p frameId src n variant hp0 hpb hf hvar hn hsrc hdis m
  have hlen : (m.read src n).length = n := read_length m n src
  obtain ⟨c1, c2, c3, c4, _⟩ := C06_builder Spec.can canIdxFull can_layout_ok.1 (by decide) m p frameId (m.read src n) variant
    (by rw [hlen]; omega)
  have hH : Spec.can.headerLen = 16 := rfl
  rw [hlen, hH] at c2 c3
  rw [hlen] at c4
  refine ⟨_, h, ?_, c2, c3, c4⟩
  intro k hkn
  have hk' : k < (m.read src n).length := by rw [hlen]; exact hkn
  have := c1 k hk'
  rw [hH] at this
  rw [this]
  exact read_getElem m src n k hkn
end

section
variable (e : Endian) (rom : Nat → Byte) (glob : String → Nat) (tb : Nat)
  (hrom : RomTable rom tb Gen.canBrief.table) (hglob : glob "Avtp_CanBriefFieldDesc" = tb)
include hrom hglob

/-- **C06 on the C text (abbreviated ACF-CAN builder)**, including the returned padded length. -/
theorem C06_code_brief (p frameId src n variant : Nat) (hp0 : p ≠ 0) (hpb : p + 70000 ≤ 18446744073709551616)
    (hf : frameId < 4294967296) (hvar : variant < 4294967296) (hn : n < 65536)
    (hsrc : n = 0 ∨ src ≠ 0) (hdis : n = 0 ∨ p + 8 + n ≤ src ∨ src + n ≤ p + 8) (m : Mem) :
    ∃ r, (callFn (mkEnv e rom glob) 60 "Avtp_CanBrief_SetPayload" [p, frameId, src, n, variant] ⟨m, []⟩).map
          (fun x => (x.1, x.2.mem)) = some (8 + n + padOf n, r)
      ∧ (∀ k, k < n → r (p + 8 + k) = m (src + k))
      ∧ (∀ k, k < padOf n → r (p + 8 + n + k) = 0)
      ∧ (∀ a, (a < p ∨ p + 8 + n + padOf n ≤ a) → r a = m a)
      ∧ (∀ j fs, Spec.canBrief.fields[j]? = some fs →
          specGet r p fs.first fs.width = expected Spec.canBrief p m j fs (canOps Spec.canBrief canIdxBrief frameId variant n)) := by
  have hvalid : ∀ d ∈ Gen.canBrief.table, d.Valid := by decide
  have hk : ∀ (i : Nat) (name : String) (fs : Spec.FieldSpec) (d : Desc), Spec.canBrief.fieldNamed name = some fs →
      Gen.canBrief.table[i]? = some d → i < 11 → descMatches d fs = true →
      ∀ m p v, setField e Gen.canBrief.table 11 m (some p) i v = setNamed Spec.canBrief m p name v :=
    fun i name fs d h1 h2 h3 h4 m p v => setField_eq_setNamed Spec.canBrief Gen.canBrief.table 11 i name fs d h1 h2 h3 h4 e m p v
  have h := Avtp_CanBrief_SetPayload_refines e rom glob Gen.canBrief.table tb hrom hvalid hglob (by decide)
    (hk 1 "ACF_MSG_LENGTH" _ _ rfl rfl (by decide) (by decide))
    (hk 2 "PAD" _ _ rfl rfl (by decide) (by decide))
    (hk 5 "EFF" _ _ rfl rfl (by decide) (by decide))
    (hk 7 "FDF" _ _ rfl rfl (by decide) (by decide))
    (hk 10 "CAN_IDENTIFIER" _ _ rfl rfl (by decide) (by decide))
    p frameId src n variant hp0 hpb hf hvar hn hsrc hdis m
  have hlen : (m.read src n).length = n := read_length m n src
  obtain ⟨c1, c2, c3, c4, c5⟩ := C06_builder Spec.canBrief canIdxBrief can_layout_ok.2 (by decide) m p frameId (m.read src n) variant
    (by rw [hlen]; omega)
  have hH : Spec.canBrief.headerLen = 8 := rfl
  rw [hlen, hH] at c2 c3 c5
  rw [hlen] at c4
  rw [c5] at h
  refine ⟨_, h, ?_, c2, c3, c4⟩
  intro k hkn
  have hk' : k < (m.read src n).length := by rw [hlen]; exact hkn
  have := c1 k hk'
  rw [hH] at this
  rw [this]
  exact read_getElem m src n k hkn
end

/-! ### non-vacuity: the regenerated tables can be laid out as read-only data, so the hypotheses of
    `C06_code`, `C06_code_brief`, `C09_code` are satisfiable (with `glob := fun _ => 4096`) -/
example : RomTable (romOf 4096 Gen.can.table) 4096 Gen.can.table := romOf_table _ _ (by decide) (by decide) (by decide)
example : RomTable (romOf 4096 Gen.canBrief.table) 4096 Gen.canBrief.table := romOf_table _ _ (by decide) (by decide) (by decide)
example : RomTable (romOf 4096 Gen.vss.table) 4096 Gen.vss.table := romOf_table _ _ (by decide) (by decide) (by decide)

end O1722.Refine
