/-
  Refine/PropsVss.lean — C09 for the C TEXT of `Avtp_Vss_Pad` with the table /repo currently
  contains (`Gen.vss.table`, regenerated): composing `Avtp_Vss_Pad_refines` with `C09_pad`.
  CODE-DEPENDENT.
-/
import O1722.Refine.VssPad
import O1722.Gen.Data
import O1722.Props.Fields
import O1722.Props.Vss
open O1722 O1722.C
namespace O1722.Refine

/-- The generic writer on a table row that matches the Spec's field `name` is the Spec-level
    write of that field. -/
theorem setField_eq_setNamed (s : Spec.FormatSpec) (tbl : List Desc) (n i : Nat) (name : String)
    (fs : Spec.FieldSpec) (d : Desc) (hfs : s.fieldNamed name = some fs) (hrow : tbl[i]? = some d) (hi : i < n)
    (hm : descMatches d fs = true) (e : Endian) (m : Mem) (p v : Nat) :
    setField e tbl n m (some p) i v = setNamed s m p name v := by
  obtain ⟨hv, hb, hs⟩ := descMatches_set d fs hm m p (v % 2 ^ 64)
  rw [setField_spec e tbl n m p i v d hi hrow hv, hs]
  unfold setNamed
  rw [hfs]
  simp only
  rw [specSet_mod]

section
variable (e : Endian) (rom : Nat → Byte) (glob : String → Nat) (tb : Nat)
  (hrom : RomTable rom tb Gen.vss.table) (hglob : glob "Avtp_VssFieldDesc" = tb)
include hrom hglob

/-- **C09 on the C text.**  Finalising a VSS message of any length 12..2044 at any address, over
    any prior memory, on either host byte order: the length field becomes ceil(len/4), the pad
    field the number of bytes added, exactly those bytes are zeroed, nothing else changes. -/
theorem C09_code (p len : Nat) (hp0 : p ≠ 0) (hpb : p + 70000 ≤ 18446744073709551616)
    (h12 : 12 ≤ len) (hmax : len ≤ 2044) (m : Mem) :
    ∃ r, (callFn (mkEnv e rom glob) 40 "Avtp_Vss_Pad" [p, len] ⟨m, []⟩).map (fun x => (x.1, x.2.mem)) = some (0, r)
      ∧ getNamed Spec.vss r p "ACF_MSG_LENGTH" = (len + 3) / 4
      ∧ getNamed Spec.vss r p "PAD" = padOf len
      ∧ (∀ k, k < padOf len → r (p + len + k) = 0)
      ∧ (∀ a, (a < p ∨ (p + 12 ≤ a ∧ a < p + len) ∨ p + len + padOf len ≤ a) → r a = m a) := by
  have hvalid : ∀ d ∈ Gen.vss.table, d.Valid := by decide
  have hlen : ∀ m p v, setField e Gen.vss.table 8 m (some p) 1 v = setNamed Spec.vss m p "ACF_MSG_LENGTH" v :=
    fun m p v => setField_eq_setNamed Spec.vss Gen.vss.table 8 1 "ACF_MSG_LENGTH" _ _ rfl rfl (by decide) (by decide) e m p v
  have hpad : ∀ m p v, setField e Gen.vss.table 8 m (some p) 2 v = setNamed Spec.vss m p "PAD" v :=
    fun m p v => setField_eq_setNamed Spec.vss Gen.vss.table 8 2 "PAD" _ _ rfl rfl (by decide) (by decide) e m p v
  have h := Avtp_Vss_Pad_refines e rom glob Gen.vss.table tb hrom hvalid hglob (by decide) hlen hpad p len hp0 hpb (by omega) m
  obtain ⟨c1, c2, c3, c4, _⟩ := C09_pad m p len h12 hmax
  exact ⟨_, h, c1, c2, c3, c4⟩
end

end O1722.Refine
