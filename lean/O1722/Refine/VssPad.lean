/-
  Refine/VssPad.lean — the C text of `Avtp_Vss_Pad` (Gen/Cir.lean under CSem/Eval.lean) leaves
  exactly the memory the hand Model `vssPad 1` describes (C09), for every message length, PDU
  address, prior memory and host byte order.  The two facts linking the C table
  `Avtp_VssFieldDesc` to the Spec's field names (`hlen`, `hpad`) are instance obligations proved
  from the regenerated table in Gen/InstC09.  CODE-DEPENDENT.
-/
import O1722.Refine.Forward
import O1722.Model.Vss
open O1722 O1722.C
namespace O1722.Refine
open Gen.Cir

set_option maxRecDepth 16384 in
theorem find_Vss_Pad (e : Endian) : findFn (Gen.Cir.prog e) "Avtp_Vss_Pad" = some Gen.Cir.Avtp_Vss_Pad := by
  cases e <;> rfl
set_option maxRecDepth 16384 in
theorem find_Vss_SetField (e : Endian) : findFn (Gen.Cir.prog e) "Avtp_Vss_SetField" = some Gen.Cir.Avtp_Vss_SetField := by
  cases e <;> rfl

theorem write_replicate_zero (m : Mem) (a k : Nat) :
    m.write a (List.replicate k (0 : Byte)) = zeroFill m a k := by
  funext x
  rw [Mem.write_apply]
  unfold zeroFill
  by_cases h : a ≤ x ∧ x < a + k
  · have h' : a ≤ x ∧ x < a + (List.replicate k (0 : Byte)).length := by simpa using h
    rw [dif_pos h', if_pos h]; simp
  · have h' : ¬ (a ≤ x ∧ x < a + (List.replicate k (0 : Byte)).length) := by simpa using h
    rw [dif_neg h', if_neg h]

section
variable (e : Endian) (rom : Nat → Byte) (glob : String → Nat) (tbl : List Desc) (tb : Nat)
  (hrom : RomTable rom tb tbl) (hvalid : ∀ d ∈ tbl, d.Valid)
  (hglob : glob "Avtp_VssFieldDesc" = tb) (hNl : 8 ≤ tbl.length)
  (hlen : ∀ m p v, setField e tbl 8 m (some p) 1 v = setNamed Spec.vss m p "ACF_MSG_LENGTH" v)
  (hpad : ∀ m p v, setField e tbl 8 m (some p) 2 v = setNamed Spec.vss m p "PAD" v)
include hrom hvalid hglob hNl hlen hpad

theorem Avtp_Vss_Pad_refines (p len : Nat) (hp0 : p ≠ 0) (hpb : p + 70000 ≤ 18446744073709551616)
    (hl : len < 65536) (m : Mem) :
    (callFn (mkEnv e rom glob) 40 "Avtp_Vss_Pad" [p, len] ⟨m, []⟩).map (fun r => (r.1, r.2.mem))
      = some (0, vssPad 1 m p len) := by
  have hpdu : ∀ q, some p = some q → q ≠ 0 ∧ q + 1024 ≤ 18446744073709551616 := by
    intro q hq; cases hq; exact ⟨hp0, by omega⟩
  unfold callFn
  rw [mkEnv_prog, find_Vss_Pad]
  simp only [Avtp_Vss_Pad, Avtp_Vss_Pad_body]
  -- padSize
  have hr : len % 4 < 4 := Nat.mod_lt _ (by decide)
  have e0 : exec (mkEnv e rom glob) 39 Avtp_Vss_Pad_s0 (mkFrame [p, len]) ⟨m, []⟩
      = some (.next, upd (mkFrame [p, len]) 2 ((4 - len % 4) % 4), ⟨m, []⟩) := by
    apply set_eval (f := 38)
    simp (disch := omega) [evalE, csem, Ty.bits, Nat.mod_eq_of_lt]
  show Option.map _ (Option.map _ (exec (mkEnv e rom glob) (39 + 1) _ _ _)) = _
  rw [seq_next e0]
  -- zero fill
  have e1 : exec (mkEnv e rom glob) 38 Avtp_Vss_Pad_s1 (upd (mkFrame [p, len]) 2 ((4 - len % 4) % 4)) ⟨m, []⟩
      = some (.next, upd (mkFrame [p, len]) 2 ((4 - len % 4) % 4),
          ⟨if len % 4 ≠ 0 then zeroFill m (p + len) ((4 - len % 4) % 4) else m,
           if len % 4 ≠ 0 then [⟨p + len, (4 - len % 4) % 4, 1, true⟩] else []⟩) := by
    unfold Avtp_Vss_Pad_s1
    by_cases hz : len % 4 = 0
    · have hc : evalE (mkEnv e rom glob) (upd (mkFrame [p, len]) 2 ((4 - len % 4) % 4))
          (.bin .rem .i32 (.cast .u16 .i32 (.var 1)) (.lit 4)) = some 0 := by
        simp (disch := omega) [evalE, upd, csem, Ty.bits, Nat.mod_eq_of_lt, hz]
      rw [ite_false (f := 37) hc]; simp [exec, hz]
    · have hc : evalE (mkEnv e rom glob) (upd (mkFrame [p, len]) 2 ((4 - len % 4) % 4))
          (.bin .rem .i32 (.cast .u16 .i32 (.var 1)) (.lit 4)) = some (len % 4) := by
        simp (disch := omega) [evalE, upd, csem, Ty.bits, Nat.mod_eq_of_lt]
      rw [ite_true (f := 37) hc hz]
      have hpl : p + len ≠ 0 := by omega
      simp (disch := omega) [exec, evalE, upd, csem, Ty.bits, Nat.mod_eq_of_lt, hz, hpl]
      exact ⟨by omega, write_replicate_zero _ _ _⟩
  rw [seq_next e1]
  -- the two field writes
  have hs2 := call_fwdSet e rom glob tbl tb hrom hvalid "Avtp_Vss_SetField" "Avtp_VssFieldDesc" 8 Avtp_Vss_SetField
    (find_Vss_SetField e) rfl hglob (by decide) hNl 36 (by decide) (upd (mkFrame [p, len]) 2 ((4 - len % 4) % 4))
    [.var 0, .cast .i32 .u32 (.lit 1), .bin .div .u64 (.cast .i32 .u64 (.bin .add .i32 (.cast .u16 .i32 (.var 1)) (.cast .u8 .i32 (.var 2)))) (.cast .i32 .u64 (.lit 4))]
    none 1 ((len + (4 - len % 4) % 4) / 4) (some p)
    (by simp (disch := omega) [evalArgs, evalE, upd, csem, Ty.bits, Nat.mod_eq_of_lt])
    (by decide) (by omega) hpdu
  unfold Avtp_Vss_Pad_s2
  rw [seq_next (hs2 _ _)]
  simp only [setDst]
  have hs3 := call_fwdSet e rom glob tbl tb hrom hvalid "Avtp_Vss_SetField" "Avtp_VssFieldDesc" 8 Avtp_Vss_SetField
    (find_Vss_SetField e) rfl hglob (by decide) hNl 36 (by decide) (upd (mkFrame [p, len]) 2 ((4 - len % 4) % 4))
    [.var 0, .cast .i32 .u32 (.lit 2), .cast .u8 .u64 (.var 2)]
    none 2 ((4 - len % 4) % 4) (some p)
    (by simp (disch := omega) [evalArgs, evalE, upd, csem, Ty.bits, Nat.mod_eq_of_lt])
    (by decide) (by omega) hpdu
  unfold Avtp_Vss_Pad_s3
  rw [hs3 _ _]
  simp only [Option.map, setDst, setFieldLogFrom_mem, hlen, hpad]
  congr 2
  unfold vssPad
  simp only [Nat.mod_eq_of_lt hl, Nat.one_mul]
  have h4 : (4 - len % 4) % 4 % 256 = (4 - len % 4) % 4 := by omega
  rw [h4]
end

end O1722.Refine
