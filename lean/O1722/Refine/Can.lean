/-
  Refine/Can.lean — the C text of the ACF-CAN builders `Avtp_Can_SetPayload`, `Avtp_Can_Finalize`
  and `Avtp_Can_CreateAcfMessage` (Gen/Cir.lean under CSem/Eval.lean, calling `Avtp_Can_SetField`
  → `Avtp_SetField`) leaves exactly the memory the hand Model `canCreate Spec.can` describes (C06),
  for every identifier, variant, payload length and content, PDU address, prior memory and host
  byte order.  The facts linking rows of the C table `Avtp_CanFieldDesc` to the Spec's field names
  are hypotheses here and instance obligations (regenerated table) in Refine/PropsCan.lean.
  CODE-DEPENDENT.
-/
import O1722.Refine.VssPad
import O1722.Model.Can
open O1722 O1722.C
namespace O1722.Refine
open Gen.Cir

set_option maxRecDepth 16384 in
theorem find_Can_Finalize (e : Endian) : findFn (Gen.Cir.prog e) "Avtp_Can_Finalize" = some Gen.Cir.Avtp_Can_Finalize := by
  cases e <;> rfl
set_option maxRecDepth 16384 in
theorem find_Can_SetField (e : Endian) : findFn (Gen.Cir.prog e) "Avtp_Can_SetField" = some Gen.Cir.Avtp_Can_SetField := by
  cases e <;> rfl
set_option maxRecDepth 16384 in
theorem find_Can_SetPayload (e : Endian) : findFn (Gen.Cir.prog e) "Avtp_Can_SetPayload" = some Gen.Cir.Avtp_Can_SetPayload := by
  cases e <;> rfl
set_option maxRecDepth 16384 in
theorem find_Can_Create (e : Endian) : findFn (Gen.Cir.prog e) "Avtp_Can_CreateAcfMessage" = some Gen.Cir.Avtp_Can_CreateAcfMessage := by
  cases e <;> rfl

theorem read_length (m : Mem) : ∀ (n a : Nat), (m.read a n).length = n := by
  intro n
  induction n with
  | zero => intro a; rfl
  | succ n ih => intro a; simp [Mem.read, ih]

theorem read_getElem (m : Mem) : ∀ (a n k : Nat) (hk : k < n), (m.read a n)[k]'(by rw [read_length]; exact hk) = m (a + k) := by
  intro a n
  induction n generalizing a with
  | zero => intro k hk; omega
  | succ n ih =>
    intro k hk
    cases k with
    | zero => simp [Mem.read]
    | succ k =>
      simp only [Mem.read, List.getElem_cons_succ]
      rw [ih (a + 1) k (by omega)]
      congr 1; omega

/-- From "value and memory" to the full result with some access log. -/
theorem exists_log_of_map {o : Option (Nat × St)} {v : Nat} {mem : Mem}
    (h : o.map (fun r => (r.1, r.2.mem)) = some (v, mem)) : ∃ log, o = some (v, ⟨mem, log⟩) := by
  cases o with
  | none => simp at h
  | some r =>
    obtain ⟨v', ⟨mem', log'⟩⟩ := r
    simp at h
    obtain ⟨h1, h2⟩ := h
    subst h1; subst h2
    exact ⟨log', rfl⟩

section
variable (e : Endian) (rom : Nat → Byte) (glob : String → Nat) (tbl : List Desc) (tb : Nat)
  (hrom : RomTable rom tb tbl) (hvalid : ∀ d ∈ tbl, d.Valid)
  (hglob : glob "Avtp_CanFieldDesc" = tb) (hNl : 12 ≤ tbl.length)
  (hlen : ∀ m p v, setField e tbl 12 m (some p) 1 v = setNamed Spec.can m p "ACF_MSG_LENGTH" v)
  (hpad : ∀ m p v, setField e tbl 12 m (some p) 2 v = setNamed Spec.can m p "PAD" v)
include hrom hvalid hglob hNl hlen hpad

theorem Avtp_Can_Finalize_mem (p len : Nat) (hp0 : p ≠ 0) (hpb : p + 70000 ≤ 18446744073709551616)
    (hl : len < 65536) (m : Mem) (l0 : List Access) :
    (callFn (mkEnv e rom glob) 40 "Avtp_Can_Finalize" [p, len] ⟨m, l0⟩).map (fun r => (r.1, r.2.mem))
      = some (0, (canFinalize Spec.can m p len).1) := by
  have hpdu : ∀ q, some p = some q → q ≠ 0 ∧ q + 1024 ≤ 18446744073709551616 := by
    intro q hq; cases hq; exact ⟨hp0, by omega⟩
  have hH : Spec.can.headerLen = 16 := rfl
  unfold callFn
  rw [mkEnv_prog, find_Can_Finalize]
  simp only [Avtp_Can_Finalize, Avtp_Can_Finalize_body]
  have hr : len % 4 < 4 := Nat.mod_lt _ (by decide)
  have e0 : exec (mkEnv e rom glob) 39 Avtp_Can_Finalize_s0 (mkFrame [p, len]) ⟨m, l0⟩
      = some (.next, upd (mkFrame [p, len]) 3 (16 + len), ⟨m, l0⟩) := by
    apply set_eval (f := 38)
    simp (disch := omega) [evalE, csem, Ty.bits, Nat.mod_eq_of_lt]
  have e1 : exec (mkEnv e rom glob) 38 Avtp_Can_Finalize_s1 (upd (mkFrame [p, len]) 3 (16 + len)) ⟨m, l0⟩
      = some (.next, upd (upd (mkFrame [p, len]) 3 (16 + len)) 2 (4 - len % 4), ⟨m, l0⟩) := by
    apply set_eval (f := 37)
    simp (disch := omega) [evalE, upd, csem, Ty.bits, Nat.mod_eq_of_lt]
  show Option.map _ (Option.map _ (exec (mkEnv e rom glob) (39 + 1) _ _ _)) = _
  rw [seq_next e0, seq_next e1]
  by_cases hz : len % 4 = 0
  · -- no padding
    have e2 : exec (mkEnv e rom glob) 37 Avtp_Can_Finalize_s2 (upd (upd (mkFrame [p, len]) 3 (16 + len)) 2 (4 - len % 4)) ⟨m, l0⟩
        = some (.next, upd (upd (mkFrame [p, len]) 3 (16 + len)) 2 (4 - len % 4), ⟨m, l0⟩) := by
      unfold Avtp_Can_Finalize_s2
      have hc : evalE (mkEnv e rom glob) (upd (upd (mkFrame [p, len]) 3 (16 + len)) 2 (4 - len % 4))
          (.bin .rem .i32 (.cast .u16 .i32 (.var 1)) (.lit 4)) = some 0 := by
        simp (disch := omega) [evalE, upd, csem, Ty.bits, Nat.mod_eq_of_lt, hz]
      rw [ite_false (f := 36) hc]; simp [exec]
    rw [seq_next e2]
    have hs3 := call_fwdSet e rom glob tbl tb hrom hvalid "Avtp_Can_SetField" "Avtp_CanFieldDesc" 12 Avtp_Can_SetField
      (find_Can_SetField e) rfl hglob (by decide) hNl 35 (by decide) (upd (upd (mkFrame [p, len]) 3 (16 + len)) 2 (4 - len % 4))
      [.var 0, .cast .i32 .u32 (.lit 1), .bin .div .u64 (.cast .u32 .u64 (.var 3)) (.cast .i32 .u64 (.lit 4))]
      none 1 ((16 + len) / 4) (some p)
      (by simp (disch := omega) [evalArgs, evalE, upd, csem, Ty.bits, Nat.mod_eq_of_lt])
      (by decide) (by omega) hpdu
    unfold Avtp_Can_Finalize_s3
    rw [seq_next (hs3 _ _)]
    simp only [setDst]
    have hs4 := call_fwdSet e rom glob tbl tb hrom hvalid "Avtp_Can_SetField" "Avtp_CanFieldDesc" 12 Avtp_Can_SetField
      (find_Can_SetField e) rfl hglob (by decide) hNl 35 (by decide) (upd (upd (mkFrame [p, len]) 3 (16 + len)) 2 (4 - len % 4))
      [.var 0, .cast .i32 .u32 (.lit 2), .cast .u8 .u64 (.var 2)]
      none 2 (4 - len % 4) (some p)
      (by simp (disch := omega) [evalArgs, evalE, upd, csem, Ty.bits, Nat.mod_eq_of_lt])
      (by decide) (by omega) hpdu
    unfold Avtp_Can_Finalize_s4
    rw [hs4 _ _]
    simp only [Option.map, setDst, setFieldLogFrom_mem, hlen, hpad]
    congr 2
    unfold canFinalize
    simp (disch := omega) [hH, hz, Nat.mod_eq_of_lt]
  · -- padding
    have hpl : p + 16 + len ≠ 0 := by omega
    have e2 : exec (mkEnv e rom glob) 37 Avtp_Can_Finalize_s2 (upd (upd (mkFrame [p, len]) 3 (16 + len)) 2 (4 - len % 4)) ⟨m, l0⟩
        = some (.next, upd (upd (upd (mkFrame [p, len]) 3 (16 + len)) 2 (4 - len % 4)) 3 (16 + len + (4 - len % 4)),
            ⟨zeroFill m (p + 16 + len) (4 - len % 4), l0 ++ [⟨p + 16 + len, 4 - len % 4, 1, true⟩]⟩) := by
      unfold Avtp_Can_Finalize_s2
      have hc : evalE (mkEnv e rom glob) (upd (upd (mkFrame [p, len]) 3 (16 + len)) 2 (4 - len % 4))
          (.bin .rem .i32 (.cast .u16 .i32 (.var 1)) (.lit 4)) = some (len % 4) := by
        simp (disch := omega) [evalE, upd, csem, Ty.bits, Nat.mod_eq_of_lt]
      rw [ite_true (f := 36) hc hz]
      simp (disch := omega) [exec, evalE, upd, csem, Ty.bits, Nat.mod_eq_of_lt, hz, hpl]
      exact write_replicate_zero _ _ _
    rw [seq_next e2]
    have hs3 := call_fwdSet e rom glob tbl tb hrom hvalid "Avtp_Can_SetField" "Avtp_CanFieldDesc" 12 Avtp_Can_SetField
      (find_Can_SetField e) rfl hglob (by decide) hNl 35 (by decide)
      (upd (upd (upd (mkFrame [p, len]) 3 (16 + len)) 2 (4 - len % 4)) 3 (16 + len + (4 - len % 4)))
      [.var 0, .cast .i32 .u32 (.lit 1), .bin .div .u64 (.cast .u32 .u64 (.var 3)) (.cast .i32 .u64 (.lit 4))]
      none 1 ((16 + len + (4 - len % 4)) / 4) (some p)
      (by simp (disch := omega) [evalArgs, evalE, upd, csem, Ty.bits, Nat.mod_eq_of_lt])
      (by decide) (by omega) hpdu
    unfold Avtp_Can_Finalize_s3
    rw [seq_next (hs3 _ _)]
    simp only [setDst]
    have hs4 := call_fwdSet e rom glob tbl tb hrom hvalid "Avtp_Can_SetField" "Avtp_CanFieldDesc" 12 Avtp_Can_SetField
      (find_Can_SetField e) rfl hglob (by decide) hNl 35 (by decide)
      (upd (upd (upd (mkFrame [p, len]) 3 (16 + len)) 2 (4 - len % 4)) 3 (16 + len + (4 - len % 4)))
      [.var 0, .cast .i32 .u32 (.lit 2), .cast .u8 .u64 (.var 2)]
      none 2 (4 - len % 4) (some p)
      (by simp (disch := omega) [evalArgs, evalE, upd, csem, Ty.bits, Nat.mod_eq_of_lt])
      (by decide) (by omega) hpdu
    unfold Avtp_Can_Finalize_s4
    rw [hs4 _ _]
    simp only [Option.map, setDst, setFieldLogFrom_mem, hlen, hpad]
    congr 2
    unfold canFinalize
    simp (disch := omega) [hH, hz, Nat.mod_eq_of_lt]
end

section
variable (e : Endian) (rom : Nat → Byte) (glob : String → Nat)

theorem Avtp_Can_SetPayload_call (g : Nat) (hg : 2 ≤ g) (p src n : Nat) (hp0 : p ≠ 0) (hpb : p + 70000 ≤ 18446744073709551616)
    (hn : n < 65536) (hsrc : n = 0 ∨ src ≠ 0) (hdis : n = 0 ∨ p + 16 + n ≤ src ∨ src + n ≤ p + 16)
    (m : Mem) (l0 : List Access) :
    callFn (mkEnv e rom glob) g "Avtp_Can_SetPayload" [p, src, n] ⟨m, l0⟩
      = some (0, ⟨m.write (p + 16) (m.read src n), l0 ++ [⟨src, n, 1, false⟩, ⟨p + 16, n, 1, true⟩]⟩) := by
  apply callFn_le _ hg
  unfold callFn
  rw [mkEnv_prog, find_Can_SetPayload]
  simp only [Avtp_Can_SetPayload, Avtp_Can_SetPayload_body, Avtp_Can_SetPayload_s0]
  have h16 : p + 16 ≠ 0 := by omega
  have hd : disjointRanges (p + 16) src n = true := by
    simp only [disjointRanges, decide_eq_true_eq]; omega
  rcases hsrc with h0 | hs
  · subst h0
    simp (disch := omega) [exec, evalE, csem, Ty.bits, Nat.mod_eq_of_lt, hd]
  · simp (disch := omega) [exec, evalE, csem, Ty.bits, Nat.mod_eq_of_lt, hd, hs, h16]
end

section
variable (e : Endian) (rom : Nat → Byte) (glob : String → Nat) (tbl : List Desc) (tb : Nat)
  (hrom : RomTable rom tb tbl) (hvalid : ∀ d ∈ tbl, d.Valid)
  (hglob : glob "Avtp_CanFieldDesc" = tb) (hNl : 12 ≤ tbl.length)
  (hlen : ∀ m p v, setField e tbl 12 m (some p) 1 v = setNamed Spec.can m p "ACF_MSG_LENGTH" v)
  (hpad : ∀ m p v, setField e tbl 12 m (some p) 2 v = setNamed Spec.can m p "PAD" v)
  (heff : ∀ m p v, setField e tbl 12 m (some p) 5 v = setNamed Spec.can m p "EFF" v)
  (hfdf : ∀ m p v, setField e tbl 12 m (some p) 7 v = setNamed Spec.can m p "FDF" v)
  (hid : ∀ m p v, setField e tbl 12 m (some p) 11 v = setNamed Spec.can m p "CAN_IDENTIFIER" v)
include hrom hvalid hglob hNl hlen hpad heff hfdf hid

/-- `Avtp_Can_CreateAcfMessage(pdu, frame_id, payload, payload_length, can_variant)` as written in
    /repo leaves the memory of the Model builder; the payload is the `n` bytes at `src`. -/
theorem Avtp_Can_CreateAcfMessage_refines (p frameId src n variant : Nat) (hp0 : p ≠ 0)
    (hpb : p + 70000 ≤ 18446744073709551616) (hf : frameId < 4294967296) (hvar : variant < 4294967296)
    (hn : n < 65536) (hsrc : n = 0 ∨ src ≠ 0) (hdis : n = 0 ∨ p + 16 + n ≤ src ∨ src + n ≤ p + 16) (m : Mem) :
    (callFn (mkEnv e rom glob) 60 "Avtp_Can_CreateAcfMessage" [p, frameId, src, n, variant] ⟨m, []⟩).map
        (fun r => (r.1, r.2.mem))
      = some (0, (canCreate Spec.can m p frameId (m.read src n) variant).1) := by
  have hpdu : ∀ q, some p = some q → q ≠ 0 ∧ q + 1024 ≤ 18446744073709551616 := by
    intro q hq; cases hq; exact ⟨hp0, by omega⟩
  have hH : Spec.can.headerLen = 16 := rfl
  unfold callFn
  rw [mkEnv_prog, find_Can_Create]
  simp only [Avtp_Can_CreateAcfMessage, Avtp_Can_CreateAcfMessage_body]
  -- payload
  have c0 := exec_call_of_callFn (env := mkEnv e rom glob) (g := 58) (dst := none) (fn := "Avtp_Can_SetPayload")
    (args := [.var 0, .var 2, .var 3]) (L := mkFrame [p, frameId, src, n, variant]) (s := ⟨m, []⟩)
    (vs := [p, src, n]) (by simp [evalArgs, evalE])
    (Avtp_Can_SetPayload_call e rom glob 58 (by decide) p src n hp0 hpb hn hsrc hdis m [])
  show Option.map _ (Option.map _ (exec (mkEnv e rom glob) (59 + 1) _ _ _)) = _
  unfold Avtp_Can_CreateAcfMessage_s0
  rw [seq_next c0]
  simp only [setDst]
  -- eff
  have e1 : ∀ st : St, exec (mkEnv e rom glob) 58 Avtp_Can_CreateAcfMessage_s1 (mkFrame [p, frameId, src, n, variant]) st
      = some (.next, upd (mkFrame [p, frameId, src, n, variant]) 5 (if frameId > 0x7ff then 1 else 0), st) := by
    intro st
    apply set_eval (f := 57)
    by_cases hgt : frameId > 2047
    · simp (disch := omega) [evalE, csem, Ty.bits, Nat.mod_eq_of_lt, hgt]
    · simp (disch := omega) [evalE, csem, Ty.bits, Nat.mod_eq_of_lt, hgt]
  rw [seq_next (e1 _)]
  have heffv : (if frameId > 0x7ff then 1 else 0 : Nat) < 2 := by split <;> omega
  have hs2 := call_fwdSet e rom glob tbl tb hrom hvalid "Avtp_Can_SetField" "Avtp_CanFieldDesc" 12 Avtp_Can_SetField
    (find_Can_SetField e) rfl hglob (by decide) hNl 56 (by decide)
    (upd (mkFrame [p, frameId, src, n, variant]) 5 (if frameId > 0x7ff then 1 else 0))
    [.var 0, .cast .i32 .u32 (.lit 5), .cast .i32 .u64 (.var 5)]
    none 5 (if frameId > 0x7ff then 1 else 0) (some p)
    (by by_cases hgt : 2047 < frameId <;> simp (disch := omega) [evalArgs, evalE, upd, csem, Ty.bits, Nat.mod_eq_of_lt, hgt])
    (by decide) (by omega) hpdu
  unfold Avtp_Can_CreateAcfMessage_s2
  rw [seq_next (hs2 _ _)]
  simp only [setDst]
  have hs3 := call_fwdSet e rom glob tbl tb hrom hvalid "Avtp_Can_SetField" "Avtp_CanFieldDesc" 12 Avtp_Can_SetField
    (find_Can_SetField e) rfl hglob (by decide) hNl 55 (by decide)
    (upd (mkFrame [p, frameId, src, n, variant]) 5 (if frameId > 0x7ff then 1 else 0))
    [.var 0, .cast .i32 .u32 (.lit 11), .cast .u32 .u64 (.var 1)]
    none 11 frameId (some p)
    (by simp (disch := omega) [evalArgs, evalE, upd, csem, Ty.bits, Nat.mod_eq_of_lt])
    (by decide) (by omega) hpdu
  unfold Avtp_Can_CreateAcfMessage_s3
  rw [seq_next (hs3 _ _)]
  simp only [setDst]
  have hs4 := call_fwdSet e rom glob tbl tb hrom hvalid "Avtp_Can_SetField" "Avtp_CanFieldDesc" 12 Avtp_Can_SetField
    (find_Can_SetField e) rfl hglob (by decide) hNl 54 (by decide)
    (upd (mkFrame [p, frameId, src, n, variant]) 5 (if frameId > 0x7ff then 1 else 0))
    [.var 0, .cast .i32 .u32 (.lit 7), .cast .u8 .u64 (.cast .u32 .u8 (.var 4))]
    none 7 (variant % 256) (some p)
    (by simp (disch := omega) [evalArgs, evalE, upd, csem, Ty.bits, Nat.mod_eq_of_lt])
    (by decide) (by omega) hpdu
  unfold Avtp_Can_CreateAcfMessage_s4
  rw [seq_next (hs4 _ _)]
  simp only [setDst]
  -- finalize
  obtain ⟨logF, hF⟩ := exists_log_of_map
    (Avtp_Can_Finalize_mem e rom glob tbl tb hrom hvalid hglob hNl hlen hpad p n hp0 hpb hn _ _)
  have c5 := exec_call_of_callFn (env := mkEnv e rom glob) (g := 54) (dst := none) (fn := "Avtp_Can_Finalize")
    (args := [.var 0, .var 3]) (L := upd (mkFrame [p, frameId, src, n, variant]) 5 (if frameId > 0x7ff then 1 else 0))
    (vs := [p, n]) (by simp [evalArgs, evalE, upd]) (callFn_le _ (by decide : 40 ≤ 54) hF)
  unfold Avtp_Can_CreateAcfMessage_s5
  rw [c5]
  simp only [Option.map, setDst, setFieldLogFrom_mem, heff, hid, hfdf]
  congr 2
  unfold canCreate canSetPayload
  simp [hH, read_length]
end

end O1722.Refine
