/-
  Driver/Ops.lean — the operation language shared with the C harness, interpreted over the
  Spec and the hand Models.  One operation per line; results are canonical text.
-/
import O1722.Spec.Wire
import O1722.Spec.Formats
import O1722.Model.Utils
import O1722.Model.Can
import O1722.Model.Vss
import O1722.Model.Tunnel
import O1722.Model.Listeners

namespace O1722.Driver
open O1722 O1722.Spec

structure State where
  bufs : List (String × Array UInt8)
  /-- example CAN tunnel: configuration, frames per packet, queued frames (with their
      timestamps), packets produced, sequence counters, virtual clock -/
  tun : TunnelCfg := ⟨false, false, false⟩
  crf : CrfState := {}
  crft : CrfTalkerState := {}
  count : Nat := 1
  frames : List (Nat × CanFrame) := []
  pkts : List (List Byte) := []
  seq : Nat := 0
  udpSeq : Nat := 0
  clock : Nat := 1000
  dgrams : List (List Byte) := []

def State.empty : State := { bufs := [] }

def State.get (s : State) (id : String) : Option (Array UInt8) := s.bufs.lookup id

def State.put (s : State) (id : String) (a : Array UInt8) : State :=
  { s with bufs := (id, a) :: s.bufs.filter (fun p => p.1 != id) }

def hexDigit (c : Char) : Option Nat :=
  if '0' ≤ c ∧ c ≤ '9' then some (c.toNat - '0'.toNat)
  else if 'a' ≤ c ∧ c ≤ 'f' then some (c.toNat - 'a'.toNat + 10)
  else if 'A' ≤ c ∧ c ≤ 'F' then some (c.toNat - 'A'.toNat + 10)
  else none

def parseHex (s : String) : Option (Array UInt8) :=
  let rec go : List Char → Array UInt8 → Option (Array UInt8)
    | [], acc => some acc
    | [_], _ => none
    | a :: b :: rest, acc =>
      match hexDigit a, hexDigit b with
      | some x, some y => go rest (acc.push (UInt8.ofNat (16 * x + y)))
      | _, _ => none
  if s == "-" then some #[] else go s.toList #[]

def hexChar (n : Nat) : Char :=
  if n < 10 then Char.ofNat ('0'.toNat + n) else Char.ofNat ('a'.toNat + n - 10)

def toHex (a : Array UInt8) : String :=
  if a.isEmpty then "-" else
  String.ofList (a.toList.flatMap (fun b => [hexChar (b.toNat / 16), hexChar (b.toNat % 16)]))

/-- An array as a total memory (zero outside). -/
def memOf (a : Array UInt8) : Mem := fun i => Fin.ofNat 256 (a.getD i 0).toNat

def arrOf (m : Mem) (n : Nat) : Array UInt8 := (Array.range n).map (fun i => UInt8.ofNat (m i).val)

def findFormat (name : String) : Option FormatSpec := Spec.all.find? (fun s => s.name == name)

def endianOf (s : String) : Endian := if s == "B" then .big else .little

def jsonStr (s : String) : String := "\"" ++ s ++ "\""

def specJson : String :=
  let fmt (s : FormatSpec) : String :=
    let fields := s.fields.map (fun fs =>
      "{\"enum\":" ++ jsonStr fs.enumName ++ ",\"acc\":" ++ jsonStr fs.acc
        ++ ",\"first\":" ++ toString fs.first ++ ",\"width\":" ++ toString fs.width
        ++ ",\"getter\":" ++ jsonStr (if fs.acc == "" then "" else s.getterName fs)
        ++ ",\"setter\":" ++ jsonStr (if fs.acc == "" then "" else s.setterName fs) ++ "}")
    let consts := s.initConsts.map (fun (n, v) => "[" ++ jsonStr (s.enumPrefix ++ n) ++ "," ++ toString v ++ "]")
    "{\"name\":" ++ jsonStr s.name ++ ",\"file\":" ++ jsonStr s.file
      ++ ",\"enumPrefix\":" ++ jsonStr s.enumPrefix ++ ",\"maxEnum\":" ++ jsonStr s.maxEnum
      ++ ",\"fnPrefix\":" ++ jsonStr s.fnPrefix ++ ",\"headerType\":" ++ jsonStr s.headerType
      ++ ",\"lenMacro\":" ++ jsonStr s.lenMacro ++ ",\"headerLen\":" ++ toString s.headerLen
      ++ ",\"initFn\":" ++ jsonStr s.initFn
      ++ ",\"legacy\":" ++ (match s.legacy with
          | none => "null"
          | some l => "{\"getFn\":" ++ jsonStr l.getFn ++ ",\"setFn\":" ++ jsonStr l.setFn
              ++ ",\"initFn\":" ++ jsonStr l.initFn ++ ",\"valBits\":" ++ toString l.valBits
              ++ ",\"initArg\":" ++ jsonStr l.initArg
              ++ ",\"aliases\":[" ++ ",".intercalate (l.aliases.map (fun (a, b) => "[" ++ jsonStr a ++ "," ++ jsonStr (s.enumPrefix ++ b) ++ "]")) ++ "]"
              ++ ",\"structs\":[" ++ ",".intercalate (l.structs.map (fun (a, b, c) => "[" ++ jsonStr a ++ "," ++ toString b ++ "," ++ toString c ++ "]")) ++ "]}")
      ++ ",\"initConsts\":[" ++ ",".intercalate consts ++ "]"
      ++ ",\"fields\":[" ++ ",".intercalate fields ++ "]}"
  "{\"formats\":[" ++ ",\n".intercalate (Spec.all.map fmt) ++ "]}"

/-- shared views as indices into each format's field list -/
def viewsJson : String :=
  let one (v : SharedView) : String :=
    let pairs := (viewPairs v).filterMap (fun p => p.bind (fun (fa, fb) =>
      match v.a.fields.idxOf? fa, v.b.fields.idxOf? fb with
      | some i, some j => some s!"[{i},{j}]"
      | _, _ => none))
    "{\"a\":" ++ jsonStr v.a.name ++ ",\"b\":" ++ jsonStr v.b.name ++ ",\"pairs\":[" ++ ",".intercalate pairs ++ "]}"
  "{\"views\":[" ++ ",".intercalate (sharedViews.map one) ++ "]}"

def bytesOf (a : Array UInt8) : List Byte := a.toList.map (fun b => Fin.ofNat 256 b.toNat)
def hexOfBytes (bs : List Byte) : String := toHex (bs.toArray.map (fun b => UInt8.ofNat b.val))

def nat? (s : String) : Option Nat := s.toNat?

/-- Interpret one operation line. Returns the new state and the output line ("" = none). -/
def step (st : State) (line : String) : State × String :=
  match line.trimAscii.toString.splitOn " " with
  | ["buf", id, hex] =>
    match parseHex hex with
    | some a => (st.put id a, "")
    | none => (st, "bad-op")
  | ["dump", id] =>
    match st.get id with
    | some a => (st, "d " ++ toHex a)
    | none => (st, "bad-op")
  -- NULL PDU through a named accessor
  | ["get", "NULL", _, fmt, idx, path] =>
    match findFormat fmt, nat? idx with
    | some s, some idx =>
      if idx < s.fields.length then (st, if path == "l" || path == "a" then "err -22" else "v 0") else (st, "bad-op")
    | _, _ => (st, "bad-op")
  | ["set", "NULL", _, fmt, idx, path, _] =>
    match findFormat fmt, nat? idx with
    | some s, some idx =>
      if idx < s.fields.length then (st, if path == "l" || path == "a" then "err -22" else "") else (st, "bad-op")
    | _, _ => (st, "bad-op")
  | ["init", "NULL", _, _, path] => (st, if path == "l" then "r -22" else "r 0")
  | ["init", "NULL", _, _, path, _] => (st, if path == "l" then "r -22" else "r 0")
  -- reference read of Spec field `idx` of format `fmt` at byte offset `off` of buffer `id`
  | ["get", id, off, fmt, idx, _path] =>
    match st.get id, nat? off, findFormat fmt, nat? idx with
    | some a, some off, some s, some idx =>
      match s.fields[idx]? with
      | some fs => (st, "v " ++ toString (specGet (memOf a) off fs.first fs.width))
      | none => (st, "bad-op")
    | _, _, _, _ => (st, "bad-op")
  | ["set", id, off, fmt, idx, _path, v] =>
    match st.get id, nat? off, findFormat fmt, nat? idx, nat? v with
    | some a, some off, some s, some idx, some v =>
      match s.fields[idx]? with
      | some fs =>
        (st.put id (arrOf (specSet (memOf a) off fs.first fs.width (v % 2 ^ fs.width)) a.size), "")
      | none => (st, "bad-op")
    | _, _, _, _, _ => (st, "bad-op")
  | ["init", id, off, fmt, _path] =>
    match st.get id, nat? off, findFormat fmt with
    | some a, some off, some s =>
      (st.put id (arrOf (s.canonical false 0 (memOf a) off) a.size), "r 0")
    | _, _, _ => (st, "bad-op")
  -- legacy CVF initialiser takes the format subtype
  | ["init", id, off, fmt, _path, arg] =>
    match st.get id, nat? off, findFormat fmt, nat? arg with
    | some a, some off, some s, some arg =>
      (st.put id (arrOf (s.canonical true arg (memOf a) off) a.size), "r 0")
    | _, _, _, _ => (st, "bad-op")
  -- raw Utils.c: the hand MODEL of Avtp_GetField on a one-row table (host order `e`)
  | ["uget", id, off, q, o, b, e] =>
    match st.get id, nat? off, nat? q, nat? o, nat? b with
    | some a, some off, some q, some o, some b =>
      (st, "v " ++ toString (getField (endianOf e) [⟨q, o, b⟩] 1 (memOf a) (some off) 0))
    | _, _, _, _, _ => (st, "bad-op")
  | ["uset", id, off, q, o, b, e, v] =>
    match st.get id, nat? off, nat? q, nat? o, nat? b, nat? v with
    | some a, some off, some q, some o, some b, some v =>
      (st.put id (arrOf (setField (endianOf e) [⟨q, o, b⟩] 1 (memOf a) (some off) 0 v) a.size), "")
    | _, _, _, _, _, _ => (st, "bad-op")
  -- raw reference reader/writer on an explicit bit range
  | ["sget", id, off, s, w] =>
    match st.get id, nat? off, nat? s, nat? w with
    | some a, some off, some s, some w => (st, "v " ++ toString (specGet (memOf a) off s w))
    | _, _, _, _ => (st, "bad-op")
  | ["sset", id, off, s, w, v] =>
    match st.get id, nat? off, nat? s, nat? w, nat? v with
    | some a, some off, some s, some w, some v =>
      (st.put id (arrOf (specSet (memOf a) off s w (v % 2 ^ w)) a.size), "")
    | _, _, _, _, _ => (st, "bad-op")
  -- identifiers outside the enumeration / NULL pointers through the by-identifier entry
  -- points: the Spec's answer is "rejected, nothing written" (only such lines are generated)
  | ["getid", id, _, fmt, fid, path, nullOut] =>
    match findFormat fmt, nat? fid with
    | some s, some fid =>
      if id == "NULL" || s.fields.length ≤ fid || nullOut == "1" then
        let sentinel := match s.legacy with
          | some l => 11936128518282651045 % 2 ^ l.valBits
          | none => 11936128518282651045
        (st, if path == "l" then s!"r -22 v {sentinel}" else "r 0 v 0")
      else (st, "bad-op")
    | _, _ => (st, "bad-op")
  | ["setid", id, _, fmt, fid, path, _] =>
    match findFormat fmt, nat? fid with
    | some s, some fid =>
      if id == "NULL" || s.fields.length ≤ fid then (st, if path == "l" then "r -22" else "r 0")
      else (st, "bad-op")
    | _, _ => (st, "bad-op")
  -- ACF-CAN builders: the hand MODEL of Can.c / CanBrief.c
  | ["can_create", id, off, fmt, fid, variant, hex] =>
    match st.get id, nat? off, findFormat fmt, nat? fid, nat? variant, parseHex hex with
    | some a, some off, some s, some fid, some variant, some pl =>
      let r := canCreate s (memOf a) off (fid % 2 ^ 32) (pl.toList.map (fun b => Fin.ofNat 256 b.toNat)) variant
      (st.put id (arrOf r.1 a.size), if fmt == "Can" then "r -" else s!"r {r.2}")
    | _, _, _, _, _, _ => (st, "bad-op")
  | ["can_setpayload", id, off, hex] =>
    match st.get id, nat? off, parseHex hex with
    | some a, some off, some pl =>
      (st.put id (arrOf (canSetPayload Spec.can (memOf a) off (pl.toList.map (fun b => Fin.ofNat 256 b.toNat))) a.size), "")
    | _, _, _ => (st, "bad-op")
  | ["can_finalize", id, off, fmt, len] =>
    match st.get id, nat? off, findFormat fmt, nat? len with
    | some a, some off, some s, some len =>
      let r := canFinalize s (memOf a) off (len % 2 ^ 16)
      (st.put id (arrOf r.1 a.size), if fmt == "Can" then "r -" else s!"r {r.2}")
    | _, _, _, _ => (st, "bad-op")
  | ["can_len", id, off] =>
    match st.get id, nat? off with
    | some a, some off => (st, s!"v {canPayloadLength Spec.can (memOf a) off}")
    | _, _ => (st, "bad-op")
  -- example CAN tunnel: MODEL of acf-can-talker.c / acf-can-listener.c
  | ["tun", t, u, f, c] =>
    match nat? c with
    | some c => ({ st with tun := ⟨t == "t", u == "u", f == "f"⟩, count := c }, "")
    | none => (st, "bad-op")
  | ["frame", cid, len, flags, hex] =>
    match nat? cid, nat? len, nat? flags, parseHex hex with
    | some cid, some len, some flags, some d =>
      let arr := if st.tun.fd then 64 else 8
      let data := (bytesOf d ++ List.replicate arr (0 : Byte)).take arr
      -- the k-th clock_gettime call of the run returns virtual time 1000 + 7k (ms)
      let v := st.clock
      let ts := (1700000000 + v / 1000) * 1000000000 + (v % 1000) * 1000000
      ({ st with frames := st.frames ++ [(ts, ⟨cid % 2 ^ 32, len % 256, flags % 256, data⟩)], clock := v + 7 }, "")
    | _, _, _, _ => (st, "bad-op")
  | ["talk"] =>
    let r := talkStream st.tun st.count (fun _ _ => 0xAA) (st.frames.length + 1) st.udpSeq st.seq st.frames
    let pk := r.1
    ({ st with pkts := st.pkts ++ pk, frames := [], seq := st.seq + pk.length, udpSeq := st.udpSeq + pk.length },
      "\n".intercalate (pk.map (fun p => "pkt " ++ hexOfBytes p)))
  | ["listen"] =>
    let outs := st.pkts.flatMap (fun p => listenPacket st.tun (recvBuf 0xAA p) p.length)
    ({ st with pkts := [] }, "\n".intercalate (outs.map (fun o => s!"out {o.canId} {o.len} {o.flags} " ++ hexOfBytes o.data)))
  -- example listeners on one raw datagram: MODELS of the receive paths (Model/Tunnel, Model/Listeners).
  -- `stale` is the byte the buffer holds behind the datagram (the results do not depend on it
  -- where the listener checks the received length: C18_*_local)
  | ["rx", "can", t, u, f, hex] =>
    match parseHex hex with
    | some d =>
      let pkt := (bytesOf d).take 1500
      let outs := listenPacket ⟨t == "t", u == "u", f == "f"⟩ (recvBuf 0xAA pkt) pkt.length
      (st, "\n".intercalate (outs.map (fun o => s!"can {o.canId} {o.len} {o.flags} " ++ hexOfBytes o.data)))
    | none => (st, "bad-op")
  | ["rx", "hello", u, hex] =>
    match parseHex hex with
    | some d => let r := recvInto 1500 0xAA (bytesOf d); (st, "out " ++ hexOfBytes (helloRecv (u == "u") r.1 r.2))
    | none => (st, "bad-op")
  | ["rx", "vss", u, hex] =>
    match parseHex hex with
    | some d => let r := recvInto 1500 0xAA (bytesOf d); (st, "out " ++ hexOfBytes (vssRecv (u == "u") r.1 r.2))
    | none => (st, "bad-op")
  | ["rx", "cvf", hex] =>
    match parseHex hex with
    | some d =>
      let r := recvInto CVF_BUF 0x01 (bytesOf d)
      (st, match cvfRecv r.1 r.2 with | some nal => "out " ++ hexOfBytes nal | none => "drop")
    | none => (st, "bad-op")
  | ["rx", "crf", hex] =>
    match parseHex hex with
    | some d => let r := crfListenerStep st.crf (bytesOf d); ({ st with crf := r.1 }, "out " ++ hexOfBytes r.2)
    | none => (st, "bad-op")
  | ["rx", "crft", mtt, hex] =>
    match nat? mtt, parseHex hex with
    | some mtt, some d => ({ st with crft := crfTalkerRecv mtt st.crft (bytesOf d) }, "out -")
    | _, _ => (st, "bad-op")
  | ["crf_fire", k] =>
    match nat? k with
    | some k =>
      if !st.crft.armed then (st, "") else
      let rec go : Nat → CrfTalkerState → List String → CrfTalkerState × List String
        | 0, s, acc => (s, acc)
        | n + 1, s, acc => let r := crfTalkerFire s; go n r.1 (acc ++ ["sent " ++ hexOfBytes r.2])
      let r := go k st.crft []
      ({ st with crft := r.1 }, "\n".intercalate r.2)
    | none => (st, "bad-op")
  | ["rx", "aaf", hex] =>
    match parseHex hex with
    | some d =>
      let r := recvInto AAF_PDU 0x00 (bytesOf d)
      (st, match aafRecv r.1 r.2 with | some smp => "out " ++ hexOfBytes smp | none => "drop")
    | none => (st, "bad-op")
  -- VSS: the hand MODEL of Vss.c (host order little, as the harness host)
  | ["vss_pad", id, off, len] =>
    match st.get id, nat? off, nat? len with
    | some a, some off, some len => (st.put id (arrOf (vssPad 1 (memOf a) off len) a.size), "")
    | _, _, _ => (st, "bad-op")
  | ["vss_calc", id, off] =>
    match st.get id, nat? off with
    | some a, some off => (st, s!"v {vssCalcPathLength .little (memOf a) off}")
    | _, _ => (st, "bad-op")
  | ["vss_setpath", id, off, plen, hex, sid] =>
    match st.get id, nat? off, nat? plen, parseHex hex, nat? sid with
    | some a, some off, some plen, some path, some sid =>
      let p : CPath := ⟨plen % 2 ^ 16, bytesOf path, sid % 2 ^ 32⟩
      (st.put id (arrOf (vssSetPath .little (memOf a) off p) a.size), "")
    | _, _, _, _, _ => (st, "bad-op")
  | ["vss_getpath", id, off] =>
    match st.get id, nat? off with
    | some a, some off =>
      match vssGetPath .little (memOf a) off with
      | .staticId n => (st, s!"sid {n}")
      | .interop n bs => (st, s!"path {n} " ++ hexOfBytes bs)
      | .none => (st, "none")
    | _, _ => (st, "bad-op")
  | ["vss_setdata", id, off, "s", bits] =>
    match st.get id, nat? off, nat? bits with
    | some a, some off, some bits => (st.put id (arrOf (vssSetData .little (memOf a) off (.scalar bits)) a.size), "")
    | _, _, _ => (st, "bad-op")
  | ["vss_setdata", id, off, "b", len, hex] =>
    match st.get id, nat? off, nat? len, parseHex hex with
    | some a, some off, some len, some d =>
      (st.put id (arrOf (vssSetData .little (memOf a) off (.blob (len % 2 ^ 16) (bytesOf d))) a.size), "")
    | _, _, _, _ => (st, "bad-op")
  | ["vss_setdata", id, off, "e", len, vals] =>
    match st.get id, nat? off, nat? len with
    | some a, some off, some len =>
      let xs := if vals == "-" then [] else (vals.splitOn ",").filterMap nat?
      (st.put id (arrOf (vssSetData .little (memOf a) off (.elems (len % 2 ^ 16) xs)) a.size), "")
    | _, _, _ => (st, "bad-op")
  | ["vss_getdata", id, off, hv] =>
    match st.get id, nat? off with
    | some a, some off =>
      match vssGetData .little (memOf a) off (hv == "1") with
      | .scalar b => (st, s!"s {b}")
      | .blob n d => (st, s!"b {n} " ++ (match d with | some bs => hexOfBytes bs | none => "-"))
      | .elems n d => (st, s!"e {n} " ++ (match d with
          | some xs => if xs.isEmpty then "-" else ",".intercalate (xs.map toString)
          | none => "-"))
      | .none => (st, "none")
    | _, _ => (st, "bad-op")
  | "vss_ser" :: cap :: n :: rest =>
    match nat? cap, nat? n with
    | some cap, some n =>
      let rec strs : List String → List (Nat × List Byte)
        | l :: h :: more => (match nat? l, parseHex h with
            | some l, some d => (l % 2 ^ 16, bytesOf d) :: strs more
            | _, _ => strs more)
        | _ => []
      let ss := strs rest
      if ss.length != n then (st, "bad-op") else
      let m0 : Mem := fun _ => 0xEE
      let r := vssSerialize .little m0 0 ss 0
      (st, s!"b {r.2} " ++ toHex (arrOf r.1 cap))
    | _, _ => (st, "bad-op")
  | ["vss_count", len, hex] =>
    match nat? len, parseHex hex with
    | some len, some d => (st, s!"v {(vssCount .little 16 (memOf d) 0 len).1}")
    | _, _ => (st, "bad-op")
  | ["vss_deser", len, hex, num, hv] =>
    match nat? len, parseHex hex, nat? num with
    | some len, some d, some num =>
      let r := (vssDeserialize .little true (memOf d) 0 (len % 2 ^ 16) (List.replicate num (hv == "1")) 0 0).1
      let shown := r.map (fun (l, bs) => s!" {l}:" ++ (match bs with | some b => hexOfBytes b | none => "-"))
      (st, "n" ++ String.join shown ++ String.join (List.replicate (num - r.length) " ."))
    | _, _, _ => (st, "bad-op")
  -- byte-order helpers on a little-endian host (the host the harness runs on)
  | ["bo", h, x] =>
    match nat? x with
    | some x =>
      let e := Endian.little
      let bits := if h.endsWith "16" then 16 else if h.endsWith "32" then 32 else 64
      let x := x % 2 ^ bits
      let r := if h.startsWith "Avtp_Bswap" then
                 (if bits == 16 then bswap16 x else if bits == 32 then bswap32 x else bswap64 x)
               else if h.startsWith "Avtp_CpuToBe" || h.startsWith "Avtp_BeToCpu" then
                 (if bits == 16 then beCpu16 e x else if bits == 32 then beCpu32 e x else beCpu64 e x)
               else
                 (if bits == 16 then leCpu16 e x else if bits == 32 then leCpu32 e x else leCpu64 e x)
      (st, s!"v {r} " ++ toHex ((bytesLE (bits / 8) r).toArray.map (fun b => UInt8.ofNat b.val)))
    | none => (st, "bad-op")
  -- byte-order helper on a host of the given byte order: value and memory image
  | ["boe", en, h, x] =>
    match nat? x with
    | some x =>
      let e := endianOf en
      let bits := if h.endsWith "16" then 16 else if h.endsWith "32" then 32 else 64
      let x := x % 2 ^ bits
      let r := if h.startsWith "Avtp_Bswap" then
                 (if bits == 16 then bswap16 x else if bits == 32 then bswap32 x else bswap64 x)
               else if h.startsWith "Avtp_CpuToBe" || h.startsWith "Avtp_BeToCpu" then
                 (if bits == 16 then beCpu16 e x else if bits == 32 then beCpu32 e x else beCpu64 e x)
               else
                 (if bits == 16 then leCpu16 e x else if bits == 32 then leCpu32 e x else leCpu64 e x)
      let img := match e with | .little => bytesLE (bits / 8) r | .big => bytesBE (bits / 8) r
      (st, s!"v {r} " ++ toHex (img.toArray.map (fun b => UInt8.ofNat b.val)))
    | none => (st, "bad-op")
  | ["facts", fmt] =>
    match findFormat fmt with
    | some s => (st, s!"f {s.headerLen} {s.headerLen} {s.headerLen}")
    | none => (st, "bad-op")
  | ["payload", fmt] =>
    match findFormat fmt with
    | some s => (st, if s.name == "Can" then s!"p {s.headerLen}" else "no-accessor")
    | none => (st, "bad-op")
  | ["case", n] => (st, "case " ++ n)
  | [""] => (st, "")
  | _ => (st, "bad-op")

end O1722.Driver
