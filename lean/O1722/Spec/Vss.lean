/-
  Spec/Vss.lean — reference encoding of ACF-VSS paths and values, written from
  examples/acf-vss/protocol_description/acf-vss.md: big-endian integers, IEEE-754 bit
  patterns big-endian, 16-bit big-endian byte-length prefixes for interoperable paths,
  strings and arrays, elements in order.  Values are bit patterns (`Nat` below 2^(8·size));
  signedness and floating-point interpretation are irrelevant to the codec, which only moves
  bits.
-/
import O1722.Spec.Wire

namespace O1722.Spec

inductive Scalar where
  | u8 | i8 | u16 | i16 | u32 | i32 | u64 | i64 | bool | f32 | f64
  deriving DecidableEq, Repr

def Scalar.size : Scalar → Nat
  | .u8 | .i8 | .bool => 1
  | .u16 | .i16 => 2
  | .u32 | .i32 | .f32 => 4
  | .u64 | .i64 | .f64 => 8

/-- `vss_datatype` code of the scalar type (the array of it has the top bit set). -/
def Scalar.code : Scalar → Nat
  | .u8 => 0 | .i8 => 1 | .u16 => 2 | .i16 => 3 | .u32 => 4 | .i32 => 5 | .u64 => 6 | .i64 => 7
  | .bool => 8 | .f32 => 9 | .f64 => 0xA

def Scalar.all : List Scalar := [.u8, .i8, .u16, .i16, .u32, .i32, .u64, .i64, .bool, .f32, .f64]

open O1722 in
/-- `n` as `k` big-endian octets. -/
abbrev be (k n : Nat) : List Byte := bytesBE k n

inductive VssValue where
  | scalar (t : Scalar) (bits : Nat)
  | string (bytes : List Byte)
  | array (t : Scalar) (elems : List Nat)
  | stringArray (strs : List (List Byte))
  deriving Repr

def VssValue.code : VssValue → Nat
  | .scalar t _ => t.code
  | .string _ => 0xB
  | .array t _ => 0x80 + t.code
  | .stringArray _ => 0x8B

/-- Packed string array: each string as 16-bit big-endian length + bytes, in order. -/
def packStrings (ss : List (List Byte)) : List Byte :=
  ss.flatMap (fun s => be 2 s.length ++ s)

/-- **Reference encoding of a value.** -/
def encValue : VssValue → List Byte
  | .scalar t b => be t.size b
  | .string bs => be 2 bs.length ++ bs
  | .array t xs => be 2 (t.size * xs.length) ++ xs.flatMap (be t.size)
  | .stringArray ss => be 2 (packStrings ss).length ++ packStrings ss

inductive VssPath where
  | interop (path : List Byte)
  | staticId (id : Nat)
  deriving Repr

def VssPath.addrMode : VssPath → Nat
  | .interop _ => 0
  | .staticId _ => 1

/-- **Reference encoding of a path.** -/
def encPath : VssPath → List Byte
  | .interop p => be 2 p.length ++ p
  | .staticId id => be 4 id

/-- Fixed header length after which the path starts. -/
def vssFixedHeader : Nat := 12

end O1722.Spec
