/-
  Spec/Wire.lean — the wire view of a PDU: a byte memory, its bits numbered the way
  IEEE 1722 numbers them (bit 0 = most significant bit of the first octet), and the
  bit-level reference reader / writer.  Nothing here knows about quadlets, masks,
  shifts or host byte order: this is the *meaning* of "the field's bit range, most
  significant bit first, in network byte order".
-/
namespace O1722

/-- A byte. -/
abbrev Byte := Fin 256

/-- Total byte memory.  A PDU is a base address into it. -/
abbrev Mem := Nat → Byte

/-- Wire bit `i` of the PDU at `pdu`: bit `7 - i%8` of octet `i/8` (MSB first). -/
def wireBit (m : Mem) (pdu i : Nat) : Bool :=
  (m (pdu + i / 8)).val.testBit (7 - i % 8)

/-- Reference reader: the `w` wire bits starting at bit `s`, MSB first, as a number. -/
def specGet (m : Mem) (pdu s : Nat) : Nat → Nat
  | 0 => 0
  | w + 1 => 2 * specGet m pdu s w + (wireBit m pdu (s + w)).toNat

/-- A byte from its 8 bits, `f 0` being the most significant. -/
def byteOfBits (f : Nat → Bool) : Byte :=
  ⟨(f 0).toNat * 128 + (f 1).toNat * 64 + (f 2).toNat * 32 + (f 3).toNat * 16
    + (f 4).toNat * 8 + (f 5).toNat * 4 + (f 6).toNat * 2 + (f 7).toNat, by
    cases f 0 <;> cases f 1 <;> cases f 2 <;> cases f 3 <;> cases f 4 <;> cases f 5
      <;> cases f 6 <;> cases f 7 <;> decide⟩

/-- The wire bit `i` of the PDU after the reference write of `v` into bits `[s, s+w)`:
    bit `i` of the field (counted from its MSB) is bit `s+w-1-i` of `v`; every other
    bit keeps its value.  Only the low `w` bits of `v` can matter. -/
def specSetBit (m : Mem) (pdu s w v i : Nat) : Bool :=
  if s ≤ i ∧ i < s + w then v.testBit (s + w - 1 - i) else wireBit m pdu i

/-- Reference writer.  Memory below the PDU is untouched by definition; at and above it
    every byte is rebuilt from its own bits with the field's bits replaced (the identity
    outside the field; `specSet_wireBit` states it in terms of `specSetBit`).  The old byte
    is read once, so nested writes stay cheap to evaluate. -/
def specSet (m : Mem) (pdu s w v : Nat) : Mem := fun a =>
  let b := m a
  if pdu ≤ a then
    byteOfBits (fun k =>
      let i := 8 * (a - pdu) + k
      if s ≤ i ∧ i < s + w then v.testBit (s + w - 1 - i) else b.val.testBit (7 - k))
  else b

/-- Zero `len` octets at `p` (what `memset(p, 0, len)` does). -/
def zeroFill (m : Mem) (p len : Nat) : Mem := fun a => if p ≤ a ∧ a < p + len then 0 else m a

/-- Store one byte. -/
def Mem.set (m : Mem) (a : Nat) (b : Byte) : Mem := fun x => if x = a then b else m x

/-- Store a list of bytes at consecutive addresses. -/
def Mem.write (m : Mem) (a : Nat) : List Byte → Mem
  | [] => m
  | b :: bs => (m.set a b).write (a + 1) bs

theorem Mem.write_apply (m : Mem) (a : Nat) (bs : List Byte) (x : Nat) :
    (m.write a bs) x = if h : a ≤ x ∧ x < a + bs.length then bs[x - a]'(by omega) else m x := by
  induction bs generalizing m a with
  | nil =>
    have : ¬ (a ≤ x ∧ x < a + ([] : List Byte).length) := by simp
    rw [dif_neg this]; rfl
  | cons b bs ih =>
    rw [Mem.write, ih]
    by_cases h1 : x = a
    · subst h1
      have : ¬ (x + 1 ≤ x ∧ x < x + 1 + bs.length) := by omega
      simp [this, Mem.set]
    · by_cases h2 : a + 1 ≤ x ∧ x < a + 1 + bs.length
      · have h3 : a ≤ x ∧ x < a + (b :: bs).length := by simp; omega
        rw [dif_pos h2, dif_pos h3]
        have : x - a = (x - (a + 1)) + 1 := by omega
        simp [this]
      · have h3 : ¬ (a ≤ x ∧ x < a + (b :: bs).length) := by simp; omega
        rw [dif_neg h2, dif_neg h3]
        simp [Mem.set, h1]

/-- Closed form of `Mem.write` (one bounds test and one list lookup per read instead of one
    closure per byte); proved equal and used by compiled code (the driver). -/
def Mem.writeFast (m : Mem) (a : Nat) (bs : List Byte) : Mem :=
  fun x => if a ≤ x then (match bs[x - a]? with | some b => b | none => m x) else m x

@[csimp] theorem Mem.write_eq_writeFast : @Mem.write = @Mem.writeFast := by
  funext m a bs x
  rw [Mem.write_apply]
  unfold Mem.writeFast
  by_cases h : a ≤ x ∧ x < a + bs.length
  · rw [dif_pos h, if_pos h.1, List.getElem?_eq_getElem (by omega)]
  · rw [dif_neg h]
    by_cases h1 : a ≤ x
    · rw [if_pos h1, List.getElem?_eq_none (by omega)]
    · rw [if_neg h1]

/-- Read `n` consecutive bytes. -/
def Mem.read (m : Mem) (a : Nat) : Nat → List Byte
  | 0 => []
  | n + 1 => m a :: Mem.read m (a + 1) n

/-- bytes of `x`, most significant first (`k` bytes). -/
def bytesBE : Nat → Nat → List Byte
  | 0, _ => []
  | k + 1, x => Fin.ofNat 256 (x / 256 ^ k) :: bytesBE k x

/-- bytes of `x`, least significant first (`k` bytes). -/
def bytesLE : Nat → Nat → List Byte
  | 0, _ => []
  | k + 1, x => Fin.ofNat 256 x :: bytesLE k (x / 256)

end O1722
