/-
  Spec/Formats.lean — the wire layouts of IEEE 1722-2016 (and of the repository's ACF-VSS
  description) as data, written by hand from the standard's header figures: every format
  is the sequence of its fields *in wire order with their widths*, unnamed (reserved) bit
  runs included as gaps.  First-bit positions are *computed* from that sequence; nothing
  here mentions quadlets, offsets or the C tables.

  Per field: the enumerator suffix the library uses to name it and the CamelCase suffix of
  its dedicated accessors ("" = the API deliberately has none, e.g. reserved fields).
-/
import O1722.Spec.Wire

namespace O1722.Spec

inductive Item where
  /-- named field: enumerator suffix, accessor suffix, width in bits -/
  | f (name acc : String) (w : Nat)
  /-- named field whose enumerator does not carry the format's prefix (full name given) -/
  | fx (enumName acc : String) (w : Nat)
  /-- unnamed / reserved bits -/
  | gap (w : Nat)
  deriving Repr, DecidableEq

def Item.width : Item → Nat
  | .f _ _ w => w | .fx _ _ w => w | .gap w => w

structure FieldSpec where
  enumName : String   -- full enumerator name
  acc      : String   -- accessor suffix ("" = none)
  first    : Nat      -- first wire bit (bit 0 = MSB of octet 0)
  width    : Nat
  deriving Repr, DecidableEq

/-- The deprecated by-identifier API of a format (five formats have one). -/
structure LegacySpec where
  getFn   : String
  setFn   : String
  initFn  : String := ""         -- "" = none
  valBits : Nat := 64            -- width of the value exchanged by get/set
  /-- the legacy initialiser takes a value for this field (enumerator suffix), "" = none -/
  initArg : String := ""
  /-- legacy field names (macros) and the enumerator suffix each must designate -/
  aliases : List (String × String) := []
  /-- packed legacy PDU structures overlaying the header: (struct, total size, payload offset) -/
  structs : List (String × Nat × Nat) := []
  deriving Repr

structure FormatSpec where
  name        : String         -- short name, also the source file stem
  file        : String         -- source file (relative to the repository)
  enumPrefix  : String         -- "AVTP_CAN_FIELD_"
  maxEnum     : String         -- "AVTP_CAN_FIELD_MAX"
  fnPrefix    : String         -- "Avtp_Can_"
  headerType  : String         -- "Avtp_Can_t"
  lenMacro    : String         -- "AVTP_CAN_HEADER_LEN"
  headerLen   : Nat            -- octets
  layout      : List Item
  /-- constants the initialiser must leave in the header (enumerator suffix, value);
      every other header bit is zero -/
  initConsts  : List (String × Nat) := []
  /-- name of the current-API initialiser ("" = the format has none) -/
  initFn      : String := ""
  /-- accessor names that deviate from `fnPrefix ++ "Get"/"Set" ++ acc` (expected ↦ actual) -/
  renames     : List (String × String) := []
  legacy      : Option LegacySpec := none
  deriving Repr

/-- Fields of a layout with their computed first bit. -/
def fieldsFrom (pre : String) : Nat → List Item → List FieldSpec
  | _, [] => []
  | pos, .f n a w :: rest => ⟨pre ++ n, a, pos, w⟩ :: fieldsFrom pre (pos + w) rest
  | pos, .fx n a w :: rest => ⟨n, a, pos, w⟩ :: fieldsFrom pre (pos + w) rest
  | pos, .gap w :: rest => fieldsFrom pre (pos + w) rest

def FormatSpec.fields (s : FormatSpec) : List FieldSpec := fieldsFrom s.enumPrefix 0 s.layout

def FormatSpec.totalBits (s : FormatSpec) : Nat := (s.layout.map Item.width).foldl (· + ·) 0

def FormatSpec.getterName (s : FormatSpec) (fs : FieldSpec) : String :=
  let n := s.fnPrefix ++ "Get" ++ fs.acc
  match s.renames.lookup n with | some r => r | none => n

def FormatSpec.setterName (s : FormatSpec) (fs : FieldSpec) : String :=
  let n := s.fnPrefix ++ "Set" ++ fs.acc
  match s.renames.lookup n with | some r => r | none => n

/-! ### canonical (initialised) headers -/

/-- Value of a header write: a constant, or the low `bits` bits of the initialiser's
    parameter (only the legacy CVF initialiser has one). -/
inductive WVal where
  | const (v : Nat)
  | param (bits : Nat)
  deriving Repr, DecidableEq

def WVal.eval (pv : Nat) : WVal → Nat
  | .const v => v
  | .param b => pv % 2 ^ b

/-- (first bit, width, value) -/
abbrev Write := Nat × Nat × WVal

/-- Perform header writes in order (reference writer). -/
def applyWrites (m : Mem) (pdu pv : Nat) (ws : List Write) : Mem :=
  ws.foldl (fun acc (w : Write) => specSet acc pdu w.1 w.2.1 (w.2.2.eval pv % 2 ^ w.2.1)) m

def FormatSpec.fieldNamed (s : FormatSpec) (suffix : String) : Option FieldSpec :=
  s.fields.find? (fun fs => fs.enumName == s.enumPrefix ++ suffix)

/-- The writes that produce the canonical header from a zeroed one; `withArg` adds the
    legacy initialiser's parameter field. -/
def FormatSpec.initWrites (s : FormatSpec) (withArg : Bool) : List Write :=
  s.initConsts.filterMap (fun (n, v) => (s.fieldNamed n).map (fun fs => (fs.first, fs.width, WVal.const v)))
  ++ (match withArg, s.legacy with
      | true, some l => match s.fieldNamed l.initArg with
        | some fs => [(fs.first, fs.width, WVal.param fs.width)]
        | none => []
      | _, _ => [])

/-- **The canonical header**: every header octet zero except the mandated constants;
    memory outside the header as before. -/
def FormatSpec.canonical (s : FormatSpec) (withArg : Bool) (pv : Nat) (m : Mem) (pdu : Nat) : Mem :=
  applyWrites (zeroFill m pdu s.headerLen) pdu pv (s.initWrites withArg)

open Item

/-! ### AVTPDU common header (IEEE 1722-2016 Figure 4) -/
def commonHeader : FormatSpec where
  name := "CommonHeader"; file := "src/avtp/CommonHeader.c"
  enumPrefix := "AVTP_COMMON_HEADER_FIELD_"; maxEnum := "AVTP_COMMON_HEADER_FIELD_MAX"
  fnPrefix := "Avtp_CommonHeader_"; headerType := "Avtp_CommonHeader_t"
  lenMacro := "AVTP_COMMON_HEADER_LEN"; headerLen := 4
  layout := [f "SUBTYPE" "Subtype" 8, f "H" "H" 1, f "VERSION" "Version" 3, gap 20]
  legacy := some { getFn := "avtp_pdu_get", setFn := "avtp_pdu_set", valBits := 32,
                   aliases := [("AVTP_FIELD_SUBTYPE", "SUBTYPE"), ("AVTP_FIELD_VERSION", "VERSION"),
                               ("AVTP_FIELD_MAX", "MAX")],
                   structs := [("struct avtp_common_pdu", 4, 4)] }

/-- The common *stream* header prefix shared by AAF, CVF, RVF, TSCF (Figure 5):
    subtype, sv, version, mr, 2 reserved bits, tv, sequence_num, 7 reserved bits, tu. -/
def streamQuadlet0 (named : Bool) : List Item :=
  [f "SUBTYPE" "Subtype" 8, f "SV" "Sv" 1, f "VERSION" "Version" 3, f "MR" "Mr" 1,
   (if named then f "RESERVED" "" 2 else gap 2), f "TV" "Tv" 1,
   f "SEQUENCE_NUM" "SequenceNum" 8,
   (if named then f "RESERVED_2" "" 7 else gap 7), f "TU" "Tu" 1]

/-! ### UDP encapsulation (Annex J): 32-bit encapsulation sequence number -/
def udp : FormatSpec where
  name := "Udp"; file := "src/avtp/Udp.c"
  enumPrefix := "AVTP_UDP_FIELD_"; maxEnum := "AVTP_UDP_FIELD_MAX"
  fnPrefix := "Avtp_Udp_"; headerType := "Avtp_Udp_t"
  lenMacro := "AVTP_UDP_HEADER_LEN"; headerLen := 4
  layout := [f "ENCAPSULATION_SEQ_NO" "EncapsulationSeqNo" 32]
  initFn := "Avtp_Udp_Init"

/-! ### AAF (clause 7), generic view: format-specific bits left opaque -/
def aaf : FormatSpec where
  name := "Aaf"; file := "src/avtp/aaf/Aaf.c"
  enumPrefix := "AVTP_AAF_FIELD_"; maxEnum := "AVTP_AAF_FIELD_MAX"
  fnPrefix := "Avtp_Aaf_"; headerType := "Avtp_Aaf_t"
  lenMacro := "AVTP_AAF_HEADER_LEN"; headerLen := 24
  layout := streamQuadlet0 false ++
    [f "STREAM_ID" "StreamId" 64, f "AVTP_TIMESTAMP" "AvtpTimestamp" 32,
     f "FORMAT" "Format" 8, f "AAF_FORMAT_SPECIFIC_DATA_1" "" 24,
     f "STREAM_DATA_LENGTH" "StreamDataLength" 16, f "AFSD" "Afsd" 3, f "SP" "Sp" 1,
     f "EVT" "Evt" 4, f "AAF_FORMAT_SPECIFIC_DATA_2" "" 8]

/-! ### AAF PCM (Figure 14): nsr 4, 2 reserved, channels_per_frame 10, bit_depth 8;
       3 reserved, sp, evt 4, 8 reserved -/
def pcm : FormatSpec where
  name := "Pcm"; file := "src/avtp/aaf/Pcm.c"
  enumPrefix := "AVTP_PCM_FIELD_"; maxEnum := "AVTP_PCM_FIELD_MAX"
  fnPrefix := "Avtp_Pcm_"; headerType := "Avtp_Pcm_t"
  lenMacro := "AVTP_PCM_HEADER_LEN"; headerLen := 24
  layout := streamQuadlet0 false ++
    [f "STREAM_ID" "StreamId" 64, f "AVTP_TIMESTAMP" "AvtpTimestamp" 32,
     f "FORMAT" "Format" 8, f "NSR" "Nsr" 4, gap 2,
     f "CHANNELS_PER_FRAME" "ChannelsPerFrame" 10, f "BIT_DEPTH" "BitDepth" 8,
     f "STREAM_DATA_LENGTH" "StreamDataLength" 16, gap 3, f "SP" "Sp" 1, f "EVT" "Evt" 4, gap 8]
  initConsts := [("SUBTYPE", 0x02), ("SV", 1)]
  initFn := "Avtp_Pcm_Init"
  legacy := some { getFn := "avtp_aaf_pdu_get", setFn := "avtp_aaf_pdu_set", initFn := "avtp_aaf_pdu_init",
                   aliases := [("AVTP_AAF_FIELD_SV", "SV"), ("AVTP_AAF_FIELD_MR", "MR"),
                     ("AVTP_AAF_FIELD_TV", "TV"), ("AVTP_AAF_FIELD_SEQ_NUM", "SEQUENCE_NUM"),
                     ("AVTP_AAF_FIELD_TU", "TU"), ("AVTP_AAF_FIELD_STREAM_ID", "STREAM_ID"),
                     ("AVTP_AAF_FIELD_TIMESTAMP", "AVTP_TIMESTAMP"),
                     ("AVTP_AAF_FIELD_STREAM_DATA_LEN", "STREAM_DATA_LENGTH"),
                     ("AVTP_AAF_FIELD_FORMAT", "FORMAT"), ("AVTP_AAF_FIELD_NSR", "NSR"),
                     ("AVTP_AAF_FIELD_CHAN_PER_FRAME", "CHANNELS_PER_FRAME"),
                     ("AVTP_AAF_FIELD_BIT_DEPTH", "BIT_DEPTH"), ("AVTP_AAF_FIELD_SP", "SP"),
                     ("AVTP_AAF_FIELD_EVT", "EVT"), ("AVTP_AAF_FIELD_MAX", "MAX")],
                   structs := [("struct avtp_stream_pdu", 24, 24)] }

/-! ### CVF (clause 8, Figure 19) -/
def cvf : FormatSpec where
  name := "Cvf"; file := "src/avtp/cvf/Cvf.c"
  enumPrefix := "AVTP_CVF_FIELD_"; maxEnum := "AVTP_CVF_FIELD_MAX"
  fnPrefix := "Avtp_Cvf_"; headerType := "Avtp_Cvf_t"
  lenMacro := "AVTP_CVF_HEADER_LEN"; headerLen := 24
  layout := streamQuadlet0 true ++
    [f "STREAM_ID" "StreamId" 64, f "AVTP_TIMESTAMP" "AvtpTimestamp" 32,
     f "FORMAT" "Format" 8, f "FORMAT_SUBTYPE" "FormatSubtype" 8, f "RESERVED_3" "" 16,
     f "STREAM_DATA_LENGTH" "StreamDataLength" 16, f "RESERVED_4" "" 2, f "PTV" "Ptv" 1,
     f "M" "M" 1, f "EVT" "Evt" 4, f "RESERVED_5" "" 8]
  initConsts := [("SUBTYPE", 0x03), ("SV", 1), ("FORMAT", 0x02)]
  initFn := "Avtp_Cvf_Init"
  legacy := some { getFn := "avtp_cvf_pdu_get", setFn := "avtp_cvf_pdu_set", initFn := "avtp_cvf_pdu_init",
                   initArg := "FORMAT_SUBTYPE", structs := [("struct avtp_stream_pdu", 24, 24)] }

/-! ### CVF H.264 payload header (8.5): h264_timestamp 32 -/
def h264 : FormatSpec where
  name := "H264"; file := "src/avtp/cvf/H264.c"
  enumPrefix := "AVTP_H264_FIELD_"; maxEnum := "AVTP_H264_FIELD_MAX"
  fnPrefix := "Avtp_H264_"; headerType := "Avtp_H264_t"
  lenMacro := "AVTP_H246_HEADER_LEN"; headerLen := 4
  layout := [f "TIMESTAMP" "Timestamp" 32]
  initFn := "Avtp_H264_Init"

/-! ### CVF MJPEG payload header (RFC 2435 §3.1) -/
def mjpeg : FormatSpec where
  name := "Mjpeg"; file := "src/avtp/cvf/Mjpeg.c"
  enumPrefix := "AVTP_MJPEG_FIELD_"; maxEnum := "AVTP_MJPEG_FIELD_MAX"
  fnPrefix := "Avtp_Mjpeg_"; headerType := "Avtp_Mjpeg_t"
  lenMacro := "AVTP_MJPEG_HEADER_LEN"; headerLen := 8
  layout := [f "TYPE_SPECIFIC" "TypeSpecific" 8, f "FRAGMENT_OFFSET" "FragmentOffset" 24,
             f "TYPE" "Type" 8, f "Q" "Q" 8, f "WIDTH" "Width" 8, f "HEIGHT" "Height" 8]
  initFn := "Avtp_Mjpeg_Init"

/-! ### CVF JPEG 2000 payload header (RFC 5371 §3) -/
def jpeg2000 : FormatSpec where
  name := "Jpeg2000"; file := "src/avtp/cvf/Jpeg2000.c"
  enumPrefix := "AVTP_JPEG2000_FIELD_"; maxEnum := "AVTP_JPEG2000_FIELD_MAX"
  fnPrefix := "Avtp_Jpeg2000_"; headerType := "Avtp_Jpeg2000_t"
  lenMacro := "AVTP_JPEG2000_HEADER_LEN"; headerLen := 8
  layout := [f "TP" "Tp" 2, f "MHF" "Mhf" 2, f "MH_ID" "MhId" 3, f "T" "T" 1,
             f "PRIORITY" "Priority" 8, f "TILE_NUMBER" "TileNumber" 16,
             f "RESERVED" "" 8, f "FRAGMENT_OFFSET" "FragmentOffset" 24]
  initFn := "Avtp_Jpeg2000_Init"

/-! ### CRF (clause 10, Figure 26) -/
def crf : FormatSpec where
  name := "Crf"; file := "src/avtp/Crf.c"
  enumPrefix := "AVTP_CRF_FIELD_"; maxEnum := "AVTP_CRF_FIELD_MAX"
  fnPrefix := "Avtp_Crf_"; headerType := "Avtp_Crf_t"
  lenMacro := "AVTP_CRF_HEADER_LEN"; headerLen := 20
  layout := [f "SUBTYPE" "Subtype" 8, f "SV" "Sv" 1, f "VERSION" "Version" 3, f "MR" "Mr" 1,
             f "RESERVED" "" 1, f "FS" "Fs" 1, f "TU" "Tu" 1, f "SEQUENCE_NUM" "SequenceNum" 8,
             f "TYPE" "Type" 8, f "STREAM_ID" "StreamId" 64, f "PULL" "Pull" 3,
             f "BASE_FREQUENCY" "BaseFrequency" 29, f "CRF_DATA_LENGTH" "CrfDataLength" 16,
             f "TIMESTAMP_INTERVAL" "TimestampInterval" 16]
  initConsts := [("SUBTYPE", 0x04), ("SV", 1)]
  initFn := "Avtp_Crf_Init"
  legacy := some { getFn := "avtp_crf_pdu_get", setFn := "avtp_crf_pdu_set", initFn := "avtp_crf_pdu_init",
                   aliases := [("AVTP_CRF_FIELD_SEQ_NUM", "SEQUENCE_NUM"),
                     ("AVTP_CRF_FIELD_BASE_FREQ", "BASE_FREQUENCY"),
                     ("AVTP_CRF_FIELD_CRF_DATA_LEN", "CRF_DATA_LENGTH")],
                   structs := [("struct avtp_crf_pdu", 20, 20)] }

/-! ### RVF (1722-2016 clause 11 as amended; raw header 2 quadlets) -/
def rvf : FormatSpec where
  name := "Rvf"; file := "src/avtp/Rvf.c"
  enumPrefix := "AVTP_RVF_FIELD_"; maxEnum := "AVTP_RVF_FIELD_MAX"
  fnPrefix := "Avtp_Rvf_"; headerType := "Avtp_Rvf_t"
  lenMacro := "AVTP_RVF_HEADER_LEN"; headerLen := 32
  layout := streamQuadlet0 true ++
    [f "STREAM_ID" "StreamId" 64, f "AVTP_TIMESTAMP" "AvtpTimestamp" 32,
     f "ACTIVE_PIXELS" "ActivePixels" 16, f "TOTAL_LINES" "TotalLines" 16,
     f "STREAM_DATA_LENGTH" "StreamDataLength" 16, f "AP" "Ap" 1, f "RESERVED_3" "" 1,
     f "F" "F" 1, f "EF" "Ef" 1, f "EVT" "Evt" 4, f "PD" "Pd" 1, f "I" "I" 1,
     f "RESERVED_4" "" 6,
     f "RESERVED_5" "" 8, f "PIXEL_DEPTH" "PixelDepth" 4, f "PIXEL_FORMAT" "PixelFormat" 4,
     f "FRAME_RATE" "FrameRate" 8, f "COLORSPACE" "Colorspace" 4, f "NUM_LINES" "NumLines" 4,
     f "RESERVED_6" "" 8, f "I_SEQ_NUM" "ISeqNum" 8, f "LINE_NUMBER" "LineNumber" 16]
  initConsts := [("SUBTYPE", 0x07), ("SV", 1)]
  initFn := "Avtp_Rvf_Init"
  renames := [("Avtp_Rvf_SetF", "Avtp_Rvf_setF")]
  legacy := some { getFn := "avtp_rvf_pdu_get", setFn := "avtp_rvf_pdu_set", initFn := "avtp_rvf_pdu_init",
                   aliases := [("AVTP_RVF_FIELD_SEQ_NUM", "SEQUENCE_NUM"),
                     ("AVTP_RVF_FIELD_TIMESTAMP", "AVTP_TIMESTAMP"),
                     ("AVTP_RVF_FIELD_STREAM_DATA_LEN", "STREAM_DATA_LENGTH"),
                     ("AVTP_RVF_FIELD_RAW_PIXEL_DEPTH", "PIXEL_DEPTH"),
                     ("AVTP_RVF_FIELD_RAW_PIXEL_FORMAT", "PIXEL_FORMAT"),
                     ("AVTP_RVF_FIELD_RAW_FRAME_RATE", "FRAME_RATE"),
                     ("AVTP_RVF_FIELD_RAW_COLORSPACE", "COLORSPACE"),
                     ("AVTP_RVF_FIELD_RAW_NUM_LINES", "NUM_LINES"),
                     ("AVTP_RVF_FIELD_RAW_I_SEQ_NUM", "I_SEQ_NUM"),
                     ("AVTP_RVF_FIELD_RAW_LINE_NUMBER", "LINE_NUMBER")],
                   structs := [("struct avtp_stream_pdu", 24, 24), ("struct avtp_rvf_payload", 8, 8)] }

/-! ### TSCF (clause 9.3, Figure 22): stream header whose quadlet 4 is reserved -/
def tscf : FormatSpec where
  name := "Tscf"; file := "src/avtp/acf/Tscf.c"
  enumPrefix := "AVTP_TSCF_FIELD_"; maxEnum := "AVTP_TSCF_FIELD_MAX"
  fnPrefix := "Avtp_Tscf_"; headerType := "Avtp_Tscf_t"
  lenMacro := "AVTP_TSCF_HEADER_LEN"; headerLen := 24
  layout := streamQuadlet0 false ++
    [f "STREAM_ID" "StreamId" 64, f "AVTP_TIMESTAMP" "AvtpTimestamp" 32, gap 32,
     f "STREAM_DATA_LENGTH" "StreamDataLength" 16, gap 16]
  initConsts := [("SUBTYPE", 0x05), ("SV", 1)]
  initFn := "Avtp_Tscf_Init"

/-! ### NTSCF (clause 9.2, Figure 21) -/
def ntscf : FormatSpec where
  name := "Ntscf"; file := "src/avtp/acf/Ntscf.c"
  enumPrefix := "AVTP_NTSCF_FIELD_"; maxEnum := "AVTP_NTSCF_FIELD_MAX"
  fnPrefix := "Avtp_Ntscf_"; headerType := "Avtp_Ntscf_t"
  lenMacro := "AVTP_NTSCF_HEADER_LEN"; headerLen := 12
  layout := [f "SUBTYPE" "Subtype" 8, f "SV" "Sv" 1, f "VERSION" "Version" 3, gap 1,
             f "NTSCF_DATA_LENGTH" "NtscfDataLength" 11, f "SEQUENCE_NUM" "SequenceNum" 8,
             f "STREAM_ID" "StreamId" 64]
  initConsts := [("SUBTYPE", 0x82), ("SV", 1)]
  initFn := "Avtp_Ntscf_Init"

/-! ### ACF message common header (9.4.1): acf_msg_type 7, acf_msg_length 9 -/
def acfCommon : FormatSpec where
  name := "AcfCommon"; file := "src/avtp/acf/AcfCommon.c"
  enumPrefix := "AVTP_ACF_FIELD_"; maxEnum := "AVTP_ACF_COMMON_FIELD_MAX"
  fnPrefix := "Avtp_AcfCommon_"; headerType := "Avtp_AcfCommon_t"
  lenMacro := "AVTP_ACF_COMMON_HEADER_LEN"; headerLen := 4
  layout := [f "ACF_MSG_TYPE" "AcfMsgType" 7, f "ACF_MSG_LENGTH" "AcfMsgLength" 9, gap 16]

def acfHead : List Item := [f "ACF_MSG_TYPE" "AcfMsgType" 7, f "ACF_MSG_LENGTH" "AcfMsgLength" 9]

/-! ### ACF FlexRay (9.4.2, Figure 24) -/
def flexRay : FormatSpec where
  name := "FlexRay"; file := "src/avtp/acf/FlexRay.c"
  enumPrefix := "AVTP_FLEXRAY_FIELD_"; maxEnum := "AVTP_FLEXRAY_FIELD_MAX"
  fnPrefix := "Avtp_FlexRay_"; headerType := "Avtp_FlexRay_t"
  lenMacro := "AVTP_FLEXRAY_HEADER_LEN"; headerLen := 16
  layout := acfHead ++
    [f "PAD" "Pad" 2, f "MTV" "Mtv" 1, f "FR_BUS_ID" "FrBusId" 5, f "RESERVED" "" 2,
     f "CHAN" "Chan" 2, f "STR" "Str" 1, f "SYN" "Syn" 1, f "PRE" "Pre" 1, f "NFI" "Nfi" 1,
     f "MESSAGE_TIMESTAMP" "MessageTimestamp" 64,
     f "FR_FRAME_ID" "FrFrameId" 11, f "RESERVED_2" "" 15, f "CYCLE" "Cycle" 6]
  initConsts := [("ACF_MSG_TYPE", 0)]
  initFn := "Avtp_FlexRay_Init"

/-! ### ACF CAN (9.4.3, Figure 25) -/
def can : FormatSpec where
  name := "Can"; file := "src/avtp/acf/Can.c"
  enumPrefix := "AVTP_CAN_FIELD_"; maxEnum := "AVTP_CAN_FIELD_MAX"
  fnPrefix := "Avtp_Can_"; headerType := "Avtp_Can_t"
  lenMacro := "AVTP_CAN_HEADER_LEN"; headerLen := 16
  layout := acfHead ++
    [f "PAD" "Pad" 2, f "MTV" "Mtv" 1, f "RTR" "Rtr" 1, f "EFF" "Eff" 1, f "BRS" "Brs" 1,
     f "FDF" "Fdf" 1, f "ESI" "Esi" 1, gap 3, f "CAN_BUS_ID" "CanBusId" 5,
     f "MESSAGE_TIMESTAMP" "MessageTimestamp" 64, gap 3,
     f "CAN_IDENTIFIER" "CanIdentifier" 29]
  initConsts := [("ACF_MSG_TYPE", 1)]
  initFn := "Avtp_Can_Init"

/-! ### ACF abbreviated CAN (9.4.4, Figure 26): CAN without the message timestamp -/
def canBrief : FormatSpec where
  name := "CanBrief"; file := "src/avtp/acf/CanBrief.c"
  enumPrefix := "AVTP_CAN_BRIEF_FIELD_"; maxEnum := "AVTP_CAN_BRIEF_FIELD_MAX"
  fnPrefix := "Avtp_CanBrief_"; headerType := "Avtp_CanBrief_t"
  lenMacro := "AVTP_CAN_BRIEF_HEADER_LEN"; headerLen := 8
  layout := acfHead ++
    [f "PAD" "Pad" 2, f "MTV" "Mtv" 1, f "RTR" "Rtr" 1, f "EFF" "Eff" 1, f "BRS" "Brs" 1,
     f "FDF" "Fdf" 1, f "ESI" "Esi" 1, gap 3, f "CAN_BUS_ID" "CanBusId" 5, gap 3,
     f "CAN_IDENTIFIER" "CanIdentifier" 29]
  initConsts := [("ACF_MSG_TYPE", 2)]
  initFn := "Avtp_CanBrief_Init"

/-! ### ACF LIN (9.4.5, Figure 27) -/
def lin : FormatSpec where
  name := "Lin"; file := "src/avtp/acf/Lin.c"
  enumPrefix := "AVTP_LIN_FIELD_"; maxEnum := "AVTP_LIN_FIELD_MAX"
  fnPrefix := "Avtp_Lin_"; headerType := "Avtp_Lin_t"
  lenMacro := "AVTP_LIN_HEADER_LEN"; headerLen := 12
  layout := acfHead ++
    [f "PAD" "Pad" 2, f "MTV" "Mtv" 1, f "LIN_BUS_ID" "LinBusId" 5,
     f "LIN_IDENTIFIER" "LinIdentifier" 8, f "MESSAGE_TIMESTAMP" "MessageTimestamp" 64]
  initConsts := [("ACF_MSG_TYPE", 3)]
  initFn := "Avtp_Lin_Init"

/-! ### ACF MOST (9.4.6, Figure 28): five quadlets -/
def most : FormatSpec where
  name := "Most"; file := "src/avtp/acf/Most.c"
  enumPrefix := "AVTP_MOST_FIELD_"; maxEnum := "AVTP_MOST_FIELD_MAX"
  fnPrefix := "Avtp_Most_"; headerType := "Avtp_Most_t"
  lenMacro := "AVTP_MOST_HEADER_LEN"; headerLen := 20
  layout := acfHead ++
    [f "PAD" "Pad" 2, f "MTV" "Mtv" 1, f "MOST_NET_ID" "MostNetId" 5, f "RESERVED" "" 8,
     f "MESSAGE_TIMESTAMP" "MessageTimestamp" 64,
     f "DEVICE_ID" "DeviceId" 16, f "FBLOCK_ID" "FblockId" 8, f "INST_ID" "InstId" 8,
     f "FUNC_ID" "FuncId" 12, f "OP_TYPE" "OpType" 4, f "RESERVED_2" "" 16]
  initConsts := [("ACF_MSG_TYPE", 4)]
  initFn := "Avtp_Most_Init"

/-! ### ACF GPC (9.4.7, Figure 29): gpc_msg_id 48 -/
def gpc : FormatSpec where
  name := "Gpc"; file := "src/avtp/acf/Gpc.c"
  enumPrefix := "AVTP_GPC_FIELD_"; maxEnum := "AVTP_GPC_FIELD_MAX"
  fnPrefix := "Avtp_Gpc_"; headerType := "Avtp_Gpc_t"
  lenMacro := "AVTP_GPC_HEADER_LEN"; headerLen := 8
  layout := acfHead ++ [f "GPC_MSG_ID" "GpcMsgId" 48]
  initConsts := [("ACF_MSG_TYPE", 5)]
  initFn := "Avtp_Gpc_Init"

/-! ### ACF Sensor (9.4.10, Figure 32) -/
def sensor : FormatSpec where
  name := "Sensor"; file := "src/avtp/acf/Sensor.c"
  enumPrefix := "AVTP_SENSOR_FIELD_"; maxEnum := "AVTP_SENSOR_FIELD_MAX"
  fnPrefix := "Avtp_Sensor_"; headerType := "Avtp_Sensor_t"
  lenMacro := "AVTP_SENSOR_HEADER_LEN"; headerLen := 12
  layout := acfHead ++
    [f "MTV" "Mtv" 1, f "NUM_SENSOR" "NumSensor" 7, f "SZ" "Sz" 2,
     f "SENSOR_GROUP" "SensorGroup" 6, f "MESSAGE_TIMESTAMP" "MessageTimestamp" 64]
  initConsts := [("ACF_MSG_TYPE", 8)]
  initFn := "Avtp_Sensor_Init"

/-! ### ACF abbreviated Sensor (9.4.11, Figure 33) -/
def sensorBrief : FormatSpec where
  name := "SensorBrief"; file := "src/avtp/acf/SensorBrief.c"
  enumPrefix := "AVTP_SENSOR_BRIEF_FIELD_"; maxEnum := "AVTP_SENSOR_BRIEF_FIELD_MAX"
  fnPrefix := "Avtp_SensorBrief_"; headerType := "Avtp_SensorBrief_t"
  lenMacro := "AVTP_SENSOR_BRIEF_HEADER_LEN"; headerLen := 4
  layout := acfHead ++
    [f "MTV" "Mtv" 1, f "NUM_SENSOR" "NumSensor" 7, f "SZ" "Sz" 2,
     f "SENSOR_GROUP" "SensorGroup" 6]
  initConsts := [("ACF_MSG_TYPE", 9)]
  initFn := "Avtp_SensorBrief_Init"

/-! ### ACF-VSS (examples/acf-vss/protocol_description/acf-vss.md): fixed header 3 quadlets -/
def vss : FormatSpec where
  name := "Vss"; file := "src/avtp/acf/custom/Vss.c"
  enumPrefix := "AVTP_VSS_FIELD_"; maxEnum := "AVTP_VSS_FIELD_MAX"
  fnPrefix := "Avtp_Vss_"; headerType := "Avtp_Vss_t"
  lenMacro := "AVTP_VSS_FIXED_HEADER_LEN"; headerLen := 12
  layout := acfHead ++
    [f "PAD" "Pad" 2, f "MTV" "Mtv" 1, f "ADDR_MODE" "AddrMode" 2, f "VSS_OP" "OpCode" 3,
     f "VSS_DATATYPE" "Datatype" 8, f "MSG_TIMESTAMP" "MsgTimestamp" 64]
  initConsts := [("ACF_MSG_TYPE", 0x42)]
  initFn := "Avtp_Vss_Init"

/-! ### abbreviated ACF-VSS: no timestamp; the library also names three zero-width
       placeholders (timestamp, path, data) that denote no header bits -/
def vssBrief : FormatSpec where
  name := "VssBrief"; file := "src/avtp/acf/custom/VssBrief.c"
  enumPrefix := "AVTP_VSS_BRIEF_FIELD_"; maxEnum := "AVTP_VSS_BRIEF_FIELD_MAX"
  fnPrefix := "Avtp_VssBrief_"; headerType := "Avtp_VssBrief_t"
  lenMacro := "AVTP_VSS_BRIEF_HEADER_LEN"; headerLen := 4
  layout :=
    [f "ACF_MSG_TYPE" "" 7, f "ACF_MSG_LENGTH" "" 9, f "PAD" "" 2, f "MTV" "" 1,
     f "ADDR_MODE" "" 2, f "VSS_OP" "" 3, f "VSS_DATATYPE" "" 8,
     f "MSG_TIMESTAMP" "" 0, fx "AVTP_VSS_FIELD_VSS_PATH" "" 0, fx "AVTP_VSS_FIELD_VSS_DATA" "" 0]
  initConsts := [("ACF_MSG_TYPE", 0x43)]
  initFn := "Avtp_VssBrief_Init"

/-- All 23 header formats. -/
def all : List FormatSpec :=
  [commonHeader, udp, aaf, pcm, cvf, h264, mjpeg, jpeg2000, crf, rvf, tscf, ntscf, acfCommon,
   flexRay, can, canBrief, lin, most, gpc, sensor, sensorBrief, vss, vssBrief]

/-- Spec self-consistency: every layout fills its header exactly (a whole number of
    quadlets), so a typo in a width cannot go unnoticed. -/
theorem layouts_fill_headers :
    all.all (fun s => s.totalBits == 8 * s.headerLen && s.headerLen % 4 == 0) = true := by decide

end O1722.Spec

namespace O1722.Spec

/-! ### fields that several formats share (C17) -/

/-- (view A, view B, [(enumerator suffix in A, enumerator suffix in B)]) -/
structure SharedView where
  a : FormatSpec
  b : FormatSpec
  pairs : List (String × String)

def sameNames (ns : List String) : List (String × String) := ns.map (fun n => (n, n))

def streamCommon : List String :=
  ["SUBTYPE", "SV", "VERSION", "MR", "TV", "SEQUENCE_NUM", "TU", "STREAM_ID", "AVTP_TIMESTAMP",
   "STREAM_DATA_LENGTH"]

/-- The views the standard lets a receiver switch between. -/
def sharedViews : List SharedView :=
  -- AVTPDU common header in every stream format (sv plays the role of h)
  ([tscf, ntscf, aaf, pcm, cvf, crf, rvf].map (fun s =>
      ⟨commonHeader, s, [("SUBTYPE", "SUBTYPE"), ("H", "SV"), ("VERSION", "VERSION")]⟩))
  -- ACF common header in every ACF message
  ++ ([flexRay, can, canBrief, lin, most, gpc, sensor, sensorBrief, vss, vssBrief].map (fun s =>
      ⟨acfCommon, s, sameNames ["ACF_MSG_TYPE", "ACF_MSG_LENGTH"]⟩))
  -- the stream fields common to TSCF, AAF, AAF-PCM, CVF and RVF
  ++ [⟨tscf, aaf, sameNames streamCommon⟩, ⟨tscf, pcm, sameNames streamCommon⟩,
      ⟨tscf, cvf, sameNames streamCommon⟩, ⟨tscf, rvf, sameNames streamCommon⟩,
      ⟨aaf, cvf, sameNames streamCommon⟩, ⟨pcm, rvf, sameNames streamCommon⟩,
      ⟨cvf, rvf, sameNames (streamCommon ++ ["RESERVED", "RESERVED_2", "EVT"])⟩]
  -- AAF versus AAF-PCM
  ++ [⟨aaf, pcm, sameNames (streamCommon ++ ["FORMAT", "SP", "EVT"])⟩]

/-- A pair of fields, one per view, designating the same wire bits. -/
def viewPairs (v : SharedView) : List (Option (FieldSpec × FieldSpec)) :=
  v.pairs.map (fun (x, y) =>
    match v.a.fieldNamed x, v.b.fieldNamed y with
    | some fa, some fb => some (fa, fb)
    | _, _ => none)

/-- Spec self-consistency for C17: every shared pair exists in both layouts and occupies
    the same bit range in both. -/
theorem shared_views_agree :
    sharedViews.all (fun v => (viewPairs v).all (fun p =>
      match p with
      | some (fa, fb) => fa.first == fb.first && fa.width == fb.width
      | none => false)) = true := by decide

end O1722.Spec
