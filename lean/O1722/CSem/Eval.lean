/-
  CSem/Eval.lean — meaning of the C subset of CSem/Syntax.lean: a fuel-indexed, executable
  big-step interpreter over the byte memory of the Model.

  * Integer semantics follow C11 for the LP64 / two's-complement targets gcc and clang build
    Open1722 for: conversions are modulo 2^N (6.3.1.3; for signed targets the implementation-
    defined choice of gcc/clang), unsigned arithmetic wraps, and everything C leaves UNDEFINED
    yields `none`: signed overflow, division by zero, shift counts ≥ width, left shifts of
    negative values or out of the signed range, dereferencing NULL, overlapping `memcpy`.
    A refinement theorem `exec … = some …` therefore also says that none of these happens.
  * `memcpy(&x, p, k)` / `memcpy(p, &x, k)` on an integer object are the host-byte-order load /
    store of the Model (`load e k`, `store e k`); every memory access is appended to the same
    access log the Model keeps.
  * Constant tables live in a separate read-only memory (`Env.rom`): C objects are disjoint and
    `const` objects are never written, and the syntax offers no way to write there.
  * Functions not defined in the program (`Avtp_BeToCpu32`, …) are `Env.ext`.
  * `fuel` bounds the *depth* of the evaluation (statement nesting + loop iterations + call
    depth); running out of fuel is `none`, so a theorem for a given fuel is a termination proof.
-/
import O1722.CSem.Syntax

namespace O1722.C

/-! ### integers -/

/-- The mathematical value of the representation `v` in type `t`. -/
def Ty.toInt (t : Ty) (v : Nat) : Int :=
  if t.signed && decide (2 ^ (t.bits - 1) ≤ v) then (v : Int) - ((2 ^ t.bits : Nat) : Int) else (v : Int)

/-- The representation in `t` of the mathematical value `i` (modulo 2^N). -/
def Ty.ofInt (t : Ty) (i : Int) : Nat := (i % ((2 ^ t.bits : Nat) : Int)).toNat

/-- `i` is representable in `t`. -/
def Ty.fits (t : Ty) (i : Int) : Bool :=
  if t.signed then decide (-((2 ^ (t.bits - 1) : Nat) : Int) ≤ i ∧ i < ((2 ^ (t.bits - 1) : Nat) : Int))
  else decide (0 ≤ i ∧ i < ((2 ^ t.bits : Nat) : Int))

/-- Integral conversion from `src` to `dst`. -/
def conv (src dst : Ty) (v : Nat) : Nat := dst.ofInt (src.toInt v)

/-- Result of an arithmetic operation whose mathematical value is `r`: wraps for unsigned
    types, undefined when not representable in a signed type. -/
def arith (t : Ty) (r : Int) : Option Nat :=
  if t.signed then (if t.fits r then some (t.ofInt r) else none) else some (t.ofInt r)

def b2n (b : Bool) : Nat := if b then 1 else 0

def evalBin (op : BinOp) (t : Ty) (a b : Nat) : Option Nat :=
  match op with
  | .add => arith t (t.toInt a + t.toInt b)
  | .sub => arith t (t.toInt a - t.toInt b)
  | .mul => arith t (t.toInt a * t.toInt b)
  | .div => if b = 0 then none else arith t (Int.tdiv (t.toInt a) (t.toInt b))
  | .rem => if b = 0 then none
            else if t.signed && !(t.fits (Int.tdiv (t.toInt a) (t.toInt b))) then none
            else some (t.ofInt (Int.tmod (t.toInt a) (t.toInt b)))
  | .shl => if t.bits ≤ b then none
            else if t.signed then (if 2 ^ (t.bits - 1) ≤ a <<< b then none else some (a <<< b))
            else some ((a <<< b) % 2 ^ t.bits)
  | .shr => if t.bits ≤ b then none
            else if t.signed then some (t.ofInt (t.toInt a >>> b)) else some (a >>> b)
  | .band => some (a &&& b)
  | .bor => some (a ||| b)
  | .bxor => some (a ^^^ b)
  | .lt => some (b2n (decide (t.toInt a < t.toInt b)))
  | .le => some (b2n (decide (t.toInt a ≤ t.toInt b)))
  | .gt => some (b2n (decide (t.toInt a > t.toInt b)))
  | .ge => some (b2n (decide (t.toInt a ≥ t.toInt b)))
  | .eq => some (b2n (decide (a = b)))
  | .ne => some (b2n (decide (a ≠ b)))
  | .land => some (b2n (decide (a ≠ 0 ∧ b ≠ 0)))     -- (short-circuit is in `evalE`)
  | .lor => some (b2n (decide (a ≠ 0 ∨ b ≠ 0)))

def evalUn (op : UnOp) (t : Ty) (a : Nat) : Option Nat :=
  match op with
  | .neg => arith t (- t.toInt a)
  | .bnot => some (a ^^^ (2 ^ t.bits - 1))
  | .lnot => some (b2n (decide (a = 0)))

/-! ### environment and state -/

structure Env where
  prog   : List Fn
  glob   : String → Nat                        -- addresses of the constant tables
  rom    : Nat → Byte                          -- constant data
  ext    : String → List Nat → Option Nat      -- functions defined elsewhere (Byteorder.h)
  endian : Endian

structure St where
  mem : Mem
  log : List Access

/-- Parameter and local slots of the running function (total; unset slots read 0). -/
abbrev Locals := Nat → Nat

def upd (L : Locals) (i v : Nat) : Locals := fun j => if j = i then v else L j

def evalE (env : Env) (L : Locals) : Expr → Option Nat
  | .lit v => some v
  | .var i => some (L i)
  | .glob n => some (env.glob n)
  | .rom8 a => (evalE env L a).map fun p => (env.rom p).val
  | .cast s d e => (evalE env L e).map (conv s d)
  | .bin .land _ a b =>
      (evalE env L a).bind fun x =>
        if x = 0 then some 0 else (evalE env L b).map fun y => b2n (decide (y ≠ 0))
  | .bin .lor _ a b =>
      (evalE env L a).bind fun x =>
        if x ≠ 0 then some 1 else (evalE env L b).map fun y => b2n (decide (y ≠ 0))
  | .bin op t a b =>
      (evalE env L a).bind fun x => (evalE env L b).bind fun y => evalBin op t x y
  | .un op t a => (evalE env L a).bind (evalUn op t)
  | .cond c a b =>
      (evalE env L c).bind fun x => if x ≠ 0 then evalE env L a else evalE env L b

def evalArgs (env : Env) (L : Locals) : List Expr → Option (List Nat)
  | [] => some []
  | e :: es => (evalE env L e).bind fun v => (evalArgs env L es).map (v :: ·)

/-- Control outcome of a statement. -/
inductive Ctl | next | ret (v : Nat)
  deriving DecidableEq, Repr

def mkFrame (args : List Nat) : Locals := fun i => args.getD i 0

def findFn (p : List Fn) (name : String) : Option Fn := p.find? (fun f => f.name == name)

def setDst (L : Locals) (dst : Option Nat) (v : Nat) : Locals :=
  match dst with | some i => upd L i v | none => L

/-- `memcpy` is undefined on overlapping objects. -/
def disjointRanges (d s n : Nat) : Bool := decide (n = 0 ∨ d + n ≤ s ∨ s + n ≤ d)

def exec (env : Env) : Nat → Stmt → Locals → St → Option (Ctl × Locals × St)
  | 0, _, _, _ => none
  | _ + 1, .skip, L, s => some (.next, L, s)
  | _ + 1, .set i e, L, s => (evalE env L e).map fun v => (.next, upd L i v, s)
  | f + 1, .seq a b, L, s =>
      (exec env f a L s).bind fun r =>
        match r with
        | (.next, L1, s1) => exec env f b L1 s1
        | (.ret v, L1, s1) => some (.ret v, L1, s1)
  | f + 1, .ite c a b, L, s =>
      (evalE env L c).bind fun x => if x ≠ 0 then exec env f a L s else exec env f b L s
  | f + 1, .while c body, L, s =>
      (evalE env L c).bind fun x =>
        if x = 0 then some (.next, L, s)
        else (exec env f body L s).bind fun r =>
          match r with
          | (.next, L1, s1) => exec env f (.while c body) L1 s1
          | (.ret v, L1, s1) => some (.ret v, L1, s1)
  | _ + 1, .loadObj i k a, L, s =>
      (evalE env L a).bind fun p =>
        if p = 0 then none
        else some (.next, upd L i (load env.endian k s.mem p), { s with log := s.log ++ [⟨p, k, 1, false⟩] })
  | _ + 1, .storeObj a k i, L, s =>
      (evalE env L a).bind fun p =>
        if p = 0 then none
        else some (.next, L, { mem := store env.endian k s.mem p (L i),
                               log := s.log ++ [⟨p, k, 1, true⟩] })
  | _ + 1, .storeVal a k e, L, s =>
      (evalE env L a).bind fun p => (evalE env L e).bind fun v =>
        if p = 0 then none
        else some (.next, L, { mem := store env.endian k s.mem p v,
                               log := s.log ++ [⟨p, k, k, true⟩] })    -- a typed access: alignment k
  | _ + 1, .copy d sr n, L, s =>
      (evalE env L d).bind fun pd => (evalE env L sr).bind fun ps => (evalE env L n).bind fun k =>
        if k ≠ 0 && (pd = 0 || ps = 0) then none
        else if !(disjointRanges pd ps k) then none
        else some (.next, L, { mem := s.mem.write pd (s.mem.read ps k),
                               log := s.log ++ [⟨ps, k, 1, false⟩, ⟨pd, k, 1, true⟩] })
  | _ + 1, .fill d v n, L, s =>
      (evalE env L d).bind fun pd => (evalE env L v).bind fun x => (evalE env L n).bind fun k =>
        if k ≠ 0 && pd = 0 then none
        else some (.next, L, { mem := s.mem.write pd (List.replicate k (Fin.ofNat 256 x)),
                               log := s.log ++ [⟨pd, k, 1, true⟩] })
  | f + 1, .call dst fn args, L, s =>
      (evalArgs env L args).bind fun vs =>
        match findFn env.prog fn with
        | some F =>
          (exec env f F.body (mkFrame vs) s).map fun r =>
            match r with
            | (.ret v, _, s1) => (.next, setDst L dst v, s1)
            | (.next, _, s1) => (.next, setDst L dst 0, s1)
        | none => (env.ext fn vs).map fun v => (.next, setDst L dst v, s)
  | _ + 1, .ret e, L, s =>
      match e with
      | none => some (.ret 0, L, s)
      | some e => (evalE env L e).map fun v => (.ret v, L, s)

/-- Call a function of the program by name: result value (0 for `void`) and final state. -/
def callFn (env : Env) (fuel : Nat) (fn : String) (args : List Nat) (s : St) : Option (Nat × St) :=
  match findFn env.prog fn with
  | some F =>
    (exec env fuel F.body (mkFrame args) s).map fun r =>
      match r with
      | (.ret v, _, s1) => (v, s1)
      | (.next, _, s1) => (0, s1)
  | none => none

end O1722.C
