/-
  CSem/Syntax.lean — abstract syntax of the C subset in which the algorithmic functions of
  Open1722 (Utils.c, the ACF-CAN builders, Avtp_Vss_Pad, ...) are written.  `tools/cir.py`
  serialises clang's *typed* AST of /repo's current sources into these constructors on every
  run (Gen/Cir.lean); nothing in the serialiser decides what an operation means — every
  implicit conversion is an explicit `cast` node with source and target type taken from clang,
  every operator carries the type clang computed it in.  The meaning is CSem/Eval.lean.

  Values are natural numbers: an integer object of type `t` holds its two's-complement
  representation `< 2 ^ t.bits`; pointers are byte addresses (`u64`, NULL = 0).
-/
import O1722.Model.Utils

namespace O1722.C

/-- Integer types (pointers are `u64` addresses). -/
inductive Ty | u8 | u16 | u32 | u64 | i8 | i16 | i32 | i64
  deriving DecidableEq, Repr

def Ty.bits : Ty → Nat
  | .u8 | .i8 => 8
  | .u16 | .i16 => 16
  | .u32 | .i32 => 32
  | .u64 | .i64 => 64

def Ty.signed : Ty → Bool
  | .i8 | .i16 | .i32 | .i64 => true
  | _ => false

inductive BinOp
  | add | sub | mul | div | rem | shl | shr | band | bor | bxor
  | lt | le | gt | ge | eq | ne | land | lor
  deriving DecidableEq, Repr

inductive UnOp | neg | bnot | lnot
  deriving DecidableEq, Repr

/-- Side-effect-free expressions (calls are statements; the serialiser hoists them). -/
inductive Expr
  | lit (v : Nat)                              -- a constant, already in its type's representation
  | var (i : Nat)                              -- parameter / local slot
  | glob (name : String)                       -- address of a named constant object (descriptor table)
  | rom8 (a : Expr)                            -- `*(const uint8_t*) a` inside constant data
  | cast (src dst : Ty) (e : Expr)             -- integral conversion
  | bin (op : BinOp) (t : Ty) (a b : Expr)     -- `t`: type of the (converted) operands; for shifts of the left one
  | un (op : UnOp) (t : Ty) (a : Expr)
  | cond (c a b : Expr)                        -- `c ? a : b`
  deriving Repr, DecidableEq

inductive Stmt
  | skip
  | set (i : Nat) (e : Expr)                   -- `x_i = e` (also declarations with initialiser, `+=` expanded)
  | seq (a b : Stmt)
  | ite (c : Expr) (a b : Stmt)
  | while (c : Expr) (body : Stmt)
  | loadObj (i k : Nat) (a : Expr)             -- `memcpy(&x_i, a, k)`, `x_i` a `k`-byte unsigned integer object
  | storeObj (a : Expr) (k i : Nat)            -- `memcpy(a, &x_i, k)`
  | storeVal (a : Expr) (k : Nat) (e : Expr)   -- `*(uintK_t*)a = e`: a typed store of `k` bytes (out-parameters)
  | copy (d s n : Expr)                        -- `memcpy(d, s, n)` between byte buffers
  | fill (d v n : Expr)                        -- `memset(d, v, n)`
  | call (dst : Option Nat) (f : String) (args : List Expr)
  | ret (e : Option Expr)
  deriving Repr, DecidableEq

structure Fn where
  name    : String
  nparams : Nat
  nlocals : Nat          -- parameters included
  body    : Stmt
  deriving Repr

end O1722.C
