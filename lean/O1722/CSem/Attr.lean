/- Simp set used to run C function bodies symbolically (CSem/Lemmas.lean fills it). -/
import Lean.Meta.Tactic.Simp.RegisterCommand
register_simp_attr csem
