/-
  CSem/Lemmas.lean — evaluation lemmas for CSem/Eval.lean on values that are in range: they
  let `simp` run a C function body symbolically and leave plain `Nat` arithmetic behind.
  Helper lemmas only (no property statements).
-/
import O1722.CSem.Eval
import O1722.CSem.Attr

namespace O1722.C

/-! ### representation ↔ value -/

theorem toInt_u8 (v : Nat) : Ty.toInt .u8 v = (v : Int) := by simp [Ty.toInt, Ty.signed]
theorem toInt_u16 (v : Nat) : Ty.toInt .u16 v = (v : Int) := by simp [Ty.toInt, Ty.signed]
theorem toInt_u32 (v : Nat) : Ty.toInt .u32 v = (v : Int) := by simp [Ty.toInt, Ty.signed]
theorem toInt_u64 (v : Nat) : Ty.toInt .u64 v = (v : Int) := by simp [Ty.toInt, Ty.signed]

theorem toInt_i32_small (v : Nat) (h : v < 2147483648) : Ty.toInt .i32 v = (v : Int) := by
  simp [Ty.toInt, Ty.signed, Ty.bits]
  intro h'; have := of_decide_eq_true h'; omega

theorem toInt_i32_neg (v : Nat) (h : 2147483648 ≤ v) : Ty.toInt .i32 v = (v : Int) - 4294967296 := by
  simp [Ty.toInt, Ty.signed, Ty.bits]
  intro h'; have := of_decide_eq_false h'; omega

theorem ofInt_natCast (t : Ty) (v : Nat) : t.ofInt (v : Int) = v % 2 ^ t.bits := by
  unfold Ty.ofInt
  rw [← Int.natCast_emod, Int.toNat_natCast]

/-- Conversion from an unsigned type: reduction modulo 2^N of the target. -/
theorem conv_of_unsigned (s d : Ty) (v : Nat) (hs : s.signed = false) : conv s d v = v % 2 ^ d.bits := by
  unfold conv
  have : s.toInt v = (v : Int) := by simp [Ty.toInt, hs]
  rw [this, ofInt_natCast]

@[csem] theorem conv_u8 (d : Ty) (v : Nat) : conv .u8 d v = v % 2 ^ d.bits := conv_of_unsigned _ _ _ rfl
@[csem] theorem conv_u16 (d : Ty) (v : Nat) : conv .u16 d v = v % 2 ^ d.bits := conv_of_unsigned _ _ _ rfl
@[csem] theorem conv_u32 (d : Ty) (v : Nat) : conv .u32 d v = v % 2 ^ d.bits := conv_of_unsigned _ _ _ rfl
@[csem] theorem conv_u64 (d : Ty) (v : Nat) : conv .u64 d v = v % 2 ^ d.bits := conv_of_unsigned _ _ _ rfl

/-- Conversion from a non-negative `int`. -/
theorem conv_i32_small (d : Ty) (v : Nat) (h : v < 2147483648) : conv .i32 d v = v % 2 ^ d.bits := by
  unfold conv; rw [toInt_i32_small v h, ofInt_natCast]

/-- Conversion from any `int` to a type of at most 32 bits: the low bits of the representation. -/
theorem conv_i32_narrow (d : Ty) (v : Nat) (hv : v < 4294967296) (hd : d.bits ≤ 32) :
    conv .i32 d v = v % 2 ^ d.bits := by
  by_cases h : v < 2147483648
  · exact conv_i32_small d v h
  · unfold conv; rw [toInt_i32_neg v (by omega)]
    cases d <;> simp [Ty.ofInt, Ty.bits] at hd ⊢ <;> omega

@[csem] theorem conv_i32_u8 (v : Nat) (hv : v < 4294967296) : conv .i32 .u8 v = v % 256 :=
  conv_i32_narrow .u8 v hv (by decide)
@[csem] theorem conv_i32_u16 (v : Nat) (hv : v < 4294967296) : conv .i32 .u16 v = v % 65536 :=
  conv_i32_narrow .u16 v hv (by decide)
@[csem] theorem conv_i32_u32 (v : Nat) (hv : v < 4294967296) : conv .i32 .u32 v = v := by
  rw [conv_i32_narrow .u32 v hv (by decide)]; exact Nat.mod_eq_of_lt hv
@[csem] theorem conv_i32_u64 (v : Nat) (hv : v < 2147483648) : conv .i32 .u64 v = v := by
  rw [conv_i32_small .u64 v hv]; simp only [Ty.bits]; exact Nat.mod_eq_of_lt (by omega)

/-! ### arithmetic on in-range operands -/

theorem fits_i32 (r : Int) (h1 : -2147483648 ≤ r) (h2 : r < 2147483648) : Ty.fits .i32 r = true := by
  simp [Ty.fits, Ty.signed, Ty.bits]
  exact decide_eq_true ⟨h1, h2⟩

@[csem] theorem add_i32 (a b : Nat) (h : a + b < 2147483648) : evalBin .add .i32 a b = some (a + b) := by
  simp only [evalBin, arith, Ty.signed, if_true]
  rw [toInt_i32_small a (by omega), toInt_i32_small b (by omega), fits_i32 _ (by omega) (by omega), if_pos rfl]
  rw [← Int.natCast_add, ofInt_natCast]
  simp only [Ty.bits]; rw [Nat.mod_eq_of_lt]; omega

/-- `a - b` in `int` for non-negative operands: the result may be negative (two's complement). -/
theorem sub_i32 (a b : Nat) (ha : a < 2147483648) (hb : b < 2147483648) :
    evalBin .sub .i32 a b = some ((a + 4294967296 - b) % 4294967296) := by
  simp only [evalBin, arith, Ty.signed, if_true]
  rw [toInt_i32_small a ha, toInt_i32_small b hb, fits_i32 _ (by omega) (by omega), if_pos rfl]
  congr 1
  simp [Ty.ofInt, Ty.bits]
  omega

@[csem] theorem sub_i32_le (a b : Nat) (ha : a < 2147483648) (hb : b ≤ a) : evalBin .sub .i32 a b = some (a - b) := by
  rw [sub_i32 a b ha (by omega)]; congr 1; omega

@[csem] theorem mul_i32 (a b : Nat) (h : a * b < 2147483648) (ha : a < 2147483648) (hb : b < 2147483648) :
    evalBin .mul .i32 a b = some (a * b) := by
  simp only [evalBin, arith, Ty.signed, if_true]
  rw [toInt_i32_small a ha, toInt_i32_small b hb, ← Int.natCast_mul,
    fits_i32 _ (by omega) (by omega), if_pos rfl, ofInt_natCast]
  simp only [Ty.bits]; rw [Nat.mod_eq_of_lt]; omega

@[csem] theorem rem_i32 (a b : Nat) (ha : a < 2147483648) (hb : b < 2147483648) (hb0 : b ≠ 0) :
    evalBin .rem .i32 a b = some (a % b) := by
  simp only [evalBin, if_neg hb0, Ty.signed, Bool.true_and]
  rw [toInt_i32_small a ha, toInt_i32_small b hb]
  have hd : Int.tdiv (a : Int) (b : Int) = ((a / b : Nat) : Int) := by
    rw [Int.tdiv_eq_ediv_of_nonneg (by omega)]; exact (Int.natCast_ediv a b).symm
  have hm : Int.tmod (a : Int) (b : Int) = ((a % b : Nat) : Int) := by
    rw [Int.tmod_eq_emod_of_nonneg (by omega)]; exact (Int.natCast_emod a b).symm
  have hle : a / b ≤ a := Nat.div_le_self a b
  have hlt : a % b < b := Nat.mod_lt _ (by omega)
  generalize a / b = q at hd hle
  generalize a % b = r at hm hlt
  rw [hd, hm, fits_i32 _ (by omega) (by omega)]
  simp only [Bool.not_true, Bool.false_eq_true, if_false]
  rw [ofInt_natCast]; simp only [Ty.bits]
  rw [Nat.mod_eq_of_lt]; omega

@[csem] theorem lt_i32 (a b : Nat) (ha : a < 2147483648) (hb : b < 2147483648) :
    evalBin .lt .i32 a b = some (b2n (decide (a < b))) := by
  simp only [evalBin]; rw [toInt_i32_small a ha, toInt_i32_small b hb]; simp

@[csem] theorem eq_any (t : Ty) (a b : Nat) : evalBin .eq t a b = some (b2n (decide (a = b))) := rfl
@[csem] theorem ne_any (t : Ty) (a b : Nat) : evalBin .ne t a b = some (b2n (decide (a ≠ b))) := rfl

@[csem] theorem lt_u32 (a b : Nat) : evalBin .lt .u32 a b = some (b2n (decide (a < b))) := by
  simp only [evalBin, toInt_u32]; simp
@[csem] theorem gt_u32 (a b : Nat) : evalBin .gt .u32 a b = some (b2n (decide (a > b))) := by
  simp only [evalBin, toInt_u32]; simp

@[csem] theorem add_u64 (a b : Nat) : evalBin .add .u64 a b = some ((a + b) % 18446744073709551616) := by
  simp only [evalBin, arith, Ty.signed, toInt_u64]
  rw [← Int.natCast_add, ofInt_natCast]; simp [Ty.bits]

@[csem] theorem add_u32 (a b : Nat) : evalBin .add .u32 a b = some ((a + b) % 4294967296) := by
  simp only [evalBin, arith, Ty.signed, toInt_u32]
  rw [← Int.natCast_add, ofInt_natCast]; simp [Ty.bits]

@[csem] theorem mul_u64 (a b : Nat) : evalBin .mul .u64 a b = some ((a * b) % 18446744073709551616) := by
  simp only [evalBin, arith, Ty.signed, toInt_u64]
  rw [← Int.natCast_mul, ofInt_natCast]; simp [Ty.bits]

@[csem] theorem sub_u64_le (a b : Nat) (ha : a < 18446744073709551616) (hb : b ≤ a) :
    evalBin .sub .u64 a b = some (a - b) := by
  simp only [evalBin, arith, Ty.signed, toInt_u64]
  congr 1
  simp [Ty.ofInt, Ty.bits]; omega

@[csem] theorem div_u64 (a b : Nat) (ha : a < 18446744073709551616) (hb0 : b ≠ 0) :
    evalBin .div .u64 a b = some (a / b) := by
  simp only [evalBin, if_neg hb0, arith, Ty.signed, toInt_u64]
  have hd : Int.tdiv (a : Int) (b : Int) = ((a / b : Nat) : Int) := by
    rw [Int.tdiv_eq_ediv_of_nonneg (by omega)]; exact (Int.natCast_ediv a b).symm
  have hle : a / b ≤ a := Nat.div_le_self a b
  generalize a / b = q at hd hle
  rw [hd, ofInt_natCast]; simp only [Ty.bits]
  simp only [Bool.false_eq_true, if_false]
  rw [Nat.mod_eq_of_lt]; omega

@[csem] theorem shl_u64 (a b : Nat) (hb : b < 64) :
    evalBin .shl .u64 a b = some ((a <<< b) % 18446744073709551616) := by
  have : ¬ 64 ≤ b := by omega
  simp [evalBin, Ty.bits, Ty.signed, this]

@[csem] theorem shl_u32 (a b : Nat) (hb : b < 32) :
    evalBin .shl .u32 a b = some ((a <<< b) % 4294967296) := by
  have : ¬ 32 ≤ b := by omega
  simp [evalBin, Ty.bits, Ty.signed, this]

@[csem] theorem shr_u32 (a b : Nat) (hb : b < 32) : evalBin .shr .u32 a b = some (a >>> b) := by
  have : ¬ 32 ≤ b := by omega
  simp [evalBin, Ty.bits, Ty.signed, this]

@[csem] theorem shr_u64 (a b : Nat) (hb : b < 64) : evalBin .shr .u64 a b = some (a >>> b) := by
  have : ¬ 64 ≤ b := by omega
  simp [evalBin, Ty.bits, Ty.signed, this]

@[csem] theorem band_any (t : Ty) (a b : Nat) : evalBin .band t a b = some (a &&& b) := rfl
@[csem] theorem bor_any (t : Ty) (a b : Nat) : evalBin .bor t a b = some (a ||| b) := rfl
@[csem] theorem bnot_u32 (a : Nat) : evalUn .bnot .u32 a = some (a ^^^ 4294967295) := rfl

end O1722.C
