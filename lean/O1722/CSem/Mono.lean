/- CSem/Mono.lean — more fuel never changes a result (`exec_mono`, `exec_le`, `callFn_le`). -/
import O1722.CSem.Lemmas
open O1722 O1722.C
namespace O1722.C

theorem exec_mono (env : Env) : ∀ (f : Nat) (s : Stmt) (L : Locals) (st : St) (r : Ctl × Locals × St),
    exec env f s L st = some r → exec env (f + 1) s L st = some r := by
  intro f
  induction f with
  | zero => intro s L st r h; simp [exec] at h
  | succ f ih =>
    intro s L st r h
    cases s with
    | skip => simpa [exec] using h
    | set i e => simpa [exec] using h
    | seq a b =>
      rw [exec] at h ⊢
      cases ha : exec env f a L st with
      | none => simp [ha] at h
      | some ra =>
        rw [ih a L st ra ha]
        rw [ha] at h
        obtain ⟨c, L1, s1⟩ := ra
        cases c with
        | next => simp only [Option.bind] at h ⊢; exact ih b L1 s1 r h
        | ret v => simpa using h
    | ite c a b =>
      rw [exec] at h ⊢
      cases hc : evalE env L c with
      | none => simp [hc] at h
      | some x =>
        simp only [hc, Option.bind] at h ⊢
        by_cases hx : x ≠ 0
        · rw [if_pos hx] at h ⊢; exact ih a L st r h
        · rw [if_neg hx] at h ⊢; exact ih b L st r h
    | «while» c b =>
      rw [exec] at h ⊢
      cases hc : evalE env L c with
      | none => simp [hc] at h
      | some x =>
        simp only [hc, Option.bind] at h ⊢
        by_cases hx : x = 0
        · simpa [hx] using h
        · rw [if_neg hx] at h ⊢
          cases hb : exec env f b L st with
          | none => simp [hb] at h
          | some rb =>
            rw [ih b L st rb hb]
            rw [hb] at h
            obtain ⟨c', L1, s1⟩ := rb
            cases c' with
            | next => simp only at h ⊢; exact ih _ L1 s1 r h
            | ret v => simpa using h
    | loadObj i k a => simpa [exec] using h
    | storeObj a k i => simpa [exec] using h
    | storeVal a k e => simpa [exec] using h
    | copy d s n => simpa [exec] using h
    | fill d v n => simpa [exec] using h
    | call dst fn args =>
      rw [exec] at h ⊢
      cases hargs : evalArgs env L args with
      | none => simp [hargs] at h
      | some vs =>
        simp only [hargs, Option.bind] at h ⊢
        cases hF : findFn env.prog fn with
        | none => simpa [hF] using h
        | some F =>
          simp only [hF] at h ⊢
          cases hb : exec env f F.body (mkFrame vs) st with
          | none => simp [hb] at h
          | some rb => rw [ih _ _ _ rb hb]; rw [hb] at h; exact h
    | ret e => simpa [exec] using h

theorem exec_le (env : Env) {f g : Nat} (hfg : f ≤ g) {s : Stmt} {L : Locals} {st : St} {r : Ctl × Locals × St}
    (h : exec env f s L st = some r) : exec env g s L st = some r := by
  induction hfg with
  | refl => exact h
  | step _ ih => exact exec_mono env _ _ _ _ _ ih

theorem callFn_le (env : Env) {f g : Nat} (hfg : f ≤ g) {fn : String} {args : List Nat} {st : St} {r : Nat × St}
    (h : callFn env f fn args st = some r) : callFn env g fn args st = some r := by
  unfold callFn at h ⊢
  cases hF : findFn env.prog fn with
  | none => simp [hF] at h
  | some F =>
    simp only [hF] at h ⊢
    cases hb : exec env f F.body (mkFrame args) st with
    | none => simp [hb] at h
    | some rb => rw [exec_le env hfg hb]; rw [hb] at h; exact h
end O1722.C
