/-
  CSem/Frame.lean — a theorem about EVERY program of the C subset (hence about all 492 serialised
  functions of the library at once): running a statement only ever EXTENDS the access log, and the
  memory afterwards differs from the memory before only at addresses covered by a WRITE entry the run
  appended.  The access log is therefore a sound footprint: the per-function facts "every logged access
  lies inside the field's quadlets / is byte-wise" (C03, C15) and "readers log no write" (C16) bound
  what the C text can touch.
-/
import O1722.CSem.Mono
import O1722.Lemmas.Mem
open O1722
namespace O1722.C

/-- `a` lies in a write entry of `ws`. -/
def Covered (ws : List Access) (a : Nat) : Prop :=
  ∃ w ∈ ws, w.write = true ∧ w.addr ≤ a ∧ a < w.addr + w.width

theorem covered_append {w1 w2 : List Access} {a : Nat} : Covered (w1 ++ w2) a ↔ Covered w1 a ∨ Covered w2 a := by
  unfold Covered
  constructor
  · rintro ⟨w, hw, h⟩
    rcases List.mem_append.mp hw with h1 | h2
    · exact Or.inl ⟨w, h1, h⟩
    · exact Or.inr ⟨w, h2, h⟩
  · rintro (⟨w, hw, h⟩ | ⟨w, hw, h⟩)
    · exact ⟨w, List.mem_append.mpr (Or.inl hw), h⟩
    · exact ⟨w, List.mem_append.mpr (Or.inr hw), h⟩

theorem write_outside (m : Mem) (p : Nat) (bs : List Byte) (a : Nat) (h : ¬ (p ≤ a ∧ a < p + bs.length)) :
    (m.write p bs) a = m a := by
  rw [Mem.write_apply, dif_neg h]

theorem bytesLE_len : ∀ (k x : Nat), (bytesLE k x).length = k := by
  intro k; induction k with
  | zero => intro x; rfl
  | succ k ih => intro x; simp [bytesLE, ih]

theorem bytesBE_len : ∀ (k x : Nat), (bytesBE k x).length = k := by
  intro k; induction k with
  | zero => intro x; rfl
  | succ k ih => intro x; simp [bytesBE, ih]

theorem store_outside (e : Endian) (k : Nat) (m : Mem) (p x a : Nat) (h : ¬ (p ≤ a ∧ a < p + k)) :
    (store e k m p x) a = m a := by
  cases e
  · simp only [store]; exact write_outside m p _ a (by rw [bytesLE_len]; exact h)
  · simp only [store]; exact write_outside m p _ a (by rw [bytesBE_len]; exact h)

theorem read_len (m : Mem) : ∀ (n a : Nat), (m.read a n).length = n := by
  intro n; induction n with
  | zero => intro a; rfl
  | succ n ih => intro a; simp [Mem.read, ih]

/-- The frame property of one run. -/
def Framed (st : St) (r : Ctl × Locals × St) : Prop :=
  ∃ ext, r.2.2.log = st.log ++ ext ∧ ∀ a, ¬ Covered ext a → r.2.2.mem a = st.mem a

theorem framed_refl (c : Ctl) (L : Locals) (st : St) : Framed st (c, L, st) :=
  ⟨[], by simp, fun _ _ => rfl⟩

theorem framed_trans {st : St} {c1 : Ctl} {L1 : Locals} {s1 : St} {r : Ctl × Locals × St}
    (h1 : Framed st (c1, L1, s1)) (h2 : Framed s1 r) : Framed st r := by
  obtain ⟨e1, hl1, hm1⟩ := h1
  obtain ⟨e2, hl2, hm2⟩ := h2
  refine ⟨e1 ++ e2, by rw [hl2, hl1, List.append_assoc], ?_⟩
  intro a ha
  have := covered_append (w1 := e1) (w2 := e2) (a := a)
  rw [hm2 a (fun h => ha (this.mpr (Or.inr h))), hm1 a (fun h => ha (this.mpr (Or.inl h)))]

theorem framed_one (st : St) (c : Ctl) (L : Locals) (m' : Mem) (w : Access) (hw : w.write = true)
    (h : ∀ a, ¬ (w.addr ≤ a ∧ a < w.addr + w.width) → m' a = st.mem a) (pre : List Access)
    (hpre : ∀ x ∈ pre, x.write = false) :
    Framed st (c, L, ⟨m', st.log ++ pre ++ [w]⟩) := by
  refine ⟨pre ++ [w], by simp [List.append_assoc], ?_⟩
  intro a ha
  apply h
  intro hin
  exact ha ⟨w, by simp, hw, hin.1, hin.2⟩

theorem exec_frame (env : Env) : ∀ (f : Nat) (s : Stmt) (L : Locals) (st : St) (r : Ctl × Locals × St),
    exec env f s L st = some r → Framed st r := by
  intro f
  induction f with
  | zero => intro s L st r h; simp [exec] at h
  | succ f ih =>
    intro s L st r h
    cases s with
    | skip => simp [exec] at h; subst h; exact framed_refl _ _ _
    | set i e =>
      simp only [exec] at h
      cases he : evalE env L e with
      | none => simp [he] at h
      | some v => simp [he] at h; subst h; exact framed_refl _ _ _
    | seq a b =>
      rw [exec] at h
      cases ha : exec env f a L st with
      | none => simp [ha] at h
      | some ra =>
        rw [ha] at h
        obtain ⟨c, L1, s1⟩ := ra
        have h1 := ih a L st _ ha
        cases c with
        | next => simp only [Option.bind] at h; exact framed_trans h1 (ih b L1 s1 r h)
        | ret v => simp at h; subst h; exact h1
    | ite c a b =>
      rw [exec] at h
      cases hc : evalE env L c with
      | none => simp [hc] at h
      | some x =>
        simp only [hc, Option.bind] at h
        by_cases hx : x ≠ 0
        · rw [if_pos hx] at h; exact ih a L st r h
        · rw [if_neg hx] at h; exact ih b L st r h
    | «while» c b =>
      rw [exec] at h
      cases hc : evalE env L c with
      | none => simp [hc] at h
      | some x =>
        simp only [hc, Option.bind] at h
        by_cases hx : x = 0
        · simp [hx] at h; subst h; exact framed_refl _ _ _
        · rw [if_neg hx] at h
          cases hb : exec env f b L st with
          | none => simp [hb] at h
          | some rb =>
            rw [hb] at h
            obtain ⟨c', L1, s1⟩ := rb
            have h1 := ih b L st _ hb
            cases c' with
            | next => simp only at h; exact framed_trans h1 (ih _ L1 s1 r h)
            | ret v => simp at h; subst h; exact h1
    | loadObj i k a =>
      simp only [exec] at h
      cases ha : evalE env L a with
      | none => simp [ha] at h
      | some p =>
        simp only [ha, Option.bind] at h
        by_cases hp : p = 0
        · simp [hp] at h
        · simp [hp] at h; subst h
          exact ⟨[⟨p, k, 1, false⟩], rfl, fun _ _ => rfl⟩
    | storeObj a k i =>
      simp only [exec] at h
      cases ha : evalE env L a with
      | none => simp [ha] at h
      | some p =>
        simp only [ha, Option.bind] at h
        by_cases hp : p = 0
        · simp [hp] at h
        · simp [hp] at h; subst h
          have := framed_one st .next L (store env.endian k st.mem p (L i)) ⟨p, k, 1, true⟩ rfl
            (fun a ha' => store_outside _ _ _ _ _ _ ha') [] (by simp)
          simpa using this
    | storeVal a k e =>
      simp only [exec] at h
      cases ha : evalE env L a with
      | none => simp [ha] at h
      | some p =>
        cases he : evalE env L e with
        | none => simp [ha, he] at h
        | some v =>
          simp only [ha, he, Option.bind] at h
          by_cases hp : p = 0
          · simp [hp] at h
          · simp [hp] at h; subst h
            have := framed_one st .next L (store env.endian k st.mem p v) ⟨p, k, k, true⟩ rfl
              (fun a ha' => store_outside _ _ _ _ _ _ ha') [] (by simp)
            simpa using this
    | copy d sr n =>
      simp only [exec] at h
      cases hd : evalE env L d with
      | none => simp [hd] at h
      | some pd =>
        cases hs : evalE env L sr with
        | none => simp [hd, hs] at h
        | some ps =>
          cases hn : evalE env L n with
          | none => simp [hd, hs, hn] at h
          | some k =>
            simp only [hd, hs, hn, Option.bind] at h
            split at h
            · cases h
            · split at h
              · cases h
              · simp at h; subst h
                have := framed_one st .next L (st.mem.write pd (st.mem.read ps k)) ⟨pd, k, 1, true⟩ rfl
                  (fun a ha' => write_outside _ _ _ _ (by rw [read_len]; exact ha')) [⟨ps, k, 1, false⟩] (by simp)
                simpa [List.append_assoc] using this
    | fill d v n =>
      simp only [exec] at h
      cases hd : evalE env L d with
      | none => simp [hd] at h
      | some pd =>
        cases hv : evalE env L v with
        | none => simp [hd, hv] at h
        | some x =>
          cases hn : evalE env L n with
          | none => simp [hd, hv, hn] at h
          | some k =>
            simp only [hd, hv, hn, Option.bind] at h
            split at h
            · cases h
            · simp at h; subst h
              have := framed_one st .next L (st.mem.write pd (List.replicate k (Fin.ofNat 256 x))) ⟨pd, k, 1, true⟩ rfl
                (fun a ha' => write_outside _ _ _ _ (by rw [List.length_replicate]; exact ha')) [] (by simp)
              simpa using this
    | call dst fn args =>
      rw [exec] at h
      cases hargs : evalArgs env L args with
      | none => simp [hargs] at h
      | some vs =>
        simp only [hargs, Option.bind] at h
        cases hF : findFn env.prog fn with
        | none =>
          simp only [hF] at h
          cases hx : env.ext fn vs with
          | none => simp [hx] at h
          | some v => simp [hx] at h; subst h; exact framed_refl _ _ _
        | some F =>
          simp only [hF] at h
          cases hb : exec env f F.body (mkFrame vs) st with
          | none => simp [hb] at h
          | some rb =>
            rw [hb] at h
            obtain ⟨c, L1, s1⟩ := rb
            obtain ⟨ext, hl, hm⟩ := ih _ _ _ _ hb
            cases c with
            | next => simp at h; subst h; exact ⟨ext, hl, hm⟩
            | ret w => simp at h; subst h; exact ⟨ext, hl, hm⟩
    | ret e =>
      simp only [exec] at h
      cases e with
      | none => simp at h; subst h; exact framed_refl _ _ _
      | some e =>
        cases he : evalE env L e with
        | none => simp [he] at h
        | some v => simp [he] at h; subst h; exact framed_refl _ _ _

/-- **Footprint soundness for whole function calls.** -/
theorem callFn_frame (env : Env) (f : Nat) (fn : String) (args : List Nat) (st : St) (v : Nat) (st' : St)
    (h : callFn env f fn args st = some (v, st')) :
    ∃ ext, st'.log = st.log ++ ext ∧ ∀ a, ¬ Covered ext a → st'.mem a = st.mem a := by
  unfold callFn at h
  cases hF : findFn env.prog fn with
  | none => simp [hF] at h
  | some F =>
    simp only [hF] at h
    cases hb : exec env f F.body (mkFrame args) st with
    | none => simp [hb] at h
    | some rb =>
      rw [hb] at h
      obtain ⟨c, L1, s1⟩ := rb
      obtain ⟨ext, hl, hm⟩ := exec_frame env _ _ _ _ _ hb
      cases c with
      | next => simp at h; obtain ⟨_, h2⟩ := h; subst h2; exact ⟨ext, hl, hm⟩
      | ret w => simp at h; obtain ⟨_, h2⟩ := h; subst h2; exact ⟨ext, hl, hm⟩

end O1722.C
