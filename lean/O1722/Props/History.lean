/-
  Props/History.lean — property theorem C05: under ANY finite history of initialisations
  and field writes a header behaves as a record of independent fields.

  Stated at the Spec level (reference writer `specSet`, canonical header): that every real
  entry point — generic, dedicated, legacy writer; current and legacy initialiser — *is* one
  of these two operations is C02_format / C04_format / legacySet_eq_current, whose
  obligations are instance obligations of C05 as well.
-/
import O1722.Props.Api

namespace O1722
open Spec

/-- One operation of a history on one header. -/
inductive HOp where
  /-- any initialiser of the format (`withArg`/`pv`: the legacy CVF one and its argument) -/
  | init (withArg : Bool) (pv : Nat)
  /-- any writer of field number `i` (Spec order) with value `v` -/
  | set (i : Nat) (v : Nat)
  deriving Repr

def HOp.apply (s : FormatSpec) (pdu : Nat) (m : Mem) : HOp → Mem
  | .init wa pv => s.canonical wa pv m pdu
  | .set i v =>
    match s.fields[i]? with
    | some fs => specSet m pdu fs.first fs.width (v % 2 ^ fs.width)
    | none => m

/-- Run a history, oldest operation first. -/
def runHist (s : FormatSpec) (pdu : Nat) (ops : List HOp) (m : Mem) : Mem :=
  ops.foldl (HOp.apply s pdu) m

/-- The same, most recent operation first (convenient for induction). -/
def runRev (s : FormatSpec) (pdu : Nat) (m0 : Mem) : List HOp → Mem
  | [] => m0
  | op :: older => op.apply s pdu (runRev s pdu m0 older)

theorem runHist_eq_runRev (s : FormatSpec) (pdu : Nat) (ops : List HOp) (m : Mem) :
    runHist s pdu ops m = runRev s pdu m ops.reverse := by
  induction ops generalizing m with
  | nil => rfl
  | cons op ops ih =>
    unfold runHist at *
    rw [List.foldl_cons, ih, List.reverse_cons]
    -- runRev over (rev ++ [op]) starting from m = runRev over rev starting from op.apply m
    generalize ops.reverse = r
    induction r with
    | nil => rfl
    | cons x xs ihx => simp only [List.cons_append, runRev, ihx]

/-- Content of field `fs` in a freshly initialised header (independent of address and of
    what the memory held). -/
def initValue (s : FormatSpec) (wa : Bool) (pv : Nat) (fs : FieldSpec) : Nat :=
  specGet (s.canonical wa pv (fun _ => 0) 0) 0 fs.first fs.width

/-- The value field number `j` must read after a history (most recent first): the last value
    written to it modulo its width, else its initialised content, else its initial content. -/
def expected (s : FormatSpec) (pdu : Nat) (m0 : Mem) (j : Nat) (fs : FieldSpec) : List HOp → Nat
  | [] => specGet m0 pdu fs.first fs.width
  | .set i v :: older => if i = j then v % 2 ^ fs.width else expected s pdu m0 j fs older
  | .init wa pv :: _ => initValue s wa pv fs

/-- Named fields do not overlap and lie inside the header. -/
def fieldsDisjoint (s : FormatSpec) : Bool :=
  s.fields.zipIdx.all (fun (a, i) => s.fields.zipIdx.all (fun (b, j) =>
    i == j || decide (a.first + a.width ≤ b.first ∨ b.first + b.width ≤ a.first)))
  && s.fields.all (fun a => decide (a.first + a.width ≤ 8 * s.headerLen))

theorem spec_fields_disjoint : Spec.all.all fieldsDisjoint = true := by decide

theorem canonical_bit (s : FormatSpec) (wa : Bool) (pv : Nat) (m : Mem) (pdu i : Nat)
    (hi : i < 8 * s.headerLen) :
    wireBit (s.canonical wa pv m pdu) pdu i
      = wireBit (s.canonical wa pv (fun _ => 0) 0) 0 i := by
  unfold FormatSpec.canonical
  rw [applyWrites_bit, applyWrites_bit, wireBit_zeroFill, wireBit_zeroFill, if_pos hi, if_pos hi]

theorem canonical_field (s : FormatSpec) (wa : Bool) (pv : Nat) (m : Mem) (pdu : Nat) (fs : FieldSpec)
    (hin : fs.first + fs.width ≤ 8 * s.headerLen) :
    specGet (s.canonical wa pv m pdu) pdu fs.first fs.width = initValue s wa pv fs := by
  unfold initValue
  apply Nat.eq_of_testBit_eq; intro k
  rw [specGet_testBit, specGet_testBit]
  by_cases hk : k < fs.width
  · rw [canonical_bit s wa pv m pdu _ (by omega)]
  · simp [hk]

theorem getElem_zipIdx_mem {α : Type} (l : List α) (i : Nat) (a : α) (h : l[i]? = some a) :
    (a, i) ∈ l.zipIdx := by
  rw [List.mem_zipIdx_iff_getElem?]
  simpa using h

/-- **C05 (fields).** After any history, every field reads as the last value written to it
    modulo its width — or its initialised / initial content if never written since. -/
theorem history_field (s : FormatSpec) (hd : fieldsDisjoint s = true) (pdu : Nat) (m0 : Mem)
    (j : Nat) (fs : FieldSpec) (hj : s.fields[j]? = some fs) :
    ∀ ops : List HOp,
      specGet (runRev s pdu m0 ops) pdu fs.first fs.width = expected s pdu m0 j fs ops := by
  simp only [fieldsDisjoint, Bool.and_eq_true, List.all_eq_true, decide_eq_true_eq] at hd
  obtain ⟨hdis, hin⟩ := hd
  intro ops
  induction ops with
  | nil => rfl
  | cons op older ih =>
    cases op with
    | init wa pv =>
      simp only [runRev, HOp.apply, expected]
      exact canonical_field s wa pv _ pdu fs (hin fs (List.mem_of_getElem? hj))
    | set i v =>
      simp only [runRev, HOp.apply, expected]
      cases hi : s.fields[i]? with
      | none =>
        have : i ≠ j := by intro h; subst h; rw [hj] at hi; cases hi
        simp only [this, if_false]; exact ih
      | some fi =>
        by_cases hij : i = j
        · subst hij
          rw [hj] at hi; cases hi
          simp only [if_true]
          rw [specGet_specSet, Nat.mod_mod]
        · simp only [hij, if_false]
          have hd' := hdis (fi, i) (getElem_zipIdx_mem _ _ _ hi) (fs, j) (getElem_zipIdx_mem _ _ _ hj)
          simp only [Bool.or_eq_true, beq_iff_eq, decide_eq_true_eq] at hd'
          rcases hd' with h | h
          · exact absurd h hij
          · rw [specGet_specSet_disjoint _ _ _ _ _ _ _ (by omega)]
            exact ih

/-- **C05 (frame).** No history on a header changes a byte outside that header: operations
    on one buffer never influence another buffer. -/
theorem history_frame (s : FormatSpec) (hd : fieldsDisjoint s = true)
    (hw : writesWithin (s.initWrites true) s.headerLen = true ∧ writesWithin (s.initWrites false) s.headerLen = true)
    (pdu : Nat) (m0 : Mem) (a : Nat) (ha : a < pdu ∨ pdu + s.headerLen ≤ a) :
    ∀ ops : List HOp, runRev s pdu m0 ops a = m0 a := by
  simp only [fieldsDisjoint, Bool.and_eq_true, List.all_eq_true, decide_eq_true_eq] at hd
  obtain ⟨_, hin⟩ := hd
  intro ops
  induction ops with
  | nil => rfl
  | cons op older ih =>
    cases op with
    | init wa pv =>
      simp only [runRev, HOp.apply]
      cases wa with
      | true => rw [canonical_frame s true hw.1 pv _ pdu a ha]; exact ih
      | false => rw [canonical_frame s false hw.2 pv _ pdu a ha]; exact ih
    | set i v =>
      simp only [runRev, HOp.apply]
      cases hi : s.fields[i]? with
      | none => exact ih
      | some fi =>
        simp only []
        rw [specSet_frame _ _ _ _ _ _ (by have := hin fi (List.mem_of_getElem? hi); omega)]
        exact ih

/-- Writes to different (disjoint) fields commute. -/
theorem specSet_comm (m : Mem) (pdu s₁ w₁ v₁ s₂ w₂ v₂ : Nat) (h : s₁ + w₁ ≤ s₂ ∨ s₂ + w₂ ≤ s₁) :
    specSet (specSet m pdu s₁ w₁ v₁) pdu s₂ w₂ v₂ = specSet (specSet m pdu s₂ w₂ v₂) pdu s₁ w₁ v₁ := by
  apply mem_ext_wire _ _ pdu
  · intro a ha; simp only [specSet_below _ _ _ _ _ _ ha]
  · intro i
    simp only [specSet_bits]
    by_cases h1 : s₁ ≤ i ∧ i < s₁ + w₁ <;> by_cases h2 : s₂ ≤ i ∧ i < s₂ + w₂ <;> simp [h1, h2]
    omega

/-- Repeating a write changes nothing. -/
theorem specSet_idem (m : Mem) (pdu s w v : Nat) :
    specSet (specSet m pdu s w v) pdu s w v = specSet m pdu s w v := by
  apply mem_ext_wire _ _ pdu
  · intro a ha; simp only [specSet_below _ _ _ _ _ _ ha]
  · intro i
    simp only [specSet_bits]
    by_cases h1 : s ≤ i ∧ i < s + w <;> simp [h1]

/-- **C05 (bytes).** Bit-level form: after a history every header bit inside field `j` is
    the corresponding bit of that field's expected value, so the header octets are the
    reference encoding of exactly those values. -/
theorem history_bits (s : FormatSpec) (hd : fieldsDisjoint s = true) (pdu : Nat) (m0 : Mem)
    (j : Nat) (fs : FieldSpec) (hj : s.fields[j]? = some fs) (ops : List HOp) (i : Nat)
    (hi : fs.first ≤ i ∧ i < fs.first + fs.width) :
    wireBit (runRev s pdu m0 ops) pdu i
      = (expected s pdu m0 j fs ops).testBit (fs.first + fs.width - 1 - i) := by
  rw [← history_field s hd pdu m0 j fs hj ops, specGet_testBit]
  have h1 : fs.first + fs.width - 1 - i < fs.width := by omega
  have h2 : fs.first + fs.width - 1 - (fs.first + fs.width - 1 - i) = i := by omega
  simp [h1, h2]

/-! non-vacuity: a concrete history on an ACF-CAN header -/
example : fieldsDisjoint Spec.can = true := by decide
example : (Spec.can.fields[1]?).map (·.width) = some 9 := by decide

end O1722
