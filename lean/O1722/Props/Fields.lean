/-
  Props/Fields.lean — property theorems C01 (field reads) and C02 (field writes), in two
  layers:

  * about the model of Utils.c alone: for EVERY valid descriptor, EVERY memory, EVERY base
    address, EVERY value and BOTH host byte orders;
  * about a whole header format: a decidable check `checkC01 spec gen` / `checkC02 spec gen`
    relating the hand-written wire layout (Spec) to the data regenerated from the C source
    (Gen), and a soundness theorem saying that when the check evaluates to `true` every
    accessor of the format reads/writes exactly the standard's bit range.

  The instance obligations (`checkC01 Spec.can Gen.can = true`, …) are discharged by
  `decide` in the regenerated file Gen/Inst.lean.
-/
import O1722.Spec.Formats
import O1722.Model.Format
import O1722.Lemmas.Set

namespace O1722
open Spec

/-! ## Utils.c alone -/

/-- **C01 (generic reader).** For every descriptor the reader accepts, `Avtp_GetField`
    returns exactly the field's wire bits, MSB first, whatever the buffer holds, wherever it
    lies and whatever the host byte order. -/
theorem getField_spec (e : Endian) (tbl : List Desc) (n : Nat) (m : Mem) (pdu i : Nat) (d : Desc)
    (hi : i < n) (hrow : tbl[i]? = some d) (hd : d.Valid) :
    getField e tbl n m (some pdu) i = specGet m pdu d.start d.bits := by
  unfold getField getFieldLog
  simp only [hi, if_true, hrow]
  exact getLoop_eq_specGet e d hd m pdu

/-- The result depends on no bit outside the field. -/
theorem getField_depends_only_on_field (e : Endian) (tbl : List Desc) (n : Nat) (m₁ m₂ : Mem)
    (pdu i : Nat) (d : Desc) (hi : i < n) (hrow : tbl[i]? = some d) (hd : d.Valid)
    (h : ∀ j, d.start ≤ j → j < d.start + d.bits → wireBit m₁ pdu j = wireBit m₂ pdu j) :
    getField e tbl n m₁ (some pdu) i = getField e tbl n m₂ (some pdu) i := by
  rw [getField_spec e tbl n m₁ pdu i d hi hrow hd, getField_spec e tbl n m₂ pdu i d hi hrow hd]
  exact specGet_congr m₁ m₂ pdu d.start d.bits h

/-- **C02 (generic writer).** `Avtp_SetField` performs exactly the reference write of
    `v mod 2^64` (the parameter is a `uint64_t`). -/
theorem setField_spec (e : Endian) (tbl : List Desc) (n : Nat) (m : Mem) (pdu i v : Nat) (d : Desc)
    (hi : i < n) (hrow : tbl[i]? = some d) (hd : d.Valid) :
    setField e tbl n m (some pdu) i v = specSet m pdu d.start d.bits (v % 2 ^ 64) := by
  unfold setField setFieldLog
  simp only [hi, if_true, hrow]
  exact setLoop_eq_specSet e d hd m pdu (v % 2 ^ 64)

/-- Only the low `w` bits of the value matter to the reference write. -/
theorem specSet_mod (m : Mem) (pdu s w v : Nat) :
    specSet m pdu s w (v % 2 ^ w) = specSet m pdu s w v := by
  apply mem_ext_wire _ _ pdu
  · intro a ha; rw [specSet_below _ _ _ _ _ _ ha, specSet_below _ _ _ _ _ _ ha]
  · intro i
    rw [specSet_wireBit, specSet_wireBit]
    unfold specSetBit
    by_cases h : s ≤ i ∧ i < s + w
    · rw [if_pos h, if_pos h, Nat.testBit_mod_two_pow]
      have : s + w - 1 - i < w := by omega
      simp [this]
    · rw [if_neg h, if_neg h]

theorem specSet_mod64 (m : Mem) (pdu s w v : Nat) (hw : w ≤ 64) :
    specSet m pdu s w (v % 2 ^ 64) = specSet m pdu s w v := by
  rw [← specSet_mod m pdu s w (v % 2 ^ 64), ← specSet_mod m pdu s w v]
  congr 1
  exact Nat.mod_mod_of_dvd v (Nat.pow_dvd_pow 2 hw)

/-- The reference write changes the field's wire bits to `v`'s low bits, MSB first, and no
    other bit of the PDU … -/
theorem specSet_bits (m : Mem) (pdu s w v i : Nat) :
    wireBit (specSet m pdu s w v) pdu i
      = if s ≤ i ∧ i < s + w then v.testBit (s + w - 1 - i) else wireBit m pdu i := by
  rw [specSet_wireBit]; rfl

/-- … and no byte of memory outside the octets that contain the field. -/
theorem specSet_frame (m : Mem) (pdu s w v a : Nat)
    (h : a < pdu + s / 8 ∨ pdu + (s + w + 7) / 8 ≤ a) : specSet m pdu s w v a = m a := by
  by_cases ha : a < pdu
  · exact specSet_below m pdu s w v a ha
  · apply byte_ext; intro j hj
    have h1 := specSet_bits m pdu s w v (8 * (a - pdu) + (7 - j))
    have hn : ¬ (s ≤ 8 * (a - pdu) + (7 - j) ∧ 8 * (a - pdu) + (7 - j) < s + w) := by omega
    rw [if_neg hn] at h1
    unfold wireBit at h1
    have e1 : pdu + (8 * (a - pdu) + (7 - j)) / 8 = a := by omega
    have e2 : 7 - (8 * (a - pdu) + (7 - j)) % 8 = j := by omega
    rw [e1, e2] at h1
    exact h1

/-- Read after write returns the value modulo the field width. -/
theorem specGet_specSet (m : Mem) (pdu s w v : Nat) :
    specGet (specSet m pdu s w v) pdu s w = v % 2 ^ w := by
  apply Nat.eq_of_testBit_eq; intro j
  rw [specGet_testBit, Nat.testBit_mod_two_pow, specSet_bits]
  by_cases hj : j < w
  · have h1 : s ≤ s + w - 1 - j ∧ s + w - 1 - j < s + w := by omega
    have h2 : s + w - 1 - (s + w - 1 - j) = j := by omega
    rw [if_pos h1, h2]
  · simp [hj]

/-- A write does not disturb a read of any disjoint bit range. -/
theorem specGet_specSet_disjoint (m : Mem) (pdu s w v s' w' : Nat)
    (h : s' + w' ≤ s ∨ s + w ≤ s') :
    specGet (specSet m pdu s w v) pdu s' w' = specGet m pdu s' w' := by
  apply specGet_congr
  intro i h1 h2
  rw [specSet_bits, if_neg (by omega)]

/-- **C02 (read after write)** at the level of Utils.c. -/
theorem getField_setField (e : Endian) (tbl : List Desc) (n : Nat) (m : Mem) (pdu i v : Nat)
    (d : Desc) (hi : i < n) (hrow : tbl[i]? = some d) (hd : d.Valid) :
    getField e tbl n (setField e tbl n m (some pdu) i v) (some pdu) i = v % 2 ^ d.bits := by
  rw [getField_spec e tbl n _ pdu i d hi hrow hd, setField_spec e tbl n m pdu i v d hi hrow hd,
    specSet_mod64 _ _ _ _ _ hd.2.1, specGet_specSet]

/-! ## Whole formats: decidable checks -/

/-- Row of the regenerated table that the Spec field's enumerator selects. -/
def rowFor (g : GenFormat) (fs : FieldSpec) : Option (Nat × Desc) :=
  match g.enumValue fs.enumName with
  | some i => match g.table[i]? with
    | some d => some (i, d)
    | none => none
  | none => none

/-- The generated descriptor denotes the Spec field's bit range. A zero-width field denotes
    no bits, wherever it nominally starts. -/
def descMatches (d : Desc) (fs : FieldSpec) : Bool :=
  decide d.Valid && (d.bits == fs.width && (fs.width == 0 || d.start == fs.first))

def tableArgsOK (g : GenFormat) (table : String) (numFields : Nat) : Bool :=
  table == g.tableName && numFields == g.table.length

def checkGenericGet (g : GenFormat) (fs : FieldSpec) : Bool :=
  match rowFor g fs with
  | some (i, d) =>
    descMatches d fs && !g.genericGetters.isEmpty &&
      g.genericGetters.all (fun x => tableArgsOK g x.table x.numFields && decide (i < x.numFields)
        && decide (i < 2 ^ x.fieldCastBits) && decide (fs.width ≤ x.retBits))
  | none => false

def checkDedicatedGet (s : FormatSpec) (g : GenFormat) (x : Getter) : Bool :=
  match x.field with
  | none => true
  | some (en, v) =>
    s.fields.any (fun fs => fs.acc != "" && s.getterName fs == x.fn && fs.enumName == en &&
      match rowFor g fs with
      | some (i, d) => i == v && descMatches d fs && tableArgsOK g x.table x.numFields
          && decide (i < x.numFields) && decide (fs.width ≤ x.retBits)
      | none => false)

/-- Every identifier of the enumeration (except the count) is a Spec field and vice versa;
    every accessor the Spec names exists; no function of the file has an unknown shape. -/
def checkNames (s : FormatSpec) (g : GenFormat) : Bool :=
  g.enumerators.all (fun (n, _) => n == s.maxEnum || s.fields.any (fun fs => fs.enumName == n))
    && s.fields.all (fun fs => (g.enumValue fs.enumName).isSome)
    && g.opaqueFns.isEmpty

def checkC01 (s : FormatSpec) (g : GenFormat) : Bool :=
  s.fields.all (checkGenericGet g) && g.getters.all (checkDedicatedGet s g) && checkNames s g
    && s.fields.all (fun fs => fs.acc == "" || (g.findGetter (s.getterName fs)).isSome)

theorem descMatches_get (d : Desc) (fs : FieldSpec) (h : descMatches d fs = true) (m : Mem) (pdu : Nat) :
    d.Valid ∧ specGet m pdu d.start d.bits = specGet m pdu fs.first fs.width := by
  simp only [descMatches, Bool.and_eq_true, decide_eq_true_eq, beq_iff_eq, Bool.or_eq_true] at h
  obtain ⟨hv, hb, hs⟩ := h
  refine ⟨hv, ?_⟩
  rcases hs with h0 | h1
  · rw [hb, h0]; rfl
  · rw [hb, h1]

theorem rowFor_some (g : GenFormat) (fs : FieldSpec) (i : Nat) (d : Desc)
    (h : rowFor g fs = some (i, d)) : g.enumValue fs.enumName = some i ∧ g.table[i]? = some d := by
  unfold rowFor at h
  split at h
  · rename_i j hj
    split at h
    · rename_i d' hd'
      simp only [Option.some.injEq, Prod.mk.injEq] at h
      obtain ⟨rfl, rfl⟩ := h
      exact ⟨hj, hd'⟩
    · cases h
  · cases h

/-- **C01, generic path, per field.** -/
theorem genericGet_sound (g : GenFormat) (fs : FieldSpec) (h : checkGenericGet g fs = true) :
    ∃ i, g.enumValue fs.enumName = some i ∧
      ∀ x ∈ g.genericGetters, ∀ (e : Endian) (m : Mem) (pdu : Nat),
        x.run g.table e m (some pdu) i = specGet m pdu fs.first fs.width := by
  unfold checkGenericGet at h
  split at h
  · rename_i i d hrow
    obtain ⟨hen, htab⟩ := rowFor_some g fs i d hrow
    simp only [Bool.and_eq_true, List.all_eq_true, decide_eq_true_eq] at h
    obtain ⟨⟨hm, _⟩, hall⟩ := h
    refine ⟨i, hen, ?_⟩
    intro x hx e m pdu
    obtain ⟨⟨⟨hta, hi⟩, hc⟩, hw⟩ := hall x hx
    obtain ⟨hv, hs⟩ := descMatches_get d fs hm m pdu
    have hfield : x.field = none := by
      have := (List.mem_filter.mp hx).2
      simpa using this
    unfold Getter.run fieldArg
    rw [hfield]
    simp only
    rw [Nat.mod_eq_of_lt hc, getField_spec e g.table x.numFields m pdu i d hi htab hv, hs]
    exact Nat.mod_eq_of_lt (Nat.lt_of_lt_of_le (specGet_lt m pdu fs.first fs.width)
      (Nat.pow_le_pow_right (by decide) hw))
  · cases h

/-- **C01, dedicated path, per getter.** The getter whose *name* denotes Spec field `fs`
    returns exactly `fs`'s bits as a complete value (no truncation by the return type). -/
theorem dedicatedGet_sound (s : FormatSpec) (g : GenFormat) (x : Getter)
    (hx : x.field.isSome = true) (h : checkDedicatedGet s g x = true) :
    ∃ fs ∈ s.fields, s.getterName fs = x.fn ∧
      ∀ (e : Endian) (m : Mem) (pdu arg : Nat),
        x.run g.table e m (some pdu) arg = specGet m pdu fs.first fs.width := by
  unfold checkDedicatedGet at h
  split at h
  · rename_i hnone; rw [hnone] at hx; cases hx
  · rename_i en v hf
    simp only [List.any_eq_true] at h
    obtain ⟨fs, hfs, hcond⟩ := h
    simp only [Bool.and_eq_true, beq_iff_eq] at hcond
    obtain ⟨⟨⟨_, hname⟩, _⟩, hrow⟩ := hcond
    refine ⟨fs, hfs, hname, ?_⟩
    split at hrow
    · rename_i i d hr
      obtain ⟨_, htab⟩ := rowFor_some g fs i d hr
      simp only [Bool.and_eq_true, beq_iff_eq, decide_eq_true_eq] at hrow
      obtain ⟨⟨⟨⟨hiv, hm⟩, _⟩, hi⟩, hw⟩ := hrow
      intro e m pdu arg
      obtain ⟨hv, hs⟩ := descMatches_get d fs hm m pdu
      unfold Getter.run fieldArg
      rw [hf]
      simp only
      rw [← hiv, getField_spec e g.table x.numFields m pdu i d hi htab hv, hs]
      exact Nat.mod_eq_of_lt (Nat.lt_of_lt_of_le (specGet_lt m pdu fs.first fs.width)
        (Nat.pow_le_pow_right (by decide) hw))
    · cases hrow

/-- **C01 for a whole format.** If the decidable check holds for the regenerated data then
    (1) every Spec field read by identifier through every generic reader of the format, and
    (2) every dedicated getter, return exactly the standard's bit range. -/
theorem C01_format (s : FormatSpec) (g : GenFormat) (h : checkC01 s g = true) :
    (∀ fs ∈ s.fields, ∃ i, g.enumValue fs.enumName = some i ∧
        ∀ x ∈ g.genericGetters, ∀ (e : Endian) (m : Mem) (pdu : Nat),
          x.run g.table e m (some pdu) i = specGet m pdu fs.first fs.width) ∧
    (∀ x ∈ g.getters, x.field.isSome = true → ∃ fs ∈ s.fields, s.getterName fs = x.fn ∧
        ∀ (e : Endian) (m : Mem) (pdu arg : Nat),
          x.run g.table e m (some pdu) arg = specGet m pdu fs.first fs.width) := by
  simp only [checkC01, Bool.and_eq_true, List.all_eq_true] at h
  obtain ⟨⟨⟨h1, h2⟩, _⟩, _⟩ := h
  exact ⟨fun fs hfs => genericGet_sound g fs (h1 fs hfs),
    fun x hx hsome => dedicatedGet_sound s g x hsome (h2 x hx)⟩

/-! ### C02 -/

def checkGenericSet (g : GenFormat) (fs : FieldSpec) : Bool :=
  match rowFor g fs with
  | some (i, d) =>
    descMatches d fs && !g.genericSetters.isEmpty &&
      g.genericSetters.all (fun x => tableArgsOK g x.table x.numFields && decide (i < x.numFields)
        && decide (i < 2 ^ x.fieldCastBits) && x.valueBits == 64 && !x.valueSigned)
  | none => false

def checkDedicatedSet (s : FormatSpec) (g : GenFormat) (x : Setter) : Bool :=
  match x.field with
  | none => true
  | some (en, v) =>
    s.fields.any (fun fs => fs.acc != "" && s.setterName fs == x.fn && fs.enumName == en &&
      match rowFor g fs with
      | some (i, d) => i == v && descMatches d fs && tableArgsOK g x.table x.numFields
          && decide (i < x.numFields) && decide (fs.width ≤ x.valueBits) && decide (x.valueBits ≤ 64)
          && !x.valueSigned
      | none => false)

def checkC02 (s : FormatSpec) (g : GenFormat) : Bool :=
  s.fields.all (checkGenericSet g) && g.setters.all (checkDedicatedSet s g) && checkNames s g
    && s.fields.all (fun fs => fs.acc == "" || (g.findSetter (s.setterName fs)).isSome)

theorem descMatches_set (d : Desc) (fs : FieldSpec) (h : descMatches d fs = true) (m : Mem) (pdu v : Nat) :
    d.Valid ∧ d.bits = fs.width ∧ specSet m pdu d.start d.bits v = specSet m pdu fs.first fs.width v := by
  simp only [descMatches, Bool.and_eq_true, decide_eq_true_eq, beq_iff_eq, Bool.or_eq_true] at h
  obtain ⟨hv, hb, hs⟩ := h
  refine ⟨hv, hb, ?_⟩
  rcases hs with h0 | h1
  · rw [hb, h0]
    apply mem_ext_wire _ _ pdu
    · intro a ha; rw [specSet_below _ _ _ _ _ _ ha, specSet_below _ _ _ _ _ _ ha]
    · intro i; rw [specSet_bits, specSet_bits, if_neg (by omega), if_neg (by omega)]
  · rw [hb, h1]

/-- **C02, generic path, per field**: the write stores `v mod 2^width` in exactly the
    field's standard bit range (everything else is untouched by `specSet_bits` /
    `specSet_frame`), for every 64-bit value `v`. -/
theorem genericSet_sound (g : GenFormat) (fs : FieldSpec) (h : checkGenericSet g fs = true) :
    ∃ i, g.enumValue fs.enumName = some i ∧
      ∀ x ∈ g.genericSetters, ∀ (e : Endian) (m : Mem) (pdu v : Nat), v < 2 ^ 64 →
        x.run g.table e m (some pdu) i v = specSet m pdu fs.first fs.width (v % 2 ^ fs.width) := by
  unfold checkGenericSet at h
  split at h
  · rename_i i d hrow
    obtain ⟨hen, htab⟩ := rowFor_some g fs i d hrow
    simp only [Bool.and_eq_true, List.all_eq_true, decide_eq_true_eq, beq_iff_eq] at h
    obtain ⟨⟨hm, _⟩, hall⟩ := h
    refine ⟨i, hen, ?_⟩
    intro x hx e m pdu v hv64
    obtain ⟨⟨⟨⟨hta, hi⟩, hc⟩, hvb⟩, _⟩ := hall x hx
    have hfield : x.field = none := by
      have := (List.mem_filter.mp hx).2
      simpa using this
    obtain ⟨hv, hb, hs⟩ := descMatches_set d fs hm m pdu (v % 2 ^ x.valueBits)
    unfold Setter.run fieldArg
    rw [hfield]
    simp only
    rw [Nat.mod_eq_of_lt hc, setField_spec e g.table x.numFields m pdu i _ d hi htab hv,
      specSet_mod64 _ _ _ _ _ hv.2.1, hs, hvb, Nat.mod_eq_of_lt hv64, specSet_mod]
  · cases h

/-- **C02, dedicated path, per setter**: every value of the parameter type is stored modulo
    the field width, and the parameter type is wide enough for every value that fits the
    field (`fs.width ≤ valueBits` is part of the check). -/
theorem dedicatedSet_sound (s : FormatSpec) (g : GenFormat) (x : Setter)
    (hx : x.field.isSome = true) (h : checkDedicatedSet s g x = true) :
    ∃ fs ∈ s.fields, fs.acc ≠ "" ∧ s.setterName fs = x.fn ∧ fs.width ≤ x.valueBits ∧
      ∀ (e : Endian) (m : Mem) (pdu arg v : Nat), v < 2 ^ x.valueBits →
        x.run g.table e m (some pdu) arg v = specSet m pdu fs.first fs.width (v % 2 ^ fs.width) := by
  unfold checkDedicatedSet at h
  split at h
  · rename_i hnone; rw [hnone] at hx; cases hx
  · rename_i en v0 hf
    simp only [List.any_eq_true] at h
    obtain ⟨fs, hfs, hcond⟩ := h
    simp only [Bool.and_eq_true, beq_iff_eq, bne_iff_ne, ne_eq] at hcond
    obtain ⟨⟨⟨hacc, hname⟩, _⟩, hrow⟩ := hcond
    split at hrow
    · rename_i i d hr
      obtain ⟨_, htab⟩ := rowFor_some g fs i d hr
      simp only [Bool.and_eq_true, beq_iff_eq, decide_eq_true_eq] at hrow
      obtain ⟨⟨⟨⟨⟨⟨hiv, hm⟩, _⟩, hi⟩, hw⟩, h64⟩, _⟩ := hrow
      refine ⟨fs, hfs, hacc, hname, hw, ?_⟩
      intro e m pdu arg v hvlt
      obtain ⟨hv, hb, hs⟩ := descMatches_set d fs hm m pdu (v % 2 ^ x.valueBits)
      unfold Setter.run fieldArg
      rw [hf]
      simp only
      rw [← hiv, setField_spec e g.table x.numFields m pdu i _ d hi htab hv,
        specSet_mod64 _ _ _ _ _ hv.2.1, hs, Nat.mod_eq_of_lt hvlt, specSet_mod]
    · cases hrow

/-- **C02 for a whole format.** -/
theorem C02_format (s : FormatSpec) (g : GenFormat) (h : checkC02 s g = true) :
    (∀ fs ∈ s.fields, ∃ i, g.enumValue fs.enumName = some i ∧
        ∀ x ∈ g.genericSetters, ∀ (e : Endian) (m : Mem) (pdu v : Nat), v < 2 ^ 64 →
          x.run g.table e m (some pdu) i v
            = specSet m pdu fs.first fs.width (v % 2 ^ fs.width)) ∧
    (∀ x ∈ g.setters, x.field.isSome = true → ∃ fs ∈ s.fields, fs.acc ≠ "" ∧ s.setterName fs = x.fn ∧
        fs.width ≤ x.valueBits ∧
        ∀ (e : Endian) (m : Mem) (pdu arg v : Nat), v < 2 ^ x.valueBits →
          x.run g.table e m (some pdu) arg v
            = specSet m pdu fs.first fs.width (v % 2 ^ fs.width)) := by
  simp only [checkC02, Bool.and_eq_true, List.all_eq_true] at h
  obtain ⟨⟨⟨h1, h2⟩, _⟩, _⟩ := h
  exact ⟨fun fs hfs => genericSet_sound g fs (h1 fs hfs),
    fun x hx hsome => dedicatedSet_sound s g x hsome (h2 x hx)⟩

/-! ### non-vacuity: the hypotheses are met by concrete descriptors and memories -/

example : (⟨3, 3, 29⟩ : Desc).Valid := by decide
example : (⟨1, 0, 64⟩ : Desc).Valid ∧ (⟨0, 31, 64⟩ : Desc).Valid ∧ (⟨255, 31, 1⟩ : Desc).Valid := by decide
example : ¬ (⟨255, 31, 2⟩ : Desc).Valid := by decide

/-! ### named atoms of the checks (evaluated executably by the tooling to say *which*
    obligation fails; the kernel-checked obligation is the conjunction above) -/

def atomsC01 (s : FormatSpec) (g : GenFormat) : List (String × Bool) :=
  s.fields.map (fun fs => ("generic-get:" ++ fs.enumName, checkGenericGet g fs))
  ++ (g.getters.filter (·.field.isSome)).map (fun x => ("dedicated-get:" ++ x.fn, checkDedicatedGet s g x))
  ++ [("names", checkNames s g)]
  ++ s.fields.filterMap (fun fs => if fs.acc == "" then none else
        some ("has-getter:" ++ s.getterName fs, (g.findGetter (s.getterName fs)).isSome))

def atomsC02 (s : FormatSpec) (g : GenFormat) : List (String × Bool) :=
  s.fields.map (fun fs => ("generic-set:" ++ fs.enumName, checkGenericSet g fs))
  ++ (g.setters.filter (·.field.isSome)).map (fun x => ("dedicated-set:" ++ x.fn, checkDedicatedSet s g x))
  ++ [("names", checkNames s g)]
  ++ s.fields.filterMap (fun fs => if fs.acc == "" then none else
        some ("has-setter:" ++ s.setterName fs, (g.findSetter (s.setterName fs)).isSome))

end O1722
