/-
  Props/Can.lean — property theorem C06: the ACF-CAN message builders emit a well-formed,
  exactly padded message (for the Model of Can.c / CanBrief.c).
-/
import O1722.Model.Can
import O1722.Props.History

namespace O1722
open Spec

/-! ### generic helpers -/

/-- Byte `a` of the reference write depends only on byte `a` of the memory written to. -/
theorem specSet_pointwise (m₁ m₂ : Mem) (pdu s w v a : Nat) (h : m₁ a = m₂ a) :
    specSet m₁ pdu s w v a = specSet m₂ pdu s w v a := by
  unfold specSet
  simp only [h]

theorem zeroFill_zero (m : Mem) (p : Nat) : zeroFill m p 0 = m := by
  funext a; unfold zeroFill; rw [if_neg (by omega)]

/-- A reference write into the header commutes with zero-filling a region behind it. -/
theorem specSet_zeroFill_comm (m : Mem) (pdu s w v p l hl : Nat) (hin : s + w ≤ 8 * hl)
    (hp : pdu + hl ≤ p) :
    specSet (zeroFill m p l) pdu s w v = zeroFill (specSet m pdu s w v) p l := by
  funext a
  by_cases ha : p ≤ a ∧ a < p + l
  · rw [specSet_frame _ _ _ _ _ _ (by omega)]
    unfold zeroFill; rw [if_pos ha, if_pos ha]
  · have e1 : zeroFill (specSet m pdu s w v) p l a = specSet m pdu s w v a := by
      unfold zeroFill; rw [if_neg ha]
    rw [e1]
    apply specSet_pointwise
    unfold zeroFill; rw [if_neg ha]

theorem setNamed_zeroFill_comm (s : FormatSpec) (hd : fieldsDisjoint s = true) (m : Mem)
    (pdu : Nat) (name : String) (v p l : Nat) (hp : pdu + s.headerLen ≤ p) :
    setNamed s (zeroFill m p l) pdu name v = zeroFill (setNamed s m pdu name v) p l := by
  unfold setNamed
  cases hf : s.fieldNamed name with
  | none => rfl
  | some fs =>
    simp only
    have hmem : fs ∈ s.fields := by
      unfold FormatSpec.fieldNamed at hf; exact List.mem_of_find?_eq_some hf
    simp only [fieldsDisjoint, Bool.and_eq_true, List.all_eq_true, decide_eq_true_eq] at hd
    exact specSet_zeroFill_comm m pdu fs.first fs.width _ p l s.headerLen (hd.2 fs hmem) hp

/-- `setNamed` is the history operation "write field number `i`". -/
theorem setNamed_eq_hop (s : FormatSpec) (m : Mem) (pdu : Nat) (name : String) (v i : Nat)
    (fs : FieldSpec) (hf : s.fieldNamed name = some fs) (hi : s.fields[i]? = some fs) :
    setNamed s m pdu name v = HOp.apply s pdu m (.set i (v % 2 ^ 64)) := by
  unfold setNamed
  rw [hf]
  simp only [HOp.apply, hi]

/-- The true pad count of an `n`-byte payload. -/
def padOf (n : Nat) : Nat := (4 - n % 4) % 4

/-- `canFinalize` as a zero-fill of the true pad followed by two header writes. -/
theorem canFinalize_eq (s : FormatSpec) (m : Mem) (pdu n : Nat) (hn : n < 2 ^ 16)
    (hH : s.headerLen ≤ 64) :
    canFinalize s m pdu n =
      (setNamed s (setNamed s (zeroFill m (pdu + s.headerLen + n) (padOf n)) pdu
          "ACF_MSG_LENGTH" ((s.headerLen + n + padOf n) / 4)) pdu "PAD" ((4 - n % 4) % 256),
        s.headerLen + n + padOf n) := by
  unfold canFinalize padOf
  by_cases h : n % 4 ≠ 0
  · rw [if_pos h]
    have e1 : (4 - n % 4) % 256 = (4 - n % 4) % 4 := by omega
    have e2 : (s.headerLen + n) % 2 ^ 32 = s.headerLen + n := Nat.mod_eq_of_lt (by omega)
    have e3 : (s.headerLen + n + (4 - n % 4) % 4) % 2 ^ 32 = s.headerLen + n + (4 - n % 4) % 4 :=
      Nat.mod_eq_of_lt (by omega)
    simp only [e1, e2, e3]
  · rw [if_neg h]
    have h0 : n % 4 = 0 := by omega
    have e1 : (4 - n % 4) % 4 = 0 := by omega
    have e2 : (s.headerLen + n) % 2 ^ 32 = s.headerLen + n := Nat.mod_eq_of_lt (by omega)
    simp only [e1, e2, zeroFill_zero, Nat.add_zero]

/-- Positions (in Spec field order) of the five fields the builders write. -/
structure CanIdx where
  len : Nat
  pad : Nat
  eff : Nat
  id  : Nat
  fdf : Nat

/-- The five names resolve to those positions; fields are disjoint; header ≤ 64 octets. -/
def canOK (s : FormatSpec) (ix : CanIdx) : Bool :=
  fieldsDisjoint s && decide (s.headerLen ≤ 64)
    && (s.fieldNamed "ACF_MSG_LENGTH").isSome && s.fieldNamed "ACF_MSG_LENGTH" == s.fields[ix.len]?
    && (s.fieldNamed "PAD").isSome && s.fieldNamed "PAD" == s.fields[ix.pad]?
    && (s.fieldNamed "EFF").isSome && s.fieldNamed "EFF" == s.fields[ix.eff]?
    && (s.fieldNamed "CAN_IDENTIFIER").isSome && s.fieldNamed "CAN_IDENTIFIER" == s.fields[ix.id]?
    && (s.fieldNamed "FDF").isSome && s.fieldNamed "FDF" == s.fields[ix.fdf]?

def canIdxFull : CanIdx := ⟨1, 2, 5, 11, 7⟩
def canIdxBrief : CanIdx := ⟨1, 2, 5, 10, 7⟩

theorem can_layout_ok : canOK Spec.can canIdxFull = true ∧ canOK Spec.canBrief canIdxBrief = true := by
  decide

/-- Memory the header writes start from: payload copied, true pad zeroed. -/
def canBase (s : FormatSpec) (m : Mem) (pdu : Nat) (payload : List Byte) : Mem :=
  zeroFill (m.write (pdu + s.headerLen) payload) (pdu + s.headerLen + payload.length) (padOf payload.length)

/-- The header writes of the builder, most recent first. -/
def canOps (s : FormatSpec) (ix : CanIdx) (frameId variant n : Nat) : List HOp :=
  [.set ix.pad ((4 - n % 4) % 256 % 2 ^ 64), .set ix.len ((s.headerLen + n + padOf n) / 4 % 2 ^ 64),
   .set ix.fdf (variant % 256 % 2 ^ 64), .set ix.id (frameId % 2 ^ 64),
   .set ix.eff ((if frameId > 0x7ff then 1 else 0) % 2 ^ 64)]

theorem resolve (s : FormatSpec) (name : String) (i : Nat)
    (h1 : (s.fieldNamed name).isSome = true) (h2 : (s.fieldNamed name == s.fields[i]?) = true) :
    ∃ fs, s.fieldNamed name = some fs ∧ s.fields[i]? = some fs := by
  obtain ⟨fs, hfs⟩ := Option.isSome_iff_exists.mp h1
  refine ⟨fs, hfs, ?_⟩
  rw [← hfs]; exact (beq_iff_eq.mp h2).symm

/-- **Structure of the builder**: the Model of `Avtp_Can_CreateAcfMessage` /
    `Avtp_CanBrief_SetPayload` is "copy the payload, zero the pad, then five header writes",
    and returns header + payload + pad octets. -/
theorem canCreate_hist (s : FormatSpec) (ix : CanIdx) (hok : canOK s ix = true) (m : Mem)
    (pdu frameId : Nat) (payload : List Byte) (variant : Nat) (hn : payload.length < 2 ^ 16) :
    canCreate s m pdu frameId payload variant =
      (runRev s pdu (canBase s m pdu payload) (canOps s ix frameId variant payload.length),
        s.headerLen + payload.length + padOf payload.length) := by
  simp only [canOK, Bool.and_eq_true, decide_eq_true_eq] at hok
  obtain ⟨⟨⟨⟨⟨⟨⟨⟨⟨⟨⟨hd, hH⟩, l1⟩, l2⟩, p1⟩, p2⟩, e1⟩, e2⟩, i1⟩, i2⟩, f1⟩, f2⟩ := hok
  obtain ⟨fl, hfl, hil⟩ := resolve s _ _ l1 l2
  obtain ⟨fp, hfp, hip⟩ := resolve s _ _ p1 p2
  obtain ⟨fe, hfe, hie⟩ := resolve s _ _ e1 e2
  obtain ⟨fi, hfi, hii⟩ := resolve s _ _ i1 i2
  obtain ⟨ff, hff, hif⟩ := resolve s _ _ f1 f2
  unfold canCreate
  rw [canFinalize_eq s _ pdu _ hn hH]
  have hp : pdu + s.headerLen ≤ pdu + s.headerLen + payload.length := by omega
  rw [← setNamed_zeroFill_comm s hd _ pdu "FDF" _ _ _ hp,
    ← setNamed_zeroFill_comm s hd _ pdu "CAN_IDENTIFIER" _ _ _ hp,
    ← setNamed_zeroFill_comm s hd _ pdu "EFF" _ _ _ hp]
  rw [setNamed_eq_hop s _ pdu "EFF" _ ix.eff fe hfe hie,
    setNamed_eq_hop s _ pdu "CAN_IDENTIFIER" _ ix.id fi hfi hii,
    setNamed_eq_hop s _ pdu "FDF" _ ix.fdf ff hff hif,
    setNamed_eq_hop s _ pdu "ACF_MSG_LENGTH" _ ix.len fl hfl hil,
    setNamed_eq_hop s _ pdu "PAD" _ ix.pad fp hfp hip]
  rfl

/-- The base memory agrees with the original on the header … -/
theorem canBase_header (s : FormatSpec) (m : Mem) (pdu : Nat) (payload : List Byte) (a : Nat)
    (ha : a < pdu + s.headerLen) : canBase s m pdu payload a = m a := by
  unfold canBase zeroFill
  rw [if_neg (by omega), Mem.write_outside _ _ _ _ (Or.inl ha)]

/-- … holds the payload verbatim right after it … -/
theorem canBase_payload (s : FormatSpec) (m : Mem) (pdu : Nat) (payload : List Byte) (k : Nat)
    (hk : k < payload.length) : canBase s m pdu payload (pdu + s.headerLen + k) = payload[k] := by
  unfold canBase zeroFill
  rw [if_neg (by omega), Mem.write_apply, dif_pos (by omega)]
  congr 1; omega

/-- … zeros up to the next quadlet boundary … -/
theorem canBase_pad (s : FormatSpec) (m : Mem) (pdu : Nat) (payload : List Byte) (k : Nat)
    (hk : k < padOf payload.length) :
    canBase s m pdu payload (pdu + s.headerLen + payload.length + k) = 0 := by
  unfold canBase zeroFill
  rw [if_pos (by omega)]

/-- … and the original memory everywhere beyond the padded message. -/
theorem canBase_beyond (s : FormatSpec) (m : Mem) (pdu : Nat) (payload : List Byte) (a : Nat)
    (ha : pdu + s.headerLen + payload.length + padOf payload.length ≤ a) :
    canBase s m pdu payload a = m a := by
  unfold canBase zeroFill
  rw [if_neg (by omega), Mem.write_outside _ _ _ _ (Or.inr (by omega))]

theorem expected_congr (s : FormatSpec) (pdu : Nat) (m₁ m₂ : Mem) (j : Nat) (fs : FieldSpec)
    (h : specGet m₁ pdu fs.first fs.width = specGet m₂ pdu fs.first fs.width) (ops : List HOp) :
    expected s pdu m₁ j fs ops = expected s pdu m₂ j fs ops := by
  induction ops with
  | nil => exact h
  | cons op older ih =>
    cases op with
    | init wa pv => rfl
    | set i v => simp only [expected, ih]

theorem specGet_of_agree (m₁ m₂ : Mem) (pdu s w : Nat)
    (h : ∀ a, a < pdu + (s + w + 7) / 8 → m₁ a = m₂ a) : specGet m₁ pdu s w = specGet m₂ pdu s w := by
  apply specGet_congr
  intro i h1 h2
  unfold wireBit
  rw [h _ (by omega)]

/-- **C06.** For every prior memory, address, 32-bit identifier, variant and payload (length
    below 2^16), building a full or brief ACF-CAN message
    (1) leaves the payload verbatim directly after the header, (2) zero-fills up to the next
    quadlet boundary, (3) changes no byte at or beyond the end of the padded message nor
    before the PDU, (4) makes every header field read as `fieldAfter` says — length in
    quadlets, pad count, identifier, extended-frame flag, FD flag, *every other field as
    before* — and (5) returns the padded byte length. -/
theorem C06_builder (s : FormatSpec) (ix : CanIdx) (hok : canOK s ix = true)
    (hw : writesWithin (s.initWrites true) s.headerLen = true ∧ writesWithin (s.initWrites false) s.headerLen = true)
    (m : Mem) (pdu frameId : Nat) (payload : List Byte) (variant : Nat) (hn : payload.length < 2 ^ 16) :
    let r := canCreate s m pdu frameId payload variant
    let n := payload.length
    (∀ k (hk : k < n), r.1 (pdu + s.headerLen + k) = payload[k]) ∧
    (∀ k, k < padOf n → r.1 (pdu + s.headerLen + n + k) = 0) ∧
    (∀ a, (a < pdu ∨ pdu + s.headerLen + n + padOf n ≤ a) → r.1 a = m a) ∧
    (∀ j fs, s.fields[j]? = some fs →
        specGet r.1 pdu fs.first fs.width = expected s pdu m j fs (canOps s ix frameId variant n)) ∧
    r.2 = s.headerLen + n + padOf n := by
  intro r n
  have hr : r = _ := canCreate_hist s ix hok m pdu frameId payload variant hn
  have hd : fieldsDisjoint s = true := by
    simp only [canOK, Bool.and_eq_true] at hok; exact hok.1.1.1.1.1.1.1.1.1.1.1
  have hd' := hd
  simp only [fieldsDisjoint, Bool.and_eq_true, List.all_eq_true, decide_eq_true_eq] at hd'
  rw [hr]
  refine ⟨?_, ?_, ?_, ?_, rfl⟩
  · intro k hk
    simp only
    rw [history_frame s hd hw pdu _ _ (Or.inr (by omega)), canBase_payload s m pdu payload k hk]
  · intro k hk
    simp only
    rw [history_frame s hd hw pdu _ _ (Or.inr (by omega)), canBase_pad s m pdu payload k hk]
  · intro a ha
    simp only
    rcases ha with ha | ha
    · rw [history_frame s hd hw pdu _ _ (Or.inl ha), canBase_header s m pdu payload a (by omega)]
    · rw [history_frame s hd hw pdu _ _ (Or.inr (by omega)), canBase_beyond s m pdu payload a ha]
  · intro j fs hj
    simp only
    rw [history_field s hd pdu _ j fs hj]
    -- `expected` over the base memory = over the original: they agree on the header
    have hin := hd'.2 fs (List.mem_of_getElem? hj)
    have hagree : specGet (canBase s m pdu payload) pdu fs.first fs.width = specGet m pdu fs.first fs.width :=
      specGet_of_agree _ _ pdu _ _ (fun a ha => canBase_header s m pdu payload a (by omega))
    exact expected_congr s pdu _ _ j fs hagree _

/-- What each CAN header field reads after the builder, spelled out for the full format. -/
theorem C06_can_fields (m : Mem) (pdu frameId : Nat) (payload : List Byte) (variant : Nat)
    (hn : payload.length < 2 ^ 16) :
    let r := (canCreate Spec.can m pdu frameId payload variant).1
    let n := payload.length
    getNamed Spec.can r pdu "ACF_MSG_LENGTH" = (16 + n + padOf n) / 4 % 2 ^ 9 ∧
    getNamed Spec.can r pdu "PAD" = padOf n ∧
    getNamed Spec.can r pdu "CAN_IDENTIFIER" = frameId % 2 ^ 29 ∧
    getNamed Spec.can r pdu "EFF" = (if frameId > 0x7ff then 1 else 0) ∧
    getNamed Spec.can r pdu "FDF" = variant % 2 ∧
    getNamed Spec.can r pdu "ACF_MSG_TYPE" = getNamed Spec.can m pdu "ACF_MSG_TYPE" ∧
    getNamed Spec.can r pdu "MTV" = getNamed Spec.can m pdu "MTV" ∧
    getNamed Spec.can r pdu "RTR" = getNamed Spec.can m pdu "RTR" ∧
    getNamed Spec.can r pdu "BRS" = getNamed Spec.can m pdu "BRS" ∧
    getNamed Spec.can r pdu "ESI" = getNamed Spec.can m pdu "ESI" ∧
    getNamed Spec.can r pdu "CAN_BUS_ID" = getNamed Spec.can m pdu "CAN_BUS_ID" ∧
    getNamed Spec.can r pdu "MESSAGE_TIMESTAMP" = getNamed Spec.can m pdu "MESSAGE_TIMESTAMP" := by
  intro r n
  obtain ⟨_, _, _, hf, _⟩ := C06_builder Spec.can canIdxFull can_layout_ok.1 (by decide) m pdu frameId payload variant hn
  have field : ∀ (name : String) (j : Nat) (fs : FieldSpec), Spec.can.fieldNamed name = some fs →
      Spec.can.fields[j]? = some fs →
      getNamed Spec.can r pdu name = expected Spec.can pdu m j fs (canOps Spec.can canIdxFull frameId variant n) := by
    intro name j fs h1 h2
    unfold getNamed; rw [h1]; exact hf j fs h2
  have orig : ∀ (name : String) (fs : FieldSpec), Spec.can.fieldNamed name = some fs →
      getNamed Spec.can m pdu name = specGet m pdu fs.first fs.width := by
    intro name fs h1; unfold getNamed; rw [h1]
  have hpad : (4 - n % 4) % 256 % 2 ^ 64 % 2 ^ 2 = padOf n := by unfold padOf; omega
  have hid : frameId % 2 ^ 64 % 2 ^ 29 = frameId % 2 ^ 29 := by omega
  have hfdf : variant % 256 % 2 ^ 64 % 2 ^ 1 = variant % 2 := by omega
  have heff : (if frameId > 0x7ff then 1 else 0) % 2 ^ 64 % 2 ^ 1 = (if frameId > 0x7ff then 1 else 0) := by
    split <;> rfl
  have hlen : (16 + n + padOf n) / 4 % 2 ^ 64 % 2 ^ 9 = (16 + n + padOf n) / 4 % 2 ^ 9 := by omega
  refine ⟨?_, ?_, ?_, ?_, ?_, ?_, ?_, ?_, ?_, ?_, ?_, ?_⟩
  · rw [field "ACF_MSG_LENGTH" 1 ⟨"AVTP_CAN_FIELD_ACF_MSG_LENGTH", "AcfMsgLength", 7, 9⟩ (by decide) (by decide)]
    simp only [canOps, expected, canIdxFull]; exact hlen
  · rw [field "PAD" 2 ⟨"AVTP_CAN_FIELD_PAD", "Pad", 16, 2⟩ (by decide) (by decide)]
    simp only [canOps, expected, canIdxFull]; exact hpad
  · rw [field "CAN_IDENTIFIER" 11 ⟨"AVTP_CAN_FIELD_CAN_IDENTIFIER", "CanIdentifier", 99, 29⟩ (by decide) (by decide)]
    simp only [canOps, expected, canIdxFull]; exact hid
  · rw [field "EFF" 5 ⟨"AVTP_CAN_FIELD_EFF", "Eff", 20, 1⟩ (by decide) (by decide)]
    simp only [canOps, expected, canIdxFull]; exact heff
  · rw [field "FDF" 7 ⟨"AVTP_CAN_FIELD_FDF", "Fdf", 22, 1⟩ (by decide) (by decide)]
    simp only [canOps, expected, canIdxFull]; exact hfdf
  · rw [field "ACF_MSG_TYPE" 0 ⟨"AVTP_CAN_FIELD_ACF_MSG_TYPE", "AcfMsgType", 0, 7⟩ (by decide) (by decide), orig "ACF_MSG_TYPE" ⟨"AVTP_CAN_FIELD_ACF_MSG_TYPE", "AcfMsgType", 0, 7⟩ (by decide)]
    simp [canOps, expected, canIdxFull]
  · rw [field "MTV" 3 ⟨"AVTP_CAN_FIELD_MTV", "Mtv", 18, 1⟩ (by decide) (by decide), orig "MTV" ⟨"AVTP_CAN_FIELD_MTV", "Mtv", 18, 1⟩ (by decide)]
    simp [canOps, expected, canIdxFull]
  · rw [field "RTR" 4 ⟨"AVTP_CAN_FIELD_RTR", "Rtr", 19, 1⟩ (by decide) (by decide), orig "RTR" ⟨"AVTP_CAN_FIELD_RTR", "Rtr", 19, 1⟩ (by decide)]
    simp [canOps, expected, canIdxFull]
  · rw [field "BRS" 6 ⟨"AVTP_CAN_FIELD_BRS", "Brs", 21, 1⟩ (by decide) (by decide), orig "BRS" ⟨"AVTP_CAN_FIELD_BRS", "Brs", 21, 1⟩ (by decide)]
    simp [canOps, expected, canIdxFull]
  · rw [field "ESI" 8 ⟨"AVTP_CAN_FIELD_ESI", "Esi", 23, 1⟩ (by decide) (by decide), orig "ESI" ⟨"AVTP_CAN_FIELD_ESI", "Esi", 23, 1⟩ (by decide)]
    simp [canOps, expected, canIdxFull]
  · rw [field "CAN_BUS_ID" 9 ⟨"AVTP_CAN_FIELD_CAN_BUS_ID", "CanBusId", 27, 5⟩ (by decide) (by decide), orig "CAN_BUS_ID" ⟨"AVTP_CAN_FIELD_CAN_BUS_ID", "CanBusId", 27, 5⟩ (by decide)]
    simp [canOps, expected, canIdxFull]
  · rw [field "MESSAGE_TIMESTAMP" 10 ⟨"AVTP_CAN_FIELD_MESSAGE_TIMESTAMP", "MessageTimestamp", 32, 64⟩ (by decide) (by decide), orig "MESSAGE_TIMESTAMP" ⟨"AVTP_CAN_FIELD_MESSAGE_TIMESTAMP", "MessageTimestamp", 32, 64⟩ (by decide)]
    simp [canOps, expected, canIdxFull]

/-- **C06 (read-back).** Reading the payload length back from a message built with an
    `n`-byte payload returns `n` for every `n ≤ 255` — in particular for 0..64. -/
theorem C06_readback (m : Mem) (pdu frameId : Nat) (payload : List Byte) (variant : Nat)
    (hn : payload.length ≤ 255) :
    canPayloadLength Spec.can (canCreate Spec.can m pdu frameId payload variant).1 pdu
      = payload.length := by
  have h := C06_can_fields m pdu frameId payload variant (by omega)
  dsimp only at h
  obtain ⟨hl, hp, _⟩ := h
  unfold canPayloadLength
  rw [hl, hp]
  unfold padOf
  have : Spec.can.headerLen = 16 := rfl
  rw [this]
  dsimp only
  omega

/-- The separate copy / finalise steps compose to the builder (by construction of the C code,
    and of the Model). -/
theorem C06_compose (s : FormatSpec) (m : Mem) (pdu frameId : Nat) (payload : List Byte) (variant : Nat) :
    canFinalize s (setNamed s (setNamed s (setNamed s (canSetPayload s m pdu payload) pdu "EFF"
        (if frameId > 0x7ff then 1 else 0)) pdu "CAN_IDENTIFIER" frameId) pdu "FDF" (variant % 256))
      pdu payload.length = canCreate s m pdu frameId payload variant := rfl

/-! non-vacuity -/
example : padOf 5 = 3 ∧ padOf 8 = 0 ∧ padOf 0 = 0 ∧ padOf 63 = 1 := by decide

end O1722
