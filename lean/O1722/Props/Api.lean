/-
  Props/Api.lean — property theorems C11 (invalid arguments are rejected without side
  effects), C12 (legacy and current APIs are interchangeable) and C17 (overlapping header
  views agree).
-/
import O1722.Props.Header

namespace O1722
open Spec

/-! ## the deprecated by-identifier wrappers -/

/-- The wrapper's own argument checks. -/
def LegacyAcc.rejects (l : LegacyAcc) (pdu val : Option Nat) (field : Nat) : Bool :=
  (l.guardPdu && pdu.isNone) || (l.isGet && l.guardVal && val.isNone)
    || (match l.bound with | some b => decide (b ≤ field) | none => false)

/-- `legacy_get(pdu, field, val)`: memory after the call (the result location is part of
    memory) and return value. `none`: the wrapper would dereference an unchecked pointer. -/
def LegacyAcc.runGet (l : LegacyAcc) (g : GenFormat) (e : Endian) (m : Mem) (pdu val : Option Nat)
    (field : Nat) : Option (Mem × Int) :=
  if l.rejects pdu val field then some (m, l.err) else
    match g.findGetter l.fwd, val with
    | some x, some v =>
      some (store e (l.valBits / 8) m v (x.run g.table e m pdu field % 2 ^ l.valBits), l.ok)
    | _, _ => none

/-- `legacy_set(pdu, field, value)`. -/
def LegacyAcc.runSet (l : LegacyAcc) (g : GenFormat) (e : Endian) (m : Mem) (pdu : Option Nat)
    (field value : Nat) : Option (Mem × Int) :=
  if l.rejects pdu (some 0) field then some (m, l.err) else
    match g.findSetter l.fwd with
    | some x => some (x.run g.table e m pdu field (value % 2 ^ l.valBits), l.ok)
    | none => none

/-! ## C11 -/

/-- No identifier the caller can pass is folded onto a valid one on its way to Utils.c. -/
def noAliasing (paramBits castBits : Nat) : Bool := decide (paramBits ≤ castBits)

def checkC11 (s : FormatSpec) (g : GenFormat) : Bool :=
  g.genericGetters.all (fun x => noAliasing x.fieldParamBits x.fieldCastBits
      && tableArgsOK g x.table x.numFields)
    && g.genericSetters.all (fun x => noAliasing x.fieldParamBits x.fieldCastBits
      && tableArgsOK g x.table x.numFields)
    && g.getters.all (fun x => tableArgsOK g x.table x.numFields)
    && g.setters.all (fun x => tableArgsOK g x.table x.numFields)
    && g.legacy.all (fun l => l.guardPdu && (!l.isGet || l.guardVal) && l.bound == some g.table.length
        && l.err == -22 && l.ok == 0
        && (if l.isGet then (g.findGetter l.fwd).isSome else (g.findSetter l.fwd).isSome))
    && g.inits.all (fun i => !i.legacy || (i.err == -22 && i.ok == 0))
    && factIs g.facts ("unsigned:" ++ g.enumType) 1
    && g.opaqueFns.isEmpty

theorem getter_null (x : Getter) (tbl : List Desc) (e : Endian) (m : Mem) (arg : Nat) :
    x.run tbl e m none arg = 0 ∧ x.log tbl e m none arg = [] := by
  unfold Getter.run Getter.log getField
  rw [getFieldLog_rejected _ _ _ _ _ _ (Or.inl rfl)]
  exact ⟨Nat.zero_mod _, rfl⟩

theorem setter_null (x : Setter) (tbl : List Desc) (e : Endian) (m : Mem) (arg v : Nat) :
    x.run tbl e m none arg v = m ∧ x.log tbl e m none arg v = [] := by
  unfold Setter.run Setter.log setField
  rw [setFieldLog_rejected _ _ _ _ _ _ _ (Or.inl rfl)]
  exact ⟨rfl, rfl⟩

/-- **C11, generic reader**: an identifier outside the enumeration (any value the parameter
    type can carry) reads 0 and touches nothing. -/
theorem getter_out_of_range (g : GenFormat) (x : Getter) (hgen : x.field = none)
    (hna : noAliasing x.fieldParamBits x.fieldCastBits = true)
    (e : Endian) (m : Mem) (pdu : Option Nat) (arg : Nat) (harg : arg < 2 ^ x.fieldParamBits)
    (hout : x.numFields ≤ arg) :
    x.run g.table e m pdu arg = 0 ∧ x.log g.table e m pdu arg = [] := by
  have hle : x.fieldParamBits ≤ x.fieldCastBits := by simpa [noAliasing] using hna
  have hmod : arg % 2 ^ x.fieldCastBits = arg :=
    Nat.mod_eq_of_lt (Nat.lt_of_lt_of_le harg (Nat.pow_le_pow_right (by decide) hle))
  unfold Getter.run Getter.log getField fieldArg
  rw [hgen]
  simp only [hmod]
  rw [getFieldLog_rejected _ _ _ _ _ _ (Or.inr hout)]
  exact ⟨Nat.zero_mod _, rfl⟩

/-- **C11, generic writer.** -/
theorem setter_out_of_range (g : GenFormat) (x : Setter) (hgen : x.field = none)
    (hna : noAliasing x.fieldParamBits x.fieldCastBits = true)
    (e : Endian) (m : Mem) (pdu : Option Nat) (arg v : Nat) (harg : arg < 2 ^ x.fieldParamBits)
    (hout : x.numFields ≤ arg) :
    x.run g.table e m pdu arg v = m ∧ x.log g.table e m pdu arg v = [] := by
  have hle : x.fieldParamBits ≤ x.fieldCastBits := by simpa [noAliasing] using hna
  have hmod : arg % 2 ^ x.fieldCastBits = arg :=
    Nat.mod_eq_of_lt (Nat.lt_of_lt_of_le harg (Nat.pow_le_pow_right (by decide) hle))
  unfold Setter.run Setter.log setField fieldArg
  rw [hgen]
  simp only [hmod]
  rw [setFieldLog_rejected _ _ _ _ _ _ _ (Or.inr hout)]
  exact ⟨rfl, rfl⟩

/-- **C11 for a whole format.** NULL PDU: every reader returns 0, every writer and
    initialiser leaves memory as it was, nothing is accessed. Identifier outside the
    enumeration: the same for the by-identifier reader and writer. Deprecated entry points:
    the invalid-argument error and untouched memory (incl. the result location) for a NULL
    PDU, a NULL result pointer or an out-of-range identifier. -/
theorem C11_format (s : FormatSpec) (g : GenFormat) (h : checkC11 s g = true) :
    (∀ x ∈ g.getters, ∀ (e : Endian) (m : Mem) (arg : Nat),
        x.run g.table e m none arg = 0 ∧ x.log g.table e m none arg = []) ∧
    (∀ x ∈ g.setters, ∀ (e : Endian) (m : Mem) (arg v : Nat),
        x.run g.table e m none arg v = m ∧ x.log g.table e m none arg v = []) ∧
    (∀ i ∈ g.inits, ∀ (e : Endian) (m : Mem) (pv : Nat),
        i.run g e m none pv = some (m, if i.legacy then -22 else 0)) ∧
    (∀ x ∈ g.genericGetters, ∀ (e : Endian) (m : Mem) (pdu : Option Nat) (arg : Nat),
        arg < 2 ^ x.fieldParamBits → g.table.length ≤ arg →
        x.run g.table e m pdu arg = 0 ∧ x.log g.table e m pdu arg = []) ∧
    (∀ x ∈ g.genericSetters, ∀ (e : Endian) (m : Mem) (pdu : Option Nat) (arg v : Nat),
        arg < 2 ^ x.fieldParamBits → g.table.length ≤ arg →
        x.run g.table e m pdu arg v = m ∧ x.log g.table e m pdu arg v = []) ∧
    (∀ l ∈ g.legacy, l.isGet = true → ∀ (e : Endian) (m : Mem) (pdu val : Option Nat) (field : Nat),
        (pdu = none ∨ val = none ∨ g.table.length ≤ field) →
        l.runGet g e m pdu val field = some (m, -22)) ∧
    (∀ l ∈ g.legacy, l.isGet = false → ∀ (e : Endian) (m : Mem) (pdu : Option Nat) (field v : Nat),
        (pdu = none ∨ g.table.length ≤ field) →
        l.runSet g e m pdu field v = some (m, -22)) := by
  simp only [checkC11, Bool.and_eq_true, List.all_eq_true] at h
  obtain ⟨⟨⟨⟨⟨⟨⟨hgg, hgs⟩, _⟩, _⟩, hleg⟩, hin⟩, _⟩, _⟩ := h
  refine ⟨fun x _ e m arg => getter_null x g.table e m arg,
    fun x _ e m arg v => setter_null x g.table e m arg v, ?_, ?_, ?_, ?_, ?_⟩
  · intro i hi e m pv
    have := hin i hi
    unfold Init.run
    cases hl : i.legacy with
    | false => simp
    | true =>
      rw [hl] at this
      simp only [Bool.not_true, Bool.false_or, Bool.and_eq_true, beq_iff_eq] at this
      simp [this.1]
  · intro x hx e m pdu arg harg hout
    have hc := hgg x hx
    simp only [Bool.and_eq_true, tableArgsOK, beq_iff_eq] at hc
    have hfield : x.field = none := by
      have := (List.mem_filter.mp hx).2
      simpa using this
    exact getter_out_of_range g x hfield hc.1 e m pdu arg harg (hc.2.2 ▸ hout)
  · intro x hx e m pdu arg v harg hout
    have hc := hgs x hx
    simp only [Bool.and_eq_true, tableArgsOK, beq_iff_eq] at hc
    have hfield : x.field = none := by
      have := (List.mem_filter.mp hx).2
      simpa using this
    exact setter_out_of_range g x hfield hc.1 e m pdu arg v harg (hc.2.2 ▸ hout)
  · intro l hl hget e m pdu val field hbad
    have hc := hleg l hl
    simp only [Bool.and_eq_true, beq_iff_eq, Bool.or_eq_true, Bool.not_eq_true'] at hc
    obtain ⟨⟨⟨⟨⟨hgp, hgv⟩, hb⟩, herr⟩, _⟩, _⟩ := hc
    have hgv' : l.guardVal = true := by
      rcases hgv with h' | h'
      · rw [hget] at h'; cases h'
      · exact h'
    unfold LegacyAcc.runGet LegacyAcc.rejects
    rw [hgp, hgv', hget, hb, herr]
    rcases hbad with h' | h' | h'
    · subst h'; simp
    · subst h'; simp
    · simp [h']
  · intro l hl hget e m pdu field v hbad
    have hc := hleg l hl
    simp only [Bool.and_eq_true, beq_iff_eq, Bool.or_eq_true, Bool.not_eq_true'] at hc
    obtain ⟨⟨⟨⟨⟨hgp, _⟩, hb⟩, herr⟩, _⟩, _⟩ := hc
    unfold LegacyAcc.runSet LegacyAcc.rejects
    rw [hgp, hget, hb, herr]
    rcases hbad with h' | h'
    · subst h'; simp
    · simp [h']

def atomsC11 (s : FormatSpec) (g : GenFormat) : List (String × Bool) :=
  g.genericGetters.map (fun x => ("identifier-not-narrowed:" ++ x.fn, noAliasing x.fieldParamBits x.fieldCastBits))
  ++ g.genericSetters.map (fun x => ("identifier-not-narrowed:" ++ x.fn, noAliasing x.fieldParamBits x.fieldCastBits))
  ++ g.legacy.map (fun l => ("legacy-guards:" ++ l.fn, l.guardPdu && (!l.isGet || l.guardVal)
        && l.bound == some g.table.length && l.err == -22 && l.ok == 0))
  ++ [("rest", checkC11 s g || !(g.genericGetters.all (fun x => noAliasing x.fieldParamBits x.fieldCastBits))
        || !(g.genericSetters.all (fun x => noAliasing x.fieldParamBits x.fieldCastBits)))]

/-! ## C12 -/

def checkC12 (s : FormatSpec) (g : GenFormat) : Bool :=
  match s.legacy with
  | none => g.legacy.isEmpty && g.inits.all (fun i => !i.legacy)
  | some ls =>
    -- the wrappers exist, forward to the current generic accessor of the same format and
    -- exchange values of the width the Spec states
    g.legacy.all (fun l =>
        (if l.isGet then l.fn == ls.getFn && l.fwd == s.fnPrefix ++ "GetField"
         else l.fn == ls.setFn && l.fwd == s.fnPrefix ++ "SetField")
        && l.valBits == ls.valBits && (l.valBits == 32 || l.valBits == 64))
      && g.legacy.any (fun l => l.isGet && l.fn == ls.getFn)
      && g.legacy.any (fun l => !l.isGet && l.fn == ls.setFn)
      -- every legacy field name designates the same identifier as the current one
      && ls.aliases.all (fun (a, t) =>
          match g.enumValue (s.enumPrefix ++ t) with
          | some v => factIs g.facts ("macro:" ++ a) v
          | none => false)
      -- the packed legacy structures have the size of / overlay the current header
      && ls.structs.all (fun (n, sz, off) => factIs g.facts ("sizeof:" ++ n) sz
          && factIs g.facts ("offsetof_payload:" ++ n) off)
      && (ls.structs.foldl (fun acc (_, sz, _) => acc + sz) 0 == s.headerLen)
      -- no dedicated accessor is called like the generic one
      && s.fields.all (fun fs => s.getterName fs != s.fnPrefix ++ "GetField"
          && s.setterName fs != s.fnPrefix ++ "SetField")
      -- every field fits the exchanged value
      && s.fields.all (fun fs => decide (fs.width ≤ ls.valBits))

/-- **C12, reads.** For valid arguments the deprecated reader stores, in host byte order at
    the result location, exactly what the current by-identifier reader returns — hence (by
    C01) the field's wire bits — and returns success. -/
theorem legacyGet_eq_current (s : FormatSpec) (g : GenFormat) (h1 : checkC01 s g = true)
    (h11 : checkC11 s g = true) (h12 : checkC12 s g = true) (ls : LegacySpec) (hls : s.legacy = some ls)
    (l : LegacyAcc) (hl : l ∈ g.legacy) (hget : l.isGet = true) (fs : FieldSpec) (hfs : fs ∈ s.fields) :
    ∃ i x, g.enumValue fs.enumName = some i ∧ g.findGetter l.fwd = some x ∧
      ∀ (e : Endian) (m : Mem) (p v : Nat),
        l.runGet g e m (some p) (some v) i
          = some (store e (l.valBits / 8) m v (x.run g.table e m (some p) i), 0)
        ∧ x.run g.table e m (some p) i = specGet m p fs.first fs.width := by
  obtain ⟨hgen, _⟩ := C01_format s g h1
  obtain ⟨i, hi, hall⟩ := hgen fs hfs
  simp only [checkC11, Bool.and_eq_true, List.all_eq_true] at h11
  have hc := h11.1.1.1.2 l hl
  simp only [Bool.and_eq_true, beq_iff_eq, Bool.or_eq_true, Bool.not_eq_true'] at hc
  obtain ⟨⟨⟨⟨⟨hgp, hgv⟩, hb⟩, herr⟩, hok⟩, hfw⟩ := hc
  rw [hget] at hfw
  simp only [if_true] at hfw
  obtain ⟨x, hx⟩ := Option.isSome_iff_exists.mp hfw
  have hxm : x ∈ g.getters := List.mem_of_find?_eq_some hx
  have hxn : x.fn = l.fwd := by simpa using List.find?_some hx
  -- the forward target is the generic reader of this format
  unfold checkC12 at h12
  rw [hls] at h12
  simp only [Bool.and_eq_true, List.all_eq_true] at h12
  have hl12 := h12.1.1.1.1.1.1.1 l hl
  rw [hget] at hl12
  simp only [if_true, Bool.and_eq_true, beq_iff_eq] at hl12
  have hwidth := h12.2 fs hfs
  have hvb : l.valBits = ls.valBits := hl12.1.2
  -- x is a generic getter: dedicated getters are named Get<Acc>, never GetField
  have hcheck1 : checkGenericGet g fs = true := by
    simp only [checkC01, Bool.and_eq_true, List.all_eq_true] at h1
    exact h1.1.1.1 fs hfs
  by_cases hxg : x.field = none
  · have hxgen : x ∈ g.genericGetters := List.mem_filter.mpr ⟨hxm, by simp [hxg]⟩
    refine ⟨i, x, hi, hx, ?_⟩
    intro e m p v
    have hrun := hall x hxgen e m p
    refine ⟨?_, hrun⟩
    -- i is a valid identifier: i < table length (from the generic-get check)
    have hilt : i < g.table.length := by
      unfold checkGenericGet at hcheck1
      split at hcheck1
      · rename_i i' d hrow
        obtain ⟨hen, htab⟩ := rowFor_some g fs i' d hrow
        rw [hi] at hen; cases hen
        exact (List.getElem?_eq_some_iff.mp htab).1
      · cases hcheck1
    unfold LegacyAcc.runGet LegacyAcc.rejects
    rw [hgp, hb, hx, hok]
    have : ¬ g.table.length ≤ i := Nat.not_le.mpr hilt
    simp only [Option.isNone_some, Bool.and_false, Bool.or_false, Bool.false_or, this, decide_false,
      Bool.false_eq_true, if_false]
    have hw : fs.width ≤ l.valBits := by rw [hvb]; simpa using hwidth
    have hmod : specGet m p fs.first fs.width % 2 ^ l.valBits = specGet m p fs.first fs.width :=
      Nat.mod_eq_of_lt (Nat.lt_of_lt_of_le (specGet_lt m p fs.first fs.width) (Nat.pow_le_pow_right (by decide) hw))
    rw [hrun, hmod]
  · -- impossible: a dedicated getter is never called `<prefix>GetField` (checked via C01's
    -- name resolution: it would have to be some field's getter name)
    exfalso
    simp only [checkC01, Bool.and_eq_true, List.all_eq_true] at h1
    have := h1.1.1.2 x hxm
    unfold checkDedicatedGet at this
    split at this
    · rename_i hn; exact hxg hn
    · rename_i en v0 hf
      simp only [List.any_eq_true, Bool.and_eq_true, beq_iff_eq, bne_iff_ne, ne_eq] at this
      obtain ⟨f2, hf2, ⟨⟨⟨hacc, hname⟩, _⟩, _⟩⟩ := this
      -- s.getterName f2 = x.fn = l.fwd = prefix ++ "GetField": excluded by the check
      have hs := h12.1.2 f2 hf2
      simp only [Bool.and_eq_true, bne_iff_ne, ne_eq] at hs
      exact hs.1 (by rw [hname, hxn, hl12.1.1.2])

/-- **C12, writes.** For valid arguments the deprecated writer has exactly the effect of the
    current by-identifier writer — hence (by C02) of the reference write — and returns
    success. -/
theorem legacySet_eq_current (s : FormatSpec) (g : GenFormat) (h2 : checkC02 s g = true)
    (h11 : checkC11 s g = true) (h12 : checkC12 s g = true) (ls : LegacySpec) (hls : s.legacy = some ls)
    (l : LegacyAcc) (hl : l ∈ g.legacy) (hset : l.isGet = false) (fs : FieldSpec) (hfs : fs ∈ s.fields) :
    ∃ i x, g.enumValue fs.enumName = some i ∧ g.findSetter l.fwd = some x ∧
      ∀ (e : Endian) (m : Mem) (p v : Nat), v < 2 ^ l.valBits →
        l.runSet g e m (some p) i v = some (x.run g.table e m (some p) i v, 0)
        ∧ x.run g.table e m (some p) i v = specSet m p fs.first fs.width (v % 2 ^ fs.width) := by
  obtain ⟨hgen, _⟩ := C02_format s g h2
  obtain ⟨i, hi, hall⟩ := hgen fs hfs
  simp only [checkC11, Bool.and_eq_true, List.all_eq_true] at h11
  have hc := h11.1.1.1.2 l hl
  simp only [Bool.and_eq_true, beq_iff_eq, Bool.or_eq_true, Bool.not_eq_true'] at hc
  obtain ⟨⟨⟨⟨⟨hgp, _⟩, hb⟩, herr⟩, hok⟩, hfw⟩ := hc
  rw [hset] at hfw
  simp only [Bool.false_eq_true, if_false] at hfw
  obtain ⟨x, hx⟩ := Option.isSome_iff_exists.mp hfw
  have hxm : x ∈ g.setters := List.mem_of_find?_eq_some hx
  have hxn : x.fn = l.fwd := by simpa using List.find?_some hx
  unfold checkC12 at h12
  rw [hls] at h12
  simp only [Bool.and_eq_true, List.all_eq_true] at h12
  have hl12 := h12.1.1.1.1.1.1.1 l hl
  rw [hset] at hl12
  simp only [Bool.false_eq_true, if_false, Bool.and_eq_true, beq_iff_eq, Bool.or_eq_true] at hl12
  have hcheck2 : checkGenericSet g fs = true := by
    simp only [checkC02, Bool.and_eq_true, List.all_eq_true] at h2
    exact h2.1.1.1 fs hfs
  by_cases hxg : x.field = none
  · have hxgen : x ∈ g.genericSetters := List.mem_filter.mpr ⟨hxm, by simp [hxg]⟩
    refine ⟨i, x, hi, hx, ?_⟩
    intro e m p v hv
    have h64 : l.valBits ≤ 64 := by rcases hl12.2 with h' | h' <;> omega
    have hv64 : v < 2 ^ 64 := Nat.lt_of_lt_of_le hv (Nat.pow_le_pow_right (by decide) h64)
    refine ⟨?_, hall x hxgen e m p v hv64⟩
    have hilt : i < g.table.length := by
      unfold checkGenericSet at hcheck2
      split at hcheck2
      · rename_i i' d hrow
        obtain ⟨hen, htab⟩ := rowFor_some g fs i' d hrow
        rw [hi] at hen; cases hen
        exact (List.getElem?_eq_some_iff.mp htab).1
      · cases hcheck2
    unfold LegacyAcc.runSet LegacyAcc.rejects
    rw [hgp, hb, hx, hok, hset]
    have : ¬ g.table.length ≤ i := Nat.not_le.mpr hilt
    simp only [Option.isNone_some, Bool.and_false, Bool.false_and, Bool.or_false, Bool.false_or, this,
      decide_false, Bool.false_eq_true, if_false]
    rw [Nat.mod_eq_of_lt hv]
  · exfalso
    simp only [checkC02, Bool.and_eq_true, List.all_eq_true] at h2
    have := h2.1.1.2 x hxm
    unfold checkDedicatedSet at this
    split at this
    · rename_i hn; exact hxg hn
    · rename_i en v0 hf
      simp only [List.any_eq_true, Bool.and_eq_true, beq_iff_eq, bne_iff_ne, ne_eq] at this
      obtain ⟨f2, hf2, ⟨⟨⟨hacc, hname⟩, _⟩, _⟩⟩ := this
      have hs := h12.1.2 f2 hf2
      simp only [Bool.and_eq_true, bne_iff_ne, ne_eq] at hs
      exact hs.2 (by rw [hname, hxn, hl12.1.1.2])

def atomsC12 (s : FormatSpec) (g : GenFormat) : List (String × Bool) :=
  match s.legacy with
  | none => [("no-legacy-api", checkC12 s g)]
  | some ls =>
    g.legacy.map (fun l => ("wrapper-forwards-to-current:" ++ l.fn,
        (if l.isGet then l.fn == ls.getFn && l.fwd == s.fnPrefix ++ "GetField"
         else l.fn == ls.setFn && l.fwd == s.fnPrefix ++ "SetField") && l.valBits == ls.valBits))
    ++ ls.aliases.map (fun (a, t) => ("alias:" ++ a,
        match g.enumValue (s.enumPrefix ++ t) with
        | some v => factIs g.facts ("macro:" ++ a) v
        | none => false))
    ++ ls.structs.map (fun (n, sz, off) => ("struct:" ++ n, factIs g.facts ("sizeof:" ++ n) sz
        && factIs g.facts ("offsetof_payload:" ++ n) off))
    ++ [("all", checkC12 s g)]

/-! ## C17 -/

/-- **C17.** Two fields of two formats that the Spec places on the same wire bits are read
    and written identically through either view: same value out of every buffer, same bytes
    after every write. (That the pairs the standard shares *are* on the same bits is
    `Spec.shared_views_agree`; that each format's code implements its Spec layout is the
    C01/C02 check of that format.) -/
theorem C17_views (sa sb : FormatSpec) (ga gb : GenFormat)
    (ha1 : checkC01 sa ga = true) (hb1 : checkC01 sb gb = true)
    (ha2 : checkC02 sa ga = true) (hb2 : checkC02 sb gb = true)
    (fa fb : FieldSpec) (hfa : fa ∈ sa.fields) (hfb : fb ∈ sb.fields)
    (hf : fa.first = fb.first) (hw : fa.width = fb.width) :
    ∃ ia ib, ga.enumValue fa.enumName = some ia ∧ gb.enumValue fb.enumName = some ib ∧
      (∀ xa ∈ ga.genericGetters, ∀ xb ∈ gb.genericGetters, ∀ (e : Endian) (m : Mem) (p : Nat),
        xa.run ga.table e m (some p) ia = xb.run gb.table e m (some p) ib) ∧
      (∀ xa ∈ ga.genericSetters, ∀ xb ∈ gb.genericSetters, ∀ (e : Endian) (m : Mem) (p v : Nat),
        v < 2 ^ 64 → xa.run ga.table e m (some p) ia v = xb.run gb.table e m (some p) ib v) := by
  obtain ⟨ia, hia, hga⟩ := (C01_format sa ga ha1).1 fa hfa
  obtain ⟨ib, hib, hgb⟩ := (C01_format sb gb hb1).1 fb hfb
  obtain ⟨ia', hia', hsa⟩ := (C02_format sa ga ha2).1 fa hfa
  obtain ⟨ib', hib', hsb⟩ := (C02_format sb gb hb2).1 fb hfb
  rw [hia] at hia'; cases hia'
  rw [hib] at hib'; cases hib'
  refine ⟨ia, ib, hia, hib, ?_, ?_⟩
  · intro xa hxa xb hxb e m p
    rw [hga xa hxa e m p, hgb xb hxb e m p, hf, hw]
  · intro xa hxa xb hxb e m p v hv
    rw [hsa xa hxa e m p v hv, hsb xb hxb e m p v hv, hf, hw]

/-- Decidable form of "the shared pair is on the same bits" for an instance obligation. -/
def checkView (v : SharedView) : Bool :=
  (viewPairs v).all (fun p =>
    match p with
    | some (fa, fb) => fa.first == fb.first && fa.width == fb.width
    | none => false)

end O1722
