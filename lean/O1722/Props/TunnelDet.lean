/-
  Props/TunnelDet.lean — companion to Props/Tunnel.lean: the datagram the example talker sends
  is a function of the frames, sequence numbers and timestamps only; whatever its 1500-octet
  buffer held before (the previous packet, uninitialised stack) never reaches the wire.
-/
import O1722.Props.Tunnel

namespace O1722
open Spec

/-! ### byte `a` of the result depends only on byte `a` of the memory written to -/

theorem applyWrites_pointwise (m₁ m₂ : Mem) (pdu pv : Nat) (ws : List Write) (a : Nat) (h : m₁ a = m₂ a) :
    applyWrites m₁ pdu pv ws a = applyWrites m₂ pdu pv ws a := by
  unfold applyWrites
  induction ws generalizing m₁ m₂ with
  | nil => exact h
  | cons w ws ih =>
    simp only [List.foldl_cons]
    exact ih _ _ (specSet_pointwise m₁ m₂ pdu _ _ _ a h)

theorem canonical_pointwise (s : FormatSpec) (wa : Bool) (pv : Nat) (m₁ m₂ : Mem) (pdu a : Nat)
    (h : (pdu ≤ a ∧ a < pdu + s.headerLen) ∨ m₁ a = m₂ a) :
    s.canonical wa pv m₁ pdu a = s.canonical wa pv m₂ pdu a := by
  unfold FormatSpec.canonical
  apply applyWrites_pointwise
  unfold zeroFill
  rcases h with h | h
  · rw [if_pos h, if_pos h]
  · by_cases hc : pdu ≤ a ∧ a < pdu + s.headerLen
    · rw [if_pos hc, if_pos hc]
    · rw [if_neg hc, if_neg hc]; exact h

theorem hop_pointwise (s : FormatSpec) (pdu : Nat) (m₁ m₂ : Mem) (op : HOp) (a : Nat)
    (h : m₁ a = m₂ a) : op.apply s pdu m₁ a = op.apply s pdu m₂ a := by
  cases op with
  | init wa pv => exact canonical_pointwise s wa pv m₁ m₂ pdu a (Or.inr h)
  | set i v =>
    simp only [HOp.apply]
    cases s.fields[i]? with
    | none => exact h
    | some fs => exact specSet_pointwise m₁ m₂ pdu _ _ _ a h

theorem runRev_pointwise (s : FormatSpec) (pdu : Nat) (m₁ m₂ : Mem) (ops : List HOp) (a : Nat)
    (h : m₁ a = m₂ a) : runRev s pdu m₁ ops a = runRev s pdu m₂ ops a := by
  induction ops with
  | nil => exact h
  | cons op older ih => exact hop_pointwise s pdu _ _ op a ih

theorem setNamed_pointwise (s : FormatSpec) (m₁ m₂ : Mem) (pdu : Nat) (name : String) (v a : Nat)
    (h : m₁ a = m₂ a) : setNamed s m₁ pdu name v a = setNamed s m₂ pdu name v a := by
  unfold setNamed
  cases s.fieldNamed name with
  | none => exact h
  | some fs => exact specSet_pointwise m₁ m₂ pdu _ _ _ a h

/-! ### one message -/

/-- Every octet of the message the talker builds is determined by the frame and the timestamp:
    two runs from different buffer contents agree on the whole message. -/
theorem talkMsg_determined (cfg : TunnelCfg) (ts : Nat) (m₁ m₂ : Mem) (pdu : Nat) (f : CanFrame)
    (hwf : f.wf cfg) (a : Nat) (ha : pdu ≤ a ∧ a < pdu + msgLen f) :
    (talkMsg cfg ts m₁ pdu f).1 a = (talkMsg cfg ts m₂ pdu f).1 a := by
  obtain ⟨h32, h29, hstd, hlen, hdata, hflags⟩ := hwf
  have hl64 : f.len ≤ 64 := by split at hlen <;> omega
  have hmod : f.len % 256 = f.len := Nat.mod_eq_of_lt (by omega)
  have hplen : (f.data.take f.len).length = f.len := by rw [List.length_take, Nat.min_eq_left hdata]
  rw [talkMsg_eq, talkMsg_eq]
  simp only [hmod]
  have hH : Spec.can.headerLen = 16 := rfl
  -- the header writes after the builder are pointwise; reduce to the builder's result
  apply runRev_pointwise
  rw [canCreate_hist Spec.can canIdxFull can_layout_ok.1 _ pdu _ _ _ (by rw [hplen]; omega),
    canCreate_hist Spec.can canIdxFull can_layout_ok.1 _ pdu _ _ _ (by rw [hplen]; omega)]
  simp only
  apply runRev_pointwise
  -- the base memory: header from the zeroed + initialised header, payload, pad
  by_cases hhdr : a < pdu + 16
  · rw [canBase_header Spec.can _ pdu _ a (by rw [hH]; exact hhdr),
      canBase_header Spec.can _ pdu _ a (by rw [hH]; exact hhdr)]
    apply runRev_pointwise
    unfold zeroFill
    rw [if_pos ⟨ha.1, hhdr⟩, if_pos ⟨ha.1, hhdr⟩]
  · by_cases hpay : a < pdu + 16 + f.len
    · have e : a = pdu + Spec.can.headerLen + (a - pdu - 16) := by rw [hH]; omega
      rw [e, canBase_payload Spec.can _ pdu _ _ (by rw [hplen]; omega),
        canBase_payload Spec.can _ pdu _ _ (by rw [hplen]; omega)]
    · have e : a = pdu + Spec.can.headerLen + (f.data.take f.len).length + (a - pdu - 16 - f.len) := by
        rw [hH, hplen]; omega
      have hk : a - pdu - 16 - f.len < padOf (f.data.take f.len).length := by
        rw [hplen]; unfold msgLen at ha; omega
      rw [e, canBase_pad Spec.can _ pdu _ _ hk, canBase_pad Spec.can _ pdu _ _ hk]

/-! ### the packing loop and the packet -/

/-- The packing loop's decisions (where it stops, what is left, whether it completed) do not
    depend on the buffer content, and every octet it wrote is determined. -/
theorem talkLoop_determined (cfg : TunnelCfg) (count : Nat) :
    ∀ (frames : List (Nat × CanFrame)) (m₁ m₂ : Mem) (at_ i : Nat), (∀ p ∈ frames, p.2.wf cfg) →
      (talkLoop cfg count m₁ at_ i frames).2 = (talkLoop cfg count m₂ at_ i frames).2 ∧
      ∀ a, ((at_ ≤ a ∧ a < (talkLoop cfg count m₁ at_ i frames).2.1) ∨ m₁ a = m₂ a) →
        (talkLoop cfg count m₁ at_ i frames).1 a = (talkLoop cfg count m₂ at_ i frames).1 a := by
  intro frames
  induction frames with
  | nil =>
    intro m₁ m₂ at_ i _
    by_cases hg : i < count ∧ at_ + maxMsgSize cfg ≤ MAX_PDU_SIZE
    · have s1 : ∀ m, talkLoop cfg count m at_ i [] = (m, at_, [], false) := by
        intro m; rw [talkLoop, if_pos hg]
      rw [s1, s1]
      exact ⟨rfl, fun a h => by
        rcases h with h | h
        · exact absurd h.2 (by simp; omega)
        · exact h⟩
    · have s1 : ∀ m, talkLoop cfg count m at_ i [] = (m, at_, [], true) := by
        intro m; rw [talkLoop, if_neg hg]
      rw [s1, s1]
      exact ⟨rfl, fun a h => by
        rcases h with h | h
        · exact absurd h.2 (by simp; omega)
        · exact h⟩
  | cons p rest ih =>
    obtain ⟨ts, f⟩ := p
    intro m₁ m₂ at_ i hwf
    by_cases hg : i < count ∧ at_ + maxMsgSize cfg ≤ MAX_PDU_SIZE
    · have hf : f.wf cfg := hwf (ts, f) List.mem_cons_self
      obtain ⟨l1, fr1, _⟩ := C19_message cfg ts m₁ at_ f hf
      obtain ⟨l2, fr2, _⟩ := C19_message cfg ts m₂ at_ f hf
      have s1 : talkLoop cfg count m₁ at_ i ((ts, f) :: rest)
          = talkLoop cfg count (talkMsg cfg ts m₁ at_ f).1 (at_ + msgLen f) (i + 1) rest := by
        have : talkLoop cfg count m₁ at_ i ((ts, f) :: rest)
            = talkLoop cfg count (talkMsg cfg ts m₁ at_ f).1 (at_ + (talkMsg cfg ts m₁ at_ f).2) (i + 1) rest := by
          rw [talkLoop, if_pos hg]
        rw [this, l1]
      have s2 : talkLoop cfg count m₂ at_ i ((ts, f) :: rest)
          = talkLoop cfg count (talkMsg cfg ts m₂ at_ f).1 (at_ + msgLen f) (i + 1) rest := by
        have : talkLoop cfg count m₂ at_ i ((ts, f) :: rest)
            = talkLoop cfg count (talkMsg cfg ts m₂ at_ f).1 (at_ + (talkMsg cfg ts m₂ at_ f).2) (i + 1) rest := by
          rw [talkLoop, if_pos hg]
        rw [this, l2]
      rw [s1, s2]
      obtain ⟨e1, e2⟩ := ih (talkMsg cfg ts m₁ at_ f).1 (talkMsg cfg ts m₂ at_ f).1 (at_ + msgLen f) (i + 1)
        (fun p hp => hwf p (List.mem_cons_of_mem _ hp))
      refine ⟨e1, ?_⟩
      intro a ha
      apply e2
      by_cases hin : at_ + msgLen f ≤ a ∧ a < (talkLoop cfg count (talkMsg cfg ts m₁ at_ f).1 (at_ + msgLen f) (i + 1) rest).2.1
      · exact Or.inl hin
      · right
        rcases ha with ha | ha
        · -- inside this message: determined
          have : a < at_ + msgLen f := by
            by_cases hlt : a < at_ + msgLen f
            · exact hlt
            · exact absurd ⟨by omega, ha.2⟩ hin
          exact talkMsg_determined cfg ts m₁ m₂ at_ f hf a ⟨ha.1, this⟩
        · -- outside: the message either determines it or leaves both as they were
          by_cases hmsg : at_ ≤ a ∧ a < at_ + msgLen f
          · exact talkMsg_determined cfg ts m₁ m₂ at_ f hf a hmsg
          · rw [fr1 a (by omega), fr2 a (by omega)]; exact ha
    · have s1 : talkLoop cfg count m₁ at_ i ((ts, f) :: rest) = (m₁, at_, (ts, f) :: rest, true) := by
        rw [talkLoop, if_neg hg]
      have s2 : talkLoop cfg count m₂ at_ i ((ts, f) :: rest) = (m₂, at_, (ts, f) :: rest, true) := by
        rw [talkLoop, if_neg hg]
      rw [s1, s2]
      exact ⟨rfl, fun a h => by
        rcases h with h | h
        · exact absurd h.2 (by simp; omega)
        · exact h⟩

/-- **C19 (nothing stale on the wire).** The datagram sent, the frames left waiting and whether
    a packet is sent at all are the same whatever the talker's buffer held before. -/
theorem C19_packet_no_stale (cfg : TunnelCfg) (count udpSeq seq : Nat) (m₁ m₂ : Mem)
    (frames : List (Nat × CanFrame)) (hwf : ∀ p ∈ frames, p.2.wf cfg) :
    talkPacket cfg count udpSeq seq m₁ frames = talkPacket cfg count udpSeq seq m₂ frames := by
  unfold talkPacket
  simp only
  generalize hcf : (if cfg.udp = true then 4 else 0) = cfAt
  -- the buffers after the encapsulation and control-format headers agree on [0, cfAt + hl)
  generalize hA : (if cfg.udp = true then setNamed Spec.udp m₁ 0 "ENCAPSULATION_SEQ_NO" (udpSeq % 2 ^ 32) else m₁) = a₁
  generalize hB : (if cfg.udp = true then setNamed Spec.udp m₂ 0 "ENCAPSULATION_SEQ_NO" (udpSeq % 2 ^ 32) else m₂) = a₂
  have hudp : ∀ x, x < cfAt → a₁ x = a₂ x := by
    intro x hx
    rw [← hA, ← hB]
    by_cases hu : cfg.udp = true
    · rw [if_pos hu, if_pos hu]
      rw [if_pos hu] at hcf
      -- the 32-bit sequence number fills the 4-octet header
      unfold setNamed
      have hf : Spec.udp.fieldNamed "ENCAPSULATION_SEQ_NO" = some ⟨"AVTP_UDP_FIELD_ENCAPSULATION_SEQ_NO", "EncapsulationSeqNo", 0, 32⟩ := by decide
      rw [hf]
      simp only
      apply byte_ext; intro j hj
      have b1 := specSet_bits m₁ 0 0 32 ((udpSeq % 2 ^ 32) % 2 ^ 64 % 2 ^ 32) (8 * x + (7 - j))
      have b2 := specSet_bits m₂ 0 0 32 ((udpSeq % 2 ^ 32) % 2 ^ 64 % 2 ^ 32) (8 * x + (7 - j))
      have hin : 0 ≤ 8 * x + (7 - j) ∧ 8 * x + (7 - j) < 0 + 32 := by omega
      rw [if_pos hin] at b1 b2
      unfold wireBit at b1 b2
      have ex : 0 + (8 * x + (7 - j)) / 8 = x := by omega
      have ej : 7 - (8 * x + (7 - j)) % 8 = j := by omega
      rw [ex, ej] at b1 b2
      rw [b1, b2]
    · rw [if_neg hu] at hcf; omega
  generalize hC : talkCfHeader cfg seq a₁ cfAt = c₁
  generalize hD : talkCfHeader cfg seq a₂ cfAt = c₂
  have hhdr : ∀ x, x < cfAt + (cfSpec cfg).headerLen → c₁ x = c₂ x := by
    intro x hx
    rw [← hC, ← hD, talkCfHeader_eq, talkCfHeader_eq]
    apply runRev_pointwise
    unfold zeroFill
    by_cases hc : cfAt ≤ x ∧ x < cfAt + (cfSpec cfg).headerLen
    · rw [if_pos hc, if_pos hc]
    · rw [if_neg hc, if_neg hc]; exact hudp x (by omega)
  obtain ⟨e1, e2⟩ := talkLoop_determined cfg count frames c₁ c₂ (cfAt + (cfSpec cfg).headerLen) 0 hwf
  generalize hR1 : talkLoop cfg count c₁ (cfAt + (cfSpec cfg).headerLen) 0 frames = R1 at e1 e2
  generalize hR2 : talkLoop cfg count c₂ (cfAt + (cfSpec cfg).headerLen) 0 frames = R2 at e1 e2
  have hend : R1.2.1 = R2.2.1 := by rw [e1]
  have hrest : R1.2.2 = R2.2.2 := by rw [e1]
  obtain ⟨taken, _, _, hge, hle, _⟩ := talkLoop_spec cfg count frames c₁ (cfAt + (cfSpec cfg).headerLen) 0 hwf (by
    have := cf_headerLen cfg
    have : cfAt ≤ 4 := by rw [← hcf]; split <;> omega
    unfold MAX_PDU_SIZE
    have h24 : (cfSpec cfg).headerLen ≤ 24 := by rw [cf_headerLen]; split <;> omega
    omega)
  rw [hR1] at hge hle
  have hbytes : ∀ x, x < R1.2.1 → R1.1 x = R2.1 x := by
    intro x hx
    apply e2
    by_cases hlo : cfAt + (cfSpec cfg).headerLen ≤ x
    · exact Or.inl ⟨hlo, hx⟩
    · exact Or.inr (hhdr x (by omega))
  rw [← hend, ← hrest]
  congr 1
  apply read_congr
  intro x _ hx
  apply setNamed_pointwise
  apply hbytes
  unfold MAX_PDU_SIZE at hle
  have : R1.2.1 % 2 ^ 16 = R1.2.1 := Nat.mod_eq_of_lt (by omega)
  omega

end O1722
