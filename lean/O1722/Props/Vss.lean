/-
  Props/Vss.lean — property theorems about the Model of the VSS functions:
  C09 (finalisation), C07 (encoding), C08 (decoding / length-query convention),
  C10 (string-array packing).
-/
import O1722.Model.Vss
import O1722.Props.Can
import O1722.Lemmas.Holds

namespace O1722
open Spec

/-! ## C09 — Avtp_Vss_Pad -/

theorem vss_layout : fieldsDisjoint Spec.vss = true
    ∧ Spec.vss.fieldNamed "ACF_MSG_LENGTH" = some ⟨"AVTP_VSS_FIELD_ACF_MSG_LENGTH", "AcfMsgLength", 7, 9⟩
    ∧ Spec.vss.fields[1]? = some ⟨"AVTP_VSS_FIELD_ACF_MSG_LENGTH", "AcfMsgLength", 7, 9⟩
    ∧ Spec.vss.fieldNamed "PAD" = some ⟨"AVTP_VSS_FIELD_PAD", "Pad", 16, 2⟩
    ∧ Spec.vss.fields[2]? = some ⟨"AVTP_VSS_FIELD_PAD", "Pad", 16, 2⟩ := by decide

/-- The Model of `Avtp_Vss_Pad` with a byte-granular `memset` destination (scale 1) is
    "zero the pad bytes, then two header writes". -/
theorem vssPad_hist (m : Mem) (pdu len : Nat) (hl : len < 2 ^ 16) :
    vssPad 1 m pdu len =
      runRev Spec.vss pdu (zeroFill m (pdu + len) (padOf len))
        [.set 2 (padOf len % 2 ^ 64), .set 1 ((len + padOf len) / 4 % 2 ^ 64)] := by
  obtain ⟨_, h1, h2, h3, h4⟩ := vss_layout
  unfold vssPad
  have e0 : len % 2 ^ 16 = len := Nat.mod_eq_of_lt hl
  have e1 : (4 - len % 4) % 4 % 256 = padOf len := by unfold padOf; omega
  simp only [e0, e1, Nat.one_mul]
  have e2 : (if len % 4 ≠ 0 then zeroFill m (pdu + len) (padOf len) else m) = zeroFill m (pdu + len) (padOf len) := by
    by_cases h : len % 4 ≠ 0
    · rw [if_pos h]
    · rw [if_neg h]
      have : padOf len = 0 := by unfold padOf; omega
      rw [this, zeroFill_zero]
  rw [e2, setNamed_eq_hop Spec.vss _ pdu "ACF_MSG_LENGTH" _ 1 _ h1 h2,
    setNamed_eq_hop Spec.vss _ pdu "PAD" _ 2 _ h3 h4]
  rfl

/-- **C09.** For every message length from the fixed header up to the ACF maximum and every
    prior content, finalising a VSS message (Model, byte-granular destination)
    sets the length field to ⌈len/4⌉ quadlets and the pad field to the number of bytes added,
    zeroes exactly the pad bytes that immediately follow the message, and changes nothing
    else: every other header field, every message byte, everything after the pad. -/
theorem C09_pad (m : Mem) (pdu len : Nat) (h12 : 12 ≤ len) (hmax : len ≤ 2044) :
    let r := vssPad 1 m pdu len
    getNamed Spec.vss r pdu "ACF_MSG_LENGTH" = (len + 3) / 4 ∧
    getNamed Spec.vss r pdu "PAD" = padOf len ∧
    (∀ k, k < padOf len → r (pdu + len + k) = 0) ∧
    (∀ a, (a < pdu ∨ (pdu + 12 ≤ a ∧ a < pdu + len) ∨ pdu + len + padOf len ≤ a) → r a = m a) ∧
    (∀ j fs, Spec.vss.fields[j]? = some fs → j ≠ 1 → j ≠ 2 →
        specGet r pdu fs.first fs.width = specGet m pdu fs.first fs.width) := by
  intro r
  obtain ⟨hd, h1, h2, h3, h4⟩ := vss_layout
  have hr : r = _ := vssPad_hist m pdu len (by omega)
  have hw : writesWithin (Spec.vss.initWrites true) Spec.vss.headerLen = true
      ∧ writesWithin (Spec.vss.initWrites false) Spec.vss.headerLen = true := by decide
  have hH : Spec.vss.headerLen = 12 := rfl
  have hd' := hd
  simp only [fieldsDisjoint, Bool.and_eq_true, List.all_eq_true, decide_eq_true_eq] at hd'
  -- the base memory agrees with m on the header
  have hbase : ∀ a, a < pdu + 12 → zeroFill m (pdu + len) (padOf len) a = m a := by
    intro a ha; unfold zeroFill; rw [if_neg (by omega)]
  have hfield : ∀ j fs, Spec.vss.fields[j]? = some fs →
      specGet r pdu fs.first fs.width
        = expected Spec.vss pdu m j fs [.set 2 (padOf len % 2 ^ 64), .set 1 ((len + padOf len) / 4 % 2 ^ 64)] := by
    intro j fs hj
    rw [hr, history_field Spec.vss hd pdu _ j fs hj]
    apply expected_congr
    have hin := hd'.2 fs (List.mem_of_getElem? hj)
    rw [hH] at hin
    exact specGet_of_agree _ _ pdu _ _ (fun a ha => hbase a (by omega))
  have hpad4 : padOf len < 4 := by unfold padOf; omega
  refine ⟨?_, ?_, ?_, ?_, ?_⟩
  · unfold getNamed; rw [h1]
    show specGet r pdu 7 9 = _
    have := hfield 1 _ h2
    simp only [expected, Nat.reduceEqDiff, if_true, if_false] at this
    rw [this]
    unfold padOf; omega
  · unfold getNamed; rw [h3]
    show specGet r pdu 16 2 = _
    have := hfield 2 _ h4
    simp only [expected, Nat.reduceEqDiff, if_true, if_false] at this
    rw [this]
    omega
  · intro k hk
    rw [hr, history_frame Spec.vss hd hw pdu _ _ (Or.inr (by rw [hH]; omega))]
    unfold zeroFill; rw [if_pos (by omega)]
  · intro a ha
    rw [hr]
    rcases ha with ha | ha | ha
    · rw [history_frame Spec.vss hd hw pdu _ _ (Or.inl ha)]; unfold zeroFill; rw [if_neg (by omega)]
    · rw [history_frame Spec.vss hd hw pdu _ _ (Or.inr (by rw [hH]; omega))]; unfold zeroFill; rw [if_neg (by omega)]
    · rw [history_frame Spec.vss hd hw pdu _ _ (Or.inr (by rw [hH]; omega))]; unfold zeroFill; rw [if_neg (by omega)]
  · intro j fs hj hj1 hj2
    have := hfield j fs hj
    have e1 : ¬ (2 = j) := fun h => hj2 h.symm
    have e2 : ¬ (1 = j) := fun h => hj1 h.symm
    simp only [expected, e1, e2, if_false] at this
    exact this

/-- With the typed pointer (`scale = sizeof(Avtp_Vss_t) = 12`) the zero fill lands
    elsewhere: for a 13-byte message the model zeroes bytes 156..158 instead of 13..15
    (concrete witness; the property fails unless the scale is 1). -/
theorem vssPad_scale12_witness :
    let m : Mem := fun _ => 0xff
    (vssPad 12 m 0 13) 13 = 0xff ∧ (vssPad 12 m 0 13) 156 = 0 := by decide

/-! non-vacuity -/
example : (12 ≤ 13 ∧ 13 ≤ 2044) ∧ padOf 13 = 3 := by decide

/-! ## C07 / C08 — the VSS codec -/

/-- The caller-side argument of `Avtp_Vss_SetVssPath` for a path value. -/
def cpathOf : VssPath → CPath
  | .interop p => ⟨p.length, p, 0⟩
  | .staticId id => ⟨0, [], id⟩

/-- The caller-side argument of `Avtp_Vss_SetVssData` for a value: scalars by value; strings,
    byte-sized arrays and packed string arrays as (byte length, bytes); wider arrays as
    (byte length, elements). -/
def cvalOf : VssValue → CVal
  | .scalar _ b => .scalar b
  | .string bs => .blob bs.length bs
  | .array t xs =>
    if t.size = 1 then .blob xs.length (xs.map (Fin.ofNat 256)) else .elems (t.size * xs.length) xs
  | .stringArray ss => .blob (packStrings ss).length (packStrings ss)

/-- The value fits the 16-bit byte-length prefix. -/
def Spec.VssValue.fits : VssValue → Prop
  | .scalar _ _ => True
  | .string bs => bs.length < 2 ^ 16
  | .array t xs => t.size * xs.length < 2 ^ 16
  | .stringArray ss => (packStrings ss).length < 2 ^ 16

theorem dtClass_scalar (t : Scalar) : dtClass t.code = .scalar t.size := by cases t <;> decide
theorem dtClass_array (t : Scalar) :
    dtClass (0x80 + t.code) = if t.size = 1 then .blob else .elems t.size := by cases t <;> decide
theorem scalar_size_cases (t : Scalar) : t.size = 1 ∨ t.size = 2 ∨ t.size = 4 ∨ t.size = 8 := by
  cases t <;> simp [Scalar.size]

theorem flatMap_bytesBE_one (xs : List Nat) :
    xs.flatMap (bytesBE 1) = xs.map (Fin.ofNat 256) := by
  induction xs with
  | nil => rfl
  | cons x xs ih =>
    rw [List.flatMap_cons, ih]
    simp [bytesBE]

/-- **C07 (path).** With the header's address mode matching the path, `Avtp_Vss_SetVssPath`
    (Model, either host byte order) is exactly a write of the reference path encoding right
    after the fixed header — hence nothing else changes. -/
theorem C07_path (e : Endian) (m : Mem) (pdu : Nat) (p : VssPath)
    (hmode : vssAddrMode m pdu = p.addrMode)
    (hlen : match p with | .interop bs => bs.length < 2 ^ 16 | .staticId _ => True) :
    vssSetPath e m pdu (cpathOf p) = m.write (pdu + vssFixedHeader) (encPath p) := by
  unfold vssSetPath
  cases p with
  | staticId id =>
    simp only [hmode, VssPath.addrMode, if_true, cpathOf, encPath, be]
    exact wrBe_eq_write e 4 (by simp) m _ id
  | interop bs =>
    simp only at hlen
    simp only [hmode, VssPath.addrMode, cpathOf, encPath, be]
    simp only [Nat.reduceEqDiff, if_true, if_false]
    rw [wrBe_eq_write e 2 (by simp), Mem.write_append, bytesBE_length,
      Nat.mod_eq_of_lt hlen, List.take_length]

/-- **C07 (value).** With the header's datatype matching the value, `Avtp_Vss_SetVssData`
    (Model) is exactly a write of the reference value encoding at the position right after
    the path. -/
theorem C07_value (e : Endian) (m : Mem) (pdu : Nat) (v : VssValue)
    (hcode : vssDatatype m pdu = v.code) (hfit : v.fits) :
    vssSetData e m pdu (cvalOf v)
      = m.write (pdu + vssFixedHeader + vssCalcPathLength e m pdu) (encValue v) := by
  unfold vssSetData
  rw [hcode]
  cases v with
  | scalar t b =>
    simp only [VssValue.code, dtClass_scalar, cvalOf, encValue, be]
    exact wrBe_eq_write e t.size (scalar_size_cases t) m _ b
  | string bs =>
    have hf : bs.length < 2 ^ 16 := hfit
    simp only [VssValue.code, cvalOf, encValue, be, show dtClass 0xB = .blob from by decide]
    rw [wrBe_eq_write e 2 (by simp), Mem.write_append, bytesBE_length, Nat.mod_eq_of_lt hf, List.take_length]
  | stringArray ss =>
    have hf : (packStrings ss).length < 2 ^ 16 := hfit
    simp only [VssValue.code, cvalOf, encValue, be, show dtClass 0x8B = .blob from by decide]
    rw [wrBe_eq_write e 2 (by simp), Mem.write_append, bytesBE_length, Nat.mod_eq_of_lt hf, List.take_length]
  | array t xs =>
    have hf : t.size * xs.length < 2 ^ 16 := hfit
    simp only [VssValue.code, dtClass_array, cvalOf, encValue, be]
    by_cases h1 : t.size = 1
    · simp only [h1, if_true, Nat.one_mul, flatMap_bytesBE_one] at hf ⊢
      rw [wrBe_eq_write e 2 (by simp), Mem.write_append, bytesBE_length, Nat.mod_eq_of_lt hf]
      have : (xs.map (Fin.ofNat 256)).length = xs.length := by simp
      rw [← this, List.take_length]
    · simp only [h1, if_false]
      have hk := scalar_size_cases t
      have hpos : 0 < t.size := by rcases hk with h | h | h | h <;> omega
      rw [Nat.mod_eq_of_lt hf, Nat.mul_div_cancel_left _ hpos, List.take_length,
        wrElems_eq_write e t.size hk, wrBe_eq_write e 2 (by simp), Mem.write_append, bytesBE_length]

/-- **C07 (reserved).** A reserved address mode makes the path writer, and a reserved
    datatype code the value writer, write nothing. -/
theorem C07_reserved (e : Endian) (m : Mem) (pdu : Nat) :
    (∀ p, 2 ≤ vssAddrMode m pdu → vssSetPath e m pdu p = m) ∧
    (∀ v, dtClass (vssDatatype m pdu) = .reserved → vssSetData e m pdu v = m) := by
  constructor
  · intro p h
    unfold vssSetPath
    simp only
    rw [if_neg (by omega), if_neg (by omega)]
  · intro v h
    unfold vssSetData
    simp only [h]

/-- header fields are not affected by writes behind the fixed header -/
theorem getNamed_write_behind (m : Mem) (pdu a : Nat) (bs : List Byte) (name : String)
    (ha : pdu + vssFixedHeader ≤ a) :
    getNamed Spec.vss (m.write a bs) pdu name = getNamed Spec.vss m pdu name := by
  unfold getNamed
  cases hf : Spec.vss.fieldNamed name with
  | none => rfl
  | some fs =>
    simp only
    have hmem : fs ∈ Spec.vss.fields := by
      unfold FormatSpec.fieldNamed at hf; exact List.mem_of_find?_eq_some hf
    have hd := vss_layout.1
    simp only [fieldsDisjoint, Bool.and_eq_true, List.all_eq_true, decide_eq_true_eq] at hd
    have hin := hd.2 fs hmem
    have hH : Spec.vss.headerLen = 12 := rfl
    rw [hH] at hin
    apply specGet_of_agree
    intro x hx
    unfold vssFixedHeader at ha
    exact Mem.write_outside _ _ _ _ (Or.inl (by omega))

theorem rdBe2_write_behind (e : Endian) (m : Mem) (x a : Nat) (bs : List Byte) (h : x + 2 ≤ a) :
    rdBe e 2 (m.write a bs) x = rdBe e 2 m x := by
  show beCpu16 e (load e 2 (m.write a bs) x) = beCpu16 e (load e 2 m x)
  rw [beCpu16_load, beCpu16_load]
  simp only [beN]
  rw [Mem.write_outside _ _ _ _ (Or.inl (by omega)), Mem.write_outside _ _ _ _ (Or.inl (by omega))]

/-- The reported path size does not depend on bytes behind the path's length prefix. -/
theorem calc_write_behind (e : Endian) (m : Mem) (pdu a : Nat) (bs : List Byte)
    (ha : pdu + vssFixedHeader + 2 ≤ a ∨ (vssAddrMode m pdu ≠ 0 ∧ pdu + vssFixedHeader ≤ a)) :
    vssCalcPathLength e (m.write a bs) pdu = vssCalcPathLength e m pdu := by
  have hmode : vssAddrMode (m.write a bs) pdu = vssAddrMode m pdu := by
    unfold vssAddrMode; exact getNamed_write_behind _ _ _ _ _ (by omega)
  unfold vssCalcPathLength
  simp only [hmode]
  by_cases h1 : vssAddrMode m pdu = 1
  · simp [h1]
  · by_cases h0 : vssAddrMode m pdu = 0
    · have ha2 : pdu + vssFixedHeader + 2 ≤ a := by
        rcases ha with h | h
        · exact h
        · exact absurd h0 h.1
      simp only [h0, Nat.reduceEqDiff, if_true, if_false]
      rw [rdBe2_write_behind e m _ a bs ha2]
    · simp [h1, h0]

/-- **C08 (path size).** On a message holding the reference path encoding, the reported
    on-wire path size is the length of that encoding, for every path the 16-bit length
    prefix can describe. -/
theorem C08_calc (e : Endian) (m : Mem) (pdu : Nat) (p : VssPath)
    (hmode : vssAddrMode m pdu = p.addrMode)
    (hh : holds m (pdu + vssFixedHeader) (encPath p))
    (hlen : match p with | .interop bs => bs.length < 2 ^ 16 | .staticId _ => True) :
    vssCalcPathLength e m pdu = (encPath p).length := by
  unfold vssCalcPathLength
  cases p with
  | staticId id => simp [hmode, VssPath.addrMode, encPath, be, bytesBE_length]
  | interop bs =>
    simp only at hlen
    simp only [hmode, VssPath.addrMode, encPath, be] at hh ⊢
    simp only [Nat.reduceEqDiff, if_true, if_false]
    obtain ⟨h1, _⟩ := (holds_append m _ _ _).mp hh
    rw [rdBe_of_holds e 2 (by simp) m _ _ h1, List.length_append, bytesBE_length,
      Nat.mod_eq_of_lt (by simpa using hlen)]
    omega

/-- What `Avtp_Vss_GetVssPath` must deliver for a path. -/
def dpathOf : VssPath → DPath
  | .interop bs => .interop bs.length bs
  | .staticId id => .staticId (id % 2 ^ 32)

/-- **C08 (path).** Decoding the path of a message that holds the reference encoding
    returns the path. -/
theorem C08_path (e : Endian) (m : Mem) (pdu : Nat) (p : VssPath)
    (hmode : vssAddrMode m pdu = p.addrMode)
    (hh : holds m (pdu + vssFixedHeader) (encPath p))
    (hlen : match p with | .interop bs => bs.length < 2 ^ 16 | .staticId _ => True) :
    vssGetPath e m pdu = dpathOf p := by
  unfold vssGetPath
  cases p with
  | staticId id =>
    simp only [hmode, VssPath.addrMode, if_true, encPath, be, dpathOf] at hh ⊢
    rw [rdBe_of_holds e 4 (by simp) m _ _ hh]
  | interop bs =>
    simp only at hlen
    simp only [hmode, VssPath.addrMode, encPath, be, dpathOf] at hh ⊢
    simp only [Nat.reduceEqDiff, if_true, if_false]
    obtain ⟨h1, h2⟩ := (holds_append m _ _ _).mp hh
    rw [bytesBE_length] at h2
    rw [rdBe_of_holds e 2 (by simp) m _ _ h1, Nat.mod_eq_of_lt (by simpa using hlen)]
    rw [read_of_holds m _ bs h2]

/-- What `Avtp_Vss_GetVssData` must deliver for a value; `dst = false` is the length query. -/
def dvalOf (dst : Bool) : VssValue → DVal
  | .scalar t b => .scalar (b % 2 ^ (8 * t.size))
  | .string bs => .blob bs.length (if dst then some bs else none)
  | .array t xs =>
    if t.size = 1 then .blob xs.length (if dst then some (xs.map (Fin.ofNat 256)) else none)
    else .elems (t.size * xs.length) (if dst then some xs else none)
  | .stringArray ss => .blob (packStrings ss).length (if dst then some (packStrings ss) else none)

/-- Element values are in range for their type. -/
def Spec.VssValue.wf : VssValue → Prop
  | .array t xs => ∀ x ∈ xs, x < 2 ^ (8 * t.size)
  | _ => True

/-- **C08 (value).** On a message that holds the reference encoding of `v` right after the
    path, `Avtp_Vss_GetVssData` (Model, either byte order) returns exactly `v` — bit-exact for
    floats and every element; with no destination only the length is reported. -/
theorem C08_value (e : Endian) (m : Mem) (pdu : Nat) (v : VssValue) (dst : Bool)
    (hcode : vssDatatype m pdu = v.code) (hfit : v.fits) (hwf : v.wf)
    (hh : holds m (pdu + vssFixedHeader + vssCalcPathLength e m pdu) (encValue v)) :
    vssGetData e m pdu dst = dvalOf dst v := by
  unfold vssGetData
  rw [hcode]
  cases v with
  | scalar t b =>
    simp only [VssValue.code, dtClass_scalar, encValue, be, dvalOf] at hh ⊢
    rw [rdBe_of_holds e t.size (scalar_size_cases t) m _ _ hh]
  | string bs =>
    have hf : bs.length < 2 ^ 16 := hfit
    simp only [VssValue.code, encValue, be, dvalOf, show dtClass 0xB = .blob from by decide] at hh ⊢
    obtain ⟨h1, h2⟩ := (holds_append m _ _ _).mp hh
    rw [bytesBE_length] at h2
    rw [rdBe_of_holds e 2 (by simp) m _ _ h1, Nat.mod_eq_of_lt (by simpa using hf)]
    cases dst <;> simp only [Bool.false_eq_true, if_false, if_true]
    rw [read_of_holds m _ bs h2]
  | stringArray ss =>
    have hf : (packStrings ss).length < 2 ^ 16 := hfit
    simp only [VssValue.code, encValue, be, dvalOf, show dtClass 0x8B = .blob from by decide] at hh ⊢
    obtain ⟨h1, h2⟩ := (holds_append m _ _ _).mp hh
    rw [bytesBE_length] at h2
    rw [rdBe_of_holds e 2 (by simp) m _ _ h1, Nat.mod_eq_of_lt (by simpa using hf)]
    cases dst <;> simp only [Bool.false_eq_true, if_false, if_true]
    rw [read_of_holds m _ _ h2]
  | array t xs =>
    have hf : t.size * xs.length < 2 ^ 16 := hfit
    have hw : ∀ x ∈ xs, x < 2 ^ (8 * t.size) := hwf
    simp only [VssValue.code, dtClass_array, encValue, be, dvalOf] at hh ⊢
    obtain ⟨h1, h2⟩ := (holds_append m _ _ _).mp hh
    rw [bytesBE_length] at h2
    by_cases hs1 : t.size = 1
    · simp only [hs1, if_true, Nat.one_mul, flatMap_bytesBE_one] at hf h1 h2 ⊢
      rw [rdBe_of_holds e 2 (by simp) m _ _ h1, Nat.mod_eq_of_lt (by simpa using hf)]
      cases dst <;> simp only [Bool.false_eq_true, if_false, if_true]
      have : (xs.map (Fin.ofNat 256)).length = xs.length := by simp
      rw [← this, read_of_holds m _ _ h2]
    · simp only [hs1, if_false]
      have hk := scalar_size_cases t
      have hpos : 0 < t.size := by rcases hk with h | h | h | h <;> omega
      rw [rdBe_of_holds e 2 (by simp) m _ _ h1, Nat.mod_eq_of_lt (by simpa using hf)]
      cases dst <;> simp only [Bool.false_eq_true, if_false, if_true]
      rw [Nat.mul_div_cancel_left _ hpos, rdElems_of_holds e t.size hk m _ xs hw h2]

/-- **C08 (round trip).** Encode-then-decode is the identity on values: decoding what the
    Model of the encoder wrote returns the value that was encoded. -/
theorem C08_roundtrip (e : Endian) (m : Mem) (pdu : Nat) (v : VssValue) (dst : Bool)
    (hcode : vssDatatype m pdu = v.code) (hfit : v.fits) (hwf : v.wf) :
    vssGetData e (vssSetData e m pdu (cvalOf v)) pdu dst = dvalOf dst v := by
  rw [C07_value e m pdu v hcode hfit]
  have hcalc : vssCalcPathLength e (m.write (pdu + vssFixedHeader + vssCalcPathLength e m pdu) (encValue v)) pdu
      = vssCalcPathLength e m pdu := by
    apply calc_write_behind
    by_cases h0 : vssAddrMode m pdu = 0
    · left
      have : vssCalcPathLength e m pdu = rdBe e 2 m (pdu + vssFixedHeader) + 2 := by
        unfold vssCalcPathLength; simp [h0]
      omega
    · right; exact ⟨h0, by omega⟩
  apply C08_value e _ pdu v dst _ hfit hwf
  · rw [hcalc]; exact holds_write _ _ _
  · unfold vssDatatype
    rw [getNamed_write_behind _ _ _ _ _ (by omega)]
    exact hcode

/-! non-vacuity: a concrete value and path meet the hypotheses -/
example : (VssValue.array .u16 [0, 1, 2, 3, 4, 5]).fits ∧ (VssValue.array .u16 [0, 1, 2, 3, 4, 5]).wf := by
  constructor
  · show 2 * 6 < 2 ^ 16; decide
  · intro x hx; simp at hx; rcases hx with rfl | rfl | rfl | rfl | rfl | rfl <;> decide
/-- the protocol description's own example: uint16[] 0..5 -/
example : encValue (.array .u16 [0, 1, 2, 3, 4, 5])
    = [0x00, 0x0C, 0x00, 0x00, 0x00, 0x01, 0x00, 0x02, 0x00, 0x03, 0x00, 0x04, 0x00, 0x05] := by decide

/-! ## C10 — string arrays -/

/-- Arguments of `Avtp_Vss_SerializeStringArray` for a list of strings. -/
def strArgs (ss : List (List Byte)) : List (Nat × List Byte) := ss.map (fun s => (s.length, s))

theorem packStrings_cons (s : List Byte) (ss : List (List Byte)) :
    packStrings (s :: ss) = bytesBE 2 s.length ++ s ++ packStrings ss := by
  simp [packStrings, List.flatMap_cons, be]

theorem packStrings_cons_length (s : List Byte) (ss : List (List Byte)) :
    (packStrings (s :: ss)).length = 2 + s.length + (packStrings ss).length := by
  rw [packStrings_cons]; simp [bytesBE_length]; omega

theorem serialize_gen (e : Endian) :
    ∀ (ss : List (List Byte)) (m : Mem) (data total : Nat), total + (packStrings ss).length < 2 ^ 16 →
      vssSerialize e m data (strArgs ss) total
        = (m.write data (packStrings ss), total + (packStrings ss).length) := by
  intro ss
  induction ss with
  | nil => intro m data total _; simp [strArgs, vssSerialize, packStrings, Mem.write]
  | cons s rest ih =>
    intro m data total h
    rw [packStrings_cons_length] at h
    have hs : s.length % 2 ^ 16 = s.length := Nat.mod_eq_of_lt (by omega)
    have ht : (total + s.length + 2) % 2 ^ 16 = total + s.length + 2 := Nat.mod_eq_of_lt (by omega)
    simp only [strArgs, List.map_cons, vssSerialize, hs, ht, List.take_length]
    have := ih ((wrBe e 2 m data s.length).write (data + 2) s) (data + s.length + 2) (total + s.length + 2) (by omega)
    simp only [strArgs] at this
    rw [this, wrBe_eq_write e 2 (by simp), packStrings_cons_length, packStrings_cons]
    congr 1
    · rw [Mem.write_append, Mem.write_append]
      simp only [bytesBE_length, List.length_append]
      congr 1; omega
    · omega

/-- **C10 (packing).** Packing any list of strings whose packed size fits 16 bits writes, at
    the destination, exactly the concatenation in order of a 16-bit big-endian length and the
    bytes of each string — nothing else — and records the total byte length. -/
theorem C10_serialize (e : Endian) (m : Mem) (data : Nat) (ss : List (List Byte))
    (h : (packStrings ss).length < 2 ^ 16) :
    vssSerialize e m data (strArgs ss) 0 = (m.write data (packStrings ss), (packStrings ss).length) := by
  have := serialize_gen e ss m data 0 (by omega)
  simpa using this

theorem count_gen (e : Endian) (m : Mem) (data total : Nat) (ht : total < 2 ^ 16) :
    ∀ (ss : List (List Byte)) (fuel ptr idx : Nat) (log : List Nat),
      holds m (data + ptr) (packStrings ss) → ptr + (packStrings ss).length = total →
      ss.length < fuel → idx + ss.length < 2 ^ 16 →
      (∀ a ∈ log, data ≤ a ∧ a < data + total) →
      (vssCountLoop e m data total fuel ptr idx log).1 = idx + ss.length ∧
      ∀ a ∈ (vssCountLoop e m data total fuel ptr idx log).2, data ≤ a ∧ a < data + total := by
  intro ss
  induction ss with
  | nil =>
    intro fuel ptr idx log _ hp _ _ hlog
    have : ¬ ptr < total := by simp [packStrings] at hp; omega
    cases fuel with
    | zero => exact ⟨rfl, hlog⟩
    | succ f => simp only [vssCountLoop, this, if_false]; exact ⟨rfl, hlog⟩
  | cons s rest ih =>
    intro fuel ptr idx log hh hp hf hi hlog
    rw [packStrings_cons_length] at hp
    rw [packStrings_cons, List.append_assoc] at hh
    obtain ⟨h1, h23⟩ := (holds_append m _ _ _).mp hh
    obtain ⟨_, h3⟩ := (holds_append m _ _ _).mp h23
    rw [bytesBE_length] at h23 h3
    cases fuel with
    | zero => simp at hf
    | succ f =>
      have hlt : ptr < total := by omega
      have hlen : rdBe e 2 m (data + ptr) = s.length := by
        rw [rdBe_of_holds e 2 (by simp) m _ _ h1]; exact Nat.mod_eq_of_lt (by omega)
      simp only [vssCountLoop, hlt, if_true, hlen]
      have e1 : (ptr + 2 + s.length) % 2 ^ 16 = ptr + 2 + s.length := Nat.mod_eq_of_lt (by omega)
      have e2 : (idx + 1) % 2 ^ 16 = idx + 1 := Nat.mod_eq_of_lt (by simp at hi; omega)
      rw [e1, e2]
      have hh' : holds m (data + (ptr + 2 + s.length)) (packStrings rest) := by
        have : data + ptr + 2 + s.length = data + (ptr + 2 + s.length) := by omega
        rw [← this]; exact h3
      have := ih f (ptr + 2 + s.length) (idx + 1) (log ++ [data + ptr, data + ptr + 1]) hh' (by omega)
        (by simp at hf; omega) (by simp at hi; omega) (by
          intro a ha
          rcases List.mem_append.mp ha with h | h
          · exact hlog a h
          · simp at h; omega)
      refine ⟨?_, this.2⟩
      rw [this.1]; simp; omega

/-- **C10 (counting).** Counting a packed array returns the number of strings — as a number,
    for up to 32767 strings — and reads only bytes of the array's recorded length. -/
theorem C10_count (e : Endian) (m : Mem) (data : Nat) (ss : List (List Byte))
    (h : (packStrings ss).length < 2 ^ 16) (hh : holds m data (packStrings ss)) :
    (vssCount e 16 m data (packStrings ss).length).1 = ss.length ∧
    ∀ a ∈ (vssCount e 16 m data (packStrings ss).length).2,
      data ≤ a ∧ a < data + (packStrings ss).length := by
  have hcnt : ss.length < 32768 := by
    -- every packed string occupies at least two bytes
    have : ∀ l : List (List Byte), 2 * l.length ≤ (packStrings l).length := by
      intro l; induction l with
      | nil => simp [packStrings]
      | cons x xs ih => rw [packStrings_cons_length]; simp; omega
    have := this ss; omega
  unfold vssCount
  rw [Nat.mod_eq_of_lt h]
  have := count_gen e m data _ h ss 32768 0 0 [] (by simpa using hh) (by simp) hcnt (by omega) (by simp)
  refine ⟨?_, this.2⟩
  simp only [this.1, Nat.zero_add]
  exact Nat.mod_eq_of_lt (by omega)

/-- What unpacking must deliver: per requested destination, the string's length and (if a
    destination was supplied) its bytes — for as many strings as the array holds. -/
def unpackSpec (dsts : List Bool) (ss : List (List Byte)) : List (Nat × Option (List Byte)) :=
  List.zipWith (fun d s => (s.length, if d then some s else none)) dsts ss

theorem deserialize_gen (e : Endian) (m : Mem) (data total : Nat) (ht : total < 2 ^ 16) :
    ∀ (dsts : List Bool) (ss : List (List Byte)) (ptr : Nat),
      holds m (data + ptr) (packStrings ss) → ptr + (packStrings ss).length = total →
      (vssDeserialize e true m data total dsts ptr ptr).1 = unpackSpec dsts ss ∧
      ∀ a ∈ (vssDeserialize e true m data total dsts ptr ptr).2, data ≤ a ∧ a < data + total := by
  intro dsts
  induction dsts with
  | nil => intro ss ptr _ _; simp [vssDeserialize, unpackSpec]
  | cons d ds ih =>
    intro ss ptr hh hp
    cases ss with
    | nil =>
      have : ptr ≥ total := by simp [packStrings] at hp; omega
      simp [vssDeserialize, this, unpackSpec]
    | cons s rest =>
      rw [packStrings_cons_length] at hp
      rw [packStrings_cons, List.append_assoc] at hh
      obtain ⟨h1, h23⟩ := (holds_append m _ _ _).mp hh
      obtain ⟨h2, h3⟩ := (holds_append m _ _ _).mp h23
      rw [bytesBE_length] at h23 h2 h3
      have hge : ¬ ptr ≥ total := by omega
      have hlen : rdBe e 2 m (data + ptr) = s.length := by
        rw [rdBe_of_holds e 2 (by simp) m _ _ h1]; exact Nat.mod_eq_of_lt (by omega)
      have e1 : (ptr + 2 + s.length) % 2 ^ 16 = ptr + 2 + s.length := Nat.mod_eq_of_lt (by omega)
      have hh' : holds m (data + (ptr + 2 + s.length)) (packStrings rest) := by
        have : data + ptr + 2 + s.length = data + (ptr + 2 + s.length) := by omega
        rw [← this]; exact h3
      have hrec := ih rest (ptr + 2 + s.length) hh' (by omega)
      simp only [vssDeserialize, hge, if_false, hlen, if_true, e1]
      constructor
      · simp only [unpackSpec, List.zipWith_cons_cons]
        rw [hrec.1]
        congr 2
        cases d
        · rfl
        · simp only [if_true]; rw [read_of_holds m _ s h2]
      · intro a ha
        rcases List.mem_append.mp ha with h | h
        · rcases List.mem_append.mp h with h' | h'
          · simp at h'; omega
          · cases d
            · simp at h'
            · simp only [if_true, List.mem_map, List.mem_range] at h'
              obtain ⟨k, hk, rfl⟩ := h'; omega
        · exact hrec.2 a h

/-- **C10 (unpacking).** Unpacking a packed array into any number of requested strings —
    fewer, as many as, or more than it holds — delivers the first `min(requested, packed)`
    strings with their lengths and bytes (lengths only where no destination is supplied) and
    reads only bytes inside the array's recorded length. -/
theorem C10_deserialize (e : Endian) (m : Mem) (data : Nat) (ss : List (List Byte)) (dsts : List Bool)
    (h : (packStrings ss).length < 2 ^ 16) (hh : holds m data (packStrings ss)) :
    (vssDeserialize e true m data (packStrings ss).length dsts 0 0).1 = unpackSpec dsts ss ∧
    ∀ a ∈ (vssDeserialize e true m data (packStrings ss).length dsts 0 0).2,
      data ≤ a ∧ a < data + (packStrings ss).length :=
  deserialize_gen e m data _ h dsts ss 0 (by simpa using hh) (by simp)

/-- Round trip: counting / unpacking what the packer wrote. -/
theorem C10_roundtrip (e : Endian) (m : Mem) (data : Nat) (ss : List (List Byte)) (dsts : List Bool)
    (h : (packStrings ss).length < 2 ^ 16) :
    let r := vssSerialize e m data (strArgs ss) 0
    (vssCount e 16 r.1 data r.2).1 = ss.length ∧
    (vssDeserialize e true r.1 data r.2 dsts 0 0).1 = unpackSpec dsts ss := by
  intro r
  have hr : r = _ := C10_serialize e m data ss h
  rw [hr]
  exact ⟨(C10_count e _ data ss h (holds_write _ _ _)).1,
    (C10_deserialize e _ data ss dsts h (holds_write _ _ _)).1⟩

example : packStrings [[0x56, 0x53, 0x53]] = [0x00, 0x03, 0x56, 0x53, 0x53] := by decide
example : unpackSpec [true, false, true] [[1], [2, 3]] = [(1, some [1]), (2, none)] := by decide

end O1722
