/-
  Props/Concurrency.lean — property theorem C16: library calls read and write only the
  objects passed to them (and immutable tables), therefore calls issued by any number of
  threads on distinct PDUs — and read-only calls on shared ones — give, under EVERY
  interleaving, the results of running each thread alone.

  Granularity: one library call = one atomic step (the calls' access logs are disjoint for
  distinct PDUs by C03, so there is no conflicting pair of accesses to order below that
  granularity; that a data-race-free execution is equivalent to such an interleaving is the
  C11 memory model's guarantee and is assumed, not modelled).
-/
import O1722.Props.Can

namespace O1722
open Spec

/-- A memory transformer that touches only region `R`: it changes nothing outside `R`, and
    what it leaves inside `R` depends only on what was inside `R`. -/
structure LocalTo (f : Mem → Mem) (R : Nat → Prop) : Prop where
  frame : ∀ m a, ¬ R a → f m a = m a
  loc : ∀ m₁ m₂, (∀ a, R a → m₁ a = m₂ a) → ∀ a, R a → f m₁ a = f m₂ a

theorem list_snoc_induction {α : Type} {P : List α → Prop} (hnil : P [])
    (hsnoc : ∀ l a, P l → P (l ++ [a])) : ∀ l, P l := by
  intro l
  rw [← List.reverse_reverse l]
  induction l.reverse with
  | nil => exact hnil
  | cons a t ih => rw [List.reverse_cons]; exact hsnoc _ _ ih

/-- A scheduled step: the thread that issues it and what it does to memory. -/
structure Step where
  tid : Nat
  f : Mem → Mem

def runSched (zs : List Step) (m : Mem) : Mem := zs.foldl (fun m s => s.f m) m

theorem runSched_append (xs ys : List Step) (m : Mem) :
    runSched (xs ++ ys) m = runSched ys (runSched xs m) := by
  unfold runSched; rw [List.foldl_append]

/-- **C16 (schedules).** Let every step of thread `t` be local to that thread's region
    `R t` (its PDUs) and let the regions of different threads be disjoint. Then for EVERY
    schedule `zs` (any interleaving of any number of threads) the final contents of thread
    `t`'s region are exactly what thread `t`'s own steps, run alone in program order, produce;
    and memory outside all regions is untouched. -/
theorem schedule_independent (R : Nat → Nat → Prop)
    (hdis : ∀ t₁ t₂ a, t₁ ≠ t₂ → ¬ (R t₁ a ∧ R t₂ a)) :
    ∀ (zs : List Step), (∀ s ∈ zs, LocalTo s.f (R s.tid)) → ∀ (m : Mem),
      (∀ t a, R t a → runSched zs m a = runSched (zs.filter (fun s => s.tid == t)) m a) ∧
      (∀ a, (∀ t, ¬ R t a) → runSched zs m a = m a) := by
  intro zs
  induction zs using list_snoc_induction with
  | hnil => intro _ m; exact ⟨fun _ _ _ => rfl, fun _ _ => rfl⟩
  | hsnoc zs s ih =>
    intro hloc m
    have hloc' : ∀ x ∈ zs, LocalTo x.f (R x.tid) := fun x hx => hloc x (List.mem_append_left _ hx)
    have hs : LocalTo s.f (R s.tid) := hloc s (by simp)
    obtain ⟨ih1, ih2⟩ := ih hloc' m
    constructor
    · intro t a ha
      rw [runSched_append, List.filter_append, runSched_append]
      simp only [List.filter_cons, List.filter_nil]
      by_cases ht : s.tid = t
      · subst ht
        simp only [beq_self_eq_true, if_true, runSched, List.foldl_cons, List.foldl_nil]
        exact hs.loc _ _ (fun a' ha' => ih1 s.tid a' ha') a ha
      · have hne : (s.tid == t) = false := by simpa using ht
        simp only [hne, Bool.false_eq_true, if_false, runSched, List.foldl_cons, List.foldl_nil]
        rw [hs.frame _ a (fun hc => hdis s.tid t a ht ⟨hc, ha⟩)]
        exact ih1 t a ha
    · intro a ha
      rw [runSched_append]
      simp only [runSched, List.foldl_cons, List.foldl_nil]
      rw [hs.frame _ a (ha s.tid)]
      exact ih2 a ha

/-- Two calls on disjoint regions commute (the two-step instance of the above). -/
theorem local_comm (f g : Mem → Mem) (R S : Nat → Prop) (hf : LocalTo f R) (hg : LocalTo g S)
    (hd : ∀ a, ¬ (R a ∧ S a)) (m : Mem) : f (g m) = g (f m) := by
  funext a
  by_cases hR : R a
  · have hS : ¬ S a := fun h => hd a ⟨hR, h⟩
    rw [hg.frame _ a hS]
    exact hf.loc _ _ (fun a' ha' => hg.frame m a' (fun h => hd a' ⟨ha', h⟩)) a hR
  · rw [hf.frame _ a hR]
    by_cases hS : S a
    · exact (hg.loc _ _ (fun a' ha' => hf.frame m a' (fun h => hd a' ⟨h, ha'⟩)) a hS).symm
    · rw [hg.frame _ a hS, hg.frame _ a hS, hf.frame _ a hR]

/-- **C16 (read-only sharing).** A region no thread writes keeps its initial contents at
    every point of every schedule — so every read of a shared PDU returns what it would
    return before any thread started (reads depend only on the field's own bytes:
    `getField_depends_only_on_field`). -/
theorem shared_region_stable (R : Nat → Nat → Prop) (Q : Nat → Prop)
    (hq : ∀ t a, Q a → ¬ R t a) (zs : List Step) (hloc : ∀ s ∈ zs, LocalTo s.f (R s.tid)) (m : Mem) :
    ∀ (pre : List Step), pre <+: zs → ∀ a, Q a → runSched pre m a = m a := by
  intro pre
  induction pre using list_snoc_induction with
  | hnil => intro _ a _; rfl
  | hsnoc pre s ih =>
    intro hpre a ha
    have hmem : s ∈ zs := by
      obtain ⟨t, rfl⟩ := hpre
      simp
    have hpre' : pre <+: zs := by
      obtain ⟨t, rfl⟩ := hpre
      exact ⟨[s] ++ t, by simp⟩
    rw [runSched_append]
    simp only [runSched, List.foldl_cons, List.foldl_nil]
    rw [(hloc s hmem).frame _ a (hq s.tid a ha)]
    exact ih hpre' a ha

/-! ### the library's operations are local to the PDU's header -/

def headerRegion (p len : Nat) : Nat → Prop := fun a => p ≤ a ∧ a < p + len

theorem specSet_local (pdu s w v len : Nat) (hin : s + w ≤ 8 * len) :
    LocalTo (fun m => specSet m pdu s w v) (headerRegion pdu len) := by
  constructor
  · intro m a ha
    apply specSet_frame
    unfold headerRegion at ha
    omega
  · intro m₁ m₂ h a ha
    exact specSet_pointwise m₁ m₂ pdu s w v a (h a ha)

/-- Every recognised field writer of a format is local to the PDU's header. -/
theorem setter_local (s : FormatSpec) (g : GenFormat) (h : checkRows s g = true) (x : Setter)
    (hx : x ∈ g.setters) (e : Endian) (p arg v : Nat) :
    LocalTo (fun m => x.run g.table e m (some p) arg v) (headerRegion p s.headerLen) := by
  have hta : x.numFields = g.table.length := by
    simp only [checkRows, Bool.and_eq_true, List.all_eq_true] at h
    have := h.2 x hx
    simp only [tableArgsOK, Bool.and_eq_true, beq_iff_eq] at this
    exact this.2
  constructor
  · intro m a ha
    apply setter_frame s g h x hx
    unfold headerRegion at ha; omega
  · intro m₁ m₂ hm a ha
    unfold Setter.run
    by_cases hi : fieldArg x.field x.fieldCastBits arg < x.numFields
    · have hlt : fieldArg x.field x.fieldCastBits arg < g.table.length := hta ▸ hi
      have hrow := List.getElem?_eq_getElem hlt
      obtain ⟨hv, _⟩ := row_facts s g h _ _ hrow
      rw [setField_spec e g.table x.numFields m₁ p _ _ _ hi hrow hv,
        setField_spec e g.table x.numFields m₂ p _ _ _ hi hrow hv]
      exact specSet_pointwise m₁ m₂ p _ _ _ a (hm a ha)
    · unfold setField
      rw [setFieldLog_rejected _ _ _ _ _ _ _ (Or.inr (Nat.le_of_not_lt hi)),
        setFieldLog_rejected _ _ _ _ _ _ _ (Or.inr (Nat.le_of_not_lt hi))]
      exact hm a ha

/-- No object with static storage duration is writable: the only data the library shares
    between calls are `const` tables. (`statics` is regenerated from the AST of every source
    file, function-local statics included.) -/
def checkC16 (g : GenFormat) : Bool := g.statics.all (fun (_, _, isConst) => isConst) && g.opaqueFns.isEmpty

/-- The library's hand-modelled *reading* functions and the parameters through which each may
    store (its result objects): the Models of these functions return values and no memory,
    which is faithful only if the C functions do not store through anything else — in
    particular not through the PDU they read. -/
def readerFunctions : List (String × List String) :=
  [("Avtp_Can_GetCanPayloadLength", []), ("Avtp_Vss_GetVssPath", ["val"]),
   ("Avtp_Vss_CalcVssPathLength", []), ("Avtp_Vss_GetVSSDataStringArrayLength", []),
   ("Avtp_Vss_DeserializeStringArray", ["strings"]), ("Avtp_Vss_GetVssData", ["val"]),
   -- writers: only the PDU / the destination block, never the caller's source objects
   ("Avtp_Can_CreateAcfMessage", ["pdu"]), ("Avtp_Can_Finalize", ["pdu"]), ("Avtp_Can_SetPayload", ["pdu"]),
   ("Avtp_CanBrief_SetPayload", ["pdu"]), ("Avtp_CanBrief_Finalize", ["pdu"]),
   ("Avtp_Vss_Pad", ["vss_pdu"]), ("Avtp_Vss_SetVssPath", ["pdu"]), ("Avtp_Vss_SetVssData", ["pdu"]),
   ("Avtp_Vss_SerializeStringArray", ["vss_data_string_array"]),
   ("Vss_ReadBe16", []), ("Vss_ReadBe32", []), ("Vss_ReadBe64", []),
   ("Vss_WriteBe16", ["p"]), ("Vss_WriteBe32", ["p"]), ("Vss_WriteBe64", ["p"])]

/-- Every modelled function the file defines stores only through the parameters listed for it
    (readers: their result objects; writers: the PDU or destination block)
    (`algoWrites` is regenerated from the AST). -/
def checkReaders (g : GenFormat) : Bool :=
  g.algoWrites.all (fun (fn, ws) =>
    match readerFunctions.lookup fn with
    | some allowed => ws.all (fun w => allowed.contains w)
    | none => true)

end O1722
