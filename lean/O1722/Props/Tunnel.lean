/-
  Props/Tunnel.lean — property theorem C19: the example CAN tunnel is transparent (for the
  Model of acf-can-talker.c / acf-can-listener.c in Model/Tunnel.lean, over the library
  Models), and the control-format header announces exactly the bytes of the ACF messages.
-/
import O1722.Model.Tunnel
import O1722.Props.Can
import O1722.Lemmas.Holds

namespace O1722
open Spec

/-! ### the frames the tunnel is specified for -/

/-- A frame as the kernel hands it to the talker: a 32-bit `can_id` without the error flag,
    an 11-bit identifier unless EFF is set, a length the CAN variant allows with at least
    that many data bytes, and — on a CAN-FD socket — the FDF flag plus any of BRS/ESI
    (classic frames carry no flags). -/
def CanFrame.wf (cfg : TunnelCfg) (f : CanFrame) : Prop :=
  f.canId < 2 ^ 32 ∧ f.canId.testBit 29 = false ∧
  (f.canId.testBit 31 = false → f.canId % 2 ^ 29 ≤ 0x7FF) ∧
  f.len ≤ (if cfg.fd then 64 else 8) ∧ f.len ≤ f.data.length ∧
  (if cfg.fd then f.flags < 8 ∧ f.flags.testBit 2 = true else f.flags = 0)

/-- The frame the listener must write to the CAN socket for `f`. -/
def CanFrame.out (f : CanFrame) : CanOut := ⟨f.canId, f.len, f.flags, f.data.take f.len⟩

/-- Octets one ACF-CAN message occupies: header, payload, pad to the quadlet. -/
def msgLen (f : CanFrame) : Nat := 16 + f.len + padOf f.len

/-! ### arithmetic of the flag words -/

theorem and_two_pow_eq (x i : Nat) : x &&& 2 ^ i = if x.testBit i then 2 ^ i else 0 := by
  apply Nat.eq_of_testBit_eq; intro k
  rw [Nat.testBit_and, Nat.testBit_two_pow]
  by_cases h : i = k
  · subst h; cases hx : x.testBit i <;> simp
  · cases hx : x.testBit i <;> simp [h]

theorem bit01_eq (x i : Nat) : bit01 x (2 ^ i) = (x.testBit i).toNat := by
  unfold bit01
  rw [and_two_pow_eq]
  cases x.testBit i <;> simp

/-- Re-assembling `can_id` from identifier and flags gives the original word. -/
theorem canId_recompose (c : Nat) (h32 : c < 2 ^ 32) (h29 : c.testBit 29 = false) :
    (let id := c % 2 ^ 29
     let id1 := if (c.testBit 31).toNat ≠ 0 then id ||| 2 ^ 31 else id
     if (c.testBit 30).toNat ≠ 0 then id1 ||| 2 ^ 30 else id1) = c := by
  have hhi : ∀ k, 32 ≤ k → c.testBit k = false := fun k hk =>
    Nat.testBit_lt_two_pow (Nat.lt_of_lt_of_le h32 (Nat.pow_le_pow_right (by omega) hk))
  apply Nat.eq_of_testBit_eq; intro k
  have hk : k < 29 ∨ k = 29 ∨ k = 30 ∨ k = 31 ∨ 32 ≤ k := by omega
  cases h31 : c.testBit 31 <;> cases h30 : c.testBit 30 <;>
    simp only [Bool.toNat_false, Bool.toNat_true, ne_eq, not_true_eq_false, if_false, if_true,
      Nat.one_ne_zero, not_false_eq_true,
      Nat.testBit_or, Nat.testBit_mod_two_pow, Nat.testBit_two_pow] <;>
    rcases hk with hk | hk | hk | hk | hk <;>
    first
      | (subst hk; simp [*])
      | (have := hhi k hk
         have n1 : ¬ 31 = k := by omega
         have n2 : ¬ 30 = k := by omega
         have n3 : ¬ k < 29 := by omega
         simp [*])
      | (have n1 : ¬ 31 = k := by omega
         have n2 : ¬ 30 = k := by omega
         simp [*])

/-- Re-assembling the CAN-FD flag byte. -/
theorem fdFlags_recompose (x : Nat) (h8 : x < 8) (h2 : x.testBit 2 = true) :
    ((if (x.testBit 0).toNat ≠ 0 then 1 else 0) ||| (if (1 : Nat) ≠ 0 then 4 else 0)
      ||| (if (x.testBit 1).toNat ≠ 0 then 2 else 0)) = x := by
  have h : x / 2 ^ 2 % 2 = 1 := by
    have := Nat.toNat_testBit x 2; rw [h2] at this; simpa using this.symm
  have hx : x = 4 ∨ x = 5 ∨ x = 6 ∨ x = 7 := by omega
  rcases hx with hx | hx | hx | hx <;> subst hx <;> decide

/-! ### named reads -/

theorem getNamed_eq (s : FormatSpec) (m : Mem) (pdu : Nat) (name : String) (fs : FieldSpec)
    (h : s.fieldNamed name = some fs) : getNamed s m pdu name = specGet m pdu fs.first fs.width := by
  unfold getNamed; rw [h]

/-- A named read depends only on the header octets. -/
theorem getNamed_congr (s : FormatSpec) (hd : fieldsDisjoint s = true) (m₁ m₂ : Mem) (pdu : Nat)
    (name : String) (h : ∀ a, pdu ≤ a → a < pdu + s.headerLen → m₁ a = m₂ a) :
    getNamed s m₁ pdu name = getNamed s m₂ pdu name := by
  unfold getNamed
  cases hf : s.fieldNamed name with
  | none => rfl
  | some fs =>
    simp only
    have hmem : fs ∈ s.fields := by
      unfold FormatSpec.fieldNamed at hf; exact List.mem_of_find?_eq_some hf
    simp only [fieldsDisjoint, Bool.and_eq_true, List.all_eq_true, decide_eq_true_eq] at hd
    have hin := hd.2 fs hmem
    apply specGet_congr
    intro i h1 h2
    unfold wireBit
    rw [h _ (by omega) (by omega)]

theorem getNamed_runRev (s : FormatSpec) (hd : fieldsDisjoint s = true) (pdu : Nat) (m0 : Mem)
    (name : String) (j : Nat) (fs : FieldSpec) (h1 : s.fieldNamed name = some fs)
    (h2 : s.fields[j]? = some fs) (ops : List HOp) :
    getNamed s (runRev s pdu m0 ops) pdu name = expected s pdu m0 j fs ops := by
  unfold getNamed; rw [h1]; exact history_field s hd pdu m0 j fs h2 ops

theorem read_length (m : Mem) (a n : Nat) : (Mem.read m a n).length = n := by
  induction n generalizing a with
  | zero => rfl
  | succ n ih => simp only [Mem.read, List.length_cons, ih]

theorem read_getElem (m : Mem) (a n i : Nat) (h : i < (Mem.read m a n).length) :
    (Mem.read m a n)[i] = m (a + i) := by
  induction n generalizing a i with
  | zero => simp [Mem.read] at h
  | succ n ih =>
    cases i with
    | zero => simp [Mem.read]
    | succ i =>
      simp only [Mem.read, List.getElem_cons_succ]
      rw [ih]; congr 1; omega

theorem read_congr (m₁ m₂ : Mem) (a n : Nat) (h : ∀ x, a ≤ x → x < a + n → m₁ x = m₂ x) :
    Mem.read m₁ a n = Mem.read m₂ a n := by
  induction n generalizing a with
  | zero => rfl
  | succ n ih =>
    simp only [Mem.read]
    rw [h a (Nat.le_refl _) (by omega), ih (a + 1) (fun x h1 h2 => h x (by omega) (by omega))]

/-! ### the talker's message builder -/

def canFields : List (String × Nat × FieldSpec) :=
  [("ACF_MSG_TYPE", 0, ⟨"AVTP_CAN_FIELD_ACF_MSG_TYPE", "AcfMsgType", 0, 7⟩),
   ("MTV", 3, ⟨"AVTP_CAN_FIELD_MTV", "Mtv", 18, 1⟩),
   ("RTR", 4, ⟨"AVTP_CAN_FIELD_RTR", "Rtr", 19, 1⟩),
   ("EFF", 5, ⟨"AVTP_CAN_FIELD_EFF", "Eff", 20, 1⟩),
   ("BRS", 6, ⟨"AVTP_CAN_FIELD_BRS", "Brs", 21, 1⟩),
   ("FDF", 7, ⟨"AVTP_CAN_FIELD_FDF", "Fdf", 22, 1⟩),
   ("ESI", 8, ⟨"AVTP_CAN_FIELD_ESI", "Esi", 23, 1⟩),
   ("MESSAGE_TIMESTAMP", 10, ⟨"AVTP_CAN_FIELD_MESSAGE_TIMESTAMP", "MessageTimestamp", 32, 64⟩)]

theorem canFields_ok : canFields.all (fun (n, j, fs) =>
    Spec.can.fieldNamed n == some fs && Spec.can.fields[j]? == some fs) = true := by decide

/-- header writes of `prepare_acf_packet` before the builder call, most recent first -/
def preOps (ts : Nat) : List HOp := [.set 3 (1 % 2 ^ 64), .set 10 (ts % 2 ^ 64), .init false 0]

/-- … and after it -/
def flagOps (cfg : TunnelCfg) (f : CanFrame) : List HOp :=
  (if cfg.fd then [.set 8 (bit01 f.flags CANFD_ESI % 2 ^ 64), .set 6 (bit01 f.flags CANFD_BRS % 2 ^ 64)] else [])
  ++ [.set 5 (bit01 f.canId CAN_EFF_FLAG % 2 ^ 64), .set 4 (bit01 f.canId CAN_RTR_FLAG % 2 ^ 64)]

/-- `prepare_acf_packet` = header history, builder, header history. -/
theorem talkMsg_eq (cfg : TunnelCfg) (ts : Nat) (m : Mem) (pdu : Nat) (f : CanFrame) :
    talkMsg cfg ts m pdu f =
      (let pre := runRev Spec.can pdu (zeroFill m pdu 16) (preOps ts)
       let r := canCreate Spec.can pre pdu (f.canId &&& CAN_EFF_MASK) (f.data.take (f.len % 256)) (if cfg.fd then 1 else 0)
       let post := runRev Spec.can pdu r.1 (flagOps cfg f)
       (post, getNamed Spec.can post pdu "ACF_MSG_LENGTH" * 4)) := by
  unfold talkMsg
  simp only
  rw [setNamed_eq_hop Spec.can _ pdu "MESSAGE_TIMESTAMP" _ 10 ⟨"AVTP_CAN_FIELD_MESSAGE_TIMESTAMP", "MessageTimestamp", 32, 64⟩ (by decide) (by decide),
    setNamed_eq_hop Spec.can _ pdu "MTV" _ 3 ⟨"AVTP_CAN_FIELD_MTV", "Mtv", 18, 1⟩ (by decide) (by decide),
    setNamed_eq_hop Spec.can _ pdu "RTR" _ 4 ⟨"AVTP_CAN_FIELD_RTR", "Rtr", 19, 1⟩ (by decide) (by decide),
    setNamed_eq_hop Spec.can _ pdu "EFF" _ 5 ⟨"AVTP_CAN_FIELD_EFF", "Eff", 20, 1⟩ (by decide) (by decide)]
  obtain ⟨t, u, fd⟩ := cfg
  cases fd
  · rfl
  · simp only [if_true]
    rw [setNamed_eq_hop Spec.can _ pdu "BRS" _ 6 ⟨"AVTP_CAN_FIELD_BRS", "Brs", 21, 1⟩ (by decide) (by decide),
      setNamed_eq_hop Spec.can _ pdu "ESI" _ 8 ⟨"AVTP_CAN_FIELD_ESI", "Esi", 23, 1⟩ (by decide) (by decide)]
    rfl

/-! ### what one message on the wire says -/

/-- The header fields and payload octets at `pdu` are those of frame `f`. -/
def IsMsg (cfg : TunnelCfg) (m : Mem) (pdu : Nat) (f : CanFrame) : Prop :=
  getNamed Spec.can m pdu "ACF_MSG_TYPE" = 1 ∧
  getNamed Spec.can m pdu "ACF_MSG_LENGTH" = msgLen f / 4 ∧
  getNamed Spec.can m pdu "PAD" = padOf f.len ∧
  getNamed Spec.can m pdu "CAN_IDENTIFIER" = f.canId % 2 ^ 29 ∧
  getNamed Spec.can m pdu "EFF" = (f.canId.testBit 31).toNat ∧
  getNamed Spec.can m pdu "RTR" = (f.canId.testBit 30).toNat ∧
  getNamed Spec.can m pdu "BRS" = (if cfg.fd then (f.flags.testBit 0).toNat else 0) ∧
  getNamed Spec.can m pdu "FDF" = (if cfg.fd then 1 else 0) ∧
  getNamed Spec.can m pdu "ESI" = (if cfg.fd then (f.flags.testBit 1).toNat else 0) ∧
  holds m (pdu + 16) (f.data.take f.len)

theorem can_disjoint : fieldsDisjoint Spec.can = true := by decide
theorem can_writes : writesWithin (Spec.can.initWrites true) Spec.can.headerLen = true ∧
    writesWithin (Spec.can.initWrites false) Spec.can.headerLen = true := by decide

/-- What a message says depends only on its own header and payload octets. -/
theorem IsMsg_congr (cfg : TunnelCfg) (m₁ m₂ : Mem) (pdu : Nat) (f : CanFrame) (hl : f.len ≤ f.data.length)
    (h : ∀ a, pdu ≤ a → a < pdu + 16 + f.len → m₂ a = m₁ a) (h1 : IsMsg cfg m₁ pdu f) :
    IsMsg cfg m₂ pdu f := by
  have e : ∀ name, getNamed Spec.can m₂ pdu name = getNamed Spec.can m₁ pdu name := fun name =>
    getNamed_congr Spec.can can_disjoint m₂ m₁ pdu name (fun a h1 h2 => h a h1 (by
      have : Spec.can.headerLen = 16 := rfl
      omega))
  unfold IsMsg at *
  simp only [e]
  refine ⟨h1.1, h1.2.1, h1.2.2.1, h1.2.2.2.1, h1.2.2.2.2.1, h1.2.2.2.2.2.1, h1.2.2.2.2.2.2.1,
    h1.2.2.2.2.2.2.2.1, h1.2.2.2.2.2.2.2.2.1, ?_⟩
  apply holds_of_eq_on m₁ m₂ _ _ h1.2.2.2.2.2.2.2.2.2
  intro x hx1 hx2
  rw [List.length_take, Nat.min_eq_left hl] at hx2
  exact h x (by omega) (by omega)

theorem flag_small (b : Bool) : b.toNat % 2 ^ 64 % 2 ^ 1 = b.toNat := by cases b <;> rfl

/-- **The talker's message builder writes exactly the frame** (and nothing else): the
    message at `pdu` says `f`, occupies `msgLen f` octets, and no octet outside them changes. -/
theorem talkMsg_isMsg (cfg : TunnelCfg) (ts : Nat) (m : Mem) (pdu : Nat) (f : CanFrame)
    (hwf : f.wf cfg) :
    IsMsg cfg (talkMsg cfg ts m pdu f).1 pdu f ∧ (talkMsg cfg ts m pdu f).2 = msgLen f ∧
    ∀ a, (a < pdu ∨ pdu + msgLen f ≤ a) → (talkMsg cfg ts m pdu f).1 a = m a := by
  obtain ⟨h32, h29, hstd, hlen, hdata, hflags⟩ := hwf
  have hl64 : f.len ≤ 64 := by split at hlen <;> omega
  have hmod : f.len % 256 = f.len := Nat.mod_eq_of_lt (by omega)
  have hplen : (f.data.take f.len).length = f.len := by rw [List.length_take, Nat.min_eq_left hdata]
  rw [talkMsg_eq]
  simp only [hmod]
  generalize hpre : runRev Spec.can pdu (zeroFill m pdu 16) (preOps ts) = pre
  have hb := C06_builder Spec.can canIdxFull can_layout_ok.1 can_writes pre pdu (f.canId &&& CAN_EFF_MASK)
    (f.data.take f.len) (if cfg.fd then 1 else 0) (by rw [hplen]; omega)
  have hc := C06_can_fields pre pdu (f.canId &&& CAN_EFF_MASK) (f.data.take f.len) (if cfg.fd then 1 else 0)
    (by rw [hplen]; omega)
  simp only [hplen] at hb hc
  generalize hr : canCreate Spec.can pre pdu (f.canId &&& CAN_EFF_MASK) (f.data.take f.len) (if cfg.fd then 1 else 0) = r at hb hc
  obtain ⟨hpay, hpad, hout, _, hret⟩ := hb
  obtain ⟨cLen, cPad, cId, cEff, cFdf, cType, cMtv, cRtr, cBrs, cEsi, _, _⟩ := hc
  have hH : Spec.can.headerLen = 16 := rfl
  rw [hH] at hpay hpad hout hret
  -- fields of the header before the builder ran
  have preF : ∀ (name : String) (j : Nat) (fs : FieldSpec), Spec.can.fieldNamed name = some fs →
      Spec.can.fields[j]? = some fs →
      getNamed Spec.can pre pdu name = expected Spec.can pdu (zeroFill m pdu 16) j fs (preOps ts) := by
    intro name j fs h1 h2; rw [← hpre]; exact getNamed_runRev Spec.can can_disjoint pdu _ name j fs h1 h2 _
  -- fields after the flag writes
  have postF : ∀ (name : String) (j : Nat) (fs : FieldSpec), Spec.can.fieldNamed name = some fs →
      Spec.can.fields[j]? = some fs →
      getNamed Spec.can (runRev Spec.can pdu r.1 (flagOps cfg f)) pdu name
        = expected Spec.can pdu r.1 j fs (flagOps cfg f) := by
    intro name j fs h1 h2; exact getNamed_runRev Spec.can can_disjoint pdu _ name j fs h1 h2 _
  have back : ∀ (name : String) (fs : FieldSpec), Spec.can.fieldNamed name = some fs →
      specGet r.1 pdu fs.first fs.width = getNamed Spec.can r.1 pdu name := by
    intro name fs h1; rw [getNamed_eq _ _ _ _ _ h1]
  have eEff : CAN_EFF_FLAG = 2 ^ 31 := by decide
  have eRtr : CAN_RTR_FLAG = 2 ^ 30 := by decide
  have eBrs : CANFD_BRS = 2 ^ 0 := by decide
  have eEsi : CANFD_ESI = 2 ^ 1 := by decide
  have eMask : f.canId &&& CAN_EFF_MASK = f.canId % 2 ^ 29 := Nat.and_two_pow_sub_one_eq_mod f.canId 29
  have hlenF : getNamed Spec.can (runRev Spec.can pdu r.1 (flagOps cfg f)) pdu "ACF_MSG_LENGTH" = msgLen f / 4 := by
    rw [postF "ACF_MSG_LENGTH" 1 ⟨"AVTP_CAN_FIELD_ACF_MSG_LENGTH", "AcfMsgLength", 7, 9⟩ (by decide) (by decide)]
    obtain ⟨t, u, fd⟩ := cfg
    cases fd <;>
      (simp only [flagOps, expected, if_true, if_false, List.nil_append, List.cons_append, Bool.false_eq_true,
        Nat.reduceEqDiff]
       rw [back "ACF_MSG_LENGTH" ⟨"AVTP_CAN_FIELD_ACF_MSG_LENGTH", "AcfMsgLength", 7, 9⟩ (by decide), cLen]
       unfold msgLen padOf; omega)
  refine ⟨⟨?_, hlenF, ?_, ?_, ?_, ?_, ?_, ?_, ?_, ?_⟩, ?_, ?_⟩
  · -- ACF_MSG_TYPE
    rw [postF "ACF_MSG_TYPE" 0 ⟨"AVTP_CAN_FIELD_ACF_MSG_TYPE", "AcfMsgType", 0, 7⟩ (by decide) (by decide)]
    obtain ⟨t, u, fd⟩ := cfg
    cases fd <;>
      (simp only [flagOps, expected, if_true, if_false, List.nil_append, List.cons_append, Bool.false_eq_true,
        Nat.reduceEqDiff]
       rw [back "ACF_MSG_TYPE" ⟨"AVTP_CAN_FIELD_ACF_MSG_TYPE", "AcfMsgType", 0, 7⟩ (by decide), cType,
        preF "ACF_MSG_TYPE" 0 ⟨"AVTP_CAN_FIELD_ACF_MSG_TYPE", "AcfMsgType", 0, 7⟩ (by decide) (by decide)]
       simp only [preOps, expected, Nat.reduceEqDiff, if_false]
       decide +kernel)
  · rw [postF "PAD" 2 ⟨"AVTP_CAN_FIELD_PAD", "Pad", 16, 2⟩ (by decide) (by decide)]
    obtain ⟨t, u, fd⟩ := cfg
    cases fd
    · simp only [flagOps, expected, if_true, if_false, List.nil_append, List.cons_append, Bool.false_eq_true,
        Nat.reduceEqDiff]
      rw [back "PAD" ⟨"AVTP_CAN_FIELD_PAD", "Pad", 16, 2⟩ (by decide)]
      exact cPad
    · simp only [flagOps, expected, if_true, if_false, List.nil_append, List.cons_append, Bool.false_eq_true,
        Nat.reduceEqDiff]
      rw [back "PAD" ⟨"AVTP_CAN_FIELD_PAD", "Pad", 16, 2⟩ (by decide)]
      exact cPad
  · rw [postF "CAN_IDENTIFIER" 11 ⟨"AVTP_CAN_FIELD_CAN_IDENTIFIER", "CanIdentifier", 99, 29⟩ (by decide) (by decide)]
    obtain ⟨t, u, fd⟩ := cfg
    cases fd
    · simp only [flagOps, expected, if_true, if_false, List.nil_append, List.cons_append, Bool.false_eq_true,
        Nat.reduceEqDiff]
      rw [back "CAN_IDENTIFIER" ⟨"AVTP_CAN_FIELD_CAN_IDENTIFIER", "CanIdentifier", 99, 29⟩ (by decide)]
      rw [cId, eMask, Nat.mod_mod]
    · simp only [flagOps, expected, if_true, if_false, List.nil_append, List.cons_append, Bool.false_eq_true,
        Nat.reduceEqDiff]
      rw [back "CAN_IDENTIFIER" ⟨"AVTP_CAN_FIELD_CAN_IDENTIFIER", "CanIdentifier", 99, 29⟩ (by decide)]
      rw [cId, eMask, Nat.mod_mod]
  · rw [postF "EFF" 5 ⟨"AVTP_CAN_FIELD_EFF", "Eff", 20, 1⟩ (by decide) (by decide)]
    obtain ⟨t, u, fd⟩ := cfg
    cases fd
    · simp only [flagOps, expected, if_true, if_false, List.nil_append, List.cons_append, Bool.false_eq_true,
        Nat.reduceEqDiff]
      rw [eEff, bit01_eq, flag_small]
    · simp only [flagOps, expected, if_true, if_false, List.nil_append, List.cons_append, Bool.false_eq_true,
        Nat.reduceEqDiff]
      rw [eEff, bit01_eq, flag_small]
  · rw [postF "RTR" 4 ⟨"AVTP_CAN_FIELD_RTR", "Rtr", 19, 1⟩ (by decide) (by decide)]
    obtain ⟨t, u, fd⟩ := cfg
    cases fd
    · simp only [flagOps, expected, if_true, if_false, List.nil_append, List.cons_append, Bool.false_eq_true,
        Nat.reduceEqDiff]
      rw [eRtr, bit01_eq, flag_small]
    · simp only [flagOps, expected, if_true, if_false, List.nil_append, List.cons_append, Bool.false_eq_true,
        Nat.reduceEqDiff]
      rw [eRtr, bit01_eq, flag_small]
  · rw [postF "BRS" 6 ⟨"AVTP_CAN_FIELD_BRS", "Brs", 21, 1⟩ (by decide) (by decide)]
    obtain ⟨t, u, fd⟩ := cfg
    cases fd
    · simp only [flagOps, expected, if_true, if_false, List.nil_append, List.cons_append, Bool.false_eq_true,
        Nat.reduceEqDiff]
      rw [back "BRS" ⟨"AVTP_CAN_FIELD_BRS", "Brs", 21, 1⟩ (by decide)]
      rw [cBrs, preF "BRS" 6 ⟨"AVTP_CAN_FIELD_BRS", "Brs", 21, 1⟩ (by decide) (by decide)]
      simp only [preOps, expected, Nat.reduceEqDiff, if_false]
      decide +kernel
    · simp only [flagOps, expected, if_true, if_false, List.nil_append, List.cons_append, Bool.false_eq_true,
        Nat.reduceEqDiff]
      rw [eBrs, bit01_eq, flag_small]
  · rw [postF "FDF" 7 ⟨"AVTP_CAN_FIELD_FDF", "Fdf", 22, 1⟩ (by decide) (by decide)]
    obtain ⟨t, u, fd⟩ := cfg
    cases fd
    · simp only [flagOps, expected, if_true, if_false, List.nil_append, List.cons_append, Bool.false_eq_true,
        Nat.reduceEqDiff]
      rw [back "FDF" ⟨"AVTP_CAN_FIELD_FDF", "Fdf", 22, 1⟩ (by decide)]
      rw [cFdf]; rfl
    · simp only [flagOps, expected, if_true, if_false, List.nil_append, List.cons_append, Bool.false_eq_true,
        Nat.reduceEqDiff]
      rw [back "FDF" ⟨"AVTP_CAN_FIELD_FDF", "Fdf", 22, 1⟩ (by decide)]
      rw [cFdf]; rfl
  · rw [postF "ESI" 8 ⟨"AVTP_CAN_FIELD_ESI", "Esi", 23, 1⟩ (by decide) (by decide)]
    obtain ⟨t, u, fd⟩ := cfg
    cases fd
    · simp only [flagOps, expected, if_true, if_false, List.nil_append, List.cons_append, Bool.false_eq_true,
        Nat.reduceEqDiff]
      rw [back "ESI" ⟨"AVTP_CAN_FIELD_ESI", "Esi", 23, 1⟩ (by decide)]
      rw [cEsi, preF "ESI" 8 ⟨"AVTP_CAN_FIELD_ESI", "Esi", 23, 1⟩ (by decide) (by decide)]
      simp only [preOps, expected, Nat.reduceEqDiff, if_false]
      decide +kernel
    · simp only [flagOps, expected, if_true, if_false, List.nil_append, List.cons_append, Bool.false_eq_true,
        Nat.reduceEqDiff]
      rw [eEsi, bit01_eq, flag_small]
  · -- payload octets
    intro i hi
    rw [history_frame Spec.can can_disjoint can_writes pdu _ _ (Or.inr (by rw [hH]; omega))]
    rw [hplen] at hi
    have := hpay i hi
    rw [← this]
  · show getNamed Spec.can (runRev Spec.can pdu r.1 (flagOps cfg f)) pdu "ACF_MSG_LENGTH" * 4 = msgLen f
    rw [hlenF]; unfold msgLen padOf; omega
  · intro a ha
    show runRev Spec.can pdu r.1 (flagOps cfg f) a = m a
    have hlen16 : 16 ≤ msgLen f := by unfold msgLen; omega
    rw [history_frame Spec.can can_disjoint can_writes pdu _ _ (by rw [hH]; omega)]
    rw [hout a (by unfold msgLen at ha; omega), ← hpre,
      history_frame Spec.can can_disjoint can_writes pdu _ _ (by rw [hH]; omega)]
    unfold zeroFill; rw [if_neg (by omega)]

/-- **The listener's message parser reads exactly the frame** a well-formed message says. -/
theorem listenMsg_of_isMsg (cfg : TunnelCfg) (m : Mem) (pdu rem : Nat) (f : CanFrame) (hwf : f.wf cfg)
    (hrem : msgLen f ≤ rem) (h : IsMsg cfg m pdu f) : listenMsg cfg m pdu rem = some (f.out, msgLen f) := by
  obtain ⟨h32, h29, hstd, hlen, hdata, hflags⟩ := hwf
  obtain ⟨hType, hLen, hPad, hId, hEff, hRtr, hBrs, hFdf, hEsi, hData⟩ := h
  have hl64 : f.len ≤ 64 := by split at hlen <;> omega
  have hty : getNamed Spec.acfCommon m pdu "ACF_MSG_TYPE" = 1 := by
    rw [getNamed_eq Spec.acfCommon m pdu _ ⟨"AVTP_ACF_FIELD_ACF_MSG_TYPE", "AcfMsgType", 0, 7⟩ (by decide)]
    rw [getNamed_eq Spec.can m pdu _ ⟨"AVTP_CAN_FIELD_ACF_MSG_TYPE", "AcfMsgType", 0, 7⟩ (by decide)] at hType
    exact hType
  have hplen : canPayloadLength Spec.can m pdu = f.len := by
    unfold canPayloadLength
    rw [hLen, hPad]
    have : Spec.can.headerLen = 16 := rfl
    rw [this]; unfold msgLen padOf; dsimp only; omega
  have hml : (getNamed Spec.can m pdu "ACF_MSG_LENGTH" * 4) % 2 ^ 16 = msgLen f := by
    rw [hLen]; unfold msgLen padOf; omega
  have hread : Mem.read m (pdu + 16) f.len = f.data.take f.len := by
    have := read_of_holds m (pdu + 16) _ hData
    rwa [List.length_take, Nat.min_eq_left hdata] at this
  unfold listenMsg
  simp only [hty, hplen, hml, hId, hEff, hRtr, hBrs, hFdf, hEsi, hread]
  have hnostd : ¬ ((f.canId.testBit 31).toNat = 0 ∧ f.canId % 2 ^ 29 > 2047) := by
    intro ⟨h1, h2⟩
    have : f.canId.testBit 31 = false := by cases hb : f.canId.testBit 31 <;> simp [hb] at h1 ⊢
    have := hstd this; omega
  have hchk : ¬ (msgLen f < 16 ∨ msgLen f > rem ∨ 16 + f.len > msgLen f ∨ f.len > maxData cfg) := by
    unfold maxData
    have : 16 + f.len ≤ msgLen f := by unfold msgLen; omega
    have : 16 ≤ msgLen f := by unfold msgLen; omega
    omega
  rw [if_neg (by simp), if_neg hchk, if_neg hnostd]
  have hid := canId_recompose f.canId h32 h29
  have eEff : CAN_EFF_FLAG = 2 ^ 31 := by decide
  have eRtr : CAN_RTR_FLAG = 2 ^ 30 := by decide
  have hflagsOut : (if cfg.fd = true then
                  ((if (if cfg.fd = true then (f.flags.testBit 0).toNat else 0) ≠ 0 then CANFD_BRS else 0) |||
                      if (if cfg.fd = true then 1 else 0) ≠ 0 then CANFD_FDF else 0) |||
                    if (if cfg.fd = true then (f.flags.testBit 1).toNat else 0) ≠ 0 then CANFD_ESI else 0
                else 0) = f.flags := by
    obtain ⟨t, u, fd⟩ := cfg
    cases fd
    · simp only [Bool.false_eq_true, if_false] at hflags ⊢; exact hflags.symm
    · simp only [if_true] at hflags ⊢
      exact fdFlags_recompose f.flags hflags.1 hflags.2
  rw [hflagsOut, eEff, eRtr]
  have hcan : (if (f.canId.testBit 30).toNat ≠ 0 then
                  (if (f.canId.testBit 31).toNat ≠ 0 then f.canId % 2 ^ 29 ||| 2 ^ 31 else f.canId % 2 ^ 29) |||
                    2 ^ 30
                else if (f.canId.testBit 31).toNat ≠ 0 then f.canId % 2 ^ 29 ||| 2 ^ 31 else f.canId % 2 ^ 29) = f.canId := hid
  rw [hcan]
  rfl

/-- **C19 (one frame).** For every well-formed classic or FD frame, every timestamp, every
    prior content of the talker's buffer and every address in it: the message the talker
    builds parses, in the listener, to the same `can_id` (identifier, EFF and RTR bits), the
    same length, the same FD flags and the same data; the talker reports exactly the octets
    the message occupies and touches no other octet; and the listener reads the message the
    same from any memory that holds those octets. -/
theorem C19_message (cfg : TunnelCfg) (ts : Nat) (m : Mem) (pdu : Nat) (f : CanFrame) (hwf : f.wf cfg) :
    let r := talkMsg cfg ts m pdu f
    r.2 = msgLen f ∧
    (∀ a, (a < pdu ∨ pdu + msgLen f ≤ a) → r.1 a = m a) ∧
    (∀ M' rem, msgLen f ≤ rem → (∀ a, pdu ≤ a → a < pdu + 16 + f.len → M' a = r.1 a) →
      listenMsg cfg M' pdu rem = some (f.out, msgLen f)) := by
  intro r
  obtain ⟨h1, h2, h3⟩ := talkMsg_isMsg cfg ts m pdu f hwf
  refine ⟨h2, h3, ?_⟩
  intro M' rem hrem hM
  exact listenMsg_of_isMsg cfg M' pdu rem f hwf hrem (IsMsg_congr cfg _ M' pdu f hwf.2.2.2.2.1 hM h1)

theorem msgLen_bounds (cfg : TunnelCfg) (f : CanFrame) (hwf : f.wf cfg) :
    16 ≤ msgLen f ∧ msgLen f ≤ maxMsgSize cfg ∧ 16 + f.len ≤ msgLen f := by
  obtain ⟨_, _, _, hlen, _, _⟩ := hwf
  unfold msgLen padOf maxMsgSize
  split at hlen <;> simp only [*, if_true, if_false, Bool.false_eq_true] <;> omega

/-! ### the packing loop and the listener's walk -/

theorem listenLoop_done (cfg : TunnelCfg) (M : Mem) (base len fuel : Nat) :
    listenLoop cfg M base len fuel len = [] := by
  cases fuel with
  | zero => rfl
  | succ n => unfold listenLoop; rw [if_neg (by omega)]

/-- The packing loop, for any number of frames: the frames split into those packed and those
    left; the packed messages lie back to back from `at_` to the returned end (never past
    `MAX_PDU_SIZE`); nothing outside them changes; and the listener's walk over any memory
    holding those octets delivers exactly the packed frames, in order. -/
theorem talkLoop_spec (cfg : TunnelCfg) (count : Nat) :
    ∀ (frames : List (Nat × CanFrame)) (m : Mem) (at_ i : Nat),
      (∀ p ∈ frames, p.2.wf cfg) → at_ ≤ MAX_PDU_SIZE →
      ∃ taken, frames = taken ++ (talkLoop cfg count m at_ i frames).2.2.1 ∧
        (talkLoop cfg count m at_ i frames).2.1 = at_ + (taken.map (fun p => msgLen p.2)).sum ∧
        at_ + 16 * taken.length ≤ (talkLoop cfg count m at_ i frames).2.1 ∧
        (talkLoop cfg count m at_ i frames).2.1 ≤ MAX_PDU_SIZE ∧
        taken.length + i ≤ max count i ∧
        (∀ a, (a < at_ ∨ (talkLoop cfg count m at_ i frames).2.1 ≤ a) →
            (talkLoop cfg count m at_ i frames).1 a = m a) ∧
        (∀ M' base, base ≤ at_ →
          (∀ a, at_ ≤ a → a < (talkLoop cfg count m at_ i frames).2.1 →
              M' a = (talkLoop cfg count m at_ i frames).1 a) →
          ∀ fuel, taken.length ≤ fuel →
            (listenLoop cfg M' base ((talkLoop cfg count m at_ i frames).2.1 - base) fuel (at_ - base)).filterMap (·.2)
              = taken.map (fun p => p.2.out)) := by
  intro frames
  induction frames with
  | nil =>
    intro m at_ i _ hat
    refine ⟨[], ?_⟩
    unfold talkLoop
    split <;>
      (simp only [List.nil_append, List.map_nil, List.sum_nil, List.length_nil, Nat.add_zero, Nat.mul_zero, true_and]
       refine ⟨Nat.le_refl _, hat, by omega, (by intros; first | rfl | trivial), ?_⟩
       intro M' base _ _ fuel _
       rw [listenLoop_done cfg M' base _ fuel]; rfl)
  | cons p rest ih =>
    obtain ⟨ts, f⟩ := p
    intro m at_ i hwf hat
    by_cases hg : i < count ∧ at_ + maxMsgSize cfg ≤ MAX_PDU_SIZE
    · have hf : f.wf cfg := hwf (ts, f) (List.mem_cons_self)
      obtain ⟨b16, bmax, bpay⟩ := msgLen_bounds cfg f hf
      obtain ⟨h2, h3, h4⟩ := C19_message cfg ts m at_ f hf
      have hstep : talkLoop cfg count m at_ i ((ts, f) :: rest)
          = talkLoop cfg count (talkMsg cfg ts m at_ f).1 (at_ + (talkMsg cfg ts m at_ f).2) (i + 1) rest := by
        rw [talkLoop, if_pos hg]
      rw [hstep, h2]
      obtain ⟨taken, e1, e2, e3, e4, e5, e6, e7⟩ := ih (talkMsg cfg ts m at_ f).1 (at_ + msgLen f) (i + 1)
        (fun p hp => hwf p (List.mem_cons_of_mem _ hp)) (by omega)
      generalize hR : talkLoop cfg count (talkMsg cfg ts m at_ f).1 (at_ + msgLen f) (i + 1) rest = R at *
      refine ⟨(ts, f) :: taken, ?_, ?_, ?_, e4, ?_, ?_, ?_⟩
      · rw [List.cons_append, ← e1]
      · rw [e2]; simp only [List.map_cons, List.sum_cons]; omega
      · simp only [List.length_cons]; omega
      · simp only [List.length_cons]; omega
      · intro a ha
        rw [e6 a (by omega), h3 a (by omega)]
      · intro M' base hb hM fuel hfuel
        simp only [List.length_cons] at hfuel
        obtain ⟨fuel', rfl⟩ : ∃ k, fuel = k + 1 := ⟨fuel - 1, by omega⟩
        unfold listenLoop
        rw [if_pos (by omega), if_neg (by omega)]
        have hbase : base + (at_ - base) = at_ := by omega
        rw [hbase]
        have hmsg := h4 M' (R.2.1 - base - (at_ - base)) (by omega) (fun a ha1 ha2 => by
          rw [hM a ha1 (by omega), e6 a (Or.inl (by omega))])
        rw [hmsg]
        simp only [List.map_cons, List.filterMap_cons]
        congr 1
        have hdone : at_ - base + msgLen f = at_ + msgLen f - base := by omega
        rw [hdone]
        exact e7 M' base (by omega) (fun a ha1 ha2 => hM a (by omega) ha2) fuel' (by omega)
    · refine ⟨[], ?_⟩
      have hstep : talkLoop cfg count m at_ i ((ts, f) :: rest) = (m, at_, (ts, f) :: rest, true) := by
        rw [talkLoop, if_neg hg]
      rw [hstep]
      simp only [List.nil_append, List.map_nil, List.sum_nil, List.length_nil, Nat.add_zero, Nat.mul_zero, true_and]
      refine ⟨Nat.le_refl _, hat, by omega, (by intros; first | rfl | trivial), ?_⟩
      intro M' base _ _ fuel _
      rw [listenLoop_done cfg M' base _ fuel]; rfl

/-! ### the control-format header -/

theorem setNamed_outside (s : FormatSpec) (hd : fieldsDisjoint s = true) (m : Mem) (pdu : Nat)
    (name : String) (v a : Nat) (ha : a < pdu ∨ pdu + s.headerLen ≤ a) :
    setNamed s m pdu name v a = m a := by
  unfold setNamed
  cases hf : s.fieldNamed name with
  | none => rfl
  | some fs =>
    simp only
    have hmem : fs ∈ s.fields := by
      unfold FormatSpec.fieldNamed at hf; exact List.mem_of_find?_eq_some hf
    simp only [fieldsDisjoint, Bool.and_eq_true, List.all_eq_true, decide_eq_true_eq] at hd
    have hin := hd.2 fs hmem
    exact specSet_frame _ _ _ _ _ _ (by omega)

theorem tscf_disjoint : fieldsDisjoint Spec.tscf = true := by decide
theorem ntscf_disjoint : fieldsDisjoint Spec.ntscf = true := by decide
theorem cf_disjoint (cfg : TunnelCfg) : fieldsDisjoint (cfSpec cfg) = true := by
  unfold cfSpec; split
  · exact tscf_disjoint
  · exact ntscf_disjoint

def cfOps (cfg : TunnelCfg) (seq : Nat) : List HOp :=
  if cfg.tscf then [.set 7 (STREAM_ID % 2 ^ 64), .set 5 (seq % 256 % 2 ^ 64), .set 6 (0 % 2 ^ 64), .init false 0]
  else [.set 5 (STREAM_ID % 2 ^ 64), .set 4 (seq % 256 % 2 ^ 64), .init false 0]

/-- `init_cf_pdu` is a header history on the zeroed header. -/
theorem talkCfHeader_eq (cfg : TunnelCfg) (seq : Nat) (m : Mem) (pdu : Nat) :
    talkCfHeader cfg seq m pdu
      = runRev (cfSpec cfg) pdu (zeroFill m pdu (cfSpec cfg).headerLen) (cfOps cfg seq) := by
  obtain ⟨t, u, fd⟩ := cfg
  cases t
  · unfold talkCfHeader cfSpec cfOps
    simp only [Bool.false_eq_true, if_false]
    rw [setNamed_eq_hop Spec.ntscf _ pdu "SEQUENCE_NUM" _ 4 ⟨"AVTP_NTSCF_FIELD_SEQUENCE_NUM", "SequenceNum", 24, 8⟩ (by decide) (by decide),
      setNamed_eq_hop Spec.ntscf _ pdu "STREAM_ID" _ 5 ⟨"AVTP_NTSCF_FIELD_STREAM_ID", "StreamId", 32, 64⟩ (by decide) (by decide)]
    rfl
  · unfold talkCfHeader cfSpec cfOps
    simp only [if_true]
    rw [setNamed_eq_hop Spec.tscf _ pdu "TU" _ 6 ⟨"AVTP_TSCF_FIELD_TU", "Tu", 31, 1⟩ (by decide) (by decide),
      setNamed_eq_hop Spec.tscf _ pdu "SEQUENCE_NUM" _ 5 ⟨"AVTP_TSCF_FIELD_SEQUENCE_NUM", "SequenceNum", 16, 8⟩ (by decide) (by decide),
      setNamed_eq_hop Spec.tscf _ pdu "STREAM_ID" _ 7 ⟨"AVTP_TSCF_FIELD_STREAM_ID", "StreamId", 32, 64⟩ (by decide) (by decide)]
    rfl

theorem cf_writes (cfg : TunnelCfg) :
    writesWithin ((cfSpec cfg).initWrites true) (cfSpec cfg).headerLen = true ∧
    writesWithin ((cfSpec cfg).initWrites false) (cfSpec cfg).headerLen = true := by
  unfold cfSpec; split <;> decide

theorem talkCfHeader_outside (cfg : TunnelCfg) (seq : Nat) (m : Mem) (pdu a : Nat)
    (ha : a < pdu ∨ pdu + (cfSpec cfg).headerLen ≤ a) : talkCfHeader cfg seq m pdu a = m a := by
  rw [talkCfHeader_eq, history_frame (cfSpec cfg) (cf_disjoint cfg) (cf_writes cfg) pdu _ a ha]
  unfold zeroFill; rw [if_neg (by omega)]

/-- The subtype the listener dispatches on, as left by `init_cf_pdu`. -/
theorem talkCfHeader_subtype (cfg : TunnelCfg) (seq : Nat) (m : Mem) (pdu : Nat) :
    getNamed (cfSpec cfg) (talkCfHeader cfg seq m pdu) pdu "SUBTYPE" = (if cfg.tscf then 0x05 else 0x82) := by
  rw [talkCfHeader_eq]
  obtain ⟨t, u, fd⟩ := cfg
  cases t
  · simp only [cfSpec, Bool.false_eq_true, if_false]
    rw [getNamed_runRev Spec.ntscf ntscf_disjoint pdu _ "SUBTYPE" 0 ⟨"AVTP_NTSCF_FIELD_SUBTYPE", "Subtype", 0, 8⟩ (by decide) (by decide)]
    simp only [cfOps, expected, Bool.false_eq_true, if_false, Nat.reduceEqDiff]
    decide +kernel
  · simp only [cfSpec, if_true]
    rw [getNamed_runRev Spec.tscf tscf_disjoint pdu _ "SUBTYPE" 0 ⟨"AVTP_TSCF_FIELD_SUBTYPE", "Subtype", 0, 8⟩ (by decide) (by decide)]
    simp only [cfOps, expected, if_true, if_false, Nat.reduceEqDiff]
    decide +kernel

/-- `update_cf_length`: the length field reads back the value written, the subtype is
    untouched. -/
theorem cfLength_written (cfg : TunnelCfg) (m : Mem) (pdu v : Nat) (hv : v < 2 ^ 11) :
    getNamed (cfSpec cfg) (setNamed (cfSpec cfg) m pdu (cfLenField cfg) v) pdu (cfLenField cfg) = v ∧
    getNamed (cfSpec cfg) (setNamed (cfSpec cfg) m pdu (cfLenField cfg) v) pdu "SUBTYPE"
      = getNamed (cfSpec cfg) m pdu "SUBTYPE" := by
  obtain ⟨t, u, fd⟩ := cfg
  cases t
  · simp only [cfSpec, cfLenField, Bool.false_eq_true, if_false]
    rw [setNamed_eq_hop Spec.ntscf _ pdu "NTSCF_DATA_LENGTH" _ 3 ⟨"AVTP_NTSCF_FIELD_NTSCF_DATA_LENGTH", "NtscfDataLength", 13, 11⟩ (by decide) (by decide)]
    have e : ∀ x, HOp.apply Spec.ntscf pdu m x = runRev Spec.ntscf pdu m [x] := fun _ => rfl
    rw [e, getNamed_runRev Spec.ntscf ntscf_disjoint pdu _ "NTSCF_DATA_LENGTH" 3 ⟨"AVTP_NTSCF_FIELD_NTSCF_DATA_LENGTH", "NtscfDataLength", 13, 11⟩ (by decide) (by decide),
      getNamed_runRev Spec.ntscf ntscf_disjoint pdu _ "SUBTYPE" 0 ⟨"AVTP_NTSCF_FIELD_SUBTYPE", "Subtype", 0, 8⟩ (by decide) (by decide)]
    simp only [expected, if_true, Nat.reduceEqDiff, if_false]
    refine ⟨by omega, ?_⟩
    rw [getNamed_eq Spec.ntscf m pdu "SUBTYPE" ⟨"AVTP_NTSCF_FIELD_SUBTYPE", "Subtype", 0, 8⟩ (by decide)]
  · simp only [cfSpec, cfLenField, if_true]
    rw [setNamed_eq_hop Spec.tscf _ pdu "STREAM_DATA_LENGTH" _ 9 ⟨"AVTP_TSCF_FIELD_STREAM_DATA_LENGTH", "StreamDataLength", 160, 16⟩ (by decide) (by decide)]
    have e : ∀ x, HOp.apply Spec.tscf pdu m x = runRev Spec.tscf pdu m [x] := fun _ => rfl
    rw [e, getNamed_runRev Spec.tscf tscf_disjoint pdu _ "STREAM_DATA_LENGTH" 9 ⟨"AVTP_TSCF_FIELD_STREAM_DATA_LENGTH", "StreamDataLength", 160, 16⟩ (by decide) (by decide),
      getNamed_runRev Spec.tscf tscf_disjoint pdu _ "SUBTYPE" 0 ⟨"AVTP_TSCF_FIELD_SUBTYPE", "Subtype", 0, 8⟩ (by decide) (by decide)]
    simp only [expected, if_true, Nat.reduceEqDiff, if_false]
    refine ⟨by omega, ?_⟩
    rw [getNamed_eq Spec.tscf m pdu "SUBTYPE" ⟨"AVTP_TSCF_FIELD_SUBTYPE", "Subtype", 0, 8⟩ (by decide)]

theorem cf_headerLen (cfg : TunnelCfg) : (cfSpec cfg).headerLen = if cfg.tscf then 24 else 12 := by
  unfold cfSpec; split <;> rfl

/-- The listener dispatches on the common header's subtype: the same bits. -/
theorem subtype_view (cfg : TunnelCfg) (m : Mem) (pdu : Nat) :
    getNamed Spec.commonHeader m pdu "SUBTYPE" = getNamed (cfSpec cfg) m pdu "SUBTYPE" := by
  rw [getNamed_eq Spec.commonHeader m pdu _ ⟨"AVTP_COMMON_HEADER_FIELD_SUBTYPE", "Subtype", 0, 8⟩ (by decide)]
  unfold cfSpec; split
  · rw [getNamed_eq Spec.tscf m pdu _ ⟨"AVTP_TSCF_FIELD_SUBTYPE", "Subtype", 0, 8⟩ (by decide)]
  · rw [getNamed_eq Spec.ntscf m pdu _ ⟨"AVTP_NTSCF_FIELD_SUBTYPE", "Subtype", 0, 8⟩ (by decide)]

/-- **C19 (packet).** For every mode (TSCF/NTSCF, UDP/raw, classic/FD), every frames-per-packet
    setting, all sequence numbers, every prior content of the talker's buffer and every list
    of well-formed frames waiting on the CAN socket — of any length: one iteration of the
    talker's sending loop packs a prefix `taken` of the frames (never more than `count`, never
    past the 1500-octet buffer); the datagram is the encapsulation and control-format headers
    followed by exactly the messages of `taken`; and whatever else the listener's receive
    buffer holds around the received octets, (1) the control-format length field reads exactly
    the number of octets occupied by the ACF messages and (2) the listener writes exactly the
    frames `taken`, each with its identifier, EFF/RTR bits, FD flags, length and data, in
    order. -/
theorem C19_packet (cfg : TunnelCfg) (count udpSeq seq : Nat) (m : Mem) (frames : List (Nat × CanFrame))
    (hwf : ∀ p ∈ frames, p.2.wf cfg) :
    let r := talkPacket cfg count udpSeq seq m frames
    let hdr := (if cfg.udp then 4 else 0) + (cfSpec cfg).headerLen
    ∃ taken, frames = taken ++ r.2.1 ∧ taken.length ≤ count ∧
      r.1.length = hdr + (taken.map (fun p => msgLen p.2)).sum ∧ r.1.length ≤ MAX_PDU_SIZE ∧
      ∀ M', holds M' 0 r.1 →
        getNamed (cfSpec cfg) M' (if cfg.udp then 4 else 0) (cfLenField cfg)
          = (taken.map (fun p => msgLen p.2)).sum ∧
        listenPacket cfg M' r.1.length = taken.map (fun p => p.2.out) := by
  intro r hdr
  generalize hcf : (if cfg.udp then 4 else 0) = cfAt at *
  have hcf4 : cfAt ≤ 4 := by rw [← hcf]; split <;> omega
  have hhl := cf_headerLen cfg
  have hhl24 : (cfSpec cfg).headerLen ≤ 24 := by rw [hhl]; split <;> omega
  generalize hm0 : (if cfg.udp then setNamed Spec.udp m 0 "ENCAPSULATION_SEQ_NO" (udpSeq % 2 ^ 32) else m) = m0
  obtain ⟨taken, e1, e2, e3, e4, e5, e6, e7⟩ := talkLoop_spec cfg count frames
    (talkCfHeader cfg seq m0 cfAt) (cfAt + (cfSpec cfg).headerLen) 0 hwf (by unfold MAX_PDU_SIZE; omega)
  have hr : r = (let R := talkLoop cfg count (talkCfHeader cfg seq m0 cfAt) (cfAt + (cfSpec cfg).headerLen) 0 frames
      (Mem.read (setNamed (cfSpec cfg) R.1 cfAt (cfLenField cfg) ((R.2.1 - cfAt) % 2 ^ 16 - (cfSpec cfg).headerLen)) 0 (R.2.1 % 2 ^ 16),
        R.2.2.1, R.2.2.2)) := by
    show talkPacket cfg count udpSeq seq m frames = _
    unfold talkPacket
    simp only [hcf, hm0]
  generalize hR : talkLoop cfg count (talkCfHeader cfg seq m0 cfAt) (cfAt + (cfSpec cfg).headerLen) 0 frames = R at *
  simp only at hr
  unfold MAX_PDU_SIZE at e4
  have hE16 : R.2.1 % 2 ^ 16 = R.2.1 := Nat.mod_eq_of_lt (by omega)
  have hC16 : (R.2.1 - cfAt) % 2 ^ 16 = R.2.1 - cfAt := Nat.mod_eq_of_lt (by omega)
  rw [hE16, hC16] at hr
  rw [hr]
  simp only
  refine ⟨taken, e1, by simpa using e5, ?_, ?_, ?_⟩
  · rw [read_length, e2]; omega
  · rw [read_length]; unfold MAX_PDU_SIZE; exact e4
  intro M' hM
  generalize hm2 : setNamed (cfSpec cfg) R.1 cfAt (cfLenField cfg) (R.2.1 - cfAt - (cfSpec cfg).headerLen) = m2 at hM
  have hMa : ∀ a, a < R.2.1 → M' a = m2 a := by
    intro a ha
    have h := hM a (by rw [read_length]; exact ha)
    rw [read_getElem] at h
    simpa using h
  have hv : R.2.1 - cfAt - (cfSpec cfg).headerLen = (taken.map (fun p => msgLen p.2)).sum := by omega
  obtain ⟨hw1, hw2⟩ := cfLength_written cfg R.1 cfAt (R.2.1 - cfAt - (cfSpec cfg).headerLen) (by omega)
  rw [hm2] at hw1 hw2
  have hlenM' : getNamed (cfSpec cfg) M' cfAt (cfLenField cfg) = (taken.map (fun p => msgLen p.2)).sum := by
    rw [getNamed_congr (cfSpec cfg) (cf_disjoint cfg) M' m2 cfAt _ (fun a h1 h2 => hMa a (by omega)), hw1, hv]
  refine ⟨hlenM', ?_⟩
  have hsub : getNamed Spec.commonHeader M' cfAt "SUBTYPE" = (if cfg.tscf then 0x05 else 0x82) := by
    rw [subtype_view cfg,
      getNamed_congr (cfSpec cfg) (cf_disjoint cfg) M' m2 cfAt _ (fun a h1 h2 => hMa a (by omega)), hw2,
      getNamed_congr (cfSpec cfg) (cf_disjoint cfg) R.1 (talkCfHeader cfg seq m0 cfAt) cfAt _
        (fun a h1 h2 => e6 a (Or.inl h2)),
      talkCfHeader_subtype]
  have hwalk := e7 M' (cfAt + (cfSpec cfg).headerLen) (Nat.le_refl _)
    (fun a h1 h2 => by
      rw [hMa a h2, ← hm2]
      exact setNamed_outside (cfSpec cfg) (cf_disjoint cfg) _ cfAt _ _ a (Or.inr h1)) 400 (by omega)
  rw [Nat.sub_self] at hwalk
  have hlen' : R.2.1 - (cfAt + (cfSpec cfg).headerLen) = (taken.map (fun p => msgLen p.2)).sum := by omega
  rw [hlen'] at hwalk
  unfold listenPacket listenWalk
  rw [read_length]
  have hge : cfAt + (cfSpec cfg).headerLen + (taken.map (fun p => msgLen p.2)).sum = R.2.1 := by omega
  have hhl12 : 12 ≤ (cfSpec cfg).headerLen := by rw [hhl]; split <;> omega
  rw [if_neg (by intro ⟨_, h⟩; omega)]
  simp only [hcf, hsub]
  obtain ⟨t, u, fd⟩ := cfg
  cases t
  · simp only [cfSpec, cfLenField, Bool.false_eq_true, if_false] at hlenM' hwalk hge ⊢
    have h12 : Spec.ntscf.headerLen = 12 := rfl
    rw [h12] at hwalk hge
    rw [if_neg (by omega), if_neg (by decide), if_pos trivial, hlenM', if_neg (by omega)]
    exact hwalk
  · simp only [cfSpec, cfLenField, if_true] at hlenM' hwalk hge ⊢
    have h24 : Spec.tscf.headerLen = 24 := rfl
    rw [h24] at hwalk hge
    rw [if_neg (by omega), if_neg (by omega), hlenM', if_neg (by omega)]
    exact hwalk

/-! ### any sequence of frames -/

theorem holds_recvBuf (stale : Byte) (pkt : List Byte) : holds (recvBuf stale pkt) 0 pkt := by
  intro i hi
  unfold recvBuf
  rw [Nat.zero_add, List.getD_eq_getElem?_getD, List.getElem?_eq_getElem hi]; rfl

/-- **C19 (any history).** Whatever sequence of well-formed frames arrives on the talker's CAN
    socket, for every mode and frames-per-packet setting: the frames written by the listener
    over all datagrams sent, followed by the frames still waiting in the talker when it
    blocks, are exactly the frames that arrived — same identifiers, flags, lengths and data,
    same order, none lost, duplicated or invented. -/
theorem C19_stream (cfg : TunnelCfg) (count : Nat) (bufs : Nat → Mem) (stale : Byte) :
    ∀ (fuel udpSeq seq : Nat) (frames : List (Nat × CanFrame)), (∀ p ∈ frames, p.2.wf cfg) →
      let r := talkStream cfg count bufs fuel udpSeq seq frames
      (r.1.flatMap (fun pkt => listenPacket cfg (recvBuf stale pkt) pkt.length)) ++ r.2.map (fun p => p.2.out)
        = frames.map (fun p => p.2.out) ∧
      ∀ pkt ∈ r.1, pkt.length ≤ MAX_PDU_SIZE := by
  intro fuel
  induction fuel with
  | zero => intro _ _ frames _; exact ⟨rfl, fun _ h => by cases h⟩
  | succ fuel ih =>
    intro udpSeq seq frames hwf
    unfold talkStream
    simp only
    split
    · obtain ⟨taken, e1, _, _, e4, e5⟩ := C19_packet cfg count udpSeq seq (bufs fuel) frames hwf
      generalize talkPacket cfg count udpSeq seq (bufs fuel) frames = r at *
      have hrest : ∀ p ∈ r.2.1, p.2.wf cfg := fun p hp => hwf p (by rw [e1]; exact List.mem_append_right _ hp)
      obtain ⟨ih1, ih2⟩ := ih (udpSeq + 1) (seq + 1) r.2.1 hrest
      refine ⟨?_, ?_⟩
      · simp only [List.flatMap_cons, List.append_assoc]
        rw [ih1, (e5 _ (holds_recvBuf stale r.1)).2]
        conv => rhs; rw [e1]
        rw [List.map_append]
      · intro pkt hp
        rcases List.mem_cons.mp hp with h | h
        · rw [h]; exact e4
        · exact ih2 pkt h
    · exact ⟨rfl, fun _ h => by cases h⟩

/-- The talker makes progress: with at least one frame per packet requested, a packet that is
    sent carries at least one frame (so `C19_stream` is about non-empty packets). -/
theorem talkLoop_progress (cfg : TunnelCfg) (count : Nat) (m : Mem) (at_ : Nat) (p : Nat × CanFrame)
    (rest : List (Nat × CanFrame)) (hc : 0 < count) (hat : at_ + maxMsgSize cfg ≤ MAX_PDU_SIZE) :
    ∃ m' at', talkLoop cfg count m at_ 0 (p :: rest) = talkLoop cfg count m' at' 1 rest := by
  refine ⟨(talkMsg cfg p.1 m at_ p.2).1, at_ + (talkMsg cfg p.1 m at_ p.2).2, ?_⟩
  rw [talkLoop, if_pos ⟨hc, hat⟩]

/-! ### non-vacuity -/

def exFrameFd : CanFrame := ⟨0x80000123 ||| 0x40000000, 12, 7, List.replicate 64 0x5A⟩
def exFrameStd : CanFrame := ⟨0x7FF, 8, 0, List.replicate 8 0xA5⟩

example : exFrameFd.wf ⟨true, true, true⟩ := by
  unfold CanFrame.wf exFrameFd; decide
example : exFrameStd.wf ⟨false, false, false⟩ := by
  unfold CanFrame.wf exFrameStd; decide

/-- the whole tunnel on concrete frames, three per packet, evaluated -/
example :
    let frames := [(1, exFrameFd), (2, { exFrameFd with canId := 0x80000005, len := 64, flags := 4 }),
      (3, { exFrameFd with canId := 0x400, len := 0, flags := 6 }), (4, exFrameFd)]
    let r := talkStream ⟨true, true, true⟩ 3 (fun _ _ => 0) 5 0 0 frames
    r.1.length = 1 ∧ r.2.length = 1 ∧
    r.1.flatMap (fun pkt => listenPacket ⟨true, true, true⟩ (recvBuf 0 pkt) pkt.length) = (frames.take 3).map (fun p => p.2.out) := by
  decide +kernel

end O1722
