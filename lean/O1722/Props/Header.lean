/-
  Props/Header.lean — property theorems C03 (operations touch only the declared header,
  whose size is the standard's) and C04 (initialisers yield the canonical header).
-/
import O1722.Props.Fields
import O1722.Lemmas.Log

namespace O1722
open Spec

/-! ## C03 -/

/-- The row's quadlets end inside a header of `len` octets. -/
def rowWithin (d : Desc) (len : Nat) : Bool := decide (4 * (d.quadlet + d.quadlets) ≤ len)

/-- Every row is valid and inside the Spec's header; every accessor indexes the table with
    the table's own length. -/
def checkRows (s : FormatSpec) (g : GenFormat) : Bool :=
  g.table.all (fun d => decide d.Valid && rowWithin d s.headerLen)
    && g.getters.all (fun x => tableArgsOK g x.table x.numFields)
    && g.setters.all (fun x => tableArgsOK g x.table x.numFields)

def factIs (probe : List (String × Int)) (key : String) (v : Nat) : Bool :=
  probe.lookup key == some (Int.ofNat v)

/-- Published header length = size of the header type = offset of its payload member
    = the wire format's header size (compiler-evaluated constants), a whole number of
    quadlets; every `memset` of an initialiser covers exactly the header type; the payload
    accessor is declared on the header type. -/
def checkSizes (s : FormatSpec) (g : GenFormat) : Bool :=
  let probe := g.facts
  factIs probe ("macro:" ++ s.lenMacro) s.headerLen
    && factIs probe ("sizeof:" ++ s.headerType) s.headerLen
    && factIs probe ("offsetof_payload:" ++ s.headerType) s.headerLen
    && s.headerLen % 4 == 0
    && g.inits.all (fun i => i.steps.all (fun st =>
        match st with
        | .memset0 ty len => ty == s.headerType && len == s.headerLen
        | _ => true))
    && g.payloadAcc.all (fun (_, ty) => ty == s.headerType)

def checkC03 (s : FormatSpec) (g : GenFormat) : Bool :=
  checkRows s g && checkSizes s g && g.opaqueFns.isEmpty

theorem rowWithin_le (d : Desc) (len : Nat) (h : rowWithin d len = true) :
    4 * (d.quadlet + (d.offset + d.bits + 31) / 32) ≤ len := by
  unfold rowWithin Desc.quadlets at h
  exact of_decide_eq_true h

/-- An access lies inside `[p, p+len)`. -/
def Access.inside (a : Access) (p len : Nat) : Prop := p ≤ a.addr ∧ a.addr + a.width ≤ p + len

theorem fieldAccess_inside (d : Desc) (p len : Nat) (a : Access) (h : FieldAccess d p a)
    (hw : rowWithin d len = true) : a.inside p len := by
  obtain ⟨hw4, _, hlo, hhi⟩ := h
  have hw' := rowWithin_le _ _ hw
  unfold Access.inside Desc.quadlets at *
  omega

theorem row_facts (s : FormatSpec) (g : GenFormat) (h : checkRows s g = true) (i : Nat) (d : Desc)
    (hrow : g.table[i]? = some d) : d.Valid ∧ rowWithin d s.headerLen = true := by
  simp only [checkRows, Bool.and_eq_true, List.all_eq_true, decide_eq_true_eq] at h
  exact h.1.1 d (List.mem_of_getElem? hrow)

/-- **C03, readers.** Whatever the arguments (NULL or not, any identifier), a recognised
    getter only *reads*, and only inside the format's header. -/
theorem getter_accesses (s : FormatSpec) (g : GenFormat) (h : checkRows s g = true)
    (x : Getter) (hx : x ∈ g.getters) (e : Endian) (m : Mem) (pdu : Option Nat) (arg : Nat) :
    ∀ a ∈ x.log g.table e m pdu arg,
      a.write = false ∧ ∃ p, pdu = some p ∧ a.inside p s.headerLen := by
  intro a ha
  unfold Getter.log at ha
  have hta : x.numFields = g.table.length := by
    simp only [checkRows, Bool.and_eq_true, List.all_eq_true] at h
    have := h.1.2 x hx
    simp only [tableArgsOK, Bool.and_eq_true, beq_iff_eq] at this
    exact this.2
  cases pdu with
  | none => rw [getFieldLog_rejected _ _ _ _ _ _ (Or.inl rfl)] at ha; cases ha
  | some p =>
    by_cases hi : fieldArg x.field x.fieldCastBits arg < x.numFields
    · have hlt : fieldArg x.field x.fieldCastBits arg < g.table.length := hta ▸ hi
      have hrow := List.getElem?_eq_getElem hlt
      obtain ⟨hv, hw⟩ := row_facts s g h _ _ hrow
      obtain ⟨hfa, hwr⟩ := getFieldLog_accesses e g.table x.numFields m p _ _ hrow hv a ha
      exact ⟨hwr, p, rfl, fieldAccess_inside _ p _ a hfa hw⟩
    · rw [getFieldLog_rejected _ _ _ _ _ _ (Or.inr (Nat.le_of_not_lt hi))] at ha; cases ha

/-- **C03, writers.** A recognised setter accesses only the format's header. -/
theorem setter_accesses (s : FormatSpec) (g : GenFormat) (h : checkRows s g = true)
    (x : Setter) (hx : x ∈ g.setters) (e : Endian) (m : Mem) (pdu : Option Nat) (arg v : Nat) :
    ∀ a ∈ x.log g.table e m pdu arg v, ∃ p, pdu = some p ∧ a.inside p s.headerLen := by
  intro a ha
  unfold Setter.log at ha
  have hta : x.numFields = g.table.length := by
    simp only [checkRows, Bool.and_eq_true, List.all_eq_true] at h
    have := h.2 x hx
    simp only [tableArgsOK, Bool.and_eq_true, beq_iff_eq] at this
    exact this.2
  cases pdu with
  | none => rw [setFieldLog_rejected _ _ _ _ _ _ _ (Or.inl rfl)] at ha; cases ha
  | some p =>
    by_cases hi : fieldArg x.field x.fieldCastBits arg < x.numFields
    · have hlt : fieldArg x.field x.fieldCastBits arg < g.table.length := hta ▸ hi
      have hrow := List.getElem?_eq_getElem hlt
      obtain ⟨hv, hw⟩ := row_facts s g h _ _ hrow
      have hfa := setFieldLog_accesses e g.table x.numFields m p _ _ _ hrow hv a ha
      exact ⟨p, rfl, fieldAccess_inside _ p _ a hfa hw⟩
    · rw [setFieldLog_rejected _ _ _ _ _ _ _ (Or.inr (Nat.le_of_not_lt hi))] at ha; cases ha

/-- The memory effect of a recognised setter is confined to the header as well (the model
    of the store, not only its log): every byte outside `[p, p+headerLen)` is unchanged. -/
theorem setter_frame (s : FormatSpec) (g : GenFormat) (h : checkRows s g = true)
    (x : Setter) (hx : x ∈ g.setters) (e : Endian) (m : Mem) (p arg v a : Nat)
    (ha : a < p ∨ p + s.headerLen ≤ a) :
    x.run g.table e m (some p) arg v a = m a := by
  have hta : x.numFields = g.table.length := by
    simp only [checkRows, Bool.and_eq_true, List.all_eq_true] at h
    have := h.2 x hx
    simp only [tableArgsOK, Bool.and_eq_true, beq_iff_eq] at this
    exact this.2
  unfold Setter.run
  by_cases hi : fieldArg x.field x.fieldCastBits arg < x.numFields
  · have hlt : fieldArg x.field x.fieldCastBits arg < g.table.length := hta ▸ hi
    have hrow := List.getElem?_eq_getElem hlt
    obtain ⟨hv, hw⟩ := row_facts s g h _ _ hrow
    rw [setField_spec e g.table x.numFields m p _ _ _ hi hrow hv]
    apply specSet_frame
    have hw' := rowWithin_le _ _ hw
    unfold Desc.start
    omega
  · unfold setField
    rw [setFieldLog_rejected _ _ _ _ _ _ _ (Or.inr (Nat.le_of_not_lt hi))]

/-- **C03 for a whole format**: all recognised accessors stay inside the header, and the
    header's published length, type size and payload offset equal the Spec's. -/
theorem C03_format (s : FormatSpec) (g : GenFormat) (h : checkC03 s g = true) :
    (∀ x ∈ g.getters, ∀ (e : Endian) (m : Mem) (pdu : Option Nat) (arg : Nat),
        ∀ a ∈ x.log g.table e m pdu arg, a.write = false ∧ ∃ p, pdu = some p ∧ a.inside p s.headerLen) ∧
    (∀ x ∈ g.setters, ∀ (e : Endian) (m : Mem) (pdu : Option Nat) (arg v : Nat),
        ∀ a ∈ x.log g.table e m pdu arg v, ∃ p, pdu = some p ∧ a.inside p s.headerLen) ∧
    (∀ x ∈ g.setters, ∀ (e : Endian) (m : Mem) (p arg v a : Nat), (a < p ∨ p + s.headerLen ≤ a) →
        x.run g.table e m (some p) arg v a = m a) ∧
    factIs g.facts ("macro:" ++ s.lenMacro) s.headerLen = true ∧
    factIs g.facts ("sizeof:" ++ s.headerType) s.headerLen = true ∧
    factIs g.facts ("offsetof_payload:" ++ s.headerType) s.headerLen = true ∧
    s.headerLen % 4 = 0 := by
  simp only [checkC03, checkSizes, Bool.and_eq_true, beq_iff_eq] at h
  obtain ⟨⟨hr, ⟨⟨⟨⟨⟨h1, h2⟩, h3⟩, h4⟩, _⟩, _⟩⟩, _⟩ := h
  exact ⟨fun x hx e m pdu arg => getter_accesses s g hr x hx e m pdu arg,
    fun x hx e m pdu arg v => setter_accesses s g hr x hx e m pdu arg v,
    fun x hx e m p arg v a ha => setter_frame s g hr x hx e m p arg v a ha, h1, h2, h3, h4⟩

/-! ## C04 -/

/-- Write `w` covers wire bit `i`. -/
def covers (i : Nat) (w : Write) : Bool := decide (w.1 ≤ i ∧ i < w.1 + w.2.1)

/-- The last write of the list that covers bit `i` (later writes win). -/
def lastCover (ws : List Write) (i : Nat) : Option Write := ws.reverse.find? (covers i)

theorem applyWrites_cons (m : Mem) (pdu pv : Nat) (w : Write) (ws : List Write) :
    applyWrites m pdu pv (w :: ws)
      = applyWrites (specSet m pdu w.1 w.2.1 (w.2.2.eval pv % 2 ^ w.2.1)) pdu pv ws := rfl

theorem applyWrites_below (m : Mem) (pdu pv : Nat) (ws : List Write) (a : Nat) (h : a < pdu) :
    applyWrites m pdu pv ws a = m a := by
  induction ws generalizing m with
  | nil => rfl
  | cons w ws ih => rw [applyWrites_cons, ih, specSet_below _ _ _ _ _ _ h]

/-- Wire bits after a sequence of header writes: the last covering write decides. -/
theorem applyWrites_bit (m : Mem) (pdu pv : Nat) (ws : List Write) (i : Nat) :
    wireBit (applyWrites m pdu pv ws) pdu i
      = match lastCover ws i with
        | some w => (w.2.2.eval pv % 2 ^ w.2.1).testBit (w.1 + w.2.1 - 1 - i)
        | none => wireBit m pdu i := by
  induction ws generalizing m with
  | nil => rfl
  | cons w ws ih =>
    rw [applyWrites_cons, ih]
    have hl : lastCover (w :: ws) i = (lastCover ws i).or (if covers i w then some w else none) := by
      unfold lastCover
      rw [List.reverse_cons, List.find?_append]
      congr 1
      simp only [List.find?_cons, List.find?_nil]
      split <;> simp_all
    rw [hl]
    cases hc : lastCover ws i with
    | some w' => simp
    | none =>
      simp only [Option.none_or]
      rw [specSet_bits]
      by_cases hcv : covers i w = true
      · have : w.1 ≤ i ∧ i < w.1 + w.2.1 := by simpa [covers] using hcv
        rw [if_pos this, if_pos hcv]
      · have : ¬ (w.1 ≤ i ∧ i < w.1 + w.2.1) := by simpa [covers] using hcv
        rw [if_neg this, if_neg hcv]

def writesWithin (ws : List Write) (len : Nat) : Bool := ws.all (fun w => decide (w.1 + w.2.1 ≤ 8 * len))

/-- A header bit as a function of the initialiser's parameter. -/
inductive SBit where
  | lit (b : Bool)
  | paramBit (j : Nat)
  deriving DecidableEq, Repr

def SBit.eval (pv : Nat) : SBit → Bool
  | .lit b => b
  | .paramBit j => pv.testBit j

/-- The bit a write puts at wire position `i`, symbolically. -/
def writeBit (w : Write) (i : Nat) : SBit :=
  let j := w.1 + w.2.1 - 1 - i
  match w.2.2 with
  | .const v => .lit ((v % 2 ^ w.2.1).testBit j)
  | .param b => if j < b ∧ j < w.2.1 then .paramBit j else .lit false

/-- Bit `i` of a zeroed header after the writes. -/
def headerBit (ws : List Write) (i : Nat) : SBit :=
  match lastCover ws i with
  | some w => writeBit w i
  | none => .lit false

theorem writeBit_eval (w : Write) (i pv : Nat) :
    (writeBit w i).eval pv = (w.2.2.eval pv % 2 ^ w.2.1).testBit (w.1 + w.2.1 - 1 - i) := by
  unfold writeBit
  cases hv : w.2.2 with
  | const v => simp [SBit.eval, WVal.eval]
  | param b =>
    simp only [WVal.eval, Nat.testBit_mod_two_pow]
    by_cases h : w.1 + w.2.1 - 1 - i < b ∧ w.1 + w.2.1 - 1 - i < w.2.1
    · rw [if_pos h]; simp [SBit.eval, h.1, h.2]
    · rw [if_neg h]
      simp only [SBit.eval]
      by_cases h1 : w.1 + w.2.1 - 1 - i < w.2.1
      · have h2 : ¬ w.1 + w.2.1 - 1 - i < b := fun hc => h ⟨hc, h1⟩
        simp [h1, h2]
      · simp [h1]

/-- Same header, bit for bit (as functions of the parameter). -/
def sameEffect (ws₁ ws₂ : List Write) (len : Nat) : Bool :=
  (List.range (8 * len)).all (fun i => headerBit ws₁ i == headerBit ws₂ i)

theorem lastCover_none_of_within (ws : List Write) (len i : Nat) (h : writesWithin ws len = true)
    (hi : 8 * len ≤ i) : lastCover ws i = none := by
  unfold lastCover
  rw [List.find?_eq_none]
  intro w hw
  have hw' : w ∈ ws := List.mem_reverse.mp hw
  simp only [writesWithin, List.all_eq_true, decide_eq_true_eq] at h
  have := h w hw'
  simp only [covers, decide_eq_true_eq]
  omega

theorem wireBit_zeroFill (m : Mem) (pdu len i : Nat) :
    wireBit (zeroFill m pdu len) pdu i = if i < 8 * len then false else wireBit m pdu i := by
  unfold wireBit zeroFill
  by_cases h : i < 8 * len
  · have : pdu ≤ pdu + i / 8 ∧ pdu + i / 8 < pdu + len := by omega
    rw [if_pos this, if_pos h]; simp
  · have : ¬ (pdu ≤ pdu + i / 8 ∧ pdu + i / 8 < pdu + len) := by omega
    rw [if_neg this, if_neg h]

/-- Two write lists that yield the same header bits on a zeroed header have the same
    effect (so the order of the writes, and writes of zero, are irrelevant). -/
theorem applyWrites_eq_of_sameEffect (ws₁ ws₂ : List Write) (len : Nat)
    (h1 : writesWithin ws₁ len = true) (h2 : writesWithin ws₂ len = true)
    (h : sameEffect ws₁ ws₂ len = true) (m : Mem) (pdu pv : Nat) :
    applyWrites (zeroFill m pdu len) pdu pv ws₁ = applyWrites (zeroFill m pdu len) pdu pv ws₂ := by
  apply mem_ext_wire _ _ pdu
  · intro a ha; rw [applyWrites_below _ _ _ _ _ ha, applyWrites_below _ _ _ _ _ ha]
  · intro i
    rw [applyWrites_bit, applyWrites_bit]
    by_cases hi : i < 8 * len
    · simp only [sameEffect, List.all_eq_true, List.mem_range, beq_iff_eq] at h
      have hb := congrArg (SBit.eval pv) (h i hi)
      unfold headerBit at hb
      rw [wireBit_zeroFill, if_pos hi]
      cases hc1 : lastCover ws₁ i with
      | none =>
        cases hc2 : lastCover ws₂ i with
        | none => rfl
        | some w2 =>
          rw [hc1, hc2] at hb
          simp only [] at hb ⊢
          rw [writeBit_eval] at hb
          exact hb
      | some w1 =>
        cases hc2 : lastCover ws₂ i with
        | none =>
          rw [hc1, hc2] at hb
          simp only [] at hb ⊢
          rw [writeBit_eval] at hb
          exact hb
        | some w2 =>
          rw [hc1, hc2] at hb
          simp only [] at hb ⊢
          rw [writeBit_eval, writeBit_eval] at hb
          exact hb
    · rw [lastCover_none_of_within ws₁ len i h1 (by omega), lastCover_none_of_within ws₂ len i h2 (by omega)]

theorem applyWrites_frame (ws : List Write) (len : Nat) (h : writesWithin ws len = true)
    (m : Mem) (pdu pv a : Nat) (ha : a < pdu ∨ pdu + len ≤ a) : applyWrites m pdu pv ws a = m a := by
  induction ws generalizing m with
  | nil => rfl
  | cons w ws ih =>
    simp only [writesWithin, List.all_cons, Bool.and_eq_true, decide_eq_true_eq] at h
    rw [applyWrites_cons, ih (by simpa [writesWithin] using h.2)]
    apply specSet_frame
    omega

/-- Spec self-consistency: the canonical writes of every format lie inside its header. -/
theorem spec_writes_within :
    Spec.all.all (fun s => writesWithin (s.initWrites true) s.headerLen
      && writesWithin (s.initWrites false) s.headerLen) = true := by decide

/-- The canonical header leaves everything outside the header untouched … -/
theorem canonical_frame (s : FormatSpec) (withArg : Bool) (h : writesWithin (s.initWrites withArg) s.headerLen = true)
    (pv : Nat) (m : Mem) (pdu a : Nat) (ha : a < pdu ∨ pdu + s.headerLen ≤ a) :
    s.canonical withArg pv m pdu a = m a := by
  unfold FormatSpec.canonical
  rw [applyWrites_frame _ _ h _ _ _ _ ha]
  unfold zeroFill
  rw [if_neg (by omega)]

/-- … does not depend on what the header held before … -/
theorem canonical_indep (s : FormatSpec) (withArg : Bool) (pv : Nat) (m₁ m₂ : Mem) (pdu : Nat)
    (h : ∀ a, (a < pdu ∨ pdu + s.headerLen ≤ a) → m₁ a = m₂ a) :
    s.canonical withArg pv m₁ pdu = s.canonical withArg pv m₂ pdu := by
  unfold FormatSpec.canonical
  congr 1
  funext a
  unfold zeroFill
  by_cases ha : pdu ≤ a ∧ a < pdu + s.headerLen
  · rw [if_pos ha, if_pos ha]
  · rw [if_neg ha, if_neg ha]; exact h a (by omega)

/-- … and initialising twice equals initialising once. -/
theorem canonical_idem (s : FormatSpec) (withArg : Bool) (h : writesWithin (s.initWrites withArg) s.headerLen = true)
    (pv : Nat) (m : Mem) (pdu : Nat) :
    s.canonical withArg pv (s.canonical withArg pv m pdu) pdu = s.canonical withArg pv m pdu :=
  canonical_indep s withArg pv _ _ pdu (fun a ha => canonical_frame s withArg h pv m pdu a ha)

/-- Resolve one initialiser step to the header write it performs, *by name through the
    Spec*: the generic writer with a Spec field's enumerator, or the dedicated setter whose
    name denotes a Spec field. -/
def stepWrite (s : FormatSpec) (g : GenFormat) : InitStep → Option Write
  | .setField fn field fieldVal value =>
    match g.findSetter fn, s.fields.find? (fun fs => fs.enumName == field) with
    | some x, some fs =>
      if x.field.isNone ∧ g.enumValue fs.enumName = some fieldVal ∧ value < 2 ^ 64
      then some (fs.first, fs.width, .const value) else none
    | _, _ => none
  | .setConst fn value =>
    match g.findSetter fn, s.fields.find? (fun fs => fs.acc != "" && s.setterName fs == fn) with
    | some x, some fs =>
      if x.field.isSome ∧ value < 2 ^ x.valueBits then some (fs.first, fs.width, .const value) else none
    | _, _ => none
  | .setParam fn bits =>
    match g.findSetter fn, s.fields.find? (fun fs => fs.acc != "" && s.setterName fs == fn) with
    | some x, some fs =>
      if x.field.isSome ∧ bits ≤ x.valueBits ∧ bits = fs.width then some (fs.first, fs.width, .param bits) else none
    | _, _ => none
  | .checkedSet fn field fieldVal value =>
    match g.legacy.find? (fun l => l.fn == fn && !l.isGet), s.fields.find? (fun fs => fs.enumName == field) with
    | some l, some fs =>
      match g.findSetter l.fwd, l.bound with
      | some x, some b =>
        if x.field.isNone ∧ fieldVal < b ∧ g.enumValue fs.enumName = some fieldVal ∧ value < 2 ^ l.valBits
            ∧ l.valBits ≤ 64
        then some (fs.first, fs.width, .const value) else none
      | _, _ => none
    | _, _ => none
  | _ => none

/-- The header writes of an initialiser (after its leading `memset` of the whole header). -/
def initWritesGen (s : FormatSpec) (g : GenFormat) (i : Init) : Option (List Write) :=
  match g.flatten i.steps with
  | some (.memset0 _ len :: rest) => if len = s.headerLen then rest.mapM (stepWrite s g) else none
  | _ => none

/-- An initialiser is one the Spec knows (current or legacy) and has the canonical effect. -/
def checkInit (s : FormatSpec) (g : GenFormat) (i : Init) : Bool :=
  let withArg := i.legacy && (match s.legacy with | some l => l.initArg != "" | none => false)
  (if i.legacy then (match s.legacy with | some l => l.initFn == i.fn | none => false) else s.initFn == i.fn)
  && match initWritesGen s g i with
     | some ws => writesWithin ws s.headerLen && writesWithin (s.initWrites withArg) s.headerLen
         && sameEffect ws (s.initWrites withArg) s.headerLen
     | none => false

def checkC04 (s : FormatSpec) (g : GenFormat) : Bool :=
  g.inits.all (checkInit s g)
    && (s.initFn == "" || g.inits.any (fun i => i.fn == s.initFn && !i.legacy))
    && (match s.legacy with
        | some l => l.initFn == "" || g.inits.any (fun i => i.fn == l.initFn && i.legacy)
        | none => true)

theorem findSetter_mem (g : GenFormat) (fn : String) (x : Setter) (h : g.findSetter fn = some x) :
    x ∈ g.setters ∧ x.fn = fn := by
  unfold GenFormat.findSetter at h
  refine ⟨List.mem_of_find?_eq_some h, ?_⟩
  have := List.find?_some h
  simpa using this

theorem find_field_mem (s : FormatSpec) (p : FieldSpec → Bool) (fs : FieldSpec)
    (h : s.fields.find? p = some fs) : fs ∈ s.fields ∧ p fs = true :=
  ⟨List.mem_of_find?_eq_some h, List.find?_some h⟩

theorem genericSet_run (s : FormatSpec) (g : GenFormat) (h2 : checkC02 s g = true) (x : Setter)
    (hx : x ∈ g.setters) (hnone : x.field.isNone = true) (fs : FieldSpec) (hfs : fs ∈ s.fields)
    (i : Nat) (hi : g.enumValue fs.enumName = some i) (e : Endian) (m : Mem) (pdu v : Nat) (hv : v < 2 ^ 64) :
    x.run g.table e m (some pdu) i v = specSet m pdu fs.first fs.width (v % 2 ^ fs.width) := by
  obtain ⟨hgen, _⟩ := C02_format s g h2
  obtain ⟨j, hj, hall⟩ := hgen fs hfs
  rw [hi] at hj
  cases hj
  have hxg : x ∈ g.genericSetters := by
    unfold GenFormat.genericSetters
    exact List.mem_filter.mpr ⟨hx, hnone⟩
  exact hall x hxg e m pdu v hv

theorem spec_setter_names_unique :
    Spec.all.all (fun s => s.fields.all (fun a => s.fields.all (fun b =>
      a.acc == "" || b.acc == "" || s.setterName a != s.setterName b || a == b))) = true := by decide

/-- Each resolved step performs exactly its header write (needs the C02 check: the setters
    it calls write the Spec's bit ranges). -/
theorem stepWrite_sound (s : FormatSpec) (g : GenFormat) (h2 : checkC02 s g = true)
    (hu : s.fields.all (fun a => s.fields.all (fun b =>
      a.acc == "" || b.acc == "" || s.setterName a != s.setterName b || a == b)) = true)
    (st : InitStep) (w : Write) (hw : stepWrite s g st = some w) (e : Endian) (pdu pv : Nat) (m : Mem) :
    st.run g e pdu pv m = some (specSet m pdu w.1 w.2.1 (w.2.2.eval pv % 2 ^ w.2.1)) := by
  obtain ⟨hgen, hded⟩ := C02_format s g h2
  -- a dedicated setter named like Spec field `fs` writes `fs`
  have ded : ∀ (fn : String) (x : Setter) (fs : FieldSpec), g.findSetter fn = some x →
      s.fields.find? (fun fs => fs.acc != "" && s.setterName fs == fn) = some fs →
      x.field.isSome = true → ∀ v, v < 2 ^ x.valueBits →
      x.run g.table e m (some pdu) 0 v = specSet m pdu fs.first fs.width (v % 2 ^ fs.width) := by
    intro fn x fs hfx hff hsome v hv
    obtain ⟨hxm, hxn⟩ := findSetter_mem g fn x hfx
    obtain ⟨hfm, hfp⟩ := find_field_mem s _ fs hff
    simp only [Bool.and_eq_true, bne_iff_ne, ne_eq, beq_iff_eq] at hfp
    obtain ⟨fs', hfs', hacc', hname', _, hrun⟩ := hded x hxm hsome
    -- the field found by name is the one the soundness theorem speaks about
    have heq : fs' = fs := by
      simp only [List.all_eq_true] at hu
      have := hu fs' hfs' fs hfm
      simp only [Bool.or_eq_true, beq_iff_eq, bne_iff_ne, ne_eq] at this
      rcases this with ((h' | h') | h') | h'
      · exact absurd h' hacc'
      · exact absurd h' hfp.1
      · exact absurd (by rw [hname', hfp.2, hxn]) h'
      · exact h'
    subst heq
    exact hrun e m pdu 0 v hv
  cases st with
  | memset0 ty len => simp [stepWrite] at hw
  | callInit fn => simp [stepWrite] at hw
  | setField fn field fieldVal value =>
    simp only [stepWrite] at hw
    split at hw
    · rename_i x fs hfx hff
      split at hw
      · rename_i hc
        obtain ⟨hnone, hen, hv⟩ := hc
        cases hw
        obtain ⟨hxm, _⟩ := findSetter_mem g fn x hfx
        obtain ⟨hfm, _⟩ := find_field_mem s _ fs hff
        simp only [InitStep.run, hfx, hnone, if_true, WVal.eval]
        rw [genericSet_run s g h2 x hxm hnone fs hfm fieldVal hen e m pdu value hv]
      · cases hw
    · cases hw
  | setConst fn value =>
    simp only [stepWrite] at hw
    split at hw
    · rename_i x fs hfx hff
      split at hw
      · rename_i hc
        obtain ⟨hsome, hv⟩ := hc
        cases hw
        simp only [InitStep.run, hfx, hsome, if_true, WVal.eval]
        rw [ded fn x fs hfx hff hsome value hv]
      · cases hw
    · cases hw
  | setParam fn bits =>
    simp only [stepWrite] at hw
    split at hw
    · rename_i x fs hfx hff
      split at hw
      · rename_i hc
        obtain ⟨hsome, hb, hbw⟩ := hc
        cases hw
        simp only [InitStep.run, hfx, hsome, if_true, WVal.eval]
        have hlt : pv % 2 ^ bits < 2 ^ x.valueBits :=
          Nat.lt_of_lt_of_le (Nat.mod_lt _ (Nat.two_pow_pos bits)) (Nat.pow_le_pow_right (by decide) hb)
        rw [ded fn x fs hfx hff hsome _ hlt]
      · cases hw
    · cases hw
  | checkedSet fn field fieldVal value =>
    simp only [stepWrite] at hw
    split at hw
    · rename_i l fs hfl hff
      split at hw
      · rename_i x b hfx hb
        split at hw
        · rename_i hc
          obtain ⟨hnone, hlt, hen, hv, h64⟩ := hc
          cases hw
          obtain ⟨hxm, _⟩ := findSetter_mem g l.fwd x hfx
          obtain ⟨hfm, _⟩ := find_field_mem s _ fs hff
          simp only [InitStep.run, hfl, hfx, hb, hnone, hlt, and_self, if_true, WVal.eval]
          rw [Nat.mod_eq_of_lt hv]
          have hv64 : value < 2 ^ 64 := Nat.lt_of_lt_of_le hv (Nat.pow_le_pow_right (by decide) h64)
          rw [genericSet_run s g h2 x hxm hnone fs hfm fieldVal hen e m pdu value hv64]
        · cases hw
      · cases hw
    · cases hw

theorem runSteps_writes (s : FormatSpec) (g : GenFormat) (h2 : checkC02 s g = true)
    (hu : s.fields.all (fun a => s.fields.all (fun b =>
      a.acc == "" || b.acc == "" || s.setterName a != s.setterName b || a == b)) = true)
    (e : Endian) (pdu pv : Nat) :
    ∀ (steps : List InitStep) (ws : List Write) (m : Mem), steps.mapM (stepWrite s g) = some ws →
      runSteps g e pdu pv steps m = some (applyWrites m pdu pv ws) := by
  intro steps
  induction steps with
  | nil => intro ws m h; simp at h; subst h; rfl
  | cons st rest ih =>
    intro ws m h
    rw [List.mapM_cons] at h
    simp only [Option.bind_eq_bind, Option.bind_eq_some_iff] at h
    obtain ⟨w, hw, ws', hws', hcons⟩ := h
    simp only [Option.pure_def, Option.some.injEq] at hcons
    subst hcons
    simp only [runSteps, stepWrite_sound s g h2 hu st w hw e pdu pv m, Option.bind_some]
    rw [ih ws' _ hws', applyWrites_cons]

/-- **C04.** Every initialiser of the format (current API and legacy), run on any memory
    at any address, leaves exactly the canonical header — independently of what the buffer
    held before — and returns its success code. -/
theorem C04_format (s : FormatSpec) (g : GenFormat) (h2 : checkC02 s g = true)
    (hu : s.fields.all (fun a => s.fields.all (fun b =>
      a.acc == "" || b.acc == "" || s.setterName a != s.setterName b || a == b)) = true)
    (h4 : checkC04 s g = true) :
    ∀ i ∈ g.inits, ∃ withArg, ∀ (e : Endian) (m : Mem) (p pv : Nat),
      i.run g e m (some p) pv
        = some (s.canonical withArg pv m p, if i.legacy then i.ok else 0)
      ∧ writesWithin (s.initWrites withArg) s.headerLen = true := by
  intro i hi
  simp only [checkC04, Bool.and_eq_true, List.all_eq_true] at h4
  have hc := h4.1.1 i hi
  unfold checkInit at hc
  simp only [Bool.and_eq_true] at hc
  obtain ⟨_, hw⟩ := hc
  refine ⟨i.legacy && (match s.legacy with | some l => l.initArg != "" | none => false), ?_⟩
  intro e m p pv
  split at hw
  · rename_i ws hws
    simp only [Bool.and_eq_true] at hw
    obtain ⟨⟨hw1, hw2⟩, hse⟩ := hw
    refine ⟨?_, hw2⟩
    unfold initWritesGen at hws
    split at hws
    · rename_i ty len rest hflat
      split at hws
      · rename_i hlen
        unfold Init.run
        simp only [hflat, runSteps, InitStep.run, Option.bind_some]
        rw [runSteps_writes s g h2 hu e p pv rest ws _ hws]
        simp only [Option.map_some, hlen]
        rw [applyWrites_eq_of_sameEffect ws _ s.headerLen hw1 hw2 hse]
        rfl
      · cases hws
    · cases hws
  · cases hw

def atomsC04 (s : FormatSpec) (g : GenFormat) : List (String × Bool) :=
  g.inits.map (fun i => ("init-is-canonical:" ++ i.fn, checkInit s g i))
  ++ [("spec-initialisers-present", checkC04 s g || !(g.inits.all (checkInit s g)))]

def atomsC03 (s : FormatSpec) (g : GenFormat) : List (String × Bool) :=
  let probe := g.facts
  (g.table.zipIdx.map (fun (d, i) => ("row-valid-and-within-header:" ++ toString i,
      decide d.Valid && rowWithin d s.headerLen)))
  ++ [("macro:" ++ s.lenMacro, factIs probe ("macro:" ++ s.lenMacro) s.headerLen),
      ("sizeof:" ++ s.headerType, factIs probe ("sizeof:" ++ s.headerType) s.headerLen),
      ("offsetof_payload:" ++ s.headerType, factIs probe ("offsetof_payload:" ++ s.headerType) s.headerLen),
      ("accessor-table-args", g.getters.all (fun x => tableArgsOK g x.table x.numFields)
          && g.setters.all (fun x => tableArgsOK g x.table x.numFields)),
      ("memset-extent-and-payload-accessor", checkSizes s g),
      ("no-opaque-functions", g.opaqueFns.isEmpty)]

end O1722
