/-
  Props/Headers.lean — property theorem C20: if the public headers are pairwise compatible
  then ANY duplicate-free selection of them, in ANY order, is accepted and every name keeps
  the meaning it has in its own header.
-/
import O1722.Model.Headers

namespace O1722

theorem lookupNat_append (l₁ l₂ : List (Nat × Nat)) (n : Nat) :
    lookupNat (l₁ ++ l₂) n = (lookupNat l₁ n).or (lookupNat l₂ n) := by
  induction l₁ with
  | nil => simp [lookupNat]
  | cons p rest ih =>
    obtain ⟨k, v⟩ := p
    simp only [List.cons_append, lookupNat]
    split
    · simp
    · exact ih

theorem lookupNat_mem (l : List (Nat × Nat)) (n m : Nat) (h : lookupNat l n = some m) : (n, m) ∈ l := by
  induction l with
  | nil => simp [lookupNat] at h
  | cons p rest ih =>
    obtain ⟨k, v⟩ := p
    simp only [lookupNat] at h
    split at h
    · rename_i hk
      simp only [Option.some.injEq] at h
      have : k = n := by simpa using hk
      subst this; subst h; simp
    · exact List.mem_cons_of_mem _ (ih h)

theorem lookupNat_isSome_of_mem (l : List (Nat × Nat)) (n m : Nat) (h : (n, m) ∈ l) :
    ∃ m', lookupNat l n = some m' := by
  induction l with
  | nil => cases h
  | cons p rest ih =>
    obtain ⟨k, v⟩ := p
    simp only [lookupNat]
    split
    · exact ⟨v, rfl⟩
    · rename_i hk
      rcases List.mem_cons.mp h with h' | h'
      · simp only [Prod.mk.injEq] at h'
        exact absurd (by simp [h'.1]) hk
      · exact ih h'

/-- pairwise compatibility of a set of headers -/
def pairwiseCompat (hs : List Hdr) : Bool :=
  hs.all (fun a => hs.all (fun b => a.id == b.id || compat a b))

theorem snoc_induction {α : Type} {P : List α → Prop} (hnil : P [])
    (hsnoc : ∀ l a, P l → P (l ++ [a])) : ∀ l, P l := by
  intro l
  rw [← List.reverse_reverse l]
  induction l.reverse with
  | nil => exact hnil
  | cons a t ih => rw [List.reverse_cons]; exact hsnoc _ _ ih

theorem includeAll_snoc (hs : List Hdr) (h : Hdr) (acc : List Hdr) (hacc : includeAll hs = some acc) :
    includeAll (hs ++ [h]) = addHdr acc h := by
  unfold includeAll at *
  rw [List.foldlM_append, hacc]
  simp [List.foldlM]

/-- **C20 (acceptance).** Any selection of distinct headers taken from a pairwise compatible
    set is accepted, in whatever order it is written. -/
theorem includeAll_ok (all : List Hdr) (hc : pairwiseCompat all = true) :
    ∀ hs : List Hdr, (∀ h ∈ hs, h ∈ all) → (hs.map (·.id)).Nodup → includeAll hs = some hs := by
  intro hs
  induction hs using snoc_induction with
  | hnil => intro _ _; rfl
  | hsnoc pre h ih =>
    intro hmem hnd
    have hpre : includeAll pre = some pre := by
      apply ih
      · intro x hx; exact hmem x (List.mem_append_left _ hx)
      · rw [List.map_append] at hnd; exact (List.nodup_append.mp hnd).1
    rw [includeAll_snoc pre h pre hpre]
    unfold addHdr
    have hall : pre.all (fun a => compat a h) = true := by
      rw [List.all_eq_true]
      intro a ha
      simp only [pairwiseCompat, List.all_eq_true, Bool.or_eq_true, beq_iff_eq] at hc
      rcases hc a (hmem a (List.mem_append_left _ ha)) h (hmem h (by simp)) with hid | hcp
      · exfalso
        rw [List.map_append] at hnd
        have := (List.nodup_append.mp hnd).2.2 a.id (List.mem_map_of_mem ha) h.id (by simp)
        exact this hid
      · exact hcp
    rw [hall]; rfl

theorem keysSorted_tail (p : Nat × Nat) (l : List (Nat × Nat)) (h : keysSorted (p :: l) = true) :
    keysSorted l = true ∧ ∀ q ∈ l, p.1 < q.1 := by
  induction l generalizing p with
  | nil => exact ⟨rfl, fun _ hq => by cases hq⟩
  | cons q rest ih =>
    simp only [keysSorted, Bool.and_eq_true, decide_eq_true_eq] at h
    obtain ⟨hlt, hs⟩ := h
    refine ⟨hs, ?_⟩
    intro r hr
    rcases List.mem_cons.mp hr with h1 | h1
    · rw [h1]; exact hlt
    · exact Nat.lt_trans hlt ((ih q hs).2 r h1)

/-- Soundness of the merge: if it reports no clash on two key-sorted tables, a name present
    in both has the same meaning in both. -/
theorem mergeClash_sound : ∀ (fuel : Nat) (a b : List (Nat × Nat)),
    keysSorted a = true → keysSorted b = true → mergeClash fuel a b = false →
    ∀ n m m', (n, m) ∈ a → (n, m') ∈ b → m = m' := by
  intro fuel
  induction fuel with
  | zero => intro a b _ _ h; simp [mergeClash] at h
  | succ f ih =>
    intro a b ha hb h n m m' hma hmb
    match a, b with
    | [], _ => cases hma
    | _ :: _, [] => cases hmb
    | (k1, v1) :: r1, (k2, v2) :: r2 =>
      obtain ⟨hsa, hla⟩ := keysSorted_tail (k1, v1) r1 ha
      obtain ⟨hsb, hlb⟩ := keysSorted_tail (k2, v2) r2 hb
      simp only [mergeClash] at h
      by_cases h12 : k1 < k2
      · rw [if_pos h12] at h
        rcases List.mem_cons.mp hma with e | e
        · -- n = k1 < k2 ≤ every key of b
          simp only [Prod.mk.injEq] at e
          rcases List.mem_cons.mp hmb with e' | e'
          · simp only [Prod.mk.injEq] at e'; omega
          · have := hlb _ e'; simp only at this; omega
        · exact ih r1 ((k2, v2) :: r2) hsa hb h n m m' e hmb
      · rw [if_neg h12] at h
        by_cases h21 : k2 < k1
        · rw [if_pos h21] at h
          rcases List.mem_cons.mp hmb with e | e
          · simp only [Prod.mk.injEq] at e
            rcases List.mem_cons.mp hma with e' | e'
            · simp only [Prod.mk.injEq] at e'; omega
            · have := hla _ e'; simp only at this; omega
          · exact ih ((k1, v1) :: r1) r2 ha hsb h n m m' hma e
        · rw [if_neg h21] at h
          have hk : k1 = k2 := by omega
          simp only [Bool.or_eq_false_iff, bne_eq_false_iff_eq] at h
          obtain ⟨hv, hrec⟩ := h
          rcases List.mem_cons.mp hma with e | e <;> rcases List.mem_cons.mp hmb with e' | e'
          · simp only [Prod.mk.injEq] at e e'; rw [e.2, e'.2]; exact hv
          · simp only [Prod.mk.injEq] at e; have := hlb _ e'; simp only at this; omega
          · simp only [Prod.mk.injEq] at e'; have := hla _ e; simp only at this; omega
          · exact ih r1 r2 hsa hsb hrec n m m' e e'

theorem natsSorted_tail (x : Nat) (l : List Nat) (h : natsSorted (x :: l) = true) :
    natsSorted l = true ∧ ∀ y ∈ l, x < y := by
  induction l generalizing x with
  | nil => exact ⟨rfl, fun _ hq => by cases hq⟩
  | cons y rest ih =>
    simp only [natsSorted, Bool.and_eq_true, decide_eq_true_eq] at h
    obtain ⟨hlt, hs⟩ := h
    refine ⟨hs, ?_⟩
    intro r hr
    rcases List.mem_cons.mp hr with h1 | h1
    · rw [h1]; exact hlt
    · exact Nat.lt_trans hlt ((ih y hs).2 r h1)

/-- Soundness of the intersection test: if it reports no meeting, no macro of the one is a
    token the other uses. -/
theorem meets_sound : ∀ (fuel : Nat) (xs ys : List Nat),
    natsSorted xs = true → natsSorted ys = true → meets fuel xs ys = false →
    ∀ n, n ∈ xs → n ∈ ys → False := by
  intro fuel
  induction fuel with
  | zero => intro _ _ _ _ h; simp [meets] at h
  | succ f ih =>
    intro xs ys hx hy h n hnx hny
    match xs, ys with
    | [], _ => cases hnx
    | _ :: _, [] => cases hny
    | x :: xr, y :: yr =>
      obtain ⟨hsx, hlx⟩ := natsSorted_tail x xr hx
      obtain ⟨hsy, hly⟩ := natsSorted_tail y yr hy
      simp only [meets] at h
      by_cases hxy : x < y
      · rw [if_pos hxy] at h
        rcases List.mem_cons.mp hnx with e | e
        · rcases List.mem_cons.mp hny with e' | e'
          · omega
          · have := hly _ e'; omega
        · exact ih xr (y :: yr) hsx hy h n e hny
      · rw [if_neg hxy] at h
        by_cases hyx : y < x
        · rw [if_pos hyx] at h
          rcases List.mem_cons.mp hny with e | e
          · rcases List.mem_cons.mp hnx with e' | e'
            · omega
            · have := hlx _ e'; omega
          · exact ih (x :: xr) yr hx hsy h n hnx e
        · rw [if_neg hyx] at h; cases h

/-- every table is sorted (the form the merges rely on) -/
def sortedAll (all : List Hdr) : Bool :=
  all.all (fun a => keysSorted a.intro && natsSorted a.macros && natsSorted a.uses)

/-- What compatibility means, spelled out: no name with two meanings; no macro of one header
    among the tokens the other uses (unless the other includes it on purpose). -/
theorem compat_meaning (a b : Hdr) (hsa : keysSorted a.intro = true ∧ natsSorted a.macros = true ∧ natsSorted a.uses = true)
    (hsb : keysSorted b.intro = true ∧ natsSorted b.macros = true ∧ natsSorted b.uses = true)
    (h : compat a b = true) :
    (∀ n m m', (n, m) ∈ a.intro → (n, m') ∈ b.intro → m = m') ∧
    (¬ b.deps.contains a.id = true → ∀ n, n ∈ a.macros → n ∈ b.uses → False) ∧
    (¬ a.deps.contains b.id = true → ∀ n, n ∈ b.macros → n ∈ a.uses → False) := by
  simp only [compat, Bool.and_eq_true, Bool.not_eq_true'] at h
  obtain ⟨⟨hc, hr1⟩, hr2⟩ := h
  refine ⟨mergeClash_sound _ _ _ hsa.1 hsb.1 hc, ?_, ?_⟩
  · intro hd
    simp only [rewrites, Bool.and_eq_false_iff, Bool.not_eq_false'] at hr1
    rcases hr1 with h' | h'
    · exact absurd h' hd
    · exact meets_sound _ _ _ hsa.2.1 hsb.2.2 h'
  · intro hd
    simp only [rewrites, Bool.and_eq_false_iff, Bool.not_eq_false'] at hr2
    rcases hr2 with h' | h'
    · exact absurd h' hd
    · exact meets_sound _ _ _ hsb.2.1 hsa.2.2 h'

/-- **C20 (meaning).** In such a selection every name means what it means in the header that
    introduces it: whichever definition the lookup meets first, it is the same meaning. -/
theorem meaning_preserved (all : List Hdr) (hc : pairwiseCompat all = true) (hso : sortedAll all = true)
    (hs : List Hdr) (hmem : ∀ h ∈ hs, h ∈ all) (hids : ∀ a ∈ all, ∀ b ∈ all, a.id = b.id → a = b)
    (h : Hdr) (hh : h ∈ hs) (n m : Nat) (hn : (n, m) ∈ h.intro) :
    meaningIn hs n = some m := by
  unfold meaningIn
  obtain ⟨m', hm'⟩ := lookupNat_isSome_of_mem (hs.flatMap (·.intro)) n m
    (List.mem_flatMap.mpr ⟨h, hh, hn⟩)
  rw [hm']
  obtain ⟨h', hh', hin'⟩ := List.mem_flatMap.mp (lookupNat_mem _ _ _ hm')
  simp only [sortedAll, List.all_eq_true, Bool.and_eq_true] at hso
  have s1 := hso h' (hmem h' hh')
  have s2 := hso h (hmem h hh)
  simp only [pairwiseCompat, List.all_eq_true, Bool.or_eq_true, beq_iff_eq] at hc
  rcases hc h' (hmem h' hh') h (hmem h hh) with hid | hcp
  · have : h' = h := hids h' (hmem h' hh') h (hmem h hh) hid
    subst this
    -- one sorted table: a key occurs once
    have := mergeClash_sound (h'.intro.length + h'.intro.length + 1) h'.intro h'.intro s1.1.1 s1.1.1
    have hself : mergeClash (h'.intro.length + h'.intro.length + 1) h'.intro h'.intro = false := by
      -- a table never clashes with itself
      have gen : ∀ (l : List (Nat × Nat)) (f : Nat), l.length + l.length + 1 ≤ f → keysSorted l = true → mergeClash f l l = false := by
        intro l
        induction l with
        | nil => intro f hf _; cases f with
          | zero => simp at hf
          | succ f => rfl
        | cons p rest ih =>
          intro f hf hs'
          obtain ⟨k, v⟩ := p
          cases f with
          | zero => simp at hf
          | succ f =>
            simp only [mergeClash, Nat.lt_irrefl, if_false, bne_self_eq_false, Bool.false_or]
            exact ih f (by simp at hf; omega) (keysSorted_tail (k, v) rest hs').1
      exact gen _ _ (Nat.le_refl _) s1.1.1
    rw [this hself n m' m hin' hn]
  · obtain ⟨hcl, _, _⟩ := compat_meaning h' h ⟨s1.1.1, s1.1.2, s1.2⟩ ⟨s2.1.1, s2.1.2, s2.2⟩ hcp
    rw [hcl n m' m hin' hn]

/-- ids identify headers -/
def idsDistinct (all : List Hdr) : Bool :=
  all.all (fun a => all.all (fun b => a.id != b.id || a.name == b.name))

/-! non-vacuity: two compatible toy headers, both orders -/
def toyA : Hdr := ⟨0, "a.h", [(1, 10), (2, 20)], [1], [3], [], []⟩
def toyB : Hdr := ⟨1, "b.h", [(2, 20), (4, 40)], [], [5], [], []⟩
example : pairwiseCompat [toyA, toyB] = true ∧ includeAll [toyB, toyA] = some [toyB, toyA]
    ∧ meaningIn [toyB, toyA] 2 = some 20 := by decide
/-- and an incompatible pair: `c.h` defines name 2 differently -/
def toyC : Hdr := ⟨2, "c.h", [(2, 21)], [], [], [], []⟩
example : compat toyA toyC = false ∧ includeAll [toyA, toyC] = none := by decide

end O1722
