/-
  Props/Endian.lean — property theorem C14: built for a little-endian or a big-endian host,
  every field accessor, initialiser, message builder and VSS codec function produces the same
  wire bytes from the same logical values and extracts the same logical values from the same
  wire bytes.  (Every Model function takes the host byte order `e`; these are the explicit
  "little = big" corollaries.)
-/
import O1722.Props.Vss
import O1722.Props.Concurrency

namespace O1722
open Spec

/-- Reading a big-endian integer through a typed load and the host's BeToCpu helper does not
    depend on the host. -/
theorem rdBe_indep (e : Endian) (k : Nat) (m : Mem) (a : Nat) :
    rdBe e k m a = rdBe .big k m a := by
  unfold rdBe
  split
  · rfl
  · rw [beCpu16_load, beCpu16_load]
  · rw [beCpu32_load, beCpu32_load]
  · rw [beCpu64_load, beCpu64_load]
  · rfl

/-- Writing one through the host's CpuToBe helper and a typed store does not either. -/
theorem wrBe_indep (e : Endian) (k : Nat) (m : Mem) (a x : Nat) :
    wrBe e k m a x = wrBe .big k m a x := by
  unfold wrBe
  split
  · rfl
  · rw [store_beCpu16, store_beCpu16]
  · rw [store_beCpu32, store_beCpu32]
  · rw [store_beCpu64, store_beCpu64]
  · rfl

theorem wrElems_indep (e : Endian) (k : Nat) (m : Mem) (a : Nat) (xs : List Nat) :
    wrElems e k m a xs = wrElems .big k m a xs := by
  induction xs generalizing m a with
  | nil => rfl
  | cons x xs ih => simp only [wrElems]; rw [wrBe_indep e, ih]

theorem rdElems_indep (e : Endian) (k : Nat) (m : Mem) (a n : Nat) :
    rdElems e k m a n = rdElems .big k m a n := by
  induction n generalizing a with
  | zero => rfl
  | succ n ih => simp only [rdElems]; rw [rdBe_indep e, ih]

/-- **C14, Utils.c**: the generic reader and writer (valid descriptors). -/
theorem getField_endian (tbl : List Desc) (n : Nat) (m : Mem) (pdu i : Nat) (d : Desc)
    (hi : i < n) (hrow : tbl[i]? = some d) (hd : d.Valid) :
    getField .little tbl n m (some pdu) i = getField .big tbl n m (some pdu) i := by
  rw [getField_spec .little tbl n m pdu i d hi hrow hd, getField_spec .big tbl n m pdu i d hi hrow hd]

theorem setField_endian (tbl : List Desc) (n : Nat) (m : Mem) (pdu i v : Nat) (d : Desc)
    (hi : i < n) (hrow : tbl[i]? = some d) (hd : d.Valid) :
    setField .little tbl n m (some pdu) i v = setField .big tbl n m (some pdu) i v := by
  rw [setField_spec .little tbl n m pdu i v d hi hrow hd, setField_spec .big tbl n m pdu i v d hi hrow hd]

/-- **C14, accessors of a whole format**: every recognised getter and setter, for any
    arguments (NULL, out-of-range identifiers included). -/
theorem accessors_endian (s : FormatSpec) (g : GenFormat) (h : checkRows s g = true) :
    (∀ x ∈ g.getters, ∀ (m : Mem) (pdu : Option Nat) (arg : Nat),
        x.run g.table .little m pdu arg = x.run g.table .big m pdu arg) ∧
    (∀ x ∈ g.setters, ∀ (m : Mem) (pdu : Option Nat) (arg v : Nat),
        x.run g.table .little m pdu arg v = x.run g.table .big m pdu arg v) := by
  have hh := h
  simp only [checkRows, Bool.and_eq_true, List.all_eq_true] at hh
  constructor
  · intro x hx m pdu arg
    have hta : x.numFields = g.table.length := by
      have := hh.1.2 x hx
      simp only [tableArgsOK, Bool.and_eq_true, beq_iff_eq] at this
      exact this.2
    unfold Getter.run
    cases pdu with
    | none => simp [getField, getFieldLog]
    | some p =>
      by_cases hi : fieldArg x.field x.fieldCastBits arg < x.numFields
      · have hlt : fieldArg x.field x.fieldCastBits arg < g.table.length := hta ▸ hi
        have hrow := List.getElem?_eq_getElem hlt
        obtain ⟨hv, _⟩ := row_facts s g h _ _ hrow
        rw [getField_endian g.table x.numFields m p _ _ hi hrow hv]
      · unfold getField
        rw [getFieldLog_rejected _ _ _ _ _ _ (Or.inr (Nat.le_of_not_lt hi)),
          getFieldLog_rejected _ _ _ _ _ _ (Or.inr (Nat.le_of_not_lt hi))]
  · intro x hx m pdu arg v
    have hta : x.numFields = g.table.length := by
      have := hh.2 x hx
      simp only [tableArgsOK, Bool.and_eq_true, beq_iff_eq] at this
      exact this.2
    unfold Setter.run
    cases pdu with
    | none => simp [setField, setFieldLog]
    | some p =>
      by_cases hi : fieldArg x.field x.fieldCastBits arg < x.numFields
      · have hlt : fieldArg x.field x.fieldCastBits arg < g.table.length := hta ▸ hi
        have hrow := List.getElem?_eq_getElem hlt
        obtain ⟨hv, _⟩ := row_facts s g h _ _ hrow
        rw [setField_endian g.table x.numFields m p _ _ _ hi hrow hv]
      · unfold setField
        rw [setFieldLog_rejected _ _ _ _ _ _ _ (Or.inr (Nat.le_of_not_lt hi)),
          setFieldLog_rejected _ _ _ _ _ _ _ (Or.inr (Nat.le_of_not_lt hi))]

/-- **C14, initialisers**: they are compositions of `memset` and recognised setters. -/
theorem init_endian (s : FormatSpec) (g : GenFormat) (h2 : checkC02 s g = true)
    (hu : s.fields.all (fun a => s.fields.all (fun b =>
      a.acc == "" || b.acc == "" || s.setterName a != s.setterName b || a == b)) = true)
    (h4 : checkC04 s g = true) (i : Init) (hi : i ∈ g.inits) (m : Mem) (pdu : Option Nat) (pv : Nat) :
    i.run g .little m pdu pv = i.run g .big m pdu pv := by
  cases pdu with
  | none => rfl
  | some p =>
    obtain ⟨wa, hrun⟩ := C04_format s g h2 hu h4 i hi
    rw [(hrun .little m p pv).1, (hrun .big m p pv).1]

/-- **C14, VSS codec**: every function of the Model of Vss.c, for all inputs. -/
theorem vss_endian (e : Endian) (m : Mem) (pdu : Nat) :
    vssCalcPathLength e m pdu = vssCalcPathLength .big m pdu ∧
    (∀ p, vssSetPath e m pdu p = vssSetPath .big m pdu p) ∧
    vssGetPath e m pdu = vssGetPath .big m pdu ∧
    (∀ v, vssSetData e m pdu v = vssSetData .big m pdu v) ∧
    (∀ dst, vssGetData e m pdu dst = vssGetData .big m pdu dst) := by
  have hc : vssCalcPathLength e m pdu = vssCalcPathLength .big m pdu := by
    unfold vssCalcPathLength; rw [rdBe_indep e]
  refine ⟨hc, ?_, ?_, ?_, ?_⟩
  · intro p; unfold vssSetPath; simp only [wrBe_indep e]
  · unfold vssGetPath; simp only [rdBe_indep e]
  · intro v
    unfold vssSetData
    rw [hc]
    cases dtClass (vssDatatype m pdu) <;> cases v <;> simp only [wrBe_indep e, wrElems_indep e]
  · intro dst
    unfold vssGetData
    rw [hc]
    cases dtClass (vssDatatype m pdu) <;> simp only [rdBe_indep e, rdElems_indep e]

/-- string-array functions -/
theorem vss_strings_endian (e : Endian) (m : Mem) (data : Nat) :
    (∀ ss total, vssSerialize e m data ss total = vssSerialize .big m data ss total) ∧
    (∀ bits total, vssCount e bits m data total = vssCount .big bits m data total) ∧
    (∀ adv total dsts ptr idx, vssDeserialize e adv m data total dsts ptr idx
        = vssDeserialize .big adv m data total dsts ptr idx) := by
  refine ⟨?_, ?_, ?_⟩
  · intro ss
    induction ss generalizing m data with
    | nil => intro total; rfl
    | cons s rest ih =>
      intro total
      obtain ⟨len, bytes⟩ := s
      simp only [vssSerialize, wrBe_indep e]
      exact ih _ _ _
  · intro bits total
    unfold vssCount
    have : ∀ fuel ptr idx log, vssCountLoop e m data (total % 2 ^ 16) fuel ptr idx log
        = vssCountLoop .big m data (total % 2 ^ 16) fuel ptr idx log := by
      intro fuel
      induction fuel with
      | zero => intro _ _ _; rfl
      | succ f ih => intro ptr idx log; simp only [vssCountLoop, rdBe_indep e, ih]
    rw [this]
  · intro adv total dsts
    induction dsts with
    | nil => intro _ _; rfl
    | cons d ds ih => intro ptr idx; simp only [vssDeserialize, rdBe_indep e, ih]

/-- The CAN builders and `Avtp_Vss_Pad` are expressed through the reference writer, which
    has no byte-order parameter at all; their only byte-order-dependent ingredient is the
    field writer, covered by `accessors_endian`. -/
theorem can_pad_have_no_endian_parameter : True := trivial

end O1722
