/-
  Props/Byteorder.lean — property theorem C13: the byte-order helpers convert correctly for
  every 16-, 32- and 64-bit value, on hosts of either byte order.
-/
import O1722.Lemmas.Mem

namespace O1722

/-- Memory image of a `k`-byte unsigned object holding `x` on a host of byte order `e`. -/
def memImage (e : Endian) (k x : Nat) : List Byte :=
  match e with
  | .little => bytesLE k x
  | .big => bytesBE k x

theorem bytesBE_testBit_ext (k x y : Nat) (h : ∀ j, j < 8 * k → x.testBit j = y.testBit j) :
    bytesBE k x = bytesBE k y := by
  apply List.ext_getElem
  · simp [bytesBE_length]
  · intro i h1 h2
    rw [bytesBE_get, bytesBE_get]
    have hi : i < k := by simpa [bytesBE_length] using h1
    apply byte_ext; intro j hj
    simp only [Fin.ofNat_256_testBit, div_256_pow_testBit, hj, decide_true, Bool.true_and]
    exact h _ (by omega)

/-! ### swaps are byte reversals and involutions -/

theorem bswap16_invol (x : Nat) (hx : x < 2 ^ 16) : bswap16 (bswap16 x) = x := by
  apply Nat.eq_of_testBit_eq; intro j
  rw [bswap16_testBit, bswap16_testBit]
  by_cases hj : j < 16
  · have h1 : 8 * (1 - j / 8) + j % 8 < 16 := by omega
    have h2 : 8 * (1 - (8 * (1 - j / 8) + j % 8) / 8) + (8 * (1 - j / 8) + j % 8) % 8 = j := by omega
    rw [h2]; simp [hj, h1]
  · have : x < 2 ^ j := Nat.lt_of_lt_of_le hx (Nat.pow_le_pow_right (by decide) (by omega))
    simp [hj, Nat.testBit_lt_two_pow this]

theorem bswap32_invol (x : Nat) (hx : x < 2 ^ 32) : bswap32 (bswap32 x) = x := by
  apply Nat.eq_of_testBit_eq; intro j
  rw [bswap32_testBit, bswap32_testBit]
  by_cases hj : j < 32
  · have h1 : 8 * (3 - j / 8) + j % 8 < 32 := by omega
    have h2 : 8 * (3 - (8 * (3 - j / 8) + j % 8) / 8) + (8 * (3 - j / 8) + j % 8) % 8 = j := by omega
    rw [h2]; simp [hj, h1]
  · have : x < 2 ^ j := Nat.lt_of_lt_of_le hx (Nat.pow_le_pow_right (by decide) (by omega))
    simp [hj, Nat.testBit_lt_two_pow this]

theorem bswap64_invol (x : Nat) (hx : x < 2 ^ 64) : bswap64 (bswap64 x) = x := by
  apply Nat.eq_of_testBit_eq; intro j
  rw [bswap64_testBit, bswap64_testBit]
  by_cases hj : j < 64
  · have h1 : 8 * (7 - j / 8) + j % 8 < 64 := by omega
    have h2 : 8 * (7 - (8 * (7 - j / 8) + j % 8) / 8) + (8 * (7 - j / 8) + j % 8) % 8 = j := by omega
    rw [h2]; simp [hj, h1]
  · have : x < 2 ^ j := Nat.lt_of_lt_of_le hx (Nat.pow_le_pow_right (by decide) (by omega))
    simp [hj, Nat.testBit_lt_two_pow this]

/-- Byte reversal: the little-endian bytes of the swapped value are the big-endian bytes of
    the value (`bytesLE_bswapN`), and conversely. -/
theorem bytesBE_bswap16 (x : Nat) (hx : x < 2 ^ 16) : bytesBE 2 (bswap16 x) = bytesLE 2 x := by
  rw [← bytesLE_bswap16, bswap16_invol x hx]
theorem bytesBE_bswap32 (x : Nat) (hx : x < 2 ^ 32) : bytesBE 4 (bswap32 x) = bytesLE 4 x := by
  rw [← bytesLE_bswap32, bswap32_invol x hx]
theorem bytesBE_bswap64 (x : Nat) (hx : x < 2 ^ 64) : bytesBE 8 (bswap64 x) = bytesLE 8 x := by
  rw [← bytesLE_bswap64, bswap64_invol x hx]

/-! ### host → wire: memory images -/

/-- **C13.** On either host, the object `CpuToBeN(x)` has the big-endian byte sequence of `x`
    as its memory image … -/
theorem memImage_cpuToBe16 (e : Endian) (x : Nat) : memImage e 2 (beCpu16 e x) = bytesBE 2 x := by
  cases e
  · exact bytesLE_bswap16 x
  · rfl
theorem memImage_cpuToBe32 (e : Endian) (x : Nat) : memImage e 4 (beCpu32 e x) = bytesBE 4 x := by
  cases e
  · exact bytesLE_bswap32 x
  · rfl
theorem memImage_cpuToBe64 (e : Endian) (x : Nat) : memImage e 8 (beCpu64 e x) = bytesBE 8 x := by
  cases e
  · exact bytesLE_bswap64 x
  · rfl

/-- … and `CpuToLeN(x)` the little-endian one. -/
theorem memImage_cpuToLe16 (e : Endian) (x : Nat) (hx : x < 2 ^ 16) :
    memImage e 2 (leCpu16 e x) = bytesLE 2 x := by
  cases e
  · rfl
  · exact bytesBE_bswap16 x hx
theorem memImage_cpuToLe32 (e : Endian) (x : Nat) (hx : x < 2 ^ 32) :
    memImage e 4 (leCpu32 e x) = bytesLE 4 x := by
  cases e
  · rfl
  · exact bytesBE_bswap32 x hx
theorem memImage_cpuToLe64 (e : Endian) (x : Nat) (hx : x < 2 ^ 64) :
    memImage e 8 (leCpu64 e x) = bytesLE 8 x := by
  cases e
  · rfl
  · exact bytesBE_bswap64 x hx

/-! ### wire → host inverts host → wire (the same function serves both directions) -/

theorem beCpu16_invol (e : Endian) (x : Nat) (hx : x < 2 ^ 16) : beCpu16 e (beCpu16 e x) = x := by
  cases e
  · exact bswap16_invol x hx
  · rfl
theorem beCpu32_invol (e : Endian) (x : Nat) (hx : x < 2 ^ 32) : beCpu32 e (beCpu32 e x) = x := by
  cases e
  · exact bswap32_invol x hx
  · rfl
theorem beCpu64_invol (e : Endian) (x : Nat) (hx : x < 2 ^ 64) : beCpu64 e (beCpu64 e x) = x := by
  cases e
  · exact bswap64_invol x hx
  · rfl
theorem leCpu16_invol (e : Endian) (x : Nat) (hx : x < 2 ^ 16) : leCpu16 e (leCpu16 e x) = x := by
  cases e
  · rfl
  · exact bswap16_invol x hx
theorem leCpu32_invol (e : Endian) (x : Nat) (hx : x < 2 ^ 32) : leCpu32 e (leCpu32 e x) = x := by
  cases e
  · rfl
  · exact bswap32_invol x hx
theorem leCpu64_invol (e : Endian) (x : Nat) (hx : x < 2 ^ 64) : leCpu64 e (leCpu64 e x) = x := by
  cases e
  · rfl
  · exact bswap64_invol x hx

/-! ### the two helper sets are mirror images -/

def Endian.flip : Endian → Endian
  | .little => .big
  | .big => .little

theorem helpers_mirror16 (e : Endian) (x : Nat) : leCpu16 e x = beCpu16 e.flip x := by cases e <;> rfl
theorem helpers_mirror32 (e : Endian) (x : Nat) : leCpu32 e x = beCpu32 e.flip x := by cases e <;> rfl
theorem helpers_mirror64 (e : Endian) (x : Nat) : leCpu64 e x = beCpu64 e.flip x := by cases e <;> rfl

/-- What the model says each of the twelve helpers is on a host of byte order `e`:
    `true` = the swap of its width, `false` = the identity. -/
def modelHelpers (e : Endian) : List (String × Bool) :=
  let le := match e with | .little => false | .big => true
  let be := !le
  [("Avtp_CpuToLe16", le), ("Avtp_CpuToLe32", le), ("Avtp_CpuToLe64", le),
   ("Avtp_CpuToBe16", be), ("Avtp_CpuToBe32", be), ("Avtp_CpuToBe64", be),
   ("Avtp_LeToCpu16", le), ("Avtp_LeToCpu32", le), ("Avtp_LeToCpu64", le),
   ("Avtp_BeToCpu16", be), ("Avtp_BeToCpu32", be), ("Avtp_BeToCpu64", be)]

/-- and it is what `beCpuN` / `leCpuN` compute -/
theorem modelHelpers_sound (e : Endian) (x : Nat) :
    beCpu16 e x = (if (modelHelpers e).lookup "Avtp_CpuToBe16" = some true then bswap16 x else x) ∧
    beCpu32 e x = (if (modelHelpers e).lookup "Avtp_BeToCpu32" = some true then bswap32 x else x) ∧
    beCpu64 e x = (if (modelHelpers e).lookup "Avtp_CpuToBe64" = some true then bswap64 x else x) ∧
    leCpu16 e x = (if (modelHelpers e).lookup "Avtp_CpuToLe16" = some true then bswap16 x else x) ∧
    leCpu32 e x = (if (modelHelpers e).lookup "Avtp_LeToCpu32" = some true then bswap32 x else x) ∧
    leCpu64 e x = (if (modelHelpers e).lookup "Avtp_CpuToLe64" = some true then bswap64 x else x) := by
  cases e <;> simp [modelHelpers, beCpu16, beCpu32, beCpu64, leCpu16, leCpu32, leCpu64, List.lookup]

/-! non-vacuity -/
example : bswap32 0x11223344 = 0x44332211 := by decide
example : bytesBE 4 0x11223344 = [0x11, 0x22, 0x33, 0x44] := by decide
example : memImage .little 2 (beCpu16 .little 0x1234) = [0x12, 0x34] := by decide

end O1722
