/-
  Props/Alignment.lean — property theorem C15: results do not depend on where the PDU lies
  in memory, and the library performs no access that assumes more than byte alignment.
-/
import O1722.Props.Endian

namespace O1722
open Spec

/-- Under strict-alignment semantics an access faults when it is made through an lvalue that
    assumes alignment `align > 1` at an address that is not a multiple of it. -/
def Access.faults (a : Access) : Prop := 1 < a.align ∧ a.addr % a.align ≠ 0

instance (a : Access) : Decidable a.faults := by unfold Access.faults; exact inferInstance

/-- A log made of byte-granular accesses (memcpy / byte loads and stores) never faults,
    wherever the objects lie. -/
theorem no_fault_of_bytewise (log : List Access) (h : ∀ a ∈ log, a.align = 1) :
    ∀ a ∈ log, ¬ a.faults := by
  intro a ha hf
  have := h a ha
  unfold Access.faults at hf
  omega

/-- The accesses the Model of Utils.c makes are byte-granular (the quadlet is moved with
    `memcpy`), for every descriptor, memory, base address and value. -/
theorem getLoop_bytewise (e : Endian) (d : Desc) (m : Mem) (pdu : Nat) :
    ∀ fuel qo pb res log, (∀ a ∈ log, a.align = 1) →
      ∀ a ∈ (getLoop e d m pdu fuel qo pb res log).2, a.align = 1 := by
  intro fuel
  induction fuel with
  | zero => intro _ _ _ log h; exact h
  | succ f ih =>
    intro qo pb res log h
    rw [getLoop]
    split
    · apply ih
      intro a ha
      rcases List.mem_append.mp ha with h1 | h1
      · exact h a h1
      · simp only [List.mem_singleton] at h1; subst h1; rfl
    · exact h

theorem setLoop_bytewise (e : Endian) (d : Desc) (pdu v : Nat) :
    ∀ fuel qo pb m log, (∀ a ∈ log, a.align = 1) →
      ∀ a ∈ (setLoop e d pdu v fuel qo pb m log).2, a.align = 1 := by
  intro fuel
  induction fuel with
  | zero => intro _ _ _ log h; exact h
  | succ f ih =>
    intro qo pb m log h
    rw [setLoop]
    split
    · apply ih
      intro a ha
      rcases List.mem_append.mp ha with h1 | h1
      · exact h a h1
      · simp only [List.mem_cons, List.mem_nil_iff, or_false] at h1
        rcases h1 with h1 | h1 <;> subst h1 <;> rfl
    · exact h

/-- **C15 (no alignment assumption).** No access of the generic reader or writer can fault,
    at any base address. -/
theorem utils_never_fault (e : Endian) (tbl : List Desc) (n : Nat) (m : Mem) (pdu : Option Nat) (i v : Nat) :
    (∀ a ∈ (getFieldLog e tbl n m pdu i).2, ¬ a.faults) ∧
    (∀ a ∈ (setFieldLog e tbl n m pdu i v).2, ¬ a.faults) := by
  constructor
  · apply no_fault_of_bytewise
    unfold getFieldLog
    cases pdu with
    | none => intro a ha; cases ha
    | some p =>
      simp only
      split
      · split
        · exact getLoop_bytewise e _ m p _ _ _ _ _ (by intro a ha; cases ha)
        · intro a ha; cases ha
      · intro a ha; cases ha
  · apply no_fault_of_bytewise
    unfold setFieldLog
    cases pdu with
    | none => intro a ha; cases ha
    | some p =>
      simp only
      split
      · split
        · exact setLoop_bytewise e _ p _ _ _ _ _ _ (by intro a ha; cases ha)
        · intro a ha; cases ha
      · intro a ha; cases ha

/-- Why it matters: the same quadlet access made through a `uint32_t*` lvalue faults as soon
    as the PDU sits at an odd address. -/
theorem typed_access_faults_at_odd_address :
    (⟨1001, 4, 4, false⟩ : Access).faults ∧ ¬ (⟨1001, 4, 1, false⟩ : Access).faults := by decide

/-- The memory seen from `k` bytes further on. -/
def shiftMem (m : Mem) (k : Nat) : Mem := fun a => m (a + k)

theorem wireBit_shift (m : Mem) (pdu k i : Nat) : wireBit (shiftMem m k) pdu i = wireBit m (pdu + k) i := by
  unfold wireBit shiftMem
  have : pdu + i / 8 + k = pdu + k + i / 8 := by omega
  rw [this]

theorem specGet_shift (m : Mem) (pdu k s w : Nat) :
    specGet (shiftMem m k) pdu s w = specGet m (pdu + k) s w := by
  apply Nat.eq_of_testBit_eq; intro j
  rw [specGet_testBit, specGet_testBit, wireBit_shift]

/-- **C15 (placement independence, reads).** The same PDU bytes at any other byte address
    give the same field value. -/
theorem getField_placement (e : Endian) (tbl : List Desc) (n : Nat) (m : Mem) (pdu k i : Nat) (d : Desc)
    (hi : i < n) (hrow : tbl[i]? = some d) (hd : d.Valid) :
    getField e tbl n (shiftMem m k) (some pdu) i = getField e tbl n m (some (pdu + k)) i := by
  rw [getField_spec e tbl n _ pdu i d hi hrow hd, getField_spec e tbl n m (pdu + k) i d hi hrow hd,
    specGet_shift]

/-- **C15 (placement independence, writes).** Writing a field of the PDU placed `k` bytes
    further on yields the same bytes, `k` bytes further on. -/
theorem setField_placement (e : Endian) (tbl : List Desc) (n : Nat) (m : Mem) (pdu k i v : Nat) (d : Desc)
    (hi : i < n) (hrow : tbl[i]? = some d) (hd : d.Valid) (a : Nat) :
    setField e tbl n (shiftMem m k) (some pdu) i v a = setField e tbl n m (some (pdu + k)) i v (a + k) := by
  rw [setField_spec e tbl n _ pdu i v d hi hrow hd, setField_spec e tbl n m (pdu + k) i v d hi hrow hd]
  unfold specSet shiftMem
  simp only
  by_cases h : pdu ≤ a
  · have h' : pdu + k ≤ a + k := by omega
    rw [if_pos h, if_pos h']
    have : a + k - (pdu + k) = a - pdu := by omega
    rw [this]
  · have h' : ¬ pdu + k ≤ a + k := by omega
    rw [if_neg h, if_neg h']

/-- Regenerated obligation: no function of the file accesses memory through an lvalue wider
    than a byte obtained by casting a pointer that only promises byte alignment. -/
def checkC15 (g : GenFormat) : Bool := g.typedSites.isEmpty && g.opaqueFns.isEmpty

end O1722
