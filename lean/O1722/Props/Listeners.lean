/-
  Props/Listeners.lean — property theorems C18 about the Models of the example listeners'
  receive paths (Model/Tunnel.lean for acf-can-listener.c, Model/Listeners.lean for the
  others): for EVERY datagram — any length up to the receive buffer, any content — and any
  prior buffer content and listener state,
    * every buffer offset the parser touches lies inside the received octets,
    * every copy fits its destination,
    * the result depends only on the received octets (nothing stale is interpreted),
    * the walk ends within a number of steps bounded by the datagram length, and
    * the listener state stays well-formed, so the next datagram is processed normally.
-/
import O1722.Props.Tunnel
import O1722.Model.Listeners

namespace O1722
open Spec

/-! ### ACF-CAN listener -/

theorem acfCommon_disjoint : fieldsDisjoint Spec.acfCommon = true := by decide
theorem commonHeader_disjoint : fieldsDisjoint Spec.commonHeader = true := by decide

/-- What one accepted message guarantees: it holds its header and payload, lies inside the
    ACF data still announced, and its payload fits the CAN frame it is copied to. -/
theorem listenMsg_bounds (cfg : TunnelCfg) (m : Mem) (at_ rem : Nat) (o : CanOut) (l : Nat)
    (h : listenMsg cfg m at_ rem = some (o, l)) :
    16 ≤ l ∧ l ≤ rem ∧ 16 + o.len ≤ l ∧ o.len ≤ maxData cfg ∧ o.data.length = o.len := by
  unfold listenMsg at h
  split at h
  · cases h
  · simp only at h
    split at h
    · cases h
    · rename_i hc
      split at h
      · cases h
      · simp only [Option.some.injEq, Prod.mk.injEq] at h
        obtain ⟨h1, h2⟩ := h
        subst h1; subst h2
        simp only [read_length]
        refine ⟨?_, ?_, ?_, ?_, trivial⟩ <;> omega

/-- The message parser looks only at the announced octets of its message. -/
theorem listenMsg_congr (cfg : TunnelCfg) (m₁ m₂ : Mem) (at_ rem : Nat) (hrem : 16 ≤ rem)
    (h : ∀ x, at_ ≤ x → x < at_ + rem → m₁ x = m₂ x) :
    listenMsg cfg m₁ at_ rem = listenMsg cfg m₂ at_ rem := by
  have e : ∀ name, getNamed Spec.can m₁ at_ name = getNamed Spec.can m₂ at_ name := fun name =>
    getNamed_congr Spec.can can_disjoint m₁ m₂ at_ name (fun a h1 h2 => h a h1 (by
      have : Spec.can.headerLen = 16 := rfl
      omega))
  have e' : getNamed Spec.acfCommon m₁ at_ "ACF_MSG_TYPE" = getNamed Spec.acfCommon m₂ at_ "ACF_MSG_TYPE" :=
    getNamed_congr Spec.acfCommon acfCommon_disjoint m₁ m₂ at_ _ (fun a h1 h2 => h a h1 (by
      have : Spec.acfCommon.headerLen = 4 := rfl
      omega))
  have ep : canPayloadLength Spec.can m₁ at_ = canPayloadLength Spec.can m₂ at_ := by
    unfold canPayloadLength; rw [e, e]
  unfold listenMsg
  rw [e', ep]
  simp only [e]
  split
  · rfl
  · split
    · rfl
    · rename_i hc
      split
      · rfl
      · rw [read_congr m₁ m₂ (at_ + 16) _ (fun x h1 h2 => h x (by omega) (by omega))]

/-- **C18 (CAN, walk).** Every message header the walk inspects lies inside the announced ACF
    data, and every frame written was copied from inside it and fits the frame. -/
theorem listenLoop_bounds (cfg : TunnelCfg) (m : Mem) (base L : Nat) :
    ∀ fuel done, ∀ ev ∈ listenLoop cfg m base L fuel done,
      base + done ≤ ev.1 ∧ ev.1 + 16 ≤ base + L ∧
      ∀ o, ev.2 = some o → ev.1 + 16 + o.len ≤ base + L ∧ o.len ≤ maxData cfg ∧ o.data.length = o.len := by
  intro fuel
  induction fuel with
  | zero => intro done ev h; cases h
  | succ fuel ih =>
    intro done ev h
    unfold listenLoop at h
    split at h
    · split at h
      · cases h
      · split at h
        · rename_i o l hm
          obtain ⟨b1, b2, b3, b4, b5⟩ := listenMsg_bounds cfg m _ _ o l hm
          rcases List.mem_cons.mp h with h | h
          · subst h
            refine ⟨Nat.le_refl _, by omega, ?_⟩
            intro o' ho'
            simp only [Option.some.injEq] at ho'
            subst ho'
            exact ⟨by omega, b4, b5⟩
          · obtain ⟨i1, i2, i3⟩ := ih (done + l) ev h
            exact ⟨by omega, i2, i3⟩
        · rcases List.mem_cons.mp h with h | h
          · subst h
            refine ⟨Nat.le_refl _, by omega, ?_⟩
            intro o' ho'; cases ho'
          · cases h
    · cases h

/-- The walk looks only at the announced ACF octets. -/
theorem listenLoop_congr (cfg : TunnelCfg) (m₁ m₂ : Mem) (base L : Nat)
    (h : ∀ x, base ≤ x → x < base + L → m₁ x = m₂ x) :
    ∀ fuel done, listenLoop cfg m₁ base L fuel done = listenLoop cfg m₂ base L fuel done := by
  intro fuel
  induction fuel with
  | zero => intro _; rfl
  | succ fuel ih =>
    intro done
    unfold listenLoop
    split
    · split
      · rfl
      · rw [listenMsg_congr cfg m₁ m₂ (base + done) (L - done) (by omega)
          (fun x h1 h2 => h x (by omega) (by omega))]
        split
        · rw [ih]
        · rfl
    · rfl

/-- **C18 (CAN, bounded time).** The walk performs at most one step per 16 announced octets
    (plus the final one), whatever the length fields say: a zero or tiny `acf_msg_length`
    cannot stall it. -/
theorem listenLoop_steps (cfg : TunnelCfg) (m : Mem) (base L : Nat) :
    ∀ fuel done, (listenLoop cfg m base L fuel done).length ≤ (L - done) / 16 + 1 := by
  intro fuel
  induction fuel with
  | zero => intro _; simp [listenLoop]
  | succ fuel ih =>
    intro done
    unfold listenLoop
    split
    · split
      · simp
      · split
        · rename_i o l hm
          obtain ⟨b1, b2, _⟩ := listenMsg_bounds cfg m _ _ o l hm
          simp only [List.length_cons]
          have := ih (done + l)
          have hdiv : (L - (done + l)) / 16 + 1 ≤ (L - done) / 16 := by
            have : L - done = (L - (done + l)) + l := by omega
            rw [this]
            have : (L - (done + l) + 16) / 16 ≤ (L - (done + l) + l) / 16 := Nat.div_le_div_right (by omega)
            omega
          omega
        · simp
    · simp

/-- … and the model's step budget (400) is never what ends it: any budget of at least
    `L / 16 + 1` steps gives the same walk. -/
theorem listenLoop_fuel (cfg : TunnelCfg) (m : Mem) (base L : Nat) :
    ∀ fuel done k, (L - done) / 16 + 1 ≤ fuel →
      listenLoop cfg m base L (fuel + k) done = listenLoop cfg m base L fuel done := by
  intro fuel
  induction fuel with
  | zero => intro done k h; omega
  | succ fuel ih =>
    intro done k h
    have : fuel + 1 + k = (fuel + k) + 1 := by omega
    rw [this]
    unfold listenLoop
    split
    · split
      · rfl
      · split
        · rename_i o l hm
          obtain ⟨b1, b2, _⟩ := listenMsg_bounds cfg m _ _ o l hm
          by_cases hd : done + l < L
          · rw [ih (done + l) k (by
              have : L - done = (L - (done + l)) + l := by omega
              rw [this] at h
              have : (L - (done + l) + 16) / 16 ≤ (L - (done + l) + l) / 16 := Nat.div_le_div_right (by omega)
              omega)]
          · -- the walk is over: both continuations are empty
            have e : ∀ f, listenLoop cfg m base L f (done + l) = [] := by
              intro f; cases f with
              | zero => rfl
              | succ f => unfold listenLoop; rw [if_neg hd]
            rw [e, e]
        · rfl
    · rfl

/-- `new_packet` either drops the datagram before the walk or walks ACF data that lies inside
    the received octets. -/
theorem listenWalk_cases (cfg : TunnelCfg) (m : Mem) (n : Nat) :
    listenWalk cfg m n = [] ∨
    ∃ base L, base + L ≤ n ∧ listenWalk cfg m n = listenLoop cfg m base L 400 0 := by
  unfold listenWalk
  by_cases h0 : cfg.udp = true ∧ n < 4
  · left; rw [if_pos h0]
  · rw [if_neg h0]
    simp only
    generalize (if cfg.udp = true then 4 else 0) = cfAt
    by_cases h1 : n < cfAt + 12
    · left; rw [if_pos h1]
    · rw [if_neg h1]
      by_cases h2 : getNamed Spec.commonHeader m cfAt "SUBTYPE" = 0x05
      · rw [if_pos h2]
        by_cases h3 : n < cfAt + 24
        · left; rw [if_pos h3]
        · rw [if_neg h3]
          by_cases h4 : cfAt + 24 + getNamed Spec.tscf m cfAt "STREAM_DATA_LENGTH" > n
          · left; rw [if_pos h4]
          · right; rw [if_neg h4]; exact ⟨_, _, by omega, rfl⟩
      · rw [if_neg h2]
        by_cases h5 : getNamed Spec.commonHeader m cfAt "SUBTYPE" = 0x82
        · rw [if_pos h5]
          by_cases h4 : cfAt + 12 + getNamed Spec.ntscf m cfAt "NTSCF_DATA_LENGTH" > n
          · left; rw [if_pos h4]
          · right; rw [if_neg h4]; exact ⟨_, _, by omega, rfl⟩
        · left; rw [if_neg h5]

/-- **C18 (ACF-CAN listener).** For every mode, every receive-buffer content `m` and every
    received length `n`: each message header inspected lies inside the received octets, each
    frame written was copied from inside them, carries at most 8 (classic) / 64 (FD) data
    octets and exactly `len` of them. -/
theorem C18_can_bounds (cfg : TunnelCfg) (m : Mem) (n : Nat) :
    ∀ ev ∈ listenWalk cfg m n, ev.1 + 16 ≤ n ∧
      ∀ o, ev.2 = some o → ev.1 + 16 + o.len ≤ n ∧ o.len ≤ maxData cfg ∧ o.data.length = o.len := by
  intro ev h
  rcases listenWalk_cases cfg m n with h0 | ⟨base, L, hb, h0⟩
  · rw [h0] at h; cases h
  · rw [h0] at h
    obtain ⟨_, b2, b3⟩ := listenLoop_bounds cfg m base L 400 0 ev h
    refine ⟨by omega, fun o ho => ?_⟩
    obtain ⟨c1, c2, c3⟩ := b3 o ho
    exact ⟨by omega, c2, c3⟩

/-- **C18 (ACF-CAN listener, nothing stale).** The walk — hence every frame written — is a
    function of the received octets only: whatever the buffer holds beyond them (earlier
    datagrams, uninitialised stack) is never interpreted. -/
theorem C18_can_local (cfg : TunnelCfg) (m₁ m₂ : Mem) (n : Nat) (h : ∀ x, x < n → m₁ x = m₂ x) :
    listenWalk cfg m₁ n = listenWalk cfg m₂ n := by
  unfold listenWalk
  split
  · rfl
  · simp only
    generalize (if cfg.udp = true then 4 else 0) = cfAt
    split
    · rfl
    · rename_i hn
      have e0 : getNamed Spec.commonHeader m₁ cfAt "SUBTYPE" = getNamed Spec.commonHeader m₂ cfAt "SUBTYPE" :=
        getNamed_congr Spec.commonHeader commonHeader_disjoint m₁ m₂ cfAt _ (fun a h1 h2 => h a (by
          have : Spec.commonHeader.headerLen = 4 := rfl
          omega))
      rw [e0]
      split
      · split
        · rfl
        · rename_i hn24
          have e1 : getNamed Spec.tscf m₁ cfAt "STREAM_DATA_LENGTH" = getNamed Spec.tscf m₂ cfAt "STREAM_DATA_LENGTH" :=
            getNamed_congr Spec.tscf tscf_disjoint m₁ m₂ cfAt _ (fun a h1 h2 => h a (by
              have : Spec.tscf.headerLen = 24 := rfl
              omega))
          rw [e1]
          split
          · rfl
          · exact listenLoop_congr cfg m₁ m₂ _ _ (fun x h1 h2 => h x (by omega)) 400 0
      · split
        · have e1 : getNamed Spec.ntscf m₁ cfAt "NTSCF_DATA_LENGTH" = getNamed Spec.ntscf m₂ cfAt "NTSCF_DATA_LENGTH" :=
            getNamed_congr Spec.ntscf ntscf_disjoint m₁ m₂ cfAt _ (fun a h1 h2 => h a (by
              have : Spec.ntscf.headerLen = 12 := rfl
              omega))
          rw [e1]
          split
          · rfl
          · exact listenLoop_congr cfg m₁ m₂ _ _ (fun x h1 h2 => h x (by omega)) 400 0
        · rfl

/-- **C18 (ACF-CAN listener, bounded time).** At most `n / 16 + 1` messages are inspected for
    a datagram of `n` octets — whatever its length fields say — and for datagrams up to the
    1500-octet buffer the model's step budget is never what ends the walk. -/
theorem C18_can_steps (cfg : TunnelCfg) (m : Mem) (n : Nat) :
    (listenWalk cfg m n).length ≤ n / 16 + 1 ∧
    (n ≤ 1500 → ∀ base L k, base + L ≤ n →
      listenLoop cfg m base L (400 + k) 0 = listenLoop cfg m base L 400 0) := by
  constructor
  · rcases listenWalk_cases cfg m n with h0 | ⟨base, L, hb, h0⟩
    · rw [h0]; simp
    · rw [h0]
      have := listenLoop_steps cfg m base L 400 0
      have hd : (L - 0) / 16 ≤ n / 16 := Nat.div_le_div_right (by omega)
      omega
  · intro hn base L k hb
    apply listenLoop_fuel
    have : (L - 0) / 16 ≤ 1500 / 16 := Nat.div_le_div_right (by omega)
    omega

/-! ### hello-world listener -/

theorem gpc_disjoint : fieldsDisjoint Spec.gpc = true := by decide
theorem vss_disjoint : fieldsDisjoint Spec.vss = true := by decide

theorem acfAt_congr (udp : Bool) (m₁ m₂ : Mem) (n : Nat) (hn : (if udp then 4 else 0) + 12 ≤ n)
    (h : ∀ x, x < n → m₁ x = m₂ x) : acfAt udp m₁ = acfAt udp m₂ := by
  unfold acfAt
  simp only
  rw [getNamed_congr Spec.commonHeader commonHeader_disjoint m₁ m₂ _ _ (fun a h1 h2 => h a (by
    have : Spec.commonHeader.headerLen = 4 := rfl
    omega))]

theorem helloPlan_bounds (udp : Bool) (m : Mem) (n o l c : Nat) (h : helloPlan udp m n = some (o, l, c)) :
    o + l ≤ n ∧ l ≤ 92 ∧ (if udp then 4 else 0) + 12 ≤ n ∧ o = acfAt udp m + 8 := by
  unfold helloPlan at h
  simp only at h
  generalize (if udp = true then 4 else 0) = cfAt at h ⊢
  by_cases h1 : n < cfAt + 12
  · rw [if_pos h1] at h; cases h
  · rw [if_neg h1] at h
    by_cases h2 : n < acfAt udp m + 8
    · rw [if_pos h2] at h; cases h
    · rw [if_neg h2] at h
      by_cases h3 : getNamed Spec.acfCommon m (acfAt udp m) "ACF_MSG_TYPE" ≠ 0x5
      · rw [if_pos h3] at h; cases h
      · rw [if_neg h3] at h
        split at h
        · simp only [Option.some.injEq, Prod.mk.injEq] at h
          obtain ⟨e1, e2, _⟩ := h
          omega
        · cases h

/-- **C18 (hello-world listener).** For every datagram: the text printed is read from inside
    the received octets, is at most 92 octets long, and what is printed depends only on the
    received octets (no stale or uninitialised byte is printed or interpreted). -/
theorem C18_hello (udp : Bool) (m : Mem) (n : Nat) :
    (∀ o l c, helloPlan udp m n = some (o, l, c) → o + l ≤ n ∧ l ≤ 92) ∧
    (∀ m', (∀ x, x < n → m x = m' x) → helloRecv udp m n = helloRecv udp m' n) := by
  constructor
  · intro o l c h
    obtain ⟨b1, b2, _, _⟩ := helloPlan_bounds udp m n o l c h
    exact ⟨b1, b2⟩
  · intro m' h
    have hplan : helloPlan udp m n = helloPlan udp m' n := by
      unfold helloPlan
      simp only
      by_cases h1 : n < (if udp = true then 4 else 0) + 12
      · rw [if_pos h1, if_pos h1]
      · rw [if_neg h1, if_neg h1]
        rw [acfAt_congr udp m m' n (by omega) h]
        by_cases h2 : n < acfAt udp m' + 8
        · rw [if_pos h2, if_pos h2]
        · rw [if_neg h2, if_neg h2]
          have e : ∀ name, getNamed Spec.gpc m (acfAt udp m') name = getNamed Spec.gpc m' (acfAt udp m') name :=
            fun name => getNamed_congr Spec.gpc gpc_disjoint m m' _ name (fun a h1 h2 => h a (by
              have : Spec.gpc.headerLen = 8 := rfl
              omega))
          have e' : getNamed Spec.acfCommon m (acfAt udp m') "ACF_MSG_TYPE" = getNamed Spec.acfCommon m' (acfAt udp m') "ACF_MSG_TYPE" :=
            getNamed_congr Spec.acfCommon acfCommon_disjoint m m' _ _ (fun a h1 h2 => h a (by
              have : Spec.acfCommon.headerLen = 4 := rfl
              omega))
          rw [e']
          simp only [e]
    unfold helloRecv
    rw [← hplan]
    cases hp : helloPlan udp m n with
    | none => rfl
    | some r =>
      obtain ⟨o, l, c⟩ := r
      obtain ⟨hb, _, _, _⟩ := helloPlan_bounds udp m n o l c hp
      simp only
      rw [read_congr m m' o l (fun x h1 h2 => h x (by omega))]

/-! ### ACF-VSS listener -/

theorem rdBe2_congr (e : Endian) (m₁ m₂ : Mem) (a : Nat) (h0 : m₁ a = m₂ a) (h1 : m₁ (a + 1) = m₂ (a + 1)) :
    rdBe e 2 m₁ a = rdBe e 2 m₂ a := by
  show beCpu16 e (load e 2 m₁ a) = beCpu16 e (load e 2 m₂ a)
  rw [beCpu16_load, beCpu16_load]
  simp only [beN, Nat.add_zero]
  rw [h0, h1]

theorem rdBe4_congr (e : Endian) (m₁ m₂ : Mem) (a : Nat) (h : ∀ x, a ≤ x → x < a + 4 → m₁ x = m₂ x) :
    rdBe e 4 m₁ a = rdBe e 4 m₂ a := by
  show beCpu32 e (load e 4 m₁ a) = beCpu32 e (load e 4 m₂ a)
  rw [beCpu32_load, beCpu32_load]
  simp only [beN, Nat.add_zero]
  rw [h a (by omega) (by omega), h (a + 1) (by omega) (by omega), h (a + 2) (by omega) (by omega),
    h (a + 3) (by omega) (by omega)]

/-- what the plan guarantees about the received length -/
theorem vssPlan_bounds (udp : Bool) (m : Mem) (n : Nat) (at_ mode pb : Nat) (wv : Bool)
    (h : vssPlan udp m n = some (at_, mode, pb, wv)) :
    at_ + 12 + 4 ≤ n ∧ at_ + 12 + pb ≤ n ∧ (mode = 0 ∨ mode = 1) ∧ (mode = 0 → 2 ≤ pb) ∧
    (wv = true → at_ + 12 + pb + 4 ≤ n) ∧ at_ = acfAt udp m ∧
    pb = vssCalcPathLength .little m at_ := by
  unfold vssPlan at h
  simp only at h
  generalize (if udp = true then 4 else 0) = cfAt at h ⊢
  by_cases h1 : n < cfAt + 12
  · rw [if_pos h1] at h; cases h
  · rw [if_neg h1] at h
    by_cases h2 : n < acfAt udp m + 12 + 4
    · rw [if_pos h2] at h; cases h
    · rw [if_neg h2] at h
      by_cases h3 : getNamed Spec.acfCommon m (acfAt udp m) "ACF_MSG_TYPE" ≠ 0x42
      · rw [if_pos h3] at h; cases h
      · rw [if_neg h3] at h
        by_cases h4 : getNamed Spec.vss m (acfAt udp m) "ADDR_MODE" ≠ 0 ∧ getNamed Spec.vss m (acfAt udp m) "ADDR_MODE" ≠ 1
        · rw [if_pos h4] at h; cases h
        · rw [if_neg h4] at h
          by_cases h5 : n - acfAt udp m < 12 + vssCalcPathLength .little m (acfAt udp m)
          · rw [if_pos h5] at h; cases h
          · rw [if_neg h5] at h
            simp only [Option.some.injEq, Prod.mk.injEq] at h
            obtain ⟨e1, e2, e3, e4⟩ := h
            subst e1; subst e3
            have hmode : mode = 0 ∨ mode = 1 := by rw [← e2]; omega
            refine ⟨by omega, by omega, hmode, ?_, ?_, rfl, rfl⟩
            · intro hm0
              unfold vssCalcPathLength vssAddrMode
              rw [e2, hm0]
              simp
            · intro hw
              rw [← e4] at hw
              have := of_decide_eq_true hw
              omega

/-- **C18 (ACF-VSS listener).** For every datagram: path and value are decoded only from
    inside the received octets, the path copied into the listener's 1500-octet buffer
    (terminator included) fits it, and what is printed depends only on the received octets. -/
theorem C18_vss (udp : Bool) (m : Mem) (n : Nat) (hn : n ≤ 1500) :
    (∀ at_ mode pb wv, vssPlan udp m n = some (at_, mode, pb, wv) →
        at_ + 12 + pb ≤ n ∧ (wv = true → at_ + 12 + pb + 4 ≤ n) ∧ (mode = 0 → pb - 2 + 1 ≤ 1500)) ∧
    (∀ m', (∀ x, x < n → m x = m' x) → vssRecv udp m n = vssRecv udp m' n) := by
  constructor
  · intro at_ mode pb wv h
    obtain ⟨b1, b2, b3, b4, b5, _, _⟩ := vssPlan_bounds udp m n at_ mode pb wv h
    exact ⟨b2, b5, fun _ => by omega⟩
  · intro m' h
    have hplan : vssPlan udp m n = vssPlan udp m' n := by
      unfold vssPlan
      simp only
      by_cases h1 : n < (if udp = true then 4 else 0) + 12
      · rw [if_pos h1, if_pos h1]
      · rw [if_neg h1, if_neg h1]
        rw [acfAt_congr udp m m' n (by omega) h]
        by_cases h2 : n < acfAt udp m' + 12 + 4
        · rw [if_pos h2, if_pos h2]
        · rw [if_neg h2, if_neg h2]
          have e : ∀ name, getNamed Spec.vss m (acfAt udp m') name = getNamed Spec.vss m' (acfAt udp m') name :=
            fun name => getNamed_congr Spec.vss vss_disjoint m m' _ name (fun a h1 h2 => h a (by
              have : Spec.vss.headerLen = 12 := rfl
              omega))
          have e' : getNamed Spec.acfCommon m (acfAt udp m') "ACF_MSG_TYPE" = getNamed Spec.acfCommon m' (acfAt udp m') "ACF_MSG_TYPE" :=
            getNamed_congr Spec.acfCommon acfCommon_disjoint m m' _ _ (fun a h1 h2 => h a (by
              have : Spec.acfCommon.headerLen = 4 := rfl
              omega))
          have ec : vssCalcPathLength .little m (acfAt udp m') = vssCalcPathLength .little m' (acfAt udp m') := by
            unfold vssCalcPathLength vssAddrMode vssFixedHeader
            rw [e]
            rw [rdBe2_congr .little m m' _ (h _ (by omega)) (h _ (by omega))]
          rw [e', ec]
          simp only [e]
    unfold vssRecv
    rw [← hplan]
    cases hp : vssPlan udp m n with
    | none => rfl
    | some r =>
      obtain ⟨at_, mode, pb, wv⟩ := r
      obtain ⟨b1, b2, b3, b4, b5, _, _⟩ := vssPlan_bounds udp m n at_ mode pb wv hp
      simp only
      have eread : mode = 0 → Mem.read m (at_ + 14) (pb - 2) = Mem.read m' (at_ + 14) (pb - 2) := by
        intro hm
        have := b4 hm
        exact read_congr m m' _ _ (fun x h1 h2 => h x (by omega))
      have e4 : rdBe .little 4 m (at_ + 12) = rdBe .little 4 m' (at_ + 12) :=
        rdBe4_congr .little m m' _ (fun x h1 h2 => h x (by omega))
      have ev : wv = true → rdBe .little 4 m (at_ + 12 + pb) = rdBe .little 4 m' (at_ + 12 + pb) := by
        intro hw
        have := b5 hw
        exact rdBe4_congr .little m m' _ (fun x h1 h2 => h x (by omega))
      rcases b3 with hm | hm
      · subst hm
        rw [eread rfl]
        cases wv
        · rfl
        · simp only [if_true]; rw [ev rfl]
      · subst hm
        rw [e4]
        cases wv
        · rfl
        · simp only [if_true]; rw [ev rfl]; rfl

/-! ### CVF and AAF listeners -/

/-- **C18 (CVF listener).** For every datagram and buffer content: a NAL unit is queued only
    if it fits the 1400-octet queue entry and was copied from inside the received octets. -/
theorem C18_cvf (m : Mem) (n : Nat) (nal : List Byte) (h : cvfRecv m n = some nal) :
    nal.length ≤ 1400 ∧ 28 + nal.length ≤ n := by
  unfold cvfRecv at h
  split at h
  · cases h
  · simp only at h
    split at h
    · cases h
    · split at h
      · cases h
      · simp only [Option.some.injEq] at h
        subst h
        rw [read_length]
        omega

/-- **C18 (AAF listener).** A sample is queued only from a datagram of exactly the PDU size,
    and it is exactly the 4 sample octets; every other datagram is dropped (and the listener
    keeps running: `aafRecv` is total). -/
theorem C18_aaf (m : Mem) (n : Nat) (smp : List Byte) (h : aafRecv m n = some smp) :
    n = AAF_PDU ∧ smp.length = 4 := by
  unfold aafRecv at h
  split at h
  · cases h
  · split at h
    · cases h
    · rename_i hn _
      simp only [Option.some.injEq] at h
      subst h
      exact ⟨by simpa using hn, read_length _ _ _⟩

/-! ### CRF listener: the media-clock search -/

/-- The free-wheeling media clock stays in one residue class modulo 8 … -/
theorem mclk_freewheel_mod8 (prev : Nat) : (mclkNext [] prev).1 % 8 = prev % 8 := by
  unfold mclkNext MCLK_PERIOD
  simp only
  omega

/-- … so an unbounded search for a presentation time outside that class could never end: the
    reason the search is bounded. -/
theorem mclk_unreachable (avtp : Nat) :
    ∀ fuel prev, avtp % 8 ≠ prev % 8 → (mclkLookup avtp fuel [] prev).1 = none := by
  intro fuel
  induction fuel with
  | zero => intro _ _; rfl
  | succ fuel ih =>
    intro prev h
    unfold mclkLookup
    have h8 := mclk_freewheel_mod8 prev
    have hq : (mclkNext [] prev).2 = [] := rfl
    simp only
    split
    · rename_i heq
      omega
    · rw [hq]; exact ih _ (by omega)

/-- **C18 (CRF listener, bounded time).** The search consumes at most `fuel` timestamps
    (`fuel` = MCLK_LOOKUP_MAX in the program): it either finds a timestamp whose low 32 bits
    are the presentation time, or gives up having advanced the clock by exactly the
    timestamps it tried; the queue only shrinks. -/
theorem C18_crf_lookup (avtp : Nat) :
    ∀ fuel q prev, let r := mclkLookup avtp fuel q prev
      r.2.1.length ≤ q.length ∧ q.length - r.2.1.length ≤ fuel ∧
      (∀ t, r.1 = some t → t % 2 ^ 32 = avtp ∧ r.2.2 = t) := by
  intro fuel
  induction fuel with
  | zero => intro q prev; exact ⟨Nat.le_refl _, by simp [mclkLookup], fun t h => by cases h⟩
  | succ fuel ih =>
    intro q prev
    unfold mclkLookup
    simp only
    have hlen : (mclkNext q prev).2.length ≤ q.length ∧ q.length - (mclkNext q prev).2.length ≤ 1 := by
      unfold mclkNext; cases q <;> simp
    split
    · rename_i heq
      refine ⟨hlen.1, by dsimp only; omega, ?_⟩
      intro t ht
      simp only [Option.some.injEq] at ht
      subst ht
      exact ⟨heq, rfl⟩
    · obtain ⟨i1, i2, i3⟩ := ih (mclkNext q prev).2 (mclkNext q prev).1
      exact ⟨by omega, by omega, i3⟩

theorem CrfState.lookup_queue (avtp : Nat) : ∀ fuel (st : CrfState),
    (CrfState.lookup avtp fuel st).2.queue.length ≤ st.queue.length := by
  intro fuel
  induction fuel with
  | zero => intro st; exact Nat.le_refl _
  | succ fuel ih =>
    intro st
    unfold CrfState.lookup
    have hn : st.next.2.queue.length ≤ st.queue.length := by
      unfold CrfState.next; cases hq : st.queue <;> simp
    simp only
    split
    · exact hn
    · exact Nat.le_trans (ih _) hn

theorem recoverMclk_length (t p : Nat) : (recoverMclk t p).length ≤ 160 := by
  unfold recoverMclk
  exact Nat.le_trans (List.length_filterMap_le _ _) (by simp)

/-- the search / advance never grows the timestamp queue -/
theorem crfAdvance_queue (st : CrfState) (avtp : Nat) :
    (crfAdvance st avtp).2.queue.length ≤ st.queue.length := by
  unfold crfAdvance
  split
  · have hl := CrfState.lookup_queue avtp MCLK_LOOKUP_MAX st
    simp only
    split
    · exact hl
    · exact hl
  · simp only
    unfold CrfState.next; cases hq : st.queue <;> simp

theorem crf_queue_update (s : CrfState) (a : Bool) : ({ s with prevAligned := a } : CrfState).queue = s.queue := rfl

/-- **C18 (CRF listener, AAF-listener mode).** One datagram — any length, any content — is one
    total step: it queues at most the 160 media-clock timestamps of one CRF PDU (only for a
    PDU of the exact size that passes validation) and never grows the queue otherwise. -/
theorem C18_crf_step (st : CrfState) (pkt : List Byte) :
    (crfListenerStep st pkt).1.queue.length ≤ st.queue.length + 160 := by
  unfold crfListenerStep
  simp only
  split
  · (first | omega | (dsimp only; omega))
  · split
    · split
      · simp only [List.length_append]
        have := recoverMclk_length (beN (recvInto CRF_BUF 0 pkt).1 20 8) st.prev
        (first | omega | (dsimp only; omega))
      · (first | omega | (dsimp only; omega))
    · split
      · split
        · (first | omega | (dsimp only; omega))
        · have h := crfAdvance_queue st (getNamed Spec.pcm (recvInto CRF_BUF 0 pkt).1 0 "AVTP_TIMESTAMP")
          split
          · dsimp only; omega
          · -- (stated through a rewrite so that the kernel never compares the two states field by
            -- field, which would unfold the 640-step search)
            rw [crf_queue_update]
            exact Nat.le_trans h (Nat.le_add_right _ _)
      · (first | omega | (dsimp only; omega))

/-! ### CRF listener, AAF-talker mode -/

theorem recoverMclkMtt_length (t p mtt : Nat) : (recoverMclkMtt t p mtt).length ≤ 160 := by
  unfold recoverMclkMtt
  exact Nat.le_trans (List.length_filterMap_le _ _) (by simp)

/-- **C18 (CRF listener, AAF-talker mode).** One datagram is one total step: only a PDU of the
    exact size that passes validation queues timestamps (at most 160); the timer is armed only
    when a timestamp to start from exists (the dequeue that crashed the original never happens on
    an empty queue); and every packet sent is exactly one 48-octet AAF PDU. -/
theorem C18_crf_talker (mtt : Nat) (st : CrfTalkerState) (pkt : List Byte) :
    (crfTalkerRecv mtt st pkt).clk.queue.length ≤ st.clk.queue.length + 160 ∧
    (st.armed = false → (crfTalkerRecv mtt st pkt).armed = true →
        ∃ t rest, (st.clk.queue ++ (if getNamed Spec.commonHeader (recvInto CRF_BUF 0 pkt).1 0 "SUBTYPE" = 0x4 ∧
              crfPduValid (recvInto CRF_BUF 0 pkt).1 = true
            then recoverMclkMtt (beN (recvInto CRF_BUF 0 pkt).1 20 8) st.clk.prev mtt else [])) = t :: rest) ∧
    ∀ ts seq, (crfTalkerPdu ts seq).length = 48 := by
  refine ⟨?_, ?_, ?_⟩
  · unfold crfTalkerRecv
    simp only
    split
    · omega
    · split
      · rename_i hv
        have hl := recoverMclkMtt_length (beN (recvInto CRF_BUF 0 pkt).1 20 8) st.clk.prev mtt
        split
        · split
          · rename_i hq; simp only [List.length_append]; omega
          · rename_i x rest hq
            simp only
            have : (st.clk.queue ++ recoverMclkMtt (beN (recvInto CRF_BUF 0 pkt).1 20 8) st.clk.prev mtt).length
                = (x :: rest).length := by rw [← hq]
            simp only [List.length_append, List.length_cons] at this
            omega
        · simp only [List.length_append]; omega
      · split
        · split
          · omega
          · rename_i x rest hq
            simp only
            have : st.clk.queue.length = (x :: rest).length := by rw [← hq]
            simp only [List.length_cons] at this
            omega
        · omega
  · intro hna harm
    unfold crfTalkerRecv at harm
    simp only at harm
    split at harm
    · rw [hna] at harm; cases harm
    · split at harm
      · rename_i hv
        rw [if_pos hv]
        split at harm
        · split at harm
          · simp only at harm; rw [hna] at harm; cases harm
          · rename_i x rest hq
            exact ⟨x, rest, hq⟩
        · simp only at harm; rw [hna] at harm; cases harm
      · rename_i hv
        rw [if_neg hv, List.append_nil]
        split at harm
        · split at harm
          · rw [hna] at harm; cases harm
          · rename_i x rest hq
            exact ⟨x, rest, hq⟩
        · rw [hna] at harm; cases harm
  · intro ts seq
    unfold crfTalkerPdu
    simp only [List.length_append, read_length, List.length_replicate]

/-! non-vacuity -/
example : (mclkLookup 5 640 [] 0).1 = none := by decide +kernel
example : (mclkLookup 250000 640 [] 0).1 = some 250000 := by decide +kernel

end O1722
