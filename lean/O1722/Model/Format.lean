/-
  Model/Format.lean — the shapes the translator recognises in src/avtp/**/*.c and the
  meaning the model gives to each.  Gen/Data.lean (regenerated from /repo on every run)
  contains only *values* of these structures; the functions below say what a value
  means in terms of the hand model of Avtp_GetField / Avtp_SetField.
-/
import O1722.Model.Utils

namespace O1722

/-- `return Avtp_GetField(TABLE, NUM, (uint8_t*)pdu, FIELD);` with the conversions clang made
    explicit. -/
structure Getter where
  fn            : String
  table         : String
  numFields     : Nat            -- value of the `numFields` argument after conversion to uint8_t
  /-- `some (enumerator, value passed)` for a dedicated getter, `none` when the function's own
      `field` parameter is forwarded (generic by-identifier reader) -/
  field         : Option (String × Nat)
  fieldParamBits : Nat           -- generic only: width of the identifier parameter's type
  fieldCastBits  : Nat           -- generic only: width it is narrowed to at the call
  retBits       : Nat            -- width of the function's return type
  deriving Repr, DecidableEq

/-- `Avtp_SetField(TABLE, NUM, (uint8_t*)pdu, FIELD, value);` -/
structure Setter where
  fn            : String
  table         : String
  numFields     : Nat
  field         : Option (String × Nat)
  fieldParamBits : Nat
  fieldCastBits  : Nat
  valueBits     : Nat            -- width of the `value` parameter's type
  valueSigned   : Bool
  deriving Repr, DecidableEq

inductive InitStep where
  /-- `memset(pdu, 0, sizeof(T))`, with `sizeof(T)` evaluated by the compiler -/
  | memset0 (sizeOf : String) (len : Nat)
  /-- `X_SetField(pdu, FIELD, CONST)` (current API, generic writer) -/
  | setField (fn field : String) (fieldVal value : Nat)
  /-- `X_SetY(pdu, CONST)` (dedicated setter) -/
  | setConst (fn : String) (value : Nat)
  /-- `X_SetY(pdu, param)` (dedicated setter fed from a parameter of `bits` width) -/
  | setParam (fn : String) (bits : Nat)
  /-- `X_Init((T*)pdu)` -/
  | callInit (fn : String)
  /-- `res = legacy_set(pdu, FIELD, CONST); if (res < 0) return res;` -/
  | checkedSet (fn field : String) (fieldVal value : Nat)
  deriving Repr, DecidableEq

/-- An initialiser: `if (pdu != NULL) { steps }` (current API, returns void) or
    `if (pdu == NULL) return err; steps; return ok;` (legacy). -/
structure Init where
  fn     : String
  legacy : Bool
  err    : Int
  ok     : Int
  steps  : List InitStep
  deriving Repr, DecidableEq

/-- A deprecated by-identifier wrapper:
    `if (guards) return err; else { *val = (T)F(pdu, field); | F(pdu, field, val); return ok; }` -/
structure LegacyAcc where
  fn           : String
  isGet        : Bool
  fwd          : String         -- the current-API function it forwards to
  guardPdu     : Bool           -- tests `pdu == NULL`
  guardVal     : Bool           -- tests `val == NULL`
  bound        : Option Nat     -- tests `field >= bound`
  fieldBits    : Nat            -- width of the identifier parameter
  valBits      : Nat            -- get: width of `*val`; set: width of the value parameter
  err          : Int
  ok           : Int
  deriving Repr, DecidableEq

/-- Everything declarative the translator extracts from one source file. -/
structure GenFormat where
  file        : String
  tableName   : String
  tableSize   : Nat                      -- declared array length
  table       : List Desc                -- rows in index order
  enumType    : String
  enumerators : List (String × Nat)      -- the field-identifier enumeration, in order
  getters     : List Getter
  setters     : List Setter
  inits       : List Init
  legacy      : List LegacyAcc
  payloadAcc  : List (String × String)   -- (function, header type) of `return pdu->payload;`
  algorithmic : List (String × String)   -- (function, AST digest): hand-modelled elsewhere
  opaqueFns   : List (String × String)   -- (function, reason): shape not understood
  /-- per algorithmic function: width of its return type and, for each `memset` it contains,
      the element size its destination pointer arithmetic is scaled by -/
  algoFacts   : List (String × Nat × List Nat)
  /-- per algorithmic function: the pointer parameters through which it (syntactically)
      stores -/
  algoWrites  : List (String × List String)
  /-- memory accesses through an lvalue wider than a byte obtained by casting a pointer that
      only promises byte alignment: (function, wide pointer type, source pointer type) -/
  typedSites  : List (String × String × String)
  statics     : List (String × String × Bool)  -- (object, type, const-qualified) with static storage
  header      : String                   -- the format's public header
  /-- constants the C compiler evaluates in a TU that includes just that header:
      `sizeof:T`, `offsetof_payload:T`, `macro:NAME`, `enum:NAME`, `unsigned:T` -/
  facts       : List (String × Int)
  deriving Repr

/-! ### meaning -/

/-- The identifier value a getter/setter hands to Utils.c, given the caller's argument. -/
def fieldArg (field : Option (String × Nat)) (castBits : Nat) (arg : Nat) : Nat :=
  match field with
  | some (_, v) => v
  | none => arg % 2 ^ castBits

/-- Run a recognised getter: `arg` is the caller's identifier argument (ignored by
    dedicated getters). The result is converted to the function's return type. -/
def Getter.run (g : Getter) (tbl : List Desc) (e : Endian) (m : Mem) (pdu : Option Nat)
    (arg : Nat) : Nat :=
  getField e tbl g.numFields m pdu (fieldArg g.field g.fieldCastBits arg) % 2 ^ g.retBits

/-- Run a recognised setter on caller value `v` (a value of the parameter's type, i.e.
    `v < 2^valueBits`; wider mathematical values are first converted to that type). -/
def Setter.run (s : Setter) (tbl : List Desc) (e : Endian) (m : Mem) (pdu : Option Nat)
    (arg v : Nat) : Mem :=
  setField e tbl s.numFields m pdu (fieldArg s.field s.fieldCastBits arg) (v % 2 ^ s.valueBits)

def GenFormat.enumValue (g : GenFormat) (name : String) : Option Nat :=
  g.enumerators.lookup name

def GenFormat.findGetter (g : GenFormat) (fn : String) : Option Getter :=
  g.getters.find? (fun x => x.fn == fn)

def GenFormat.findSetter (g : GenFormat) (fn : String) : Option Setter :=
  g.setters.find? (fun x => x.fn == fn)

def GenFormat.genericGetters (g : GenFormat) : List Getter := g.getters.filter (·.field.isNone)
def GenFormat.genericSetters (g : GenFormat) : List Setter := g.setters.filter (·.field.isNone)

end O1722

namespace O1722

/-! ### access logs of recognised accessors -/

def Getter.log (g : Getter) (tbl : List Desc) (e : Endian) (m : Mem) (pdu : Option Nat)
    (arg : Nat) : List Access :=
  (getFieldLog e tbl g.numFields m pdu (fieldArg g.field g.fieldCastBits arg)).2

def Setter.log (s : Setter) (tbl : List Desc) (e : Endian) (m : Mem) (pdu : Option Nat)
    (arg v : Nat) : List Access :=
  (setFieldLog e tbl s.numFields m pdu (fieldArg s.field s.fieldCastBits arg) (v % 2 ^ s.valueBits)).2

/-! ### initialisers -/

/-- Replace `X_Init(pdu)` calls by the steps of that (current-API) initialiser. -/
def GenFormat.flatten (g : GenFormat) : List InitStep → Option (List InitStep)
  | [] => some []
  | .callInit fn :: rest =>
    match g.inits.find? (fun i => i.fn == fn && !i.legacy), g.flatten rest with
    | some i, some r =>
      if i.steps.all (fun st => match st with | .callInit _ => false | _ => true) then some (i.steps ++ r) else none
    | _, _ => none
  | st :: rest => (g.flatten rest).map (st :: ·)

/-- One (flattened) initialiser step on a non-NULL PDU; `none` = not understood.
    `param` is the value of the initialiser's extra parameter, if it has one. -/
def InitStep.run (g : GenFormat) (e : Endian) (pdu param : Nat) (st : InitStep) (m : Mem) : Option Mem :=
  match st with
  | .memset0 _ len => some (zeroFill m pdu len)
  | .setField fn _ fieldVal value =>
    match g.findSetter fn with
    | some x => if x.field.isNone then some (x.run g.table e m (some pdu) fieldVal value) else none
    | none => none
  | .setConst fn value =>
    match g.findSetter fn with
    | some x => if x.field.isSome then some (x.run g.table e m (some pdu) 0 value) else none
    | none => none
  | .setParam fn bits =>
    match g.findSetter fn with
    | some x => if x.field.isSome then some (x.run g.table e m (some pdu) 0 (param % 2 ^ bits)) else none
    | none => none
  | .checkedSet fn _ fieldVal value =>
    -- `res = legacy_set(pdu, FIELD, CONST); if (res < 0) return res;` with a valid FIELD
    match g.legacy.find? (fun l => l.fn == fn && !l.isGet) with
    | some l =>
      match g.findSetter l.fwd, l.bound with
      | some x, some b =>
        if x.field.isNone ∧ fieldVal < b then
          some (x.run g.table e m (some pdu) fieldVal (value % 2 ^ l.valBits)) else none
      | _, _ => none
    | none => none
  | .callInit _ => none

def runSteps (g : GenFormat) (e : Endian) (pdu param : Nat) : List InitStep → Mem → Option Mem
  | [], m => some m
  | st :: rest, m => (st.run g e pdu param m).bind (runSteps g e pdu param rest)

/-- Run an initialiser: resulting memory and return value (0 for `void`). -/
def Init.run (i : Init) (g : GenFormat) (e : Endian) (m : Mem) (pdu : Option Nat) (param : Nat) :
    Option (Mem × Int) :=
  match pdu with
  | none => some (m, if i.legacy then i.err else 0)
  | some p =>
    match g.flatten i.steps with
    | some steps => (runSteps g e p param steps m).map (fun m' => (m', if i.legacy then i.ok else 0))
    | none => none

end O1722
