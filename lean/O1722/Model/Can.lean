/-
  Model/Can.lean — hand transcription of the algorithmic functions of src/avtp/acf/Can.c and
  src/avtp/acf/CanBrief.c (`Avtp_Can_SetPayload`, `Avtp_Can_Finalize`,
  `Avtp_Can_CreateAcfMessage`, `Avtp_Can_GetCanPayloadLength`, `Avtp_CanBrief_SetPayload`,
  `Avtp_CanBrief_Finalize`), C integer conversions included.

  Field writes are expressed through the Spec's reference writer on the Spec's field of that
  name: that `Avtp_Can_SetField(pdu, AVTP_CAN_FIELD_X, v)` *is* that write is C02's obligation
  for Can.c / CanBrief.c.  `pdu->payload` is `pdu + headerLen` (C03's obligation).
  Tie to the C text: correspondence check (harness/can.c vs the driver).
-/
import O1722.Spec.Formats

namespace O1722
open Spec

/-- `X_SetField(pdu, <field named `name`>, v)` for a `uint64_t` argument `v`. -/
def setNamed (s : FormatSpec) (m : Mem) (pdu : Nat) (name : String) (v : Nat) : Mem :=
  match s.fieldNamed name with
  | some fs => specSet m pdu fs.first fs.width ((v % 2 ^ 64) % 2 ^ fs.width)
  | none => m

def getNamed (s : FormatSpec) (m : Mem) (pdu : Nat) (name : String) : Nat :=
  match s.fieldNamed name with
  | some fs => specGet m pdu fs.first fs.width
  | none => 0

/-- `memcpy(pdu->payload, payload, payload_length)`; the list is the `payload_length` source
    bytes. -/
def canSetPayload (s : FormatSpec) (m : Mem) (pdu : Nat) (payload : List Byte) : Mem :=
  m.write (pdu + s.headerLen) payload

/-- `Avtp_Can_Finalize` / `Avtp_CanBrief_Finalize` (`len` is the `uint16_t` argument);
    returns the memory and `avtpCanLength` (the brief variant returns it). -/
def canFinalize (s : FormatSpec) (m : Mem) (pdu len : Nat) : Mem × Nat :=
  let pad := (4 - len % 4) % 256                       -- uint8_t padSize
  let total0 := (s.headerLen + len) % 2 ^ 32           -- uint32_t avtpCanLength
  if len % 4 ≠ 0 then
    let m1 := zeroFill m (pdu + s.headerLen + len) pad -- memset(pdu->payload + len, 0, padSize)
    let total := (total0 + pad) % 2 ^ 32
    let m2 := setNamed s m1 pdu "ACF_MSG_LENGTH" (total / 4)
    (setNamed s m2 pdu "PAD" pad, total)
  else
    let m2 := setNamed s m pdu "ACF_MSG_LENGTH" (total0 / 4)
    (setNamed s m2 pdu "PAD" pad, total0)

/-- `Avtp_Can_CreateAcfMessage` / `Avtp_CanBrief_SetPayload`: `frameId` is a `uint32_t`,
    `payload.length` the `uint16_t` length, `variant` the enum argument (cast to `uint8_t`). -/
def canCreate (s : FormatSpec) (m : Mem) (pdu frameId : Nat) (payload : List Byte) (variant : Nat) :
    Mem × Nat :=
  let m1 := canSetPayload s m pdu payload
  let eff := if frameId > 0x7ff then 1 else 0
  let m2 := setNamed s m1 pdu "EFF" eff
  let m3 := setNamed s m2 pdu "CAN_IDENTIFIER" frameId
  let m4 := setNamed s m3 pdu "FDF" (variant % 256)
  canFinalize s m4 pdu payload.length

/-- `Avtp_Can_GetCanPayloadLength`: all three locals are `uint8_t`. -/
def canPayloadLength (s : FormatSpec) (m : Mem) (pdu : Nat) : Nat :=
  let l := ((getNamed s m pdu "ACF_MSG_LENGTH" % 2 ^ 16) * 4) % 256
  let p := getNamed s m pdu "PAD" % 256
  (l + 512 - s.headerLen - p) % 256

end O1722
