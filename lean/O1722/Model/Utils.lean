/-
  Model/Utils.lean — hand transcription of src/avtp/Utils.c (Avtp_GetField / Avtp_SetField)
  and of the parts of include/avtp/Byteorder.h they use, as total pure functions over a
  byte memory.  The C control flow and the C integer conversions are kept:
    * `uint8_t` locals are reduced `% 256` where C converts,
    * the `uint32_t` mask / partial value are reduced `% 2^32`,
    * the `uint64_t` accumulator is reduced `% 2^64`,
    * the quadlet is moved between the PDU and a `uint32_t` object with `memcpy` (a 4-byte
      access of alignment 1); the value of that object depends on the host byte order `e`;
      `Avtp_BeToCpu32` / `Avtp_CpuToBe32` are the helpers the header selects for that host.
  Every memory access is appended to an access log (address, width, whether it is made
  through a typed `uintN_t*` lvalue or bytewise, read or write).
  Tie to the C text: correspondence check (harness/fields.c vs the driver).
-/
import O1722.Spec.Wire

namespace O1722

inductive Endian | little | big
  deriving DecidableEq, Repr

/-- One memory access as the C code performs it. `align` is the alignment the access
    *assumes*: `width` for an access through a `uintN_t*` lvalue, 1 for byte/memcpy. -/
structure Access where
  addr  : Nat
  width : Nat
  align : Nat
  write : Bool
  deriving DecidableEq, Repr

/-- A field descriptor (`Avtp_FieldDescriptor_t`). -/
structure Desc where
  quadlet : Nat
  offset  : Nat
  bits    : Nat
  deriving DecidableEq, Repr

/-! ### Byteorder.h -/

/-- `Avtp_Bswap16`, mask-and-shift as written in the header: the operand is promoted to
    `unsigned int`, left shifts wrap at 32 bits, the result is converted to `uint16_t`. -/
def bswap16 (x : Nat) : Nat :=
  (((x &&& 65280) >>> 8) ||| (((x &&& 255) <<< 8) % 2 ^ 32)) % 2 ^ 16

/-- `Avtp_Bswap32` (all arithmetic in `unsigned int`). -/
def bswap32 (x : Nat) : Nat :=
  ((x &&& 4278190080) >>> 24) ||| ((x &&& 16711680) >>> 8)
    ||| (((x &&& 65280) <<< 8) % 2 ^ 32) ||| (((x &&& 255) <<< 24) % 2 ^ 32)

/-- `Avtp_Bswap64` (all arithmetic in `unsigned long`). -/
def bswap64 (x : Nat) : Nat :=
  ((x &&& 18374686479671623680) >>> 56) ||| ((x &&& 71776119061217280) >>> 40)
    ||| ((x &&& 280375465082880) >>> 24) ||| ((x &&& 1095216660480) >>> 8)
    ||| (((x &&& 4278190080) <<< 8) % 2 ^ 64) ||| (((x &&& 16711680) <<< 24) % 2 ^ 64)
    ||| (((x &&& 65280) <<< 40) % 2 ^ 64) ||| (((x &&& 255) <<< 56) % 2 ^ 64)

/-- `Avtp_BeToCpuN` = `Avtp_CpuToBeN`: swap on a little-endian host, identity on a
    big-endian one (the two `#if` branches of Byteorder.h). -/
def beCpu16 (e : Endian) (x : Nat) : Nat := match e with | .little => bswap16 x | .big => x
def beCpu32 (e : Endian) (x : Nat) : Nat := match e with | .little => bswap32 x | .big => x
def beCpu64 (e : Endian) (x : Nat) : Nat := match e with | .little => bswap64 x | .big => x
/-- `Avtp_LeToCpuN` = `Avtp_CpuToLeN`. -/
def leCpu16 (e : Endian) (x : Nat) : Nat := match e with | .little => x | .big => bswap16 x
def leCpu32 (e : Endian) (x : Nat) : Nat := match e with | .little => x | .big => bswap32 x
def leCpu64 (e : Endian) (x : Nat) : Nat := match e with | .little => x | .big => bswap64 x

/-! ### typed loads / stores on a host of byte order `e` -/

/-- Big-endian composition of `n` bytes at `a`. -/
def beN (m : Mem) (a : Nat) : Nat → Nat
  | 0 => 0
  | n + 1 => 256 * beN m a n + (m (a + n)).val

/-- Little-endian composition of `n` bytes at `a`. -/
def leN (m : Mem) (a : Nat) : Nat → Nat
  | 0 => 0
  | n + 1 => (m a).val + 256 * leN m (a + 1) n

/-- `*(uintN_t*)a` on a host of byte order `e` (`k` bytes). -/
def load (e : Endian) (k : Nat) (m : Mem) (a : Nat) : Nat :=
  match e with | .little => leN m a k | .big => beN m a k

/-- `*(uintN_t*)a = x` on a host of byte order `e`. -/
def store (e : Endian) (k : Nat) (m : Mem) (a x : Nat) : Mem :=
  match e with | .little => m.write a (bytesLE k x) | .big => m.write a (bytesBE k x)

/-! ### Avtp_GetField -/

/-- `quadletBits` of one loop iteration (`MIN(...)` converted to `uint8_t`). -/
def quadletBits (d : Desc) (processed : Nat) : Nat :=
  (if processed = 0 then min (32 - d.offset) (d.bits - processed)
   else min 32 (d.bits - processed)) % 256

/-- `quadletShift` of one loop iteration. -/
def quadletShift (d : Desc) (processed qbits : Nat) : Nat :=
  (if processed = 0 then 32 - qbits - d.offset else 32 - qbits) % 256

/-- `uint32_t quadletMask = ((1ULL << quadletBits) - 1ULL) << quadletShift;` -/
def quadletMask (qbits qshift : Nat) : Nat :=
  ((((1 <<< qbits) - 1) <<< qshift) % 2 ^ 64) % 2 ^ 32

/-- The `while` loop of `Avtp_GetField`; `fuel` bounds the iterations, the state is
    `(quadletOffset, processedBits, result, log)`. -/
def getLoop (e : Endian) (d : Desc) (m : Mem) (pdu : Nat) :
    Nat → Nat → Nat → Nat → List Access → Nat × List Access
  | 0, _, _, res, log => (res, log)
  | fuel + 1, qo, pb, res, log =>
    if pb < d.bits then
      let qid := (d.quadlet + qo) % 256
      let qbits := quadletBits d pb
      let qshift := quadletShift d pb qbits
      let mask := quadletMask qbits qshift
      let addr := pdu + qid * 4
      let host := beCpu32 e (load e 4 m addr)
      let part := (host &&& mask) >>> qshift
      let res' := res ||| ((part <<< (d.bits - pb - qbits)) % 2 ^ 64)
      getLoop e d m pdu fuel ((qo + 1) % 256) ((pb + qbits) % 256) res'
        (log ++ [⟨addr, 4, 1, false⟩])
    else (res, log)

/-- Number of loop iterations that always suffices for a valid descriptor
    (the first consumes at least one bit, every later one 32 or the rest). -/
def loopFuel : Nat := 4

/-- `Avtp_GetField(fieldDescriptors, numFields, pdu, field)`; `pdu = none` is NULL.
    `field` and `numFields` are the `uint8_t` parameter values (already converted). -/
def getFieldLog (e : Endian) (tbl : List Desc) (numFields : Nat) (m : Mem)
    (pdu : Option Nat) (field : Nat) : Nat × List Access :=
  match pdu with
  | none => (0, [])
  | some p =>
    if field < numFields then
      match tbl[field]? with
      | some d => getLoop e d m p loopFuel 0 0 0 []
      | none => (0, [])      -- indexing past the table: excluded by `numFields = tbl.length`
    else (0, [])

def getField (e : Endian) (tbl : List Desc) (numFields : Nat) (m : Mem)
    (pdu : Option Nat) (field : Nat) : Nat :=
  (getFieldLog e tbl numFields m pdu field).1

/-! ### Avtp_SetField -/

/-- The `while` loop of `Avtp_SetField`. -/
def setLoop (e : Endian) (d : Desc) (pdu value : Nat) :
    Nat → Nat → Nat → Mem → List Access → Mem × List Access
  | 0, _, _, m, log => (m, log)
  | fuel + 1, qo, pb, m, log =>
    if pb < d.bits then
      let qid := (d.quadlet + qo) % 256
      let qbits := quadletBits d pb
      let qshift := quadletShift d pb qbits
      let part := (value >>> (d.bits - pb - qbits)) % 2 ^ 32
      let mask := quadletMask qbits qshift
      let addr := pdu + qid * 4
      let host := beCpu32 e (load e 4 m addr)
      let host' := (host &&& (mask ^^^ (2 ^ 32 - 1))) ||| (((part <<< qshift) % 2 ^ 32) &&& mask)
      let m' := store e 4 m addr (beCpu32 e host')
      setLoop e d pdu value fuel ((qo + 1) % 256) ((pb + qbits) % 256) m'
        (log ++ [⟨addr, 4, 1, false⟩, ⟨addr, 4, 1, true⟩])
    else (m, log)

/-- `Avtp_SetField(fieldDescriptors, numFields, pdu, field, value)`, `value < 2^64`. -/
def setFieldLog (e : Endian) (tbl : List Desc) (numFields : Nat) (m : Mem)
    (pdu : Option Nat) (field value : Nat) : Mem × List Access :=
  match pdu with
  | none => (m, [])
  | some p =>
    if field < numFields then
      match tbl[field]? with
      | some d => setLoop e d p (value % 2 ^ 64) loopFuel 0 0 m []
      | none => (m, [])
    else (m, [])

def setField (e : Endian) (tbl : List Desc) (numFields : Nat) (m : Mem)
    (pdu : Option Nat) (field value : Nat) : Mem :=
  (setFieldLog e tbl numFields m pdu field value).1

end O1722
