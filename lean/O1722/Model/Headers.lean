/-
  Model/Headers.lean — a model of C name binding across public headers (each protected by
  `#pragma once`): what a header introduces, which identifiers it uses, which headers it
  depends on.  Names and meanings are interned as numbers by the translator (equal strings ↔
  equal numbers) and every list is emitted sorted, so that compatibility of two headers is a
  linear merge the kernel evaluates cheaply.
-/
namespace O1722

structure Hdr where
  id     : Nat
  name   : String
  /-- (identifier, canonical meaning), sorted by identifier: macros with their body,
      enumerators with their value, typedef names with their type, struct/union/enum tags
      with their members, functions with their type -/
  intro  : List (Nat × Nat)
  /-- identifiers (among `intro`) that are macros, sorted -/
  macros : List Nat
  /-- identifier tokens the header's declarations and macro bodies use but the header does
      not itself define, sorted -/
  uses   : List Nat
  /-- headers it includes, transitively (they always precede it in a translation unit) -/
  deps   : List Nat
  /-- effects that outlive the header other than name bindings — an unbalanced
      `#pragma pack(push)`, any other state-setting `#pragma`, an `#undef` —, as found in its
      text.  The name-binding model is only adequate for headers without any: the instance
      obligation `headers_leave_no_state` requires this list to be empty for every header. -/
  leaks  : List String := []
  deriving Repr, DecidableEq

def lookupNat (l : List (Nat × Nat)) (n : Nat) : Option Nat :=
  match l with
  | [] => none
  | (k, v) :: rest => if k == n then some v else lookupNat rest n

/-- strictly increasing keys -/
def keysSorted : List (Nat × Nat) → Bool
  | [] => true
  | [_] => true
  | a :: b :: rest => decide (a.1 < b.1) && keysSorted (b :: rest)

def natsSorted : List Nat → Bool
  | [] => true
  | [_] => true
  | a :: b :: rest => decide (a < b) && natsSorted (b :: rest)

/-- Merge of two key-sorted tables: is there a key in both with different values?
    (`fuel` ≥ sum of the lengths; exhaustion answers `true`, the safe side.) -/
def mergeClash : Nat → List (Nat × Nat) → List (Nat × Nat) → Bool
  | 0, _, _ => true
  | _ + 1, [], _ => false
  | _ + 1, _, [] => false
  | f + 1, (k1, v1) :: r1, (k2, v2) :: r2 =>
    if k1 < k2 then mergeClash f r1 ((k2, v2) :: r2)
    else if k2 < k1 then mergeClash f ((k1, v1) :: r1) r2
    else (v1 != v2) || mergeClash f r1 r2

/-- Merge of two sorted lists: do they share an element? -/
def meets : Nat → List Nat → List Nat → Bool
  | 0, _, _ => true
  | _ + 1, [], _ => false
  | _ + 1, _, [] => false
  | f + 1, x :: xs, y :: ys =>
    if x < y then meets f xs (y :: ys)
    else if y < x then meets f (x :: xs) ys
    else true

/-- a name introduced by both with different meanings (redefinition / changed value) -/
def clash (a b : Hdr) : Bool := mergeClash (a.intro.length + b.intro.length + 1) a.intro b.intro

/-- a macro of `a` is an identifier that `b` uses although `b` does not depend on `a`:
    including `a` first rewrites `b`'s declarations -/
def rewrites (a b : Hdr) : Bool :=
  !b.deps.contains a.id && meets (a.macros.length + b.uses.length + 1) a.macros b.uses

def compat (a b : Hdr) : Bool := !clash a b && !rewrites a b && !rewrites b a

/-- Process one more header of a translation unit (headers already expanded so that every
    header appears once, after the headers it includes). -/
def addHdr (seen : List Hdr) (h : Hdr) : Option (List Hdr) :=
  if seen.all (fun a => compat a h) then some (seen ++ [h]) else none

def includeAll (hs : List Hdr) : Option (List Hdr) := hs.foldlM addHdr []

/-- The meaning a name has after including `hs`: that of its first definition. -/
def meaningIn (hs : List Hdr) (n : Nat) : Option Nat := lookupNat (hs.flatMap (·.intro)) n

end O1722
