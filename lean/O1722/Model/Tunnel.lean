/-
  Model/Tunnel.lean — hand model of the example CAN tunnel:
  examples/acf-can/acf-can-talker.c (`init_cf_pdu`, `prepare_acf_packet`, `update_cf_length`
  and the packet assembly of `main`) and examples/acf-can/acf-can-listener.c (`new_packet`),
  over the library Models (canCreate, setNamed/getNamed on the Spec's fields).

  A CAN frame is what the talker reads from / the listener writes to the CAN socket:
  `can_id` with the Linux flag bits (EFF 0x80000000, RTR 0x40000000), `len`, the CAN-FD
  `flags` byte (BRS 0x01, ESI 0x02, FDF 0x04) and the data array.
  Tie to the C text: correspondence check (harness/ex/ex_can_main.c runs the real `main`s
  in-process through virtual sockets).
-/
import O1722.Model.Can

namespace O1722
open Spec

structure CanFrame where
  canId : Nat            -- 32-bit can_id incl. flag bits
  len   : Nat            -- payload length in bytes
  flags : Nat            -- canfd_frame.flags (0 for classic frames)
  data  : List Byte      -- at least `len` bytes
  deriving Repr, DecidableEq

def CAN_EFF_FLAG : Nat := 0x80000000
def CAN_RTR_FLAG : Nat := 0x40000000
def CAN_EFF_MASK : Nat := 0x1FFFFFFF
def CANFD_BRS : Nat := 1
def CANFD_ESI : Nat := 2
def CANFD_FDF : Nat := 4

structure TunnelCfg where
  tscf : Bool
  udp  : Bool
  fd   : Bool
  deriving Repr, DecidableEq

def bit01 (x mask : Nat) : Nat := if x &&& mask ≠ 0 then 1 else 0

/-- `prepare_acf_packet`: one ACF-CAN message at `pdu`; returns memory and the message
    length in bytes (`Avtp_Can_GetAcfMsgLength(pdu)*4`). -/
def talkMsg (cfg : TunnelCfg) (ts : Nat) (m : Mem) (pdu : Nat) (f : CanFrame) : Mem × Nat :=
  let m1 := Spec.can.canonical false 0 (zeroFill m pdu 16) pdu      -- memset + Avtp_Can_Init
  let m2 := setNamed Spec.can m1 pdu "MESSAGE_TIMESTAMP" ts
  let m3 := setNamed Spec.can m2 pdu "MTV" 1
  let r := canCreate Spec.can m3 pdu (f.canId &&& CAN_EFF_MASK) (f.data.take (f.len % 256)) (if cfg.fd then 1 else 0)
  let m4 := setNamed Spec.can r.1 pdu "RTR" (bit01 f.canId CAN_RTR_FLAG)
  let m5 := setNamed Spec.can m4 pdu "EFF" (bit01 f.canId CAN_EFF_FLAG)
  let m6 := if cfg.fd then
      setNamed Spec.can (setNamed Spec.can m5 pdu "BRS" (bit01 f.flags CANFD_BRS)) pdu "ESI" (bit01 f.flags CANFD_ESI)
    else m5
  (m6, getNamed Spec.can m6 pdu "ACF_MSG_LENGTH" * 4)

def cfSpec (cfg : TunnelCfg) : FormatSpec := if cfg.tscf then Spec.tscf else Spec.ntscf
def cfLenField (cfg : TunnelCfg) : String := if cfg.tscf then "STREAM_DATA_LENGTH" else "NTSCF_DATA_LENGTH"
def STREAM_ID : Nat := 0xAABBCCDDEEFF0001

/-- `init_cf_pdu` -/
def talkCfHeader (cfg : TunnelCfg) (seq : Nat) (m : Mem) (pdu : Nat) : Mem :=
  let s := cfSpec cfg
  let m1 := s.canonical false 0 (zeroFill m pdu s.headerLen) pdu
  let m2 := if cfg.tscf then setNamed s m1 pdu "TU" 0 else m1
  let m3 := setNamed s m2 pdu "SEQUENCE_NUM" (seq % 256)
  setNamed s m3 pdu "STREAM_ID" STREAM_ID

def MAX_PDU_SIZE : Nat := 1500
def maxMsgSize (cfg : TunnelCfg) : Nat := 16 + (if cfg.fd then 64 else 8)

/-- The talker's packing loop `while (i < num_acf_msgs && pdu_length + max_msg_size <=
    MAX_PDU_SIZE)`: one message per frame read from the CAN socket.  Returns the memory, the
    end of the last message, the frames not consumed, and whether the loop *completed*
    (`false`: the CAN socket ran dry inside the loop — the real talker blocks in `read`). -/
def talkLoop (cfg : TunnelCfg) (count : Nat) : Mem → Nat → Nat → List (Nat × CanFrame) →
    Mem × Nat × List (Nat × CanFrame) × Bool
  | m, at_, i, frames =>
    if i < count ∧ at_ + maxMsgSize cfg ≤ MAX_PDU_SIZE then
      match frames with
      | [] => (m, at_, [], false)
      | (ts, f) :: rest =>
        let r := talkMsg cfg ts m at_ f
        talkLoop cfg count r.1 (at_ + r.2) (i + 1) rest
    else (m, at_, frames, true)
termination_by _ _ _ frames => frames.length

/-- One iteration of the talker's sending loop: the packet bytes handed to `sendto`, the
    frames left over, and whether a packet was sent at all.
    `m` is the (stale) content of the talker's 1500-byte `pdu` array, at address 0. -/
def talkPacket (cfg : TunnelCfg) (count udpSeq seq : Nat) (m : Mem) (frames : List (Nat × CanFrame)) :
    List Byte × List (Nat × CanFrame) × Bool :=
  let m0 := if cfg.udp then setNamed Spec.udp m 0 "ENCAPSULATION_SEQ_NO" (udpSeq % 2 ^ 32) else m
  let cfAt := if cfg.udp then 4 else 0
  let m1 := talkCfHeader cfg seq m0 cfAt
  let hl := (cfSpec cfg).headerLen
  let r := talkLoop cfg count m1 (cfAt + hl) 0 frames
  let pduLen := r.2.1 % 2 ^ 16                       -- uint16_t pdu_length
  let cfLen := (r.2.1 - cfAt) % 2 ^ 16               -- uint16_t cf_length (includes the header)
  let m2 := setNamed (cfSpec cfg) r.1 cfAt (cfLenField cfg) (cfLen - hl)
  (Mem.read m2 0 pduLen, r.2.2.1, r.2.2.2)

/-- What the listener hands to `write`: (can_id, len, flags, data[0..len)). -/
structure CanOut where
  canId : Nat
  len   : Nat
  flags : Nat
  data  : List Byte
  deriving Repr, DecidableEq

def maxData (cfg : TunnelCfg) : Nat := if cfg.fd then 64 else 8

/-- the body of `new_packet`'s while loop for the message at `at_`, with `rem` announced ACF
    octets not yet consumed; `none` = `return 0` (packet dropped from here on) -/
def listenMsg (cfg : TunnelCfg) (m : Mem) (at_ rem : Nat) : Option (CanOut × Nat) :=
  if getNamed Spec.acfCommon m at_ "ACF_MSG_TYPE" ≠ 1 then none else
  let id := getNamed Spec.can m at_ "CAN_IDENTIFIER"
  let msgLen := (getNamed Spec.can m at_ "ACF_MSG_LENGTH" * 4) % 2 ^ 16
  let plen := canPayloadLength Spec.can m at_
  if msgLen < 16 ∨ msgLen > rem ∨ 16 + plen > msgLen ∨ plen > maxData cfg then none else
  let eff := getNamed Spec.can m at_ "EFF"
  if eff = 0 ∧ id > 0x7FF then none else
  let id1 := if eff ≠ 0 then id ||| CAN_EFF_FLAG else id
  let id2 := if getNamed Spec.can m at_ "RTR" ≠ 0 then id1 ||| CAN_RTR_FLAG else id1
  let flags := if cfg.fd then
      (if getNamed Spec.can m at_ "BRS" ≠ 0 then CANFD_BRS else 0)
      ||| (if getNamed Spec.can m at_ "FDF" ≠ 0 then CANFD_FDF else 0)
      ||| (if getNamed Spec.can m at_ "ESI" ≠ 0 then CANFD_ESI else 0)
    else 0
  some (⟨id2, plen, flags, Mem.read m (at_ + 16) plen⟩, msgLen)

/-- The ACF walk: one event per message header inspected — the buffer offset of the message
    and the frame written for it (`none`: message rejected, walk ends). -/
def listenLoop (cfg : TunnelCfg) (m : Mem) (base msgLength : Nat) : Nat → Nat → List (Nat × Option CanOut)
  | 0, _ => []
  | fuel + 1, done =>
    if done < msgLength then
      if msgLength - done < 16 then [] else
      match listenMsg cfg m (base + done) (msgLength - done) with
      | some (o, l) => (base + done, some o) :: listenLoop cfg m base msgLength fuel (done + l)
      | none => [(base + done, none)]
    else []

/-- `new_packet` on a datagram of `n` octets received into the listener's array (address 0;
    octets from `n` on are whatever the array held before): the walk events. -/
def listenWalk (cfg : TunnelCfg) (m : Mem) (n : Nat) : List (Nat × Option CanOut) :=
  if cfg.udp ∧ n < 4 then [] else
  let cfAt := if cfg.udp then 4 else 0
  if n < cfAt + 12 then [] else
  let subtype := getNamed Spec.commonHeader m cfAt "SUBTYPE"
  if subtype = 0x05 then
    if n < cfAt + 24 then [] else
    let len := getNamed Spec.tscf m cfAt "STREAM_DATA_LENGTH"
    if cfAt + 24 + len > n then [] else listenLoop cfg m (cfAt + 24) len 400 0
  else if subtype = 0x82 then
    let len := getNamed Spec.ntscf m cfAt "NTSCF_DATA_LENGTH"
    if cfAt + 12 + len > n then [] else listenLoop cfg m (cfAt + 12) len 400 0
  else []

/-- the frames handed to `write`, in order -/
def listenPacket (cfg : TunnelCfg) (m : Mem) (n : Nat) : List CanOut :=
  (listenWalk cfg m n).filterMap (·.2)

/-- The talker's endless sending loop on the frames waiting on the CAN socket: the datagrams
    sent and the frames still waiting when the talker blocks in `read`.  `bufs k` is the
    content of the talker's buffer before iteration `k` (in the C program: what the previous
    iteration left there; the packet does not depend on it). -/
def talkStream (cfg : TunnelCfg) (count : Nat) (bufs : Nat → Mem) :
    Nat → Nat → Nat → List (Nat × CanFrame) → List (List Byte) × List (Nat × CanFrame)
  | 0, _, _, frames => ([], frames)
  | fuel + 1, udpSeq, seq, frames =>
    let r := talkPacket cfg count udpSeq seq (bufs fuel) frames
    if r.2.2 = true ∧ r.2.1.length < frames.length then
      let rest := talkStream cfg count bufs fuel (udpSeq + 1) (seq + 1) r.2.1
      (r.1 :: rest.1, rest.2)
    else ([], frames)

/-- The listener's receive buffer after `recv` delivered `pkt`: the datagram, then whatever
    was there before (`stale`). -/
def recvBuf (stale : Byte) (pkt : List Byte) : Mem := fun a => pkt.getD a stale

end O1722
