/-
  Model/Vss.lean — hand transcription of the algorithmic functions of
  src/avtp/acf/custom/Vss.c: `Avtp_Vss_Pad`, `Avtp_Vss_CalcVssPathLength`,
  `Avtp_Vss_Set/GetVssPath`, `Avtp_Vss_Set/GetVssData`, `Avtp_Vss_SerializeStringArray`,
  `Avtp_Vss_GetVSSDataStringArrayLength`, `Avtp_Vss_DeserializeStringArray`.

  The 24 `case`s of the codec are instances of three access patterns and are modelled as
  such (`DtClass`): a k-byte scalar, a length-prefixed byte blob, a length-prefixed array of
  k-byte elements.  Multi-byte integers are moved between the PDU and `uintN_t` objects with
  `memcpy` (`load`/`store` of the object's bytes on a host of byte order `e`) and converted
  with the Byteorder helper; `uint16_t` arithmetic wraps.  Caller objects
  (`VssData_t`, `VssPath_t`, the element arrays) are abstracted to values: `CVal` in,
  `DVal` out; a NULL destination is `haveDst = false`.
  Tie to the C text: correspondence check (harness/vssops.c vs the driver).
-/
import O1722.Spec.Formats
import O1722.Spec.Vss
import O1722.Model.Utils
import O1722.Model.Can

namespace O1722
open Spec

/-! ### Avtp_Vss_Pad -/

/-- `Avtp_Vss_Pad(vss_pdu, vss_length)`.  `scale` is the pointee size of the pointer the
    `memset` destination is computed from (`vss_pdu + vss_length`): 1 for a byte pointer,
    `sizeof(Avtp_Vss_t)` for the typed pointer. -/
def vssPad (scale : Nat) (m : Mem) (pdu len : Nat) : Mem :=
  let len := len % 2 ^ 16
  let pad := ((4 - len % 4) % 4) % 256
  let m1 := if len % 4 ≠ 0 then zeroFill m (pdu + scale * len) pad else m
  let m2 := setNamed Spec.vss m1 pdu "ACF_MSG_LENGTH" ((len + pad) / 4)
  setNamed Spec.vss m2 pdu "PAD" pad

/-! ### paths -/

def vssAddrMode (m : Mem) (pdu : Nat) : Nat := getNamed Spec.vss m pdu "ADDR_MODE"
def vssDatatype (m : Mem) (pdu : Nat) : Nat := getNamed Spec.vss m pdu "VSS_DATATYPE"

/-- `Vss_ReadBe16/32/64(a)`: `memcpy` of `k` bytes into a `uintN_t` object, then `BeToCpuN`
    (`k = 1`: a plain byte read). -/
def rdBe (e : Endian) (k : Nat) (m : Mem) (a : Nat) : Nat :=
  match k with
  | 1 => (m a).val
  | 2 => beCpu16 e (load e 2 m a)
  | 4 => beCpu32 e (load e 4 m a)
  | 8 => beCpu64 e (load e 8 m a)
  | _ => 0

/-- `Vss_WriteBe16/32/64(a, x)`: `CpuToBeN(x)` into a `uintN_t` object, then `memcpy` of its
    `k` bytes to `a` (`k = 1`: a plain byte store). -/
def wrBe (e : Endian) (k : Nat) (m : Mem) (a x : Nat) : Mem :=
  match k with
  | 1 => m.set a (Fin.ofNat 256 x)
  | 2 => store e 2 m a (beCpu16 e (x % 2 ^ 16))
  | 4 => store e 4 m a (beCpu32 e (x % 2 ^ 32))
  | 8 => store e 8 m a (beCpu64 e (x % 2 ^ 64))
  | _ => m

/-- `Avtp_Vss_CalcVssPathLength`: the result type is wide enough for 65535 + 2. -/
def vssCalcPathLength (e : Endian) (m : Mem) (pdu : Nat) : Nat :=
  let mode := vssAddrMode m pdu
  if mode = 1 then 4
  else if mode = 0 then rdBe e 2 m (pdu + vssFixedHeader) + 2
  else 0

/-- Argument of `Avtp_Vss_SetVssPath`: both union members as the caller set them. -/
structure CPath where
  pathLength : Nat          -- vss_interop_path.path_length (uint16_t)
  path : List Byte          -- the bytes at vss_interop_path.path (at least pathLength)
  staticId : Nat            -- vss_static_id_path (uint32_t)

/-- `Avtp_Vss_SetVssPath` -/
def vssSetPath (e : Endian) (m : Mem) (pdu : Nat) (p : CPath) : Mem :=
  let mode := vssAddrMode m pdu
  let a := pdu + vssFixedHeader
  if mode = 1 then wrBe e 4 m a p.staticId
  else if mode = 0 then (wrBe e 2 m a p.pathLength).write (a + 2) (p.path.take (p.pathLength % 2 ^ 16))
  else m

/-- Result of `Avtp_Vss_GetVssPath`: static id, or (length, bytes copied to the caller's
    buffer), or nothing written. -/
inductive DPath where
  | staticId (id : Nat)
  | interop (len : Nat) (bytes : List Byte)
  | none
  deriving Repr, DecidableEq

def vssGetPath (e : Endian) (m : Mem) (pdu : Nat) : DPath :=
  let mode := vssAddrMode m pdu
  let a := pdu + vssFixedHeader
  if mode = 1 then .staticId (rdBe e 4 m a)
  else if mode = 0 then
    let n := rdBe e 2 m a
    .interop n (Mem.read m (a + 2) n)
  else .none

/-! ### values -/

inductive DtClass where
  | scalar (k : Nat)
  | blob
  | elems (k : Nat)
  | reserved
  deriving Repr, DecidableEq

/-- Which access pattern `Avtp_Vss_Set/GetVssData` uses for a `vss_datatype` code. -/
def dtClass (code : Nat) : DtClass :=
  if code = 0 ∨ code = 1 ∨ code = 8 then .scalar 1
  else if code = 2 ∨ code = 3 then .scalar 2
  else if code = 4 ∨ code = 5 ∨ code = 9 then .scalar 4
  else if code = 6 ∨ code = 7 ∨ code = 0xA then .scalar 8
  else if code = 0xB ∨ code = 0x80 ∨ code = 0x81 ∨ code = 0x88 ∨ code = 0x8B then .blob
  else if code = 0x82 ∨ code = 0x83 then .elems 2
  else if code = 0x84 ∨ code = 0x85 ∨ code = 0x89 then .elems 4
  else if code = 0x86 ∨ code = 0x87 ∨ code = 0x8A then .elems 8
  else .reserved

/-- Argument of `Avtp_Vss_SetVssData`: the union member the datatype selects. -/
inductive CVal where
  | scalar (bits : Nat)
  | blob (dataLength : Nat) (data : List Byte)
  | elems (dataLength : Nat) (data : List Nat)
  deriving Repr

/-- the element loop `for (i = 0; i < data_length/k; i++) *((T*)(p+2)+i) = CpuToBe(data[i])` -/
def wrElems (e : Endian) (k : Nat) (m : Mem) (a : Nat) : List Nat → Mem
  | [] => m
  | x :: xs => wrElems e k (wrBe e k m a x) (a + k) xs

/-- `Avtp_Vss_SetVssData` -/
def vssSetData (e : Endian) (m : Mem) (pdu : Nat) (v : CVal) : Mem :=
  let a := pdu + vssFixedHeader + vssCalcPathLength e m pdu
  match dtClass (vssDatatype m pdu), v with
  | .scalar k, .scalar bits => wrBe e k m a bits
  | .blob, .blob len data => (wrBe e 2 m a len).write (a + 2) (data.take (len % 2 ^ 16))
  | .elems k, .elems len data => wrElems e k (wrBe e 2 m a len) (a + 2) (data.take ((len % 2 ^ 16) / k))
  | _, _ => m

/-- What `Avtp_Vss_GetVssData` leaves in the caller's objects. -/
inductive DVal where
  | scalar (bits : Nat)
  /-- reported `data_length`, and the bytes copied when a destination was supplied -/
  | blob (len : Nat) (data : Option (List Byte))
  | elems (len : Nat) (data : Option (List Nat))
  | none
  deriving Repr, DecidableEq

def rdElems (e : Endian) (k : Nat) (m : Mem) (a : Nat) : Nat → List Nat
  | 0 => []
  | n + 1 => rdBe e k m a :: rdElems e k m (a + k) n

/-- `Avtp_Vss_GetVssData`; `haveDst = false` models a NULL destination pointer. -/
def vssGetData (e : Endian) (m : Mem) (pdu : Nat) (haveDst : Bool) : DVal :=
  let a := pdu + vssFixedHeader + vssCalcPathLength e m pdu
  match dtClass (vssDatatype m pdu) with
  | .scalar k => .scalar (rdBe e k m a)
  | .blob =>
    let n := rdBe e 2 m a
    .blob n (if haveDst then some (Mem.read m (a + 2) n) else none)
  | .elems k =>
    let n := rdBe e 2 m a
    .elems n (if haveDst then some (rdElems e k m (a + 2) (n / k)) else none)
  | .reserved => .none

/-! ### string arrays -/

/-- `Avtp_Vss_SerializeStringArray`: writes the packed strings at `data` and returns the
    recorded `data_length` (a `uint16_t` accumulator). Each string is (data_length, bytes). -/
def vssSerialize (e : Endian) (m : Mem) (data : Nat) : List (Nat × List Byte) → Nat → Mem × Nat
  | [], total => (m, total)
  | (len, bytes) :: rest, total =>
    let m1 := (wrBe e 2 m data len).write (data + 2) (bytes.take (len % 2 ^ 16))
    vssSerialize e m1 (data + (len % 2 ^ 16) + 2) rest ((total + (len % 2 ^ 16) + 2) % 2 ^ 16)

/-- `Avtp_Vss_GetVSSDataStringArrayLength`: number of strings, converted to the return type
    of `retBits` bits; `fuel` bounds the walk (each step advances by ≥ 2 bytes).
    Also returns the addresses read. -/
def vssCountLoop (e : Endian) (m : Mem) (data total : Nat) : Nat → Nat → Nat → List Nat → Nat × List Nat
  | 0, _, idx, log => (idx, log)
  | fuel + 1, ptr, idx, log =>
    if ptr < total then
      let len := rdBe e 2 m (data + ptr)
      vssCountLoop e m data total fuel ((ptr + 2 + len) % 2 ^ 16) ((idx + 1) % 2 ^ 16)
        (log ++ [data + ptr, data + ptr + 1])
    else (idx, log)

def vssCount (e : Endian) (retBits : Nat) (m : Mem) (data total : Nat) : Nat × List Nat :=
  let r := vssCountLoop e m data (total % 2 ^ 16) 32768 0 0 []
  (r.1 % 2 ^ retBits, r.2)

/-- `Avtp_Vss_DeserializeStringArray(arr, strings, num)`: for each requested string the
    reported length and (if its destination is non-NULL) the bytes copied; plus the addresses
    read.  `advanceIdx` says whether the bound-check index is advanced in the loop. -/
def vssDeserialize (e : Endian) (advanceIdx : Bool) (m : Mem) (data total : Nat) :
    List Bool → Nat → Nat → List (Nat × Option (List Byte)) × List Nat
  | [], _, _ => ([], [])
  | haveDst :: rest, ptr, idx =>
    if idx ≥ total then ([], [])
    else
      let len := rdBe e 2 m (data + ptr)
      let out := (len, if haveDst then some (Mem.read m (data + ptr + 2) len) else none)
      let reads := [data + ptr, data + ptr + 1] ++ (if haveDst then (List.range len).map (· + data + ptr + 2) else [])
      let r := vssDeserialize e advanceIdx m data total rest (ptr + 2 + len)
                (if advanceIdx then (idx + 2 + len) % 2 ^ 16 else idx)
      (out :: r.1, reads ++ r.2)

end O1722
