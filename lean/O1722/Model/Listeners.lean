/-
  Model/Listeners.lean — hand models of the receive paths of the other example listeners:
  examples/hello-world/hello-world-listener.c, examples/acf-vss/acf-vss-listener.c,
  examples/cvf/cvf-listener.c, examples/aaf/aaf-listener.c and the CRF listener's media-clock
  bookkeeping (examples/crf/crf-listener.c).  Each is a function of the receive buffer `m`
  (datagram at address 0, whatever was there before behind it) and the received length `n`,
  returning what the listener prints / queues.  Header reads go through the Spec's fields
  (C01 ties the dedicated getters to them); the VSS path length is the Model of Vss.c.
  Tie to the C text: correspondence check (harness/ex/ex_listener_main.c runs the real
  `main`s in-process on generated datagram sequences, ASan+UBSan).
-/
import O1722.Model.Tunnel
import O1722.Model.Vss

namespace O1722
open Spec

def STREAM_ID_L : Nat := 0xAABBCCDDEEFF0001

/-- bytes up to (not including) the first NUL: what `printf("%.*s")` / `"%s"` prints -/
def cstr : List Byte → List Byte
  | [] => []
  | b :: bs => if b = 0 then [] else b :: cstr bs

def strBytes (s : String) : List Byte := s.toUTF8.toList.map (fun b => Fin.ofNat 256 b.toNat)

/-- offset of the ACF message behind the control-format header (the listeners treat every
    subtype other than TSCF as NTSCF) -/
def acfAt (udp : Bool) (m : Mem) : Nat :=
  let cfAt := if udp then 4 else 0
  cfAt + (if getNamed Spec.commonHeader m cfAt "SUBTYPE" = 0x05 then 24 else 12)

/-! ### hello-world listener: one loop iteration; the bytes printed to stdout -/

/-- what the iteration decides to print: offset and length of the text in the buffer, and the
    GPC code — or nothing -/
def helloPlan (udp : Bool) (m : Mem) (n : Nat) : Option (Nat × Nat × Nat) :=
  let cfAt := if udp then 4 else 0
  if n < cfAt + 12 then none else
  let at_ := acfAt udp m
  if n < at_ + 8 then none else
  if getNamed Spec.acfCommon m at_ "ACF_MSG_TYPE" ≠ 0x5 then none else
  let code := getNamed Spec.gpc m at_ "GPC_MSG_ID"
  let len4 := getNamed Spec.gpc m at_ "ACF_MSG_LENGTH" * 4
  if len4 ≤ 100 ∧ len4 ≥ 8 ∧ at_ + len4 ≤ n then some (at_ + 8, len4 - 8, code) else none

def helloRecv (udp : Bool) (m : Mem) (n : Nat) : List Byte :=
  match helloPlan udp m n with
  | some (o, l, code) => cstr (Mem.read m o l) ++ strBytes s!" : GPC Code {code}\n"
  | none => []

/-! ### ACF-VSS listener: one loop iteration; the bytes printed to stdout.
    A float value is printed as `#` + 8 hex digits of its IEEE bits (the check formats it). -/

def hexDigit (d : Nat) : Byte := Fin.ofNat 256 (if d < 10 then 48 + d else 87 + d)
def hex8 (x : Nat) : List Byte := (List.range 8).map (fun i => hexDigit (x / 16 ^ (7 - i) % 16))

/-- `printf("%d", (uint32_t)x)`: two's-complement reading of the 32-bit value -/
def showInt32 (x : Nat) : String := if x < 2 ^ 31 then toString x else "-" ++ toString (2 ^ 32 - x)

/-- what the iteration decides to decode: addressing mode, the octets of the path (length
    prefix included) and whether a float value behind it is decoded — or nothing -/
def vssPlan (udp : Bool) (m : Mem) (n : Nat) : Option (Nat × Nat × Nat × Bool) :=
  let cfAt := if udp then 4 else 0
  if n < cfAt + 12 then none else
  let at_ := acfAt udp m
  if n < at_ + 12 + 4 then none else
  let vssBytes := n - at_
  if getNamed Spec.acfCommon m at_ "ACF_MSG_TYPE" ≠ 0x42 then none else
  let mode := getNamed Spec.vss m at_ "ADDR_MODE"
  if mode ≠ 0 ∧ mode ≠ 1 then none else
  let pathBytes := vssCalcPathLength .little m at_
  if vssBytes < 12 + pathBytes then none else
  let dt := getNamed Spec.vss m at_ "VSS_DATATYPE"
  some (at_, mode, pathBytes, decide (dt = 0x9 ∧ vssBytes ≥ 12 + pathBytes + 4))

def vssRecv (udp : Bool) (m : Mem) (n : Nat) : List Byte :=
  match vssPlan udp m n with
  | none => []
  | some (at_, mode, pathBytes, withValue) =>
    let pathOut :=
      if mode = 0 then
        strBytes "VSS Path: " ++ cstr (Mem.read m (at_ + 14) (pathBytes - 2)) ++ strBytes ", "
      else strBytes ("VSS Path: " ++ showInt32 (rdBe .little 4 m (at_ + 12)) ++ ", ")
    if withValue then
      pathOut ++ strBytes "VSS Value: #" ++ hex8 (rdBe .little 4 m (at_ + 12 + pathBytes)) ++ strBytes "\n"
    else pathOut

/-! ### CVF listener: `new_packet`; the NAL unit queued for presentation (if any).
    The buffer is 1428 octets, pre-filled with 0x01; `recv` truncates longer datagrams. -/

def CVF_BUF : Nat := 24 + 4 + 1400

def cvfValid (m : Mem) : Bool :=
  getNamed Spec.cvf m 0 "SUBTYPE" = 0x3 && getNamed Spec.cvf m 0 "VERSION" = 0 &&
  getNamed Spec.cvf m 0 "TV" = 1 && getNamed Spec.cvf m 0 "STREAM_ID" = STREAM_ID_L &&
  getNamed Spec.cvf m 0 "FORMAT" = 0x2 && getNamed Spec.cvf m 0 "FORMAT_SUBTYPE" = 0x1

def cvfRecv (m : Mem) (n : Nat) : Option (List Byte) :=
  if !cvfValid m then none else
  let sdl := getNamed Spec.cvf m 0 "STREAM_DATA_LENGTH"
  if sdl < 4 then none else
  let h := (sdl - 4) % 2 ^ 16
  if h > 1400 ∨ n < 28 + h then none else
  some (Mem.read m 28 h)

/-! ### AAF listener: `new_packet`; the sample queued for presentation (if any).
    The buffer is exactly one PDU (28 octets), zeroed; `recv` truncates longer datagrams. -/

def AAF_PDU : Nat := 24 + 4

def aafValid (m : Mem) : Bool :=
  getNamed Spec.pcm m 0 "SUBTYPE" = 0x2 && getNamed Spec.pcm m 0 "VERSION" = 0 &&
  getNamed Spec.pcm m 0 "TV" = 1 && getNamed Spec.pcm m 0 "SP" = 0 &&
  getNamed Spec.pcm m 0 "STREAM_ID" = STREAM_ID_L && getNamed Spec.pcm m 0 "FORMAT" = 4 &&
  getNamed Spec.pcm m 0 "NSR" = 5 && getNamed Spec.pcm m 0 "CHANNELS_PER_FRAME" = 2 &&
  getNamed Spec.pcm m 0 "BIT_DEPTH" = 16 && getNamed Spec.pcm m 0 "STREAM_DATA_LENGTH" = 4

def aafRecv (m : Mem) (n : Nat) : Option (List Byte) :=
  if n ≠ AAF_PDU then none else
  if !aafValid m then none else
  some (Mem.read m 24 4)

/-- what a listener's buffer holds after `recv` of `pkt` into a `cap`-octet buffer pre-filled
    with `fill`, and the length `recv` returns -/
def recvInto (cap : Nat) (fill : Byte) (pkt : List Byte) : Mem × Nat :=
  (recvBuf fill (pkt.take cap), min pkt.length cap)

/-! ### CRF listener: the media-clock search of `handle_aaf_pdu` (`mclk_lookup`,
    `get_next_mclk_timestamp`).  State: queued timestamps, the previous one. -/

def MCLK_PERIOD : Nat := 125000
def MCLK_LOOKUP_MAX : Nat := 640

/-- `get_next_mclk_timestamp` (64-bit arithmetic) -/
def mclkNext (queue : List Nat) (prev : Nat) : Nat × List Nat :=
  match queue with
  | [] => ((prev + MCLK_PERIOD) % 2 ^ 64, [])
  | t :: rest => (t, rest)

/-- `mclk_lookup`: at most `fuel` timestamps are tried -/
def mclkLookup (avtp : Nat) : Nat → List Nat → Nat → Option Nat × List Nat × Nat
  | 0, q, prev => (none, q, prev)
  | fuel + 1, q, prev =>
    let r := mclkNext q prev
    if r.1 % 2 ^ 32 = avtp then (some r.1, r.2, r.1) else mclkLookup avtp fuel r.2 r.1

/-! ### CRF listener, AAF-listener mode: `aaf_listener_recv_pdu` with `handle_crf_pdu`,
    `handle_aaf_pdu`, `recover_mclk`, `get_next_mclk_timestamp`, `mclk_lookup`, `is_ts_aligned`.
    The buffer is 68 octets, zeroed before every `recv`. -/

structure CrfState where
  queue : List Nat := []
  prev : Nat := 0
  needLookup : Bool := true
  prevAligned : Bool := false
  deriving Repr, DecidableEq

def CRF_BUF : Nat := 68
def CRF_STREAM_ID : Nat := 0xAABBCCDDEEFF0002

def crfPduValid (m : Mem) : Bool :=
  getNamed Spec.commonHeader m 0 "VERSION" = 0 && getNamed Spec.crf m 0 "SV" = 1 &&
  getNamed Spec.crf m 0 "FS" = 0 && getNamed Spec.crf m 0 "TYPE" = 1 &&
  getNamed Spec.crf m 0 "STREAM_ID" = CRF_STREAM_ID && getNamed Spec.crf m 0 "PULL" = 0 &&
  getNamed Spec.crf m 0 "BASE_FREQUENCY" = 48000 && getNamed Spec.crf m 0 "CRF_DATA_LENGTH" = 48

def crfAafValid (m : Mem) : Bool :=
  getNamed Spec.commonHeader m 0 "VERSION" = 0 && getNamed Spec.pcm m 0 "TV" = 1 &&
  getNamed Spec.pcm m 0 "SP" = 0 && getNamed Spec.pcm m 0 "STREAM_ID" = STREAM_ID_L &&
  getNamed Spec.pcm m 0 "FORMAT" = 4 && getNamed Spec.pcm m 0 "NSR" = 5 &&
  getNamed Spec.pcm m 0 "CHANNELS_PER_FRAME" = 2 && getNamed Spec.pcm m 0 "BIT_DEPTH" = 16 &&
  getNamed Spec.pcm m 0 "STREAM_DATA_LENGTH" = 24

/-- `recover_mclk` (listener mode: no transit-time offset) -/
def recoverMclk (tsCrf prev : Nat) : List Nat :=
  (List.range 160).filterMap (fun idx =>
    let ts := (tsCrf + idx * MCLK_PERIOD) % 2 ^ 64
    if ts ≤ prev then none else some ts)

/-- `get_next_mclk_timestamp` on the listener state -/
def CrfState.next (st : CrfState) : Nat × CrfState :=
  match st.queue with
  | [] => let t := (st.prev + MCLK_PERIOD) % 2 ^ 64; (t, { st with prev := t, needLookup := true })
  | t :: rest => (t, { st with queue := rest, prev := t })

/-- `mclk_lookup` -/
def CrfState.lookup (avtp : Nat) : Nat → CrfState → Option Nat × CrfState
  | 0, st => (none, st)
  | fuel + 1, st =>
    let r := st.next
    if r.1 % 2 ^ 32 = avtp then (some r.1, r.2) else CrfState.lookup avtp fuel r.2

/-- `is_ts_aligned` (n = 0): `(int)(avtp − mclk)` within ±(int)(20833.3/4) -/
def tsAligned (mclk avtp : Nat) : Bool :=
  let d := (avtp + 2 ^ 32 - mclk) % 2 ^ 32
  d ≤ 5208 || 2 ^ 32 - 5208 ≤ d

/-- the media-clock timestamp `handle_aaf_pdu` pairs with the packet: by search when one is
    pending (`none`: budget exhausted, the timestamps tried stay consumed), else the next one -/
def crfAdvance (st : CrfState) (avtp : Nat) : Option Nat × CrfState :=
  if st.needLookup then
    let r := CrfState.lookup avtp MCLK_LOOKUP_MAX st
    (r.1, if r.1.isSome then { r.2 with needLookup := false } else r.2)
  else
    let r := st.next
    (some r.1, r.2)

/-- the line printed when the alignment state changes -/
def alignMsg (a : Bool) : List Byte :=
  strBytes (if a then "AAF Stream is aligned with common media clock\n"
            else "AAF Stream is not aligned with common media clock\n")

def crfListenerStep (st : CrfState) (pkt : List Byte) : CrfState × List Byte :=
  let r := recvInto CRF_BUF 0 pkt
  let m := r.1
  if r.2 ≠ 48 ∧ r.2 ≠ 68 then (st, []) else
  let subtype := getNamed Spec.commonHeader m 0 "SUBTYPE"
  if subtype = 0x4 then
    if crfPduValid m then ({ st with queue := st.queue ++ recoverMclk (beN m 20 8) st.prev }, []) else (st, [])
  else if subtype = 0x2 then
    if !crfAafValid m then (st, []) else
    let avtp := getNamed Spec.pcm m 0 "AVTP_TIMESTAMP"
    let adv := crfAdvance st avtp
    match adv.1 with
    | none => (adv.2, [])
    | some t =>
      let a := tsAligned (t % 2 ^ 32) avtp
      let out := if adv.2.prevAligned ≠ a then alignMsg a else []
      ({ adv.2 with prevAligned := a }, out)
  else (st, [])

/-! ### CRF listener, AAF-talker mode: `aaf_talker_recv_pdu` and `aaf_talker_tx_timeout`.
    The receive buffer is one CRF PDU (68 octets), zeroed; the max transit time `mtt` (ns, already
    rounded up to the media clock period) is added to recovered timestamps. -/

structure CrfTalkerState where
  clk : CrfState := {}
  firstAaf : Bool := true
  armed : Bool := false
  seq : Nat := 0
  deriving Repr, DecidableEq

def recoverMclkMtt (tsCrf prev mtt : Nat) : List Nat :=
  (List.range 160).filterMap (fun idx =>
    let ts := ((tsCrf + idx * MCLK_PERIOD) % 2 ^ 64 + mtt) % 2 ^ 64
    if ts ≤ prev then none else some ts)

def crfTalkerRecv (mtt : Nat) (st : CrfTalkerState) (pkt : List Byte) : CrfTalkerState :=
  let r := recvInto CRF_BUF 0 pkt
  let m := r.1
  if r.2 ≠ CRF_BUF then st else
  let st1 : CrfTalkerState :=
    if getNamed Spec.commonHeader m 0 "SUBTYPE" = 0x4 ∧ crfPduValid m = true then
      { st with clk := { st.clk with queue := st.clk.queue ++ recoverMclkMtt (beN m 20 8) st.clk.prev mtt } }
    else st
  if st1.firstAaf then
    match st1.clk.queue with
    | [] => st1                                   -- nothing to start from yet
    | _ :: rest => { st1 with clk := { st1.clk with queue := rest }, firstAaf := false, armed := true }
  else st1

/-- the AAF PDU `init_aaf_pdu` prepares, with presentation time and sequence number filled in -/
def crfTalkerPdu (ts seq : Nat) : List Byte :=
  let m0 := Spec.pcm.canonical false 0 (fun _ => 0) 0
  let m := [("TV", 1), ("STREAM_ID", STREAM_ID_L), ("FORMAT", 4), ("NSR", 5), ("CHANNELS_PER_FRAME", 2),
            ("BIT_DEPTH", 16), ("STREAM_DATA_LENGTH", 24), ("SP", 0), ("AVTP_TIMESTAMP", ts % 2 ^ 32),
            ("SEQUENCE_NUM", seq % 256)].foldl (fun m (p : String × Nat) => setNamed Spec.pcm m 0 p.1 p.2) m0
  Mem.read m 0 24 ++ List.replicate 24 0

/-- `aaf_talker_tx_timeout` for one expiration: the packet sent -/
def crfTalkerFire (st : CrfTalkerState) : CrfTalkerState × List Byte :=
  let r := st.clk.next
  ({ st with clk := r.2, seq := (st.seq + 1) % 256 }, crfTalkerPdu r.1 st.seq)

end O1722
