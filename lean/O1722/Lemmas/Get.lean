/-
  Lemmas/Get.lean — the loop of `Avtp_GetField` computes the reference read.
-/
import O1722.Lemmas.Mem

namespace O1722

/-- The descriptors the generic reader/writer handles: what `IsFieldDescriptorValid`
    demands (offset 0..31, width 0..64) plus "the field ends at or before quadlet 255"
    (the quadlet index is a `uint8_t`; a longer field would wrap to quadlet 0). -/
def Desc.Valid (d : Desc) : Prop :=
  d.offset ≤ 31 ∧ d.bits ≤ 64 ∧ d.quadlet + (d.offset + d.bits + 31) / 32 ≤ 256

instance (d : Desc) : Decidable d.Valid := by unfold Desc.Valid; exact inferInstance

/-- First wire bit of the field. -/
def Desc.start (d : Desc) : Nat := 32 * d.quadlet + d.offset

theorem quadletMask_testBit (qbits qshift i : Nat) (h : qshift + qbits ≤ 32) :
    (quadletMask qbits qshift).testBit i = decide (qshift ≤ i ∧ i < qshift + qbits) := by
  unfold quadletMask
  rw [Nat.one_shiftLeft]
  simp only [Nat.testBit_mod_two_pow, Nat.testBit_shiftLeft, Nat.testBit_two_pow_sub_one]
  by_cases h1 : qshift ≤ i ∧ i < qshift + qbits
  · have a : i < 32 := by omega
    have b : i < 64 := by omega
    have c : i ≥ qshift := by omega
    have d : i - qshift < qbits := by omega
    simp [h1, a, b, c, d]
  · simp only [h1, decide_false]
    by_cases c : i ≥ qshift
    · have d : ¬ i - qshift < qbits := by omega
      simp [d]
    · simp [c]

/-- One masked-and-shifted quadlet is a run of wire bits. -/
theorem chunk_testBit (m : Mem) (pdu qid qbits qshift t : Nat) (h : qshift + qbits ≤ 32) :
    (((beN m (pdu + qid * 4) 4) &&& quadletMask qbits qshift) >>> qshift).testBit t
      = (decide (t < qbits) && wireBit m pdu (32 * qid + 31 - qshift - t)) := by
  rw [Nat.testBit_shiftRight, Nat.testBit_and, be32_testBit_wire, quadletMask_testBit _ _ _ h]
  by_cases ht : t < qbits
  · have a : qshift + t < 32 := by omega
    have b : qshift ≤ qshift + t ∧ qshift + t < qshift + qbits := by omega
    have c : 32 * qid + 31 - (qshift + t) = 32 * qid + 31 - qshift - t := by omega
    rw [c]; simp [ht, a, b]
  · have b : ¬ (qshift ≤ qshift + t ∧ qshift + t < qshift + qbits) := by omega
    simp [ht, b]

/-- Accumulating one chunk below the bits already collected. `wb j` is the wire bit that
    belongs at result bit `j`. -/
theorem step_bits (res part k pb qb W j : Nat) (wb : Nat → Bool)
    (hk : k + qb + pb = W) (hW : W ≤ 64)
    (hres : ∀ j, res.testBit j = (decide (W ≤ j + pb ∧ j < W) && wb j))
    (hpart : ∀ t, part.testBit t = (decide (t < qb) && wb (t + k))) :
    (res ||| (part <<< k) % 2 ^ 64).testBit j
      = (decide (W ≤ j + (pb + qb) ∧ j < W) && wb j) := by
  rw [Nat.testBit_or, hres, Nat.testBit_mod_two_pow, Nat.testBit_shiftLeft, hpart]
  by_cases h1 : W ≤ j + pb ∧ j < W
  · have h2 : W ≤ j + (pb + qb) ∧ j < W := by omega
    have c : ¬ j - k < qb := by omega
    simp [h1, h2, c]
  · by_cases h2 : W ≤ j + (pb + qb) ∧ j < W
    · have a : j < 64 := by omega
      have b : j ≥ k := by omega
      have c : j - k < qb := by omega
      have e : j - k + k = j := by omega
      rw [e]; simp [h1, h2, a, b, c]
    · simp only [h1, h2, decide_false, Bool.false_and, Bool.false_or]
      by_cases b : j ≥ k
      · have c : ¬ j - k < qb := by omega
        simp [c]
      · simp [b]

/-- Loop invariant of `Avtp_GetField`: `pb` bits consumed, they sit in the top `pb`
    positions of the `d.bits`-wide result, and the next chunk starts on a quadlet
    boundary (or is the first one). -/
structure GetInv (d : Desc) (m : Mem) (pdu qo pb res : Nat) : Prop where
  le : pb ≤ d.bits
  pos : (pb = 0 ∧ qo = 0) ∨ (0 < pb ∧ d.offset + pb = 32 * qo) ∨ pb = d.bits
  bits : ∀ j, res.testBit j
      = (decide (d.bits ≤ j + pb ∧ j < d.bits) && wireBit m pdu (d.start + d.bits - 1 - j))

/-- Facts about one iteration's chunk geometry, shared by reader and writer. -/
theorem chunk_geom (d : Desc) (hd : d.Valid) (qo pb : Nat) (hlt : pb < d.bits)
    (pos : (pb = 0 ∧ qo = 0) ∨ (0 < pb ∧ d.offset + pb = 32 * qo) ∨ pb = d.bits) :
    let qb := quadletBits d pb
    let qs := quadletShift d pb qb
    0 < qb ∧ pb + qb ≤ d.bits ∧ qs + qb ≤ 32 ∧ (d.quadlet + qo) % 256 = d.quadlet + qo
      ∧ (pb + qb) % 256 = pb + qb
      ∧ 32 * (d.quadlet + qo) + 32 = d.start + pb + qb + qs
      ∧ ((pb + qb = d.bits) ∨ (0 < pb + qb ∧ d.offset + (pb + qb) = 32 * ((qo + 1) % 256)))
      ∧ (d.bits - (pb + qb)) + (if pb + qb = 0 then d.offset else 0) + 32
          ≤ (d.bits - pb) + (if pb = 0 then d.offset else 0) + (if pb + qb = d.bits then 32 else 0) := by
  obtain ⟨ho, hb, hq⟩ := hd
  intro qb qs
  rcases pos with ⟨hp0, hq0⟩ | ⟨hpp, hal⟩ | heq
  · subst hp0; subst hq0
    have hqb : qb = min (32 - d.offset) d.bits := by
      show quadletBits d 0 = _
      simp only [quadletBits, if_true, Nat.sub_zero]; omega
    have hqs : qs = 32 - qb - d.offset := by
      show quadletShift d 0 qb = _
      simp only [quadletShift, if_true]; omega
    unfold Desc.start
    rw [hqs, hqb]
    refine ⟨by omega, by omega, by omega, by omega, by omega, by omega, ?_, ?_⟩
    · by_cases h : 0 + min (32 - d.offset) d.bits = d.bits
      · exact Or.inl h
      · exact Or.inr (by omega)
    · by_cases h : 0 + min (32 - d.offset) d.bits = d.bits
      · simp only [h, if_true]; split <;> omega
      · simp only [h, if_false, if_true]; split <;> omega
  · have hp0 : pb ≠ 0 := by omega
    have hqb : qb = min 32 (d.bits - pb) := by
      show quadletBits d pb = _
      simp only [quadletBits, hp0, if_false]; omega
    have hqs : qs = 32 - qb := by
      show quadletShift d pb qb = _
      simp only [quadletShift, hp0, if_false]; omega
    unfold Desc.start
    rw [hqs, hqb]
    refine ⟨by omega, by omega, by omega, by omega, by omega, by omega, ?_, ?_⟩
    · by_cases h : pb + min 32 (d.bits - pb) = d.bits
      · exact Or.inl h
      · exact Or.inr (by omega)
    · have h0 : pb + min 32 (d.bits - pb) ≠ 0 := by omega
      simp only [hp0, h0, if_false]
      split <;> omega
  · omega

theorem getLoop_spec (e : Endian) (d : Desc) (hd : d.Valid) (m : Mem) (pdu : Nat) :
    ∀ fuel qo pb res log, GetInv d m pdu qo pb res →
      (d.bits - pb) + (if pb = 0 then d.offset else 0) ≤ 32 * fuel →
      (getLoop e d m pdu fuel qo pb res log).1 = specGet m pdu d.start d.bits := by
  have hb : d.bits ≤ 64 := hd.2.1
  intro fuel
  induction fuel with
  | zero =>
    intro qo pb res log inv hf
    have hpb : pb = d.bits := by
      have := inv.le
      by_cases h0 : pb = 0
      · simp only [h0, if_true] at hf; omega
      · simp only [h0, if_false] at hf; omega
    simp only [getLoop]
    apply Nat.eq_of_testBit_eq; intro j
    rw [inv.bits, specGet_testBit, hpb]
    by_cases hj : j < d.bits
    · have : d.bits ≤ j + d.bits ∧ j < d.bits := by omega
      simp [hj, this]
    · simp [hj]
  | succ fuel ih =>
    intro qo pb res log inv hf
    rw [getLoop]
    by_cases hlt : pb < d.bits
    · rw [if_pos hlt]
      obtain ⟨g1, g2, g3, g4, g5, g6, g7, g8⟩ := chunk_geom d hd qo pb hlt inv.pos
      apply ih
      · refine ⟨?_, ?_, ?_⟩
        · rw [g5]; exact g2
        · rw [g5]
          rcases g7 with h | h
          · exact Or.inr (Or.inr h)
          · exact Or.inr (Or.inl h)
        · intro j
          rw [g5, beCpu32_load, g4]
          obtain ⟨k, hk⟩ : ∃ k, k + quadletBits d pb + pb = d.bits :=
            ⟨d.bits - pb - quadletBits d pb, by omega⟩
          have hk' : d.bits - pb - quadletBits d pb = k := by omega
          rw [hk']
          apply step_bits res _ k pb (quadletBits d pb) d.bits j
            (fun j => wireBit m pdu (d.start + d.bits - 1 - j)) hk hb inv.bits
          intro t
          rw [chunk_testBit _ _ _ _ _ _ g3]
          by_cases ht : t < quadletBits d pb
          · have : 32 * (d.quadlet + qo) + 31 - quadletShift d pb (quadletBits d pb) - t
                = d.start + d.bits - 1 - (t + k) := by omega
            rw [this]
          · simp [ht]
      · rw [g5]
        by_cases h : pb + quadletBits d pb = d.bits
        · have h0 : d.bits ≠ 0 := by omega
          rw [h]; simp only [h0, if_false]; omega
        · simp only [h, if_false] at g8; omega
    · rw [if_neg hlt]
      have hpb : pb = d.bits := by have := inv.le; omega
      apply Nat.eq_of_testBit_eq; intro j
      rw [inv.bits, specGet_testBit, hpb]
      by_cases hj : j < d.bits
      · have : d.bits ≤ j + d.bits ∧ j < d.bits := by omega
        simp [hj, this]
      · simp [hj]

theorem getInv_init (d : Desc) (m : Mem) (pdu : Nat) : GetInv d m pdu 0 0 0 := by
  refine ⟨Nat.zero_le _, Or.inl ⟨rfl, rfl⟩, ?_⟩
  intro j
  have : ¬ (d.bits ≤ j ∧ j < d.bits) := by omega
  simp [this]

/-- The loop of `Avtp_GetField`, for any valid descriptor, any memory, any base address
    and either host byte order, returns the reference read of the field's wire bits. -/
theorem getLoop_eq_specGet (e : Endian) (d : Desc) (hd : d.Valid) (m : Mem) (pdu : Nat) :
    (getLoop e d m pdu loopFuel 0 0 0 []).1 = specGet m pdu d.start d.bits := by
  apply getLoop_spec e d hd m pdu loopFuel 0 0 0 [] (getInv_init d m pdu)
  obtain ⟨ho, hb, _⟩ := hd
  simp only [loopFuel, if_true]; omega

end O1722
