/-
  Lemmas/Set.lean — the loop of `Avtp_SetField` performs the reference write.
-/
import O1722.Lemmas.Get

namespace O1722

/-- One read-modify-write of a quadlet, bit by bit. -/
theorem rmw_testBit (host part qb qs t : Nat) (h : qs + qb ≤ 32) (ht : t < 32) :
    ((host &&& (quadletMask qb qs ^^^ (2 ^ 32 - 1)))
        ||| (((part <<< qs) % 2 ^ 32) &&& quadletMask qb qs)).testBit t
      = if qs ≤ t ∧ t < qs + qb then part.testBit (t - qs) else host.testBit t := by
  rw [Nat.testBit_or, Nat.testBit_and, Nat.testBit_and, Nat.testBit_xor,
    Nat.testBit_two_pow_sub_one, Nat.testBit_mod_two_pow, Nat.testBit_shiftLeft,
    quadletMask_testBit _ _ _ h]
  by_cases hm : qs ≤ t ∧ t < qs + qb
  · have a : t ≥ qs := hm.1
    simp [hm, ht, a]
  · simp [hm, ht]

/-- Loop invariant of `Avtp_SetField`. -/
structure SetInv (d : Desc) (m : Mem) (pdu v qo pb : Nat) (m' : Mem) : Prop where
  le : pb ≤ d.bits
  pos : (pb = 0 ∧ qo = 0) ∨ (0 < pb ∧ d.offset + pb = 32 * qo) ∨ pb = d.bits
  bits : ∀ i, wireBit m' pdu i
      = if d.start ≤ i ∧ i < d.start + pb then v.testBit (d.start + d.bits - 1 - i)
        else wireBit m pdu i
  below : ∀ a, a < pdu → m' a = m a

theorem setLoop_spec (e : Endian) (d : Desc) (hd : d.Valid) (m : Mem) (pdu v : Nat) :
    ∀ fuel qo pb m' log, SetInv d m pdu v qo pb m' →
      (d.bits - pb) + (if pb = 0 then d.offset else 0) ≤ 32 * fuel →
      SetInv d m pdu v 0 d.bits (setLoop e d pdu v fuel qo pb m' log).1 := by
  intro fuel
  induction fuel with
  | zero =>
    intro qo pb m' log inv hf
    have hpb : pb = d.bits := by
      have := inv.le
      by_cases h0 : pb = 0
      · simp only [h0, if_true] at hf; omega
      · simp only [h0, if_false] at hf; omega
    simp only [setLoop]
    exact ⟨Nat.le_refl _, Or.inr (Or.inr rfl), fun i => by rw [inv.bits i, hpb], inv.below⟩
  | succ fuel ih =>
    intro qo pb m' log inv hf
    rw [setLoop]
    by_cases hlt : pb < d.bits
    · rw [if_pos hlt]
      obtain ⟨g1, g2, g3, g4, g5, g6, g7, g8⟩ := chunk_geom d hd qo pb hlt inv.pos
      apply ih
      · refine ⟨?_, ?_, ?_, ?_⟩
        · rw [g5]; exact g2
        · rw [g5]
          rcases g7 with h | h
          · exact Or.inr (Or.inr h)
          · exact Or.inr (Or.inl h)
        · intro i
          rw [g5, store_beCpu32, beCpu32_load, g4, wireBit_write_be32]
          by_cases hq : 32 * (d.quadlet + qo) ≤ i ∧ i < 32 * (d.quadlet + qo) + 32
          · rw [if_pos hq, rmw_testBit _ _ _ _ _ g3 (by omega)]
            by_cases hc : d.start + pb ≤ i ∧ i < d.start + (pb + quadletBits d pb)
            · have h1 : quadletShift d pb (quadletBits d pb) ≤ 32 * (d.quadlet + qo) + 31 - i
                  ∧ 32 * (d.quadlet + qo) + 31 - i
                    < quadletShift d pb (quadletBits d pb) + quadletBits d pb := by omega
              have h2 : d.start ≤ i ∧ i < d.start + (pb + quadletBits d pb) := by omega
              rw [if_pos h1, if_pos h2, Nat.testBit_mod_two_pow, Nat.testBit_shiftRight]
              have h3 : 32 * (d.quadlet + qo) + 31 - i - quadletShift d pb (quadletBits d pb) < 32 := by
                omega
              have h4 : d.bits - pb - quadletBits d pb
                  + (32 * (d.quadlet + qo) + 31 - i - quadletShift d pb (quadletBits d pb))
                  = d.start + d.bits - 1 - i := by omega
              rw [h4]; simp [h3]
            · have h1 : ¬ (quadletShift d pb (quadletBits d pb) ≤ 32 * (d.quadlet + qo) + 31 - i
                  ∧ 32 * (d.quadlet + qo) + 31 - i
                    < quadletShift d pb (quadletBits d pb) + quadletBits d pb) := by omega
              rw [if_neg h1, be32_testBit_wire]
              have h3 : 32 * (d.quadlet + qo) + 31 - i < 32 := by omega
              have h4 : 32 * (d.quadlet + qo) + 31 - (32 * (d.quadlet + qo) + 31 - i) = i := by omega
              rw [h4, inv.bits]
              by_cases h5 : d.start ≤ i ∧ i < d.start + pb
              · have h6 : d.start ≤ i ∧ i < d.start + (pb + quadletBits d pb) := by omega
                simp [h3, h5, h6]
              · have h6 : ¬ (d.start ≤ i ∧ i < d.start + (pb + quadletBits d pb)) := by omega
                simp [h3, h5, h6]
          · rw [if_neg hq, inv.bits]
            by_cases h5 : d.start ≤ i ∧ i < d.start + pb
            · have h6 : d.start ≤ i ∧ i < d.start + (pb + quadletBits d pb) := by omega
              rw [if_pos h5, if_pos h6]
            · have h6 : ¬ (d.start ≤ i ∧ i < d.start + (pb + quadletBits d pb)) := by omega
              rw [if_neg h5, if_neg h6]
        · intro a ha
          rw [store_beCpu32, Mem.write_outside _ _ _ _ (Or.inl (by omega))]
          exact inv.below a ha
      · rw [g5]
        by_cases h : pb + quadletBits d pb = d.bits
        · have h0 : d.bits ≠ 0 := by omega
          rw [h]; simp only [h0, if_false]; omega
        · simp only [h, if_false] at g8; omega
    · rw [if_neg hlt]
      have hpb : pb = d.bits := by have := inv.le; omega
      exact ⟨Nat.le_refl _, Or.inr (Or.inr rfl), fun i => by rw [inv.bits i, hpb], inv.below⟩

theorem setInv_init (d : Desc) (m : Mem) (pdu v : Nat) : SetInv d m pdu v 0 0 m := by
  refine ⟨Nat.zero_le _, Or.inl ⟨rfl, rfl⟩, ?_, fun _ _ => rfl⟩
  intro i
  have : ¬ (d.start ≤ i ∧ i < d.start + 0) := by omega
  rw [if_neg this]

theorem bits8_testBit (b0 b1 b2 b3 b4 b5 b6 b7 : Bool) (j : Nat) (hj : j < 8) :
    (b0.toNat * 128 + b1.toNat * 64 + b2.toNat * 32 + b3.toNat * 16 + b4.toNat * 8
      + b5.toNat * 4 + b6.toNat * 2 + b7.toNat).testBit j
      = (if j = 7 then b0 else if j = 6 then b1 else if j = 5 then b2 else if j = 4 then b3
         else if j = 3 then b4 else if j = 2 then b5 else if j = 1 then b6 else b7) := by
  have : j = 0 ∨ j = 1 ∨ j = 2 ∨ j = 3 ∨ j = 4 ∨ j = 5 ∨ j = 6 ∨ j = 7 := by omega
  rcases this with rfl | rfl | rfl | rfl | rfl | rfl | rfl | rfl <;>
    (cases b0 <;> cases b1 <;> cases b2 <;> cases b3 <;> cases b4 <;> cases b5
      <;> cases b6 <;> cases b7 <;> decide)

theorem byteOfBits_testBit (f : Nat → Bool) (j : Nat) (hj : j < 8) :
    (byteOfBits f).val.testBit j = f (7 - j) := by
  show ((f 0).toNat * 128 + (f 1).toNat * 64 + (f 2).toNat * 32 + (f 3).toNat * 16
    + (f 4).toNat * 8 + (f 5).toNat * 4 + (f 6).toNat * 2 + (f 7).toNat).testBit j = _
  rw [bits8_testBit _ _ _ _ _ _ _ _ j hj]
  have : j = 0 ∨ j = 1 ∨ j = 2 ∨ j = 3 ∨ j = 4 ∨ j = 5 ∨ j = 6 ∨ j = 7 := by omega
  rcases this with rfl | rfl | rfl | rfl | rfl | rfl | rfl | rfl <;> rfl

/-- Bit-level characterisation of the reference writer. -/
theorem specSet_wireBit (m : Mem) (pdu s w v i : Nat) :
    wireBit (specSet m pdu s w v) pdu i = specSetBit m pdu s w v i := by
  unfold wireBit specSet specSetBit
  simp only
  rw [if_pos (by omega), byteOfBits_testBit _ _ (by omega)]
  have e1 : 8 * (pdu + i / 8 - pdu) + (7 - (7 - i % 8)) = i := by omega
  have e2 : 7 - (7 - (7 - i % 8)) = 7 - i % 8 := by omega
  simp only [e1, e2]
  rfl

theorem specSet_below (m : Mem) (pdu s w v a : Nat) (h : a < pdu) : specSet m pdu s w v a = m a := by
  unfold specSet; simp only; rw [if_neg (by omega)]

/-- Two memories that agree below `pdu` and on every wire bit of the PDU are equal. -/
theorem mem_ext_wire (m₁ m₂ : Mem) (pdu : Nat) (hb : ∀ a, a < pdu → m₁ a = m₂ a)
    (hw : ∀ i, wireBit m₁ pdu i = wireBit m₂ pdu i) : m₁ = m₂ := by
  funext a
  by_cases h : a < pdu
  · exact hb a h
  · apply byte_ext; intro j hj
    have := hw (8 * (a - pdu) + (7 - j))
    unfold wireBit at this
    have e1 : pdu + (8 * (a - pdu) + (7 - j)) / 8 = a := by omega
    have e2 : 7 - (8 * (a - pdu) + (7 - j)) % 8 = j := by omega
    rw [e1, e2] at this
    exact this

/-- The loop of `Avtp_SetField`, for any valid descriptor, any prior memory, any base
    address, any value and either host byte order, performs the reference write. -/
theorem setLoop_eq_specSet (e : Endian) (d : Desc) (hd : d.Valid) (m : Mem) (pdu v : Nat) :
    (setLoop e d pdu v loopFuel 0 0 m []).1 = specSet m pdu d.start d.bits v := by
  have inv := setLoop_spec e d hd m pdu v loopFuel 0 0 m [] (setInv_init d m pdu v) (by
    obtain ⟨ho, hb, _⟩ := hd
    simp only [loopFuel, if_true]; omega)
  apply mem_ext_wire _ _ pdu
  · intro a ha; rw [inv.below a ha, specSet_below _ _ _ _ _ _ ha]
  · intro i; rw [inv.bits, specSet_wireBit]; rfl

end O1722
