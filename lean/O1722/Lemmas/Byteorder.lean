/-
  Lemmas/Byteorder.lean — the mask-and-shift swaps of Byteorder.h are byte reversals
  (as bit permutations), and "typed load then Be→Cpu" / "Cpu→Be then typed store" are the
  big-endian byte sequences on hosts of either byte order.  Helper lemmas only.
-/
import O1722.Lemmas.Bits

namespace O1722

theorem lt_cases16 (j : Nat) (h : j < 16) : j = 0 ∨ j = 1 ∨ j = 2 ∨ j = 3 ∨ j = 4 ∨ j = 5 ∨ j = 6 ∨ j = 7 ∨ j = 8 ∨ j = 9 ∨ j = 10 ∨ j = 11 ∨ j = 12 ∨ j = 13 ∨ j = 14 ∨ j = 15 := by omega
theorem lt_cases32 (j : Nat) (h : j < 32) : j = 0 ∨ j = 1 ∨ j = 2 ∨ j = 3 ∨ j = 4 ∨ j = 5 ∨ j = 6 ∨ j = 7 ∨ j = 8 ∨ j = 9 ∨ j = 10 ∨ j = 11 ∨ j = 12 ∨ j = 13 ∨ j = 14 ∨ j = 15 ∨ j = 16 ∨ j = 17 ∨ j = 18 ∨ j = 19 ∨ j = 20 ∨ j = 21 ∨ j = 22 ∨ j = 23 ∨ j = 24 ∨ j = 25 ∨ j = 26 ∨ j = 27 ∨ j = 28 ∨ j = 29 ∨ j = 30 ∨ j = 31 := by omega
theorem lt_cases64 (j : Nat) (h : j < 64) : j = 0 ∨ j = 1 ∨ j = 2 ∨ j = 3 ∨ j = 4 ∨ j = 5 ∨ j = 6 ∨ j = 7 ∨ j = 8 ∨ j = 9 ∨ j = 10 ∨ j = 11 ∨ j = 12 ∨ j = 13 ∨ j = 14 ∨ j = 15 ∨ j = 16 ∨ j = 17 ∨ j = 18 ∨ j = 19 ∨ j = 20 ∨ j = 21 ∨ j = 22 ∨ j = 23 ∨ j = 24 ∨ j = 25 ∨ j = 26 ∨ j = 27 ∨ j = 28 ∨ j = 29 ∨ j = 30 ∨ j = 31 ∨ j = 32 ∨ j = 33 ∨ j = 34 ∨ j = 35 ∨ j = 36 ∨ j = 37 ∨ j = 38 ∨ j = 39 ∨ j = 40 ∨ j = 41 ∨ j = 42 ∨ j = 43 ∨ j = 44 ∨ j = 45 ∨ j = 46 ∨ j = 47 ∨ j = 48 ∨ j = 49 ∨ j = 50 ∨ j = 51 ∨ j = 52 ∨ j = 53 ∨ j = 54 ∨ j = 55 ∨ j = 56 ∨ j = 57 ∨ j = 58 ∨ j = 59 ∨ j = 60 ∨ j = 61 ∨ j = 62 ∨ j = 63 := by omega

theorem testBit_mod_lit16 (x i : Nat) : (x % 65536).testBit i = (decide (i < 16) && x.testBit i) :=
  Nat.testBit_mod_two_pow x 16 i
theorem testBit_mod_lit32 (x i : Nat) : (x % 4294967296).testBit i = (decide (i < 32) && x.testBit i) :=
  Nat.testBit_mod_two_pow x 32 i
theorem testBit_mod_lit64 (x i : Nat) :
    (x % 18446744073709551616).testBit i = (decide (i < 64) && x.testBit i) :=
  Nat.testBit_mod_two_pow x 64 i

theorem mask8_testBit (k i : Nat) :
    ((2 ^ 8 - 1) <<< k).testBit i = (decide (i ≥ k) && decide (i - k < 8)) := by
  rw [Nat.testBit_shiftLeft, Nat.testBit_two_pow_sub_one]

private theorem bs16_m0 (i : Nat) : (255 : Nat).testBit i = (decide (i ≥ 0) && decide (i - 0 < 8)) := by
  rw [show (255 : Nat) = (2 ^ 8 - 1) <<< 0 from by decide]; exact mask8_testBit 0 i
private theorem bs16_m8 (i : Nat) : (65280 : Nat).testBit i = (decide (i ≥ 8) && decide (i - 8 < 8)) := by
  rw [show (65280 : Nat) = (2 ^ 8 - 1) <<< 8 from by decide]; exact mask8_testBit 8 i

theorem bswap16_lt (x : Nat) : bswap16 x < 2 ^ 16 := by
  apply Nat.lt_pow_two_of_testBit
  intro i hi
  simp only [bswap16, Nat.testBit_or, Nat.testBit_and, Nat.testBit_shiftRight, Nat.testBit_shiftLeft, Nat.testBit_mod_two_pow,
    testBit_mod_lit16, testBit_mod_lit32, testBit_mod_lit64,
    bs16_m0, bs16_m8]
  simp only [Bool.or_eq_false_iff, Bool.and_eq_false_iff, decide_eq_false_iff_not, decide_eq_true_eq]
  omega

/-- `Avtp_Bswap16` as a bit permutation: output bit `j` is input bit `8·(1 - j/8) + j%8`. -/
theorem bswap16_testBit (x j : Nat) :
    (bswap16 x).testBit j = (decide (j < 16) && x.testBit (8 * (1 - j / 8) + j % 8)) := by
  by_cases hj : j < 16
  · rcases lt_cases16 j hj with rfl | rfl | rfl | rfl | rfl | rfl | rfl | rfl | rfl | rfl | rfl | rfl | rfl | rfl | rfl | rfl <;>
      simp [bswap16, Nat.testBit_or, Nat.testBit_and, Nat.testBit_shiftRight, Nat.testBit_shiftLeft, Nat.testBit_mod_two_pow,
    testBit_mod_lit16, testBit_mod_lit32, testBit_mod_lit64,
        bs16_m0, bs16_m8]
  · have : bswap16 x < 2 ^ j :=
      Nat.lt_of_lt_of_le (bswap16_lt x) (Nat.pow_le_pow_right (by decide) (by omega))
    simp [hj, Nat.testBit_lt_two_pow this]

private theorem bs32_m0 (i : Nat) : (255 : Nat).testBit i = (decide (i ≥ 0) && decide (i - 0 < 8)) := by
  rw [show (255 : Nat) = (2 ^ 8 - 1) <<< 0 from by decide]; exact mask8_testBit 0 i
private theorem bs32_m8 (i : Nat) : (65280 : Nat).testBit i = (decide (i ≥ 8) && decide (i - 8 < 8)) := by
  rw [show (65280 : Nat) = (2 ^ 8 - 1) <<< 8 from by decide]; exact mask8_testBit 8 i
private theorem bs32_m16 (i : Nat) : (16711680 : Nat).testBit i = (decide (i ≥ 16) && decide (i - 16 < 8)) := by
  rw [show (16711680 : Nat) = (2 ^ 8 - 1) <<< 16 from by decide]; exact mask8_testBit 16 i
private theorem bs32_m24 (i : Nat) : (4278190080 : Nat).testBit i = (decide (i ≥ 24) && decide (i - 24 < 8)) := by
  rw [show (4278190080 : Nat) = (2 ^ 8 - 1) <<< 24 from by decide]; exact mask8_testBit 24 i

theorem bswap32_lt (x : Nat) : bswap32 x < 2 ^ 32 := by
  apply Nat.lt_pow_two_of_testBit
  intro i hi
  simp only [bswap32, Nat.testBit_or, Nat.testBit_and, Nat.testBit_shiftRight, Nat.testBit_shiftLeft, Nat.testBit_mod_two_pow,
    testBit_mod_lit16, testBit_mod_lit32, testBit_mod_lit64,
    bs32_m0, bs32_m8, bs32_m16, bs32_m24]
  simp only [Bool.or_eq_false_iff, Bool.and_eq_false_iff, decide_eq_false_iff_not, decide_eq_true_eq]
  omega

/-- `Avtp_Bswap32` as a bit permutation: output bit `j` is input bit `8·(3 - j/8) + j%8`. -/
theorem bswap32_testBit (x j : Nat) :
    (bswap32 x).testBit j = (decide (j < 32) && x.testBit (8 * (3 - j / 8) + j % 8)) := by
  by_cases hj : j < 32
  · rcases lt_cases32 j hj with rfl | rfl | rfl | rfl | rfl | rfl | rfl | rfl | rfl | rfl | rfl | rfl | rfl | rfl | rfl | rfl | rfl | rfl | rfl | rfl | rfl | rfl | rfl | rfl | rfl | rfl | rfl | rfl | rfl | rfl | rfl | rfl <;>
      simp [bswap32, Nat.testBit_or, Nat.testBit_and, Nat.testBit_shiftRight, Nat.testBit_shiftLeft, Nat.testBit_mod_two_pow,
    testBit_mod_lit16, testBit_mod_lit32, testBit_mod_lit64,
        bs32_m0, bs32_m8, bs32_m16, bs32_m24]
  · have : bswap32 x < 2 ^ j :=
      Nat.lt_of_lt_of_le (bswap32_lt x) (Nat.pow_le_pow_right (by decide) (by omega))
    simp [hj, Nat.testBit_lt_two_pow this]

private theorem bs64_m0 (i : Nat) : (255 : Nat).testBit i = (decide (i ≥ 0) && decide (i - 0 < 8)) := by
  rw [show (255 : Nat) = (2 ^ 8 - 1) <<< 0 from by decide]; exact mask8_testBit 0 i
private theorem bs64_m8 (i : Nat) : (65280 : Nat).testBit i = (decide (i ≥ 8) && decide (i - 8 < 8)) := by
  rw [show (65280 : Nat) = (2 ^ 8 - 1) <<< 8 from by decide]; exact mask8_testBit 8 i
private theorem bs64_m16 (i : Nat) : (16711680 : Nat).testBit i = (decide (i ≥ 16) && decide (i - 16 < 8)) := by
  rw [show (16711680 : Nat) = (2 ^ 8 - 1) <<< 16 from by decide]; exact mask8_testBit 16 i
private theorem bs64_m24 (i : Nat) : (4278190080 : Nat).testBit i = (decide (i ≥ 24) && decide (i - 24 < 8)) := by
  rw [show (4278190080 : Nat) = (2 ^ 8 - 1) <<< 24 from by decide]; exact mask8_testBit 24 i
private theorem bs64_m32 (i : Nat) : (1095216660480 : Nat).testBit i = (decide (i ≥ 32) && decide (i - 32 < 8)) := by
  rw [show (1095216660480 : Nat) = (2 ^ 8 - 1) <<< 32 from by decide]; exact mask8_testBit 32 i
private theorem bs64_m40 (i : Nat) : (280375465082880 : Nat).testBit i = (decide (i ≥ 40) && decide (i - 40 < 8)) := by
  rw [show (280375465082880 : Nat) = (2 ^ 8 - 1) <<< 40 from by decide]; exact mask8_testBit 40 i
private theorem bs64_m48 (i : Nat) : (71776119061217280 : Nat).testBit i = (decide (i ≥ 48) && decide (i - 48 < 8)) := by
  rw [show (71776119061217280 : Nat) = (2 ^ 8 - 1) <<< 48 from by decide]; exact mask8_testBit 48 i
private theorem bs64_m56 (i : Nat) : (18374686479671623680 : Nat).testBit i = (decide (i ≥ 56) && decide (i - 56 < 8)) := by
  rw [show (18374686479671623680 : Nat) = (2 ^ 8 - 1) <<< 56 from by decide]; exact mask8_testBit 56 i

theorem bswap64_lt (x : Nat) : bswap64 x < 2 ^ 64 := by
  apply Nat.lt_pow_two_of_testBit
  intro i hi
  simp only [bswap64, Nat.testBit_or, Nat.testBit_and, Nat.testBit_shiftRight, Nat.testBit_shiftLeft, Nat.testBit_mod_two_pow,
    testBit_mod_lit16, testBit_mod_lit32, testBit_mod_lit64,
    bs64_m0, bs64_m8, bs64_m16, bs64_m24, bs64_m32, bs64_m40, bs64_m48, bs64_m56]
  simp only [Bool.or_eq_false_iff, Bool.and_eq_false_iff, decide_eq_false_iff_not, decide_eq_true_eq]
  omega

/-- `Avtp_Bswap64` as a bit permutation: output bit `j` is input bit `8·(7 - j/8) + j%8`. -/
theorem bswap64_testBit (x j : Nat) :
    (bswap64 x).testBit j = (decide (j < 64) && x.testBit (8 * (7 - j / 8) + j % 8)) := by
  by_cases hj : j < 64
  · rcases lt_cases64 j hj with rfl | rfl | rfl | rfl | rfl | rfl | rfl | rfl | rfl | rfl | rfl | rfl | rfl | rfl | rfl | rfl | rfl | rfl | rfl | rfl | rfl | rfl | rfl | rfl | rfl | rfl | rfl | rfl | rfl | rfl | rfl | rfl | rfl | rfl | rfl | rfl | rfl | rfl | rfl | rfl | rfl | rfl | rfl | rfl | rfl | rfl | rfl | rfl | rfl | rfl | rfl | rfl | rfl | rfl | rfl | rfl | rfl | rfl | rfl | rfl | rfl | rfl | rfl | rfl <;>
      simp [bswap64, Nat.testBit_or, Nat.testBit_and, Nat.testBit_shiftRight, Nat.testBit_shiftLeft, Nat.testBit_mod_two_pow,
    testBit_mod_lit16, testBit_mod_lit32, testBit_mod_lit64,
        bs64_m0, bs64_m8, bs64_m16, bs64_m24, bs64_m32, bs64_m40, bs64_m48, bs64_m56]
  · have : bswap64 x < 2 ^ j :=
      Nat.lt_of_lt_of_le (bswap64_lt x) (Nat.pow_le_pow_right (by decide) (by omega))
    simp [hj, Nat.testBit_lt_two_pow this]

end O1722
