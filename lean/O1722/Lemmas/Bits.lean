/-
  Lemmas/Bits.lean — bit-level (`Nat.testBit`) characterisations of the wire view and of
  big/little-endian byte composition.  Helper lemmas only; property theorems live in Props/.
-/
import O1722.Spec.Wire
import O1722.Model.Utils

namespace O1722

theorem toNat_testBit_bool (c : Bool) (j : Nat) : c.toNat.testBit j = (decide (j = 0) && c) := by
  cases c <;> cases j <;> simp [Nat.testBit_add_one]

theorem two_mul_add_bool_testBit (x : Nat) (c : Bool) (j : Nat) :
    (2 * x + c.toNat).testBit j = if j = 0 then c else x.testBit (j - 1) := by
  have h : c.toNat < 2 ^ 1 := by cases c <;> simp
  have := Nat.testBit_two_pow_mul_add x h j
  simp only [Nat.pow_one] at this
  rw [this]
  cases j with
  | zero => cases c <;> simp
  | succ j => simp

/-- Bit `j` (LSB = 0) of the reference read is wire bit `s + w - 1 - j`. -/
theorem specGet_testBit (m : Mem) (pdu s w j : Nat) :
    (specGet m pdu s w).testBit j = (decide (j < w) && wireBit m pdu (s + w - 1 - j)) := by
  induction w generalizing j with
  | zero => simp [specGet]
  | succ w ih =>
    rw [specGet, two_mul_add_bool_testBit]
    cases j with
    | zero => simp
    | succ j =>
      simp only [Nat.add_one_ne_zero, if_false, Nat.add_sub_cancel, ih]
      by_cases h : j < w
      · have e : s + (w + 1) - 1 - (j + 1) = s + w - 1 - j := by omega
        rw [e]; simp [h]
      · simp [h]

theorem specGet_lt (m : Mem) (pdu s w : Nat) : specGet m pdu s w < 2 ^ w := by
  apply Nat.lt_pow_two_of_testBit
  intro i hi
  rw [specGet_testBit]
  have : ¬ i < w := by omega
  simp [this]

/-- The reference read depends only on the field's own wire bits. -/
theorem specGet_congr (m₁ m₂ : Mem) (pdu s w : Nat)
    (h : ∀ i, s ≤ i → i < s + w → wireBit m₁ pdu i = wireBit m₂ pdu i) :
    specGet m₁ pdu s w = specGet m₂ pdu s w := by
  apply Nat.eq_of_testBit_eq
  intro j
  rw [specGet_testBit, specGet_testBit]
  by_cases hj : j < w
  · simp only [hj, decide_true, Bool.true_and]
    exact h _ (by omega) (by omega)
  · simp [hj]

/-- Bits of a big-endian composition of `n` bytes. -/
theorem beN_testBit (m : Mem) (a n j : Nat) :
    (beN m a n).testBit j
      = (decide (j < 8 * n) && (m (a + (n - 1 - j / 8))).val.testBit (j % 8)) := by
  induction n generalizing j with
  | zero => simp [beN]
  | succ n ih =>
    have hb : (m (a + n)).val < 2 ^ 8 := (m (a + n)).isLt
    have := Nat.testBit_two_pow_mul_add (beN m a n) hb j
    simp only [beN, show (256 : Nat) = 2 ^ 8 from rfl]
    rw [this]
    by_cases hj : j < 8
    · have e1 : n + 1 - 1 - j / 8 = n := by omega
      have e2 : j % 8 = j := by omega
      have e3 : j < 8 * (n + 1) := by omega
      rw [e1, e2]; simp [hj, e3]
    · rw [if_neg hj, ih]
      have e2 : (j - 8) % 8 = j % 8 := by omega
      by_cases h2 : j < 8 * (n + 1)
      · have h3 : j - 8 < 8 * n := by omega
        have e4 : n - 1 - (j - 8) / 8 = n + 1 - 1 - j / 8 := by omega
        rw [e4, e2]; simp [h2, h3]
      · have h3 : ¬ j - 8 < 8 * n := by omega
        simp [h2, h3]

/-- Bits of a little-endian composition of `n` bytes. -/
theorem leN_testBit (m : Mem) (a n j : Nat) :
    (leN m a n).testBit j
      = (decide (j < 8 * n) && (m (a + j / 8)).val.testBit (j % 8)) := by
  induction n generalizing a j with
  | zero => simp [leN]
  | succ n ih =>
    have hb : (m a).val < 2 ^ 8 := (m a).isLt
    have := Nat.testBit_two_pow_mul_add (leN m (a + 1) n) hb j
    simp only [leN, show (256 : Nat) = 2 ^ 8 from rfl]
    rw [Nat.add_comm, this]
    by_cases hj : j < 8
    · have e1 : j / 8 = 0 := by omega
      have e2 : j % 8 = j := by omega
      have e3 : j < 8 * (n + 1) := by omega
      simp [hj, e1, e2, e3]
    · rw [if_neg hj, ih]
      have e1 : a + 1 + (j - 8) / 8 = a + j / 8 := by omega
      have e2 : (j - 8) % 8 = j % 8 := by omega
      by_cases h2 : j < 8 * (n + 1)
      · have h3 : j - 8 < 8 * n := by omega
        simp [h2, h3, e1, e2]
      · have h3 : ¬ j - 8 < 8 * n := by omega
        simp [h2, h3]

theorem beN_lt (m : Mem) (a n : Nat) : beN m a n < 2 ^ (8 * n) := by
  apply Nat.lt_pow_two_of_testBit
  intro i hi
  rw [beN_testBit]
  have : ¬ i < 8 * n := by omega
  simp [this]

/-- A big-endian quadlet at `pdu + 4q` holds wire bits `32q .. 32q+31`, MSB first. -/
theorem be32_testBit_wire (m : Mem) (pdu q j : Nat) :
    (beN m (pdu + q * 4) 4).testBit j = (decide (j < 32) && wireBit m pdu (32 * q + 31 - j)) := by
  rw [beN_testBit]
  by_cases hj : j < 32
  · have e1 : pdu + q * 4 + (4 - 1 - j / 8) = pdu + (32 * q + 31 - j) / 8 := by omega
    have e2 : j % 8 = 7 - (32 * q + 31 - j) % 8 := by omega
    simp [hj, wireBit, e1, e2]
  · have : ¬ j < 8 * 4 := by omega
    simp [hj]

/-- A big-endian `n`-byte integer at byte offset `k` of the PDU is the reference read of
    its `8n` wire bits. -/
theorem beN_eq_specGet (m : Mem) (pdu k n : Nat) :
    beN m (pdu + k) n = specGet m pdu (8 * k) (8 * n) := by
  apply Nat.eq_of_testBit_eq
  intro j
  rw [beN_testBit, specGet_testBit]
  by_cases hj : j < 8 * n
  · have e1 : pdu + k + (n - 1 - j / 8) = pdu + (8 * k + 8 * n - 1 - j) / 8 := by omega
    have e2 : j % 8 = 7 - (8 * k + 8 * n - 1 - j) % 8 := by omega
    simp [hj, wireBit, e1, e2]
  · simp [hj]

end O1722
