/-
  Lemmas/Holds.lean — "memory holds these bytes at this address", and reads / writes of
  big-endian integers in terms of it.  Helper lemmas for the VSS codec theorems.
-/
import O1722.Lemmas.Mem
import O1722.Model.Vss

namespace O1722

/-- Memory `m` holds the byte sequence `bs` at address `a`. -/
def holds (m : Mem) (a : Nat) (bs : List Byte) : Prop :=
  ∀ i (h : i < bs.length), m (a + i) = bs[i]

theorem holds_nil (m : Mem) (a : Nat) : holds m a [] := by intro i h; cases h

theorem holds_write (m : Mem) (a : Nat) (bs : List Byte) : holds (m.write a bs) a bs := by
  intro i h
  rw [Mem.write_apply, dif_pos (by omega)]
  congr 1; omega

theorem holds_append (m : Mem) (a : Nat) (xs ys : List Byte) :
    holds m a (xs ++ ys) ↔ holds m a xs ∧ holds m (a + xs.length) ys := by
  constructor
  · intro h
    constructor
    · intro i hi
      have := h i (by rw [List.length_append]; omega)
      rw [this, List.getElem_append_left hi]
    · intro i hi
      have := h (xs.length + i) (by rw [List.length_append]; omega)
      rw [← Nat.add_assoc] at this
      rw [this, List.getElem_append_right (by omega)]
      congr 1; omega
  · intro ⟨h1, h2⟩ i hi
    by_cases hx : i < xs.length
    · rw [h1 i hx, List.getElem_append_left hx]
    · rw [List.getElem_append_right (by omega)]
      have := h2 (i - xs.length) (by rw [List.length_append] at hi; omega)
      rw [← this]; congr 1; omega

theorem holds_of_eq_on (m₁ m₂ : Mem) (a : Nat) (bs : List Byte) (h : holds m₁ a bs)
    (he : ∀ x, a ≤ x → x < a + bs.length → m₂ x = m₁ x) : holds m₂ a bs := by
  intro i hi; rw [he _ (by omega) (by omega)]; exact h i hi

theorem Mem.write_append (m : Mem) (a : Nat) (xs ys : List Byte) :
    m.write a (xs ++ ys) = (m.write a xs).write (a + xs.length) ys := by
  induction xs generalizing m a with
  | nil => simp [Mem.write]
  | cons x xs ih =>
    simp only [List.cons_append, Mem.write, List.length_cons]
    rw [ih]
    congr 1; omega

theorem read_of_holds (m : Mem) (a : Nat) (bs : List Byte) (h : holds m a bs) :
    Mem.read m a bs.length = bs := by
  induction bs generalizing a with
  | nil => rfl
  | cons b bs ih =>
    simp only [List.length_cons, Mem.read]
    have h0 := h 0 (by simp)
    simp only [Nat.add_zero, List.getElem_cons_zero] at h0
    rw [h0, ih (a + 1)]
    intro i hi
    have := h (i + 1) (by simp; omega)
    rw [show a + (i + 1) = a + 1 + i by omega] at this
    simpa using this

/-- A big-endian `k`-byte integer held in memory reads back as the value. -/
theorem beN_of_holds (m : Mem) (a k n : Nat) (h : holds m a (bytesBE k n)) :
    beN m a k = n % 2 ^ (8 * k) := by
  apply Nat.eq_of_testBit_eq; intro j
  rw [beN_testBit, Nat.testBit_mod_two_pow]
  by_cases hj : j < 8 * k
  · have hi : k - 1 - j / 8 < (bytesBE k n).length := by rw [bytesBE_length]; omega
    rw [h _ hi, bytesBE_get, Fin.ofNat_256_testBit, div_256_pow_testBit]
    have e1 : j % 8 + 8 * (k - 1 - (k - 1 - j / 8)) = j := by omega
    have e2 : j % 8 < 8 := by omega
    rw [e1]; simp [hj, e2]
  · simp [hj]

theorem rdBe_of_holds (e : Endian) (k : Nat) (hk : k = 1 ∨ k = 2 ∨ k = 4 ∨ k = 8) (m : Mem) (a n : Nat)
    (h : holds m a (bytesBE k n)) : rdBe e k m a = n % 2 ^ (8 * k) := by
  rcases hk with rfl | rfl | rfl | rfl
  · have := beN_of_holds m a 1 n h
    simp only [beN, Nat.zero_add, Nat.mul_zero, Nat.add_zero] at this
    simpa [rdBe] using this
  · simp only [rdBe, beCpu16_load]; exact beN_of_holds m a 2 n h
  · simp only [rdBe, beCpu32_load]; exact beN_of_holds m a 4 n h
  · simp only [rdBe, beCpu64_load]; exact beN_of_holds m a 8 n h

theorem bytesBE_mod (k n : Nat) : bytesBE k (n % 2 ^ (8 * k)) = bytesBE k n := by
  apply List.ext_getElem
  · simp [bytesBE_length]
  · intro i h1 h2
    have hi : i < k := by simpa [bytesBE_length] using h1
    rw [bytesBE_get, bytesBE_get]
    apply byte_ext; intro j hj
    simp only [Fin.ofNat_256_testBit, div_256_pow_testBit, Nat.testBit_mod_two_pow, hj, decide_true, Bool.true_and]
    have : j + 8 * (k - 1 - i) < 8 * k := by omega
    simp [this]

/-- `*(uintN_t*)a = CpuToBeN(x)` writes the big-endian bytes of `x`, on either host. -/
theorem wrBe_eq_write (e : Endian) (k : Nat) (hk : k = 1 ∨ k = 2 ∨ k = 4 ∨ k = 8) (m : Mem) (a x : Nat) :
    wrBe e k m a x = m.write a (bytesBE k x) := by
  rcases hk with rfl | rfl | rfl | rfl
  · simp [wrBe, bytesBE, Mem.write]
  · simp only [wrBe, store_beCpu16]
    rw [show (2:Nat) ^ 16 = 2 ^ (8 * 2) from rfl, bytesBE_mod]
  · simp only [wrBe, store_beCpu32]
    rw [show (2:Nat) ^ 32 = 2 ^ (8 * 4) from rfl, bytesBE_mod]
  · simp only [wrBe, store_beCpu64]
    rw [show (2:Nat) ^ 64 = 2 ^ (8 * 8) from rfl, bytesBE_mod]

theorem flatMap_bytesBE_length (k : Nat) (xs : List Nat) :
    (xs.flatMap (bytesBE k)).length = k * xs.length := by
  induction xs with
  | nil => simp
  | cons x xs ih => simp only [List.flatMap_cons, List.length_append, bytesBE_length, ih, List.length_cons]; rw [Nat.mul_succ]; omega

/-- The element loop of the encoder writes the concatenated big-endian elements. -/
theorem wrElems_eq_write (e : Endian) (k : Nat) (hk : k = 1 ∨ k = 2 ∨ k = 4 ∨ k = 8) (m : Mem) (a : Nat)
    (xs : List Nat) : wrElems e k m a xs = m.write a (xs.flatMap (bytesBE k)) := by
  induction xs generalizing m a with
  | nil => rfl
  | cons x xs ih =>
    simp only [wrElems, List.flatMap_cons]
    rw [ih, wrBe_eq_write e k hk, Mem.write_append, bytesBE_length]

/-- The element loop of the decoder reads them back. -/
theorem rdElems_of_holds (e : Endian) (k : Nat) (hk : k = 1 ∨ k = 2 ∨ k = 4 ∨ k = 8) (m : Mem) (a : Nat)
    (xs : List Nat) (hx : ∀ x ∈ xs, x < 2 ^ (8 * k)) (h : holds m a (xs.flatMap (bytesBE k))) :
    rdElems e k m a xs.length = xs := by
  induction xs generalizing a with
  | nil => rfl
  | cons x xs ih =>
    simp only [List.flatMap_cons] at h
    obtain ⟨h1, h2⟩ := (holds_append m a _ _).mp h
    rw [bytesBE_length] at h2
    simp only [List.length_cons, rdElems]
    rw [rdBe_of_holds e k hk m a x h1, Nat.mod_eq_of_lt (hx x (by simp)), ih (a + k) (fun y hy => hx y (by simp [hy])) h2]

end O1722
