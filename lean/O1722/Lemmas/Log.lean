/-
  Lemmas/Log.lean — every memory access the loops of Utils.c perform lies inside the
  quadlets that contain the field; reads only for the reader.
-/
import O1722.Lemmas.Set

namespace O1722

/-- Number of quadlets a field spans, counted from its first quadlet. -/
def Desc.quadlets (d : Desc) : Nat := (d.offset + d.bits + 31) / 32

/-- An access made by Utils.c on behalf of descriptor `d` of the PDU at `pdu`. -/
def FieldAccess (d : Desc) (pdu : Nat) (a : Access) : Prop :=
  a.width = 4 ∧ a.align = 1 ∧ pdu + 4 * d.quadlet ≤ a.addr ∧
    a.addr + 4 ≤ pdu + 4 * (d.quadlet + d.quadlets)

def PosInv (d : Desc) (qo pb : Nat) : Prop :=
  pb ≤ d.bits ∧ ((pb = 0 ∧ qo = 0) ∨ (0 < pb ∧ d.offset + pb = 32 * qo) ∨ pb = d.bits)

theorem posInv_step (d : Desc) (hd : d.Valid) (qo pb : Nat) (h : PosInv d qo pb) (hlt : pb < d.bits) :
    PosInv d ((qo + 1) % 256) ((pb + quadletBits d pb) % 256)
      ∧ (d.quadlet + qo) % 256 = d.quadlet + qo ∧ qo + 1 ≤ d.quadlets := by
  obtain ⟨g1, g2, g3, g4, g5, g6, g7, g8⟩ := chunk_geom d hd qo pb hlt h.2
  refine ⟨⟨?_, ?_⟩, g4, ?_⟩
  · rw [g5]; exact g2
  · rw [g5]
    rcases g7 with h' | h'
    · exact Or.inr (Or.inr h')
    · exact Or.inr (Or.inl h')
  · unfold Desc.quadlets
    rcases h.2 with ⟨h0, hq0⟩ | ⟨hp, hal⟩ | heq
    · omega
    · omega
    · omega

theorem getLoop_log (e : Endian) (d : Desc) (hd : d.Valid) (m : Mem) (pdu : Nat) :
    ∀ fuel qo pb res log, PosInv d qo pb →
      ∀ a ∈ (getLoop e d m pdu fuel qo pb res log).2,
        a ∈ log ∨ (FieldAccess d pdu a ∧ a.write = false) := by
  intro fuel
  induction fuel with
  | zero => intro qo pb res log _ a ha; exact Or.inl ha
  | succ fuel ih =>
    intro qo pb res log inv a ha
    rw [getLoop] at ha
    by_cases hlt : pb < d.bits
    · rw [if_pos hlt] at ha
      obtain ⟨inv', hq, hle⟩ := posInv_step d hd qo pb inv hlt
      rcases ih _ _ _ _ inv' a ha with h | h
      · rcases List.mem_append.mp h with h1 | h1
        · exact Or.inl h1
        · right
          simp only [List.mem_singleton] at h1
          subst h1
          rw [hq]
          refine ⟨⟨rfl, rfl, ?_, ?_⟩, rfl⟩ <;> simp only <;> omega
      · exact Or.inr h
    · rw [if_neg hlt] at ha; exact Or.inl ha

theorem setLoop_log (e : Endian) (d : Desc) (hd : d.Valid) (pdu v : Nat) :
    ∀ fuel qo pb m log, PosInv d qo pb →
      ∀ a ∈ (setLoop e d pdu v fuel qo pb m log).2, a ∈ log ∨ FieldAccess d pdu a := by
  intro fuel
  induction fuel with
  | zero => intro qo pb m log _ a ha; exact Or.inl ha
  | succ fuel ih =>
    intro qo pb m log inv a ha
    rw [setLoop] at ha
    by_cases hlt : pb < d.bits
    · rw [if_pos hlt] at ha
      obtain ⟨inv', hq, hle⟩ := posInv_step d hd qo pb inv hlt
      rcases ih _ _ _ _ inv' a ha with h | h
      · rcases List.mem_append.mp h with h1 | h1
        · exact Or.inl h1
        · right
          simp only [List.mem_cons, List.mem_nil_iff, or_false] at h1
          rcases h1 with h1 | h1 <;> subst h1 <;> rw [hq] <;>
            (refine ⟨rfl, rfl, ?_, ?_⟩ <;> simp only <;> omega)
      · exact Or.inr h
    · rw [if_neg hlt] at ha; exact Or.inl ha

theorem posInv_init (d : Desc) : PosInv d 0 0 := ⟨Nat.zero_le _, Or.inl ⟨rfl, rfl⟩⟩

/-- Every access of `Avtp_GetField` is a read inside the field's quadlets. -/
theorem getFieldLog_accesses (e : Endian) (tbl : List Desc) (n : Nat) (m : Mem) (pdu i : Nat)
    (d : Desc) (hrow : tbl[i]? = some d) (hd : d.Valid) :
    ∀ a ∈ (getFieldLog e tbl n m (some pdu) i).2, FieldAccess d pdu a ∧ a.write = false := by
  intro a ha
  unfold getFieldLog at ha
  simp only at ha
  split at ha
  · rw [hrow] at ha
    rcases getLoop_log e d hd m pdu _ _ _ _ _ (posInv_init d) a ha with h | h
    · cases h
    · exact h
  · cases ha

/-- Every access of `Avtp_SetField` lies inside the field's quadlets. -/
theorem setFieldLog_accesses (e : Endian) (tbl : List Desc) (n : Nat) (m : Mem) (pdu i v : Nat)
    (d : Desc) (hrow : tbl[i]? = some d) (hd : d.Valid) :
    ∀ a ∈ (setFieldLog e tbl n m (some pdu) i v).2, FieldAccess d pdu a := by
  intro a ha
  unfold setFieldLog at ha
  simp only at ha
  split at ha
  · rw [hrow] at ha
    rcases setLoop_log e d hd pdu _ _ _ _ _ _ (posInv_init d) a ha with h | h
    · cases h
    · exact h
  · cases ha

/-- A NULL PDU or an identifier outside the table makes no access at all. -/
theorem getFieldLog_rejected (e : Endian) (tbl : List Desc) (n : Nat) (m : Mem) (pdu : Option Nat)
    (i : Nat) (h : pdu = none ∨ n ≤ i) : getFieldLog e tbl n m pdu i = (0, []) := by
  unfold getFieldLog
  rcases h with h | h
  · subst h; rfl
  · cases pdu with
    | none => rfl
    | some p => simp only [Nat.not_lt.mpr h, if_false]

theorem setFieldLog_rejected (e : Endian) (tbl : List Desc) (n : Nat) (m : Mem) (pdu : Option Nat)
    (i v : Nat) (h : pdu = none ∨ n ≤ i) : setFieldLog e tbl n m pdu i v = (m, []) := by
  unfold setFieldLog
  rcases h with h | h
  · subst h; rfl
  · cases pdu with
    | none => rfl
    | some p => simp only [Nat.not_lt.mpr h, if_false]

end O1722
