/-
  Lemmas/Mem.lean — byte stores, typed loads/stores on either host byte order, and their
  wire-bit characterisation.  Helper lemmas only.
-/
import O1722.Lemmas.Byteorder

namespace O1722

theorem Mem.write_outside (m : Mem) (a : Nat) (bs : List Byte) (x : Nat)
    (h : x < a ∨ a + bs.length ≤ x) : (m.write a bs) x = m x := by
  rw [Mem.write_apply]
  have : ¬ (a ≤ x ∧ x < a + bs.length) := by omega
  rw [dif_neg this]

theorem bytesBE_length (k x : Nat) : (bytesBE k x).length = k := by
  induction k with
  | zero => rfl
  | succ k ih => simp [bytesBE, ih]

theorem bytesLE_length (k x : Nat) : (bytesLE k x).length = k := by
  induction k generalizing x with
  | zero => rfl
  | succ k ih => simp [bytesLE, ih]

theorem bytesBE_get (k x i : Nat) (h : i < (bytesBE k x).length) :
    (bytesBE k x)[i] = Fin.ofNat 256 (x / 256 ^ (k - 1 - i)) := by
  induction k generalizing i with
  | zero => simp [bytesBE] at h
  | succ k ih =>
    cases i with
    | zero => simp [bytesBE]
    | succ i =>
      simp only [bytesBE, List.getElem_cons_succ]
      rw [ih]
      have : k + 1 - 1 - (i + 1) = k - 1 - i := by omega
      rw [this]

theorem bytesLE_get (k x i : Nat) (h : i < (bytesLE k x).length) :
    (bytesLE k x)[i] = Fin.ofNat 256 (x / 256 ^ i) := by
  induction k generalizing i x with
  | zero => simp [bytesLE] at h
  | succ k ih =>
    cases i with
    | zero => simp [bytesLE]
    | succ i =>
      simp only [bytesLE, List.getElem_cons_succ]
      rw [ih]
      rw [Nat.pow_succ, Nat.mul_comm, Nat.div_div_eq_div_mul]

theorem Fin.ofNat_256_testBit (x j : Nat) :
    (Fin.ofNat 256 x).val.testBit j = (decide (j < 8) && x.testBit j) := by
  show (x % 256).testBit j = _
  rw [show (256 : Nat) = 2 ^ 8 from rfl, Nat.testBit_mod_two_pow]

theorem byte_ext (a b : Byte) (h : ∀ j, j < 8 → a.val.testBit j = b.val.testBit j) : a = b := by
  apply Fin.ext
  apply Nat.eq_of_testBit_eq
  intro j
  by_cases hj : j < 8
  · exact h j hj
  · have ha : a.val < 2 ^ j := Nat.lt_of_lt_of_le a.isLt (by
      rw [show (256 : Nat) = 2 ^ 8 from rfl]; exact Nat.pow_le_pow_right (by decide) (by omega))
    have hb : b.val < 2 ^ j := Nat.lt_of_lt_of_le b.isLt (by
      rw [show (256 : Nat) = 2 ^ 8 from rfl]; exact Nat.pow_le_pow_right (by decide) (by omega))
    rw [Nat.testBit_lt_two_pow ha, Nat.testBit_lt_two_pow hb]

theorem div_256_pow_testBit (x i j : Nat) : (x / 256 ^ i).testBit j = x.testBit (j + 8 * i) := by
  rw [show (256 : Nat) = 2 ^ 8 from rfl, ← Nat.pow_mul, Nat.testBit_div_two_pow]

/-! ### load / store on either host byte order -/

theorem beCpu16_load (e : Endian) (m : Mem) (a : Nat) : beCpu16 e (load e 2 m a) = beN m a 2 := by
  cases e
  · apply Nat.eq_of_testBit_eq; intro j
    simp only [beCpu16, load, bswap16_testBit, leN_testBit, beN_testBit]
    by_cases hj : j < 16
    · have e1 : (8 * (1 - j / 8) + j % 8) / 8 = 2 - 1 - j / 8 := by omega
      have e2 : (8 * (1 - j / 8) + j % 8) % 8 = j % 8 := by omega
      have e3 : 8 * (1 - j / 8) + j % 8 < 8 * 2 := by omega
      rw [e1, e2]; simp [hj, e3]
    · simp [hj]
  · rfl

theorem beCpu32_load (e : Endian) (m : Mem) (a : Nat) : beCpu32 e (load e 4 m a) = beN m a 4 := by
  cases e
  · apply Nat.eq_of_testBit_eq; intro j
    simp only [beCpu32, load, bswap32_testBit, leN_testBit, beN_testBit]
    by_cases hj : j < 32
    · have e1 : (8 * (3 - j / 8) + j % 8) / 8 = 4 - 1 - j / 8 := by omega
      have e2 : (8 * (3 - j / 8) + j % 8) % 8 = j % 8 := by omega
      have e3 : 8 * (3 - j / 8) + j % 8 < 8 * 4 := by omega
      rw [e1, e2]; simp [hj, e3]
    · simp [hj]
  · rfl

theorem beCpu64_load (e : Endian) (m : Mem) (a : Nat) : beCpu64 e (load e 8 m a) = beN m a 8 := by
  cases e
  · apply Nat.eq_of_testBit_eq; intro j
    simp only [beCpu64, load, bswap64_testBit, leN_testBit, beN_testBit]
    by_cases hj : j < 64
    · have e1 : (8 * (7 - j / 8) + j % 8) / 8 = 8 - 1 - j / 8 := by omega
      have e2 : (8 * (7 - j / 8) + j % 8) % 8 = j % 8 := by omega
      have e3 : 8 * (7 - j / 8) + j % 8 < 8 * 8 := by omega
      rw [e1, e2]; simp [hj, e3]
    · simp [hj]
  · rfl

theorem bytesLE_bswap16 (x : Nat) : bytesLE 2 (bswap16 x) = bytesBE 2 x := by
  apply List.ext_getElem
  · simp [bytesLE_length, bytesBE_length]
  · intro i h1 h2
    rw [bytesLE_get, bytesBE_get]
    apply byte_ext; intro j hj
    have hi : i < 2 := by simpa [bytesLE_length] using h1
    simp only [Fin.ofNat_256_testBit, div_256_pow_testBit, bswap16_testBit]
    have e1 : 8 * (1 - (j + 8 * i) / 8) + (j + 8 * i) % 8 = j + 8 * (2 - 1 - i) := by omega
    have e2 : j + 8 * i < 16 := by omega
    rw [e1]; simp [hj, e2]

theorem bytesLE_bswap32 (x : Nat) : bytesLE 4 (bswap32 x) = bytesBE 4 x := by
  apply List.ext_getElem
  · simp [bytesLE_length, bytesBE_length]
  · intro i h1 h2
    rw [bytesLE_get, bytesBE_get]
    apply byte_ext; intro j hj
    have hi : i < 4 := by simpa [bytesLE_length] using h1
    simp only [Fin.ofNat_256_testBit, div_256_pow_testBit, bswap32_testBit]
    have e1 : 8 * (3 - (j + 8 * i) / 8) + (j + 8 * i) % 8 = j + 8 * (4 - 1 - i) := by omega
    have e2 : j + 8 * i < 32 := by omega
    rw [e1]; simp [hj, e2]

theorem bytesLE_bswap64 (x : Nat) : bytesLE 8 (bswap64 x) = bytesBE 8 x := by
  apply List.ext_getElem
  · simp [bytesLE_length, bytesBE_length]
  · intro i h1 h2
    rw [bytesLE_get, bytesBE_get]
    apply byte_ext; intro j hj
    have hi : i < 8 := by simpa [bytesLE_length] using h1
    simp only [Fin.ofNat_256_testBit, div_256_pow_testBit, bswap64_testBit]
    have e1 : 8 * (7 - (j + 8 * i) / 8) + (j + 8 * i) % 8 = j + 8 * (8 - 1 - i) := by omega
    have e2 : j + 8 * i < 64 := by omega
    rw [e1]; simp [hj, e2]

theorem store_beCpu16 (e : Endian) (m : Mem) (a x : Nat) :
    store e 2 m a (beCpu16 e x) = m.write a (bytesBE 2 x) := by
  cases e
  · simp only [store, beCpu16, bytesLE_bswap16]
  · rfl

theorem store_beCpu32 (e : Endian) (m : Mem) (a x : Nat) :
    store e 4 m a (beCpu32 e x) = m.write a (bytesBE 4 x) := by
  cases e
  · simp only [store, beCpu32, bytesLE_bswap32]
  · rfl

theorem store_beCpu64 (e : Endian) (m : Mem) (a x : Nat) :
    store e 8 m a (beCpu64 e x) = m.write a (bytesBE 8 x) := by
  cases e
  · simp only [store, beCpu64, bytesLE_bswap64]
  · rfl

/-- Wire bits after a big-endian quadlet store at quadlet `q` of the PDU. -/
theorem wireBit_write_be32 (m : Mem) (pdu q x i : Nat) :
    wireBit (m.write (pdu + q * 4) (bytesBE 4 x)) pdu i
      = if 32 * q ≤ i ∧ i < 32 * q + 32 then x.testBit (32 * q + 31 - i) else wireBit m pdu i := by
  unfold wireBit
  rw [Mem.write_apply]
  simp only [bytesBE_length]
  by_cases h : 32 * q ≤ i ∧ i < 32 * q + 32
  · have h' : pdu + q * 4 ≤ pdu + i / 8 ∧ pdu + i / 8 < pdu + q * 4 + 4 := by omega
    rw [dif_pos h', if_pos h, bytesBE_get, Fin.ofNat_256_testBit, div_256_pow_testBit]
    have e1 : 7 - i % 8 + 8 * (4 - 1 - (pdu + i / 8 - (pdu + q * 4))) = 32 * q + 31 - i := by omega
    have e2 : 7 - i % 8 < 8 := by omega
    rw [e1]; simp [e2]
  · have h' : ¬ (pdu + q * 4 ≤ pdu + i / 8 ∧ pdu + i / 8 < pdu + q * 4 + 4) := by omega
    rw [dif_neg h', if_neg h]

end O1722
