#!/bin/sh
# Run every registered quick (or $1=thorough) check on /repo's current tree, 4 at a time;
# prints one status line per property.
cd "$(dirname "$0")"
tier=${1:-quick}
ids=$(python3 -c "import json;print(' '.join(c['property_id'] for c in json.load(open('MANIFEST.json'))['checks']))")
echo $ids | tr ' ' '\n' | xargs -P 4 -I{} sh -c "./check {} --tier $tier > build/out_{}.txt 2>&1; echo {} exit=\$? \$(grep -c VIOLATION build/out_{}.txt) violations"
