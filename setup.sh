#!/bin/sh
# Build the framework from files on disk only (offline): Lean library (Spec, Model, Lemmas,
# Props), the native driver, then a smoke run of translator + harness build.
set -e
cd "$(dirname "$0")"
mkdir -p build evidence replays lean/O1722/Gen
python3 tools/translate.py --force >/dev/null
(cd lean && lake build O1722 driver O1722.Gen.Data)
python3 - <<'PY'
import sys
sys.path.insert(0, "tools")
import common
common.build_harness("asan")
print("setup ok")
PY
# code-level stage: serialise the current sources into Gen/Cir.lean and build the refinement proofs
python3 tools/cir.py >/dev/null
python3 -c "import sys; sys.path.insert(0, 'tools'); import pipeline; pipeline.write_inst_acc(); pipeline.write_inst_init(); pipeline.write_inst_legacy()"
(cd lean && lake build O1722.CSem.Frame O1722.Refine.Props O1722.Refine.PropsVss O1722.Refine.PropsCan O1722.Refine.CanLen O1722.Refine.VssCalc O1722.Gen.InstAcc O1722.Gen.InstInit O1722.Gen.InstLegacy)
