#!/bin/sh
# Repository's own test suite (192 cmocka tests), hooks guard OFF (no hooks exist).
set -e
cmake -G Ninja -S /repo -B /repo/_build -DUNIT_TESTING=ON >/dev/null
cmake --build /repo/_build >/dev/null
ctest --test-dir /repo/_build -j8 --timeout 900 "$@"
