/* threads_main.c — C16 stress: N threads run deterministic histories of real library calls,
   each on its own PDUs plus read-only calls on one shared PDU; afterwards every thread's
   buffers must equal what the same history produces when run alone, and every shared read
   must have returned the initial value.  Built with -fsanitize=thread (any data race in the
   library is reported by TSan and fails the run). */
#include <pthread.h>
#include <stdio.h>
#include <stdlib.h>
#include <string.h>
#include <stdint.h>
#include "hv.h"

#define NBUF 4
typedef struct { int tid; uint64_t seed; uint8_t bufs[NBUF][64]; int fmt[NBUF]; uint64_t shared_sum; int nops; } job_t;
static uint8_t shared_pdu[64];
static int shared_fmt;

static uint64_t rnd(uint64_t* s) { *s ^= *s << 13; *s ^= *s >> 7; *s ^= *s << 17; return *s; }

static void run_job(job_t* j) {
    uint64_t s = j->seed;
    for (int b = 0; b < NBUF; b++) { j->fmt[b] = (int)(rnd(&s) % hv_nformats); for (int i = 0; i < 64; i++) j->bufs[b][i] = (uint8_t)rnd(&s); }
    j->shared_sum = 0;
    for (int k = 0; k < j->nops; k++) {
        int b = (int)(rnd(&s) % NBUF);
        const hv_format_t* f = hv_formats[j->fmt[b]];
        int idx = (int)(rnd(&s) % f->nfields);
        uint64_t v = rnd(&s), out = 0; int ret;
        switch (rnd(&s) % 5) {
            case 0: f->set(j->bufs[b], idx, 'g', v); break;
            case 1: if (f->set(j->bufs[b], idx, 'd', v) == -1) f->set(j->bufs[b], idx, 'g', v); break;
            case 2: f->get(j->bufs[b], idx, 'g', &out); j->bufs[b][63] ^= (uint8_t)out; break;
            case 3: if (f->init(j->bufs[b], 'c', 0, &ret) == -1) f->get(j->bufs[b], idx, 'g', &out); break;
            default: {   /* read-only call on the shared PDU */
                const hv_format_t* sf = hv_formats[shared_fmt];
                sf->get(shared_pdu, (int)(rnd(&s) % sf->nfields), 'g', &out); j->shared_sum += out; break; }
        }
    }
}
static void* worker(void* p) { run_job((job_t*)p); return NULL; }

/* ---- phase 2: PDUs of DIFFERENT threads packed back to back at exactly their header length
   (as ACF messages are in one packet); every thread writes only its own slots.  An accessor that
   touches a byte behind its header races with the neighbour's owner. ---- */
#define NSLOT 64
typedef struct { int fmt; size_t off; } slot_t;
static slot_t slots[NSLOT];
static uint8_t* arena; static size_t arena_len;
static int g_nthreads;
typedef struct { int tid; uint64_t seed; int nops; } pjob_t;

static void run_packed(pjob_t* j, uint8_t* mem) {
    uint64_t s = j->seed;
    for (int k = 0; k < j->nops; k++) {
        int sl = (int)(rnd(&s) % (NSLOT / g_nthreads)) * g_nthreads + j->tid;      /* a slot this thread owns */
        const hv_format_t* f = hv_formats[slots[sl].fmt];
        int idx = (int)(rnd(&s) % f->nfields);
        uint64_t v = rnd(&s), out = 0; int ret;
        uint8_t* pdu = mem + slots[sl].off;
        switch (rnd(&s) % 4) {
            case 0: f->set(pdu, idx, 'g', v); break;
            case 1: if (f->set(pdu, idx, 'd', v) == -1) f->set(pdu, idx, 'g', v); break;
            case 2: f->get(pdu, idx, 'g', &out); break;
            default: if (f->init(pdu, 'c', 0, &ret) == -1) f->get(pdu, idx, 'd', &out); break;
        }
    }
}
static void* pworker(void* p) { run_packed((pjob_t*)p, arena); return NULL; }

/* ---- phase 3: several threads encode the SAME read-only source arrays into their own PDUs
   (writers must not touch the caller's source objects). ---- */
#include "avtp/acf/custom/Vss.h"
static uint32_t src_u32[6] = {1, 0xdeadbeef, 3, 4, 0x80000000u, 6};
static uint64_t src_u64[3] = {0x0102030405060708ull, 2, 0xffffffffffffffffull};
static uint16_t src_u16[5] = {1, 0xfffe, 3, 0x8001, 5};
static char src_str[] = "Vehicle.Speed";
typedef struct { int tid; int nops; uint8_t pdu[128]; } vjob_t;
static void run_vss(vjob_t* j) {
    for (int k = 0; k < j->nops; k++) {
        memset(j->pdu, 0, 12);
        Avtp_Vss_t* p = (Avtp_Vss_t*)j->pdu;
        Avtp_Vss_SetAddrMode(p, VSS_STATIC_ID_MODE);
        VssPath_t path; path.vss_static_id_path = 7; Avtp_Vss_SetVssPath(p, &path);
        VssData_t d;
        switch (k % 4) {
            case 0: { VssDataUint32Array_t a = { sizeof src_u32, src_u32 }; Avtp_Vss_SetDatatype(p, VSS_UINT32_ARRAY); d.data_uint32_array = &a; Avtp_Vss_SetVssData(p, &d); break; }
            case 1: { VssDataUint64Array_t a = { sizeof src_u64, src_u64 }; Avtp_Vss_SetDatatype(p, VSS_UINT64_ARRAY); d.data_uint64_array = &a; Avtp_Vss_SetVssData(p, &d); break; }
            case 2: { VssDataUint16Array_t a = { sizeof src_u16, src_u16 }; Avtp_Vss_SetDatatype(p, VSS_UINT16_ARRAY); d.data_uint16_array = &a; Avtp_Vss_SetVssData(p, &d); break; }
            default: { VssDataString_t a = { sizeof src_str - 1, src_str }; Avtp_Vss_SetDatatype(p, VSS_STRING); d.data_string = &a; Avtp_Vss_SetVssData(p, &d); break; }
        }
    }
}
static void* vworker(void* p) { run_vss((vjob_t*)p); return NULL; }

int main(int argc, char** argv) {
    int nthreads = argc > 1 ? atoi(argv[1]) : 8, nops = argc > 2 ? atoi(argv[2]) : 20000;
    uint64_t seed = argc > 3 ? strtoull(argv[3], NULL, 10) : 1;
    uint64_t s = seed * 0x9E3779B97F4A7C15ull + 1;
    shared_fmt = (int)(rnd(&s) % hv_nformats);
    for (int i = 0; i < 64; i++) shared_pdu[i] = (uint8_t)rnd(&s);
    job_t* par = calloc(nthreads, sizeof(job_t)); job_t* seq = calloc(nthreads, sizeof(job_t));
    pthread_t* th = calloc(nthreads, sizeof(pthread_t));
    for (int t = 0; t < nthreads; t++) { par[t].tid = seq[t].tid = t; par[t].seed = seq[t].seed = rnd(&s) | 1; par[t].nops = seq[t].nops = nops; }
    for (int t = 0; t < nthreads; t++) pthread_create(&th[t], NULL, worker, &par[t]);
    for (int t = 0; t < nthreads; t++) pthread_join(th[t], NULL);
    for (int t = 0; t < nthreads; t++) run_job(&seq[t]);        /* each thread's history alone */
    int bad = 0;
    for (int t = 0; t < nthreads; t++) {
        if (memcmp(par[t].bufs, seq[t].bufs, sizeof par[t].bufs) || par[t].shared_sum != seq[t].shared_sum) { printf("MISMATCH thread %d\n", t); bad = 1; }
    }
    /* phase 2 */
    g_nthreads = nthreads;
    arena_len = 0;
    for (int k = 0; k < NSLOT; k++) { slots[k].fmt = (int)(rnd(&s) % hv_nformats); slots[k].off = arena_len; arena_len += (size_t)hv_formats[slots[k].fmt]->header_len_spec; }
    arena = malloc(arena_len); uint8_t* ref = malloc(arena_len);
    for (size_t i = 0; i < arena_len; i++) ref[i] = arena[i] = (uint8_t)rnd(&s);
    pjob_t* pj = calloc(nthreads, sizeof(pjob_t));
    for (int t = 0; t < nthreads; t++) { pj[t].tid = t; pj[t].seed = rnd(&s) | 1; pj[t].nops = nops; }
    for (int t = 0; t < nthreads; t++) pthread_create(&th[t], NULL, pworker, &pj[t]);
    for (int t = 0; t < nthreads; t++) pthread_join(th[t], NULL);
    for (int t = 0; t < nthreads; t++) run_packed(&pj[t], ref);       /* slots are disjoint: any order gives the same bytes */
    if (memcmp(arena, ref, arena_len)) { printf("MISMATCH packed arena\n"); bad = 1; }
    /* phase 3 */
    vjob_t* vj = calloc(nthreads, sizeof(vjob_t));
    uint32_t keep32[6]; uint64_t keep64[3]; uint16_t keep16[5];
    memcpy(keep32, src_u32, sizeof keep32); memcpy(keep64, src_u64, sizeof keep64); memcpy(keep16, src_u16, sizeof keep16);
    for (int t = 0; t < nthreads; t++) { vj[t].tid = t; vj[t].nops = nops / 4 + 4; }
    for (int t = 0; t < nthreads; t++) pthread_create(&th[t], NULL, vworker, &vj[t]);
    for (int t = 0; t < nthreads; t++) pthread_join(th[t], NULL);
    vjob_t alone; memset(&alone, 0, sizeof alone); alone.nops = nops / 4 + 4; run_vss(&alone);
    for (int t = 0; t < nthreads; t++) if (memcmp(vj[t].pdu, alone.pdu, sizeof alone.pdu)) { printf("MISMATCH vss thread %d\n", t); bad = 1; }
    if (memcmp(keep32, src_u32, sizeof keep32) || memcmp(keep64, src_u64, sizeof keep64) || memcmp(keep16, src_u16, sizeof keep16)) { printf("MISMATCH shared source changed\n"); bad = 1; }
    printf("threads=%d ops=%d %s\n", nthreads, nops, bad ? "DIFFERENT" : "same-as-sequential");
    return bad;
}
