/* threads_main.c — C16 stress: N threads run deterministic histories of real library calls,
   each on its own PDUs plus read-only calls on one shared PDU; afterwards every thread's
   buffers must equal what the same history produces when run alone, and every shared read
   must have returned the initial value.  Built with -fsanitize=thread (any data race in the
   library is reported by TSan and fails the run). */
#include <pthread.h>
#include <stdio.h>
#include <stdlib.h>
#include <string.h>
#include <stdint.h>
#include "hv.h"

#define NBUF 4
typedef struct { int tid; uint64_t seed; uint8_t bufs[NBUF][64]; int fmt[NBUF]; uint64_t shared_sum; int nops; } job_t;
static uint8_t shared_pdu[64];
static int shared_fmt;

static uint64_t rnd(uint64_t* s) { *s ^= *s << 13; *s ^= *s >> 7; *s ^= *s << 17; return *s; }

static void run_job(job_t* j) {
    uint64_t s = j->seed;
    for (int b = 0; b < NBUF; b++) { j->fmt[b] = (int)(rnd(&s) % hv_nformats); for (int i = 0; i < 64; i++) j->bufs[b][i] = (uint8_t)rnd(&s); }
    j->shared_sum = 0;
    for (int k = 0; k < j->nops; k++) {
        int b = (int)(rnd(&s) % NBUF);
        const hv_format_t* f = hv_formats[j->fmt[b]];
        int idx = (int)(rnd(&s) % f->nfields);
        uint64_t v = rnd(&s), out = 0; int ret;
        switch (rnd(&s) % 5) {
            case 0: f->set(j->bufs[b], idx, 'g', v); break;
            case 1: if (f->set(j->bufs[b], idx, 'd', v) == -1) f->set(j->bufs[b], idx, 'g', v); break;
            case 2: f->get(j->bufs[b], idx, 'g', &out); j->bufs[b][63] ^= (uint8_t)out; break;
            case 3: if (f->init(j->bufs[b], 'c', 0, &ret) == -1) f->get(j->bufs[b], idx, 'g', &out); break;
            default: {   /* read-only call on the shared PDU */
                const hv_format_t* sf = hv_formats[shared_fmt];
                sf->get(shared_pdu, (int)(rnd(&s) % sf->nfields), 'g', &out); j->shared_sum += out; break; }
        }
    }
}
static void* worker(void* p) { run_job((job_t*)p); return NULL; }

int main(int argc, char** argv) {
    int nthreads = argc > 1 ? atoi(argv[1]) : 8, nops = argc > 2 ? atoi(argv[2]) : 20000;
    uint64_t seed = argc > 3 ? strtoull(argv[3], NULL, 10) : 1;
    uint64_t s = seed * 0x9E3779B97F4A7C15ull + 1;
    shared_fmt = (int)(rnd(&s) % hv_nformats);
    for (int i = 0; i < 64; i++) shared_pdu[i] = (uint8_t)rnd(&s);
    job_t* par = calloc(nthreads, sizeof(job_t)); job_t* seq = calloc(nthreads, sizeof(job_t));
    pthread_t* th = calloc(nthreads, sizeof(pthread_t));
    for (int t = 0; t < nthreads; t++) { par[t].tid = seq[t].tid = t; par[t].seed = seq[t].seed = rnd(&s) | 1; par[t].nops = seq[t].nops = nops; }
    for (int t = 0; t < nthreads; t++) pthread_create(&th[t], NULL, worker, &par[t]);
    for (int t = 0; t < nthreads; t++) pthread_join(th[t], NULL);
    for (int t = 0; t < nthreads; t++) run_job(&seq[t]);        /* each thread's history alone */
    int bad = 0;
    for (int t = 0; t < nthreads; t++) {
        if (memcmp(par[t].bufs, seq[t].bufs, sizeof par[t].bufs) || par[t].shared_sum != seq[t].shared_sum) { printf("MISMATCH thread %d\n", t); bad = 1; }
    }
    printf("threads=%d ops=%d %s\n", nthreads, nops, bad ? "DIFFERENT" : "same-as-sequential");
    return bad;
}
