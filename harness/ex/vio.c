#define _GNU_SOURCE
#include <stdio.h>
#include <stdlib.h>
#include <string.h>
#include <signal.h>
#include <unistd.h>
#include <poll.h>
#include <time.h>
#include <sys/socket.h>
#include <netinet/in.h>
#include <stdarg.h>
#include <sys/timerfd.h>
#include "vio.h"

vio_q_t vio_net_in, vio_net_out, vio_can_in, vio_can_out, vio_std_out;
jmp_buf vio_done;
int vio_active;

void vio_push(vio_q_t* q, const void* p, size_t n) {
    if (q->tail >= VIO_MAXQ) return;
    uint8_t* c = malloc(n ? n : 1);      /* exact extent: ASan sees overreads of a datagram */
    memcpy(c, p, n);
    q->it[q->tail].p = c; q->it[q->tail].n = n; q->tail++;
}
int vio_pop(vio_q_t* q, vio_item_t* out) {
    if (q->head >= q->tail) return 0;
    *out = q->it[q->head++];
    return 1;
}
void vio_clear(vio_q_t* q) {
    for (int i = 0; i < q->tail; i++) free(q->it[i].p);
    q->head = q->tail = 0;
}
static const char* wd_what = "";
static void on_alarm(int s) { (void)s; printf("WATCHDOG %s\n", wd_what); fflush(stdout); _exit(96); }
void vio_watchdog(int seconds, const char* what) { wd_what = what; signal(SIGALRM, on_alarm); alarm(seconds); }

/* ---- replacements, reached through -Dname=vf_name in the harness build ---- */
ssize_t vf_recv(int fd, void* buf, size_t len, int flags) {
    (void)fd;
    vio_item_t it;
    if (!vio_pop(&vio_net_in, &it)) longjmp(vio_done, 1);
    size_t n = it.n < len ? it.n : len;
    memcpy(buf, it.p, n);
    /* datagram sockets: MSG_TRUNC makes recv return the real length of a truncated datagram */
    return (flags & MSG_TRUNC) ? (ssize_t)it.n : (ssize_t)n;
}
ssize_t vf_recvfrom(int fd, void* buf, size_t len, int flags, struct sockaddr* a, socklen_t* l) {
    (void)a; (void)l; return vf_recv(fd, buf, len, flags);
}
ssize_t vf_sendto(int fd, const void* buf, size_t len, int flags, const struct sockaddr* a, socklen_t l) {
    (void)fd; (void)flags; (void)a; (void)l;
    vio_push(&vio_net_out, buf, len);
    return (ssize_t)len;
}
/* ---- virtual timerfd: fires when the network queue is dry ---- */
static int timer_armed, timer_periodic, timer_budget = 3;
int vf_timerfd_create(int c, int f) { (void)c; (void)f; return VIO_TIMER_FD; }
int vf_timerfd_settime(int fd, int flags, const struct itimerspec* n, struct itimerspec* o) {
    (void)fd; (void)flags; (void)o;
    timer_armed = n->it_value.tv_sec != 0 || n->it_value.tv_nsec != 0;
    timer_periodic = n->it_interval.tv_sec != 0 || n->it_interval.tv_nsec != 0;
    return 0;
}
int vf_socket(int a, int b, int c) { (void)a; (void)b; (void)c; return VIO_NET_FD + 10; }
int vf_ioctl(int fd, unsigned long req, void* arg) { (void)fd; (void)req; (void)arg; return 0; }
int vf_setsockopt(int fd, int l, int o, const void* v, socklen_t n) { (void)fd; (void)l; (void)o; (void)v; (void)n; return 0; }
int vf_bind(int fd, const struct sockaddr* a, socklen_t l) { (void)fd; (void)a; (void)l; return 0; }
int vf_printf(const char* fmt, ...) {
    static char buf[1 << 16];
    va_list ap; va_start(ap, fmt);
    int n = vsnprintf(buf, sizeof buf, fmt, ap);     /* ASan checks %s arguments here */
    va_end(ap);
    if (n > 0) vio_push(&vio_std_out, buf, (size_t)(n < (int)sizeof buf ? n : (int)sizeof buf - 1));
    return n;
}

ssize_t vf_read(int fd, void* buf, size_t len) {
    vio_item_t it;
    if (fd == VIO_TIMER_FD) {
        uint64_t one = 1;
        memcpy(buf, &one, len < sizeof one ? len : sizeof one);
        return (ssize_t)sizeof one;
    }
    if (fd == VIO_CAN_FD) {
        if (!vio_pop(&vio_can_in, &it)) longjmp(vio_done, 1);
        size_t n = it.n < len ? it.n : len;
        memcpy(buf, it.p, n);
        return (ssize_t)n;
    }
    if (fd == VIO_NET_FD) return vf_recv(fd, buf, len, 0);
    longjmp(vio_done, 2);       /* timerfd or stdin: nothing more to do */
}
ssize_t vf_write(int fd, const void* buf, size_t len) {
    if (fd == VIO_CAN_FD) { vio_push(&vio_can_out, buf, len); return (ssize_t)len; }
    vio_push(&vio_std_out, buf, len);
    return (ssize_t)len;
}
int vf_poll(struct pollfd* fds, nfds_t n, int timeout) {
    (void)timeout;
    if (vio_net_in.head < vio_net_in.tail) {
        for (nfds_t i = 0; i < n; i++) fds[i].revents = (i == 0) ? POLLIN : 0;
        return 1;
    }
    /* no datagram left: let an armed timer expire (periodic ones a few times), else stop */
    if (n >= 2 && timer_armed && (!timer_periodic || timer_budget-- > 0)) {
        if (!timer_periodic) timer_armed = 0;
        fds[0].revents = 0; fds[1].revents = POLLIN;
        return 1;
    }
    longjmp(vio_done, 1);
}
static long vclock = 1000;
int vf_clock_gettime(clockid_t c, struct timespec* ts) { (void)c; ts->tv_sec = 1700000000 + vclock / 1000; ts->tv_nsec = (vclock % 1000) * 1000000; vclock += 7; return 0; }
int vf_close(int fd) { (void)fd; return 0; }

/* ---- examples/common/common.c and acf-can-common.c stand-ins ---- */
int create_listener_socket_udp(uint32_t p) { (void)p; return VIO_NET_FD; }
int create_listener_socket(char* i, uint8_t m[], int p) { (void)i; (void)m; (void)p; return VIO_NET_FD; }
int create_talker_socket(int p) { (void)p; return VIO_NET_FD; }
int create_talker_socket_udp(int p) { (void)p; return VIO_NET_FD; }
int setup_socket_address(int fd, const char* i, uint8_t m[], int p, void* a) { (void)fd; (void)i; (void)m; (void)p; (void)a; return 0; }
int setup_udp_socket_address(void* addr, uint32_t port, void* a) { (void)addr; (void)port; (void)a; return 0; }
int setup_can_socket(const char* n, int v) { (void)n; (void)v; return VIO_CAN_FD; }
