/* vio.h — virtual I/O for running the example programs' real main loops in-process:
   sockets, CAN device, clock and timers are replaced (by compile-time renames in the harness
   build only) with queues the driver fills and drains. */
#ifndef VIO_H
#define VIO_H
#include <stddef.h>
#include <stdint.h>
#include <setjmp.h>
#include <sys/types.h>

#define VIO_NET_FD 100
#define VIO_CAN_FD 101
#define VIO_TIMER_FD 102
#define VIO_MAXQ 4096

typedef struct { uint8_t* p; size_t n; } vio_item_t;
typedef struct { vio_item_t it[VIO_MAXQ]; int head, tail; } vio_q_t;

extern vio_q_t vio_net_in;     /* datagrams the listener will recv()        */
extern vio_q_t vio_net_out;    /* packets the talker sendto()'d             */
extern vio_q_t vio_can_in;     /* CAN frames the talker will read()         */
extern vio_q_t vio_can_out;    /* CAN frames the listener write()'s         */
extern vio_q_t vio_std_out;    /* bytes written to stdout by a listener (fwrite/write(1)) */
extern jmp_buf vio_done;       /* longjmp target when an input queue runs dry */
extern int vio_active;

void vio_push(vio_q_t* q, const void* p, size_t n);
int vio_pop(vio_q_t* q, vio_item_t* out);
void vio_clear(vio_q_t* q);
void vio_watchdog(int seconds, const char* what);
#endif
