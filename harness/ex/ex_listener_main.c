/* ex_listener_main.c — runs ONE example listener's real main() in-process on a sequence of
   datagrams (virtual sockets, timers, CAN device, clock; see vio.c).
   argv: the listener's own command line.  stdin lines:
     dgram <hex|->      queue a datagram
     run                run the listener until it blocks; print what it produced
   Output: `can <id> <len> <flags> <hex>` per CAN frame written, `stdout <hex>` for everything
   written to stdout (printf and write(1) in order), `sent <hex>` per packet sent,
   then `blocked` (the listener is waiting for the next datagram) or `exited <rc>`. */
#define _GNU_SOURCE
#include <stdio.h>
#include <stdlib.h>
#include <string.h>
#include <linux/can.h>
#include "vio.h"

int listener_main(int argc, char** argv);
extern int LISTENER_FD_MODE;

static int hexv(int c) { return c >= '0' && c <= '9' ? c - '0' : c >= 'a' && c <= 'f' ? c - 'a' + 10 : c >= 'A' && c <= 'F' ? c - 'A' + 10 : 0; }
static void phex(const uint8_t* p, size_t n) { if (!n) putchar('-'); for (size_t i = 0; i < n; i++) printf("%02x", p[i]); }

int main(int argc, char** argv) {
    static char line[1 << 18];
    static uint8_t buf[1 << 17];
    int fd_mode = 0;
    for (int i = 1; i < argc; i++) if (!strcmp(argv[i], "--fd")) fd_mode = 1;
    setvbuf(stdout, NULL, _IOFBF, 1 << 16);
    while (fgets(line, sizeof line, stdin)) {
        char* tok[4]; int nt = 0;
        for (char* t = strtok(line, " \r\n"); t && nt < 4; t = strtok(NULL, " \r\n")) tok[nt++] = t;
        if (!nt) continue;
        if (!strcmp(tok[0], "dgram") && nt == 2) {
            size_t n = strcmp(tok[1], "-") ? strlen(tok[1]) / 2 : 0;
            if (n > sizeof buf) n = sizeof buf;
            for (size_t i = 0; i < n; i++) buf[i] = (uint8_t)(hexv(tok[1][2*i]) * 16 + hexv(tok[1][2*i+1]));
            vio_push(&vio_net_in, buf, n);
            continue;
        }
        if (!strcmp(tok[0], "run")) {
            int rc = 0, exited = 0;
            vio_watchdog(20, "listener");
            if (!setjmp(vio_done)) { rc = listener_main(argc, argv); exited = 1; }
            vio_watchdog(0, "");
            vio_item_t it;
            while (vio_pop(&vio_can_out, &it)) {
                if (fd_mode && it.n == sizeof(struct canfd_frame)) {
                    struct canfd_frame f; memcpy(&f, it.p, sizeof f);
                    printf("can %u %u %u ", f.can_id, f.len, f.flags); phex(f.data, f.len <= 64 ? f.len : 64); putchar('\n');
                } else if (!fd_mode && it.n == sizeof(struct can_frame)) {
                    struct can_frame f; memcpy(&f, it.p, sizeof f);
                    printf("can %u %u 0 ", f.can_id, f.len); phex(f.data, f.len <= 8 ? f.len : 8); putchar('\n');
                } else printf("can-odd-size %zu\n", it.n);
            }
            if (vio_std_out.head < vio_std_out.tail) {
                printf("stdout ");
                while (vio_pop(&vio_std_out, &it)) for (size_t i = 0; i < it.n; i++) printf("%02x", it.p[i]);
                putchar('\n');
            }
            while (vio_pop(&vio_net_out, &it)) { printf("sent "); phex(it.p, it.n); putchar('\n'); }
            if (exited) printf("exited %d\n", rc); else puts("blocked");
            fflush(stdout);
            continue;
        }
        puts("bad-op");
    }
    fflush(stdout);
    return 0;
}
