/* ex_can_main.c — drives the REAL acf-can-talker.c and acf-can-listener.c main loops
   in-process.  argv: <t|n> <u|r> <c|f> <count>.  stdin lines:
     frame <can_id> <len> <flags> <datahex>   queue a CAN frame for the talker
     talk                                     run the talker; prints `pkt <hex>` per packet
     listen                                   feed those packets to the listener; prints `out ...`
     dgram <hex>                              queue a raw datagram for the listener
     listenraw                                run the listener on the queued datagrams */
#define _GNU_SOURCE
#include <stdio.h>
#include <stdlib.h>
#include <string.h>
#include <linux/can.h>
#include "vio.h"

int can_talker_main(int argc, char** argv);
int can_listener_main(int argc, char** argv);

static int hexv(int c) { return c >= '0' && c <= '9' ? c - '0' : c >= 'a' && c <= 'f' ? c - 'a' + 10 : c >= 'A' && c <= 'F' ? c - 'A' + 10 : 0; }
static size_t unhex(const char* h, uint8_t* out, size_t cap) {
    size_t n = strcmp(h, "-") ? strlen(h) / 2 : 0; if (n > cap) n = cap;
    for (size_t i = 0; i < n; i++) out[i] = (uint8_t)(hexv(h[2*i]) * 16 + hexv(h[2*i+1]));
    return n;
}
static void phex(const uint8_t* p, size_t n) { if (!n) putchar('-'); for (size_t i = 0; i < n; i++) printf("%02x", p[i]); }

static int fd_mode;
static void print_frames(void) {
    vio_item_t it;
    while (vio_pop(&vio_can_out, &it)) {
        if (fd_mode && it.n == sizeof(struct canfd_frame)) {
            struct canfd_frame f; memcpy(&f, it.p, sizeof f);
            printf("out %u %u %u ", f.can_id, f.len, f.flags); phex(f.data, f.len <= 64 ? f.len : 64); putchar('\n');
        } else if (!fd_mode && it.n == sizeof(struct can_frame)) {
            struct can_frame f; memcpy(&f, it.p, sizeof f);
            printf("out %u %u 0 ", f.can_id, f.len); phex(f.data, f.len <= 8 ? f.len : 8); putchar('\n');
        } else printf("out-odd-size %zu\n", it.n);
    }
}

int main(int argc, char** argv) {
    if (argc < 5) return 2;
    int tscf = argv[1][0] == 't', udp = argv[2][0] == 'u'; fd_mode = argv[3][0] == 'f';
    char* targv[16]; int ta = 0;
    targv[ta++] = "acf-can-talker";
    if (tscf) targv[ta++] = "-t";
    if (udp) { targv[ta++] = "-u"; targv[ta++] = "-n"; targv[ta++] = "127.0.0.1:17220"; }
    if (fd_mode) targv[ta++] = "--fd";
    targv[ta++] = "-c"; targv[ta++] = argv[4];
    targv[ta++] = "--canif"; targv[ta++] = "vcan0";
    char* largv[16]; int la = 0;
    largv[la++] = "acf-can-listener";
    if (udp) largv[la++] = "-u";
    if (fd_mode) largv[la++] = "--fd";
    largv[la++] = "--canif"; largv[la++] = "vcan0";
    static char line[1 << 16];
    setvbuf(stdout, NULL, _IOFBF, 1 << 16);
    while (fgets(line, sizeof line, stdin)) {
        char* tok[8]; int nt = 0;
        for (char* t = strtok(line, " \r\n"); t && nt < 8; t = strtok(NULL, " \r\n")) tok[nt++] = t;
        if (!nt) continue;
        if (!strcmp(tok[0], "case")) { printf("case %s\n", nt > 1 ? tok[1] : "?"); fflush(stdout); continue; }
        if (!strcmp(tok[0], "frame") && nt == 5) {
            if (fd_mode) { struct canfd_frame f; memset(&f, 0, sizeof f); f.can_id = (canid_t)strtoul(tok[1], 0, 10); f.len = (uint8_t)atoi(tok[2]); f.flags = (uint8_t)atoi(tok[3]); unhex(tok[4], f.data, 64); vio_push(&vio_can_in, &f, sizeof f); }
            else { struct can_frame f; memset(&f, 0, sizeof f); f.can_id = (canid_t)strtoul(tok[1], 0, 10); f.len = (uint8_t)atoi(tok[2]); unhex(tok[4], f.data, 8); vio_push(&vio_can_in, &f, sizeof f); }
            continue;
        }
        if (!strcmp(tok[0], "talk")) {
            vio_watchdog(20, "talker");
            if (!setjmp(vio_done)) can_talker_main(ta, targv);
            vio_watchdog(0, "");
            for (int i = vio_net_out.head; i < vio_net_out.tail; i++) { printf("pkt "); phex(vio_net_out.it[i].p, vio_net_out.it[i].n); putchar('\n'); }
            continue;
        }
        if (!strcmp(tok[0], "listen")) {
            vio_item_t it;
            while (vio_pop(&vio_net_out, &it)) vio_push(&vio_net_in, it.p, it.n);
            vio_watchdog(20, "listener");
            if (!setjmp(vio_done)) can_listener_main(la, largv);
            vio_watchdog(0, "");
            print_frames();
            vio_clear(&vio_net_in); vio_clear(&vio_net_out);
            continue;
        }
        if (!strcmp(tok[0], "dgram") && nt == 2) {
            static uint8_t buf[70000]; size_t n = unhex(tok[1], buf, sizeof buf);
            vio_push(&vio_net_in, buf, n);
            continue;
        }
        if (!strcmp(tok[0], "listenraw")) {
            vio_watchdog(10, "listener");
            if (!setjmp(vio_done)) { int r = can_listener_main(la, largv); printf("exited %d\n", r); }
            vio_watchdog(0, "");
            print_frames();
            puts("alive");
            vio_clear(&vio_net_in);
            continue;
        }
        puts("bad-op");
    }
    fflush(stdout);
    return 0;
}
