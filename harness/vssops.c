/* vssops.c — VSS codec operations (filled in by C07-C10). */
int vm_vss(char** tok, int nt) { (void)tok; (void)nt; return 0; }
