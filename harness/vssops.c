/* vssops.c — VSS codec operations on the real library.  Every caller-side object (path
   buffer, element arrays, string buffers) is a separate exact-extent heap block, so that
   AddressSanitizer traps any access beyond what the API contract allows. */
#include <stdio.h>
#include <stdlib.h>
#include <string.h>
#include <inttypes.h>
#include "avtp/acf/custom/Vss.h"

typedef struct { char id[32]; uint8_t* p; size_t n; } buf_t;
buf_t* vm_find(const char* id);

static int hexv(int c) {
    if (c >= '0' && c <= '9') return c - '0';
    if (c >= 'a' && c <= 'f') return c - 'a' + 10;
    if (c >= 'A' && c <= 'F') return c - 'A' + 10;
    return -1;
}
static uint8_t* unhex(const char* hex, size_t* n) {
    *n = strcmp(hex, "-") ? strlen(hex) / 2 : 0;
    uint8_t* p = malloc(*n ? *n : 1);
    for (size_t i = 0; i < *n; i++) p[i] = (uint8_t)(hexv(hex[2*i]) * 16 + hexv(hex[2*i+1]));
    return p;
}
static void phex(const uint8_t* p, size_t n) {
    if (!n) { putchar('-'); return; }
    for (size_t i = 0; i < n; i++) printf("%02x", p[i]);
}
static int elem_size(int code) {
    switch (code) {
        case 0x82: case 0x83: return 2;
        case 0x84: case 0x85: case 0x89: return 4;
        case 0x86: case 0x87: case 0x8A: return 8;
        default: return 0;
    }
}
static int is_blob(int code) { return code == 0xB || code == 0x80 || code == 0x81 || code == 0x88 || code == 0x8B; }
static int scalar_size(int code) {
    switch (code) { case 0: case 1: case 8: return 1; case 2: case 3: return 2; case 4: case 5: case 9: return 4;
                    case 6: case 7: case 0xA: return 8; default: return 0; }
}

int vm_vss(char** tok, int nt) {
    if (!strcmp(tok[0], "vss_pad") && nt == 4) {
        buf_t* b = vm_find(tok[1]); if (!b) { puts("bad-op"); return 1; }
        Avtp_Vss_Pad((Avtp_Vss_t*)(b->p + atol(tok[2])), (uint16_t)atol(tok[3]));
        return 1;
    }
    if (!strcmp(tok[0], "vss_calc") && nt == 3) {
        buf_t* b = vm_find(tok[1]); if (!b) { puts("bad-op"); return 1; }
        printf("v %u\n", (unsigned)Avtp_Vss_CalcVssPathLength((Avtp_Vss_t*)(b->p + atol(tok[2]))));
        return 1;
    }
    /* vss_setpath <buf> <off> <path_length> <pathhex> <static id> */
    if (!strcmp(tok[0], "vss_setpath") && nt == 6) {
        buf_t* b = vm_find(tok[1]); if (!b) { puts("bad-op"); return 1; }
        Avtp_Vss_t* pdu = (Avtp_Vss_t*)(b->p + atol(tok[2]));
        size_t n; uint8_t* path = unhex(tok[4], &n);
        VssPath_t v; memset(&v, 0, sizeof v);
        if (Avtp_Vss_GetAddrMode(pdu) == VSS_STATIC_ID_MODE) v.vss_static_id_path = (uint32_t)strtoull(tok[5], NULL, 10);
        else { v.vss_interop_path.path_length = (uint16_t)atol(tok[3]); v.vss_interop_path.path = (char*)path; }
        Avtp_Vss_SetVssPath(pdu, &v);
        free(path);
        return 1;
    }
    if (!strcmp(tok[0], "vss_getpath") && nt == 3) {
        buf_t* b = vm_find(tok[1]); if (!b) { puts("bad-op"); return 1; }
        Avtp_Vss_t* pdu = (Avtp_Vss_t*)(b->p + atol(tok[2]));
        unsigned mode = Avtp_Vss_GetAddrMode(pdu);
        VssPath_t v; memset(&v, 0, sizeof v);
        if (mode == VSS_STATIC_ID_MODE) { Avtp_Vss_GetVssPath(pdu, &v); printf("sid %u\n", v.vss_static_id_path); }
        else if (mode == VSS_INTEROP_MODE) {
            /* destination of exactly the announced size */
            unsigned total = Avtp_Vss_CalcVssPathLength(pdu);
            unsigned len = (total - 2) & 0xffff;
            uint8_t* dst = malloc(len ? len : 1);
            v.vss_interop_path.path = (char*)dst;
            Avtp_Vss_GetVssPath(pdu, &v);
            printf("path %u ", (unsigned)v.vss_interop_path.path_length); phex(dst, v.vss_interop_path.path_length); putchar('\n');
            free(dst);
        } else { Avtp_Vss_GetVssPath(pdu, &v); puts("none"); }
        return 1;
    }
    /* vss_setdata <buf> <off> s <bits> | b <data_length> <hex> | e <data_length> <v,v,...|-> */
    if (!strcmp(tok[0], "vss_setdata") && nt >= 5) {
        buf_t* b = vm_find(tok[1]); if (!b) { puts("bad-op"); return 1; }
        Avtp_Vss_t* pdu = (Avtp_Vss_t*)(b->p + atol(tok[2]));
        int code = Avtp_Vss_GetDatatype(pdu);
        VssData_t v; memset(&v, 0, sizeof v);
        if (tok[3][0] == 's' && nt == 5) {
            uint64_t bits = strtoull(tok[4], NULL, 10);
            switch (scalar_size(code)) {
                case 1: v.data_uint8 = (uint8_t)bits; break;
                case 2: v.data_uint16 = (uint16_t)bits; break;
                case 4: if (code == 9) { uint32_t t = (uint32_t)bits; memcpy(&v.data_float, &t, 4); } else v.data_uint32 = (uint32_t)bits; break;
                case 8: if (code == 0xA) memcpy(&v.data_double, &bits, 8); else v.data_uint64 = bits; break;
                default: v.data_uint64 = bits; break;
            }
            Avtp_Vss_SetVssData(pdu, &v);
            return 1;
        }
        if (tok[3][0] == 'b' && nt == 6) {
            size_t n; uint8_t* data = unhex(tok[5], &n);
            VssDataUint8Array_t arr = { (uint16_t)atol(tok[4]), data };
            v.data_uint8_array = &arr;
            Avtp_Vss_SetVssData(pdu, &v);
            free(data);
            return 1;
        }
        if (tok[3][0] == 'e' && nt == 6) {
            int k = elem_size(code); if (!k) k = 2;
            size_t cnt = 0;
            if (strcmp(tok[5], "-")) { cnt = 1; for (char* c = tok[5]; *c; c++) if (*c == ',') cnt++; }
            uint8_t* data = malloc(cnt * k ? cnt * k : 1);
            char* save; size_t i = 0;
            if (cnt) for (char* t = strtok_r(tok[5], ",", &save); t; t = strtok_r(NULL, ",", &save), i++) {
                uint64_t x = strtoull(t, NULL, 10);
                if (k == 2) { uint16_t y = (uint16_t)x; memcpy(data + 2*i, &y, 2); }
                else if (k == 4) { uint32_t y = (uint32_t)x; memcpy(data + 4*i, &y, 4); }
                else memcpy(data + 8*i, &x, 8);
            }
            VssDataUint16Array_t arr = { (uint16_t)atol(tok[4]), (uint16_t*)data };
            v.data_uint16_array = &arr;
            Avtp_Vss_SetVssData(pdu, &v);
            free(data);
            return 1;
        }
        puts("bad-op");
        return 1;
    }
    /* vss_getdata <buf> <off> <have destination 0|1> : two-phase protocol */
    if (!strcmp(tok[0], "vss_getdata") && nt == 4) {
        buf_t* b = vm_find(tok[1]); if (!b) { puts("bad-op"); return 1; }
        Avtp_Vss_t* pdu = (Avtp_Vss_t*)(b->p + atol(tok[2]));
        int have = atoi(tok[3]);
        int code = Avtp_Vss_GetDatatype(pdu);
        VssData_t v; memset(&v, 0, sizeof v);
        int ks = scalar_size(code);
        if (ks) {
            Avtp_Vss_GetVssData(pdu, &v);
            uint64_t bits = 0;
            if (ks == 1) bits = v.data_uint8; else if (ks == 2) bits = v.data_uint16;
            else if (ks == 4) { uint32_t t; memcpy(&t, &v.data_uint32, 4); bits = t; }
            else memcpy(&bits, &v.data_uint64, 8);
            printf("s %" PRIu64 "\n", bits);
            return 1;
        }
        if (is_blob(code) || elem_size(code)) {
            /* phase 1: no destination -> only the length is reported */
            VssDataUint8Array_t arr = { 0xBEEF, NULL };
            v.data_uint8_array = &arr;
            Avtp_Vss_GetVssData(pdu, &v);
            unsigned len = arr.data_length;
            if (!have) { printf("%c %u -\n", is_blob(code) ? 'b' : 'e', len); return 1; }
            int k = elem_size(code);
            size_t bytes = is_blob(code) ? len : (size_t)(len / k) * k;
            uint8_t* dst = malloc(bytes ? bytes : 1);      /* exactly the reported extent */
            arr.data = dst; arr.data_length = 0xBEEF;
            Avtp_Vss_GetVssData(pdu, &v);
            if (is_blob(code)) { printf("b %u ", (unsigned)arr.data_length); phex(dst, arr.data_length); putchar('\n'); }
            else {
                printf("e %u ", (unsigned)arr.data_length);
                size_t cnt = arr.data_length / k;
                if (!cnt) putchar('-');
                for (size_t i = 0; i < cnt; i++) {
                    uint64_t x = 0;
                    if (k == 2) { uint16_t y; memcpy(&y, dst + 2*i, 2); x = y; }
                    else if (k == 4) { uint32_t y; memcpy(&y, dst + 4*i, 4); x = y; }
                    else memcpy(&x, dst + 8*i, 8);
                    printf("%s%" PRIu64, i ? "," : "", x);
                }
                putchar('\n');
            }
            free(dst);
            return 1;
        }
        Avtp_Vss_GetVssData(pdu, &v);
        puts("none");
        return 1;
    }
    /* vss_ser <cap> <n> {<len> <hex>}*n : serialise into an exact `cap`-byte destination */
    if (!strcmp(tok[0], "vss_ser") && nt >= 3) {
        size_t cap = (size_t)atol(tok[1]); int n = atoi(tok[2]);
        if (nt != 3 + 2 * n) { puts("bad-op"); return 1; }
        uint8_t* dst = malloc(cap ? cap : 1);
        memset(dst, 0xEE, cap ? cap : 1);
        VssDataStringArray_t arr = { 0, dst };
        VssDataString_t* strs = malloc(sizeof(VssDataString_t) * (n ? n : 1));
        VssDataString_t** ptrs = malloc(sizeof(void*) * (n ? n : 1));
        uint8_t** bufs = malloc(sizeof(void*) * (n ? n : 1));
        for (int i = 0; i < n; i++) {
            size_t l; bufs[i] = unhex(tok[4 + 2*i], &l);
            strs[i].data_length = (uint16_t)atol(tok[3 + 2*i]); strs[i].data = (char*)bufs[i]; ptrs[i] = &strs[i];
        }
        Avtp_Vss_SerializeStringArray(&arr, ptrs, (uint16_t)n);
        printf("b %u ", (unsigned)arr.data_length); phex(dst, cap); putchar('\n');
        for (int i = 0; i < n; i++) free(bufs[i]);
        free(bufs); free(ptrs); free(strs); free(dst);
        return 1;
    }
    /* vss_count <data_length> <hex> */
    if (!strcmp(tok[0], "vss_count") && nt == 3) {
        size_t n; uint8_t* data = unhex(tok[2], &n);
        VssDataStringArray_t arr = { (uint16_t)atol(tok[1]), data };
        printf("v %u\n", (unsigned)Avtp_Vss_GetVSSDataStringArrayLength(&arr));
        free(data);
        return 1;
    }
    /* vss_deser <data_length> <hex> <num requested> <have destinations 0|1> */
    if (!strcmp(tok[0], "vss_deser") && nt == 5) {
        size_t n; uint8_t* data = unhex(tok[2], &n);
        int num = atoi(tok[3]), have = atoi(tok[4]);
        VssDataStringArray_t arr = { (uint16_t)atol(tok[1]), data };
        VssDataString_t* strs = malloc(sizeof(VssDataString_t) * (num ? num : 1));
        VssDataString_t** ptrs = malloc(sizeof(void*) * (num ? num : 1));
        for (int i = 0; i < num; i++) { strs[i].data_length = 0xBEEF; strs[i].data = NULL; ptrs[i] = &strs[i]; }
        /* phase 1: lengths only */
        Avtp_Vss_DeserializeStringArray(&arr, ptrs, (uint16_t)num);
        if (have) {
            for (int i = 0; i < num; i++) {
                unsigned l = strs[i].data_length == 0xBEEF ? 0 : strs[i].data_length;
                strs[i].data = malloc(l ? l : 1);     /* exactly the reported length */
                strs[i].data_length = 0xBEEF;
            }
            Avtp_Vss_DeserializeStringArray(&arr, ptrs, (uint16_t)num);
        }
        printf("n");
        for (int i = 0; i < num; i++) {
            if (strs[i].data_length == 0xBEEF) { printf(" ."); continue; }   /* not filled in */
            printf(" %u:", (unsigned)strs[i].data_length);
            if (have) phex((uint8_t*)strs[i].data, strs[i].data_length); else putchar('-');
        }
        putchar('\n');
        if (have) for (int i = 0; i < num; i++) free(strs[i].data);
        free(ptrs); free(strs); free(data);
        return 1;
    }
    return 0;
}
