/* utils_all_inputs.c — CBMC harness: for ONE descriptor shape (-DQ, -DOFF, -DBITS) and ALL
   memory contents and ALL 64-bit values, the REAL Avtp_GetField / Avtp_SetField of
   /repo/src/avtp/Utils.c satisfy C01 / C02 as stated bit by bit:
     get: result bit (BITS-1-k) = wire bit (OFF+k) of the PDU, no higher bit set, memory unchanged
     set: wire bits OFF..OFF+BITS-1 = the low BITS bits of the value (MSB first), every other
          bit of the buffer (before, inside and behind the field's quadlets) unchanged
   Wire bit i of the PDU = bit (7 - i%8) of byte i/8 (IEEE 1722 figure order) — the one-line
   definition that Spec/Wire.lean's `wireBit` also is. */
#include <stdint.h>
#include <string.h>
#include "avtp/Utils.h"

#ifndef Q
#define Q 0
#endif
#define PRE 4                      /* guard bytes before the PDU */
#define NQ (Q + 4)                 /* quadlets in the buffer: the field touches at most 3 */

uint8_t nondet_u8(void);
uint64_t nondet_u64(void);

static int wire_bit(const uint8_t* pdu, unsigned i) { return (pdu[i / 8] >> (7 - i % 8)) & 1; }

int main(void) {
    Avtp_FieldDescriptor_t d[1];
    d[0].quadlet = Q; d[0].offset = OFF; d[0].bits = BITS;
    uint8_t buf[PRE + 4 * NQ], before[PRE + 4 * NQ];
    for (unsigned j = 0; j < sizeof buf; j++) { buf[j] = nondet_u8(); before[j] = buf[j]; }
    uint8_t* pdu = buf + PRE;

    uint64_t r = Avtp_GetField(d, 1, pdu, 0);
    for (unsigned k = 0; k < BITS; k++)
        __CPROVER_assert(((r >> (BITS - 1 - k)) & 1) == (uint64_t)wire_bit(pdu, 32 * Q + OFF + k), "C01: result bit = wire bit");
    if (BITS < 64) __CPROVER_assert((r >> BITS) == 0, "C01: no bit above the field width");
    for (unsigned j = 0; j < sizeof buf; j++) __CPROVER_assert(buf[j] == before[j], "C01: reader does not write");

    uint64_t v = nondet_u64();
    Avtp_SetField(d, 1, pdu, 0, v);
    for (unsigned j = 0; j < PRE; j++) __CPROVER_assert(buf[j] == before[j], "C02: bytes before the PDU unchanged");
    for (unsigned i = 0; i < 32 * NQ; i++) {
        int now = wire_bit(pdu, i), was = wire_bit(before + PRE, i);
        if (i >= 32 * Q + OFF && i < 32 * Q + OFF + BITS)
            __CPROVER_assert((uint64_t)now == ((v >> (BITS - 1 - (i - 32 * Q - OFF))) & 1), "C02: field bit = value bit");
        else
            __CPROVER_assert(now == was, "C02: bit outside the field unchanged");
    }
    return 0;
}
