/* can_all_inputs.c — CBMC harness: for ONE payload length (-DLEN, 0..) and ALL payload contents,
   ALL 32-bit identifiers, both variants and ALL prior buffer contents, the REAL builders of
   /repo/src/avtp/acf/Can.c (-DBRIEF=0) / CanBrief.c (-DBRIEF=1) satisfy C06 as stated:
   payload verbatim behind the header, zero pad to the quadlet, nothing before the PDU or behind
   the padded message changes, length/pad/identifier/EFF/FDF fields read as specified, every
   other header bit as before, the payload length reads back.  Field reads in the assertions
   use wire bits directly (IEEE 1722 figure order), not the library's getters. */
#include <stdint.h>
#include <string.h>
#include "avtp/acf/Can.h"
#include "avtp/acf/CanBrief.h"

#ifndef BRIEF
#define BRIEF 0
#endif
#define H (BRIEF ? 8 : 16)
#define PADLEN ((4 - LEN % 4) % 4)
#define PRE 4
#define POST 8
#define TOTAL (PRE + H + LEN + PADLEN + POST)
#define IDBIT (BRIEF ? 35 : 99)          /* first wire bit of the 29-bit identifier */

uint8_t nondet_u8(void);
uint32_t nondet_u32(void);

static unsigned wire(const uint8_t* p, unsigned first, unsigned width) {
    unsigned v = 0;
    for (unsigned k = 0; k < width; k++) { unsigned i = first + k; v = (v << 1) | ((p[i / 8] >> (7 - i % 8)) & 1); }
    return v;
}

int main(void) {
    uint8_t buf[TOTAL], before[TOTAL], payload[LEN ? LEN : 1];
    for (unsigned j = 0; j < TOTAL; j++) { buf[j] = nondet_u8(); before[j] = buf[j]; }
    for (unsigned j = 0; j < (LEN ? LEN : 1); j++) payload[j] = nondet_u8();
    uint32_t id = nondet_u32();
    uint8_t variant = nondet_u8() & 1;
    uint8_t* pdu = buf + PRE;
#if BRIEF
    Avtp_CanBrief_SetPayload((Avtp_CanBrief_t*)pdu, id, payload, LEN, (Avtp_CanVariant_t)variant);
#else
    Avtp_Can_CreateAcfMessage((Avtp_Can_t*)pdu, id, payload, LEN, (Avtp_CanVariant_t)variant);
#endif
    for (unsigned k = 0; k < LEN; k++) __CPROVER_assert(pdu[H + k] == payload[k], "C06: payload verbatim");
    for (unsigned k = 0; k < PADLEN; k++) __CPROVER_assert(pdu[H + LEN + k] == 0, "C06: pad octets are zero");
    for (unsigned j = 0; j < PRE; j++) __CPROVER_assert(buf[j] == before[j], "C06: nothing before the PDU changes");
    for (unsigned j = PRE + H + LEN + PADLEN; j < TOTAL; j++) __CPROVER_assert(buf[j] == before[j], "C06: nothing behind the padded message changes");
    __CPROVER_assert(wire(pdu, 7, 9) == (H + LEN + PADLEN) / 4, "C06: acf_msg_length in quadlets");
    __CPROVER_assert(wire(pdu, 16, 2) == PADLEN, "C06: pad count");
    __CPROVER_assert(wire(pdu, IDBIT, 29) == (id & 0x1FFFFFFF), "C06: identifier");
    __CPROVER_assert(wire(pdu, 20, 1) == (id > 0x7ff), "C06: extended-frame flag");
    __CPROVER_assert(wire(pdu, 22, 1) == variant, "C06: FD flag");
    /* all other header bits as before: type, mtv, rtr, brs, esi, reserved, bus id, timestamp */
    for (unsigned i = 0; i < 8 * H; i++) {
        int written = (i >= 7 && i < 18) || i == 20 || i == 22 || (i >= IDBIT && i < IDBIT + 29);
        if (!written) __CPROVER_assert(wire(pdu, i, 1) == wire(before + PRE, i, 1), "C06: other header bits unchanged");
    }
#if !BRIEF
    if (LEN <= 255) __CPROVER_assert(Avtp_Can_GetCanPayloadLength((Avtp_Can_t*)pdu) == LEN, "C06: payload length reads back");
#endif
    return 0;
}
