/* vsspad_all_inputs.c — CBMC harness: for ONE message length (-DLEN, 12..2044) and ALL prior
   buffer contents, the REAL Avtp_Vss_Pad of /repo/src/avtp/acf/custom/Vss.c satisfies C09:
   the pad octets up to the quadlet boundary are zero, acf_msg_length = padded length in quadlets
   (9 bits), pad = pad count, and no other bit of the buffer — inside the message, before it or
   behind the padded message — changes. */
#include <stdint.h>
#include <string.h>
#include "avtp/acf/custom/Vss.h"

#define PADLEN ((4 - LEN % 4) % 4)
#define PRE 4
#define POST 8
#define TOTAL (PRE + LEN + PADLEN + POST)

uint8_t nondet_u8(void);

static unsigned wire(const uint8_t* p, unsigned first, unsigned width) {
    unsigned v = 0;
    for (unsigned k = 0; k < width; k++) { unsigned i = first + k; v = (v << 1) | ((p[i / 8] >> (7 - i % 8)) & 1); }
    return v;
}

int main(void) {
    uint8_t buf[TOTAL], before[TOTAL];
    for (unsigned j = 0; j < TOTAL; j++) { buf[j] = nondet_u8(); before[j] = buf[j]; }
    uint8_t* pdu = buf + PRE;
    Avtp_Vss_Pad((Avtp_Vss_t*)pdu, LEN);
    for (unsigned k = 0; k < PADLEN; k++) __CPROVER_assert(pdu[LEN + k] == 0, "C09: pad octets are zero");
    __CPROVER_assert(wire(pdu, 7, 9) == (LEN + PADLEN) / 4, "C09: acf_msg_length in quadlets");
    __CPROVER_assert(wire(pdu, 16, 2) == PADLEN, "C09: pad count");
    for (unsigned j = 0; j < TOTAL; j++) {
        if (j >= PRE + LEN && j < PRE + LEN + PADLEN) continue;
        if (j == PRE || j == PRE + 1 || j == PRE + 2) {          /* bits 7..17 of the header are written */
            uint8_t keep = j == PRE ? 0xFE : (j == PRE + 1 ? 0x00 : 0x3F);
            __CPROVER_assert((buf[j] & keep) == (before[j] & keep), "C09: other header bits unchanged");
        } else __CPROVER_assert(buf[j] == before[j], "C09: nothing else changes");
    }
    return 0;
}
