/* vss_strarr_all_inputs.c — CBMC harness for C10: for N strings (-DN, 0..3) of ALL lengths 0..MAXL
   (-DMAXL) and ALL contents, the REAL string-array helpers of /repo/src/avtp/acf/custom/Vss.c:
     serialize: the block is (16-bit BE length, bytes) per string in order, data_length = total,
                nothing behind the block is written;
     count:     = N;
     deserialize (asking for REQ strings, -DREQ): the first min(REQ, N) strings come back with
                their lengths and bytes, in both phases (lengths only / with destinations); nothing is
                read behind the block (the block sits at the end of its object) and nothing is
                written behind a destination. */
#include <stdint.h>
#include <string.h>
#include "avtp/acf/custom/Vss.h"

#ifndef MAXL
#define MAXL 3
#endif
#define BLOCKCAP (N * (2 + MAXL) + 4)

uint8_t nondet_u8(void);

int main(void) {
    char src[(N ? N : 1) * (MAXL ? MAXL : 1)];      /* flat: CBMC's memcpy model is exact on 1-D objects */
    VssDataString_t s[N ? N : 1];
    VssDataString_t* sp[N ? N : 1];
    unsigned total = 0;
    for (unsigned i = 0; i < N; i++) {
        uint8_t l = nondet_u8();
        __CPROVER_assume(l <= MAXL);
        for (unsigned j = 0; j < MAXL; j++) src[i * MAXL + j] = (char)nondet_u8();
        s[i].data_length = l; s[i].data = src + i * MAXL; sp[i] = &s[i];
        total += 2 + l;
    }
    uint8_t block[BLOCKCAP], before[BLOCKCAP];
    for (unsigned j = 0; j < BLOCKCAP; j++) { block[j] = nondet_u8(); before[j] = block[j]; }
    VssDataStringArray_t arr; arr.data = block; arr.data_length = 0;
    Avtp_Vss_SerializeStringArray(&arr, sp, N);
    __CPROVER_assert(arr.data_length == total, "C10: data_length is the packed size");
    unsigned at = 0;
    for (unsigned i = 0; i < N; i++) {
        __CPROVER_assert(block[at] == 0 && block[at + 1] == s[i].data_length, "C10: length prefix big-endian");
        for (unsigned j = 0; j < MAXL; j++) if (j < s[i].data_length) __CPROVER_assert(block[at + 2 + j] == (uint8_t)src[i * MAXL + j], "C10: string bytes verbatim");
        at += 2 + s[i].data_length;
    }
    for (unsigned j = 0; j < BLOCKCAP; j++) if (j >= total) __CPROVER_assert(block[j] == before[j], "C10: nothing behind the block is written");

    /* decode from an exact-extent copy: reading behind it is an out-of-bounds access */
    uint8_t exact[N * (2 + MAXL) + 1];
    for (unsigned j = 0; j < sizeof exact; j++) exact[j] = j < total ? block[j] : 0xEE;
    VssDataStringArray_t in; in.data = exact; in.data_length = (uint16_t)total;
    __CPROVER_assert(Avtp_Vss_GetVSSDataStringArrayLength(&in) == N, "C10: count");
    char dst[(REQ ? REQ : 1) * (MAXL + 1)];
    VssDataString_t d[REQ ? REQ : 1];
    VssDataString_t* dp[REQ ? REQ : 1];
    for (unsigned i = 0; i < REQ; i++) { d[i].data_length = 0xABCD; d[i].data = NULL; dp[i] = &d[i]; }
    Avtp_Vss_DeserializeStringArray(&in, dp, REQ);                      /* phase 1: lengths */
    for (unsigned i = 0; i < REQ && i < N; i++) __CPROVER_assert(d[i].data_length == s[i].data_length, "C10: lengths phase");
    for (unsigned i = 0; i < REQ; i++) { for (unsigned j = 0; j <= MAXL; j++) dst[i * (MAXL + 1) + j] = 0x55; d[i].data = dst + i * (MAXL + 1); }
    Avtp_Vss_DeserializeStringArray(&in, dp, REQ);                      /* phase 2: bytes */
    for (unsigned i = 0; i < REQ && i < N; i++) {
        __CPROVER_assert(d[i].data_length == s[i].data_length, "C10: lengths in the data phase");
        for (unsigned j = 0; j <= MAXL; j++) {
            if (j < s[i].data_length) __CPROVER_assert(dst[i * (MAXL + 1) + j] == src[i * MAXL + j], "C10: string bytes decoded");
            else __CPROVER_assert(dst[i * (MAXL + 1) + j] == 0x55, "C10: nothing written behind a destination");
        }
    }
    return 0;
}
