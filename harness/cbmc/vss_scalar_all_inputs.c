/* vss_scalar_all_inputs.c — CBMC harness: for ONE scalar datatype (-DDT, -DMEMBER, -DCTYPE, -DK)
   and addressing mode (-DINTEROP=0/1, interoperable path of -DPLEN octets), for ALL values, ALL
   path contents / static ids and ALL prior buffer contents, the REAL codec of
   /repo/src/avtp/acf/custom/Vss.c satisfies C07 and C08:
     encode: path octets = (16-bit BE length, path) or 32-bit BE id; value = K octets big-endian
             directly behind the path; no other octet of the buffer changes;
     decode: CalcVssPathLength = octets of the path; GetVssPath / GetVssData return what was
             encoded (bit pattern for float/double) and do not write the PDU. */
#include <stdint.h>
#include <string.h>
#include "avtp/acf/custom/Vss.h"

#ifndef PLEN
#define PLEN 5
#endif
#define PATHOCT (INTEROP ? 2 + PLEN : 4)
#define PRE 4
#define POST 8
#define TOTAL (PRE + 12 + PATHOCT + K + POST)

uint8_t nondet_u8(void);
uint32_t nondet_u32(void);

int main(void) {
    uint8_t buf[TOTAL], before[TOTAL];
    for (unsigned j = 0; j < TOTAL; j++) buf[j] = nondet_u8();
    uint8_t* pdu = buf + PRE;
    /* header: addressing mode (wire bits 19..20) and datatype (octet 3) */
    pdu[2] = (uint8_t)((pdu[2] & 0xE7) | ((INTEROP ? 0 : 1) << 3));
    pdu[3] = DT;
    for (unsigned j = 0; j < TOTAL; j++) before[j] = buf[j];

    char path[PLEN ? PLEN : 1];
    for (unsigned j = 0; j < (PLEN ? PLEN : 1); j++) path[j] = (char)nondet_u8();
    VssPath_t p;
    uint32_t id = nondet_u32();
    if (INTEROP) { p.vss_interop_path.path_length = PLEN; p.vss_interop_path.path = path; } else p.vss_static_id_path = id;
    Avtp_Vss_SetVssPath((Avtp_Vss_t*)pdu, &p);

    uint8_t raw[K];
    for (unsigned j = 0; j < K; j++) raw[j] = nondet_u8();
    VssData_t v;
    CTYPE x; memcpy(&x, raw, K);
    v.MEMBER = x;
    Avtp_Vss_SetVssData((Avtp_Vss_t*)pdu, &v);

    /* ---- C07: the octets written ---- */
    uint8_t* q = pdu + 12;
    if (INTEROP) {
        __CPROVER_assert(q[0] == (PLEN >> 8) && q[1] == (PLEN & 0xff), "C07: path length prefix big-endian");
        for (unsigned j = 0; j < PLEN; j++) __CPROVER_assert(q[2 + j] == (uint8_t)path[j], "C07: path octets verbatim");
    } else {
        for (unsigned j = 0; j < 4; j++) __CPROVER_assert(q[j] == (uint8_t)(id >> (8 * (3 - j))), "C07: static id big-endian");
    }
    /* value: most significant octet first; host is little-endian in this harness when !BE */
    uint64_t bits = 0; memcpy(&bits, &x, K);
#ifdef HOST_BE
    bits >>= 8 * (8 - K);
#endif
    for (unsigned j = 0; j < K; j++) __CPROVER_assert(q[PATHOCT + j] == (uint8_t)(bits >> (8 * (K - 1 - j))), "C07: value big-endian behind the path");
    for (unsigned j = 0; j < TOTAL; j++)
        if (j < PRE + 12 || j >= PRE + 12 + PATHOCT + K) __CPROVER_assert(buf[j] == before[j], "C07: nothing else changes");

    /* ---- C08: decoding ---- */
    uint8_t enc[TOTAL]; memcpy(enc, buf, TOTAL);
    __CPROVER_assert(Avtp_Vss_CalcVssPathLength((Avtp_Vss_t*)pdu) == PATHOCT, "C08: on-wire path size");
    char out[PLEN ? PLEN : 1];
    VssPath_t r; r.vss_interop_path.path = out;
    Avtp_Vss_GetVssPath((Avtp_Vss_t*)pdu, &r);
    if (INTEROP) {
        __CPROVER_assert(r.vss_interop_path.path_length == PLEN, "C08: path length decoded");
        for (unsigned j = 0; j < PLEN; j++) __CPROVER_assert(out[j] == path[j], "C08: path decoded");
    } else __CPROVER_assert(r.vss_static_id_path == id, "C08: static id decoded");
    VssData_t w;
    Avtp_Vss_GetVssData((Avtp_Vss_t*)pdu, &w);
    CTYPE y = w.MEMBER;
    __CPROVER_assert(memcmp(&y, &x, K) == 0, "C08: value decoded (bit pattern)");
    for (unsigned j = 0; j < TOTAL; j++) __CPROVER_assert(buf[j] == enc[j], "C08: decoding does not write the PDU");
    return 0;
}
