/* extra.c — further operation families of the harness VM (byte order, message builders,
   VSS codec, ...). */
#include <stdio.h>
#include <stdlib.h>
#include <string.h>
#include <inttypes.h>
#include "hv.h"
#include "avtp/Byteorder.h"

int vm_can(char** tok, int nt);
int vm_vss(char** tok, int nt);

static void image(const void* p, int n) {
    const unsigned char* b = p;
    for (int i = 0; i < n; i++) printf("%02x", b[i]);
}

/* bo <helper> <x>  ->  v <result> <memory image of the result object> */
static int vm_byteorder(char** tok, int nt) {
    if (strcmp(tok[0], "bo") || nt != 3) return 0;
    uint64_t x = strtoull(tok[2], NULL, 10);
    const char* h = tok[1];
#define H(N, T) if (!strcmp(h, #N)) { T r = N((T)x); printf("v %" PRIu64 " ", (uint64_t)r); image(&r, sizeof r); putchar('\n'); return 1; }
    H(Avtp_Bswap16, uint16_t) H(Avtp_Bswap32, uint32_t) H(Avtp_Bswap64, uint64_t)
    H(Avtp_CpuToLe16, uint16_t) H(Avtp_CpuToLe32, uint32_t) H(Avtp_CpuToLe64, uint64_t)
    H(Avtp_CpuToBe16, uint16_t) H(Avtp_CpuToBe32, uint32_t) H(Avtp_CpuToBe64, uint64_t)
    H(Avtp_LeToCpu16, uint16_t) H(Avtp_LeToCpu32, uint32_t) H(Avtp_LeToCpu64, uint64_t)
    H(Avtp_BeToCpu16, uint16_t) H(Avtp_BeToCpu32, uint32_t) H(Avtp_BeToCpu64, uint64_t)
#undef H
    puts("bad-op");
    return 1;
}

int vm_extra(char** tok, int nt) {
    if (vm_byteorder(tok, nt)) return 1;
    if (vm_can(tok, nt)) return 1;
    if (vm_vss(tok, nt)) return 1;
    return 0;
}
