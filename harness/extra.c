/* extra.c — further operation families of the harness VM (message builders, VSS codec, ...). */
#include <stdio.h>
#include <string.h>
#include "hv.h"
int vm_extra(char** tok, int nt) { (void)tok; (void)nt; return 0; }
