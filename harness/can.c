/* can.c — ACF-CAN builder operations on the real library. */
#include <stdio.h>
#include <stdlib.h>
#include <string.h>
#include <inttypes.h>
#include "avtp/acf/Can.h"
#include "avtp/acf/CanBrief.h"

typedef struct { char id[32]; uint8_t* p; size_t n; } buf_t;
buf_t* vm_find(const char* id);

static int hexv(int c) {
    if (c >= '0' && c <= '9') return c - '0';
    if (c >= 'a' && c <= 'f') return c - 'a' + 10;
    if (c >= 'A' && c <= 'F') return c - 'A' + 10;
    return -1;
}
/* exact-extent copy of a hex string (ASan guards the source buffer too) */
static uint8_t* unhex(const char* hex, size_t* n) {
    *n = strcmp(hex, "-") ? strlen(hex) / 2 : 0;
    uint8_t* p = malloc(*n ? *n : 1);
    for (size_t i = 0; i < *n; i++) p[i] = (uint8_t)(hexv(hex[2*i]) * 16 + hexv(hex[2*i+1]));
    return p;
}

int vm_can(char** tok, int nt) {
    if (!strcmp(tok[0], "can_create") && nt == 7) {
        buf_t* b = vm_find(tok[1]);
        if (!b) { puts("bad-op"); return 1; }
        uint8_t* pdu = b->p + atol(tok[2]);
        size_t n; uint8_t* pl = unhex(tok[6], &n);
        uint32_t id = (uint32_t)strtoull(tok[4], NULL, 10);
        int variant = atoi(tok[5]);
        if (!strcmp(tok[3], "Can")) {
            Avtp_Can_CreateAcfMessage((Avtp_Can_t*)pdu, id, pl, (uint16_t)n, (Avtp_CanVariant_t)variant);
            puts("r -");
        } else {
            int r = Avtp_CanBrief_SetPayload((Avtp_CanBrief_t*)pdu, id, pl, (uint16_t)n, (Avtp_CanVariant_t)variant);
            printf("r %d\n", r);
        }
        free(pl);
        return 1;
    }
    if (!strcmp(tok[0], "can_setpayload") && nt == 4) {
        buf_t* b = vm_find(tok[1]);
        if (!b) { puts("bad-op"); return 1; }
        size_t n; uint8_t* pl = unhex(tok[3], &n);
        Avtp_Can_SetPayload((Avtp_Can_t*)(b->p + atol(tok[2])), pl, (uint16_t)n);
        free(pl);
        return 1;
    }
    if (!strcmp(tok[0], "can_finalize") && nt == 5) {
        buf_t* b = vm_find(tok[1]);
        if (!b) { puts("bad-op"); return 1; }
        uint8_t* pdu = b->p + atol(tok[2]);
        uint16_t len = (uint16_t)atol(tok[4]);
        if (!strcmp(tok[3], "Can")) { Avtp_Can_Finalize((Avtp_Can_t*)pdu, len); puts("r -"); }
        else printf("r %d\n", Avtp_CanBrief_Finalize((Avtp_CanBrief_t*)pdu, len));
        return 1;
    }
    if (!strcmp(tok[0], "can_len") && nt == 3) {
        buf_t* b = vm_find(tok[1]);
        if (!b) { puts("bad-op"); return 1; }
        printf("v %u\n", (unsigned)Avtp_Can_GetCanPayloadLength((Avtp_Can_t*)(b->p + atol(tok[2]))));
        return 1;
    }
    return 0;
}
