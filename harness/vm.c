/* vm.c — C side of the line protocol: runs the operations on the REAL library, in-process.
   Buffers are malloc'ed with their exact extent so that AddressSanitizer traps any access
   outside them; canonical text results go to stdout, one per operation that has one. */
#define _GNU_SOURCE
#include <stdio.h>
#include <stdlib.h>
#include <string.h>
#include <stdint.h>
#include <inttypes.h>
#include "hv.h"
#include "avtp/Utils.h"

#define MAXBUF 64
typedef struct { char id[32]; uint8_t* p; size_t n; } buf_t;
static buf_t bufs[MAXBUF];
static int nbufs;

static buf_t* find(const char* id) {
    for (int i = 0; i < nbufs; i++) if (!strcmp(bufs[i].id, id)) return &bufs[i];
    return NULL;
}
static int hexv(int c) {
    if (c >= '0' && c <= '9') return c - '0';
    if (c >= 'a' && c <= 'f') return c - 'a' + 10;
    if (c >= 'A' && c <= 'F') return c - 'A' + 10;
    return -1;
}
static buf_t* put(const char* id, const char* hex) {
    buf_t* b = find(id);
    if (!b) { if (nbufs == MAXBUF) return NULL; b = &bufs[nbufs++]; snprintf(b->id, sizeof b->id, "%s", id); b->p = NULL; }
    free(b->p);
    size_t n = strcmp(hex, "-") ? strlen(hex) / 2 : 0;
    b->n = n;
    b->p = malloc(n ? n : 1);      /* exact extent; ASan red zones on both sides */
    if (!n) { free(b->p); b->p = malloc(1); b->n = 0; }
    for (size_t i = 0; i < n; i++) b->p[i] = (uint8_t)(hexv(hex[2*i]) * 16 + hexv(hex[2*i+1]));
    return b;
}
static void dump(const buf_t* b) {
    if (!b->n) { puts("d -"); return; }
    fputs("d ", stdout);
    for (size_t i = 0; i < b->n; i++) printf("%02x", b->p[i]);
    putchar('\n');
}
/* "NULL" as buffer id denotes the null pointer */
static int is_null(const char* id) { return !strcmp(id, "NULL"); }
static const hv_format_t* fmt(const char* name) {
    for (int i = 0; i < hv_nformats; i++) if (!strcmp(hv_formats[i]->name, name)) return hv_formats[i];
    return NULL;
}

int vm_extra(char** tok, int nt);   /* further operation families (can.c, vss.c, ...) */
buf_t* vm_find(const char* id) { return find(id); }
buf_t* vm_put(const char* id, const char* hex) { return put(id, hex); }

int main(void) {
    static char line[1 << 20];
    setvbuf(stdout, NULL, _IOFBF, 1 << 16);
    while (fgets(line, sizeof line, stdin)) {
        static char* tok[8192]; int nt = 0;
        for (char* t = strtok(line, " \r\n"); t && nt < 8192; t = strtok(NULL, " \r\n")) tok[nt++] = t;
        if (!nt) continue;
        /* progress marker for crash localisation */
        if (!strcmp(tok[0], "case")) { printf("case %s\n", nt > 1 ? tok[1] : "?"); fflush(stdout); continue; }
        if (!strcmp(tok[0], "buf") && nt == 3) { if (!put(tok[1], tok[2])) puts("bad-op"); continue; }
        if (!strcmp(tok[0], "dump") && nt == 2) { buf_t* b = find(tok[1]); if (b) dump(b); else puts("bad-op"); continue; }
        if (!strcmp(tok[0], "get") && nt == 6) {
            buf_t* b = find(tok[1]); const hv_format_t* f = fmt(tok[3]);
            if ((!b && !is_null(tok[1])) || !f) { puts("bad-op"); continue; }
            uint64_t out = 0;
            int r = f->get(b ? b->p + atol(tok[2]) : NULL, atoi(tok[4]), tok[5][0], &out);
            if (r == -1) puts("no-accessor"); else if (r) printf("err %d\n", r); else printf("v %" PRIu64 "\n", out);
            continue;
        }
        if (!strcmp(tok[0], "set") && nt == 7) {
            buf_t* b = find(tok[1]); const hv_format_t* f = fmt(tok[3]);
            if ((!b && !is_null(tok[1])) || !f) { puts("bad-op"); continue; }
            int r = f->set(b ? b->p + atol(tok[2]) : NULL, atoi(tok[4]), tok[5][0], strtoull(tok[6], NULL, 10));
            if (r == -1) puts("no-accessor"); else if (r) printf("err %d\n", r);
            continue;
        }
        if (!strcmp(tok[0], "init") && (nt == 5 || nt == 6)) {
            buf_t* b = find(tok[1]); const hv_format_t* f = fmt(tok[3]);
            if ((!b && !is_null(tok[1])) || !f) { puts("bad-op"); continue; }
            int ret = 0;
            int r = f->init(b ? b->p + atol(tok[2]) : NULL, tok[4][0], nt == 6 ? strtoull(tok[5], NULL, 10) : 0, &ret);
            if (r == -1) puts("no-accessor"); else printf("r %d\n", ret);
            continue;
        }
        /* by raw numeric identifier: getid <buf|NULL> <off> <fmt> <id> <path g|l> <null result ptr 0|1> */
        if (!strcmp(tok[0], "getid") && nt == 7) {
            buf_t* b = find(tok[1]); const hv_format_t* f = fmt(tok[3]);
            if ((!b && !is_null(tok[1])) || !f) { puts("bad-op"); continue; }
            uint64_t out = 0xA5A5A5A5A5A5A5A5ull; int ret = 0;
            int r = f->get_id(b ? b->p + atol(tok[2]) : NULL, strtoull(tok[4], NULL, 10), tok[5][0], &out, atoi(tok[6]), &ret);
            if (r == -1) puts("no-accessor"); else printf("r %d v %" PRIu64 "\n", ret, out);
            continue;
        }
        if (!strcmp(tok[0], "setid") && nt == 7) {
            buf_t* b = find(tok[1]); const hv_format_t* f = fmt(tok[3]);
            if ((!b && !is_null(tok[1])) || !f) { puts("bad-op"); continue; }
            int ret = 0;
            int r = f->set_id(b ? b->p + atol(tok[2]) : NULL, strtoull(tok[4], NULL, 10), tok[5][0], strtoull(tok[6], NULL, 10), &ret);
            if (r == -1) puts("no-accessor"); else printf("r %d\n", ret);
            continue;
        }
        if (!strcmp(tok[0], "facts") && nt == 2) {
            const hv_format_t* f = fmt(tok[1]);
            if (!f) { puts("bad-op"); continue; }
            printf("f %ld %ld %ld\n", f->header_len_macro, f->sizeof_type, f->offsetof_payload);
            continue;
        }
        if (!strcmp(tok[0], "payload") && nt == 2) {
            const hv_format_t* f = fmt(tok[1]);
            if (!f) { puts("bad-op"); continue; }
            if (!f->payload) { puts("no-accessor"); continue; }
            uint8_t* base = malloc(64);
            printf("p %ld\n", (long)(f->payload(base) - base));
            free(base);
            continue;
        }
        if (!strcmp(tok[0], "uget") && nt == 7) {
            buf_t* b = find(tok[1]);
            if (!b) { puts("bad-op"); continue; }
            Avtp_FieldDescriptor_t d = { (uint8_t)atoi(tok[3]), (uint8_t)atoi(tok[4]), (uint8_t)atoi(tok[5]) };
            printf("v %" PRIu64 "\n", Avtp_GetField(&d, 1, b->p + atol(tok[2]), 0));
            continue;
        }
        if (!strcmp(tok[0], "uset") && nt == 8) {
            buf_t* b = find(tok[1]);
            if (!b) { puts("bad-op"); continue; }
            Avtp_FieldDescriptor_t d = { (uint8_t)atoi(tok[3]), (uint8_t)atoi(tok[4]), (uint8_t)atoi(tok[5]) };
            Avtp_SetField(&d, 1, b->p + atol(tok[2]), 0, strtoull(tok[7], NULL, 10));
            continue;
        }
        if (vm_extra(tok, nt)) continue;
        puts("bad-op");
    }
    fflush(stdout);
    return 0;
}
