/* hv.h — interface between the hand-written harness VM (vm.c) and the per-format glue
   generated from the Lean Spec (tools/harness_gen.py). */
#ifndef HV_H
#define HV_H
#include <stdint.h>
#include <stddef.h>

typedef struct {
    const char* name;
    int header_len_spec;      /* header length according to the Spec */
    long header_len_macro;    /* value of the published *_HEADER_LEN macro */
    long sizeof_type;         /* sizeof(header type) */
    long offsetof_payload;    /* offsetof(header type, payload) */
    int nfields;
    /* path: 'g' generic by identifier, 'd' dedicated, 'l' legacy wrapper */
    int (*get)(uint8_t* pdu, int idx, int path, uint64_t* out);       /* 0 ok, -1 no such accessor, else error code */
    int (*set)(uint8_t* pdu, int idx, int path, uint64_t v);
    int (*init)(uint8_t* pdu, int path, uint64_t arg, int* ret);
    /* by raw numeric identifier (C11) */
    int (*get_id)(uint8_t* pdu, uint64_t id, int path, uint64_t* out, int null_out, int* ret);
    int (*set_id)(uint8_t* pdu, uint64_t id, int path, uint64_t v, int* ret);
    uint8_t* (*payload)(uint8_t* pdu);
} hv_format_t;

extern const hv_format_t* const hv_formats[];
extern const int hv_nformats;
#endif
