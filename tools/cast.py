"""cast.py — thin layer over clang-14's typed AST (JSON) for the C subset Open1722 uses.

Every C expression/statement is reduced to a nested tuple ("s-expression") in which the
*implicit* conversions clang inserted are explicit and value-preserving no-op casts are
dropped, so that shape recognition in translate.py is a structural match and never a
guess at C's conversion rules.
"""
import json
import os
import subprocess

CLANG = os.environ.get("O1722_CLANG", "clang-14")

NOOP_CASTS = {"LValueToRValue", "FunctionToPointerDecay", "ArrayToPointerDecay", "NoOp"}

INT_BITS = {
    "unsigned char": 8, "signed char": 8, "char": 8, "_Bool": 8,
    "unsigned short": 16, "short": 16,
    "unsigned int": 32, "int": 32,
    "unsigned long": 64, "long": 64, "unsigned long long": 64, "long long": 64,
}


def ast_json(path, repo, extra=()):
    cmd = [CLANG, "-fsyntax-only", "-std=gnu99", "-I", os.path.join(repo, "include"),
           "-I", os.path.join(repo, "examples"),
           *extra, "-Xclang", "-ast-dump=json", path]
    r = subprocess.run(cmd, capture_output=True, text=True)
    if r.returncode != 0:
        raise RuntimeError("clang failed on %s:\n%s" % (path, r.stderr[-2000:]))
    return json.loads(r.stdout)


class TU:
    """One translation unit: declarations indexed by id and name, with the file each
    top-level declaration comes from."""

    def __init__(self, path, repo, extra=()):
        self.path = path
        self.root = ast_json(path, repo, extra)
        self.by_id = {}
        self.top = []          # (file, node)
        cur = None
        for n in self.root.get("inner", []):
            loc = n.get("loc", {})
            f = loc.get("file") or loc.get("includedFrom", {}).get("file") if False else None
            # clang prints "file" only when it changes; track it through loc/range
            f = self._file_of(n)
            if f is not None:
                cur = f
            self.top.append((cur, n))
            self._index(n)

    _last_file = None

    def _file_of(self, n):
        # the JSON dumper emits "file" in loc (or in range.begin) only when the file
        # differs from the previously printed location
        for key in ("loc",):
            loc = n.get(key, {})
            if "file" in loc:
                return loc["file"]
            if "spellingLoc" in loc and "file" in loc["spellingLoc"]:
                return loc["spellingLoc"]["file"]
            if "expansionLoc" in loc and "file" in loc["expansionLoc"]:
                return loc["expansionLoc"]["file"]
        rb = n.get("range", {}).get("begin", {})
        if "file" in rb:
            return rb["file"]
        for k in ("spellingLoc", "expansionLoc"):
            if k in rb and "file" in rb[k]:
                return rb[k]["file"]
        return None

    def _index(self, n):
        if isinstance(n, dict):
            if "id" in n and "kind" in n and n["kind"].endswith("Decl"):
                self.by_id[n["id"]] = n
            for c in n.get("inner", []):
                self._index(c)

    # ---- types ---------------------------------------------------------------
    def type_bits(self, ty):
        """Width in bits of an integer/enum type given clang's type record; None if not
        an integer type."""
        d = ty.get("desugaredQualType", ty.get("qualType", ""))
        d = d.replace("const ", "").replace("volatile ", "").strip()
        if d in INT_BITS:
            return INT_BITS[d]
        q = ty.get("qualType", "").replace("const ", "").strip()
        if q in ("uint8_t", "int8_t"):
            return 8
        if q in ("uint16_t", "int16_t"):
            return 16
        if q in ("uint32_t", "int32_t"):
            return 32
        if q in ("uint64_t", "int64_t", "size_t", "ssize_t"):
            return 64
        if d.startswith("enum ") or self.is_enum_typedef(q) or self.is_enum_typedef(d):
            return 32          # gcc/clang: int-sized for these enumerations; probe checks
        return None

    def is_enum_typedef(self, name):
        for _, n in self.top:
            if n.get("kind") == "TypedefDecl" and n.get("name") == name:
                return "enum" in n.get("type", {}).get("qualType", "") or any(
                    c.get("ownedTagDecl", {}).get("kind") == "EnumDecl" for c in n.get("inner", []))
        return False

    def enum_of_typedef(self, name):
        """EnumDecl node behind a typedef name (or tag name)."""
        for _, n in self.top:
            if n.get("kind") == "TypedefDecl" and n.get("name") == name:
                for c in n.get("inner", []):
                    did = c.get("ownedTagDecl", {}).get("id")
                    if did is None:
                        for cc in c.get("inner", []):
                            did = cc.get("decl", {}).get("id") or did
                    if did and did in self.by_id and self.by_id[did]["kind"] == "EnumDecl":
                        return self.by_id[did]
            if n.get("kind") == "EnumDecl" and n.get("name") == name:
                return n
        return None

    def enumerators(self, enum_node):
        out = []
        nxt = 0
        for c in enum_node.get("inner", []):
            if c.get("kind") != "EnumConstantDecl":
                continue
            val = None
            for cc in c.get("inner", []):
                v = const_value(cc)
                if v is not None:
                    val = v
            if val is None:
                val = nxt
            out.append((c["name"], val))
            nxt = val + 1
        return out

    def all_enumerators(self):
        d = {}
        for _, n in self.top:
            if n.get("kind") == "EnumDecl":
                for k, v in self.enumerators(n):
                    d[k] = v
        return d

    # ---- expressions ----------------------------------------------------------
    def sexp(self, n):
        k = n.get("kind")
        inner = [c for c in n.get("inner", []) if not c.get("kind", "").endswith("Comment")]
        if k in ("ParenExpr", "ConstantExpr", "ExprWithCleanups"):
            return self.sexp(inner[0])
        if k in ("ImplicitCastExpr", "CStyleCastExpr"):
            ck = n.get("castKind")
            sub = self.sexp(inner[0])
            if ck in NOOP_CASTS:
                return sub
            if ck == "IntegralCast":
                return ("icast", self.type_bits(n["type"]), n["type"].get("qualType"), sub,
                        "explicit" if k == "CStyleCastExpr" else "implicit")
            if ck == "NullToPointer":
                return ("null",)
            if ck in ("BitCast", "IntegralToPointer", "PointerToIntegral"):
                # 4th component: the source expression's own type (for alignment reasoning)
                return ("ptrcast", n["type"].get("qualType"), sub, inner[0].get("type", {}).get("qualType"))
            if ck in ("IntegralToBoolean", "PointerToBoolean"):
                return ("tobool", sub)
            if ck == "ToVoid":
                return ("tovoid", sub)
            return ("cast", ck, n["type"].get("qualType"), sub)
        if k == "IntegerLiteral":
            return ("lit", int(n["value"]))
        if k == "CharacterLiteral":
            return ("lit", int(n["value"]))
        if k == "DeclRefExpr":
            rd = n.get("referencedDecl", {})
            kind = rd.get("kind")
            if kind == "EnumConstantDecl":
                return ("enum", rd.get("name"))
            if kind == "FunctionDecl":
                return ("fn", rd.get("name"))
            if kind == "ParmVarDecl":
                return ("param", rd.get("name"))
            return ("var", rd.get("name"))
        if k == "CallExpr":
            f = self.sexp(inner[0])
            return ("call", f[1] if f[0] == "fn" else f, tuple(self.sexp(a) for a in inner[1:]))
        if k == "BinaryOperator" or k == "CompoundAssignOperator":
            return ("bin", n.get("opcode"), self.sexp(inner[0]), self.sexp(inner[1]), self.type_bits(n.get("type", {})))
        if k == "UnaryOperator":
            return ("un", n.get("opcode"), self.sexp(inner[0]), n["type"].get("qualType"))
        if k == "UnaryExprOrTypeTraitExpr":
            at = n.get("argType", {}).get("qualType")
            if at is None and inner:
                at = inner[0].get("type", {}).get("qualType")
            return (n.get("name"), at)
        if k == "MemberExpr":
            return ("member", n.get("name"), "->" if n.get("isArrow") else ".", self.sexp(inner[0]))
        if k == "ArraySubscriptExpr":
            return ("index", self.sexp(inner[0]), self.sexp(inner[1]))
        if k == "ConditionalOperator":
            return ("cond", self.sexp(inner[0]), self.sexp(inner[1]), self.sexp(inner[2]))
        if k == "InitListExpr":
            return ("initlist", tuple(self.sexp(c) for c in inner))
        if k == "ImplicitValueInitExpr":
            return ("zeroinit",)
        if k == "StringLiteral":
            return ("str", n.get("value"))
        return ("?" + str(k),) + tuple(self.sexp(c) for c in inner if "kind" in c)

    def stmt(self, n):
        k = n.get("kind")
        inner = [c for c in n.get("inner", []) if not c.get("kind", "").endswith("Comment")]
        if k == "CompoundStmt":
            return ("block", tuple(self.stmt(c) for c in inner))
        if k == "ReturnStmt":
            return ("return", self.sexp(inner[0]) if inner else None)
        if k == "IfStmt":
            cond = self.sexp(inner[0])
            then = self.stmt(inner[1])
            els = self.stmt(inner[2]) if len(inner) > 2 else None
            return ("if", cond, then, els)
        if k == "DeclStmt":
            ds = []
            for c in inner:
                if c.get("kind") == "VarDecl":
                    init = [x for x in c.get("inner", []) if not x.get("kind", "").endswith("Comment")]
                    ds.append(("decl", c.get("name"), c["type"].get("qualType"),
                               c.get("storageClass"), self.sexp(init[0]) if init else None))
            return ("decls", tuple(ds))
        if k in ("WhileStmt", "ForStmt", "DoStmt", "SwitchStmt", "CaseStmt", "DefaultStmt",
                 "BreakStmt", "ContinueStmt", "GotoStmt", "LabelStmt", "NullStmt"):
            return (k,) + tuple(self.stmt(c) if c.get("kind", "").endswith("Stmt") else self.sexp(c)
                                for c in inner if "kind" in c)
        return ("expr", self.sexp(n))


def const_value(n):
    """Value of a ConstantExpr / IntegerLiteral subtree if clang recorded one."""
    if n.get("kind") == "ConstantExpr" and "value" in n:
        return int(n["value"])
    if n.get("kind") == "IntegerLiteral":
        return int(n["value"])
    for c in n.get("inner", []):
        v = const_value(c)
        if v is not None:
            return v
    return None


def functions_with_bodies(tu, main_file_suffix):
    """FunctionDecls defined (with a body) in the main file."""
    out = []
    for f, n in tu.top:
        if n.get("kind") != "FunctionDecl":
            continue
        body = [c for c in n.get("inner", []) if c.get("kind") == "CompoundStmt"]
        if not body:
            continue
        out.append((f, n, body[0]))
    return out
