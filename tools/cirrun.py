"""cirrun.py — run functions of the regenerated Gen/Cir.lean under the C semantics of
CSem/Eval.lean (interpreted by `lake env lean --run`) on concrete inputs, for the correspondence
between [clang AST serialiser + Lean C semantics] and the real compiled code.  A disagreement
here on the unchanged tree would mean the semantics or the serialiser misrepresents the code
(the refinement theorems would then be about the wrong object)."""
import os
import re
import subprocess

import common

SCRIPT = """import O1722.CSem.Eval
import O1722.Gen.Cir
import O1722.Gen.Data
open O1722 O1722.C

def hexOf (l : List Byte) : String :=
  String.join (l.map fun b => String.ofList [Nat.digitChar (b.val / 16), Nat.digitChar (b.val % 16)])

def hexVal (c : Char) : Nat :=
  if c.isDigit then c.toNat - 48 else if 'a' ≤ c ∧ c ≤ 'f' then c.toNat - 87 else if 'A' ≤ c ∧ c ≤ 'F' then c.toNat - 55 else 0

def unhex : List Char → List Nat
  | a :: b :: rest => (hexVal a * 16 + hexVal b) :: unhex rest
  | _ => []

def tablesAll : List (String × List Desc) := Gen.formats.map fun g => (g.tableName, g.table)

/-- Table names are `static` per translation unit (three files call theirs `fieldDescriptors`), so a
    table is resolved through the SOURCE FILE of the function under test: every name the function
    mentions is its own file's table.  No file: the ad-hoc one-row table of the raw Utils cases. -/
def tblAddr (file : String) (_name : String) : Nat :=
  match Gen.formats.findIdx? (fun g => g.file == file) with
  | some i => 8192 + 1024 * i
  | none => 4096

/-- read-only data: a one-row table at 4096 (raw cases) and the regenerated tables from 8192 on -/
def romAll (row : Nat × Nat × Nat) : Nat → Byte := fun a =>
  if a = 4096 then Fin.ofNat 256 row.1 else if a = 4097 then Fin.ofNat 256 row.2.1 else if a = 4098 then Fin.ofNat 256 row.2.2
  else if a < 8192 then 0 else
    match tablesAll[(a - 8192) / 1024]? with
    | some (_, tbl) =>
      let o := (a - 8192) % 1024
      match tbl[o / 3]? with
      | some d => Fin.ofNat 256 (if o % 3 = 0 then d.quadlet else if o % 3 = 1 then d.offset else d.bits)
      | none => 0
    | none => 0

/-- one line: `fn;a0 a1 ...;q o b;bufhex;srchex;file` — buffer at 65536, source buffer at 1048576 -/
def runLine (line : String) : String :=
  match line.splitOn ";" with
  | [fn, args, row, bufh, srch, file] =>
    let nums := fun (s : String) => (s.splitOn " ").filterMap (fun t => t.toNat?)
    let r := nums row
    let bs := (unhex bufh.toList).toArray
    let src := (unhex srch.toList).toArray
    let m : Mem := fun a => if 1048576 ≤ a then Fin.ofNat 256 (src.getD (a - 1048576) 0)
      else if 65536 ≤ a then Fin.ofNat 256 (bs.getD (a - 65536) 0) else 0
    let env : Env := { prog := Gen.Cir.prog .little, glob := tblAddr file, rom := romAll (r.getD 0 0, r.getD 1 0, r.getD 2 0),
                       ext := fun _ _ => none, endian := .little }
    match callFn env 200 fn (nums args) ⟨m, []⟩ with
    | some res => s!"R {res.1} {hexOf (res.2.mem.read 65536 bs.size)}"
    | none => "R stuck stuck"
  | _ => "R bad bad"

partial def loop (h : IO.FS.Stream) : IO Unit := do
  let line ← h.getLine
  if line.isEmpty then return ()
  IO.println (runLine (line.trimAscii.toString))
  loop h

def main : IO Unit := do loop (← IO.getStdin)
"""


def run_lines(lines, name):
    """lines: list of (fn, [args], (q,o,b) or None, buffer bytes, source bytes[, source file of fn]).
    Returns per line (value str, hex dump str)."""
    path = os.path.join(common.BUILD, name + ".lean")
    open(path, "w").write(SCRIPT)
    txt = "".join("%s;%s;%s;%s;%s;%s\n" % (l[0], " ".join(str(a) for a in l[1]), " ".join(str(x) for x in (l[2] or (0, 0, 0))),
                                           bytes(l[3]).hex(), bytes(l[4]).hex(), l[5] if len(l) > 5 else "-") for l in lines)
    r = subprocess.run(["lake", "env", "lean", "--run", path], cwd=common.LEAN, input=txt, capture_output=True, text=True, timeout=1800)
    res = []
    for line in r.stdout.splitlines():
        m = re.match(r"R (\S+) ?(\S*)", line)
        if m:
            res.append((m.group(1), m.group(2)))
    if r.returncode != 0 or len(res) != len(lines):
        raise common.ToolError("interpreter run of Gen/Cir.lean failed:\n" + (r.stdout + r.stderr)[-2000:])
    return res


def utils_cases(cases):
    """cases: list of (q, o, b, bytes, off, v): raw Avtp_GetField / Avtp_SetField on a one-row table.
    Returns per case (get value str, hex dump after set)."""
    lines = []
    for q, o, b, bs, off, v in cases:
        lines.append(("Avtp_GetField", [4096, 1, 65536 + off, 0], (q, o, b), bs, []))
        lines.append(("Avtp_SetField", [4096, 1, 65536 + off, 0, v], (q, o, b), bs, []))
    res = run_lines(lines, "cirrun_utils")
    return [(res[2 * k][0], res[2 * k + 1][1]) for k in range(len(cases))]


def mem_cases(cases, name="cirrun_mem"):
    """cases: list of (function name, [args], buffer bytes, source bytes); the buffer is at 65536, the
    source buffer at 1048576.  Returns per case (value str, hex dump str)."""
    return run_lines([(c[0], c[1], None, c[2], c[3], c[4] if len(c) > 4 else "-") for c in cases], name)
