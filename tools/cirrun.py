"""cirrun.py — run functions of the regenerated Gen/Cir.lean under the C semantics of
CSem/Eval.lean (interpreted by `lake env lean`) on concrete inputs, for the correspondence
between [clang AST serialiser + Lean C semantics] and the real compiled code.  A disagreement
here on the unchanged tree would mean the semantics or the serialiser misrepresents the code
(the refinement theorems would then be about the wrong object)."""
import os
import re

import common

PRELUDE = """import O1722.CSem.Eval
import O1722.Gen.Cir
open O1722 O1722.C

def memOf (bs : List Nat) (base : Nat) : Mem :=
  fun a => if base ≤ a then Fin.ofNat 256 (bs.getD (a - base) 0) else 0
def hexOf (l : List Byte) : String :=
  String.join (l.map fun b => String.ofList [Nat.digitChar (b.val / 16), Nat.digitChar (b.val % 16)])
def showOpt : Option Nat → String | some v => toString v | none => "stuck"

/-- one raw Utils case: descriptor (q,o,b) at rom 4096, PDU at 65536+off inside `bs` -/
def utilsCase (e : Endian) (q o b : Nat) (bs : List Nat) (off v : Nat) : String :=
  let rom : Nat → Byte := fun a => if a = 4096 then Fin.ofNat 256 q else if a = 4097 then Fin.ofNat 256 o
    else if a = 4098 then Fin.ofNat 256 b else 0
  let env : Env := { prog := Gen.Cir.prog e, glob := fun _ => 4096, rom := rom, ext := fun _ _ => none, endian := e }
  let m := memOf bs 65536
  let g := callFn env 64 "Avtp_GetField" [4096, 1, 65536 + off, 0] ⟨m, []⟩
  let s := callFn env 64 "Avtp_SetField" [4096, 1, 65536 + off, 0, v] ⟨m, []⟩
  let sd := match s with | some r => hexOf (r.2.mem.read 65536 bs.length) | none => "stuck"
  s!"{showOpt (g.map (·.1))} {sd}"
"""


def utils_cases(cases):
    """cases: list of (q, o, b, bytes, off, v).  Returns per case (get value str, hex dump str) for
    the little-endian program, or raises ToolError."""
    lines = [PRELUDE]
    lines.append("def cases : List (Nat × Nat × Nat × List Nat × Nat × Nat) := [")
    lines.append(",\n".join("  (%d, %d, %d, [%s], %d, %d)" % (q, o, b, ", ".join(str(x) for x in bs), off, v)
                            for q, o, b, bs, off, v in cases))
    lines.append("]")
    lines.append("#eval cases.forM (fun (q, o, b, bs, off, v) => IO.println (\"R \" ++ utilsCase .little q o b bs off v)) *> pure ()")
    rc, out = common.lean_eval("\n".join(lines) + "\n", "cirrun_utils")
    res = []
    for line in out.splitlines():
        m = re.match(r"R (\S+) (\S+)", line)
        if m:
            res.append((m.group(1), m.group(2)))
    if rc != 0 or len(res) != len(cases):
        raise common.ToolError("interpreter run of Gen/Cir.lean failed:\n" + out[-2000:])
    return res
