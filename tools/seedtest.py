#!/usr/bin/env python3
"""seedtest.py <PROPERTY> <seed dir> <name> [extra property ids...]

Confirms a seeded breaking change (patch.diff + demo.c + meta.json produced by an
independent agent) in a scratch worktree — tests still pass, demo fails with / passes
without the patch — stores it under /verif/seeded/<name>/, then applies it to /repo, runs
the property's quick check (and any extra ones), records which checks raised a VIOLATION,
and restores /repo."""
import json
import os
import shutil
import subprocess
import sys
import tempfile

VERIF = os.path.dirname(os.path.dirname(os.path.abspath(__file__)))
REPO = "/repo"


def sh(cmd, cwd=None, timeout=3600):
    return subprocess.run(cmd, shell=True, cwd=cwd, capture_output=True, text=True, timeout=timeout)


def main():
    prop, sdir, name = sys.argv[1], sys.argv[2], sys.argv[3]
    extra = sys.argv[4:]
    dst = os.path.join(VERIF, "seeded", name)
    os.makedirs(dst, exist_ok=True)
    for f in ("patch.diff", "demo.c", "meta.json"):
        shutil.copy(os.path.join(sdir, f), os.path.join(dst, f))
    meta = json.load(open(os.path.join(dst, "meta.json")))
    meta["property"] = prop
    ran = []
    # ---- confirm in a scratch worktree ----------------------------------------------------
    wt = tempfile.mkdtemp(prefix="seedwt_", dir="/tmp")
    os.rmdir(wt)
    assert sh("git -C %s worktree add -q --detach %s HEAD" % (REPO, wt)).returncode == 0
    try:
        # the demo is compiled from where the agent wrote it (<worktree>/_seed/1/demo.c): some demos
        # #include library sources relative to that place
        os.makedirs(os.path.join(wt, "_seed", "1"), exist_ok=True)
        shutil.copy(os.path.join(dst, "demo.c"), os.path.join(wt, "_seed", "1", "demo.c"))
        build = "gcc -w -I include _seed/1/demo.c src/avtp/*.c src/avtp/*/*.c src/avtp/*/*/*.c -o /tmp/seed_demo_%s -lm -lpthread" % name
        if meta.get("build"):
            # the agent's own build line; the demo is built as ./demo inside the worktree.  A demo
            # that does not COMPILE with the change counts as failing (header properties).
            build = "rm -f demo; " + meta["build"].replace("DEMO_C", "_seed/1/demo.c") + " && cp demo /tmp/seed_demo_%s" % name
        r0 = sh(build, cwd=wt)
        d0 = sh("/tmp/seed_demo_%s" % name, cwd=wt) if r0.returncode == 0 else None
        ran.append("demo on unmodified tree: exit %s" % (d0.returncode if d0 else "build failed: " + r0.stderr[-300:]))
        ap = sh("git apply %s/patch.diff" % dst, cwd=wt)
        ran.append("git apply: exit %d" % ap.returncode)
        r1 = sh(build, cwd=wt)
        d1 = sh("/tmp/seed_demo_%s" % name, cwd=wt) if r1.returncode == 0 else None
        ran.append("demo with patch: exit %s" % (d1.returncode if d1 else "build failed"))
        if d1 is None and meta.get("build") and meta.get("compile_failure_is_the_demo"):
            class _F: returncode = 1
            d1 = _F()
        t = sh("cmake -G Ninja -S . -B _build -DUNIT_TESTING=ON >/dev/null && cmake --build _build 2>&1 | grep -c warning; ctest --test-dir _build -j8 2>&1 | tail -3", cwd=wt)
        tests_ok = "100% tests passed" in t.stdout
        ran.append("test suite with patch: %s" % ("192 tests pass" if tests_ok else "FAILS: " + t.stdout[-300:]))
        meta["confirmed"] = bool(d0 and d0.returncode == 0 and d1 and d1.returncode != 0 and tests_ok and ap.returncode == 0)
    finally:
        sh("git -C %s worktree remove --force %s" % (REPO, wt))
        try:
            os.remove("/tmp/seed_demo_%s" % name)
        except OSError:
            pass
    # ---- run our checks against it -----------------------------------------------------------
    caught = {}
    if meta["confirmed"]:
        assert sh("git -C %s status --porcelain --untracked-files=no" % REPO).stdout.strip() == "", "/repo not clean"
        # evidence files are rewritten by every check run: keep the clean-tree ones (a run on a mutated
        # tree must never end up committed as evidence)
        evid_keep = tempfile.mkdtemp(prefix="evid_keep_", dir="/tmp")
        for f in os.listdir(os.path.join(VERIF, "evidence")):
            shutil.copy(os.path.join(VERIF, "evidence", f), evid_keep)
        try:
            assert sh("git -C %s apply %s/patch.diff" % (REPO, dst)).returncode == 0
            for p in [prop] + extra:
                r = sh("./check %s --tier quick" % p, cwd=VERIF)
                vio = [l for l in r.stdout.splitlines() if l.startswith("VIOLATION")]
                caught[p] = {"exit": r.returncode, "violations": vio[:6], "n": len(vio)}
                ran.append("./check %s with patch applied to /repo: exit %d, %d VIOLATION line(s)" % (p, r.returncode, len(vio)))
                # keep one replay as illustration
                for v in vio[:1]:
                    rp = v.split("replay=")[1].split()[0]
                    if os.path.exists(os.path.join(VERIF, rp)):
                        shutil.copy(os.path.join(VERIF, rp), os.path.join(dst, "replay_%s.json" % p))
        finally:
            sh("git -C %s checkout -- ." % REPO)
            sh("find %s/replays -name '*.json' -delete" % VERIF)
            for f in os.listdir(evid_keep):
                shutil.copy(os.path.join(evid_keep, f), os.path.join(VERIF, "evidence", f))
            shutil.rmtree(evid_keep, ignore_errors=True)
    meta["what_was_run"] = ran
    meta["caught_by"] = caught
    meta["detected"] = any(v["n"] > 0 for v in caught.values())
    json.dump(meta, open(os.path.join(dst, "meta.json"), "w"), indent=1)
    print(name, "confirmed=%s" % meta["confirmed"], "detected=%s" % meta["detected"], {k: v["n"] for k, v in caught.items()})


if __name__ == "__main__":
    main()
