#!/usr/bin/env python3
"""translate.py — regenerate the declarative part of the Lean model from /repo's current
working tree.

For every src/avtp/**/*.c (except Utils.c, whose two functions are hand-modelled and tied
by the correspondence check) the typed clang AST is walked and every function is put in
one of a few *recognised shapes*; anything else is recorded as shape "algorithmic"
(hand-modelled, named in Spec) or "opaque" (not understood: the obligations that need it
fail, by name).  Constant facts the AST does not carry (sizeof, offsetof, macro values,
enum underlying widths) come from compiling and running a probe against the repo's own
headers.

Output: build/gen.json (for the Python tools) and lean/O1722/Gen/Data.lean.
"""
import concurrent.futures as cf
import glob
import hashlib
import json
import os
import re
import subprocess
import sys
import tempfile

HERE = os.path.dirname(os.path.abspath(__file__))
VERIF = os.path.dirname(HERE)
sys.path.insert(0, HERE)
import cast  # noqa: E402

REPO = os.environ.get("O1722_REPO", "/repo")
BUILD = os.path.join(VERIF, "build")
GEN_LEAN = os.path.join(VERIF, "lean", "O1722", "Gen")
CC = os.environ.get("O1722_CC", "gcc")


class Opaque(Exception):
    pass


# --------------------------------------------------------------------------------------
# constant evaluation over s-expressions


def ev(s, enums):
    t = s[0]
    if t == "lit":
        return s[1]
    if t == "enum":
        if s[1] not in enums:
            raise Opaque("unknown enumerator " + s[1])
        return enums[s[1]]
    if t == "icast":
        v = ev(s[3], enums)
        bits = s[1]
        if bits is None:
            raise Opaque("cast to non-integer type " + str(s[2]))
        signed = not (s[2].startswith("u") or s[2].startswith("unsigned") or "enum" in s[2]
                      or s[2].startswith("Avtp_") or s[2].startswith("Vss_") or s[2] == "size_t")
        v %= (1 << bits)
        if signed and v >= (1 << (bits - 1)):
            v -= (1 << bits)
        return v
    if t == "un" and s[1] == "-":
        return -ev(s[2], enums)
    if t == "bin":
        a, b = ev(s[2], enums), ev(s[3], enums)
        op = s[1]
        if op == "+":
            return a + b
        if op == "-":
            return a - b
        if op == "*":
            return a * b
        if op == "/":
            return a // b
        if op == "<<":
            return a << b
        if op == ">>":
            return a >> b
        if op == "|":
            return a | b
        if op == "&":
            return a & b
    raise Opaque("not a constant: " + repr(s)[:80])


def strip_icast(s):
    """(inner, [bits of each integral cast applied, innermost first])"""
    casts = []
    while s[0] == "icast":
        casts.append(s[1])
        s = s[3]
    casts.reverse()
    return s, casts


def strip_ptrcast(s):
    while s[0] in ("ptrcast",):
        s = s[2]
    return s


# --------------------------------------------------------------------------------------
# shape recognition


def normalise_block(b):
    """`if (c) {..return..} rest` ==> `if (c) {...} else {rest}`; single statements wrapped."""
    if b is None:
        return None
    if b[0] != "block":
        b = ("block", (b,))
    stmts = list(b[1])
    out = []
    i = 0
    while i < len(stmts):
        st = stmts[i]
        if st[0] == "if":
            then = normalise_block(st[2])
            els = normalise_block(st[3])
            if els is None and ends_in_return(then) and i + 1 < len(stmts):
                els = normalise_block(("block", tuple(stmts[i + 1:])))
                out.append(("if", st[1], then, els))
                return ("block", tuple(out))
            out.append(("if", st[1], then, els))
        else:
            out.append(st)
        i += 1
    return ("block", tuple(out))


def ends_in_return(b):
    return b is not None and b[0] == "block" and len(b[1]) > 0 and b[1][-1][0] == "return"


def field_arg(s, enums, params):
    """The `field` argument of an Avtp_GetField/SetField call."""
    inner, casts = strip_icast(s)
    if inner[0] == "enum":
        return {"kind": "enum", "name": inner[1], "value": ev(s, enums) % 256 if casts else ev(s, enums)}
    if inner[0] == "param":
        return {"kind": "param", "name": inner[1], "param_bits": params[inner[1]]["bits"],
                "cast_bits": casts}
    raise Opaque("field argument " + repr(s)[:80])


def util_call(call, enums, params, tu):
    """Decode a call of Avtp_GetField / Avtp_SetField."""
    args = call[2]
    tbl = args[0]
    if tbl[0] != "var":
        raise Opaque("table argument")
    num = args[1]
    num_inner, num_casts = strip_icast(num)
    pdu = strip_ptrcast(args[2])
    if pdu[0] != "param":
        raise Opaque("pdu argument")
    d = {"table": tbl[1], "num_fields": ev(num, enums),
         "num_src": num_inner[1] if num_inner[0] == "enum" else None,
         "pdu_param": pdu[1], "field": field_arg(args[3], enums, params)}
    if call[1] == "Avtp_SetField":
        v = args[4]
        v_inner, v_casts = strip_icast(v)
        if v_inner[0] != "param":
            raise Opaque("value argument " + repr(v)[:60])
        d["value_param"] = v_inner[1]
        d["value_bits"] = params[v_inner[1]]["bits"]
        d["value_signed"] = params[v_inner[1]]["signed"]
        d["value_casts"] = v_casts
    return d


def classify(tu, fn, body, enums, sizes):
    name = fn["name"]
    params = {}
    porder = []
    for c in fn.get("inner", []):
        if c.get("kind") == "ParmVarDecl":
            q = c["type"].get("qualType", "")
            dq = c["type"].get("desugaredQualType", q)
            params[c.get("name")] = {"type": q, "bits": tu.type_bits(c["type"]),
                                     "signed": dq.replace("const ", "") in
                                     ("int", "short", "long", "signed char", "char", "long long"),
                                     "pointer": q.rstrip().endswith("*")}
            porder.append(c.get("name"))
    rq = fn["type"]["qualType"].split("(")[0].strip()
    ret_bits = None
    if rq != "void":
        ret_bits = tu.type_bits({"qualType": rq, "desugaredQualType": desugar(tu, rq)})
    info = {"name": name, "params": [[p, params[p]["type"]] for p in porder], "ret_type": rq,
            "ret_bits": ret_bits}
    b = normalise_block(tu.stmt(body))
    stmts = b[1]
    try:
        # ---- getter ------------------------------------------------------------------
        if len(stmts) == 1 and stmts[0][0] == "return" and stmts[0][1] is not None:
            e, casts = strip_icast(stmts[0][1])
            if e[0] == "call" and e[1] == "Avtp_GetField":
                info.update(kind="getter", **util_call(e, enums, params, tu))
                info["ret_casts"] = casts
                return info
            if e[0] == "member" and e[1] == "payload" and e[3][0] == "param":
                info.update(kind="payload_accessor", pdu_param=e[3][1],
                            pdu_type=params[e[3][1]]["type"])
                return info
        # ---- setter ------------------------------------------------------------------
        if len(stmts) == 1 and stmts[0][0] == "expr" and stmts[0][1][0] == "call" \
                and stmts[0][1][1] == "Avtp_SetField":
            info.update(kind="setter", **util_call(stmts[0][1], enums, params, tu))
            return info
        # ---- initialiser: if (pdu != NULL) { memset; SetField(const)... } ------------
        if len(stmts) == 1 and stmts[0][0] == "if" and stmts[0][3] is None:
            c = stmts[0][1]
            if c[0] == "bin" and c[1] == "!=" and strip_ptrcast(c[2])[0] == "param" \
                    and strip_ptrcast(c[3])[0] == "null":
                p = strip_ptrcast(c[2])[1]
                seq = init_sequence(stmts[0][2][1], p, enums, sizes)
                if seq is not None:
                    info.update(kind="init", pdu_param=p, guarded=True, steps=seq)
                    return info
        # ---- legacy wrappers ------------------------------------------------------------
        try:
            leg = legacy_shape(stmts, params, porder, enums, sizes)
        except (TypeError, IndexError, KeyError, AttributeError):
            leg = None          # not the wrapper shape (e.g. a guard with a bare `return;`): algorithmic
        if leg is not None:
            info.update(leg)
            return info
    except Opaque as ex:
        info.update(kind="opaque", why=str(ex))
        return info
    info.update(kind="algorithmic")
    info["body_sha"] = hashlib.sha256(repr(b).encode()).hexdigest()[:16]
    info["memset_scales"] = memset_scales(b, params, sizes)
    info["writes_through"] = writes_through(b, params)
    info["_body"], info["_params"] = b, params
    return info


BYTE_POINTEES = ("uint8_t", "int8_t", "char", "unsigned char", "signed char", "void")
WIDE = {"uint16_t": 2, "int16_t": 2, "uint32_t": 4, "int32_t": 4, "uint64_t": 8, "int64_t": 8, "float": 4, "double": 8,
        "unsigned short": 2, "short": 2, "unsigned int": 4, "int": 4, "unsigned long": 8, "long": 8}


def pointee(t):
    return (t or "").replace("const ", "").replace("volatile ", "").strip().rstrip("*").strip()


def typed_sites(fname, node):
    """Memory accesses through an lvalue of a wider-than-byte type obtained by casting a
    pointer whose static type only promises byte alignment (a `uint8_t*`/`char*`/`void*`
    or a pointer to one of the library's byte-array header structs): `*(uint32_t*)p`,
    `*((uint16_t*)p + i)`, `((uint32_t*)p)[i]`.  Returns [(function, wide type, source type)]."""
    out = []
    wide_vars = {}      # local pointer variables holding such a cast: name -> (wide type, source type)

    def note_vars(n):
        if isinstance(n, tuple):
            if n and n[0] == "decl" and n[4] is not None:
                t = cast_under0(n[4])
                if t is not None:
                    wide_vars[n[1]] = t
            if n and n[0] == "bin" and n[1] == "=" and n[2][0] == "var":
                t = cast_under0(n[3])
                if t is not None:
                    wide_vars[n[2][1]] = t
            for c in n:
                note_vars(c)

    def cast_under0(e):
        while e[0] == "bin" and e[1] in ("+", "-"):
            e = e[2]
        if e[0] == "ptrcast" and len(e) > 3:
            wide = pointee(e[1])
            pt = pointee(e[3])
            if wide in WIDE and WIDE[wide] > 1 and (pt in BYTE_POINTEES or pt.startswith("Avtp_") or pt.startswith("struct avtp_") or pt.startswith("struct Avtp_")):
                return (e[1], e[3] or "?")
        return None

    note_vars(node)

    def cast_under(e):
        # the pointer expression being dereferenced: look through `+`/`-` index arithmetic
        while e[0] == "bin" and e[1] in ("+", "-"):
            e = e[2] if e[2][0] in ("ptrcast", "bin") or e[3][0] not in ("ptrcast",) else e[3]
        return e

    def byteish(src):
        pt = pointee(src)
        return pt in BYTE_POINTEES or pt.startswith("Avtp_") or pt.startswith("struct avtp_") or pt.startswith("struct Avtp_")

    def walk(n):
        if isinstance(n, tuple):
            target = None
            if n and n[0] == "un" and n[1] == "*":
                target = cast_under(n[2])
            elif n and n[0] == "index":
                target = cast_under(n[1])
            if target is not None and target[0] == "ptrcast" and len(target) > 3:
                wide = pointee(target[1])
                if wide in WIDE and WIDE[wide] > 1 and byteish(target[3]):
                    out.append([fname, target[1], target[3] or "?"])
            elif target is not None and target[0] == "var" and target[1] in wide_vars:
                out.append([fname, wide_vars[target[1]][0], wide_vars[target[1]][1]])
            for c in n:
                walk(c)
    walk(node)
    return out


def writes_through(node, params, summaries=None):
    """Pointer parameters through which the function body (syntactically) stores: an
    assignment whose target dereferences an expression derived from the parameter, a
    memcpy/memset/str*cpy whose destination is, or a call of a `*Set*`/`*Init*`/`*Pad*`
    function passing it.  Locals initialised or assigned from such expressions inherit the
    derivation (flow-insensitive)."""
    derived = {p: {p} for p, info in params.items() if info.get("pointer")}
    pointer_locals = set()

    def find_ptr_locals(n):
        if isinstance(n, tuple):
            if n and n[0] == "decl" and isinstance(n[2], str) and "*" in n[2]:
                pointer_locals.add(n[1])
            for c in n:
                find_ptr_locals(c)
    find_ptr_locals(node)

    def roots(e):
        out = set()
        if isinstance(e, tuple):
            if e and e[0] in ("param", "var") and len(e) > 1 and e[1] in derived:
                out |= derived[e[1]]
            for c in e:
                if isinstance(c, tuple):
                    out |= roots(c)
        return out

    changed = True
    while changed:
        changed = False

        def scan(n):
            nonlocal changed
            if isinstance(n, tuple):
                if n and n[0] == "decl" and n[4] is not None and isinstance(n[2], str) and "*" in n[2]:
                    r = roots(n[4])
                    if r - derived.get(n[1], set()):
                        derived[n[1]] = derived.get(n[1], set()) | r
                        changed = True
                if n and n[0] == "bin" and n[1] == "=" and n[2][0] == "var" and n[2][1] in pointer_locals:
                    r = roots(n[3])
                    if r and r - derived.get(n[2][1], set()):
                        derived[n[2][1]] = derived.get(n[2][1], set()) | r
                        changed = True
                for c in n:
                    scan(c)
        scan(node)
    written = set()

    def target_roots(lhs):
        # only dereferencing targets count: *p, p[i], p->m
        if lhs[0] == "un" and lhs[1] == "*":
            return roots(lhs[2])
        if lhs[0] == "index":
            return roots(lhs[1])
        if lhs[0] == "member" and lhs[2] == "->":
            return roots(lhs[3])
        if lhs[0] == "member":
            return target_roots(lhs[3])
        if lhs[0] == "ptrcast":
            return target_roots(lhs[2])
        if lhs[0] in ("icast", "cast"):
            return target_roots(lhs[3])
        return set()

    def walk(n):
        if isinstance(n, tuple):
            if n and n[0] == "bin" and isinstance(n[1], str) and n[1].endswith("=") and n[1] not in ("==", "!=", "<=", ">="):
                written.update(target_roots(n[2]))
            if n and n[0] == "un" and n[1] in ("++", "--") :
                written.update(target_roots(n[2]))
            if n and n[0] == "call" and isinstance(n[1], str):
                fn = n[1]
                if fn in ("memcpy", "memset", "memmove", "strcpy", "strncpy") and n[2]:
                    written.update(roots(n[2][0]))
                elif summaries and fn in summaries:
                    # a function of the same file: the parameters IT stores through
                    for idx in summaries[fn]:
                        if idx < len(n[2]):
                            written.update(roots(n[2][idx]))
                elif any(k in fn for k in ("Set", "Init", "Pad", "Finalize", "Create", "Serialize")) and "Get" not in fn:
                    for a in n[2][:1]:
                        written.update(roots(a))
            for c in n:
                walk(c)
    walk(node)
    return sorted(written)


def memset_scales(node, params, sizes):
    """For every `memset(dst, ...)` in a function body: the element size the destination
    address is scaled by, i.e. sizeof(*P) when dst is `P + n` for a pointer P (1 for byte
    pointers / byte arrays), 0 when the shape is not understood."""
    out = []

    def pointee_size(e):
        e = strip_ptrcast(e) if e[0] != "ptrcast" else e
        if e[0] == "param" and params.get(e[1], {}).get("pointer"):
            t = params[e[1]]["type"].replace("const ", "").rstrip("*").strip()
            if t in ("uint8_t", "char", "unsigned char", "void"):
                return 1
            return sizes.get("sizeof:" + t, 0)
        if e[0] == "member":      # uint8_t payload[0] / header[..]
            return 1
        if e[0] == "ptrcast":
            t = e[1].replace("const ", "").rstrip("*").strip()
            if t in ("uint8_t", "char", "unsigned char"):
                return 1
            return sizes.get("sizeof:" + t, 0)
        return 0

    def walk(n):
        if isinstance(n, tuple):
            if len(n) >= 3 and n[0] == "call" and n[1] == "memset":
                dst = n[2][0]
                while dst[0] == "ptrcast" and dst[1].startswith("void"):
                    dst = dst[2]
                if dst[0] == "bin" and dst[1] == "+":
                    out.append(pointee_size(dst[2]))
                else:
                    out.append(1 if pointee_size(dst) else 0)
            for c in n:
                walk(c)

    walk(node)
    return out


def desugar(tu, q):
    m = {"uint8_t": "unsigned char", "uint16_t": "unsigned short", "uint32_t": "unsigned int",
         "uint64_t": "unsigned long", "int8_t": "signed char", "int16_t": "short",
         "int32_t": "int", "int64_t": "long"}
    return m.get(q, q)


def init_sequence(stmts, p, enums, sizes):
    """[memset(p,0,sizeof T), X_SetField(p, F, C)...] -> list of steps, or None."""
    steps = []
    for st in stmts:
        if st[0] != "expr" or st[1][0] != "call":
            return None
        call = st[1]
        args = call[2]
        if call[1] == "memset":
            dst = strip_ptrcast(args[0])
            if dst != ("param", p):
                raise Opaque("memset destination is not the PDU pointer itself")
            if ev(args[1], enums) != 0:
                raise Opaque("memset value is not 0")
            sz = args[2]
            if sz[0] == "sizeof":
                steps.append({"op": "memset", "value": 0, "size_of": sz[1],
                              "size": sizes.get("sizeof:" + sz[1])})
            else:
                steps.append({"op": "memset", "value": 0, "size_of": None, "size": ev(sz, enums)})
        else:
            if len(args) not in (2, 3) or strip_ptrcast(args[0]) != ("param", p):
                return None
            if len(args) == 3:
                f_inner, f_casts = strip_icast(args[1])
                if f_inner[0] != "enum":
                    return None
                steps.append({"op": "call", "fn": call[1], "field": f_inner[1],
                              "field_value": ev(args[1], enums), "value": ev(args[2], enums) % (1 << 64)})
            else:
                v_inner, _ = strip_icast(args[1])
                if v_inner[0] == "param":
                    steps.append({"op": "call1", "fn": call[1], "value_param": v_inner[1]})
                else:
                    steps.append({"op": "call1", "fn": call[1], "value": ev(args[1], enums) % (1 << 64)})
    return steps


def guard_atoms(c, params, enums):
    """`a == NULL || b == NULL || f >= MAX` / `!pdu` -> list of atoms."""
    if c[0] == "bin" and c[1] == "||":
        return guard_atoms(c[2], params, enums) + guard_atoms(c[3], params, enums)
    if c[0] == "bin" and c[1] == "==" and strip_ptrcast(c[3])[0] == "null":
        a = strip_ptrcast(c[2])
        if a[0] == "param":
            return [{"null": a[1]}]
    if c[0] == "un" and c[1] == "!":
        a = strip_ptrcast(c[2])
        if a[0] == "tobool":
            a = strip_ptrcast(a[1])
        if a[0] == "param" and params[a[1]]["pointer"]:
            return [{"null": a[1]}]
    if c[0] == "bin" and c[1] == ">=":
        a, casts = strip_icast(c[2])
        if a[0] == "param":
            return [{"ge": a[1], "bound": ev(c[3], enums), "cmp_casts": casts,
                     "param_bits": params[a[1]]["bits"], "param_signed": params[a[1]]["signed"]}]
    raise Opaque("guard " + repr(c)[:100])


def legacy_shape(stmts, params, porder, enums, sizes):
    # drop leading uninitialised local declarations (`int res;`)
    stmts = [s for s in stmts if not (s[0] == "decls" and all(d[4] is None for d in s[1]))]
    if not stmts or stmts[0][0] != "if":
        return None
    c, then, els = stmts[0][1], stmts[0][2], stmts[0][3]
    if not (then and len(then[1]) == 1 and then[1][0][0] == "return"):
        return None
    err = ev(then[1][0][1], enums)
    atoms = guard_atoms(c, params, enums)
    if els is None:
        return None
    body = list(els[1])
    if not body:
        return None
    ok = None
    if body[-1][0] == "return":
        ok = ev(body[-1][1], enums) if body[-1][1][0] != "var" else None
        body = body[:-1]
    d = {"guards": atoms, "err": err, "ok": ok}
    # get: [T tmp = F(pdu, field);] *val = [cast] (tmp | F(pdu, field));
    if len(body) in (1, 2):
        tmp = None
        if len(body) == 2 and body[0][0] == "decls" and len(body[0][1]) == 1:
            tmp = body[0][1][0]
            body = body[1:]
        st = body[0]
        if len(body) == 1 and st[0] == "expr" and st[1][0] == "bin" and st[1][1] == "=" \
                and st[1][2][0] == "un" and st[1][2][1] == "*":
            dst = st[1][2][2]
            rhs, casts = strip_icast(st[1][3])
            if tmp is not None and rhs == ("var", tmp[1]):
                rhs, c2 = strip_icast(tmp[4])
                casts = c2 + casts
            if dst[0] == "param" and rhs[0] == "call" and len(rhs[2]) == 2:
                f_inner, f_casts = strip_icast(rhs[2][1])
                p_inner = strip_ptrcast(rhs[2][0])
                if f_inner[0] == "param" and p_inner[0] == "param":
                    m = re.match(r"(?:const\s+)?(\w+)\s*\*", params[dst[1]]["type"])
                    vb = {"uint32_t": 32, "uint64_t": 64, "uint16_t": 16, "uint8_t": 8}.get(m.group(1)) if m else None
                    d.update(kind="legacy_get", fwd=rhs[1], pdu_param=p_inner[1],
                             field_param=f_inner[1], val_param=dst[1], val_bits=vb,
                             store_casts=casts)
                    return d
        if tmp is None and len(body) == 1 and st[0] == "expr" and st[1][0] == "call" \
                and len(st[1][2]) == 3:
            call = st[1]
            p_inner = strip_ptrcast(call[2][0])
            f_inner, _ = strip_icast(call[2][1])
            v_inner, v_casts = strip_icast(call[2][2])
            if p_inner[0] == "param" and f_inner[0] == "param" and v_inner[0] == "param":
                d.update(kind="legacy_set", fwd=call[1], pdu_param=p_inner[1],
                         field_param=f_inner[1], val_param=v_inner[1],
                         val_bits=params[v_inner[1]]["bits"])
                return d
    # init forwards: Init((T*)pdu); [SetX(pdu, param|const)]...
    if all(st[0] == "expr" and st[1][0] == "call" for st in body) and len(atoms) == 1 and "null" in atoms[0]:
        p = atoms[0]["null"]
        seq = init_sequence(body, p, enums, sizes)
        if seq is None:
            seq = []
            for st in body:
                call = st[1]
                a0 = strip_ptrcast(call[2][0])
                if a0 != ("param", p):
                    return None
                if len(call[2]) == 1:
                    seq.append({"op": "call0", "fn": call[1]})
                elif len(call[2]) == 2:
                    v_inner, _ = strip_icast(call[2][1])
                    if v_inner[0] == "param":
                        seq.append({"op": "call1", "fn": call[1], "value_param": v_inner[1],
                                    "value_bits": params[v_inner[1]]["bits"]})
                    else:
                        seq.append({"op": "call1", "fn": call[1], "value": ev(call[2][1], enums)})
                else:
                    return None
        d.update(kind="legacy_init", pdu_param=p, steps=seq)
        return d
    # init with checked legacy sets: memset; res = set(pdu,F,C); if (res < 0) return res; ...
    if len(atoms) == 1 and "null" in atoms[0]:
        p = atoms[0]["null"]
        seq = []
        i = 0
        okflow = True
        while i < len(body):
            st = body[i]
            if st[0] == "expr" and st[1][0] == "call" and st[1][1] == "memset":
                seq += init_sequence([st], p, enums, sizes)
                i += 1
                continue
            if st[0] == "expr" and st[1][0] == "bin" and st[1][1] == "=" and st[1][2][0] == "var" \
                    and st[1][3][0] == "call" and len(st[1][3][2]) == 3:
                call = st[1][3]
                f_inner, _ = strip_icast(call[2][1])
                if strip_ptrcast(call[2][0]) != ("param", p) or f_inner[0] != "enum":
                    okflow = False
                    break
                step = {"op": "checked_call", "fn": call[1], "field": f_inner[1],
                        "field_value": ev(call[2][1], enums),
                        "value": ev(call[2][2], enums) % (1 << 64)}
                # expect: if (res < 0) return res;
                if i + 1 < len(body) and body[i + 1][0] == "if":
                    nxt = body[i + 1]
                    cc = nxt[1]
                    if cc[0] == "bin" and cc[1] == "<" and cc[2] == st[1][2] and ev(cc[3], enums) == 0 \
                            and nxt[2][1][0] == ("return", st[1][2]):
                        seq.append(step)
                        rest = nxt[3]
                        body = list(rest[1]) if rest else []
                        if body and body[-1][0] == "return":
                            d["ok"] = ev(body[-1][1], enums)
                            body = body[:-1]
                        i = 0
                        continue
                okflow = False
                break
            okflow = False
            break
        if okflow and seq:
            d.update(kind="legacy_init", pdu_param=p, steps=seq)
            return d
    return None


# --------------------------------------------------------------------------------------
# per-file extraction


def table_rows(tu, var):
    il = [c for c in var.get("inner", []) if c.get("kind") == "InitListExpr"]
    if not il:
        raise Opaque("table without initialiser")
    rows = []
    m = re.search(r"\[(\d+)\]", var["type"]["qualType"])
    n = int(m.group(1))
    inner = il[0].get("inner", [])
    # clang prints array_filler separately when trailing elements are value-initialised
    elems = [c for c in inner if c.get("kind") in ("InitListExpr", "ImplicitValueInitExpr")]
    filler = il[0].get("array_filler")
    for c in elems:
        if c.get("kind") == "ImplicitValueInitExpr":
            rows.append([0, 0, 0])
        else:
            vals = []
            for cc in c.get("inner", []):
                if cc.get("kind") == "ImplicitValueInitExpr":
                    vals.append(0)
                else:
                    v = cast.const_value(cc)
                    if v is None:
                        raise Opaque("non-literal table entry")
                    vals.append(v % 256)
            while len(vals) < 3:
                vals.append(0)
            rows.append(vals[:3])
    if filler is not None:
        elems2 = [c for c in filler if c.get("kind") in ("InitListExpr",)]
        rows = []
        for c in elems2:
            vals = []
            for cc in c.get("inner", []):
                v = 0 if cc.get("kind") == "ImplicitValueInitExpr" else cast.const_value(cc)
                vals.append(v % 256)
            rows.append(vals[:3])
    while len(rows) < n:
        rows.append([0, 0, 0])
    return n, rows


def extract_file(path):
    rel = os.path.relpath(path, REPO)
    tu = cast.TU(path, REPO)
    enums = tu.all_enumerators()
    out = {"file": rel, "tables": [], "functions": [], "statics": [], "field_enum": None}
    stem = os.path.splitext(os.path.basename(path))[0]
    hdrs = [h for h in header_list() if os.path.splitext(os.path.basename(h))[0] == stem]
    out["header"] = hdrs[0] if hdrs else None
    # public headers the source file includes (own header first): their constants are
    # the facts the file's obligations may refer to
    incs = re.findall(r'#include\s+"(avtp/[^"]+)"', open(path).read())
    out["includes"] = ([out["header"]] if out["header"] else []) + [i for i in incs if i != out["header"]]
    # tables and statics
    for f, n in tu.top:
        if n.get("kind") == "VarDecl" and f == path:
            q = n["type"]["qualType"]
            if re.match(r"const Avtp_FieldDescriptor_t\s*\[\d+\]", q):
                size, rows = table_rows(tu, n)
                out["tables"].append({"name": n["name"], "size": size, "rows": rows,
                                      "storage": n.get("storageClass")})
            out["statics"].append({"name": n["name"], "type": q,
                                   "const": q.startswith("const "), "where": "file"})
    sizes = PROBE
    fns = cast.functions_with_bodies(tu, rel)
    for f, n, body in fns:
        if f != path:
            continue
        info = classify(tu, n, body, enums, sizes)
        out["functions"].append(info)
        out.setdefault("typed_sites", []).extend(typed_sites(n["name"], tu.stmt(body)))
        collect_local_statics(n, body, out["statics"])
    # stores through pointer parameters, propagated through calls of functions of the same file
    # (e.g. a byte-order helper that memcpy's into its argument) until nothing changes
    algo = [fn for fn in out["functions"] if "_body" in fn]
    changed = True
    while changed:
        changed = False
        summaries = {fn["name"]: [i for i, (pn, _) in enumerate(fn["params"]) if pn in fn["writes_through"]] for fn in algo}
        for fn in algo:
            w = writes_through(fn["_body"], fn["_params"], summaries)
            if w != fn["writes_through"]:
                fn["writes_through"] = w
                changed = True
    for fn in algo:
        del fn["_body"], fn["_params"]
    # the field enum: parameter type of the generic getter
    for fn in out["functions"]:
        if fn.get("kind") == "getter" and fn["field"]["kind"] == "param":
            pt = dict((p, t) for p, t in fn["params"])[fn["field"]["name"]]
            en = tu.enum_of_typedef(pt)
            if en is not None:
                out["field_enum"] = {"type": pt, "enumerators": tu.enumerators(en)}
    return out


def collect_local_statics(fn, node, acc):
    if isinstance(node, dict):
        if node.get("kind") == "VarDecl" and node.get("storageClass") == "static":
            q = node["type"]["qualType"]
            acc.append({"name": fn["name"] + "::" + node.get("name", "?"), "type": q,
                        "const": q.startswith("const "), "where": "function"})
        for c in node.get("inner", []):
            collect_local_statics(fn, c, acc)


# --------------------------------------------------------------------------------------
# probe: constants evaluated by the real compiler against the repo's headers

PROBE = {}


def header_list():
    hs = sorted(glob.glob(os.path.join(REPO, "include", "avtp", "**", "*.h"), recursive=True))
    return [os.path.relpath(h, os.path.join(REPO, "include")) for h in hs]


def probe_header(h):
    """sizeof/offsetof of every `Avtp_*_t` header type, integer macros, enum widths and
    enumerator values declared (directly or transitively) by one public header."""
    inc = os.path.join(REPO, "include")
    r = subprocess.run([CC, "-std=gnu99", "-I", inc, "-dM", "-E", "-include", h, "-x", "c", "/dev/null"],
                       capture_output=True, text=True)
    base = subprocess.run([CC, "-std=gnu99", "-dM", "-E", "-include", "stdint.h", "-x", "c", "/dev/null"],
                          capture_output=True, text=True)
    basem = set(l.split()[1] for l in base.stdout.splitlines() if l.startswith("#define"))
    macros = []
    for l in r.stdout.splitlines():
        m = re.match(r"#define (\w+) (.+)", l)
        if m and m.group(1) not in basem and not m.group(1).startswith("_"):
            macros.append(m.group(1))
    tu = cast.TU(os.path.join(inc, h), REPO, extra=("-x", "c"))
    types = []
    enum_types = []
    for f, n in tu.top:
        if n.get("kind") == "TypedefDecl" and f and "/avtp/" in f or (n.get("kind") == "TypedefDecl" and f and f.endswith(h)):
            nm = n["name"]
            qt = n["type"].get("qualType", "")
            if qt.startswith("struct") or qt.startswith("union"):
                rec = None
                for c in n.get("inner", []):
                    did = c.get("ownedTagDecl", {}).get("id")
                    if did in tu.by_id:
                        rec = tu.by_id[did]
                has_payload = rec is not None and any(
                    c.get("kind") == "FieldDecl" and c.get("name") == "payload" for c in rec.get("inner", []))
                types.append((nm, has_payload))
            elif qt.startswith("enum"):
                enum_types.append(nm)
    records = []
    for f, n in tu.top:
        if n.get("kind") == "RecordDecl" and n.get("name") and n.get("completeDefinition") and f and "/avtp/" in f:
            # the trailing zero-length array member (payload, avtp_payload, crf_data, ...)
            pn = [c.get("name") for c in n.get("inner", []) if c.get("kind") == "FieldDecl"
                  and c.get("type", {}).get("qualType", "").endswith("[0]")]
            records.append((n.get("tagUsed", "struct") + " " + n["name"], pn[0] if pn else None))
    enumerators = tu.all_enumerators()

    def build(ms):
        src = ["#include <stdio.h>", "#include <stddef.h>", "#include <stdint.h>", '#include "%s"' % h,
               "int main(void){"]
        for t, hp in types:
            src.append('printf("sizeof:%s=%%zu\\n", sizeof(%s));' % (t, t))
            if hp:
                src.append('printf("offsetof_payload:%s=%%zu\\n", offsetof(%s, payload));' % (t, t))
        for t, pn in records:
            src.append('printf("sizeof:%s=%%zu\\n", sizeof(%s));' % (t, t))
            if pn:
                src.append('printf("offsetof_payload:%s=%%zu\\n", offsetof(%s, %s));' % (t, t, pn))
        for t in enum_types:
            src.append('printf("sizeof:%s=%%zu\\n", sizeof(%s));' % (t, t))
            src.append('printf("unsigned:%s=%%d\\n", (int)((%s)-1 > 0));' % (t, t))
        for k in enumerators:
            src.append('printf("enum:%s=%%lld\\n", (long long)(%s));' % (k, k))
        for m_ in ms:
            src.append('printf("macro:%s=%%lld\\n", (long long)(%s));' % (m_, m_))
        src.append("return 0;}")
        return "\n".join(src)

    with tempfile.TemporaryDirectory(prefix="o1722probe") as td:
        ms = list(macros)
        for _ in range(len(ms) + 1):
            cfile = os.path.join(td, "p.c")
            open(cfile, "w").write(build(ms))
            rr = subprocess.run([CC, "-std=gnu99", "-w", "-I", inc, cfile, "-o", os.path.join(td, "p")],
                                capture_output=True, text=True)
            if rr.returncode == 0:
                break
            bad = set()
            lines = build(ms).splitlines()
            for em in re.finditer(r"p\.c:(\d+):\d+: error", rr.stderr):
                ln = int(em.group(1)) - 1
                mm = re.search(r'"macro:(\w+)=', lines[ln]) if ln < len(lines) else None
                if mm:
                    bad.add(mm.group(1))
            if not bad:
                raise RuntimeError("probe for %s does not compile:\n%s" % (h, rr.stderr[-1500:]))
            ms = [x for x in ms if x not in bad]
        out = subprocess.run([os.path.join(td, "p")], capture_output=True, text=True).stdout
    res = {}
    for l in out.splitlines():
        k, v = l.rsplit("=", 1)
        res[k] = int(v)
    return h, res


def run_probe():
    hs = header_list()
    allres = {}
    per_header = {}
    with cf.ThreadPoolExecutor(max_workers=16) as ex:
        for h, res in ex.map(probe_header, hs):
            per_header[h] = res
            for k, v in res.items():
                if k in allres and allres[k] != v:
                    # the same name with different values in different headers: keep both
                    allres.setdefault("conflict:" + k, [])
                    allres["conflict:" + k] = sorted(set(allres["conflict:" + k] + [allres[k], v]))
                allres[k] = v
    return allres, per_header


# --------------------------------------------------------------------------------------


def source_hash():
    h = hashlib.sha256()
    files = sorted(glob.glob(os.path.join(REPO, "src", "**", "*.[ch]"), recursive=True) +
                   glob.glob(os.path.join(REPO, "include", "**", "*.h"), recursive=True))
    for f in files:
        h.update(f.encode())
        h.update(open(f, "rb").read())
    for f in sorted(glob.glob(os.path.join(HERE, "*.py"))):
        h.update(open(f, "rb").read())
    return h.hexdigest()


def translate(force=False):
    global PROBE
    os.makedirs(BUILD, exist_ok=True)
    os.makedirs(GEN_LEAN, exist_ok=True)
    sh = source_hash()
    gj = os.path.join(BUILD, "gen.json")
    if not force and os.path.exists(gj):
        try:
            old = json.load(open(gj))
            if old.get("source_hash") == sh and os.path.exists(os.path.join(GEN_LEAN, "Data.lean")):
                return old
        except Exception:
            pass
    PROBE, per_header = run_probe()
    srcs = sorted(glob.glob(os.path.join(REPO, "src", "avtp", "**", "*.c"), recursive=True))
    srcs = [s for s in srcs if not s.endswith("/Utils.c")]
    with cf.ThreadPoolExecutor(max_workers=16) as ex:
        files = list(ex.map(extract_file, srcs))
    # Utils.c: hand-modelled, but its objects with static storage are listed like everyone's
    utils = {"statics": [], "functions": []}
    up = os.path.join(REPO, "src", "avtp", "Utils.c")
    tu = cast.TU(up, REPO)
    for f, n in tu.top:
        if n.get("kind") == "VarDecl" and f == up:
            q = n["type"]["qualType"]
            utils["statics"].append({"name": n["name"], "type": q, "const": q.startswith("const "), "where": "file"})
    utils["typed_sites"] = []
    for f, n, body in cast.functions_with_bodies(tu, ""):
        if f == up:
            utils["functions"].append(n["name"])
            collect_local_statics(n, body, utils["statics"])
            utils["typed_sites"].extend(typed_sites(n["name"], tu.stmt(body)))
    gen = {"source_hash": sh, "repo": REPO, "probe": PROBE, "probe_per_header": per_header,
           "files": files, "utils": utils}
    import emit
    emit.emit_lean(gen, GEN_LEAN)
    json.dump(gen, open(gj, "w"), indent=1)
    return gen


if __name__ == "__main__":
    g = translate(force="--force" in sys.argv)
    kinds = {}
    for f in g["files"]:
        for fn in f["functions"]:
            kinds[fn["kind"]] = kinds.get(fn["kind"], 0) + 1
    print("translated", len(g["files"]), "files;", kinds)
    for f in g["files"]:
        for fn in f["functions"]:
            if fn["kind"] in ("opaque", "algorithmic"):
                print("  ", fn["kind"], f["file"], fn["name"], fn.get("why", ""))
