"""harness_gen.py — generate the per-format glue of the C harness FROM THE LEAN SPEC
(names of formats, fields, accessors, legacy entry points), never from the C tables or the
translator's output: the harness calls the function the Spec says denotes a field, so a
re-wired or mis-typed accessor shows up as a behavioural difference."""
import json
import os
import subprocess

HERE = os.path.dirname(os.path.abspath(__file__))
VERIF = os.path.dirname(HERE)
REPO = os.environ.get("O1722_REPO", "/repo")
DRIVER = os.path.join(VERIF, "lean", ".lake", "build", "bin", "driver")

HEADER_OF = {  # Spec format name -> public header (relative to include/)
    "CommonHeader": "avtp/CommonHeader.h", "Udp": "avtp/Udp.h", "Aaf": "avtp/aaf/Aaf.h",
    "Pcm": "avtp/aaf/Pcm.h", "Cvf": "avtp/cvf/Cvf.h", "H264": "avtp/cvf/H264.h",
    "Mjpeg": "avtp/cvf/Mjpeg.h", "Jpeg2000": "avtp/cvf/Jpeg2000.h", "Crf": "avtp/Crf.h",
    "Rvf": "avtp/Rvf.h", "Tscf": "avtp/acf/Tscf.h", "Ntscf": "avtp/acf/Ntscf.h",
    "AcfCommon": "avtp/acf/AcfCommon.h", "FlexRay": "avtp/acf/FlexRay.h", "Can": "avtp/acf/Can.h",
    "CanBrief": "avtp/acf/CanBrief.h", "Lin": "avtp/acf/Lin.h", "Most": "avtp/acf/Most.h",
    "Gpc": "avtp/acf/Gpc.h", "Sensor": "avtp/acf/Sensor.h", "SensorBrief": "avtp/acf/SensorBrief.h",
    "Vss": "avtp/acf/custom/Vss.h", "VssBrief": "avtp/acf/custom/VssBrief.h",
}


def load_spec():
    out = subprocess.run([DRIVER, "spec"], capture_output=True, text=True, check=True).stdout
    return json.loads(out)


def gen_format(f):
    n = f["name"]
    T = f["headerType"]
    fp = f["fnPrefix"]
    leg = f.get("legacy")
    L = ['#include <stddef.h>', '#include <stdint.h>', '#include "%s"' % HEADER_OF[n], '#include "hv.h"', ""]
    alias = {}
    if leg:
        for a, target in leg["aliases"]:
            alias[target] = a
    # ---- get
    L.append("static int get_(uint8_t* pdu, int idx, int path, uint64_t* out) {")
    L.append("  %s* p = (%s*)pdu; (void)p;" % (T, T))
    L.append("  if (path == 'g') switch (idx) {")
    for i, fld in enumerate(f["fields"]):
        L.append("    case %d: *out = %sGetField(p, %s); return 0;" % (i, fp, fld["enum"]))
    L.append("    default: return -1; }")
    L.append("  if (path == 'd') switch (idx) {")
    for i, fld in enumerate(f["fields"]):
        if fld["getter"]:
            L.append("    case %d: *out = (uint64_t)%s(p); return 0;" % (i, fld["getter"]))
    L.append("    default: return -1; }")
    if leg:
        vt = "uint32_t" if leg["valBits"] == 32 else "uint64_t"
        L.append("  if (path == 'l' || path == 'a') { %s v = 0; int r; switch (idx) {" % vt)
        for i, fld in enumerate(f["fields"]):
            # 'l': legacy function with the current enumerator; 'a': with the legacy alias name
            L.append("    case %d: if (path == 'a') { %s } r = %s((void*)pdu, %s, &v); break;" % (
                i,
                ("r = %s((void*)pdu, %s, &v); *out = v; return r;" % (leg["getFn"], alias[fld["enum"]]))
                if fld["enum"] in alias else "return -1;",
                leg["getFn"], fld["enum"]))
        L.append("    default: return -1; } *out = v; return r; }")
    L.append("  return -1; }")
    # ---- set
    L.append("static int set_(uint8_t* pdu, int idx, int path, uint64_t v) {")
    L.append("  %s* p = (%s*)pdu; (void)p;" % (T, T))
    L.append("  if (path == 'g') switch (idx) {")
    for i, fld in enumerate(f["fields"]):
        L.append("    case %d: %sSetField(p, %s, v); return 0;" % (i, fp, fld["enum"]))
    L.append("    default: return -1; }")
    L.append("  if (path == 'd') switch (idx) {")
    for i, fld in enumerate(f["fields"]):
        if fld["setter"]:
            L.append("    case %d: %s(p, v); return 0;" % (i, fld["setter"]))
    L.append("    default: return -1; }")
    if leg:
        L.append("  if (path == 'l' || path == 'a') switch (idx) {")
        for i, fld in enumerate(f["fields"]):
            L.append("    case %d: if (path == 'a') { %s } return %s((void*)pdu, %s, v);" % (
                i, ("return %s((void*)pdu, %s, v);" % (leg["setFn"], alias[fld["enum"]]))
                if fld["enum"] in alias else "return -1;", leg["setFn"], fld["enum"]))
        L.append("    default: return -1; }")
    L.append("  return -1; }")
    # ---- init
    L.append("static int init_(uint8_t* pdu, int path, uint64_t arg, int* ret) {")
    L.append("  (void)arg; *ret = 0;")
    if f["initFn"]:
        L.append("  if (path == 'c') { %s((%s*)pdu); return 0; }" % (f["initFn"], T))
    if leg and leg["initFn"]:
        if leg["initArg"]:
            L.append("  if (path == 'l') { *ret = %s((void*)pdu, (uint8_t)arg); return 0; }" % leg["initFn"])
        else:
            L.append("  if (path == 'l') { *ret = %s((void*)pdu); return 0; }" % leg["initFn"])
    L.append("  return -1; }")
    # ---- by raw identifier
    ET = None
    L.append("static int get_id_(uint8_t* pdu, uint64_t id, int path, uint64_t* out, int null_out, int* ret) {")
    L.append("  *ret = 0; (void)null_out;")
    L.append("  if (path == 'g') { *out = %sGetField((%s*)pdu, id); return 0; }" % (fp, T))
    if leg:
        vt = "uint32_t" if leg["valBits"] == 32 else "uint64_t"
        L.append("  if (path == 'l') { %s v = (%s)*out; *ret = %s((void*)pdu, id, null_out ? NULL : &v); *out = v; return 0; }" % (
            vt, vt, leg["getFn"]))
    L.append("  return -1; }")
    L.append("static int set_id_(uint8_t* pdu, uint64_t id, int path, uint64_t v, int* ret) {")
    L.append("  *ret = 0;")
    L.append("  if (path == 'g') { %sSetField((%s*)pdu, id, v); return 0; }" % (fp, T))
    if leg:
        L.append("  if (path == 'l') { *ret = %s((void*)pdu, id, v); return 0; }" % leg["setFn"])
    L.append("  return -1; }")
    if n == "Can":
        L.append("static uint8_t* payload_(uint8_t* pdu) { return Avtp_Can_GetPayload((Avtp_Can_t*)pdu); }")
        pay = "payload_"
    else:
        pay = "0"
    L.append("const hv_format_t hv_fmt_%s = { \"%s\", %d, %s, sizeof(%s), offsetof(%s, payload), %d, get_, set_, init_, get_id_, set_id_, %s };" % (
        n, n, f["headerLen"], f["lenMacro"], T, T, len(f["fields"]), pay))
    return "\n".join(L) + "\n"


def generate(outdir):
    spec = load_spec()
    os.makedirs(outdir, exist_ok=True)
    files = []
    for f in spec["formats"]:
        path = os.path.join(outdir, "fmt_%s.c" % f["name"])
        txt = gen_format(f)
        if not os.path.exists(path) or open(path).read() != txt:
            open(path, "w").write(txt)
        files.append(path)
    names = [f["name"] for f in spec["formats"]]
    reg = ['#include "hv.h"'] + ["extern const hv_format_t hv_fmt_%s;" % n for n in names]
    reg.append("const hv_format_t* const hv_formats[] = { %s };" % ", ".join("&hv_fmt_%s" % n for n in names))
    reg.append("const int hv_nformats = %d;" % len(names))
    path = os.path.join(outdir, "formats.c")
    txt = "\n".join(reg) + "\n"
    if not os.path.exists(path) or open(path).read() != txt:
        open(path, "w").write(txt)
    files.append(path)
    return spec, files


if __name__ == "__main__":
    s, fs = generate(os.path.join(VERIF, "build", "harness"))
    print(len(fs), "files")
