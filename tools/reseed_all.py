#!/usr/bin/env python3
"""reseed_all.py [ids...] — regression over the stored seeded breaking changes: apply each
seeded/<id>/patch.diff to /repo, run the quick check of its property (VERIF_SEED respected),
restore /repo, and report which are still detected.  /repo must be clean."""
import json
import os
import subprocess
import sys

VERIF = os.path.dirname(os.path.dirname(os.path.abspath(__file__)))


def sh(cmd, cwd=None):
    return subprocess.run(cmd, shell=True, cwd=cwd, capture_output=True, text=True)


def main():
    ids = sys.argv[1:] or sorted(os.listdir(os.path.join(VERIF, "seeded")))
    assert sh("git -C /repo status --porcelain --untracked-files=no").stdout.strip() == "", "/repo not clean"
    missed = []
    for sid in ids:
        d = os.path.join(VERIF, "seeded", sid)
        meta = json.load(open(os.path.join(d, "meta.json")))
        props = list(meta.get("caught_by", {}).keys()) or [meta["property"]]
        try:
            if sh("git -C /repo apply %s/patch.diff" % d).returncode != 0:
                print(sid, "PATCH-DOES-NOT-APPLY")
                missed.append(sid)
                continue
            hit = {}
            for p in props:
                r = sh("./check %s --tier quick" % p, cwd=VERIF)
                hit[p] = sum(1 for l in r.stdout.splitlines() if l.startswith("VIOLATION"))
        finally:
            sh("git -C /repo checkout -- .")
            sh("find %s/replays -name '*.json' -delete" % VERIF)
        ok = any(v > 0 for v in hit.values())
        print(sid, "detected" if ok else "MISSED", hit, flush=True)
        if not ok:
            missed.append(sid)
    print("missed:", missed)
    return 1 if missed else 0


if __name__ == "__main__":
    sys.exit(main())
