"""pipeline.py — the proof stage shared by all properties:

  translate /repo -> Gen/Data.lean
  write the property's instance-obligation file Gen/Inst<id>.lean
  evaluate the decidable obligations executably (names the failing atoms)
  lake build the instance module (kernel check of `decide` + application of the general theorems)
  #print axioms on the property's theorems, grep the sources for sorry/axiom/native_decide...
"""
import json
import os
import re

import common
from common import ToolError, LEAN, VERIF


def spec_names():
    """(Spec definition name, source file) for every format, from the driver's dump."""
    import harness_gen
    common.ensure_driver()
    spec = harness_gen.load_spec()
    return spec


def lname(path):
    s = os.path.splitext(os.path.basename(path))[0]
    return s[0].lower() + s[1:]


def translate():
    """Regenerate the model of /repo's current sources.  When the translator cannot read them
    (a shape it does not recognise, a probe that does not compile) the model cannot be regenerated
    and NOTHING is shown for this tree: a stub is returned whose "failed" entry makes every
    property's proof stage report an undischarged obligation (the correspondence run still
    searches for a failing input) — not a tool error, which would hide a breaking change."""
    import traceback
    import translate as tr
    global _GEN_MEMO
    if _GEN_MEMO is not None:
        return _GEN_MEMO
    _GEN_MEMO = _translate_uncached(traceback, tr)
    return _GEN_MEMO


_GEN_MEMO = None


def _translate_uncached(traceback, tr):
    with common.Lock("translate"):
        try:
            gen = tr.translate()
        except Exception as ex:
            tb = traceback.format_exc().strip().splitlines()
            where = next((l.strip() for l in reversed(tb) if l.strip().startswith("File") and "translate" in l), "")
            return {"failed": "%s: %s (%s)" % (type(ex).__name__, ex, where), "files": [], "utils": {"statics": [], "typed_sites": []},
                    "source_hash": "untranslatable", "probe_per_header": {}}
    # the function bodies in the C subset of CSem (Gen/Cir.lean); a source the serialiser cannot read
    # leaves a stub that makes every refinement theorem fail by name
    try:
        import cir
        with common.Lock("translate"):
            names, outside = cir.generate()
        gen["cir"] = {"functions": len(names), "outside": [list(o) for o in outside]}
    except Exception as ex:
        gen["cir"] = {"failed": "%s: %s" % (type(ex).__name__, str(ex)[-800:])}
        stub = "/- the serialiser could not read the current sources: %s -/\nimport O1722.CSem.Syntax\nnamespace O1722.Gen.Cir\nend O1722.Gen.Cir\n" % type(ex).__name__
        with common.Lock("lake"):
            write_if_changed(os.path.join(LEAN, "O1722", "Gen", "Cir.lean"), stub)
    return gen


def write_inst_acc():
    """Gen/InstAcc.lean: per format, the decidable obligation that every accessor record of Gen/Data.lean
    is what the C text of Gen/Cir.lean says (checkAccessors), proved by kernel evaluation."""
    spec = spec_names()
    src = ["/- REGENERATED instance obligations: accessor records (Gen/Data.lean) = C text (Gen/Cir.lean) -/",
           "import O1722.Refine.AccessorsFormat", "import O1722.Gen.Data", "", "namespace O1722.Inst.Acc", "open O1722 O1722.Refine", ""]
    names = []
    for f in spec["formats"]:
        n = lname(f["file"])
        fl = "fns_" + re.sub(r"[^A-Za-z0-9_]", "_", os.path.splitext(os.path.basename(f["file"]))[0])
        src.append("theorem acc_%s : checkAccessors Gen.%s Gen.Cir.%s = true := by decide +kernel" % (n, n, fl))
        names.append("O1722.Inst.Acc.acc_%s" % n)
    # C17 at code level: one instance per pair of views of the same octets (the generic theorem is
    # C17_code_views); getter indices are read from the regenerated Gen/Data.lean
    data = open(os.path.join(LEAN, "O1722", "Gen", "Data.lean")).read()

    def getter_index(fmt, fn):
        m = re.search(r"^def %s : GenFormat where(.*?)(?=^def |\Z)" % fmt, data, re.S | re.M)
        if not m:
            return None, None
        gm = re.search(r"getters := \[(.*?)\]\n  setters", m.group(1), re.S)
        fm = re.search(r'file := "([^"]+)"', m.group(1))
        if not gm or not fm:
            return None, None
        fns_ = re.findall(r'\{ fn := "(\w+)"', gm.group(1))
        fl = "fns_" + re.sub(r"[^A-Za-z0-9_]", "_", os.path.splitext(os.path.basename(fm.group(1)))[0])
        return (fns_.index(fn) if fn in fns_ else None), fl
    pairs = [("commonHeader", "Avtp_CommonHeader_GetSubtype", "tscf", "Avtp_Tscf_GetSubtype"),
             ("commonHeader", "Avtp_CommonHeader_GetVersion", "ntscf", "Avtp_Ntscf_GetVersion"),
             ("acfCommon", "Avtp_AcfCommon_GetAcfMsgLength", "vss", "Avtp_Vss_GetAcfMsgLength"),
             ("acfCommon", "Avtp_AcfCommon_GetAcfMsgLength", "can", "Avtp_Can_GetAcfMsgLength"),
             ("aaf", "Avtp_Aaf_GetStreamId", "pcm", "Avtp_Pcm_GetStreamId")]
    view_src = []
    for a, fa, b, fb in pairs:
        ia, fla = getter_index(a, fa)
        ib, flb = getter_index(b, fb)
        if ia is None or ib is None:
            continue
        nm = "views_%s_%s" % (fa, fb)
        view_src.append("theorem %s (e : Endian) (glob : String → Nat) (rom : Nat → Byte) (tb1 tb2 : Nat) (hrom1 : RomTable rom tb1 Gen.%s.table) "
                        "(hrom2 : RomTable rom tb2 Gen.%s.table) (hg1 : glob Gen.%s.tableName = tb1) (hg2 : glob Gen.%s.tableName = tb2) "
                        "(p : Nat) (hp0 : p ≠ 0) (hpb : p + 1024 ≤ 18446744073709551616) (m : Mem) :" % (nm, a, b, a, b))
        view_src.append("    ∃ F1 ∈ Gen.Cir.%s, ∃ F2 ∈ Gen.Cir.%s, F1.name = (Gen.%s.getters[%d]'(by decide)).fn ∧ F2.name = (Gen.%s.getters[%d]'(by decide)).fn ∧"
                        % (fla, flb, a, ia, b, ib))
        view_src.append("      (exec (mkEnv e rom glob) 31 F1.body (mkFrame [p, 0]) ⟨m, []⟩).map (fun r => (r.1, r.2.2.mem))")
        view_src.append("        = (exec (mkEnv e rom glob) 31 F2.body (mkFrame [p, 0]) ⟨m, []⟩).map (fun r => (r.1, r.2.2.mem)) :=")
        view_src.append("  C17_code_views e glob rom Spec.%s Spec.%s Gen.%s Gen.%s Gen.Cir.%s Gen.Cir.%s tb1 tb2 hrom1 hrom2 (by decide) (by decide) hg1 hg2 acc_%s acc_%s"
                        % (a, b, a, b, fla, flb, a, b))
        view_src.append("    (by decide +kernel) (by decide +kernel) (Gen.%s.getters[%d]'(by decide)) (List.getElem_mem _) (by decide) (Gen.%s.getters[%d]'(by decide)) (List.getElem_mem _) (by decide)"
                        % (a, ia, b, ib))
        view_src.append("    (by decide) p hp0 hpb m")
        view_src.append("")
        names.append("O1722.Inst.Acc." + nm)
    src = [x.replace("import O1722.Refine.AccessorsFormat", "import O1722.Refine.AccessorsFormat\nimport O1722.Refine.Views") for x in src]
    src += ["", "open O1722.C in", "section", "open O1722.C"] + view_src + ["end", "", "end O1722.Inst.Acc", ""]
    with common.Lock("lake"):
        write_if_changed(os.path.join(LEAN, "O1722", "Gen", "InstAcc.lean"), "\n".join(src))
    return names


def write_inst_init():
    """Gen/InstInit.lean: per format, (1) the program look-ups of the setters its current-API initialisers
    call (evaluation of findFn, both host byte orders), (2) the decidable obligation initsCheck (initialiser
    records of Gen/Data.lean = C text of Gen/Cir.lean, every called setter checks out), (3) the resulting
    statement about running the C text (inits_code)."""
    gen = translate()
    spec = spec_names()
    src = ["/- REGENERATED instance obligations: initialiser records (Gen/Data.lean) = C text (Gen/Cir.lean) -/",
           "import O1722.Refine.Inits", "import O1722.Gen.Data", "", "namespace O1722.Inst.Init", "open O1722 O1722.C O1722.Refine", ""]
    names = []
    by_file = {f["file"]: f for f in gen.get("files", [])}
    for f in spec["formats"]:
        n = lname(f["file"])
        fl = "fns_" + re.sub(r"[^A-Za-z0-9_]", "_", os.path.splitext(os.path.basename(f["file"]))[0])
        gf = by_file.get(os.path.join(common.REPO, f["file"])) or by_file.get(f["file"]) or \
            next((x for x in gen.get("files", []) if x["file"].endswith(f["file"])), None)
        callees = []
        for fn in (gf or {}).get("functions", []):
            if fn.get("kind") == "init":
                for st in fn.get("steps", []):
                    if st.get("op") in ("call", "call1") and st["fn"] not in callees:
                        callees.append(st["fn"])
        lk = "[" + ", ".join('("%s", Gen.Cir.%s)' % (c, re.sub(r"[^A-Za-z0-9_]", "_", c)) for c in callees) + "]"
        for c in callees:
            ci = re.sub(r"[^A-Za-z0-9_]", "_", c)
            if ("find_" + ci) not in names:
                src.append("set_option maxRecDepth 16384 in")
                src.append('theorem find_%s (e : Endian) : findFn (Gen.Cir.prog e) "%s" = some Gen.Cir.%s := by cases e <;> rfl' % (ci, c, ci))
                names.append("find_" + ci)
        src.append("theorem lookups_%s (e : Endian) : lookupsOK e %s := %s" %
                   (n, lk, "⟨" + ", ".join(["find_%s e" % re.sub(r"[^A-Za-z0-9_]", "_", c) for c in callees] + ["trivial"]) + "⟩" if callees else "trivial"))
        src.append("theorem inits_%s : initsCheck Gen.%s Gen.Cir.%s %s = true := by decide +kernel" % (n, n, fl, lk))
        src.append("")
        names += ["lookups_%s" % n, "inits_%s" % n]
    src += ["end O1722.Inst.Init", ""]
    with common.Lock("lake"):
        write_if_changed(os.path.join(LEAN, "O1722", "Gen", "InstInit.lean"), "\n".join(src))
    return ["O1722.Inst.Init." + x for x in names if not x.startswith("find_")]


def write_inst_legacy(lean_dir=None):
    """Gen/InstLegacy.lean: per deprecated by-identifier wrapper (avtp_*_pdu_get / _set) the statement that
    RUNNING its C text gives what its record's meaning (LegacyAcc.runGet / runSet) gives, by applying
    legacyGet_code / legacySet_code to the regenerated record, the regenerated body and the program look-up
    of the current-API accessor it forwards to."""
    lean_dir = lean_dir or LEAN
    data = open(os.path.join(lean_dir, "O1722", "Gen", "Data.lean")).read()
    src = ["/- REGENERATED instance obligations: legacy wrapper records (Gen/Data.lean) = C text (Gen/Cir.lean) -/",
           "import O1722.Refine.Legacy", "import O1722.Gen.Data", "import O1722.Gen.InstInit", "", "namespace O1722.Inst.Legacy", "open O1722 O1722.C O1722.Refine", ""]
    names = []
    found = set()
    for m in re.finditer(r"^def (\w+) : GenFormat where(.*?)(?=^def |\Z)", data, re.S | re.M):
        fmt, body = m.group(1), m.group(2)
        lm = re.search(r"legacy := \[(.*?)\]\n  payloadAcc", body, re.S)
        if not lm:
            continue
        recs = re.findall(r'\{ fn := "(\w+)", isGet := (true|false), fwd := "(\w+)"', lm.group(1))
        for k, (fn, is_get, fwd) in enumerate(recs):
            if fwd not in found:
                found.add(fwd)
                src.append("set_option maxRecDepth 16384 in")
                src.append('theorem find_%s (e : Endian) : findFn (Gen.Cir.prog e) "%s" = some Gen.Cir.%s := by cases e <;> rfl' % (fwd, fwd, fwd))
            common_args = ("(e : Endian) (rom : Nat → Byte) (glob : String → Nat) (tb : Nat) (hrom : RomTable rom tb Gen.%s.table) "
                           "(hglob : glob Gen.%s.tableName = tb) (pdu : Option Nat) "
                           "(hpdu : ∀ p, pdu = some p → p ≠ 0 ∧ p + 1024 ≤ 18446744073709551616) (field : Nat) (hf : field < 4294967296) (m : Mem)" % (fmt, fmt))
            if is_get == "true":
                src.append('def x_%s : Getter := match Gen.%s.findGetter "%s" with | some x => x | none => ⟨"", "", 0, none, 0, 0, 0⟩' % (fn, fmt, fwd))
            else:
                src.append('def x_%s : Setter := match Gen.%s.findSetter "%s" with | some x => x | none => ⟨"", "", 0, none, 0, 0, 0, false⟩' % (fn, fmt, fwd))
            if is_get == "true":
                src.append("theorem legacy_%s %s (val : Option Nat) (hval : ∀ v, val = some v → v ≠ 0) :" % (fn, common_args))
                src.append("    (exec (mkEnv e rom glob) 40 Gen.Cir.%s.body (mkFrame [pdu.getD 0, field, val.getD 0]) ⟨m, []⟩).map (fun r => (r.1, r.2.2.mem))" % fn)
                src.append("      = ((Gen.%s.legacy[%d]'(by decide)).runGet Gen.%s e m pdu val field).map (fun r => (.ret (Ty.ofInt .i32 r.2), r.1)) :=" % (fmt, k, fmt))
                src.append("  legacyGet_code e rom glob Gen.%s tb hrom (by decide) hglob (Gen.%s.legacy[%d]'(by decide)) Gen.Cir.%s (by decide)" % (fmt, fmt, k, fn))
                src.append('    x_%s Gen.Cir.%s (by decide) (by decide) (find_%s e) (by decide) (by decide) (by decide) (by decide)' % (fn, fwd, fwd))
                src.append("    pdu val hpdu hval field hf m (by decide)")
            else:
                src.append("theorem legacy_%s %s (value : Nat) (hv : value < 2 ^ (Gen.%s.legacy[%d]'(by decide)).valBits) :" % (fn, common_args, fmt, k))
                src.append("    (exec (mkEnv e rom glob) 40 Gen.Cir.%s.body (mkFrame [pdu.getD 0, field, value]) ⟨m, []⟩).map (fun r => (r.1, r.2.2.mem))" % fn)
                src.append("      = ((Gen.%s.legacy[%d]'(by decide)).runSet Gen.%s e m pdu field value).map (fun r => (.ret (Ty.ofInt .i32 r.2), r.1)) :=" % (fmt, k, fmt))
                src.append("  legacySet_code e rom glob Gen.%s tb hrom (by decide) hglob (Gen.%s.legacy[%d]'(by decide)) Gen.Cir.%s (by decide)" % (fmt, fmt, k, fn))
                src.append('    x_%s Gen.Cir.%s (by decide) (by decide) (find_%s e) (by decide) (by decide) (by decide) (by decide) (by decide)' % (fn, fwd, fwd))
                src.append("    pdu hpdu field value hf hv m (by decide)")
            src.append("")
            names.append("legacy_" + fn)
        # legacy initialisers of the "NULL guard + call the current initialiser" shape
        fm = re.search(r'file := "([^"]+)"', body)
        im = re.search(r"inits := \[(.*?)\]\n  legacy", body, re.S)
        if fm and im:
            fl = "fns_" + re.sub(r"[^A-Za-z0-9_]", "_", os.path.splitext(os.path.basename(fm.group(1)))[0])
            irecs = re.findall(r'\{ fn := "(\w+)", legacy := (true|false), err := [^,]+, ok := [^,]+, steps := \[(.*?)\] \}', im.group(1))
            cur = {r[0]: k for k, r in enumerate(irecs) if r[1] == "false"}
            for k, (ifn, leg, steps) in enumerate(irecs):
                mm = re.fullmatch(r'\.callInit "(\w+)"', steps.strip())
                if leg != "true" or not mm or mm.group(1) not in cur:
                    continue
                cfn, k0 = mm.group(1), cur[mm.group(1)]
                if cfn not in found:
                    found.add(cfn)
                    src.append("set_option maxRecDepth 16384 in")
                    src.append('theorem find_%s (e : Endian) : findFn (Gen.Cir.prog e) "%s" = some Gen.Cir.%s := by cases e <;> rfl' % (cfn, cfn, cfn))
                src.append("theorem legacy_init_%s (e : Endian) (rom : Nat → Byte) (glob : String → Nat) (tb : Nat) (hrom : RomTable rom tb Gen.%s.table) "
                           "(hglob : glob Gen.%s.tableName = tb) (pdu : Option Nat) (hpdu : ∀ p, pdu = some p → p ≠ 0 ∧ p + 1024 ≤ 18446744073709551616) (m : Mem) :" % (ifn, fmt, fmt))
                src.append("    (exec (mkEnv e rom glob) 45 Gen.Cir.%s.body (mkFrame [pdu.getD 0]) ⟨m, []⟩).map (fun r => (r.1, r.2.2.mem))" % ifn)
                src.append("      = ((Gen.%s.inits[%d]'(by decide)).run Gen.%s e m pdu 0).map (fun r => (.ret (Ty.ofInt .i32 r.2), r.1)) :=" % (fmt, k, fmt))
                src.append("  have hk := stepsOK_of_initsCheck e Gen.%s Gen.Cir.%s _ (O1722.Inst.Init.lookups_%s e) O1722.Inst.Init.inits_%s (Gen.%s.inits[%d]'(by decide)) (List.getElem_mem _) (by decide)" % (fmt, fl, fmt, fmt, fmt, k0))
                src.append("  legacyInit_code e rom glob Gen.%s tb hrom (by decide) hglob (Gen.%s.inits[%d]'(by decide)) Gen.Cir.%s (by decide) \"%s\" (by decide)" % (fmt, fmt, k, ifn, cfn))
                src.append("    (Gen.%s.inits[%d]'(by decide)) Gen.Cir.%s (by decide) (find_%s e) (by decide) hk.1 hk.2.1 pdu hpdu m" % (fmt, k0, cfn, cfn))
                src.append("")
                names.append("legacy_init_" + ifn)
    src += ["end O1722.Inst.Legacy", ""]
    with common.Lock("lake"):
        write_if_changed(os.path.join(lean_dir, "O1722", "Gen", "InstLegacy.lean"), "\n".join(src))
    return ["O1722.Inst.Legacy." + x for x in names]


def refine_stage(rep, prop, modules, theorems, what):
    """Code-level stage: rebuild the refinement modules (proofs that the C text serialised into
    Gen/Cir.lean, run by the C semantics of CSem/Eval.lean, equals the hand Model and satisfies the
    property) against the regenerated Gen/Cir.lean, audit their axioms.  Returns the list of
    theorems that no longer check (empty = all hold for the current sources)."""
    gen = translate()
    failed = []
    log = ""
    if "O1722.Gen.InstAcc" in modules:
        theorems = list(theorems) + write_inst_acc()
    if "O1722.Gen.InstInit" in modules:
        theorems = list(theorems) + write_inst_init()
    if "O1722.Gen.InstLegacy" in modules:
        theorems = list(theorems) + write_inst_legacy()
    if gen.get("failed") or gen.get("cir", {}).get("failed"):
        failed = list(theorems)
        log = gen.get("failed") or gen["cir"]["failed"]
    else:
        ok, log = common.lake_build(modules)
        if not ok:
            # name the theorems of the module(s) that failed: those whose module did not build
            bad_mods = set(re.findall(r"error: [^\n]*O1722/(?:Refine|Gen)/([A-Za-z]+)\.lean", log))
            axioms = {}
            try:
                axioms, _ = common.print_axioms(modules, theorems)
            except Exception:
                pass
            failed = [t for t in theorems if t not in axioms]
            if not failed:
                failed = list(theorems)
        else:
            axioms, _ = common.print_axioms(modules, theorems)
            for t in theorems:
                if t not in axioms:
                    failed.append(t)
                else:
                    for a in axioms[t]:
                        if a not in common.ALLOWED_AXIOMS:
                            rep.violation("axiom:%s:%s" % (t, a), {"kind": "unexpected-axiom", "theorem": t, "axiom": a}, no_input=True)
            rep.cov.setdefault("trusted_base", [])
            # thorough tier: the toolchain's independent re-checker replays the code-level modules
            if getattr(rep, "tier", "quick") == "thorough":
                import subprocess
                rechecked = rep.cov.setdefault("leanchecker_modules", [])
                for m_ in modules:
                    with common.Lock("lake"):
                        r = subprocess.run(["lake", "env", "leanchecker", m_], cwd=LEAN, capture_output=True, text=True)
                    rechecked.append(m_)
                    if r.returncode != 0:
                        failed.append("leanchecker:" + m_)
                        log += "\nleanchecker %s:\n%s" % (m_, (r.stdout + r.stderr)[-1500:])
    rep.cov.setdefault("obligations", 0)
    rep.cov["obligations"] += len(theorems)
    rep.cov.setdefault("discharged", 0)
    rep.cov["discharged"] += len(theorems) - len(failed)
    rep.cov["code_level"] = {"what": what, "theorems": list(theorems), "failed": failed,
                             "cmd": "python3 tools/cir.py && cd lean && lake build " + " ".join(modules),
                             "functions_serialised": gen.get("cir", {}).get("functions"),
                             "functions_outside_the_subset": [o[1] for o in gen.get("cir", {}).get("outside", [])]}
    tb = rep.cov.get("trusted_base")
    if isinstance(tb, list):
        tb += ["tools/cir.py (clang-14 typed AST -> Gen/Cir.lean, no semantic decisions) and lean/O1722/CSem/Eval.lean "
               "(C semantics: integer conversions, UB = stuck) for the code-level theorems"]
    return failed, log[-3000:]


def report_refine_failures(rep, failed, log, have_input):
    """A refinement theorem that no longer checks: if the correspondence/search already produced a
    concrete failing input it is the replay; otherwise the theorem is named, no-failing-input-found."""
    if not failed or have_input:
        return
    for t in failed:
        rep.violation("refinement:" + t, {"kind": "refinement-does-not-check", "theorem": t,
                                          "note": "the proof that the C text (Gen/Cir.lean, regenerated from the current sources) "
                                                  "computes what the Model computes no longer checks; the correspondence runs found "
                                                  "no input on which the real code and the Spec/Model differ",
                                          "log": log[-1500:]}, no_input=True)


def write_if_changed(path, txt):
    if not os.path.exists(path) or open(path).read() != txt:
        open(path, "w").write(txt)


def proof_stage(rep, prop, imports, obligations, general_theorems, atoms_expr=None):
    """obligations: list of (theorem name, statement, proof term/tactic) emitted into
    Gen/Inst<prop>.lean.  general_theorems: fully qualified names in Props/ whose axioms are
    audited.  atoms_expr: Lean expression of type List (String × List (String × Bool))
    (per group, named atoms) evaluated executably to name failing atoms.
    Returns dict(failed_atoms=[(group, atom)], build_ok, build_log, axioms)."""
    gen = translate()
    if gen.get("failed"):
        rep.cov.setdefault("obligations", 0)
        rep.cov["obligations"] += len(general_theorems) + len(obligations)
        rep.cov.setdefault("discharged", 0)
        rep.cov["checker_cmd"] = "(model of the current sources could not be regenerated)"
        rep.cov["trusted_base"] = ["Lean 4.33.0 kernel"]
        rep.cov["source_hash"] = gen["source_hash"]
        return {"failed_atoms": [], "failed_theorems": ["current-sources-cannot-be-translated"], "build_ok": False,
                "build_log": gen["failed"], "axioms": {}, "bad_axioms": [], "forbidden_hits": [], "gen": gen}
    mod = "O1722.Gen.Inst" + prop
    path = os.path.join(LEAN, "O1722", "Gen", "Inst%s.lean" % prop)
    src = ["/- REGENERATED instance obligations for %s — do not edit. -/" % prop]
    src += ["import " + i for i in imports]
    src += ["", "namespace O1722.Inst.%s" % prop, "open O1722", ""]
    for name, stmt, proof in obligations:
        src.append("theorem %s : %s := %s" % (name, stmt, proof))
    src += ["", "end O1722.Inst.%s" % prop, ""]
    with common.Lock("lake"):
        write_if_changed(path, "\n".join(src))
    failed_atoms = []
    n_atoms = 0
    # the lake lock is taken inside lake_build; Gen/Data must be built before lean_eval
    ok0, log0 = common.lake_build(sorted(set(["O1722.Gen.Data"] + list(imports))))
    if not ok0:
        # The hand-written library builds in setup; what can fail here is the REGENERATED model of the
        # current sources (or an obligation file of an earlier run).  Then nothing is shown for this
        # tree: that is reported as an undischarged obligation (the correspondence run still looks for
        # a failing input), not as a tool error.
        m = re.search(r"error: ([^\n]*Gen/[A-Za-z]+\.lean:\d+:\d+[^\n]*)", log0)
        if not m:
            raise ToolError("Props do not build:\n" + log0[-3000:])
        rep.cov.setdefault("obligations", 0)
        rep.cov["obligations"] += len(general_theorems) + len(obligations)
        rep.cov.setdefault("discharged", 0)
        rep.cov["checker_cmd"] = "cd lean && lake build %s" % mod
        rep.cov["trusted_base"] = ["Lean 4.33.0 kernel"]
        rep.cov["source_hash"] = gen["source_hash"][:16]
        return {"failed_atoms": [], "failed_theorems": ["regenerated-model-does-not-build"], "build_ok": False,
                "build_log": m.group(1) + "\n" + log0[-3000:], "axioms": {}, "bad_axioms": [], "forbidden_hits": [], "gen": gen}
    if atoms_expr:
        ev = "\n".join("import " + i for i in imports) + "\nopen O1722\n" + \
            "#eval (%s).forM (fun (g, as) => as.forM (fun (a, b) => IO.println s!\"ATOM {g} {a} {b}\")) *> pure ()\n" % atoms_expr
        rc, out = common.lean_eval(ev, "atoms_" + prop)
        if rc != 0:
            raise ToolError("atom evaluation failed:\n" + out[-3000:])
        for line in out.splitlines():
            m = re.match(r"ATOM (\S+) (\S+) (true|false)", line)
            if m:
                n_atoms += 1
                if m.group(3) == "false":
                    failed_atoms.append((m.group(1), m.group(2)))
    ok, log = common.lake_build([mod])
    failed_thms = []
    if not ok:
        for m in re.finditer(r"error: [^\n]*Inst%s\.lean:(\d+):" % prop, log):
            ln = int(m.group(1))
            lines = "\n".join(src).splitlines()
            for k in range(min(ln, len(lines)) - 1, -1, -1):
                mm = re.match(r"theorem (\S+)", lines[k])
                if mm:
                    failed_thms.append(mm.group(1))
                    break
        if not failed_thms:
            failed_thms = ["<build of %s>" % mod]
    thms = list(general_theorems) + ["O1722.Inst.%s.%s" % (prop, n) for n, _, _ in obligations if n not in failed_thms]
    axioms = {}
    bad_axioms = []
    if ok:
        axioms, _ = common.print_axioms(mod, thms)
        # a property theorem that does not exist (or does not check) is an undischarged obligation
        for t in thms:
            if t not in axioms:
                failed_thms.append(t)
        for t, ax in axioms.items():
            for a in ax:
                if a not in common.ALLOWED_AXIOMS:
                    bad_axioms.append((t, a))
    # thorough tier: the toolchain's independent re-checker replays the compiled modules
    rechecked = []
    if ok and getattr(rep, "tier", "quick") == "thorough":
        import subprocess
        for m_ in [mod] + [i for i in imports if i.startswith("O1722.Props.")]:
            with common.Lock("lake"):
                r = subprocess.run(["lake", "env", "leanchecker", m_], cwd=LEAN, capture_output=True, text=True)
            rechecked.append(m_)
            if r.returncode != 0:
                failed_thms.append("leanchecker:" + m_)
                log += "\nleanchecker %s:\n%s" % (m_, (r.stdout + r.stderr)[-1500:])
        rep.cov["leanchecker_modules"] = rechecked
    hits = common.audit_sources()
    rep.cov.setdefault("obligations", 0)
    rep.cov["obligations"] += len(general_theorems) + len(obligations)
    rep.cov.setdefault("discharged", 0)
    rep.cov["discharged"] += (len(general_theorems) + len(obligations) - len(set(failed_thms))) if not hits and not bad_axioms else 0
    rep.cov["decidable_atoms_evaluated"] = n_atoms
    rep.cov["checker_cmd"] = "cd lean && lake build %s   # Lean 4 kernel; then #print axioms on %d theorems" % (mod, len(thms))
    allax = sorted({a for ax in axioms.values() for a in ax})
    rep.cov["trusted_base"] = ["Lean 4.33.0 kernel", "axioms used: " + (", ".join(allax) if allax else "none"),
                               "tools/translate.py (clang-14 typed AST + compiled probe) for Gen/Data.lean",
                               "hand-written Spec (lean/O1722/Spec) as the meaning of the standard's layouts"]
    rep.cov["source_hash"] = gen["source_hash"][:16]
    return {"failed_atoms": failed_atoms, "failed_theorems": sorted(set(failed_thms)), "build_ok": ok,
            "build_log": log[-4000:], "axioms": axioms, "bad_axioms": bad_axioms, "forbidden_hits": hits,
            "gen": gen}


# Code-level theorems per property: statements about the C TEXT (Gen/Cir.lean under CSem/Eval.lean),
# rebuilt on every run.  (modules to build, theorems to audit, what they say)
CODE_LEVEL = {
    "C01": (["O1722.Refine.Props", "O1722.Gen.InstAcc"],
            ["O1722.Refine.Avtp_GetField_refines", "O1722.Refine.C01_code", "O1722.Refine.getter_code",
             "O1722.Refine.C01_code_dedicated", "O1722.Refine.C01_code_generic"],
            "the C text of Avtp_GetField = Model.getFieldLog (value, memory, access log), hence = the wire bits of the field; and the C "
            "text of every generic / dedicated getter of every format (body = what its accessor record says, per-format obligation "
            "acc_<format>) returns the Spec field's wire bits"),
    "C02": (["O1722.Refine.Props", "O1722.Gen.InstAcc"],
            ["O1722.Refine.Avtp_SetField_refines", "O1722.Refine.C02_code", "O1722.Refine.setter_code", "O1722.Refine.C02_code_dedicated"],
            "the C text of Avtp_SetField = Model.setFieldLog, hence = the reference write of the value into the field's bits; and the C "
            "text of every generic / dedicated setter of every format performs the reference write of its Spec field"),
    "C04": (["O1722.Gen.InstInit", "O1722.Gen.InstLegacy"], ["O1722.Refine.init_code", "O1722.Refine.inits_code", "O1722.Refine.setter_body_code", "O1722.Refine.legacyInit_code"],
            "the C text of every current-API initialiser (NULL guard, memset, constant field writes through the generic or a "
            "dedicated setter, each resolved in the program) leaves the memory Init.run describes — the object C04_format proves "
            "canonical; per-format obligations inits_<format> / lookups_<format>; the legacy initialisers of the guard-and-forward shape "
            "(avtp_crf_pdu_init, avtp_rvf_pdu_init) = Init.run of their records (legacy_init_<fn>); avtp_aaf_pdu_init and "
            "avtp_cvf_pdu_init stay with the translator's shape recognition"),
    "C11": (["O1722.Refine.Props", "O1722.Gen.InstLegacy"], ["O1722.Refine.C11_code", "O1722.Refine.legacySet_code", "O1722.Refine.legacyGet_code"],
            "the C text of Avtp_GetField/SetField on a NULL PDU or an out-of-range identifier: 0 / no effect, no memory access; and the C "
            "text of every deprecated avtp_*_pdu_get/_set = LegacyAcc.runGet/runSet (NULL PDU, NULL result pointer or out-of-range "
            "identifier: -EINVAL and memory unchanged; otherwise 0 and the forwarded access), per-wrapper theorems legacy_<fn>"),
    "C12": (["O1722.Gen.InstLegacy"], ["O1722.Refine.legacySet_code", "O1722.Refine.legacyGet_code", "O1722.Refine.legacyInit_code"],
            "the C text of every deprecated avtp_*_pdu_get/_set (argument checks, forwarded call resolved in the program, typed store "
            "through the out-parameter) = LegacyAcc.runGet/runSet, the objects legacyGet_eq_current / legacySet_eq_current relate to the "
            "current API; per-wrapper theorems legacy_<fn> (Gen/InstLegacy.lean)"),
    "C14": (["O1722.Refine.Props"], ["O1722.Refine.C14_code"],
            "the C text of Avtp_GetField/SetField with the little- and the big-endian form of Byteorder.h: same value, same bytes"),
    "C08": (["O1722.Refine.VssCalc"], ["O1722.Refine.C08_code_calc"],
            "the C text of Avtp_Vss_CalcVssPathLength (dedicated getter Avtp_Vss_GetAddrMode and file-local Vss_ReadBe16 called by name, "
            "Avtp_BeToCpu16 of either host) returns Model.vssCalcPathLength — the reported on-wire path size — and leaves memory "
            "unchanged; the data codec itself (GetVssPath/GetVssData) is outside the C subset and stays with Model + correspondence"),
    "C09": (["O1722.Refine.PropsVss"], ["O1722.Refine.Avtp_Vss_Pad_refines", "O1722.Refine.C09_code"],
            "the C text of Avtp_Vss_Pad (with Avtp_Vss_SetField, Avtp_SetField and the regenerated table) = Model.vssPad, hence "
            "length = ceil(len/4), pad count, exactly the pad bytes zeroed, nothing else changed"),
    "C06": (["O1722.Refine.PropsCan", "O1722.Refine.CanLen"], ["O1722.Refine.C06_code_readback_partial", "O1722.Refine.Avtp_Can_Finalize_mem", "O1722.Refine.Avtp_Can_CreateAcfMessage_refines", "O1722.Refine.C06_code",
                                         "O1722.Refine.Avtp_CanBrief_Finalize_mem", "O1722.Refine.Avtp_CanBrief_SetPayload_refines", "O1722.Refine.C06_code_brief"],
            "the C text of Avtp_Can_CreateAcfMessage (with SetPayload, Finalize, Avtp_Can_SetField, Avtp_SetField and the regenerated "
            "table) = Model.canCreate, hence payload verbatim, zero pad, length/pad/identifier/EFF/FDF set, nothing else changed "
            "(full and abbreviated ACF-CAN builders; the abbreviated one also returns the padded length); read-back of the payload "
            "length through the C text of Avtp_Can_GetCanPayloadLength and its two dedicated getters: PARTIAL (headers whose int "
            "arithmetic does not go negative)"),
    "C17": (["O1722.Gen.InstAcc"], ["O1722.Refine.C17_code_views", "O1722.Refine.C01_code_dedicated"],
            "the C text of two dedicated getters of two formats whose Spec fields are the same wire bits returns the same value on the "
            "same memory (generic C17_code_views; instances views_<getterA>_<getterB> for subtype / version through the common header "
            "and TSCF / NTSCF, acf_msg_length through ACF common and VSS / CAN, stream_id through AAF and AAF-PCM)"),
    "C03": (["O1722.Refine.Props", "O1722.CSem.Frame", "O1722.Refine.CanLen"],
            ["O1722.Refine.C01_code", "O1722.Refine.C02_code", "O1722.C.exec_frame", "O1722.C.callFn_frame", "O1722.Refine.C03_code_payload"],
            "every access of the C text of Avtp_GetField/SetField lies in a quadlet the field occupies; and for EVERY function of the "
            "C subset (all 492 serialised library functions): memory changes only at addresses covered by a write entry the run "
            "appended to the access log (the log is a sound footprint); the C text of the payload accessor returns pdu + header length"),
    "C16": (["O1722.CSem.Frame"], ["O1722.C.exec_frame", "O1722.C.callFn_frame", "O1722.C.exec_mono"],
            "for every function of the C subset: a run only extends the access log and changes memory only inside logged write "
            "ranges; results do not depend on surplus fuel; the semantics has no state besides the memory and the log it is given "
            "(no object with static storage can be named except constant tables)"),
    "C15": (["O1722.Refine.Props"], ["O1722.Refine.C01_code", "O1722.Refine.C02_code"],
            "every access of the C text of Avtp_GetField/SetField is byte-wise (alignment 1), at any PDU address"),
}


def report_proof_failures(rep, prop, res, diff_keys_by_group):
    """Turn failed obligations into violations: if the differential run found a concrete
    disagreement in the same group it is the replay, otherwise `no-failing-input-found`."""
    if prop in CODE_LEVEL:
        mods, thms, what = CODE_LEVEL[prop]
        failed, log = refine_stage(rep, prop, mods, thms, what)
        have_input = any(not ni for _, _, ni in rep.violations)
        report_refine_failures(rep, failed, log, have_input)
    for t, a in res["bad_axioms"]:
        rep.violation("axiom:%s:%s" % (t, a), {"kind": "unexpected-axiom", "theorem": t, "axiom": a}, no_input=True)
    for h in res["forbidden_hits"]:
        rep.violation("forbidden:" + h.split(":")[0], {"kind": "forbidden-construct", "where": h}, no_input=True)
    groups_failed = {}
    for g, a in res["failed_atoms"]:
        groups_failed.setdefault(g, []).append(a)
    for g, atoms in groups_failed.items():
        if diff_keys_by_group.get(g):
            continue            # a concrete failing input in this group is already reported
        for a in atoms:
            rep.violation("%s:%s" % (g, a), {"kind": "obligation-fails", "group": g, "obligation": a,
                                             "note": "the decidable instance obligation evaluates to false on the "
                                                     "regenerated model; no input on which the real code and the "
                                                     "Spec differ was found"}, no_input=True)
    if res["failed_theorems"] and not res["failed_atoms"]:
        for t in res["failed_theorems"]:
            rep.violation("theorem:" + t, {"kind": "proof-does-not-check", "theorem": t,
                                           "log": res["build_log"][-1500:]}, no_input=True)
