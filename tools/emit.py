"""emit.py — write the regenerated Lean data (lean/O1722/Gen/*.lean) from gen.json."""
import os


def lstr(s):
    return '"' + str(s).replace("\\", "\\\\").replace('"', '\\"') + '"'


def lint(v):
    return str(v) if v >= 0 else "(%d)" % v


def lbool(b):
    return "true" if b else "false"


def lopt_field(f):
    if f["kind"] == "enum":
        return "(some (%s, %d))" % (lstr(f["name"]), f["value"])
    return "none"


def stem(path):
    return os.path.splitext(os.path.basename(path))[0]


def lname(path):
    s = stem(path)
    return s[0].lower() + s[1:]


def cast_bits(f):
    """Width the identifier ends up with before Utils.c sees it (the callee parameter is
    uint8_t, so the last conversion is to 8 bits)."""
    if f["kind"] == "param":
        cb = f.get("cast_bits") or []
        return min(cb) if cb else f.get("param_bits") or 0
    return 8


def emit_format(f, gen):
    L = []
    name = lname(f["file"])
    t = f["tables"][0] if f["tables"] else {"name": "", "size": 0, "rows": []}
    L.append("def %s : GenFormat where" % name)
    L.append("  file := %s" % lstr(f["file"]))
    L.append("  tableName := %s" % lstr(t["name"]))
    L.append("  tableSize := %d" % t["size"])
    L.append("  table := [" + ", ".join("⟨%d, %d, %d⟩" % tuple(r) for r in t["rows"]) + "]")
    fe = f.get("field_enum") or {"type": "", "enumerators": []}
    L.append("  enumType := %s" % lstr(fe["type"]))
    # a negative enumerator is emitted as the value a `uint32_t` parameter receives (the enumeration's
    # signedness is the separate fact "unsigned:<type>" that checkC11 requires to be 1)
    L.append("  enumerators := [" + ", ".join("(%s, %d)" % (lstr(n), v % (1 << 32)) for n, v in fe["enumerators"]) + "]")
    gs, ss, inits, legs, pas, algs, ops, algfacts, algwrites = [], [], [], [], [], [], [], [], []
    for fn in f["functions"]:
        k = fn["kind"]
        if k == "getter":
            fld = fn["field"]
            gs.append("    { fn := %s, table := %s, numFields := %d, field := %s, fieldParamBits := %d, "
                      "fieldCastBits := %d, retBits := %d }" % (
                          lstr(fn["name"]), lstr(fn["table"]), fn["num_fields"] % 256, lopt_field(fld),
                          fld.get("param_bits") or 0, cast_bits(fld), fn["ret_bits"] or 0))
        elif k == "setter":
            fld = fn["field"]
            ss.append("    { fn := %s, table := %s, numFields := %d, field := %s, fieldParamBits := %d, "
                      "fieldCastBits := %d, valueBits := %d, valueSigned := %s }" % (
                          lstr(fn["name"]), lstr(fn["table"]), fn["num_fields"] % 256, lopt_field(fld),
                          fld.get("param_bits") or 0, cast_bits(fld), fn["value_bits"] or 0,
                          lbool(fn["value_signed"])))
        elif k in ("init", "legacy_init"):
            steps = []
            for st in fn["steps"]:
                op = st["op"]
                if op == "memset":
                    steps.append(".memset0 %s %d" % (lstr(st["size_of"] or ""), st["size"] if st["size"] is not None else 0))
                elif op == "call":
                    steps.append(".setField %s %s %d %d" % (lstr(st["fn"]), lstr(st["field"]), st["field_value"], st["value"]))
                elif op == "checked_call":
                    steps.append(".checkedSet %s %s %d %d" % (lstr(st["fn"]), lstr(st["field"]), st["field_value"], st["value"]))
                elif op == "call0":
                    steps.append(".callInit %s" % lstr(st["fn"]))
                elif op == "call1":
                    if "value_param" in st:
                        steps.append(".setParam %s %d" % (lstr(st["fn"]), st.get("value_bits") or 0))
                    else:
                        steps.append(".setConst %s %d" % (lstr(st["fn"]), st["value"]))
            inits.append("    { fn := %s, legacy := %s, err := %s, ok := %s, steps := [%s] }" % (
                lstr(fn["name"]), lbool(k == "legacy_init"), lint(fn.get("err", 0) or 0),
                lint(fn.get("ok", 0) or 0), ", ".join(steps)))
        elif k in ("legacy_get", "legacy_set"):
            gp = any("null" in a and a["null"] == fn["pdu_param"] for a in fn["guards"])
            gv = any("null" in a and a["null"] == fn.get("val_param") for a in fn["guards"]) and k == "legacy_get"
            bound = [a for a in fn["guards"] if "ge" in a and a["ge"] == fn["field_param"]]
            fb = bound[0]["param_bits"] if bound else 0
            legs.append("    { fn := %s, isGet := %s, fwd := %s, guardPdu := %s, guardVal := %s, bound := %s, "
                        "fieldBits := %d, valBits := %d, err := %s, ok := %s }" % (
                            lstr(fn["name"]), lbool(k == "legacy_get"), lstr(fn["fwd"]), lbool(gp), lbool(gv),
                            "(some %d)" % bound[0]["bound"] if bound else "none", fb or 32,
                            fn.get("val_bits") or 0, lint(fn["err"]), lint(fn["ok"] if fn["ok"] is not None else 0)))
        elif k == "payload_accessor":
            pas.append("(%s, %s)" % (lstr(fn["name"]), lstr(fn["pdu_type"].replace("*", "").strip())))
        elif k == "algorithmic":
            algs.append("(%s, %s)" % (lstr(fn["name"]), lstr(fn["body_sha"])))
            algfacts.append("(%s, %d, [%s])" % (lstr(fn["name"]), fn.get("ret_bits") or 0,
                                                ", ".join(str(x) for x in fn.get("memset_scales", []))))
            algwrites.append("(%s, [%s])" % (lstr(fn["name"]), ", ".join(lstr(x) for x in fn.get("writes_through", []))))
        else:
            ops.append("(%s, %s)" % (lstr(fn["name"]), lstr(fn.get("why", ""))))
    L.append("  getters := [\n" + ",\n".join(gs) + "]")
    L.append("  setters := [\n" + ",\n".join(ss) + "]")
    L.append("  inits := [\n" + ",\n".join(inits) + "]")
    L.append("  legacy := [\n" + ",\n".join(legs) + "]")
    L.append("  payloadAcc := [" + ", ".join(pas) + "]")
    L.append("  algorithmic := [" + ", ".join(algs) + "]")
    L.append("  opaqueFns := [" + ", ".join(ops) + "]")
    L.append("  algoFacts := [" + ", ".join(algfacts) + "]")
    L.append("  algoWrites := [" + ", ".join(algwrites) + "]")
    L.append("  typedSites := [" + ", ".join("(%s, %s, %s)" % (lstr(a), lstr(b), lstr(c)) for a, b, c in f.get("typed_sites", [])) + "]")
    L.append("  statics := [" + ", ".join("(%s, %s, %s)" % (lstr(s["name"]), lstr(s["type"]), lbool(s["const"]))
                                         for s in f["statics"]) + "]")
    hdr = f.get("header") or ""
    L.append("  header := %s" % lstr(hdr))
    facts = []
    merged = {}
    for h in f.get("includes") or [hdr]:
        for k, v in (gen["probe_per_header"].get(h) or {}).items():
            merged.setdefault(k, v)
    for k, v in sorted(merged.items()):
        if k.startswith("enum:") and not (k.startswith("enum:AVTP_ACF_TYPE") or k.startswith("enum:AVTP_SUBTYPE")
                                          or k.startswith("enum:AVTP_CVF_FORMAT")):
            continue
        facts.append("(%s, %s)" % (lstr(k), lint(v)))
    L.append("  facts := [" + ", ".join(facts) + "]")
    return name, "\n".join(L)


def emit_lean(gen, outdir):
    os.makedirs(outdir, exist_ok=True)
    out = ["/- REGENERATED by tools/translate.py from %s — do not edit. source_hash %s -/" % (
        gen["repo"], gen["source_hash"][:16]),
        "import O1722.Model.Format", "", "namespace O1722.Gen", "open O1722", ""]
    names = []
    for f in gen["files"]:
        n, txt = emit_format(f, gen)
        names.append(n)
        out.append(txt)
        out.append("")
    out.append("def formats : List GenFormat := [" + ", ".join(names) + "]")
    out.append("")
    out.append("/-- objects with static storage duration in Utils.c: (name, type, const-qualified) -/")
    out.append("def utilsStatics : List (String × String × Bool) := [" + ", ".join(
        "(%s, %s, %s)" % (lstr(x["name"]), lstr(x["type"]), lbool(x["const"])) for x in gen.get("utils", {}).get("statics", [])) + "]")
    out.append("")
    out.append("/-- accesses in Utils.c through a wide lvalue cast from a byte-aligned pointer: (function, wide type, source type) -/")
    out.append("def utilsTypedSites : List (String × String × String) := [" + ", ".join(
        "(%s, %s, %s)" % (lstr(a), lstr(b), lstr(c)) for a, b, c in gen.get("utils", {}).get("typed_sites", [])) + "]")
    out.append("")
    out.append("def byFile (file : String) : Option GenFormat := formats.find? (fun g => g.file == file)")
    out.append("")
    out.append("end O1722.Gen")
    path = os.path.join(outdir, "Data.lean")
    txt = "\n".join(out) + "\n"
    if not os.path.exists(path) or open(path).read() != txt:
        open(path, "w").write(txt)
