"""examples.py — build the example programs' real sources into in-process harnesses
(virtual sockets by compile-time renames; /repo is not touched)."""
import glob
import os
import common

RENAMES = ["-Dread=vf_read", "-Dwrite=vf_write", "-Dsendto=vf_sendto", "-Drecv=vf_recv", "-Drecvfrom=vf_recvfrom",
           "-Dpoll=vf_poll", "-Dclock_gettime=vf_clock_gettime", "-Dclose=vf_close"]
SAN = ["clang", "-O1", "-g", "-fsanitize=address,undefined", "-fno-sanitize-recover=all", "-fno-omit-frame-pointer", "-w"]


def build(name, parts, main_src, libs=("src/avtp/*.c", "src/avtp/acf/*.c", "src/avtp/acf/custom/*.c", "src/avtp/aaf/*.c", "src/avtp/cvf/*.c"), extra_defs=()):
    """parts: list of (example source relative to /repo/examples, main symbol)"""
    R = common.REPO
    out = os.path.join(common.BUILD, "ex")
    os.makedirs(out, exist_ok=True)
    inc = ["-I", os.path.join(R, "include"), "-I", os.path.join(R, "examples"), "-I", os.path.join(common.VERIF, "harness", "ex")]
    objs = []
    with common.Lock("ex_" + name):
        for src, mainsym in parts:
            obj = os.path.join(out, "%s_%s.o" % (name, mainsym))
            r = common.run(SAN + ["-ftrivial-auto-var-init=pattern"] + inc + RENAMES + list(extra_defs) + ["-Dmain=" + mainsym, "-c", os.path.join(R, "examples", src), "-o", obj])
            if r.returncode != 0:
                raise common.ToolError("example %s does not compile in the harness: %s" % (src, r.stderr[-2000:]))
            objs.append(obj)
        libsrc = []
        for pat in libs:
            libsrc += sorted(glob.glob(os.path.join(R, pat)))
        exe = os.path.join(out, name)
        r = common.run(SAN + inc + [os.path.join(common.VERIF, "harness", "ex", "vio.c"), os.path.join(common.VERIF, "harness", "ex", main_src)] + objs + libsrc + ["-o", exe, "-lm"])
        if r.returncode != 0:
            raise common.ToolError("example harness %s does not link: %s" % (name, r.stderr[-2000:]))
    return exe


def build_can():
    return build("ex_can", [("acf-can/acf-can-talker.c", "can_talker_main"), ("acf-can/acf-can-listener.c", "can_listener_main")], "ex_can_main.c")
