"""examples.py — build the example programs' real sources into in-process harnesses
(virtual sockets by compile-time renames; /repo is not touched)."""
import glob
import os
import common

RENAMES = ["-Dread=vf_read", "-Dwrite=vf_write", "-Dsendto=vf_sendto", "-Drecv=vf_recv", "-Drecvfrom=vf_recvfrom",
           "-Dpoll=vf_poll", "-Dclock_gettime=vf_clock_gettime", "-Dclose=vf_close",
           "-Dtimerfd_create=vf_timerfd_create", "-Dtimerfd_settime=vf_timerfd_settime", "-Dsocket=vf_socket",
           "-Dioctl=vf_ioctl", "-Dsetsockopt=vf_setsockopt", "-Dbind=vf_bind", "-Dprintf=vf_printf"]
# examples/common/common.c is linked for its time/timer/present helpers; its socket set-up
# functions are renamed away in favour of the stand-ins in vio.c
COMMON_AWAY = ["-Dcreate_listener_socket_udp=real_create_listener_socket_udp", "-Dcreate_listener_socket=real_create_listener_socket",
               "-Dcreate_talker_socket=real_create_talker_socket", "-Dcreate_talker_socket_udp=real_create_talker_socket_udp",
               "-Dsetup_socket_address=real_setup_socket_address", "-Dsetup_udp_socket_address=real_setup_udp_socket_address"]
SAN = ["clang", "-O1", "-g", "-fsanitize=address,undefined", "-fno-sanitize-recover=all", "-fno-omit-frame-pointer", "-w"]


def build(name, parts, main_src, libs=("src/avtp/*.c", "src/avtp/acf/*.c", "src/avtp/acf/custom/*.c", "src/avtp/aaf/*.c", "src/avtp/cvf/*.c"), extra_defs=(), extra_objs=()):
    """parts: list of (example source relative to /repo/examples, main symbol)"""
    R = common.REPO
    out = os.path.join(common.BUILD, "ex")
    os.makedirs(out, exist_ok=True)
    inc = ["-I", os.path.join(R, "include"), "-I", os.path.join(R, "examples"), "-I", os.path.join(common.VERIF, "harness", "ex")]
    objs = []
    with common.Lock("ex_" + name):
        for src, mainsym in parts:
            obj = os.path.join(out, "%s_%s.o" % (name, mainsym))
            r = common.run(SAN + ["-ftrivial-auto-var-init=pattern"] + inc + RENAMES + list(extra_defs) + ["-Dmain=" + mainsym, "-c", os.path.join(R, "examples", src), "-o", obj])
            if r.returncode != 0:
                raise common.ToolError("example %s does not compile in the harness: %s" % (src, r.stderr[-2000:]))
            objs.append(obj)
        libsrc = []
        for pat in libs:
            libsrc += sorted(glob.glob(os.path.join(R, pat)))
        exe = os.path.join(out, name)
        r = common.run(SAN + inc + [os.path.join(common.VERIF, "harness", "ex", "vio.c"), os.path.join(common.VERIF, "harness", "ex", main_src)] + objs + list(extra_objs) + libsrc + ["-o", exe + ".tmp.%d" % os.getpid(), "-lm"])
        if r.returncode != 0:
            raise common.ToolError("example harness %s does not link: %s" % (name, r.stderr[-2000:]))
        os.replace(exe + ".tmp.%d" % os.getpid(), exe)  # atomic: a concurrent run may be executing exe
    return exe


LISTENERS = {
    "can": "acf-can/acf-can-listener.c",
    "cvf": "cvf/cvf-listener.c",
    "aaf": "aaf/aaf-listener.c",
    "hello": "hello-world/hello-world-listener.c",
    "vss": "acf-vss/acf-vss-listener.c",
    "crf": "crf/crf-listener.c",
}


def build_listener(which):
    """harness around one listener's real main(); examples/common/common.c linked with its
    system calls renamed like the listener's"""
    R = common.REPO
    out = os.path.join(common.BUILD, "ex")
    os.makedirs(out, exist_ok=True)
    inc = ["-I", os.path.join(R, "include"), "-I", os.path.join(R, "examples"), "-I", os.path.join(common.VERIF, "harness", "ex")]
    obj = os.path.join(out, "common_real.o")
    with common.Lock("ex_common"):
        r = common.run(SAN + inc + RENAMES + COMMON_AWAY + ["-c", os.path.join(R, "examples", "common", "common.c"), "-o", obj])
        if r.returncode != 0:
            raise common.ToolError("examples/common/common.c does not compile in the harness: %s" % r.stderr[-2000:])
    return build("ex_l_" + which, [(LISTENERS[which], "listener_main")], "ex_listener_main.c", extra_objs=[obj])


def build_can():
    return build("ex_can", [("acf-can/acf-can-talker.c", "can_talker_main"), ("acf-can/acf-can-listener.c", "can_listener_main")], "ex_can_main.c")
