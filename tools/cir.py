#!/usr/bin/env python3
"""cir.py — serialise the function bodies of /repo's current library sources into the C subset
of lean/O1722/CSem/Syntax.lean (Gen/Cir.lean), from clang-14's typed AST.

The serialiser makes no semantic decision: every conversion clang inserted becomes an explicit
`cast src dst`, every operator carries the type clang computed it in, pointer arithmetic is
scaled by the size of the pointee as measured by the compiler (a compiled probe gives sizeof /
offsetof), calls are hoisted out of expressions in evaluation order into `call` statements.
What lies outside the subset (structs passed by pointer and read member-wise, byte loads from
the PDU, `for`/`break`/`switch`, local arrays ...) is NOT approximated: the function is listed
in `opaque` with the reason and is simply not part of the program.
"""
import json
import os
import re
import subprocess
import sys
import tempfile

HERE = os.path.dirname(os.path.abspath(__file__))
VERIF = os.path.dirname(HERE)
sys.path.insert(0, HERE)

REPO = os.environ.get("O1722_REPO", "/repo")
CLANG = os.environ.get("O1722_CLANG", "clang-14")
GEN_LEAN = os.path.join(VERIF, "lean", "O1722", "Gen")


class Unsupported(Exception):
    pass


INT_TY = {
    "unsigned char": "u8", "_Bool": "u8", "unsigned short": "u16", "unsigned int": "u32",
    "unsigned long": "u64", "unsigned long long": "u64",
    "char": "i8", "signed char": "i8", "short": "i16", "int": "i32", "long": "i64", "long long": "i64",
}
BITS = {"u8": 8, "u16": 16, "u32": 32, "u64": 64, "i8": 8, "i16": 16, "i32": 32, "i64": 64}
BINOPS = {"+": "add", "-": "sub", "*": "mul", "/": "div", "%": "rem", "<<": "shl", ">>": "shr",
          "&": "band", "|": "bor", "^": "bxor", "<": "lt", "<=": "le", ">": "gt", ">=": "ge",
          "==": "eq", "!=": "ne", "&&": "land", "||": "lor"}


def strip_q(t):
    t = re.sub(r"\b(const|volatile|restrict|__restrict)\b", "", t)
    return re.sub(r"\s+", " ", t).strip()


class Unit:
    """One translation unit."""

    def __init__(self, path, extra=()):
        self.path = path
        cmd = [CLANG, "-fsyntax-only", "-std=gnu99", "-w", "-I", os.path.join(REPO, "include"), *extra,
               "-Xclang", "-ast-dump=json", path]
        r = subprocess.run(cmd, capture_output=True, text=True)
        if r.returncode != 0:
            raise RuntimeError("clang failed on %s:\n%s" % (path, r.stderr[-2000:]))
        self.root = json.loads(r.stdout)
        self.decl = {}
        self.enum_signed = {}
        self.typedefs = {}
        self.records = {}        # record name -> [(field name, type)]
        self.index(self.root)
        self.need_sizeof = set()
        self.need_offsetof = set()

    def index(self, n):
        if isinstance(n, dict):
            if "id" in n and n.get("kind", "").endswith("Decl"):
                self.decl[n["id"]] = n
            if n.get("kind") == "EnumDecl":
                neg = False
                for c in n.get("inner", []):
                    if c.get("kind") == "EnumConstantDecl":
                        v = const_of(c)
                        if v is not None and v < 0:
                            neg = True
                if n.get("name"):
                    self.enum_signed["enum " + n["name"]] = neg
                self.enum_signed[n["id"]] = neg
            if n.get("kind") == "TypedefDecl" and n.get("name"):
                self.typedefs[n["name"]] = n
            for c in n.get("inner", []):
                self.index(c)

    def resolve_typedef(self, name, depth=0):
        """CSem type behind a typedef name, or None"""
        n = self.typedefs.get(name)
        if n is None or depth > 8:
            return None
        t = n.get("type", {})
        d = strip_q(t.get("desugaredQualType", t.get("qualType", "")))
        if d.endswith("*"):
            return "u64"
        if d in INT_TY:
            return INT_TY[d]
        q = strip_q(t.get("qualType", ""))
        if d.startswith("enum ") or q.startswith("enum "):
            if d in self.enum_signed:
                return "i32" if self.enum_signed[d] else "u32"
            # anonymous enum: find the EnumDecl owned by the typedef
            def find(x):
                if isinstance(x, dict):
                    o = x.get("ownedTagDecl") or x.get("decl")
                    if o and o.get("kind") == "EnumDecl" and o.get("id") in self.enum_signed:
                        return self.enum_signed[o["id"]]
                    for c in x.get("inner", []):
                        r = find(c)
                        if r is not None:
                            return r
                return None
            sg = find(n)
            if sg is None:
                return None
            return "i32" if sg else "u32"
        if d == name:
            return None
        return self.resolve_typedef(d, depth + 1)

    # ---- types --------------------------------------------------------------------------
    def ty(self, t):
        """CSem type of a clang type record; pointers are u64."""
        d = strip_q(t.get("desugaredQualType", t.get("qualType", "")))
        q = strip_q(t.get("qualType", ""))
        for s in (d, q):
            if s.endswith("*"):
                return "u64"
            if s in INT_TY:
                return INT_TY[s]
        if d.startswith("enum ") and d in self.enum_signed:
            return "i32" if self.enum_signed[d] else "u32"
        for s in (q, d):
            r = self.resolve_typedef(s)
            if r is not None:
                return r
        raise Unsupported("type %s" % (q or d))

    def is_ptr(self, t):
        d = strip_q(t.get("desugaredQualType", t.get("qualType", "")))
        return d.endswith("*")

    def pointee(self, t):
        d = strip_q(t.get("desugaredQualType", t.get("qualType", "")))
        if not d.endswith("*"):
            d = strip_q(t.get("qualType", ""))
        assert d.endswith("*"), d
        return d[:-1].strip()


def const_of(n):
    if n.get("kind") == "ConstantExpr" and "value" in n:
        return int(n["value"])
    if n.get("kind") == "IntegerLiteral":
        return int(n["value"])
    if n.get("kind") == "UnaryOperator" and n.get("opcode") == "-":
        v = const_of(n["inner"][0])
        return -v if v is not None else None
    for c in n.get("inner", []):
        v = const_of(c)
        if v is not None:
            return v
    return None


def kids(n):
    return [c for c in n.get("inner", []) if "kind" in c and not c["kind"].endswith("Comment")]


class FnTranslator:
    def __init__(self, unit, fdecl, sizes, enums, globals_):
        self.u = unit
        self.f = fdecl
        self.sizes = sizes            # probe results: ("sizeof", T) / ("offsetof", T, m) -> int
        self.enums = enums
        self.globals = globals_       # names of file-scope constant tables
        self.slots = {}               # decl id -> slot
        self.slot_names = []
        self.slot_ty = []
        self.loops = []               # (cond, body) lean strings
        self.name = fdecl["name"]

    # ---- slots ------------------------------------------------------------------------------
    def new_slot(self, name, ty, decl_id=None):
        i = len(self.slot_names)
        self.slot_names.append(name)
        self.slot_ty.append(ty)
        if decl_id is not None:
            self.slots[decl_id] = i
        return i

    def size_of(self, tname):
        tname = strip_q(tname)
        if tname in INT_TY:
            return BITS[INT_TY[tname]] // 8
        if tname.endswith("*"):
            return 8
        k = ("sizeof", tname)
        if k not in self.sizes:
            self.u.need_sizeof.add(tname)
            raise NeedProbe()
        return self.sizes[k]

    def offset_of(self, rec, member):
        k = ("offsetof", strip_q(rec), member)
        if k not in self.sizes:
            self.u.need_offsetof.add((strip_q(rec), member))
            raise NeedProbe()
        return self.sizes[k]

    # ---- expressions: returns (lean expr string); hoisted calls appended to `pre` -----------------
    def lit(self, v, ty):
        return "(.lit %d)" % (v % (1 << BITS[ty]))

    def expr(self, n, pre, cond_ctx=False):
        k = n["kind"]
        c = kids(n)
        if k in ("ParenExpr", "ConstantExpr", "ExprWithCleanups"):
            return self.expr(c[0], pre, cond_ctx)
        if k == "IntegerLiteral" or k == "CharacterLiteral":
            return self.lit(int(n["value"]), self.u.ty(n["type"]))
        if k == "DeclRefExpr":
            rd = n["referencedDecl"]
            if rd["kind"] == "EnumConstantDecl":
                if rd["name"] not in self.enums:
                    raise Unsupported("enumerator " + rd["name"])
                return self.lit(self.enums[rd["name"]], self.u.ty(n["type"]))
            if rd["kind"] in ("ParmVarDecl", "VarDecl"):
                if rd["id"] in self.slots:
                    return "(.var %d)" % self.slots[rd["id"]]
                if rd["name"] in self.globals:
                    return '(.glob "%s")' % rd["name"]
                raise Unsupported("reference to object " + rd["name"])
            raise Unsupported("reference to " + rd["kind"])
        if k in ("ImplicitCastExpr", "CStyleCastExpr"):
            ck = n.get("castKind")
            if ck == "ArrayToPointerDecay":
                inner = c[0]
                while inner["kind"] == "ParenExpr":
                    inner = kids(inner)[0]
                if inner["kind"] == "MemberExpr":
                    return self.addr(inner, pre, cond_ctx)
            if ck in ("LValueToRValue", "NoOp", "ArrayToPointerDecay", "FunctionToPointerDecay", "BitCast"):
                if ck == "LValueToRValue" and c[0]["kind"] not in ("DeclRefExpr", "ParenExpr", "MemberExpr"):
                    raise Unsupported("load through " + c[0]["kind"])
                return self.expr(c[0], pre, cond_ctx)
            if ck == "IntegralCast":
                s, d = self.u.ty(c[0]["type"]), self.u.ty(n["type"])
                e = self.expr(c[0], pre, cond_ctx)
                return e if s == d else "(.cast .%s .%s %s)" % (s, d, e)
            if ck == "NullToPointer":
                return "(.lit 0)"
            if ck in ("IntegralToBoolean", "PointerToBoolean"):
                return "(.bin .ne .%s %s (.lit 0))" % (self.u.ty(c[0]["type"]), self.expr(c[0], pre, cond_ctx))
            if ck in ("IntegralToPointer", "PointerToIntegral"):
                s, d = self.u.ty(c[0]["type"]), self.u.ty(n["type"])
                e = self.expr(c[0], pre, cond_ctx)
                return e if s == d else "(.cast .%s .%s %s)" % (s, d, e)
            raise Unsupported("cast kind %s" % ck)
        if k == "UnaryOperator":
            op = n["opcode"]
            if op == "&":
                return self.addr(c[0], pre, cond_ctx)
            if op in ("-", "~", "!"):
                t = self.u.ty(c[0]["type"])
                return "(.un .%s .%s %s)" % ({"-": "neg", "~": "bnot", "!": "lnot"}[op], t, self.expr(c[0], pre, cond_ctx))
            if op == "+":
                return self.expr(c[0], pre, cond_ctx)
            raise Unsupported("unary %s in expression" % op)
        if k == "BinaryOperator":
            op = n["opcode"]
            if op not in BINOPS:
                raise Unsupported("operator %s in expression" % op)
            lp, rp = self.u.is_ptr(c[0]["type"]), self.u.is_ptr(c[1]["type"])
            if op in ("+", "-") and (lp != rp):
                if rp:
                    if op == "-":
                        raise Unsupported("int - pointer")
                    c = [c[1], c[0]]
                size = self.size_of(self.u.pointee(c[0]["type"]))
                p = self.expr(c[0], pre, cond_ctx)
                it = self.u.ty(c[1]["type"])
                i = self.expr(c[1], pre, cond_ctx)
                if it != "u64":
                    i = "(.cast .%s .u64 %s)" % (it, i)
                if size != 1:
                    i = "(.bin .mul .u64 %s (.lit %d))" % (i, size)
                return "(.bin .%s .u64 %s %s)" % (BINOPS[op], p, i)
            if op == "-" and lp and rp:
                raise Unsupported("pointer difference")
            if op in ("&&", "||"):
                a = self.expr(c[0], pre, cond_ctx)
                b = self.expr(c[1], pre, True)
                return "(.bin .%s .i32 %s %s)" % (BINOPS[op], a, b)
            if op in ("<", "<=", ">", ">=", "==", "!="):
                t = self.u.ty(c[0]["type"])
            else:
                t = self.u.ty(n["type"])
            if op in ("<<", ">>"):
                # the right operand keeps its own (promoted) type; only its value matters, but a
                # negative count must stay out of range: convert it to u64 by sign extension
                rt = self.u.ty(c[1]["type"])
                b = self.expr(c[1], pre, cond_ctx)
                if BITS[rt] < 64 or rt.startswith("i"):
                    b = "(.cast .%s .u64 %s)" % (rt, b) if rt.startswith("i") else b
                return "(.bin .%s .%s %s %s)" % (BINOPS[op], t, self.expr(c[0], pre, cond_ctx), b)
            n0 = len(pre)
            a = self.expr(c[0], pre, cond_ctx)
            n1 = len(pre)
            b = self.expr(c[1], pre, cond_ctx)
            if n1 > n0 and len(pre) > n1:
                # C leaves the evaluation order of the two operands unspecified: hoisting would pick one
                raise Unsupported("calls in both operands of an unsequenced operator")
            return "(.bin .%s .%s %s %s)" % (BINOPS[op], t, a, b)
        if k == "ConditionalOperator":
            cc = self.expr(c[0], pre, cond_ctx)
            a = self.expr(c[1], pre, True)
            b = self.expr(c[2], pre, True)
            return "(.cond %s %s %s)" % (cc, a, b)
        if k == "UnaryExprOrTypeTraitExpr":
            if n.get("name") != "sizeof":
                raise Unsupported(n.get("name"))
            at = n.get("argType", {}).get("qualType")
            if at is None:
                at = c[0]["type"].get("desugaredQualType", c[0]["type"]["qualType"])
            return self.lit(self.size_of(at), self.u.ty(n["type"]))
        if k == "MemberExpr":
            # rvalue of a member: only members of constant descriptor rows (read-only data)
            base = c[0]
            bt = base["type"]
            if not n.get("isArrow"):
                raise Unsupported("member of a struct value")
            rec = self.u.pointee(bt)
            qual = bt.get("qualType", "")
            if "const" not in qual.split("*")[0]:
                raise Unsupported("load of member %s through a non-const pointer" % n["name"])
            mt = self.u.ty(n["type"])
            if mt != "u8":
                raise Unsupported("member %s of constant data is not a byte" % n["name"])
            off = self.offset_of(rec, n["name"])
            p = self.expr(base, pre, cond_ctx)
            a = p if off == 0 else "(.bin .add .u64 %s (.lit %d))" % (p, off)
            return "(.rom8 %s)" % a
        if k == "CallExpr":
            if cond_ctx:
                raise Unsupported("call inside a conditionally evaluated operand")
            fn = c[0]
            while fn["kind"] in ("ImplicitCastExpr", "ParenExpr"):
                fn = kids(fn)[0]
            if fn["kind"] != "DeclRefExpr" or fn["referencedDecl"]["kind"] != "FunctionDecl":
                raise Unsupported("indirect call")
            name = fn["referencedDecl"]["name"]
            if name in ("memcpy", "memset", "memmove", "strncpy", "strlen"):
                raise Unsupported("%s used as a value" % name)
            args = []
            with_calls = 0
            for a in c[1:]:
                n0 = len(pre)
                args.append(self.expr(a, pre, cond_ctx))
                with_calls += 1 if len(pre) > n0 else 0
            if with_calls > 1:
                raise Unsupported("calls in more than one argument (unspecified evaluation order)")
            rt = self.u.ty(n["type"])
            tmp = self.new_slot("_call%d_%s" % (len(self.slot_names), name), rt)
            pre.append("(.call (some %d) \"%s\" [%s])" % (tmp, name, ", ".join(args)))
            return "(.var %d)" % tmp
        raise Unsupported("expression kind " + k)

    def addr(self, n, pre, cond_ctx):
        """address of an lvalue"""
        k = n["kind"]
        c = kids(n)
        if k == "ParenExpr":
            return self.addr(c[0], pre, cond_ctx)
        if k == "ArraySubscriptExpr":
            base, idx = c[0], c[1]
            size = self.size_of(n["type"].get("desugaredQualType", n["type"]["qualType"]))
            p = self.expr(base, pre, cond_ctx)
            it = self.u.ty(idx["type"])
            i = self.expr(idx, pre, cond_ctx)
            if it != "u64":
                i = "(.cast .%s .u64 %s)" % (it, i)
            if size != 1:
                i = "(.bin .mul .u64 %s (.lit %d))" % (i, size)
            return "(.bin .add .u64 %s %s)" % (p, i)
        if k == "MemberExpr":
            base = c[0]
            if not n.get("isArrow"):
                raise Unsupported("address of member of struct value")
            rec = self.u.pointee(base["type"])
            off = self.offset_of(rec, n["name"])
            p = self.expr(base, pre, cond_ctx)
            return p if off == 0 else "(.bin .add .u64 %s (.lit %d))" % (p, off)
        if k == "UnaryOperator" and n["opcode"] == "*":
            return self.expr(c[0], pre, cond_ctx)
        raise Unsupported("address of " + k)

    def array_member_value(self, n, pre):
        """`pdu->payload` (array member decaying to a pointer)"""
        return self.addr(n, pre, False)

    # ---- statements ------------------------------------------------------------------------
    def seq(self, ss):
        ss = [s for s in ss if s != ".skip"]
        if not ss:
            return ".skip"
        out = ss[-1]
        for s in reversed(ss[:-1]):
            out = "(.seq %s %s)" % (s, out)
        return out

    def local_int_object(self, n):
        """n is `&x` with x a local integer object: its slot and byte size, else None"""
        while n["kind"] in ("ImplicitCastExpr", "CStyleCastExpr", "ParenExpr") and n.get("castKind", "BitCast") in ("BitCast", "NoOp"):
            n = kids(n)[0]
        if n["kind"] == "UnaryOperator" and n["opcode"] == "&":
            x = kids(n)[0]
            while x["kind"] == "ParenExpr":
                x = kids(x)[0]
            if x["kind"] == "DeclRefExpr" and x["referencedDecl"]["id"] in self.slots:
                t = self.u.ty(x["type"])
                if self.u.is_ptr(x["type"]):
                    return None
                if not t.startswith("u"):
                    raise Unsupported("memcpy to/from a signed integer object")
                return self.slots[x["referencedDecl"]["id"]], BITS[t] // 8
        return None

    def lvalue_expr_is_array_member(self, n):
        return n["kind"] == "MemberExpr"

    def expr_decay(self, n, pre):
        """expression in argument position; handles array-member decay (`pdu->payload`)"""
        m = n
        while m["kind"] in ("ImplicitCastExpr", "ParenExpr", "CStyleCastExpr") and m.get("castKind", "NoOp") in ("ArrayToPointerDecay", "NoOp", "BitCast"):
            if m.get("castKind") == "ArrayToPointerDecay":
                inner = kids(m)[0]
                while inner["kind"] == "ParenExpr":
                    inner = kids(inner)[0]
                if inner["kind"] == "MemberExpr":
                    return self.addr(inner, pre, False)
            m = kids(m)[0]
        return self.expr(n, pre)

    def call_stmt(self, n, dst=None):
        c = kids(n)
        fn = c[0]
        while fn["kind"] in ("ImplicitCastExpr", "ParenExpr"):
            fn = kids(fn)[0]
        if fn["kind"] != "DeclRefExpr" or fn["referencedDecl"]["kind"] != "FunctionDecl":
            raise Unsupported("indirect call")
        name = fn["referencedDecl"]["name"]
        pre = []
        args = c[1:]
        if name == "memcpy":
            if dst is not None:
                raise Unsupported("memcpy result used")
            d_obj = self.local_int_object(args[0])
            s_obj = self.local_int_object(args[1])
            nbytes = self.expr(args[2], pre)
            m = re.fullmatch(r"\(\.lit (\d+)\)", nbytes)
            if d_obj and not s_obj:
                if not m or int(m.group(1)) != d_obj[1]:
                    raise Unsupported("memcpy into an integer object with a size other than its own")
                a = self.expr_decay(args[1], pre)
                return self.seq(pre + ["(.loadObj %d %d %s)" % (d_obj[0], d_obj[1], a)])
            if s_obj and not d_obj:
                if not m or int(m.group(1)) != s_obj[1]:
                    raise Unsupported("memcpy from an integer object with a size other than its own")
                a = self.expr_decay(args[0], pre)
                return self.seq(pre + ["(.storeObj %s %d %d)" % (a, s_obj[1], s_obj[0])])
            if d_obj and s_obj:
                raise Unsupported("memcpy between local objects")
            d = self.expr_decay(args[0], pre)
            s = self.expr_decay(args[1], pre)
            return self.seq(pre + ["(.copy %s %s %s)" % (d, s, nbytes)])
        if name == "memset":
            if dst is not None:
                raise Unsupported("memset result used")
            if self.local_int_object(args[0]):
                raise Unsupported("memset of a local object")
            d = self.expr_decay(args[0], pre)
            v = self.expr(args[1], pre)
            vt = self.u.ty(args[1]["type"])
            if vt != "u8":
                v = "(.cast .%s .u8 %s)" % (vt, v)      # memset stores (unsigned char) v
            k = self.expr(args[2], pre)
            return self.seq(pre + ["(.fill %s %s %s)" % (d, v, k)])
        if name in ("memmove", "strncpy", "strlen", "strcpy", "printf", "assert"):
            raise Unsupported("call of " + name)
        a = []
        with_calls = 0
        for x in args:
            n0 = len(pre)
            a.append(self.expr_decay(x, pre))
            with_calls += 1 if len(pre) > n0 else 0
        if with_calls > 1:
            raise Unsupported("calls in more than one argument (unspecified evaluation order)")
        return self.seq(pre + ["(.call %s \"%s\" [%s])" % ("none" if dst is None else "(some %d)" % dst, name, ", ".join(a))])

    def assign(self, lhs, rhs_expr_str):
        while lhs["kind"] == "ParenExpr":
            lhs = kids(lhs)[0]
        if lhs["kind"] == "UnaryOperator" and lhs.get("opcode") == "*":
            # `*out = value`: a typed store through a pointer to an unsigned integer object
            t = self.u.ty(lhs["type"])
            if not t.startswith("u") or self.u.is_ptr(lhs["type"]):
                raise Unsupported("store through a pointer to a non-unsigned-integer object")
            pre = []
            a = self.expr(kids(lhs)[0], pre)
            if pre:
                raise Unsupported("call inside the address of a store")
            return "(.storeVal %s %d %s)" % (a, BITS[t] // 8, rhs_expr_str)
        if lhs["kind"] == "DeclRefExpr" and lhs["referencedDecl"]["id"] in self.slots:
            return "(.set %d %s)" % (self.slots[lhs["referencedDecl"]["id"]], rhs_expr_str)
        raise Unsupported("assignment to " + lhs["kind"])

    def stmt(self, n):
        k = n["kind"]
        c = kids(n)
        if k == "CompoundStmt":
            return self.seq([self.stmt(x) for x in c])
        if k == "NullStmt":
            return ".skip"
        if k == "DeclStmt":
            out = []
            for d in c:
                if d["kind"] != "VarDecl":
                    raise Unsupported("declaration of " + d["kind"])
                if d.get("storageClass") in ("static", "extern"):
                    raise Unsupported("local %s object %s" % (d.get("storageClass"), d["name"]))
                t = self.u.ty(d["type"])        # raises for arrays / structs
                s = self.new_slot(d["name"], t, d["id"])
                init = kids(d)
                if init:
                    i0 = init[0]
                    while i0["kind"] in ("ParenExpr",):
                        i0 = kids(i0)[0]
                    pre = []
                    e = self.expr(init[0], pre)
                    out += pre + ["(.set %d %s)" % (s, e)]
            return self.seq(out)
        if k == "IfStmt":
            pre = []
            cond = self.expr(c[0], pre)
            a = self.stmt(c[1])
            b = self.stmt(c[2]) if len(c) > 2 else ".skip"
            return self.seq(pre + ["(.ite %s %s %s)" % (cond, a, b)])
        if k == "WhileStmt":
            pre = []
            cond = self.expr(c[0], pre, cond_ctx=True)     # no calls in loop conditions
            i = len(self.loops)
            self.loops.append(None)
            body_stmts = self.stmt_list(c[1])
            self.loops[i] = (cond, body_stmts)
            return "(.while %s_w%d_cond %s_w%d_body)" % (self.name, i, self.name, i)
        if k == "ReturnStmt":
            if not c:
                return "(.ret none)"
            pre = []
            e = self.expr(c[0], pre)
            return self.seq(pre + ["(.ret (some %s))" % e])
        if k == "CallExpr":
            return self.call_stmt(n)
        if k == "BinaryOperator" and n["opcode"] == "=":
            pre = []
            e = self.expr(c[1], pre)
            return self.seq(pre + [self.assign(c[0], e)])
        if k == "CompoundAssignOperator":
            op = n["opcode"][:-1]
            lt = self.u.ty(c[0]["type"])
            clt = self.u.ty(n["computeLHSType"])
            crt = self.u.ty(n["computeResultType"])
            if self.u.is_ptr(c[0]["type"]):
                raise Unsupported("compound assignment on a pointer")
            pre = []
            lhs_val = self.expr({"kind": "ImplicitCastExpr", "castKind": "LValueToRValue", "type": c[0]["type"], "inner": [c[0]]}, pre)
            if lt != clt:
                lhs_val = "(.cast .%s .%s %s)" % (lt, clt, lhs_val)
            rhs = self.expr(c[1], pre)
            if op in ("<<", ">>"):
                rt = self.u.ty(c[1]["type"])
                if rt.startswith("i"):
                    rhs = "(.cast .%s .u64 %s)" % (rt, rhs)
            e = "(.bin .%s .%s %s %s)" % (BINOPS[op], crt if op not in ("<<", ">>") else clt, lhs_val, rhs)
            if crt != lt:
                e = "(.cast .%s .%s %s)" % (crt, lt, e)
            return self.seq(pre + [self.assign(c[0], e)])
        if k == "UnaryOperator" and n["opcode"] in ("++", "--"):
            t = self.u.ty(c[0]["type"])
            if self.u.is_ptr(c[0]["type"]):
                raise Unsupported("++/-- on a pointer")
            pre = []
            v = self.expr({"kind": "ImplicitCastExpr", "castKind": "LValueToRValue", "type": c[0]["type"], "inner": [c[0]]}, pre)
            # integer promotion: types narrower than int are computed in int
            ct = t if BITS[t] >= 32 else "i32"
            if ct != t:
                v = "(.cast .%s .%s %s)" % (t, ct, v)
            e = "(.bin .%s .%s %s (.lit 1))" % ("add" if n["opcode"] == "++" else "sub", ct, v)
            if ct != t:
                e = "(.cast .%s .%s %s)" % (ct, t, e)
            return self.assign(c[0], e)
        if k in ("ParenExpr",):
            return self.stmt(c[0])
        if k in ("ImplicitCastExpr", "CStyleCastExpr") and n.get("castKind") == "ToVoid":
            return self.stmt(c[0])
        raise Unsupported("statement kind " + k)

    def stmt_list(self, n):
        """the statements of a block, one entry per source statement (hoisted calls stay with it)"""
        if n["kind"] == "CompoundStmt":
            return [x for x in (self.stmt(y) for y in kids(n)) if x != ".skip"]
        return [self.stmt(n)]

    def translate(self):
        params = [p for p in kids(self.f) if p["kind"] == "ParmVarDecl"]
        for p in params:
            self.new_slot(p.get("name", "_"), self.u.ty(p["type"]), p["id"])
        body = [b for b in kids(self.f) if b["kind"] == "CompoundStmt"][0]
        s = self.stmt_list(body)
        return {"name": self.name, "nparams": len(params), "nlocals": len(self.slot_names), "body": s,
                "loops": self.loops, "slots": list(zip(self.slot_names, self.slot_ty))}


class NeedProbe(Exception):
    pass


def probe(include_lines, src_for_statics, sizeofs, offsetofs):
    """sizeof / offsetof as measured by the compiler, for the given translation unit."""
    res = {}
    if not sizeofs and not offsetofs:
        return res
    lines = ['#include <stdio.h>', '#include <stddef.h>', '#include "%s"' % src_for_statics, "int main(void){"]
    for t in sorted(sizeofs):
        lines.append('printf("S\\t%s\\t%%zu\\n", sizeof(%s));' % (t, t))
    for t, m in sorted(offsetofs):
        lines.append('printf("O\\t%s\\t%s\\t%%zu\\n", offsetof(%s, %s));' % (t, m, t, m))
    lines.append("return 0;}")
    with tempfile.TemporaryDirectory(prefix="cirprobe_") as td:
        cfile = os.path.join(td, "p.c")
        open(cfile, "w").write("\n".join(lines) + "\n")
        exe = os.path.join(td, "p")
        r = subprocess.run(["gcc", "-w", "-I", os.path.join(REPO, "include"), cfile, "-o", exe,
                            "-ffunction-sections", "-fdata-sections", "-Wl,--gc-sections"], capture_output=True, text=True)
        if r.returncode != 0:
            raise RuntimeError("probe does not compile: " + r.stderr[-1500:])
        out = subprocess.run([exe], capture_output=True, text=True).stdout
    for line in out.splitlines():
        p = line.split("\t")
        if p[0] == "S":
            res[("sizeof", p[1])] = int(p[2])
        else:
            res[("offsetof", p[1], p[2])] = int(p[3])
    return res


def translate_file(path, extra=(), only_file=None):
    """-> (functions, opaque, tables) for one .c file (or, with only_file, for the functions
    defined in that header as seen from this unit)"""
    u = Unit(path, extra)
    enums = {}
    globals_ = {}
    fns = []
    main_file = os.path.abspath(path)
    cur_file = None
    for n in u.root.get("inner", []):
        loc = n.get("loc", {})
        for key in ("file",):
            if key in loc:
                cur_file = loc[key]
        for sub in ("spellingLoc", "expansionLoc"):
            if sub in loc and "file" in loc[sub]:
                cur_file = loc[sub]["file"]
        rb = n.get("range", {}).get("begin", {})
        if "file" in rb:
            cur_file = rb["file"]
        if n.get("kind") == "EnumDecl":
            nxt = 0
            for c in n.get("inner", []):
                if c.get("kind") == "EnumConstantDecl":
                    v = None
                    for cc in c.get("inner", []):
                        v = const_of(cc) if const_of(cc) is not None else v
                    if v is None:
                        v = nxt
                    enums[c["name"]] = v
                    nxt = v + 1
        if n.get("kind") == "VarDecl" and "Avtp_FieldDescriptor" in n.get("type", {}).get("qualType", "") and \
                "const" in n["type"]["qualType"]:
            globals_[n["name"]] = n
        if n.get("kind") == "FunctionDecl" and any(c.get("kind") == "CompoundStmt" for c in n.get("inner", [])):
            if only_file is not None:
                if cur_file and cur_file.endswith(only_file):
                    fns.append((cur_file, n))
            elif cur_file and (os.path.abspath(cur_file) == main_file or
                               ("/include/avtp/" in cur_file and not cur_file.endswith("/Byteorder.h"))):
                fns.append((cur_file, n))
    sizes = {}
    out, opaque = [], []
    for _ in range(4):
        out, opaque = [], []
        need = False
        for f, n in fns:
            tr = FnTranslator(u, n, sizes, enums, globals_)
            try:
                d_ = tr.translate()
                d_["from_header"] = "/include/" in (f or "")
                out.append(d_)
            except NeedProbe:
                need = True
            except Unsupported as ex:
                opaque.append((n["name"], str(ex)))
        if not need:
            break
        sizes.update(probe([], path, u.need_sizeof, u.need_offsetof))
    else:
        raise RuntimeError("probe loop did not converge for " + path)
    return out, opaque, sorted(globals_)


LEAN_HEADER = """/- REGENERATED by tools/cir.py from /repo's current sources — do not edit.
   Function bodies of the library in the C subset of O1722/CSem/Syntax.lean. -/
import O1722.CSem.Syntax

namespace O1722.Gen.Cir
open O1722.C

"""


def lean_ident(s):
    return re.sub(r"[^A-Za-z0-9_]", "_", s)


def named_block(prefix, stmts, src):
    """`<prefix>_s<k>` for every statement of a block and `<prefix>_body` as their sequence"""
    names = []
    for k, st in enumerate(stmts):
        src.append("def %s_s%d : Stmt := %s" % (prefix, k, st))
        names.append("%s_s%d" % (prefix, k))
    if not names:
        return "def %s_body : Stmt := .skip" % prefix
    out = names[-1]
    for nme in reversed(names[:-1]):
        out = "(.seq %s %s)" % (nme, out)
    return "def %s_body : Stmt := %s" % (prefix, out)


def emit(results, byteorder):
    """results: list of (relpath, fns, opaque, tables); byteorder: {"little": (fns, opaque), "big": ...}"""
    src = [LEAN_HEADER]
    names = []
    seen = {}
    opaque_all = []
    for br in ("little", "big"):
        fns, opq = byteorder[br]
        src.append("/-! ### include/avtp/Byteorder.h as preprocessed for a %s-endian host -/\n" % br)
        src.append("namespace %s" % br.capitalize())
        bn = []
        for f in fns:
            nm = lean_ident(f["name"])
            if f["loops"]:
                opq = list(opq) + [(f["name"], "loop in a byte-order helper")]
                continue
            src.append(named_block(nm, f["body"], src))
            src.append("def %s : Fn := { name := \"%s\", nparams := %d, nlocals := %d, body := %s_body }"
                       % (nm, f["name"], f["nparams"], f["nlocals"], nm))
            bn.append(nm)
        src.append("def fns : List Fn := [%s]" % ", ".join(bn))
        src.append("end %s\n" % br.capitalize())
        for o in opq:
            opaque_all.append(("include/avtp/Byteorder.h[%s]" % br, o[0], o[1]))
    src.append("/-- the byte-order helpers the header selects for a host of byte order `e` -/")
    src.append("def byteorder : Endian → List Fn\n  | .little => Little.fns\n  | .big => Big.fns\n")
    file_lists = []
    for rel, fns, opaque, tables in results:
        src.append("/-! ### %s -/\n" % rel)
        here = []
        for f in fns:
            if f["name"] in seen:
                if f.get("from_header") and seen[f["name"]]:
                    continue        # static inline helpers of a header seen through several units
                # two definitions with one name in different .c files (static functions): the flat program
                # namespace of CSem cannot represent them; nothing is serialised rather than one of them dropped
                raise RuntimeError("two functions are named %s (file-local functions in different sources)" % f["name"])
            seen[f["name"]] = bool(f.get("from_header"))
            nm = lean_ident(f["name"])
            src.append("/- slots: %s -/" % ", ".join("%d=%s:%s" % (i, a, b) for i, (a, b) in enumerate(f["slots"])))
            for i, (cond, body) in enumerate(f["loops"]):
                src.append("def %s_w%d_cond : Expr := %s" % (nm, i, cond))
                src.append(named_block("%s_w%d" % (nm, i), body, src))
            src.append(named_block(nm, f["body"], src))
            src.append("def %s : Fn := { name := \"%s\", nparams := %d, nlocals := %d, body := %s_body }\n"
                       % (nm, f["name"], f["nparams"], f["nlocals"], nm))
            names.append(nm)
            here.append(nm)
        fl = "fns_" + lean_ident(os.path.splitext(os.path.basename(rel))[0])
        src.append("/-- the functions of %s that lie inside the subset -/" % rel)
        src.append("def %s : List Fn := [%s]\n" % (fl, ", ".join(here)))
        file_lists.append(fl)
        for o in opaque:
            opaque_all.append((rel, o[0], o[1]))
    src.append("/-- every function of the library sources that lies inside the subset -/")
    src.append("def lib : List Fn := %s\n" % " ++ ".join(file_lists))
    src.append("/-- the program as built for a host of byte order `e` -/")
    src.append("def prog (e : Endian) : List Fn := byteorder e ++ lib\n")
    src.append("/-- functions outside the subset (not part of `prog`), with the reason -/")
    src.append("def outside : List (String × String × String) := [%s]\n" %
               ", ".join('("%s", "%s", "%s")' % (a, b, c.replace('"', "'")) for a, b, c in opaque_all))
    src.append("end O1722.Gen.Cir\n")
    return "\n".join(src), names, opaque_all


def source_files():
    import glob
    fs = sorted(glob.glob(os.path.join(REPO, "src", "avtp", "**", "*.c"), recursive=True))
    return fs


def generate(verbose=False):
    """Regenerate Gen/Cir.lean from REPO's current sources; returns (function names, outside list)."""
    import concurrent.futures as cf
    files = source_files()
    with cf.ThreadPoolExecutor(max_workers=12) as ex:
        res = list(ex.map(translate_file, files))
    results = [(os.path.relpath(p, REPO),) + r for p, r in zip(files, res)]
    utils = os.path.join(REPO, "src", "avtp", "Utils.c")
    byteorder = {}
    for br, d in (("little", "-D__BYTE_ORDER__=__ORDER_LITTLE_ENDIAN__"), ("big", "-D__BYTE_ORDER__=__ORDER_BIG_ENDIAN__")):
        fns, opq, _ = translate_file(utils, (d,), only_file="/Byteorder.h")
        byteorder[br] = (fns, opq)
    txt, names, opaque = emit(results, byteorder)
    os.makedirs(GEN_LEAN, exist_ok=True)
    path = os.path.join(GEN_LEAN, "Cir.lean")
    if not os.path.exists(path) or open(path).read() != txt:
        open(path, "w").write(txt)
    if verbose:
        print("translated %d functions, %d outside the subset" % (len(names), len(opaque)))
        for o in opaque:
            print("  outside:", o)
    return names, opaque


if __name__ == "__main__":
    generate(verbose=True)
