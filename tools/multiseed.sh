#!/bin/sh
# multiseed.sh <tier> <seed>... — run every registered check at several VERIF_SEED values on
# /repo's current (clean) tree; prints one line per (seed, property). Evidence files are
# rewritten by these runs: regenerate them with ./run_all.sh before committing.
cd "$(dirname "$0")/.."
tier=$1; shift
for s in "$@"; do
  ids=$(python3 -c "import json;print(' '.join(c['property_id'] for c in json.load(open('MANIFEST.json'))['checks']))")
  echo $ids | tr ' ' '\n' | VERIF_SEED=$s xargs -P 4 -I{} sh -c "VERIF_SEED=$s ./check {} --tier $tier > build/ms_${s}_{}.txt 2>&1; echo seed=$s {} exit=\$? \$(grep -c VIOLATION build/ms_${s}_{}.txt) violations"
done
