#!/usr/bin/env python3
"""seedtable.py — rewrite the seed table at the end of DESIGN.md from seeded/*/meta.json"""
import json
import os
import re

V = os.path.dirname(os.path.dirname(os.path.abspath(__file__)))
rows = []
for sid in sorted(os.listdir(os.path.join(V, "seeded"))):
    m = json.load(open(os.path.join(V, "seeded", sid, "meta.json")))
    cb = m.get("caught_by", {})
    caught = ", ".join("%s (%d)" % (k, v["n"]) for k, v in cb.items() if v["n"] > 0) or "—"
    summ = " ".join(m["summary"].replace("|", "/").split())
    if len(summ) > 170:
        summ = summ[:167] + "..."
    rows.append("| %s | %s | %s | %s |" % (sid, summ, ", ".join(os.path.basename(f) for f in m.get("files", []))[:40], caught))
p = os.path.join(V, "DESIGN.md")
s = open(p).read()
head = "| seed | change | files | caught by (VIOLATION lines) |\n|---|---|---|---|\n"
i = s.index(head) + len(head)
s = s[:i] + "\n".join(rows) + "\n"
s = re.sub(r"the\s+\d+ independently seeded", "the %d independently seeded" % len(rows), s)
open(p, "w").write(s)
print(len(rows), "seeds")
