"""property id -> module deciding it (shared by ./check and the replay code)"""
MODULES = {
    "C01": "props.fields", "C02": "props.fields",
    "C03": "props.header", "C04": "props.header",
    "C05": "props.history",
    "C06": "props.can",
    "C13": "props.byteorder",
    "C07": "props.vss", "C08": "props.vss", "C09": "props.vss", "C10": "props.vss",
    "C11": "props.api", "C12": "props.api", "C17": "props.api", "C16": "props.concurrency", "C14": "props.endian", "C15": "props.alignment", "C20": "props.headers", "C19": "props.tunnel", "C18": "props.listeners",
}
