"""byteorder.py — translate include/avtp/Byteorder.h (both branches of its host-endianness
`#if`) into Lean definitions: the three swaps as Nat expressions with C's conversions made
explicit, and for each branch which helper is the identity and which a swap."""
import os
import cast

HELPERS = ["Avtp_CpuToLe16", "Avtp_CpuToLe32", "Avtp_CpuToLe64", "Avtp_CpuToBe16", "Avtp_CpuToBe32",
           "Avtp_CpuToBe64", "Avtp_LeToCpu16", "Avtp_LeToCpu32", "Avtp_LeToCpu64", "Avtp_BeToCpu16",
           "Avtp_BeToCpu32", "Avtp_BeToCpu64"]


class Opaque(Exception):
    pass


def width(s):
    t = s[0]
    if t == "icast":
        return s[1]
    if t == "bin":
        return s[4]
    if t == "param":
        return None
    return None


def lean_expr(s, pbits):
    t = s[0]
    if t == "param":
        return "x", pbits
    if t == "lit":
        return str(s[1]), max(1, int(s[1]).bit_length())
    if t == "icast":
        e, w = lean_expr(s[3], pbits)
        if s[1] is None:
            raise Opaque("cast to non-integer")
        if w is not None and w <= s[1]:
            return e, s[1]          # widening an unsigned value: value-preserving
        return "(%s %% 2 ^ %d)" % (e, s[1]), s[1]
    if t == "bin":
        a, _ = lean_expr(s[2], pbits)
        b, _ = lean_expr(s[3], pbits)
        op = s[1]
        bits = s[4]
        if op == "&":
            return "(%s &&& %s)" % (a, b), bits
        if op == "|":
            return "(%s ||| %s)" % (a, b), bits
        if op == "^":
            return "(%s ^^^ %s)" % (a, b), bits
        if op == ">>":
            return "(%s >>> %s)" % (a, b), bits
        if op == "<<":
            return "((%s <<< %s) %% 2 ^ %d)" % (a, b, bits), bits
        raise Opaque("operator " + op)
    if t == "call" and isinstance(s[1], str) and s[1].startswith("Avtp_Bswap"):
        a, _ = lean_expr(s[2][0], pbits)
        return "(%s %s)" % (s[1].replace("Avtp_B", "b"), a), int(s[1][-2:])
    raise Opaque("expression " + repr(s)[:80])


def flatten_or(e):
    return e


def translate(repo):
    hdr = os.path.join(repo, "include", "avtp", "Byteorder.h")
    out = {"swaps": {}, "helpers": {"little": {}, "big": {}}, "opaque": []}
    out["endian_names"], out["endian_mentions"] = endian_surface(repo)
    for branch, extra in (("little", ("-D__BYTE_ORDER__=__ORDER_LITTLE_ENDIAN__",)),
                          ("big", ("-D__BYTE_ORDER__=__ORDER_BIG_ENDIAN__",))):
        tu = cast.TU(hdr, repo, extra=("-x", "c") + extra)
        for f, n, body in cast.functions_with_bodies(tu, ""):
            name = n["name"]
            st = tu.stmt(body)
            pbits = None
            for c in n.get("inner", []):
                if c.get("kind") == "ParmVarDecl":
                    pbits = tu.type_bits(c["type"])
            try:
                if not (st[0] == "block" and len(st[1]) == 1 and st[1][0][0] == "return"):
                    raise Opaque("not a single return")
                e = st[1][0][1]
                if name.startswith("Avtp_Bswap"):
                    expr, _ = lean_expr(e, pbits)
                    prev = out["swaps"].get(name)
                    if prev is not None and prev != expr:
                        raise Opaque("swap differs between the two branches")
                    out["swaps"][name] = expr
                elif name in HELPERS:
                    bits = int(name[-2:])
                    if e == ("param", "x") or (e[0] == "param"):
                        out["helpers"][branch][name] = "id"
                    elif e[0] == "call" and e[1] == "Avtp_Bswap%d" % bits and e[2] == (("param", e[2][0][1]),):
                        out["helpers"][branch][name] = "swap"
                    else:
                        raise Opaque("helper is neither identity nor the swap of its width")
            except Opaque as ex:
                out["opaque"].append([branch, name, str(ex)])
    return out


ENDIAN_TOKENS = r"__BYTE_ORDER__|__ORDER_(?:LITTLE|BIG|PDP)_ENDIAN__|__BYTE_ORDER\b|__LITTLE_ENDIAN\b|__BIG_ENDIAN\b|\bBYTE_ORDER\b|endian\.h|\bhto[nb]|\bntoh|\b[bl]e\d\dtoh|__builtin_bswap"


def endian_surface(repo):
    """Where can the host byte order influence the library?  (a) every name (macro or function)
    of the public headers whose definition differs between a little- and a big-endian build;
    (b) every line of src/ and include/ outside Byteorder.h that mentions a host-byte-order
    facility.  The model admits exactly the twelve conversion helpers for (a) and nothing for (b)."""
    import glob
    import re
    import subprocess
    inc = os.path.join(repo, "include")
    hdrs = sorted(glob.glob(os.path.join(inc, "avtp", "**", "*.h"), recursive=True))
    src = "".join('#include "%s"\n' % os.path.relpath(h, inc) for h in hdrs if not h.endswith(os.path.join("aaf", "Pcm.h")))
    defs = {}
    for br, d in (("little", "-D__BYTE_ORDER__=__ORDER_LITTLE_ENDIAN__"), ("big", "-D__BYTE_ORDER__=__ORDER_BIG_ENDIAN__")):
        r = subprocess.run(["gcc", "-E", "-dD", "-P", "-x", "c", d, "-I", inc, "-"], input=src, capture_output=True, text=True)
        if r.returncode != 0:
            raise RuntimeError("preprocessing the public headers (%s) failed: %s" % (br, r.stderr[-500:]))
        txt = r.stdout
        m = {}
        for mm in re.finditer(r"^#define\s+(\w+)(?:\([^)]*\))?\s*(.*)$", txt, re.M):
            if not mm.group(1).startswith("__") and not mm.group(1) in ("_STDINT_H",):
                m["macro " + mm.group(1)] = " ".join(mm.group(2).split())
        # function definitions: name -> normalised body text
        for mm in re.finditer(r"\b(\w+)\s*\(([^()]*)\)\s*\{([^{}]*)\}", txt):
            m["function " + mm.group(1)] = " ".join(mm.group(3).split())
        defs[br] = m
    names = sorted(k.split(" ", 1)[1] for k in set(defs["little"]) | set(defs["big"])
                   if defs["little"].get(k) != defs["big"].get(k) and "BYTE_ORDER" not in k)
    mentions = []
    files = sorted(glob.glob(os.path.join(repo, "src", "avtp", "**", "*.c"), recursive=True)) + hdrs
    for f in files:
        if f.endswith(os.path.join("avtp", "Byteorder.h")):
            continue
        for ln, line in enumerate(open(f, errors="replace").read().splitlines(), 1):
            code = line.split("//")[0]
            if re.search(ENDIAN_TOKENS, code):
                mentions.append("%s:%d" % (os.path.relpath(f, repo), ln))
    return names, mentions


def strip_outer(e):
    return e[1:-1] if e.startswith("(") and e.endswith(")") and balanced(e[1:-1]) else e


def balanced(s):
    d = 0
    for c in s:
        if c == "(":
            d += 1
        elif c == ")":
            d -= 1
            if d < 0:
                return False
    return d == 0


def emit(bo, path):
    L = ["/- REGENERATED by tools/byteorder.py from include/avtp/Byteorder.h — do not edit. -/",
         "import O1722.Model.Utils", "", "namespace O1722.Gen", "open O1722", ""]
    for n in ("Avtp_Bswap16", "Avtp_Bswap32", "Avtp_Bswap64"):
        e = bo["swaps"].get(n)
        L.append("/-- `%s` as translated from the header -/" % n)
        L.append("def %s (x : Nat) : Nat := %s" % (n.replace("Avtp_B", "b"), strip_outer(e) if e else "0"))
        L.append("")
    L.append("/-- per host byte order: (helper, true = swap / false = identity) -/")
    for br in ("little", "big"):
        L.append("def helpers_%s : List (String × Bool) := [%s]" % (
            br, ", ".join('("%s", %s)' % (h, "true" if bo["helpers"][br].get(h) == "swap" else "false")
                          for h in HELPERS if h in bo["helpers"][br])))
    L.append("def byteorderOpaque : List (String × String × String) := [%s]" % ", ".join(
        '("%s", "%s", "%s")' % tuple(x) for x in bo["opaque"]))
    L.append("/-- names of the public headers defined differently for little- and big-endian hosts -/")
    L.append("def endianDependentNames : List String := [%s]" % ", ".join('"%s"' % n for n in bo.get("endian_names", [])))
    L.append("/-- lines outside Byteorder.h that mention a host-byte-order facility -/")
    L.append("def endianMentions : List String := [%s]" % ", ".join('"%s"' % n for n in bo.get("endian_mentions", [])))
    L += ["", "end O1722.Gen", ""]
    txt = "\n".join(L)
    if not os.path.exists(path) or open(path).read() != txt:
        open(path, "w").write(txt)


if __name__ == "__main__":
    import json
    bo = translate("/repo")
    print(json.dumps(bo, indent=1))
