"""common.py — shared machinery of the checks: locking, Lean build, harness build,
running the real library and the Lean driver on the same operation lines, evidence,
violation / known-finding protocol."""
import concurrent.futures as cf
import fcntl
import glob
import hashlib
import json
import os
import random
import re
import subprocess
import sys
import time

HERE = os.path.dirname(os.path.abspath(__file__))
VERIF = os.path.dirname(HERE)
REPO = os.environ.get("O1722_REPO", "/repo")
BUILD = os.path.join(VERIF, "build")
LEAN = os.path.join(VERIF, "lean")
DRIVER = os.path.join(LEAN, ".lake", "build", "bin", "driver")
EVID = os.path.join(VERIF, "evidence")
REPLAYS = os.path.join(VERIF, "replays")
sys.path.insert(0, HERE)

FORBIDDEN = r"sorry|admit|^\s*axiom |native_decide|bv_decide|implemented_by|unsafe |maxHeartbeats 0"


class ToolError(Exception):
    """The machinery itself failed (exit 2, never a VIOLATION)."""


class Lock:
    def __init__(self, name):
        os.makedirs(BUILD, exist_ok=True)
        self.path = os.path.join(BUILD, name + ".lock")

    def __enter__(self):
        self.f = open(self.path, "w")
        fcntl.flock(self.f, fcntl.LOCK_EX)
        return self

    def __exit__(self, *a):
        fcntl.flock(self.f, fcntl.LOCK_UN)
        self.f.close()


def run(cmd, **kw):
    return subprocess.run(cmd, capture_output=True, text=True, **kw)


# ------------------------------------------------------------------------------------------
# Lean side


def lake_build(targets, timeout=1800):
    """Build Lean targets (serialised across concurrent checks). Returns (ok, output)."""
    with Lock("lake"):
        r = run(["lake", "build"] + list(targets), cwd=LEAN, timeout=timeout)
    return r.returncode == 0, r.stdout + r.stderr


def ensure_driver():
    if not os.path.exists(DRIVER) or _stale_driver():
        ok, out = lake_build(["driver"])
        if not ok:
            raise ToolError("driver does not build:\n" + out[-3000:])


def _stale_driver():
    t = os.path.getmtime(DRIVER)
    for f in glob.glob(os.path.join(LEAN, "O1722", "Spec", "*.lean")) + \
            glob.glob(os.path.join(LEAN, "O1722", "Model", "*.lean")) + \
            glob.glob(os.path.join(LEAN, "O1722", "Driver", "*.lean")) + [os.path.join(LEAN, "Main.lean")]:
        if os.path.getmtime(f) > t:
            return True
    return False


def lean_eval(src_text, name):
    """Run a Lean file under `lake env lean` and return stdout (for executable evaluation of
    the decidable obligations and for `#print axioms`)."""
    path = os.path.join(BUILD, name + ".lean")
    open(path, "w").write(src_text)
    r = run(["lake", "env", "lean", path], cwd=LEAN, timeout=1200)
    return r.returncode, r.stdout + r.stderr


def audit_sources():
    """grep the hand-written and generated Lean sources for anything that would weaken the
    kernel's verdict; comment lines are ignored."""
    hits = []
    for f in glob.glob(os.path.join(LEAN, "**", "*.lean"), recursive=True):
        if "/.lake/" in f:
            continue
        in_block = False
        for i, line in enumerate(open(f), 1):
            s = line.strip()
            if in_block:
                if "-/" in s:
                    in_block = False
                continue
            if s.startswith("/-"):
                if "-/" not in s:
                    in_block = True
                continue
            if s.startswith("--"):
                continue
            code = s.split("--")[0]
            if re.search(FORBIDDEN, code):
                hits.append("%s:%d: %s" % (os.path.relpath(f, VERIF), i, s))
    return hits


def print_axioms(module, theorems):
    mods = [module] if isinstance(module, str) else list(module)
    src = "".join("import %s\n" % m_ for m_ in mods) + "\n".join("#print axioms %s" % t for t in theorems) + "\n"
    rc, out = lean_eval(src, "axioms_" + mods[-1].replace(".", "_"))
    res = {}
    cur = None
    # the message wraps for long names: match over the whole output
    for m in re.finditer(r"'([^']+)'\s+depends\s+on\s+axioms:\s*\[(.*?)\]", out, re.S):
        res[m.group(1)] = [x.strip() for x in m.group(2).replace("\n", " ").split(",") if x.strip()]
    for m2 in re.finditer(r"'([^']+)'\s+does\s+not\s+depend\s+on\s+any\s+axioms", out, re.S):
        res[m2.group(1)] = []
    if rc != 0 and not res:
        raise ToolError("#print axioms failed:\n" + out[-2000:])
    return res, out


ALLOWED_AXIOMS = {"propext", "Classical.choice", "Quot.sound"}


# ------------------------------------------------------------------------------------------
# C side

FLAVORS = {
    # AddressSanitizer + UBSan (alignment is C15's subject and checked there)
    "asan": ["clang", "-O1", "-g", "-fsanitize=address,undefined", "-fno-sanitize=alignment",
             "-fno-sanitize-recover=all", "-fno-omit-frame-pointer"],
    "ubalign": ["clang", "-O1", "-g", "-fsanitize=address,undefined", "-fno-sanitize-recover=all"],
    "plain": ["gcc", "-O2", "-g"],
    "gcc-O0": ["gcc", "-O0"], "gcc-O1": ["gcc", "-O1"], "gcc-O2": ["gcc", "-O2"], "gcc-O3": ["gcc", "-O3"],
    "clang-O0": ["clang", "-O0"], "clang-O1": ["clang", "-O1"], "clang-O2": ["clang", "-O2"], "clang-O3": ["clang", "-O3"],
    "gcc-O3-ubalign": ["gcc", "-O3", "-fsanitize=alignment", "-fno-sanitize-recover=all"],
}


def repo_sources():
    return sorted(glob.glob(os.path.join(REPO, "src", "avtp", "**", "*.c"), recursive=True))


def _obj_key(path, flags):
    h = hashlib.sha256()
    h.update(" ".join(flags).encode())
    h.update(open(path, "rb").read())
    # headers matter too
    for f in sorted(glob.glob(os.path.join(REPO, "include", "**", "*.h"), recursive=True)) + \
            sorted(glob.glob(os.path.join(VERIF, "harness", "*.h"))):
        h.update(open(f, "rb").read())
    return h.hexdigest()[:20]


def build_harness(flavor="asan", extra_flags=(), extra_sources=(), exe_name=None):
    """Compile the real library sources of /repo's CURRENT working tree together with the
    harness VM and the Spec-generated glue. Object files are cached by content hash."""
    import harness_gen
    ensure_driver()
    hdir = os.path.join(BUILD, "harness")
    with Lock("harness"):
        spec, gen_files = harness_gen.generate(hdir)
        flags = FLAVORS[flavor] + list(extra_flags) + ["-w", "-I", os.path.join(REPO, "include"),
                                                        "-I", os.path.join(VERIF, "harness")]
        srcs = repo_sources() + gen_files + sorted(f for f in glob.glob(os.path.join(VERIF, "harness", "*.c"))
                                                   if not f.endswith("_main.c")) + list(extra_sources)
        odir = os.path.join(hdir, "obj")
        os.makedirs(odir, exist_ok=True)

        def comp(src):
            key = _obj_key(src, flags)
            obj = os.path.join(odir, os.path.basename(src) + "." + key + ".o")
            if not os.path.exists(obj):
                r = run(flags + ["-c", src, "-o", obj])
                if r.returncode != 0:
                    return None, "%s:\n%s" % (src, r.stderr[-3000:])
            return obj, None

        with cf.ThreadPoolExecutor(max_workers=16) as ex:
            res = list(ex.map(comp, srcs))
        errs = [e for o, e in res if e]
        if errs:
            raise ToolError("harness does not compile against the current tree:\n" + "\n".join(errs)[:6000])
        objs = [o for o, _ in res]
        exe = os.path.join(hdir, exe_name or ("vm_" + flavor + hashlib.sha256(" ".join(extra_flags).encode()).hexdigest()[:6]))
        # link under a private name and rename atomically: another check may be EXECUTING this path
        # right now (the lock covers building, not running), and must never see a half-written file
        tmp_exe = "%s.tmp.%d" % (exe, os.getpid())
        r = run(flags + objs + ["-o", tmp_exe, "-lm"])
        if r.returncode != 0:
            raise ToolError("harness does not link:\n" + r.stderr[-3000:])
        os.replace(tmp_exe, exe)
        # drop stale objects
        keep = set(objs)
        for o in glob.glob(os.path.join(odir, "*.o")):
            if o not in keep and time.time() - os.path.getmtime(o) > 3600:
                try:
                    os.remove(o)
                except OSError:
                    pass
    return spec, exe


SAN_ENV = {"ASAN_OPTIONS": "detect_leaks=0:abort_on_error=0:exitcode=99:allocator_may_return_null=1",
           "UBSAN_OPTIONS": "print_stacktrace=1:halt_on_error=1:exitcode=98"}


def run_c(exe, text, timeout=600):
    env = dict(os.environ)
    env.update(SAN_ENV)
    r = subprocess.run([exe], input=text, capture_output=True, text=True, env=env, timeout=timeout)
    return r.returncode, r.stdout, r.stderr


def run_lean(text, timeout=600):
    ensure_driver()
    r = subprocess.run([DRIVER], input=text, capture_output=True, text=True, timeout=timeout)
    if r.returncode != 0:
        raise ToolError("driver failed: " + r.stderr[-2000:])
    return r.stdout


class Cases:
    """A list of independent cases; each is a list of operation lines. Rendering adds a
    `case <n>` marker so both sides' outputs can be cut per case."""

    def __init__(self):
        self.cases = []
        self.tags = []

    def add(self, lines, tag=None):
        self.cases.append(list(lines))
        self.tags.append(tag)

    def render(self, idxs=None):
        out = []
        for i in (range(len(self.cases)) if idxs is None else idxs):
            out.append("case %d" % i)
            out.extend(self.cases[i])
        return "\n".join(out) + "\n"


def split_cases(out):
    d = {}
    cur = None
    for line in out.splitlines():
        if line.startswith("case "):
            cur = int(line.split()[1])
            d[cur] = []
        elif cur is not None:
            d[cur].append(line)
    return d


def differential(exe, cases, chunk=4000):
    """Run all cases on the real code and on the Lean driver; return list of
    (case index, kind, c_lines, lean_lines, stderr_excerpt) for every disagreement,
    where kind is 'diff' or 'crash'."""
    bad = []
    idxs = list(range(len(cases.cases)))
    lean_out = {}
    chunks = [idxs[i:i + chunk] for i in range(0, len(idxs), chunk)]

    def lean_chunk(ch):
        return split_cases(run_lean(cases.render(ch)))

    def c_chunk(ch):
        res = {}
        crashes = {}
        todo = list(ch)
        while todo:
            rc, out, err = run_c(exe, cases.render(todo))
            got = split_cases(out)
            if rc == 0:
                res.update(got)
                break
            # crashed inside the last case that printed its marker
            done = sorted(got)
            last = done[-1] if done else todo[0]
            for k in done[:-1]:
                res[k] = got[k]
            crashes[last] = (rc, err[-4000:])
            res[last] = got.get(last, []) + ["<crash rc=%d>" % rc]
            todo = todo[todo.index(last) + 1:]
        return res, crashes

    with cf.ThreadPoolExecutor(max_workers=8) as ex:
        lf = [ex.submit(lean_chunk, ch) for ch in chunks]
        cfu = [ex.submit(c_chunk, ch) for ch in chunks]
        c_out, crashes = {}, {}
        for f in cfu:
            r, cr = f.result()
            c_out.update(r)
            crashes.update(cr)
        for f in lf:
            lean_out.update(f.result())
    for i in idxs:
        if i in crashes:
            bad.append((i, "crash", c_out.get(i, []), lean_out.get(i, []), crashes[i][1]))
        elif c_out.get(i) != lean_out.get(i):
            bad.append((i, "diff", c_out.get(i, []), lean_out.get(i, []), ""))
    return bad


# ------------------------------------------------------------------------------------------
# findings / evidence


def load_known():
    p = os.path.join(VERIF, "known_findings.json")
    return json.load(open(p)) if os.path.exists(p) else {"findings": [], "fixed": []}


def known_keys(prop):
    return {f["key"]: f for f in load_known().get("findings", []) if f.get("property") == prop}


class Report:
    def __init__(self, prop, tier, seed):
        self.prop, self.tier, self.seed = prop, tier, seed
        self.t0 = time.time()
        self.violations = []       # (key, replay path, note)
        self.known_hit = []
        self.cov = {"samples": []}
        self.assumptions = []
        os.makedirs(EVID, exist_ok=True)
        os.makedirs(REPLAYS, exist_ok=True)

    def violation(self, key, payload, no_input=False):
        """Record a violation under canonical `key`; known findings are printed and not counted."""
        known = known_keys(self.prop)
        if key in known:
            if key not in [k for k, _ in self.known_hit]:
                self.known_hit.append((key, known[key].get("what", "")))
            return
        path = os.path.join(REPLAYS, "%s-%s.json" % (self.prop, re.sub(r"[^A-Za-z0-9_.-]+", "_", key)[:80]))
        payload = jsonable(dict(payload))
        payload.update(property=self.prop, key=key, how_to_replay="./check %s --replay %s" % (self.prop, os.path.relpath(path, VERIF)))
        json.dump(payload, open(path, "w"), indent=1)
        self.violations.append((key, os.path.relpath(path, VERIF), no_input))

    def finish(self, level="proof"):
        for key, what in self.known_hit:
            print("KNOWN-FINDING: property=%s %s [%s]" % (self.prop, what, key))
        seen = set()
        for key, path, no_input in self.violations:
            if key in seen:
                continue
            seen.add(key)
            print("VIOLATION property=%s replay=%s%s" % (self.prop, path, " no-failing-input-found" if no_input else ""))
        ev = {"property_id": self.prop, "tier": self.tier, "seed": self.seed, "level": level,
              "coverage": self.cov, "assumptions": self.assumptions,
              "wall_s": round(time.time() - self.t0, 2), "violations": len(seen)}
        if self.known_hit:
            ev["coverage"]["known_findings_excluded"] = [k for k, _ in self.known_hit]
        json.dump(ev, open(os.path.join(EVID, self.prop + ".json"), "w"), indent=1)
        sys.stdout.flush()
        return 1 if seen else 0


def jsonable(x):
    if isinstance(x, (bytes, bytearray)):
        return bytes(x).hex()
    if isinstance(x, dict):
        return {str(k): jsonable(v) for k, v in x.items()}
    if isinstance(x, (list, tuple, set)):
        return [jsonable(v) for v in x]
    return x


def rng_for(prop, seed):
    return random.Random("%s-%d" % (prop, seed))


def hexs(bs):
    return bytes(bs).hex() if len(bs) else "-"


def generic_replay(prop, path):
    """./check <id> --replay <file>: re-run exactly the recorded input on /repo's current tree
    and on the Model; exit 1 if the violation reproduces, 0 if it does not.  Replays without a
    concrete input (failed obligations) re-run the property's quick check and look for the same
    key.  Evidence files are not touched."""
    import importlib
    if not os.path.isabs(path) and not os.path.exists(path):
        path = os.path.join(VERIF, path)
    d = json.load(open(path))
    key = d.get("key", "?")
    kind = d.get("kind", "")
    print("replaying %s (%s)" % (key, kind))
    if "ops" in d and isinstance(d["ops"], list):
        spec, exe = build_harness(d.get("flavor", "asan"))
        text = "case 0\n" + "\n".join(d["ops"]) + "\n"
        rc, out, err = run_c(exe, text)
        lean = run_lean(text)
        print("--- real code (rc=%d)\n%s--- model\n%s" % (rc, out, lean))
        if err.strip():
            print("--- stderr\n" + err[-1500:])
        bad = rc != 0 or out.split() != lean.split()
        print("REPRODUCED" if bad else "not reproduced on the current tree")
        return 1 if bad else 0
    if kind == "listener":
        import examples
        L = importlib.import_module("props.listeners")
        L.spec()
        which = d["listener"]
        exe = examples.build_listener(which)
        dg = [bytes.fromhex(h) if h != "-" else b"" for h in d["datagrams_hex"]]
        rc, lines, err = L.run_real(exe, d["argv"], dg)
        print("--- real listener (rc=%d)\n%s" % (rc, "\n".join(lines)))
        bad = rc != 0 or not lines or lines[-1] != "blocked"
        if True:
            modeargs = {"u": "u" if "-u" in d["argv"] else "r", "f": "f" if "--fd" in d["argv"] else "c",
                        "o": "talker" if "talker" in d["argv"] else "listener"}
            per = L.model_outputs(which, modeargs, dg)
            exp_can, exp_out = L.expected_from_model(which, per)
            print("--- model\n%s" % per)
            if which == "can":
                bad = bad or [l for l in lines if l.startswith("can")] != exp_can
            elif which == "crf" and modeargs["o"] == "talker":
                bad = bad or [l for l in lines if l.startswith("sent ")] != [l for p_ in per for l in p_ if l.startswith("sent ")]
            else:
                bad = bad or b"".join(bytes.fromhex(l[7:].strip()) for l in lines if l.startswith("stdout ")) != exp_out
        if err.strip():
            print("--- stderr\n" + err[-1500:])
        print("REPRODUCED" if bad else "not reproduced on the current tree")
        return 1 if bad else 0
    if kind == "tunnel":
        import examples
        exe = examples.build_can()
        ensure_driver()
        m = d["mode"]
        txt = "\n".join(d["input"]) + "\n"
        env = dict(os.environ)
        env.update(SAN_ENV)
        p = subprocess.run([exe, m["cf"], m["transport"], m["can"], str(m["frames_per_packet"])], input=txt, capture_output=True, text=True, env=env, timeout=120)
        l = subprocess.run([DRIVER], input="tun %s %s %s %d\n" % (m["cf"], m["transport"], m["can"], m["frames_per_packet"]) + txt, capture_output=True, text=True, timeout=120)
        print("--- real talker+listener (rc=%d)\n%s--- model\n%s" % (p.returncode, p.stdout, l.stdout))
        want = ["out " + x.split(" ", 1)[1] for x in d["input"] if x.startswith("frame ")]
        got = [x for x in p.stdout.splitlines() if x.startswith("out")]
        bad = p.returncode != 0 or p.stdout.split() != l.stdout.split() or got != want[:len(got)]
        print("REPRODUCED" if bad else "not reproduced on the current tree")
        return 1 if bad else 0
    if kind == "headers-do-not-combine":
        lang = d.get("language", "c")
        src = '#include "%s"\n#include "%s"\nint main(void){return 0;}\n' % (d["first"], d["second"])
        cc = ["gcc", "-std=gnu99", "-x", "c"] if lang == "c" else ["g++", "-std=gnu++17", "-x", "c++"]
        r = subprocess.run(cc + ["-fsyntax-only", "-w", "-I", os.path.join(REPO, "include"), "-"], input=src, capture_output=True, text=True)
        print(r.stderr[:1500])
        if r.returncode != 0:
            print("REPRODUCED (does not compile)")
            return 1
        # compiles: the recorded failure was a changed value/layout — decided by the full pair run below
    # no directly replayable input: re-run the quick check and look for the same key
    import check_modules
    rep = Report(prop, "quick", int(os.environ.get("VERIF_SEED", "1")))
    mod = importlib.import_module(check_modules.MODULES[prop])
    mod.check(rep, prop, "quick", rep.seed)
    hit = [k for k, _, _ in rep.violations if k == key] + [k for k, _ in rep.known_hit if k == key]
    print("REPRODUCED (the quick check reports %s again)" % key if hit else "not reproduced on the current tree")
    return 1 if hit else 0


def cbmc_sweep(tag, files_for_hash, jobs, make_cmd, prefix, tier_tag):
    """Run CBMC once per job (in parallel), cached by the content of `files_for_hash`.
    make_cmd(job) -> argv.  Returns [(job, verdict, failed assertion texts, trace excerpt)] with
    verdict in ok / fail; raises ToolError if CBMC could not decide a job."""
    import hashlib
    from concurrent.futures import ThreadPoolExecutor
    h = hashlib.sha256(b"".join(open(x, "rb").read() for x in files_for_hash)).hexdigest()[:16]
    cache_path = os.path.join(BUILD, "cbmc_%s_%s_%s.json" % (tag, h, tier_tag))
    if os.path.exists(cache_path):
        return json.load(open(cache_path))

    def one(job):
        r = subprocess.run(make_cmd(job) + ["--trace"], capture_output=True, text=True, timeout=1800)
        out = r.stdout
        if "VERIFICATION SUCCESSFUL" in out:
            return [job, "ok", [], ""]
        failed = sorted(set(re.findall(r"\] line \d+ (%s: [^:]+): FAILURE" % prefix, out)))
        if not failed:
            # CBMC's own checks (bounds, pointers, unwinding): keep the property name of the line
            failed = sorted(set(m.strip()[:160] for m in re.findall(r"^\[[^\]]+\] ([^\n]*): FAILURE$", out, re.M)))
        if not failed:
            return [job, "tool-error", [], out[-600:] + r.stderr[-300:]]
        return [job, "fail", failed, out[-6000:]]
    with ThreadPoolExecutor(max_workers=14) as ex:
        results = list(ex.map(one, jobs))
    for job, verdict, failed, tr in results:
        if verdict == "tool-error":
            raise ToolError("cbmc could not decide %s %s: %s" % (tag, job, tr))
    json.dump(results, open(cache_path, "w"))
    return results
