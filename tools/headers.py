"""headers.py — per public header: the names it introduces with a canonical meaning, the
macros among them, the identifier tokens it uses, and the headers it includes; emitted as
Gen/Headers.lean for the C20 obligations."""
import os
import re
import glob
import cast

REPO = os.environ.get("O1722_REPO", "/repo")


def strip_comments(src):
    src = re.sub(r"/\*.*?\*/", " ", src, flags=re.S)
    src = re.sub(r"//[^\n]*", " ", src)
    return src


def header_list(repo=None):
    repo = repo or REPO
    hs = sorted(glob.glob(os.path.join(repo, "include", "avtp", "**", "*.h"), recursive=True))
    return [os.path.relpath(h, os.path.join(repo, "include")) for h in hs]


def analyse(h, repo=None, lang="c"):
    repo = repo or REPO
    path = os.path.join(repo, "include", h)
    text = strip_comments(open(path).read())
    # join continuation lines
    text = text.replace("\\\n", " ")
    macros = {}
    body_lines = []
    includes = []
    leaks = []          # persistent effects other than name bindings (the model assumes none)
    pack_depth = 0
    for line in text.splitlines():
        mp = re.match(r"\s*#\s*pragma\s+(.*)$", line)
        if mp:
            arg = " ".join(mp.group(1).split())
            if arg == "once":
                pass
            elif re.match(r"pack\s*\(\s*push", arg):
                pack_depth += 1
            elif re.match(r"pack\s*\(\s*pop", arg):
                pack_depth -= 1
                if pack_depth < 0:
                    leaks.append("#pragma pack(pop) without push")
                    pack_depth = 0
            else:
                leaks.append("#pragma " + arg)
            continue
        mu = re.match(r"\s*#\s*undef\s+(\w+)", line)
        if mu:
            leaks.append("#undef " + mu.group(1))
            continue
        m = re.match(r"\s*#\s*define\s+(\w+)(\([^)]*\))?\s*(.*)$", line)
        if m:
            macros[m.group(1)] = "macro" + (m.group(2) or "") + "=" + " ".join(m.group(3).split())
            body_lines.append(m.group(3))          # a macro body uses identifiers too (at expansion time)
            continue
        mi = re.match(r'\s*#\s*include\s+"([^"]+)"', line)
        if mi:
            includes.append(mi.group(1))
            continue
        if re.match(r"\s*#", line):
            continue
        body_lines.append(line)
    body = "\n".join(body_lines)
    body = re.sub(r'"[^"\n]*"', " ", body)
    tokens = sorted(set(re.findall(r"[A-Za-z_]\w*", body)))
    intro = dict(macros)
    extra = ("-x", "c") if lang == "c" else ("-x", "c++")
    tu = cast.TU(path, repo, extra=extra)
    for f, n in tu.top:
        if f != path:
            continue
        k = n.get("kind")
        if k == "EnumDecl":
            for name, val in tu.enumerators(n):
                intro[name] = "enumerator=%d" % val
            if n.get("name"):
                intro["enum " + n["name"]] = "enum{" + ",".join("%s=%d" % x for x in tu.enumerators(n)) + "}"
        elif k == "RecordDecl" and n.get("name") and n.get("completeDefinition"):
            members = [(c.get("name"), c.get("type", {}).get("qualType")) for c in n.get("inner", []) if c.get("kind") == "FieldDecl"]
            intro[(n.get("tagUsed") or "struct") + " " + n["name"]] = "{" + ";".join("%s %s" % (t, nm) for nm, t in members) + "}"
        elif k == "TypedefDecl":
            intro[n["name"]] = "typedef=" + n["type"].get("qualType", "")
        elif k == "FunctionDecl":
            intro[n["name"]] = "function=" + n["type"].get("qualType", "")
    if pack_depth > 0:
        leaks.append("#pragma pack(push) without pop")
    # record types whose layout is checked: named structs/unions and typedef names of records
    records = []
    for f, n in tu.top:
        if f != path:
            continue
        k = n.get("kind")
        if k == "RecordDecl" and n.get("completeDefinition"):
            fields = [c.get("name") for c in n.get("inner", []) if c.get("kind") == "FieldDecl" and c.get("name") and not c.get("isBitfield")]
            if n.get("name"):
                records.append(((n.get("tagUsed") or "struct") + " " + n["name"], fields))
            else:
                records.append(("#anon:" + n.get("id", ""), fields))
        elif k == "TypedefDecl":
            for c in n.get("inner", []):
                rid = c.get("ownedTagDecl", {}).get("id")
                if rid:
                    for i, (nm, fl) in enumerate(records):
                        if nm == "#anon:" + rid:
                            records[i] = (n["name"], fl)
    records = [r for r in records if not r[0].startswith("#anon:")]
    return {"header": h, "intro": sorted(intro.items()), "macros": sorted(macros), "uses": tokens, "includes": includes,
            "leaks": leaks, "records": records}


def layout_probe(h, records, repo=None, workdir="/tmp"):
    """sizeof / offsetof of every record type of header `h`, measured with `h` included alone"""
    import subprocess
    repo = repo or REPO
    if not records:
        return []
    src = '#include <stddef.h>\n#include <stdio.h>\n#include "%s"\nint main(void) {\n' % h
    for t, fields in records:
        src += '  printf("S|%s|%%zu\\n", sizeof(%s));\n' % (t, t)
        for f in fields:
            src += '  printf("O|%s|%s|%%zu\\n", offsetof(%s, %s));\n' % (t, f, t, f)
    src += "  return 0;\n}\n"
    tag = re.sub(r"\W", "_", h)
    c = os.path.join(workdir, "lay_%s.c" % tag)
    exe = os.path.join(workdir, "lay_%s" % tag)
    open(c, "w").write(src)
    r = subprocess.run(["gcc", "-std=gnu99", "-w", "-I", os.path.join(repo, "include"), c, "-o", exe], capture_output=True, text=True)
    out = []
    if r.returncode == 0:
        o = subprocess.run([exe], capture_output=True, text=True).stdout
        for line in o.splitlines():
            p = line.split("|")
            if p[0] == "S":
                out.append(("sizeof(%s)" % p[1], int(p[2])))
            else:
                out.append(("offsetof(%s, %s)" % (p[1], p[2]), int(p[3])))
    for x in (c, exe):
        if os.path.exists(x):
            os.remove(x)
    if r.returncode != 0:
        raise RuntimeError("layout probe of %s does not compile: %s" % (h, r.stderr[-800:]))
    return out


def analyse_all(repo=None):
    return [analyse(h, repo) for h in header_list(repo)]


def lstr(s):
    return '"' + str(s).replace("\\", "\\\\").replace('"', '\\"') + '"'


def closure(hs):
    inc = {h["header"]: set(h["includes"]) for h in hs}
    changed = True
    while changed:
        changed = False
        for k in inc:
            for d in list(inc[k]):
                for dd in inc.get(d, ()):
                    if dd not in inc[k]:
                        inc[k].add(dd)
                        changed = True
    return inc


def intern_all(hs):
    allnames = set()
    allmeanings = set()
    for h in hs:
        for a, b in h["intro"]:
            allnames.add(a)
            allmeanings.add(b)
        allnames.update(h["macros"])
        allnames.update(h["uses"])
    names = {n: i for i, n in enumerate(sorted(allnames))}
    meanings = {m: i for i, m in enumerate(sorted(allmeanings))}
    deps = closure(hs)
    hid = {h["header"]: i for i, h in enumerate(hs)}
    out = []
    for h in hs:
        own = {a for a, _ in h["intro"]}
        out.append({"id": hid[h["header"]], "name": h["header"], "leaks": h.get("leaks", []),
                    "intro": sorted((names[a], meanings[b]) for a, b in h["intro"]),
                    "macros": sorted(names[a] for a in h["macros"]),
                    # tokens it uses but does not itself define
                    "uses": sorted(names[a] for a in h["uses"] if a not in own),
                    "deps": sorted(hid[d] for d in deps[h["header"]] if d in hid)})
    return out, names, meanings


def compat_py(a, b):
    """the same relation as Lean's `compat`, on the interned records (used to predict the
    compiler's verdict and to name the offending identifiers)"""
    da, db = dict(a["intro"]), dict(b["intro"])
    clash = [n for n, m in a["intro"] if n in db and db[n] != m]

    def rewrites(x, y):
        if x["id"] in y["deps"]:
            return []
        return sorted(set(x["macros"]) & set(y["uses"]))
    return clash, rewrites(a, b), rewrites(b, a)


def emit(hs, path):
    recs, names, meanings = intern_all(hs)
    L = ["/- REGENERATED by tools/headers.py from include/avtp/**/*.h — do not edit. -/", "import O1722.Model.Headers", "",
         "namespace O1722.Gen", "open O1722", ""]
    vs = []
    for r in recs:
        nm = "hdr_" + re.sub(r"\W", "_", r["name"])
        vs.append(nm)
        L.append("def %s : Hdr where" % nm)
        L.append("  id := %d" % r["id"])
        L.append("  name := %s" % lstr(r["name"]))
        L.append("  intro := [" + ", ".join("(%d, %d)" % x for x in r["intro"]) + "]")
        L.append("  macros := [" + ", ".join(str(x) for x in r["macros"]) + "]")
        L.append("  uses := [" + ", ".join(str(x) for x in r["uses"]) + "]")
        L.append("  deps := [" + ", ".join(str(x) for x in r["deps"]) + "]")
        L.append("  leaks := [" + ", ".join(lstr(x) for x in r["leaks"]) + "]")
        L.append("")
    L.append("def headers : List Hdr := [" + ", ".join(vs) + "]")
    L += ["", "end O1722.Gen", ""]
    txt = "\n".join(L)
    if not os.path.exists(path) or open(path).read() != txt:
        open(path, "w").write(txt)
    return recs, names, meanings


if __name__ == "__main__":
    hs = analyse_all()
    for h in hs:
        print(h["header"], len(h["intro"]), len(h["macros"]), len(h["uses"]), h["includes"])
