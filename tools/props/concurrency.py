"""C16 — re-entrancy: no shared mutable state.

Proof: Props/Concurrency.lean (schedule_independent for every interleaving of any number of
threads, local_comm, shared_region_stable, setter_local) + regenerated obligation that no
object with static storage duration in src/avtp/** is writable.
Tie: translator (all VarDecls with static storage, function-local ones included) cross-checked
against the symbol table of a shared object built from the current tree (`nm`: no symbol in
.data/.bss); thorough: 8-thread stress of real calls under ThreadSanitizer compared with the
sequential runs."""
import glob
import os
import subprocess
import pipeline
import common

TOOLCHAIN_SYMS = {"__bss_start", "_edata", "_end", "__data_start", "__dso_handle", "__TMC_END__", "completed.0", "data_start",
                  "_GLOBAL_OFFSET_TABLE_", "_DYNAMIC"}


def writable_symbols():
    """compile every library source of the current tree to an object file and list the
    symbols the compiler placed in writable sections (.data / .bss / common)"""
    out = os.path.join(common.BUILD, "c16")
    os.makedirs(out, exist_ok=True)
    bad, total = [], 0
    for src in common.repo_sources():
        obj = os.path.join(out, os.path.basename(src) + ".o")
        r = common.run(["gcc", "-c", "-fPIC", "-O2", "-w", "-I", os.path.join(common.REPO, "include"), src, "-o", obj])
        if r.returncode != 0:
            raise common.ToolError("library does not build: " + r.stderr[-1500:])
        for line in common.run(["nm", "--defined-only", obj]).stdout.splitlines():
            parts = line.split()
            total += 1
            if len(parts) == 3 and parts[1] in "DdBbCc":
                bad.append(os.path.basename(src) + ":" + parts[2] + ":" + parts[1])
    return bad, total


def tsan_run(seed, thorough):
    import harness_gen
    hdir = os.path.join(common.BUILD, "harness")
    spec, gen_files = harness_gen.generate(hdir)
    exe = os.path.join(common.BUILD, "c16", "threads_tsan")
    srcs = common.repo_sources() + gen_files + [os.path.join(common.VERIF, "harness", "threads_main.c")]
    r = common.run(["clang", "-O1", "-g", "-fsanitize=thread", "-w", "-I", os.path.join(common.REPO, "include"),
                    "-I", os.path.join(common.VERIF, "harness")] + srcs + ["-o", exe, "-lpthread"])
    if r.returncode != 0:
        raise common.ToolError("TSan harness does not build: " + r.stderr[-1500:])
    env = dict(os.environ, TSAN_OPTIONS="halt_on_error=1:exitcode=97")
    p = subprocess.run([exe, "8", "40000" if thorough else "4000", str(seed)], capture_output=True, text=True, env=env, timeout=900)
    return p.returncode, p.stdout, p.stderr


def check(rep, prop, tier, seed):
    thorough = tier == "thorough"
    spec = pipeline.spec_names()
    names = [(f, pipeline.lname(f["file"])) for f in spec["formats"]]
    obligations = [("no_writable_statics_%s" % n, "checkC16 Gen.%s = true" % n, "by decide") for f, n in names]
    obligations.append(("no_writable_statics_Utils", "Gen.utilsStatics.all (fun x => x.2.2) = true", "by decide"))
    obligations += [("readers_store_only_results_%s" % n, "checkReaders Gen.%s = true" % n, "by decide") for f, n in names if n in ("can", "canBrief", "vss", "vssBrief")]
    obligations += [("rows_%s" % n, "checkRows Spec.%s Gen.%s = true" % (n, n), "by decide +kernel") for f, n in names]
    # code level: the C subset of CSem has no way to name an object with static storage other than a constant
    # descriptor table (tools/cir.py puts a function that mentions any other global, or declares a local
    # static, OUTSIDE the subset, with the reason) — so "inside the subset" implies "touches no shared mutable
    # object".  The obligation: the functions outside are exactly the VSS value codec known to be outside for
    # other reasons (structs with pointer members), none of them for a reference to a static object.
    obligations.append(("c_text_outside_the_subset_is_the_known_list",
                        "Gen.Cir.outside.map (fun x => x.2.1) = [\"Avtp_Vss_GetVssPath\", \"Avtp_Vss_GetVSSDataStringArrayLength\", "
                        "\"Avtp_Vss_DeserializeStringArray\", \"Avtp_Vss_GetVssData\", \"Avtp_Vss_SetVssPath\", \"Avtp_Vss_SetVssData\", "
                        "\"Avtp_Vss_SerializeStringArray\"]", "by decide"))
    general = ["O1722.schedule_independent", "O1722.local_comm", "O1722.shared_region_stable", "O1722.setter_local",
               "O1722.specSet_local", "O1722.getField_depends_only_on_field", "O1722.getter_accesses", "O1722.setter_accesses"]
    atoms_expr = "[" + ", ".join("(\"%s\", Gen.%s.statics.map (fun x => (\"static-is-const:\" ++ x.1, x.2.2)))" % (f["name"], n) for f, n in names) + \
        ", (\"Utils\", Gen.utilsStatics.map (fun x => (\"static-is-const:\" ++ x.1, x.2.2))), (\"Vss\", [(\"readers-store-only-results\", checkReaders Gen.vss)]), (\"Can\", [(\"readers-store-only-results\", checkReaders Gen.can)])]"
    res = pipeline.proof_stage(rep, prop, ["O1722.Gen.Data", "O1722.Gen.Cir", "O1722.Props.Concurrency"], obligations, general, atoms_expr)
    diff_groups = {}
    bad, nsyms = writable_symbols()
    for b in bad:
        rep.violation("writable-static:" + b, {"kind": "writable-object-with-static-storage", "symbol": b,
                                                 "how": "gcc -shared -fPIC src/avtp/**/*.c; nm --defined-only: symbol in .data/.bss/common"})
        diff_groups["*"] = [0]
    rc, out, err = tsan_run(seed, thorough)
    if rc != 0:
        rep.violation("tsan:" + ("race" if "ThreadSanitizer" in err else "results-differ"),
                      {"kind": "thread-stress-failed", "stdout": out[-800:], "stderr": err[-2500:],
                       "how": "build/c16/threads_tsan 8 <ops> %d" % seed})
        diff_groups["*"] = [0]
    if diff_groups:
        res["failed_atoms"] = [x for x in res["failed_atoms"]]   # concrete evidence exists
        for g in {a for a, _ in res["failed_atoms"]}:
            diff_groups[g] = [0]
    pipeline.report_proof_failures(rep, prop, res, diff_groups)
    nst = sum(len(f["statics"]) for f in res["gen"]["files"]) + len(res["gen"]["utils"]["statics"])
    rep.cov.update(evaluations=nsyms + (8 * (40000 if thorough else 4000)), distinct_nontrivial=nst + 8,
                   rule="every object with static storage duration found by the translator (%d, all must be const) cross-checked with the %d defined symbols "
                        "of a shared object built from the tree (none may live in .data/.bss); 8 threads x real get/set/init histories on private buffers "
                        "plus shared read-only PDU, then PDUs of different threads packed back to back at exactly their header length, then all threads encoding the same read-only VSS source arrays, under ThreadSanitizer, each compared with the sequential result" % (nst, nsyms),
                   statics=nst, failed_atoms=["%s:%s" % x for x in res["failed_atoms"]])
    rep.cov["samples"] = [{"static": res["gen"]["files"][0]["statics"][:1]}, {"tsan": out.strip()[-120:]},
                          {"theorem": "schedule_independent: ∀ schedules zs, ∀ thread t, region R t after runSched zs = after t's own steps alone"}]
    rep.assumptions += ["a data-race-free execution is equivalent to some interleaving at call granularity (C11 DRF-SC): assumed, not modelled",
                        "TSan observes the executions it is given; it proves nothing"]
