"""C15 — results do not depend on where the PDU lies in memory.

Proof: Props/Alignment.lean (utils_never_fault: the Model of Utils.c makes only byte-granular
accesses; getField_placement / setField_placement: translation invariance; the witness that a
typed quadlet access faults at an odd address) + regenerated obligation that no function of
src/avtp/** dereferences a wider-than-byte lvalue cast from a byte-aligned pointer.
Tie: the access sites come from clang's AST; correspondence: the operations of C01-C10 at
base offsets 0..7 from a 16-byte boundary under UBSan -fsanitize=alignment + ASan, compared
with the (placement-free) Spec/Model; thorough: gcc and clang at -O0..-O3."""
import pipeline
import common
from common import hexs
from props import fields as F
from props import vss as V


def cases(spec, rng, thorough):
    cs = common.Cases()
    # field accessors of every format at every offset 0..7
    for f in spec["formats"]:
        H = f["headerLen"]
        idxs = list(range(len(f["fields"])))
        if not thorough:
            idxs = sorted(set([0, len(idxs) - 1] + rng.sample(idxs, min(3, len(idxs)))))
        for off in range(8):
            for i in idxs:
                fld = f["fields"][i]
                p = rng.choice(F.paths_for(f, fld, setter=True))
                if p in ("l", "a") and f["legacy"]["valBits"] < fld["width"]:
                    p = "g"
                v = rng.getrandbits(64) % (1 << (32 if (p in ("l", "a") and f["legacy"]["valBits"] == 32) else 64))
                bg = bytes(rng.getrandbits(8) for _ in range(off + H))
                gp = p if (p == "g" or fld["getter"] or p in ("l", "a")) else "g"
                cs.add(["buf a " + hexs(bg), "get a %d %s %d %s" % (off, f["name"], i, gp), "set a %d %s %d %s %d" % (off, f["name"], i, p, v), "dump a"],
                       {"what": "field", "fmt": f["name"], "off": off})
            for p, fn in (("c", f["initFn"]),):
                if fn:
                    bg = bytes(rng.getrandbits(8) for _ in range(off + H))
                    cs.add(["buf a " + hexs(bg), "init a %d %s c" % (off, f["name"]), "dump a"], {"what": "init", "fmt": f["name"], "off": off})
    # CAN builders
    for fmt, H in (("Can", 16), ("CanBrief", 8)):
        for off in range(8):
            for n in (0, 3, 8, 13):
                pad = (4 - n % 4) % 4
                bg = bytes(rng.getrandbits(8) for _ in range(off + H + n + pad))
                pl = bytes(rng.getrandbits(8) for _ in range(n))
                ops = ["buf a " + hexs(bg), "can_create a %d %s %d %d %s" % (off, fmt, rng.getrandbits(29), rng.choice([0, 1]), hexs(pl)), "dump a"]
                if fmt == "Can":
                    ops.append("can_len a %d" % off)
                cs.add(ops, {"what": "can", "fmt": fmt, "off": off})
    # VSS codec: every datatype class, paths of odd length so that the value is misaligned too
    codes = [2, 4, 6, 9, 0xA, 0xB, 0x82, 0x84, 0x86, 0x89, 0x8A, 0x8B]
    for off in range(8):
        for code in codes if thorough else rng.sample(codes, 6):
            mode = rng.choice([0, 1])
            p = ("sid", rng.getrandbits(32)) if mode == 1 else ("path", bytes(rng.getrandbits(8) for _ in range(rng.choice([1, 3, 4, 5]))))
            v = V.gen_value(rng, code, False)
            ep, ev = V.enc_path(p), V.enc_value(code, v)
            bg = bytearray(rng.getrandbits(8) for _ in range(off + 12 + len(ep) + len(ev)))
            bg[off:off + 12] = V.vss_header(rng, mode, code)
            pl = "vss_setpath a %d %d %s %d" % ((off, len(p[1]), hexs(p[1]), 0) if p[0] == "path" else (off, 0, "-", p[1]))
            cs.add(["buf a " + hexs(bg), pl, V.setdata_line(off, v), "dump a", "vss_calc a %d" % off, "vss_getpath a %d" % off,
                    "vss_getdata a %d 0" % off, "vss_getdata a %d 1" % off],
                   {"what": "vss", "fmt": "Vss:%x" % code, "off": off})
        ln = rng.randrange(13, 80)
        padn = (4 - ln % 4) % 4
        bg = bytes(rng.getrandbits(8) for _ in range(off + ln + padn))
        cs.add(["buf a " + hexs(bg), "vss_pad a %d %d" % (off, ln), "dump a"], {"what": "vss-pad", "fmt": "Vss", "off": off})
    return cs


def check(rep, prop, tier, seed):
    rng = common.rng_for(prop, seed)
    thorough = tier == "thorough"
    spec = pipeline.spec_names()
    names = [(f, pipeline.lname(f["file"])) for f in spec["formats"]]
    obligations = [("no_typed_access_from_bytes_%s" % n, "checkC15 Gen.%s = true" % n, "by decide") for f, n in names]
    obligations.append(("no_typed_access_from_bytes_Utils", "Gen.utilsTypedSites = []", "by decide"))
    general = ["O1722.utils_never_fault", "O1722.no_fault_of_bytewise", "O1722.typed_access_faults_at_odd_address",
               "O1722.getField_placement", "O1722.setField_placement", "O1722.getLoop_bytewise", "O1722.setLoop_bytewise"]
    atoms_expr = "[" + ", ".join("(\"%s\", Gen.%s.typedSites.map (fun x => (\"typed-access-from-byte-pointer:\" ++ x.1 ++ \":\" ++ x.2.1, false)))" % (f["name"], n) for f, n in names) + \
        ", (\"Utils\", Gen.utilsTypedSites.map (fun x => (\"typed-access-from-byte-pointer:\" ++ x.1 ++ \":\" ++ x.2.1, false)))]"
    res = pipeline.proof_stage(rep, prop, ["O1722.Gen.Data", "O1722.Props.Alignment"], obligations, general, atoms_expr)
    flavors = ["ubalign"] + (["gcc-O0", "gcc-O1", "gcc-O2", "gcc-O3", "clang-O0", "clang-O2", "clang-O3", "gcc-O3-ubalign"] if thorough else ["gcc-O3"])
    cs = cases(spec, rng, thorough)
    diff_groups = {}
    seen = set()
    total = 0
    for fl in flavors:
        spec, exe = common.build_harness(fl)
        bad = common.differential(exe, cs)
        total += len(cs.cases)
        for i, kind, c_lines, l_lines, err in bad:
            t = cs.tags[i]
            site = ""
            import re
            m = re.search(r"(\S+\.c:\d+):\d+: runtime error: ([^\n]*)", err)
            if m:
                site = m.group(1).split("/")[-1]
            key = ("site:" + site) if site else "%s:%s:offset%%4=%d" % (t["what"], t["fmt"].split(":")[0], t["off"] % 4)
            if key in seen:
                continue
            seen.add(key)
            rep.violation(key, {"kind": "misaligned-access" if "misaligned" in err else ("sanitizer-abort" if kind == "crash" else "result-depends-on-placement"),
                                "build": fl, "case": t, "ops": [o[:300] for o in cs.cases[i]], "observed_real_code": [x[:300] for x in c_lines],
                                "expected": [x[:300] for x in l_lines], "stderr": (m.group(0) if m else err[-600:])})
            g = t["fmt"].split(":")[0]
            diff_groups.setdefault(g, []).append(i)
            if "Utils.c" in site:
                diff_groups.setdefault("Utils", []).append(i)
    pipeline.report_proof_failures(rep, prop, res, diff_groups)
    cells = {(t["what"], t["fmt"], t["off"]) for t in cs.tags}
    rep.cov.update(evaluations=total, distinct_nontrivial=len(cells), builds=flavors,
                   rule="operations of C01-C10 (field get/set/init of every format, CAN builders, VSS path/value codec for every datatype class, VSS pad) "
                        "with the PDU at byte offsets 0..7 from a 16-byte-aligned heap block, under UBSan -fsanitize=alignment + ASan and at the listed "
                        "compilers/optimisation levels; results compared with the placement-free Spec/Model; distinct = (operation kind, format/datatype, offset)",
                   typed_sites=sum(len(f.get("typed_sites", [])) for f in res["gen"]["files"]) + len(res["gen"]["utils"].get("typed_sites", [])),
                   failed_atoms=["%s:%s" % x for x in res["failed_atoms"]][:40])
    rep.cov["samples"] = [{"ops": cs.cases[3], "tag": cs.tags[3]}, {"theorem": "utils_never_fault, getField_placement, setField_placement"}]
    rep.assumptions += ["'every optimisation level': absence of alignment-dependent undefined behaviour is proved in the model's sense and the site "
                        "obligation is read from the AST; what a compiler does is observed at the listed levels, not proved",
                        "effective-type (strict aliasing) rules are not modelled"]
