"""C11 (invalid arguments), C12 (legacy = current), C17 (overlapping views).

Proof: Props/Api.lean (C11_format, legacyGet_eq_current, legacySet_eq_current, C17_views,
Spec.shared_views_agree) + regenerated obligations.
Tie: translator (narrowing casts at the call into Utils.c, guards and forward targets of the
wrappers, alias macro values, struct sizes) + differential runs of the real entry points."""
import pipeline
import common
from common import hexs
from props import fields as F


def c11_cases(spec, rng, thorough):
    cs = common.Cases()
    for f in spec["formats"]:
        H = f["headerLen"]
        n = len(f["fields"])
        leg = f.get("legacy")
        # out-of-enumeration identifiers: one past the end, aliases of valid ids modulo 2^8 / 2^16, large ones
        ids = [n, n + 1, 255, 256, 257, 256 + n - 1, 512, (1 << 16), (1 << 16) + 1, (1 << 31), (1 << 31) + 1, (1 << 32) - 1]
        ids += [256 * rng.randrange(1, 1 << 20) + rng.randrange(0, n) for _ in range(6 if thorough else 2)]
        ids = sorted({i for i in ids if i >= n})
        bg = bytes(rng.getrandbits(8) for _ in range(H))
        for fid in ids:
            v = rng.getrandbits(64)
            for path in (["g", "l"] if leg else ["g"]):
                vv = v % (1 << 32) if (leg and leg["valBits"] == 32 and path == "l") else v
                cs.add(["buf a " + hexs(bg), "getid a 0 %s %d %s 0" % (f["name"], fid, path), "dump a",
                        "setid a 0 %s %d %s %d" % (f["name"], fid, path, vv), "dump a"],
                       {"fmt": f["name"], "what": "id-out-of-range", "path": path, "id": fid})
        # NULL pdu through every entry point; NULL result pointer for the legacy reader
        for i, fld in enumerate(f["fields"]):
            for p in F.paths_for(f, fld):
                ops = ["get NULL 0 %s %d %s" % (f["name"], i, p)]
                if p == "g" or fld["setter"] or p in ("l", "a"):
                    ops.append("set NULL 0 %s %d %s %d" % (f["name"], i, p, rng.getrandbits(32)))
                cs.add(ops, {"fmt": f["name"], "what": "null-pdu", "path": p, "id": i})
        cs.add(["getid NULL 0 %s 0 g 0" % f["name"], "setid NULL 0 %s 0 g 5" % f["name"]],
               {"fmt": f["name"], "what": "null-pdu", "path": "g", "id": 0})
        if leg:
            cs.add(["buf a " + hexs(bg), "getid a 0 %s 0 l 1" % f["name"], "dump a", "getid NULL 0 %s 0 l 0" % f["name"],
                    "setid NULL 0 %s 0 l 5" % f["name"]],
                   {"fmt": f["name"], "what": "null-result", "path": "l", "id": 0})
        for p, fn in (("c", f["initFn"]), ("l", (leg or {}).get("initFn"))):
            if fn:
                arg = " 3" if (p == "l" and leg["initArg"]) else ""
                cs.add(["init NULL 0 %s %s%s" % (f["name"], p, arg)], {"fmt": f["name"], "what": "null-init", "path": p, "id": 0})
    return cs


def c12_cases(spec, rng, thorough):
    """paired legacy/current calls on identical buffers: both must match the Spec"""
    cs = common.Cases()
    for f in spec["formats"]:
        leg = f.get("legacy")
        if not leg:
            continue
        H = f["headerLen"]
        for i, fld in enumerate(f["fields"]):
            if leg["valBits"] < fld["width"]:
                continue
            paths = [p for p in F.paths_for(f, fld, setter=True) if p in ("l", "a")]
            for p in paths:
                for k in range(6 if thorough else 2):
                    bg = bytes(rng.getrandbits(8) for _ in range(H + 2))
                    v = rng.getrandbits(leg["valBits"])
                    cs.add(["buf a " + hexs(bg), "buf b " + hexs(bg),
                            "get a 1 %s %d %s" % (f["name"], i, p), "get b 1 %s %d g" % (f["name"], i),
                            "set a 1 %s %d %s %d" % (f["name"], i, p, v), "set b 1 %s %d g %d" % (f["name"], i, v),
                            "dump a", "dump b"],
                           {"fmt": f["name"], "what": fld["enum"], "path": p})
        if leg["initFn"]:
            for k in range(6 if thorough else 2):
                bg = bytes(rng.getrandbits(8) for _ in range(H + 2))
                arg = rng.randrange(256)
                if leg["initArg"]:
                    idx = [j for j, x in enumerate(f["fields"]) if x["enum"].endswith("_" + leg["initArg"])][0]
                    cs.add(["buf a " + hexs(bg), "buf b " + hexs(bg), "init a 1 %s l %d" % (f["name"], arg),
                            "init b 1 %s c" % f["name"], "set b 1 %s %d g %d" % (f["name"], idx, arg), "dump a", "dump b"],
                           {"fmt": f["name"], "what": "init", "path": "l"})
                else:
                    cs.add(["buf a " + hexs(bg), "buf b " + hexs(bg), "init a 1 %s l" % f["name"],
                            "init b 1 %s c" % f["name"], "dump a", "dump b"],
                           {"fmt": f["name"], "what": "init", "path": "l"})
    return cs


def views(spec):
    """shared views as (fmtA, fmtB, [(idxA, idxB)]) — taken from the Lean Spec via its dump"""
    import json
    import subprocess
    out = subprocess.run([common.DRIVER, "views"], capture_output=True, text=True, check=True).stdout
    return json.loads(out)["views"]


def c17_cases(spec, rng, thorough):
    cs = common.Cases()
    fm = {f["name"]: f for f in spec["formats"]}
    for v in views(spec):
        fa, fb = fm[v["a"]], fm[v["b"]]
        H = max(fa["headerLen"], fb["headerLen"])
        for ia, ib in v["pairs"]:
            w = fa["fields"][ia]["width"]
            for k in range(5 if thorough else 2):
                bg = bytes(rng.getrandbits(8) for _ in range(H))
                val = rng.getrandbits(64) if k else (1 << w) - 1
                cs.add(["buf a " + hexs(bg),
                        "get a 0 %s %d g" % (fa["name"], ia), "get a 0 %s %d g" % (fb["name"], ib),
                        "set a 0 %s %d g %d" % (fa["name"], ia, val), "get a 0 %s %d g" % (fb["name"], ib), "dump a",
                        "set a 0 %s %d g %d" % (fb["name"], ib, val ^ 0x5555555555555555), "get a 0 %s %d g" % (fa["name"], ia), "dump a"],
                       {"fmt": fa["name"] + "~" + fb["name"], "what": fa["fields"][ia]["enum"], "path": "g"})
    return cs


def combined_alias_check(rep, spec, diff_groups):
    """C12: a legacy field name must designate the current field ALSO when another public header is
    in the same translation unit (seed C12-7: an `#undef` / include-guarded alias block makes a legacy
    name fall back to a sibling header's enumerator of the same name).  For every legacy format header
    H and every other public header X, in both orders: the TU is compiled and run with the repo's own
    compiler; where it compiles, every alias must equal its target.  (A pair that does not compile is
    C20's subject.)"""
    import glob
    import os
    import subprocess
    import tempfile
    import harness_gen
    from concurrent.futures import ThreadPoolExecutor
    inc = os.path.join(common.REPO, "include")
    headers = sorted(os.path.relpath(h, inc) for h in glob.glob(os.path.join(inc, "avtp", "**", "*.h"), recursive=True))
    jobs = []
    for f in spec["formats"]:
        leg = f.get("legacy")
        if not leg or not leg["aliases"]:
            continue
        H = harness_gen.HEADER_OF[f["name"]]
        for X in headers:
            if X == H:
                continue
            for order in ((X, H), (H, X)):
                jobs.append((f["name"], H, order, leg["aliases"]))
    td = tempfile.mkdtemp(prefix="c12pairs_", dir=common.BUILD)

    def one(k):
        name, H, order, aliases = jobs[k]
        src = ['#include <stdio.h>'] + ['#include "%s"' % h for h in order] + ["int main(void){"]
        for a, t in aliases:
            src.append('printf("%s %%lld %%lld\\n", (long long)(%s), (long long)(%s));' % (a, a, t))
        src.append("return 0;}")
        cfile = os.path.join(td, "p%d.c" % k)
        open(cfile, "w").write("\n".join(src) + "\n")
        exe = os.path.join(td, "p%d" % k)
        r = subprocess.run(["gcc", "-w", "-std=gnu99", "-I", inc, cfile, "-o", exe], capture_output=True, text=True)
        if r.returncode != 0:
            return k, None
        out = subprocess.run([exe], capture_output=True, text=True).stdout
        return k, [l.split() for l in out.splitlines()]
    with ThreadPoolExecutor(max_workers=16) as ex:
        results = list(ex.map(one, range(len(jobs))))
    import shutil
    shutil.rmtree(td, ignore_errors=True)
    n_tu = n_bad = 0
    for k, rows in results:
        if rows is None:
            continue
        n_tu += 1
        name, H, order, aliases = jobs[k]
        for a, va, vt in rows:
            if va != vt:
                n_bad += 1
                other = order[0] if order[1] == H else order[1]
                rep.violation("%s:legacy-name-changes-meaning-when-combined:%s" % (name, a),
                              {"kind": "legacy-name-designates-another-field-in-a-combined-translation-unit", "legacy_name": a,
                               "includes_in_order": list(order), "value_of_legacy_name": int(va), "value_of_current_name": int(vt),
                               "how": "gcc -I /repo/include on a TU with these two includes printing both names", "other_header": other})
                diff_groups.setdefault(name, []).append(0)
    rep.cov["combined_tu_alias_check"] = {"translation_units_compiled": n_tu, "of": len(jobs), "names_that_differ": n_bad}


def check(rep, prop, tier, seed):
    rng = common.rng_for(prop, seed)
    thorough = tier == "thorough"
    spec = pipeline.spec_names()
    names = [(f, pipeline.lname(f["file"])) for f in spec["formats"]]
    obligations, general, atoms_expr = [], [], None
    if prop == "C11":
        obligations = [("check_%s" % n, "checkC11 Spec.%s Gen.%s = true" % (n, n), "by decide +kernel") for f, n in names]
        general = ["O1722.C11_format", "O1722.getter_out_of_range", "O1722.setter_out_of_range",
                   "O1722.getter_null", "O1722.setter_null", "O1722.getFieldLog_rejected", "O1722.setFieldLog_rejected"]
        atoms_expr = "[" + ", ".join("(\"%s\", atomsC11 Spec.%s Gen.%s)" % (f["name"], n, n) for f, n in names) + "]"
    elif prop == "C12":
        for f, n in names:
            obligations.append(("check_%s" % n, "checkC12 Spec.%s Gen.%s = true" % (n, n), "by decide +kernel"))
            if f.get("legacy"):
                for c in ("checkC01", "checkC02", "checkC04", "checkC11"):
                    obligations.append(("%s_%s" % (c, n), "%s Spec.%s Gen.%s = true" % (c, n, n), "by decide +kernel"))
        general = ["O1722.legacyGet_eq_current", "O1722.legacySet_eq_current", "O1722.C04_format"]
        atoms_expr = "[" + ", ".join("(\"%s\", atomsC12 Spec.%s Gen.%s)" % (f["name"], n, n) for f, n in names) + "]"
    else:
        for f, n in names:
            obligations.append(("checkC01_%s" % n, "checkC01 Spec.%s Gen.%s = true" % (n, n), "by decide +kernel"))
            obligations.append(("checkC02_%s" % n, "checkC02 Spec.%s Gen.%s = true" % (n, n), "by decide +kernel"))
        obligations.append(("views_on_same_bits", "Spec.sharedViews.all checkView = true", "by decide +kernel"))
        general = ["O1722.C17_views", "O1722.Spec.shared_views_agree"]
        atoms_expr = "[" + ", ".join("(\"%s\", (atomsC01 Spec.%s Gen.%s) ++ (atomsC02 Spec.%s Gen.%s))" % (f["name"], n, n, n, n) for f, n in names) + "]"
    res = pipeline.proof_stage(rep, prop, ["O1722.Gen.Data", "O1722.Props.Api"], obligations, general, atoms_expr)
    spec, exe = common.build_harness("asan")
    cs = {"C11": c11_cases, "C12": c12_cases, "C17": c17_cases}[prop](spec, rng, thorough)
    what = {"C11": "invalid arguments (NULL PDU / NULL result / identifier outside the enumeration) through the real entry points: value 0 or -EINVAL and memory unchanged",
            "C12": "legacy and current entry points on identical buffers vs the Spec",
            "C17": "the same buffer read/written through two header views"}[prop]
    keyf = (lambda t: "%s:%s:%s" % (t["fmt"], t["what"], {"g": "generic", "d": "dedicated", "l": "legacy", "a": "legacy-alias", "c": "current"}[t["path"]]))
    bad = F.run_differential(rep, prop, spec, exe, cs, keyf, what)
    diff_groups = {}
    for i, *_ in bad:
        for part in cs.tags[i]["fmt"].split("~"):
            diff_groups.setdefault(part, []).append(i)
    if prop == "C12":
        combined_alias_check(rep, spec, diff_groups)
        F.c_text_accessors(rep, prop, spec, exe, rng)
    pipeline.report_proof_failures(rep, prop, res, diff_groups)
    cells = {(t["fmt"], t["what"], t["path"]) for t in cs.tags}
    rep.cov.update(evaluations=len(cs.cases), distinct_nontrivial=len(cells),
                   rule={"C11": "per format: identifiers {MAX, MAX+1, 255, 256, 257, 256+k, 2^16(+1), 2^31(+1), 2^32-1, random 256*j+valid} x {generic, legacy} x get/set with memory snapshots; NULL PDU through every named accessor, initialiser and raw entry point; NULL result pointer; distinct by (format, class, path)",
                         "C12": "per legacy format: every field x {legacy, legacy alias name} paired with the current generic call on a copy of the same random buffer (read, write, dump), and legacy vs current initialiser; distinct by (format, field, path)",
                         "C17": "per shared view and shared field: read through both views, write through one / read through the other, both directions, on random buffers; distinct by (view pair, field)"}[prop],
                   failed_atoms=["%s:%s" % x for x in res["failed_atoms"]])
    rep.cov["samples"] = [{"ops": cs.cases[k], "tag": cs.tags[k]} for k in (0, len(cs.cases) // 2, len(cs.cases) - 1)] + \
        [{"obligation": "theorem %s : %s := %s" % obligations[0]}]
    rep.assumptions += ["enum types are unsigned int on this ABI (probe fact `unsigned:<enum type>` is an obligation)"]
