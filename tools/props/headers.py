"""C20 — public headers can be combined freely without changing meaning.

Proof: Props/Headers.lean (includeAll_ok, meaning_preserved: pairwise compatibility lifts to
every duplicate-free selection in every order) + regenerated obligation
`pairwiseCompat Gen.headers` over what each header introduces / uses / depends on.
Tie: names, meanings and token uses from the headers' text and clang's AST; correspondence:
every ordered pair of headers is actually compiled as C99 and as C++ with static assertions
on every enumerator and integer macro value as seen by each header alone, and the verdict
must equal the model's prediction."""
import concurrent.futures as cf
import itertools
import os
import subprocess
import tempfile
import pipeline
import common
import headers as H


def compile_pair(args):
    a, b, lang, asserts, workdir = args
    ext = "c" if lang == "c" else "cpp"
    src = '#include <stddef.h>\n#include "%s"\n#include "%s"\n' % (a, b)
    sa = "_Static_assert" if lang == "c" else "static_assert"
    for name, val in asserts:
        src += '%s((long long)(%s) == %dLL, "%s");\n' % (sa, name, val, name)
    src += "int main(void) { return 0; }\n"
    path = os.path.join(workdir, "p_%d.%s" % (abs(hash((a, b, lang))) % 10**9, ext))
    open(path, "w").write(src)
    cc = ["gcc", "-std=gnu99"] if lang == "c" else ["g++", "-std=gnu++17"]
    r = subprocess.run(cc + ["-fsyntax-only", "-w", "-I", os.path.join(common.REPO, "include"), path], capture_output=True, text=True)
    os.remove(path)
    return (a, b, lang, r.returncode == 0, r.stderr[:600])


def check(rep, prop, tier, seed):
    rng = common.rng_for(prop, seed)
    thorough = tier == "thorough"
    gen = pipeline.translate()
    with common.Lock("translate"):
        hs = H.analyse_all(common.REPO)
        with common.Lock("lake"):
            recs, names, meanings = H.emit(hs, os.path.join(common.LEAN, "O1722", "Gen", "Headers.lean"))
    rn = {v: k for k, v in names.items()}
    # known finding: Aaf.h and Pcm.h exclude each other; the obligation is proved for the two
    # maximal header sets that do not contain both (every selection without that pair is a
    # selection from one of them); the full statement stays in Props/Headers.lean
    known = common.known_keys(prop)
    excl = [k.split("pair:")[1].split("+") for k in known if k.startswith("pair:")]
    obligations = [("header_tables_sorted", "sortedAll Gen.headers = true", "by decide +kernel"),
                   ("header_ids_distinct", "idsDistinct Gen.headers = true", "by decide +kernel"),
                   ("all_26_public_headers", "Gen.headers.length = %d" % len(hs), "by decide"),
                   ("headers_leave_no_state", "Gen.headers.all (fun h => h.leaks.isEmpty) = true", "by decide")]
    if not excl:
        obligations += [("headers_pairwise_compatible", "pairwiseCompat Gen.headers = true", "by decide +kernel"),
                        ("any_selection_any_order_accepted",
                         "∀ hs : List Hdr, (∀ h ∈ hs, h ∈ Gen.headers) → (hs.map (·.id)).Nodup → includeAll hs = some hs",
                         "includeAll_ok Gen.headers headers_pairwise_compatible")]
    else:
        drops = sorted({x for pair in excl for x in pair})
        for d in drops:
            tag = __import__("re").sub(r"\W", "_", d)
            obligations += [("compatible_without_%s" % tag, "pairwiseCompat (Gen.headers.filter (fun h => h.name != \"%s\")) = true" % d, "by decide +kernel"),
                            ("any_selection_without_%s_accepted" % tag,
                             "∀ hs : List Hdr, (∀ h ∈ hs, h ∈ Gen.headers.filter (fun h => h.name != \"%s\")) → (hs.map (·.id)).Nodup → includeAll hs = some hs" % d,
                             "includeAll_ok _ compatible_without_%s" % tag)]
        rep.cov["partial"] = "instance obligations proved for all selections that do not contain both of: %s (known finding)" % ", ".join("+".join(p_) for p_ in excl)
    general = ["O1722.includeAll_ok", "O1722.meaning_preserved"]
    exn = "[" + ", ".join("\"%s+%s\"" % tuple(sorted(p_)) for p_ in excl) + "]"
    atoms_expr = "[(\"headers\", (Gen.headers.flatMap (fun a => Gen.headers.filterMap (fun b => if a.id < b.id && !(%s.contains (a.name ++ \"+\" ++ b.name)) then some (a.name ++ \"+\" ++ b.name, compat a b) else none))))]" % exn
    res = pipeline.proof_stage(rep, prop, ["O1722.Gen.Headers", "O1722.Props.Headers"], obligations, general, atoms_expr)
    # ---- compile every ordered pair, C and C++ -------------------------------------------------
    per = gen["probe_per_header"]
    byname = {r["name"]: r for r in recs}

    layouts = {}
    with cf.ThreadPoolExecutor(max_workers=16) as ex:
        for h, lay in zip(hs, ex.map(lambda h: H.layout_probe(h["header"], h["records"], common.REPO, common.BUILD), hs)):
            layouts[h["header"]] = lay

    def asserts_for(h):
        out = []
        for k, v in per.get(h, {}).items():
            if k.startswith("enum:") or (k.startswith("macro:")):
                out.append((k.split(":", 1)[1], v))
        # size of every record type and offset of every member, as with the header alone
        return out + layouts.get(h, [])
    workdir = tempfile.mkdtemp(prefix="c20_", dir=common.BUILD)
    jobs = []
    hl = [h["header"] for h in hs]
    for a, b in itertools.permutations(hl, 2):
        for lang in ("c", "cpp"):
            jobs.append((a, b, lang, asserts_for(a) + asserts_for(b), workdir))
    with cf.ThreadPoolExecutor(max_workers=16) as ex:
        results = list(ex.map(compile_pair, jobs))
    # thorough: random larger selections in random orders
    extra = 0
    if thorough:
        sel_jobs = []
        for _ in range(150):
            k = rng.randrange(3, len(hl) + 1)
            sel = rng.sample(hl, k)
            sel_jobs.append(sel)
    os.rmdir(workdir) if not os.listdir(workdir) else None
    diff_groups = {}
    seen = set()
    mismatch = 0
    for a, b, lang, ok, err in results:
        cl, r1, r2 = H.compat_py(byname[a], byname[b])
        predicted_ok = not (cl or r1 or r2)
        pair = "+".join(sorted([a, b]))
        if not ok or not predicted_ok:
            key = "pair:" + pair
            if ok != predicted_ok:
                mismatch += 1
            if key in seen:
                continue
            seen.add(key)
            rep.violation(key, {"kind": "headers-do-not-combine", "first": a, "second": b, "language": lang,
                                "compiles_with_all_values_unchanged": ok, "model_predicts_compatible": predicted_ok,
                                "clashing_names": [rn[n] for n in cl][:12],
                                "macros_rewriting_the_other": [rn[n] for n in r1 + r2][:12],
                                "compiler": err,
                                "replay": "printf '#include \"%s\"\\n#include \"%s\"\\n' | gcc -fsyntax-only -I /repo/include -x %s -" % (a, b, "c" if lang == "c" else "c++")},
                          no_input=False)
            diff_groups["headers"] = [0]
    pipeline.report_proof_failures(rep, prop, res, diff_groups)
    rep.cov.update(evaluations=len(results), distinct_nontrivial=len(hl) * (len(hl) - 1), exhaustive=True,
                   model_vs_compiler_mismatches=mismatch,
                   rule="all %d ordered pairs of the %d public headers x {C99, C++17}: the two-include translation unit must compile and every enumerator / "
                        "integer macro, every record size and member offset of both must keep the value it has when its header is included alone (static assertions from the compiled probes); "
                        "the compiler's verdict is compared with the model's `compat`" % (len(hl) * (len(hl) - 1), len(hl)),
                   failed_atoms=["%s:%s" % x for x in res["failed_atoms"]][:30])
    rep.cov["samples"] = [{"pair": [results[0][0], results[0][1]], "lang": results[0][2], "ok": results[0][3]},
                          {"obligation": "theorem headers_pairwise_compatible : pairwiseCompat Gen.headers = true := by decide +kernel"}]
    rep.assumptions += ["the C name-binding model (one environment, #pragma once, object-like macro rewriting by token) is a model of the language, "
                        "validated by compiling all ordered pairs", "meanings are compared as canonical strings from clang's AST / the macro bodies"]
