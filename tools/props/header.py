"""C03 / C04 — header extent and initialisers.

Proof: Props/Header.lean (getter_accesses, setter_accesses, setter_frame, C03_format;
applyWrites_bit, applyWrites_eq_of_sameEffect, canonical_frame/indep/idem, stepWrite_sound,
C04_format) + regenerated obligations checkC03 / checkC04 per format.
Tie: translator (rows, sizes from the compiled probe, statement lists of the initialisers)
+ correspondence: every accessor and initialiser on heap buffers of EXACTLY the published
header length under AddressSanitizer, results compared with the Spec."""
import pipeline
import common
from common import hexs
from props import fields as F


def published_len(gen, f):
    for gf in gen["files"]:
        if gf["file"] == f["file"]:
            facts = gen["probe_per_header"].get(gf.get("header") or "", {})
            return facts.get("macro:" + f["lenMacro"])
    return None


def c03_cases(spec, gen, rng, n_random):
    cs = common.Cases()
    for f in spec["formats"]:
        L = published_len(gen, f)
        if L is None:
            L = f["headerLen"]
        cs.add(["facts " + f["name"], "payload " + f["name"]], {"fmt": f["name"], "what": "sizes"})
        for i, fld in enumerate(f["fields"]):
            for p in F.paths_for(f, fld):
                if p in ("l", "a") and f["legacy"]["valBits"] < fld["width"]:
                    continue
                for k in range(1 + n_random):
                    b = bytes(rng.getrandbits(8) for _ in range(L))
                    v = rng.getrandbits(64)
                    if p in ("l", "a") and f["legacy"]["valBits"] == 32:
                        v %= 1 << 32
                    ops = ["buf a " + hexs(b), "get a 0 %s %d %s" % (f["name"], i, p)]
                    if p == "g" or fld["setter"] or p in ("l", "a"):
                        ops += ["set a 0 %s %d %s %d" % (f["name"], i, p, v), "dump a"]
                    cs.add(ops, {"fmt": f["name"], "what": "access:" + fld["enum"] + ":" + p})
        for p, fn in (("c", f["initFn"]), ("l", (f.get("legacy") or {}).get("initFn"))):
            if fn:
                b = bytes(rng.getrandbits(8) for _ in range(L))
                # extent only (ASan); the resulting bytes are C04's subject.  A parameterised legacy
                # initialiser is run for every small argument value and a few large ones.
                args = [" %d" % v for v in (list(range(0, 9)) + [7, 255, 256])] if (p == "l" and f["legacy"]["initArg"]) else [""]
                for arg in args:
                    cs.add(["buf a " + hexs(b), "init a 0 %s %s%s" % (f["name"], p, arg)],
                           {"fmt": f["name"], "what": "init:" + fn})
    return cs


def c04_cases(spec, rng, n):
    cs = common.Cases()
    for f in spec["formats"]:
        H = f["headerLen"]
        for p, fn in (("c", f["initFn"]), ("l", (f.get("legacy") or {}).get("initFn"))):
            if not fn:
                continue
            for k in range(n):
                kind = ("ones", "zeros", "random")[k % 3] if k < 3 else "random"
                body = bytes([0xff] * (H + 5)) if kind == "ones" else bytes(H + 5) if kind == "zeros" else \
                    bytes(rng.getrandbits(8) for _ in range(H + 5))
                arg = (" %d" % rng.choice([0, 1, 2, 255, 256, 0x1ff, rng.getrandbits(8)])) if (p == "l" and f["legacy"]["initArg"]) else ""
                # header at offset 2: 2 bytes before, 3 trailing bytes (payload) after
                line = "init a 2 %s %s%s" % (f["name"], p, arg)
                cs.add(["buf a " + hexs(body), line, "dump a", line, "dump a"],
                       {"fmt": f["name"], "what": fn, "pattern": kind})
    return cs


def check(rep, prop, tier, seed):
    rng = common.rng_for(prop, seed)
    thorough = tier == "thorough"
    spec = pipeline.spec_names()
    chk, atoms = ("checkC03", "atomsC03") if prop == "C03" else ("checkC04", "atomsC04")
    obligations = []
    for f in spec["formats"]:
        n = pipeline.lname(f["file"])
        obligations.append(("check_%s" % n, "%s Spec.%s Gen.%s = true" % (chk, n, n), "by decide +kernel"))
        if prop == "C04":
            obligations.append(("check02_%s" % n, "checkC02 Spec.%s Gen.%s = true" % (n, n), "by decide +kernel"))
    general = (["O1722.getter_accesses", "O1722.setter_accesses", "O1722.setter_frame", "O1722.C03_format",
                "O1722.getFieldLog_accesses", "O1722.setFieldLog_accesses"] if prop == "C03" else
               ["O1722.C04_format", "O1722.applyWrites_bit", "O1722.applyWrites_eq_of_sameEffect",
                "O1722.canonical_frame", "O1722.canonical_indep", "O1722.canonical_idem",
                "O1722.stepWrite_sound", "O1722.spec_writes_within", "O1722.spec_setter_names_unique"])
    atoms_expr = "[" + ", ".join("(\"%s\", %s Spec.%s Gen.%s)" % (f["name"], atoms, pipeline.lname(f["file"]), pipeline.lname(f["file"]))
                                 for f in spec["formats"]) + "]"
    res = pipeline.proof_stage(rep, prop, ["O1722.Gen.Data", "O1722.Props.Header"], obligations, general, atoms_expr)
    spec, exe = common.build_harness("asan")
    if prop == "C03":
        cs = c03_cases(spec, res["gen"], rng, 6 if thorough else 1)
        what = "accessors/initialisers on a heap buffer of exactly the published header length (ASan), and published sizes vs the Spec"
    else:
        cs = c04_cases(spec, rng, 40 if thorough else 6)
        what = "initialiser on a pre-filled buffer (twice) vs the Spec's canonical header"
    bad = F.run_differential(rep, prop, spec, exe, cs, lambda t: "%s:%s" % (t["fmt"], t["what"].split(":")[0] if prop == "C03" and t["what"].startswith("access") else t["what"]), what)
    diff_groups = {}
    for i, *_ in bad:
        diff_groups.setdefault(cs.tags[i]["fmt"], []).append(i)
    if prop == "C04":
        from props import fields as F_
        F_.c_text_accessors(rep, prop, spec, exe, rng)
    pipeline.report_proof_failures(rep, prop, res, diff_groups)
    cells = {(t["fmt"], t["what"], t.get("pattern")) for t in cs.tags}
    rep.cov.update(evaluations=len(cs.cases), distinct_nontrivial=len(cells),
                   rule="C03: every (format x field x access path) get+set and every initialiser on malloc(published header length) under ASan, "
                        "plus published macro/sizeof/offsetof vs Spec; C04: every initialiser x background {ones, zeros, random} with 2 bytes before "
                        "and 3 after the header, run twice; distinct by (format, operation, pattern)",
                   formats=len(spec["formats"]), failed_atoms=["%s:%s" % x for x in res["failed_atoms"]])
    rep.cov["samples"] = [{"ops": cs.cases[k], "tag": cs.tags[k]} for k in (0, len(cs.cases) // 2, len(cs.cases) - 1)] + \
        [{"obligation": "theorem check_most : %s Spec.most Gen.most = true := by decide" % chk}]
    rep.assumptions += ["sizeof/offsetof/macro values are those gcc reports on this host (compiled probe)",
                        "memset/memcpy behave per ISO C"]
