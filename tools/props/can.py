"""C06 — ACF-CAN message builders.

Proof: Props/Can.lean (canCreate_hist, C06_builder, C06_can_fields, C06_readback,
C06_compose) about the hand Model of Can.c / CanBrief.c (Model/Can.lean).
Tie: correspondence check of the real builders against the Model — every payload length
0..64 exhaustively plus classes up to the 9-bit limit — on exact-extent heap buffers
(ASan) with random prior header and trailing bytes; plus the C02/C03 obligations of Can.c
and CanBrief.c (the Model expresses field writes through the Spec's fields)."""
import pipeline
import common
from common import hexs


def pad(n):
    return (4 - n % 4) % 4


def cases(rng, thorough):
    cs = common.Cases()
    lengths = list(range(0, 65)) + [65, 66, 67, 68, 100, 255, 256, 257, 1000, 2027, 2028]
    if thorough:
        lengths += list(range(69, 260)) + [rng.randrange(260, 2029) for _ in range(60)]
    ids = [0, 1, 0x7ff, 0x800, (1 << 29) - 1, 1 << 29, (1 << 32) - 1]
    for fmt, H in (("Can", 16), ("CanBrief", 8)):
        for n in lengths:
            if (H + n + pad(n)) // 4 >= 512:
                continue
            reps = 3 if (thorough or n <= 64) else 1
            for r in range(reps):
                fid = rng.choice(ids + [rng.getrandbits(32), rng.getrandbits(11), rng.getrandbits(29)])
                variant = rng.choice([0, 1])
                off = rng.choice([0, 0, 4, 1, 2, 3, 5, 6, 7]) if n % 4 else rng.choice([0, 0, 4, 2])     # every placement for padded lengths
                trail = rng.choice([0, 0, 5])
                size = off + H + n + pad(n) + trail
                bgk = rng.choice(["random", "ones", "zeros"])
                bg = bytes(rng.getrandbits(8) for _ in range(size)) if bgk == "random" else bytes([0xff if bgk == "ones" else 0] * size)
                pl = bytes(rng.getrandbits(8) for _ in range(n))
                ops = ["buf a " + hexs(bg), "can_create a %d %s %d %d %s" % (off, fmt, fid, variant, hexs(pl)), "dump a"]
                if fmt == "Can":
                    ops.append("can_len a %d" % off)
                    # the separate steps on a copy
                    ops += ["buf b " + hexs(bg), "can_setpayload b %d %s" % (off, hexs(pl))]
                    ops += ["set b %d Can 5 g %d" % (off, 1 if fid > 0x7ff else 0), "set b %d Can 11 g %d" % (off, fid),
                            "set b %d Can 7 g %d" % (off, variant), "can_finalize b %d Can %d" % (off, n), "dump b"]
                else:
                    ops += ["buf b " + hexs(bg), "can_finalize b %d CanBrief %d" % (off, n), "dump b"]
                cs.add(ops, {"fmt": fmt, "len": n, "class": "0..64" if n <= 64 else "long", "bg": bgk})
    return cs


def cbmc_builders(rep, thorough):
    """CBMC on the REAL Can.c / CanBrief.c: for each payload length, for ALL payload contents, ALL
    32-bit identifiers, both variants and ALL prior buffer contents, C06 as stated
    (harness/cbmc/can_all_inputs.c), in both host byte orders.  Cached per content of the sources."""
    import hashlib
    import json
    import os
    import re
    import subprocess
    from concurrent.futures import ThreadPoolExecutor
    R = common.REPO
    harness = os.path.join(common.VERIF, "harness", "cbmc", "can_all_inputs.c")
    lib = [os.path.join(R, "src", "avtp", "acf", "Can.c"), os.path.join(R, "src", "avtp", "acf", "CanBrief.c"), os.path.join(R, "src", "avtp", "Utils.c")]
    hs = lib + [harness, os.path.join(R, "include", "avtp", "acf", "Can.h"), os.path.join(R, "include", "avtp", "acf", "CanBrief.h"),
                os.path.join(R, "include", "avtp", "Byteorder.h"), os.path.join(R, "include", "avtp", "Defines.h")]
    h = hashlib.sha256(b"".join(open(x, "rb").read() for x in hs)).hexdigest()[:16]
    lengths = list(range(0, 65)) + ([65, 66, 67, 100, 255, 256, 1000] if thorough else [])
    cache_path = os.path.join(common.BUILD, "cbmc_can_%s_%s.json" % (h, "t" if thorough else "q"))
    if os.path.exists(cache_path):
        results = json.load(open(cache_path))
    else:
        def one(job):
            n, brief, endian = job
            cmd = ["cbmc", "-DLEN=%d" % n, "-DBRIEF=%d" % brief, "-I", os.path.join(R, "include"), harness] + lib + \
                  ["--unwind", str(max(200, n + 40)), "--unwinding-assertions", "--no-standard-checks", "--object-bits", "8", "--trace"]
            if endian == "big":
                cmd += ["--big-endian", "-D__BYTE_ORDER__=__ORDER_BIG_ENDIAN__"]
            r = subprocess.run(cmd, capture_output=True, text=True, timeout=900)
            out = r.stdout
            if "VERIFICATION SUCCESSFUL" in out:
                return [n, brief, endian, "ok", [], None]
            failed = sorted(set(re.findall(r"\] line \d+ (C06: [^:]+): FAILURE", out)))
            if not failed:
                return [n, brief, endian, "tool-error", [], out[-600:] + r.stderr[-300:]]
            def arr(name, size):
                d = {}
                for m in re.finditer(r"^\s*%s\[(\d+)l?\]=(\d+)" % name, out, re.M):
                    d.setdefault(int(m.group(1)), int(m.group(2)))
                return bytes(d.get(j, 0) for j in range(size))
            H = 8 if brief else 16
            total = 4 + H + n + (4 - n % 4) % 4 + 8
            mid = re.search(r"^\s*id=(\d+)", out, re.M)
            mvar = re.search(r"^\s*variant=(\d+)", out, re.M)
            return [n, brief, endian, "fail", failed, {"buf_hex": arr("buf", total).hex(), "payload_hex": arr("payload", n).hex(),
                                                      "id": int(mid.group(1)) if mid else 0, "variant": int(mvar.group(1)) if mvar else 0}]
        jobs = [(n, b, e) for n in lengths for b in (0, 1) for e in ("little", "big")]
        with ThreadPoolExecutor(max_workers=14) as ex:
            results = list(ex.map(one, jobs))
        json.dump(results, open(cache_path, "w"))
    n_ok = 0
    for n, brief, endian, verdict, failed, cex in results:
        if verdict == "ok":
            n_ok += 1
            continue
        if verdict == "tool-error":
            raise common.ToolError("cbmc could not decide length %d brief=%d %s: %s" % (n, brief, endian, cex))
        fmt = "CanBrief" if brief else "Can"
        key = "%s:all-inputs:%s:len%%4=%d:%s" % (fmt, endian, n % 4, "0..64" if n <= 64 else "long")
        ops = ["buf a " + (cex["buf_hex"] or "-"), "can_create a 4 %s %d %d %s" % (fmt, cex["id"], cex["variant"], cex["payload_hex"] or "-"), "dump a"]
        rep.violation(key, {"kind": "real-code-violates-the-statement", "format": fmt, "payload_length": n, "host_byte_order": endian,
                            "failed_assertions": failed, "ops": ops,
                            "note": "counterexample from CBMC's trace on the real builder; the ops replay it natively (little-endian host)"})
    rep.cov["cbmc_all_inputs"] = {"payload_lengths": len(lengths), "formats": 2, "byte_orders": 2, "verified": n_ok, "runs": len(results),
                                  "statement": "for all payload contents, identifiers, variants and prior buffer contents: C06 (harness/cbmc/can_all_inputs.c)"}


def c_text_vs_real(rep, exe, cs, n):
    """The serialised C text of the builders (Gen/Cir.lean: memcpy, memset, nested calls, the regenerated
    tables in read-only data) run by the Lean C semantics vs the compiled builders on the same cases:
    correspondence check of the serialiser + semantics that the C06 code-level theorems rest on."""
    import cirrun
    gen = pipeline.translate()
    if gen.get("failed") or gen.get("cir", {}).get("failed"):
        return
    ok, log = common.lake_build(["O1722.Gen.Cir", "O1722.Gen.Data", "O1722.CSem.Eval"])
    if not ok:
        return
    step = max(1, len(cs.cases) // n)
    idx = list(range(0, len(cs.cases), step))[:n]
    mc = []
    for i in idx:
        ops = cs.cases[i]
        buf = bytes.fromhex(ops[0].split()[2]) if ops[0].split()[2] != "-" else b""
        t = ops[1].split()      # can_create a off fmt fid variant plhex
        off, fmt, fid, var = int(t[2]), t[3], int(t[4]), int(t[5])
        pl = bytes.fromhex(t[6]) if t[6] != "-" else b""
        fn = "Avtp_Can_CreateAcfMessage" if fmt == "Can" else "Avtp_CanBrief_SetPayload"
        mc.append((fn, [65536 + off, fid, 1048576, len(pl), var], list(buf), list(pl), "src/avtp/acf/Can.c" if fmt == "Can" else "src/avtp/acf/CanBrief.c"))
    res = cirrun.mem_cases(mc, "cirrun_can")
    sub = common.Cases()
    for i in idx:
        sub.add(cs.cases[i][:3])
    rcode, c_out, err = common.run_c(exe, sub.render())
    got = common.split_cases(c_out)
    nbad = 0
    for k, i in enumerate(idx):
        cl = got.get(k, [])
        t = cs.tags[i]
        want_r = "r -" if t["fmt"] == "Can" else "r " + res[k][0]
        want_d = res[k][1]
        ok_ = len(cl) >= 2 and cl[0] == want_r and cl[1].split()[-1] == (want_d if want_d else "-")
        if not ok_:
            nbad += 1
            rep.violation("%s:c-text-vs-real:len%%4=%d" % (t["fmt"], t["len"] % 4),
                          {"kind": "serialised-C-text-under-the-Lean-C-semantics-differs-from-the-compiled-code", "ops": cs.cases[i][:3],
                           "observed_real_code": cl, "c_text_under_CSem": list(res[k]),
                           "note": "'stuck' = the C semantics met undefined behaviour or ran out of fuel"})
    rep.cov["c_text_vs_real"] = {"cases": len(idx), "disagreements": nbad,
                                 "what": "Gen/Cir.lean (Avtp_Can_CreateAcfMessage, Avtp_CanBrief_SetPayload and everything they call) interpreted by CSem/Eval.lean vs the compiled library"}


def check(rep, prop, tier, seed):
    rng = common.rng_for(prop, seed)
    thorough = tier == "thorough"
    obligations = []
    for n in ("can", "canBrief"):
        for c in ("checkC02", "checkC03"):
            obligations.append(("%s_%s" % (c, n), "%s Spec.%s Gen.%s = true" % (c, n, n), "by decide +kernel"))
    obligations.append(("algorithmic_functions_are_the_modelled_ones",
                        "(Gen.can.algorithmic.map (·.1), Gen.canBrief.algorithmic.map (·.1)) = "
                        "([\"Avtp_Can_CreateAcfMessage\", \"Avtp_Can_Finalize\", \"Avtp_Can_SetPayload\", \"Avtp_Can_GetCanPayloadLength\"], "
                        "[\"Avtp_CanBrief_SetPayload\", \"Avtp_CanBrief_Finalize\"])", "by decide"))
    general = ["O1722.canCreate_hist", "O1722.C06_builder", "O1722.C06_can_fields", "O1722.C06_readback",
               "O1722.C06_compose", "O1722.can_layout_ok", "O1722.canFinalize_eq"]
    atoms_expr = "[(\"Can\", (atomsC02 Spec.can Gen.can) ++ (atomsC03 Spec.can Gen.can)), (\"CanBrief\", (atomsC02 Spec.canBrief Gen.canBrief) ++ (atomsC03 Spec.canBrief Gen.canBrief))]"
    res = pipeline.proof_stage(rep, prop, ["O1722.Gen.Data", "O1722.Props.Can"], obligations, general, atoms_expr)
    spec, exe = common.build_harness("asan")
    cs = cases(rng, thorough)
    bad = common.differential(exe, cs)
    diff_groups = {}
    seen = set()
    for i, kind, c_lines, l_lines, err in bad:
        t = cs.tags[i]
        key = "%s:len%%4=%d:%s" % (t["fmt"], t["len"] % 4, t["class"])
        if key in seen:
            continue
        seen.add(key)
        rep.violation(key, {"kind": "builder-differs-from-model" if kind == "diff" else "sanitizer-abort", "case": t,
                            "ops": cs.cases[i], "observed_real_code": c_lines, "expected_by_model": l_lines, "stderr": err[-1200:]})
        diff_groups.setdefault(t["fmt"], []).append(i)
    cbmc_builders(rep, thorough)
    c_text_vs_real(rep, exe, cs, 400 if thorough else 90)
    pipeline.report_proof_failures(rep, prop, res, diff_groups)
    cells = {(t["fmt"], t["len"]) for t in cs.tags}
    rep.cov.update(evaluations=len(cs.cases), distinct_nontrivial=len(cells),
                   rule="per (format, payload length): build on an exact-extent heap buffer (ASan) with random/ones/zeros prior header and trailing bytes, "
                        "identifiers {0, 0x7ff, 0x800, 2^29-1, 2^29, 2^32-1, random}, both variants; full: read-back of the payload length and the "
                        "separate copy+field+finalise steps on a copy; distinct = (format, length)",
                   lengths_0_to_64_exhaustive=True, failed_atoms=["%s:%s" % x for x in res["failed_atoms"]])
    rep.cov["samples"] = [{"ops": cs.cases[5]}, {"theorem": "C06_builder", "quantifies": "all memories, addresses, 32-bit identifiers, variants, payloads with length < 2^16"}]
    rep.assumptions += ["the Model of Can.c/CanBrief.c is tied to the C text by sampling (exhaustive over lengths 0..64, classes above), not by proof",
                        "memcpy source and destination do not overlap"]
