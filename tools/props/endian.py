"""C14 — wire bytes do not depend on host endianness.

Proof: Props/Endian.lean (rdBe_indep / wrBe_indep, getField_endian, setField_endian,
accessors_endian, init_endian, vss_endian, vss_strings_endian) on top of
beCpuN_load / store_beCpuN for both byte orders.
Tie: little-endian natively (all other checks); big-endian by CBMC used as an interpreter of
the REAL sources under a big-endian memory model (`--big-endian
-D__BYTE_ORDER__=__ORDER_BIG_ENDIAN__`) on concrete generated inputs whose expected results
come from the Lean driver."""
import os
import re
import subprocess
import pipeline
import common
from common import hexs


def carr(bs):
    return "{" + ",".join(str(b) for b in bs) + "}" if len(bs) else "{0}"


def gen_cases(rng, thorough):
    """returns list of dicts: ops for the driver (to get expectations) + C code template"""
    cases = []
    # 1. raw reader/writer on descriptor shapes
    shapes = [(0, 0, 8), (0, 7, 9), (0, 31, 1), (1, 0, 64), (0, 31, 64), (0, 4, 40), (3, 3, 29), (0, 16, 48), (2, 13, 33), (0, 0, 0), (0, 1, 63)]
    shapes += [(rng.randrange(0, 3), rng.randrange(32), rng.randrange(65)) for _ in range(40 if thorough else 14)]
    for q, o, b in shapes:
        n = 4 * (q + (o + b + 31) // 32) + 4
        bg = bytes(rng.getrandbits(8) for _ in range(n))
        v = rng.getrandbits(64)
        cases.append({"kind": "raw", "desc": [q, o, b], "bg": bg, "v": v,
                      "ops": ["buf a " + hexs(bg), "uget a 0 %d %d %d B" % (q, o, b), "uset a 0 %d %d %d B %d" % (q, o, b, v), "dump a"]})
    # 2. byte-order helpers on a big-endian host
    for h in ("Avtp_CpuToLe%d", "Avtp_CpuToBe%d", "Avtp_LeToCpu%d", "Avtp_BeToCpu%d", "Avtp_Bswap%d"):
        for bits in (16, 32, 64):
            x = rng.getrandbits(bits) | (1 << (bits - 1))
            cases.append({"kind": "bo", "helper": h % bits, "bits": bits, "x": x, "ops": ["boe B %s %d" % (h % bits, x)]})
    # 3. CAN builders
    for fmt, H in (("Can", 16), ("CanBrief", 8)):
        for n in (0, 1, 5, 8) + ((13, 64) if thorough else ()):
            pad = (4 - n % 4) % 4
            bg = bytes(rng.getrandbits(8) for _ in range(H + n + pad + 2))
            pl = bytes(rng.getrandbits(8) for _ in range(n))
            fid = rng.choice([0x7ff, 0x800, rng.getrandbits(29)])
            var = rng.choice([0, 1])
            cases.append({"kind": "can", "fmt": fmt, "bg": bg, "pl": pl, "fid": fid, "var": var,
                          "ops": ["buf a " + hexs(bg), "can_create a 0 %s %d %d %s" % (fmt, fid, var, hexs(pl)), "dump a"]})
    # 4. VSS: header with given mode/datatype, set path, set data, read back
    def hdr(mode, code):
        h = bytearray(rng.getrandbits(8) for _ in range(12))
        h[2] = (h[2] & 0xE7) | (mode << 3)
        h[3] = code
        return h
    vss = [(1, 2, ("s", 0x1234)), (1, 4, ("s", 0xdeadbeef)), (0, 6, ("s", 0x0102030405060708)), (0, 9, ("s", 0x3fc00001)),
           (1, 0xA, ("s", 0x400921fb54442d18)), (0, 0xB, ("b", b"abc")), (1, 0x82, ("e", 2, [1, 0xfffe, 0x1234])),
           (0, 0x84, ("e", 4, [0xdeadbeef, 7])), (1, 0x8A, ("e", 8, [0x400921fb54442d18])), (0, 0x80, ("b", b"\x01\x02")),
           # declared byte length NOT a multiple of the element size (a partial trailing element):
           # only whole elements are converted, on either host
           (0, 0x82, ("e", 2, [1, 0xfffe, 0x1234], -1)), (1, 0x84, ("e", 4, [0xdeadbeef, 7, 0x01020304], -3)),
           (0, 0x86, ("e", 8, [0x0102030405060708, 0x1122334455667788], -5)), (1, 0x89, ("e", 4, [0x3fc00000, 0x40490fdb], -2)),
           (0, 0x8A, ("e", 8, [0x400921fb54442d18, 0x3ff0000000000000], -1)), (1, 0x83, ("e", 2, [0x8001, 2], -1))]
    for mode, code, v in vss:
        path = ("sid", rng.getrandbits(32)) if mode == 1 else ("path", b"V.Sp")
        ep = (4 if mode == 1 else 2 + len(path[1]))
        ev = {"s": lambda: {0: 1, 1: 1, 2: 2, 3: 2, 4: 4, 5: 4, 6: 8, 7: 8, 8: 1, 9: 4, 0xA: 8}[code],
              "b": lambda: 2 + len(v[1]), "e": lambda: 2 + v[1] * len(v[2])}[v[0]]()
        bg = bytearray(rng.getrandbits(8) for _ in range(12 + ep + ev + 2))
        bg[0:12] = hdr(mode, code)
        pl = "vss_setpath a 0 %d %s %d" % ((len(path[1]), hexs(path[1]), 0) if path[0] == "path" else (0, "-", path[1]))
        if v[0] == "s":
            dl = "vss_setdata a 0 s %d" % v[1]
        elif v[0] == "b":
            dl = "vss_setdata a 0 b %d %s" % (len(v[1]), hexs(v[1]))
        else:
            dl = "vss_setdata a 0 e %d %s" % (v[1] * len(v[2]) + (v[3] if len(v) > 3 else 0), ",".join(str(x) for x in v[2]))
        cases.append({"kind": "vss", "mode": mode, "code": code, "v": v, "path": path, "bg": bytes(bg),
                      "ops": ["buf a " + hexs(bg), pl, dl, "dump a", "vss_calc a 0", "vss_getdata a 0 1"]})
    return cases


def c_for(i, c, exp):
    """C block for case i given the driver's expected output lines"""
    L = ["  { /* case %d: %s */" % (i, c["kind"])]

    def expect_bytes(name, hexstr, what):
        bs = bytes.fromhex(hexstr) if hexstr != "-" else b""
        L.append("    static const uint8_t e%d_%s[] = %s;" % (i, what, carr(bs)))
        L.append("    for (unsigned k = 0; k < %d; k++) __CPROVER_assert(%s[k] == e%d_%s[k], \"case %d %s\");" % (len(bs), name, i, what, i, what))

    if c["kind"] == "raw":
        q, o, b = c["desc"]
        L.append("    uint8_t buf[] = %s;" % carr(c["bg"]))
        L.append("    Avtp_FieldDescriptor_t d = {%d, %d, %d};" % (q, o, b))
        L.append("    uint64_t v = Avtp_GetField(&d, 1, buf, 0);")
        L.append("    __CPROVER_assert(v == %sULL, \"case %d get\");" % (exp[0].split()[1], i))
        L.append("    Avtp_SetField(&d, 1, buf, 0, %dULL);" % c["v"])
        expect_bytes("buf", exp[1].split()[1], "set")
    elif c["kind"] == "bo":
        t = "uint%d_t" % c["bits"]
        L.append("    %s r = %s((%s)%dULL);" % (t, c["helper"], t, c["x"]))
        L.append("    __CPROVER_assert(r == (%s)%sULL, \"case %d value\");" % (t, exp[0].split()[1], i))
        L.append("    uint8_t img[%d]; memcpy(img, &r, sizeof r);" % (c["bits"] // 8))
        expect_bytes("img", exp[0].split()[2], "image")
    elif c["kind"] == "can":
        L.append("    uint8_t buf[] = %s;" % carr(c["bg"]))
        L.append("    uint8_t pl[] = %s;" % carr(c["pl"]))
        if c["fmt"] == "Can":
            L.append("    Avtp_Can_CreateAcfMessage((Avtp_Can_t*)buf, %uu, pl, %d, %d);" % (c["fid"], len(c["pl"]), c["var"]))
        else:
            L.append("    int r = Avtp_CanBrief_SetPayload((Avtp_CanBrief_t*)buf, %uu, pl, %d, %d);" % (c["fid"], len(c["pl"]), c["var"]))
            L.append("    __CPROVER_assert(r == %s, \"case %d ret\");" % (exp[0].split()[1], i))
        expect_bytes("buf", exp[1].split()[1], "msg")
    else:
        v = c["v"]
        L.append("    uint8_t buf[] = %s;" % carr(c["bg"]))
        L.append("    VssPath_t p; memset(&p, 0, sizeof p);")
        if c["path"][0] == "sid":
            L.append("    p.vss_static_id_path = %uu;" % c["path"][1])
        else:
            L.append("    char pth[] = %s; p.vss_interop_path.path_length = %d; p.vss_interop_path.path = pth;" % (carr(c["path"][1]), len(c["path"][1])))
        L.append("    Avtp_Vss_SetVssPath((Avtp_Vss_t*)buf, &p);")
        L.append("    VssData_t d; memset(&d, 0, sizeof d);")
        code = c["code"]
        if v[0] == "s":
            mem = {2: "data_uint16", 4: "data_uint32", 6: "data_uint64"}.get(code)
            if mem:
                L.append("    d.%s = %dULL;" % (mem, v[1]))
            elif code == 9:
                L.append("    { uint32_t t = %uu; memcpy(&d.data_float, &t, 4); }" % v[1])
            else:
                L.append("    { uint64_t t = %dULL; memcpy(&d.data_double, &t, 8); }" % v[1])
            L.append("    Avtp_Vss_SetVssData((Avtp_Vss_t*)buf, &d);")
        elif v[0] == "b":
            L.append("    uint8_t bl[] = %s; VssDataUint8Array_t arr = { %d, bl }; d.data_uint8_array = &arr;" % (carr(v[1]), len(v[1])))
            L.append("    Avtp_Vss_SetVssData((Avtp_Vss_t*)buf, &d);")
        else:
            k = v[1]
            ct = {2: "uint16_t", 4: "uint32_t", 8: "uint64_t"}[k]
            L.append("    %s el[] = {%s}; VssDataUint16Array_t arr = { %d, (uint16_t*)el }; d.data_uint16_array = &arr;" % (
                ct, ",".join("%dULL" % x for x in v[2]), k * len(v[2]) + (v[3] if len(v) > 3 else 0)))
            L.append("    Avtp_Vss_SetVssData((Avtp_Vss_t*)buf, &d);")
        expect_bytes("buf", exp[0].split()[1], "enc")
        L.append("    __CPROVER_assert(Avtp_Vss_CalcVssPathLength((Avtp_Vss_t*)buf) == %s, \"case %d calc\");" % (exp[1].split()[1], i))
        # decode
        if v[0] == "s":
            L.append("    VssData_t o; memset(&o, 0, sizeof o); Avtp_Vss_GetVssData((Avtp_Vss_t*)buf, &o);")
            L.append("    { uint64_t got = 0; memcpy(&got, &o, %d); uint64_t want = 0; %s w = (%s)%dULL; memcpy(&want, &w, %d); __CPROVER_assert(got == want, \"case %d decode\"); }" % (
                {2: 2, 4: 4, 6: 8, 9: 4, 0xA: 8}[code], {2: "uint16_t", 4: "uint32_t", 6: "uint64_t", 9: "uint32_t", 0xA: "uint64_t"}[code],
                {2: "uint16_t", 4: "uint32_t", 6: "uint64_t", 9: "uint32_t", 0xA: "uint64_t"}[code], v[1], {2: 2, 4: 4, 6: 8, 9: 4, 0xA: 8}[code], i))
        elif v[0] == "e":
            k = v[1]
            ct = {2: "uint16_t", 4: "uint32_t", 8: "uint64_t"}[k]
            L.append("    %s out[%d]; VssDataUint16Array_t oa = { 0, (uint16_t*)out }; VssData_t o; o.data_uint16_array = &oa;" % (ct, max(1, len(v[2]))))
            L.append("    Avtp_Vss_GetVssData((Avtp_Vss_t*)buf, &o);")
            declared = k * len(v[2]) + (v[3] if len(v) > 3 else 0)
            L.append("    __CPROVER_assert(oa.data_length == %d, \"case %d decode-len\");" % (declared, i))
            for j, x in enumerate(v[2][:declared // k]):          # whole elements only
                L.append("    __CPROVER_assert(out[%d] == (%s)%dULL, \"case %d decode\");" % (j, ct, x, i))
    L.append("  }")
    return "\n".join(L)


def check(rep, prop, tier, seed):
    rng = common.rng_for(prop, seed)
    thorough = tier == "thorough"
    spec = pipeline.spec_names()
    names = [(f, pipeline.lname(f["file"])) for f in spec["formats"]]
    obligations = []
    for f, n in names:
        obligations.append(("rows_%s" % n, "checkRows Spec.%s Gen.%s = true" % (n, n), "by decide +kernel"))
    general = ["O1722.rdBe_indep", "O1722.wrBe_indep", "O1722.getField_endian", "O1722.setField_endian", "O1722.accessors_endian",
               "O1722.init_endian", "O1722.vss_endian", "O1722.vss_strings_endian", "O1722.beCpu16_load", "O1722.beCpu32_load",
               "O1722.beCpu64_load", "O1722.store_beCpu16", "O1722.store_beCpu32", "O1722.store_beCpu64"]
    atoms_expr = "[" + ", ".join("(\"%s\", [(\"rows\", checkRows Spec.%s Gen.%s)])" % (f["name"], n, n) for f, n in names) + "]"
    # the model's only host-dependent ingredient is the helper set: regenerate it and require that the
    # host byte order enters the sources nowhere else
    from props import byteorder as BO
    BO.regenerate()
    obligations += [("helpers_little", "Gen.helpers_little = modelHelpers .little", "by decide"),
                    ("helpers_big", "Gen.helpers_big = modelHelpers .big", "by decide")] + BO.ENDIAN_SURFACE
    res = pipeline.proof_stage(rep, prop, ["O1722.Gen.Data", "O1722.Gen.Byteorder", "O1722.Props.Endian", "O1722.Props.Byteorder"], obligations, general, atoms_expr)
    # the Byteorder.h big-endian branch must be the Model's (same obligations as C13)
    import byteorder as bo_tr
    bo = bo_tr.translate(common.REPO)
    diff_groups = {}
    want_big = {h: ("id" if ("ToBe" in h or "BeTo" in h) else "swap") for h in bo_tr.HELPERS}
    for h, k in want_big.items():
        if bo["helpers"]["big"].get(h) != k:
            rep.violation("Byteorder:big-endian-branch:" + h, {"kind": "helper-selection", "helper": h, "header_says": bo["helpers"]["big"].get(h),
                                                               "must_be": k}, no_input=True)
    # ---- big-endian interpretation of the real sources by CBMC ----------------------------
    cases = gen_cases(rng, thorough)
    txt = "".join("case %d\n%s\n" % (i, "\n".join(c["ops"])) for i, c in enumerate(cases))
    exp = common.split_cases(common.run_lean(txt))
    cdir = os.path.join(common.BUILD, "c14")
    os.makedirs(cdir, exist_ok=True)
    head = ['#include <stdint.h>', '#include <string.h>', '#include "avtp/Utils.h"', '#include "avtp/Byteorder.h"',
            '#include "avtp/acf/Can.h"', '#include "avtp/acf/CanBrief.h"', '#include "avtp/acf/custom/Vss.h"', "int main(void) {"]
    R = common.REPO
    nchunks = 8
    import concurrent.futures as cf

    def run_chunk(k):
        idxs = [i for i in range(len(cases)) if i % nchunks == k]
        src = list(head) + [c_for(i, cases[i], exp[i]) for i in idxs] + ["  return 0;\n}"]
        cfile = os.path.join(cdir, "be_cases_%d.c" % k)
        open(cfile, "w").write("\n".join(src))
        cmd = ["cbmc", "--big-endian", "-D__BYTE_ORDER__=__ORDER_BIG_ENDIAN__", "-I", os.path.join(R, "include"), cfile,
               os.path.join(R, "src/avtp/Utils.c"), os.path.join(R, "src/avtp/acf/Can.c"), os.path.join(R, "src/avtp/acf/CanBrief.c"),
               os.path.join(R, "src/avtp/acf/custom/Vss.c"), "--unwind", "70", "--no-unwinding-assertions", "--no-standard-checks",
               "--object-bits", "12"]
        p = subprocess.run(cmd, capture_output=True, text=True, timeout=1500)
        return cmd, p.stdout, p.stderr

    with cf.ThreadPoolExecutor(max_workers=nchunks) as ex:
        results = list(ex.map(run_chunk, range(nchunks)))
    out = ""
    for cmd, o, e in results:
        if "VERIFICATION" not in o:
            raise common.ToolError("cbmc did not finish: " + (o + e)[-2000:])
        out += o
    nfail = 0
    for m in re.finditer(r"\] line \d+ (case (\d+) [^:]+): FAILURE", out):
        i = int(m.group(2))
        nfail += 1
        c = cases[i]
        rep.violation("big-endian:%s:%s" % (c["kind"], c.get("helper") or c.get("fmt") or c.get("code") or c.get("desc")),
                      {"kind": "big-endian-build-differs", "assertion": m.group(1), "case": {k: (v.hex() if isinstance(v, (bytes, bytearray)) else v) for k, v in c.items() if k != "ops"},
                       "expected_from_model": exp[i], "how": " ".join(results[0][0][:6]) + " ... (build/c14/be_cases_%d.c)" % (i % nchunks)})
        diff_groups["*"] = [i]
    nassert = len(re.findall(r"\] line \d+ case \d+", out))
    # ---- the same cases on the little-endian build (natively), against the same expectations:
    # a host-order-dependent path that is wrong only on little-endian hosts differs HERE from what the
    # big-endian interpretation (and the Model) give (seed C14-7)
    spec_, exe = common.build_harness("asan")
    le = common.Cases()
    le_idx = []
    for i, c in enumerate(cases):
        if c["kind"] == "bo":
            continue
        le.add([re.sub(r" B( |$)", r" L\1", o) for o in c["ops"]])
        le_idx.append(i)
    rcode, c_out, err = common.run_c(exe, le.render())
    got = common.split_cases(c_out)
    n_le_bad = 0
    for k, i in enumerate(le_idx):
        g = [x for x in got.get(k, []) if x != "bad-op"]
        w = [x for x in exp.get(i, []) if x != "bad-op"]
        if g != w:
            n_le_bad += 1
            c = cases[i]
            rep.violation("little-endian:%s:%s" % (c["kind"], c.get("fmt") or c.get("code") or c.get("desc")),
                          {"kind": "little-endian-build-differs-from-the-big-endian-result", "ops": le.cases[k], "observed_little_endian_build": g,
                           "expected_same_as_big_endian_and_model": w, "stderr": err[-600:] if rcode else ""})
            diff_groups["*"] = [i]
    rep.cov["little_endian_native_cases"] = {"cases": len(le_idx), "disagreements": n_le_bad}
    pipeline.report_proof_failures(rep, prop, res, diff_groups)
    kinds = {(c["kind"], str(c.get("helper") or c.get("fmt") or c.get("code") or c.get("desc"))) for c in cases}
    rep.cov.update(evaluations=len(cases), distinct_nontrivial=len(kinds), cbmc_assertions=nassert, cbmc_failures=nfail,
                   rule="concrete cases executed by CBMC as a big-endian interpreter of the real Utils.c/Can.c/CanBrief.c/Vss.c/Byteorder.h with "
                        "-D__BYTE_ORDER__=__ORDER_BIG_ENDIAN__: raw reader/writer on descriptor shapes, the 15 byte-order functions x 3 widths (value and "
                        "memory image), CAN builders, VSS path+value encode/decode for scalar, float, string and array datatypes; expected results from the Lean Model",
                   failed_atoms=["%s:%s" % x for x in res["failed_atoms"]])
    rep.cov["samples"] = [{"ops": cases[0]["ops"], "expected": exp[0]}, {"theorem": "vss_endian, accessors_endian"}]
    rep.assumptions += ["CBMC's --big-endian memory model stands in for a big-endian machine", "floats share the integers' byte order on the host"]
