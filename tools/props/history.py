"""C05 — a PDU behaves as a record of independent fields under any history.

Proof: Props/History.lean (history_field, history_bits, history_frame, specSet_comm,
specSet_idem; Spec.spec_fields_disjoint) at the Spec level, connected to the real entry
points by the C02 / C04 / C11 / C12 obligations of every format.
Tie: generated histories (init / set through any entry point / get), interleaved over
several buffers of several formats, on the real library vs the Spec driver."""
import pipeline
import common
from common import hexs
from props import fields as F


def gen_history(spec, rng, nbuf, nops):
    fmts = spec["formats"]
    lines = []
    bufs = []
    for b in range(nbuf):
        f = rng.choice(fmts)
        off = rng.choice([0, 0, 4, 8])
        tail = rng.choice([0, 3, 8])
        H = f["headerLen"]
        kind = rng.choice(["random", "zeros", "ones"])
        body = bytes(rng.getrandbits(8) for _ in range(off + H + tail)) if kind == "random" else \
            bytes([0 if kind == "zeros" else 0xff] * (off + H + tail))
        bid = "b%d" % b
        lines.append("buf %s %s" % (bid, hexs(body)))
        bufs.append((bid, f, off))
    used = set()
    last = {}
    for _ in range(nops):
        bid, f, off = rng.choice(bufs)
        r = rng.random()
        leg = f.get("legacy")
        if r < 0.08 and (f["initFn"] or (leg and leg["initFn"])):
            choices = ([("c", "")] if f["initFn"] else []) + \
                ([("l", " %d" % rng.randrange(300) if leg["initArg"] else "")] if leg and leg["initFn"] else [])
            p, arg = rng.choice(choices)
            lines.append("init %s %d %s %s%s" % (bid, off, f["name"], p, arg))
            used.add((f["name"], "init", p))
        elif r < 0.75:
            i = rng.randrange(len(f["fields"]))
            fld = f["fields"][i]
            p = rng.choice(F.paths_for(f, fld, setter=True))
            w = fld["width"]
            v = rng.choice([0, 1, (1 << w) - 1, 1 << w, rng.getrandbits(w) if w else 0, rng.getrandbits(64)]) % (1 << 64)
            prev = last.get((bid, i))
            if prev is not None and w >= 2 and rng.random() < 0.35:
                # related to the last value written to this field: same low half, one bit flipped, ...
                v = rng.choice([prev % (1 << (w // 2)), prev ^ (1 << (w - 1)), prev, prev % (1 << 32), (prev & 0xff) | (rng.getrandbits(w) & ~0xff)]) % (1 << w)
            last[(bid, i)] = v % (1 << w) if w else 0
            if p in ("l", "a") and leg["valBits"] == 32:
                v %= 1 << 32
            lines.append("set %s %d %s %d %s %d" % (bid, off, f["name"], i, p, v))
            used.add((f["name"], fld["enum"], p))
            if rng.random() < 0.15:     # repeat the same write
                lines.append(lines[-1])
        else:
            i = rng.randrange(len(f["fields"]))
            fld = f["fields"][i]
            ps = [p for p in F.paths_for(f, fld) if not (p in ("l", "a") and leg["valBits"] < fld["width"])]
            lines.append("get %s %d %s %d %s" % (bid, off, f["name"], i, rng.choice(ps)))
        if rng.random() < 0.1:
            lines.append("dump " + bid)
    for bid, f, off in bufs:
        lines.append("dump " + bid)
        for i in range(len(f["fields"])):
            lines.append("get %s %d %s %d g" % (bid, off, f["name"], i))
    return lines, used


def minimise(exe, lines):
    """delta-minimise a failing history (keeps `buf` lines)"""
    def fails(ls):
        cs = common.Cases()
        cs.add(ls)
        return bool(common.differential(exe, cs))
    cur = list(lines)
    n = 2
    while len(cur) > 2 and n <= len(cur):
        chunk = max(1, len(cur) // n)
        reduced = False
        for k in range(0, len(cur), chunk):
            cand = [l for idx, l in enumerate(cur) if not (k <= idx < k + chunk) or l.startswith("buf ")]
            if len(cand) < len(cur) and fails(cand):
                cur = cand
                n = max(2, n - 1)
                reduced = True
                break
        if not reduced:
            if chunk == 1:
                break
            n = min(len(cur), n * 2)
    return cur


def check(rep, prop, tier, seed):
    rng = common.rng_for(prop, seed)
    thorough = tier == "thorough"
    spec = pipeline.spec_names()
    names = [(f, pipeline.lname(f["file"])) for f in spec["formats"]]
    obligations = []
    for f, n in names:
        for c in ("checkC02", "checkC04", "checkC11"):
            obligations.append(("%s_%s" % (c, n), "%s Spec.%s Gen.%s = true" % (c, n, n), "by decide +kernel"))
        obligations.append(("disjoint_%s" % n, "fieldsDisjoint Spec.%s = true" % n, "by decide +kernel"))
    general = ["O1722.history_field", "O1722.history_bits", "O1722.history_frame", "O1722.specSet_comm",
               "O1722.specSet_idem", "O1722.runHist_eq_runRev", "O1722.spec_fields_disjoint",
               "O1722.C02_format", "O1722.C04_format", "O1722.legacySet_eq_current"]
    atoms_expr = "[" + ", ".join("(\"%s\", (atomsC02 Spec.%s Gen.%s) ++ (atomsC04 Spec.%s Gen.%s) ++ [(\"fields-disjoint\", fieldsDisjoint Spec.%s)])" % (f["name"], n, n, n, n, n) for f, n in names) + "]"
    res = pipeline.proof_stage(rep, prop, ["O1722.Gen.Data", "O1722.Props.History"], obligations, general, atoms_expr)
    spec, exe = common.build_harness("asan")
    cs = common.Cases()
    used = set()
    nh = 400 if thorough else 60
    for k in range(nh):
        lines, u = gen_history(spec, rng, rng.randrange(1, 5), rng.randrange(5, 400 if thorough else 120))
        cs.add(lines, {"history": k, "ops": len(lines)})
        used |= u
    bad = common.differential(exe, cs)
    diff_groups = {}
    for i, kind, c_lines, l_lines, err in bad[:3]:
        small = minimise(exe, cs.cases[i])
        c2 = common.Cases()
        c2.add(small)
        b2 = common.differential(exe, c2)
        fm = sorted({l.split()[3] for l in small if l.split()[0] in ("set", "get", "init")})
        key = "history:" + "+".join(fm) + ":" + ";".join(l.split()[0] + ":" + ":".join(l.split()[3:6]) for l in small if not l.startswith("buf"))[:120]
        rep.violation(key, {"kind": "history-differs-from-record-semantics" if kind == "diff" else "sanitizer-abort",
                            "minimised_ops": small, "original_length": len(cs.cases[i]),
                            "observed_real_code": b2[0][2] if b2 else c_lines[-6:], "expected_by_spec": b2[0][3] if b2 else l_lines[-6:],
                            "stderr": err[-1200:]})
        for x in fm:
            diff_groups.setdefault(x, []).append(i)
    pipeline.report_proof_failures(rep, prop, res, diff_groups)
    total_ops = sum(len(c) for c in cs.cases)
    rep.cov.update(evaluations=total_ops, distinct_nontrivial=len(used),
                   rule="random histories (1-4 buffers of random formats at offsets 0/4/8 with trailing bytes; ops: init current/legacy, set via generic/"
                        "dedicated/legacy/alias with boundary and random values, repeats, gets, dumps; final dump + read of every field); "
                        "distinct = (format, field-or-init, entry path) combinations exercised by a write",
                   histories=len(cs.cases), failed_atoms=["%s:%s" % x for x in res["failed_atoms"]])
    rep.cov["samples"] = [{"history_ops": cs.cases[0][:12], "length": len(cs.cases[0])},
                          {"obligation": "theorem %s : %s := %s" % obligations[0]}]
    rep.assumptions += ["operations on one buffer are modelled as pure functions of that buffer's bytes; absence of hidden state is C16's obligation"]
